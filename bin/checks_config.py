"""Per-property configuration of bin/check: Lean targets (property theorems), correspondence
streams with the projections / oracle classes that belong to the property, claimed level.

A stream entry: name, quick_n / thorough_n (random cases), `projections` = which parts of a
disagreeing answer make the disagreement relevant to THIS property (None = any), `kinds` = which
request kinds (first word of the case) are relevant (None = any), `oracles` = fnmatch patterns
of implementation-side oracle classes that are violations of THIS property."""

COMMON_TRUSTED_BASE = [
    "Lean 4.33.0 kernel (and leanchecker in the thorough tier); axioms limited to propext, Classical.choice, Quot.sound (audited by #print axioms on every run)",
    "the hand-written Lean model under lean/Yae/Model is tied to /repo by differential execution (harness/cmd/corr, built against /repo with -tags verif on every run), not derived from the source",
    "harness/cmd/extract (regenerates lean/Yae/Gen from the running packages and from a go/ast scan) and the canonicalisation of answers in the harness",
    "Go runtime and standard library (strconv, regexp, sort, reflect, unicode, math, time), cgo timelib, amd64 float->int conversion; Lean Float = IEEE binary64 for + - * / and pow",
    "Go's regexp is assumed to compute the leftmost-first reference semantics of Yae/Spec/Regex.lean on the lexer's twelve expressions (tied by the regex cases of the lex stream); the pattern texts themselves are read from the Go source on every run",
    "the source-derived inventories (shared write sites, panic guards, lexer patterns) are go/ast scans of named files; the call structure behind C12.contained_partial is hand-modelled",
    "the line-protocol driver (lean/Yae/Driver*, S-expression codecs on both sides) transports requests and answers and is not verified; a codec error shows as a disagreement, never as agreement, because the two sides encode independently",
    "the engine object (lean/Yae/Model/Engine.lean) models facade.go's Expr as far as registrations, operator registrations, compiler choice, UseBuiltIn, Compile and invocation go; user translators, the debug writer, function tables of the environments themselves and whatever a real host function does besides returning its value are outside the model",
]

TECH = "Lean 4 theorems over an executable model + model/implementation correspondence + regenerated tables"

CHECKS = {}

EVAL = lambda q, t, **kw: dict({"name": "eval", "quick_n": q, "thorough_n": t}, **kw)
VM = lambda q, t, **kw: dict({"name": "vm", "quick_n": q, "thorough_n": t}, **kw)

CHECKS["C01"] = {
    "gen_ties": ["Builtins"],
    "level": "proof",
    "lean_targets": ["Yae.Props.C01", "Yae.Props.Api"],
    "streams": [
        EVAL(4000, 60000, kinds=["run"], projections=["skeleton"], oracles=["wf"]),
        VM(1500, 20000, kinds=["vmrun"], projections=["skeleton"], oracles=["wf"]),
        {"name": "envcheck", "quick_n": 1500, "thorough_n": 20000, "oracles_only": True, "oracles": ["envcheck-wrong-result", "envcheck-result-ill-formed"]},
        {"name": "conv", "quick_n": 3000, "thorough_n": 40000, "oracles_only": True, "oracles": ["conv-wf"]},
        {"name": "engine", "quick_n": 1500, "thorough_n": 20000, "model_is_oracle": True, "oracles": ["api-panic", "process-crash"]},
    ],
    "explanation": "Preservation is a theorem over the model: check Γ e = ok (T, e') and a conforming environment imply every value eval produces is deeply well formed (WF) with own type tyEq T, irrespective of object field order (C01.preservation, annotated_sound, check_annotated, builtin_sound for all 53 strict built-ins, host_respects, field_order, no_nil); the VM inherits it through C03. The model is tied to the code by the eval/vm streams under the type-skeleton projection, and the implementation-side oracle walks every result of all four back ends against the inferred type with types.Equals. At the boundary: whatever environment the check ACCEPTS, the value produced is well formed (envcheck stream, object-literal results through which every variable flows: envcheck-result-ill-formed), and every value the reflection layer hands over is well formed at every step of a history of conversions of one Go type (conv stream: conv-wf). The engine stream (API histories on one yae.Expr against Engine.run, with overload sets registered in both orders) compares the values produced through the public API with the model's, whose values are well typed by the theorem. Through the public API, for EVERY history of calls on a fresh engine (registrations, operator registrations, compiler switches, compilations, invocations of any earlier Callable; Model/Engine.lean): every invocation output is no-callable, an environment error with an empty event log, a value with the type inferred at compile time, or an allowed failure (ApiProps.api_sound, api_sound_early, api_sound_poly, api_sound_same_type); the one condition - with the late-binding compiler interp, no monomorphic key a call was resolved to is registered again with another type between compilation and invocation - cannot be dropped (kernel-checked witness late_binding_breaks_soundness).",
    "assumptions": ["host functions respect their registered signature (hostRespects, decidable for the harness's host zoo); type-variable names of registered signatures do not start with s/t (okVars; true of the built-in table by decide)"],
}

CHECKS["C02"] = {
    "gen_ties": ["Builtins", "Vm"],
    "level": "proof",
    "lean_targets": ["Yae.Props.C02", "Yae.Props.C11", "Yae.Props.Api"],
    "streams": [
        EVAL(4000, 60000, kinds=["run", "pipeline"], projections=["class"], model_is_oracle=True,
             oracles=["internal-fault", "compile-internal-fault", "check-internal-fault", "process-crash"]),
        VM(1500, 20000, kinds=["vmrun", "verify"], projections=["class", "verify"], oracles=["compile-internal-fault", "process-crash"]),
        {"name": "engine", "quick_n": 1500, "thorough_n": 20000, "model_is_oracle": True, "oracles": ["api-panic", "process-crash"]},
    ],
    "explanation": "Progress is a theorem over the model: an accepted program in a conforming environment, with fuel above its depth, yields a well-typed value or one of the four documented failures (or a deliberately failing host function / an extern-table miss of the harness) — never another stuck outcome, never fuel (C02.progress, no_internal_fault); exact characterisations of each partial operation (exact_index, exact_key, exact_mod, exact_regex) and totality of get-with-default and every other strict built-in (total_get, total, fail_exact). For the VM: verified code never underflows, never meets a bad opcode or constant kind and terminates within the code size (C11.verify_sound). Tie: outcome-class projection of the eval/vm streams; the oracle classifies every Go panic of all four back ends. The engine stream plays API histories on one yae.Expr (registrations of colliding and overloaded functions in any order, four compilers, invocation of any earlier Callable) against Engine.run: an accepted call that runs another function than the one the checker resolved shows as an outcome the model does not have. Through the public API the same holds for every history of calls on a fresh engine: an invocation never ends in fuel or another stuck outcome (ApiProps.api_sound, case d: Allowed f), and every compilation yields a Callable or a reported error (api_compile_reports).",
    "assumptions": ["same as C01"],
}

CHECKS["C03"] = {
    "gen_ties": ["Builtins", "Vm"],
    "level": "proof",
    "lean_targets": ["Yae.Props.C03", "Yae.Props.C02", "Yae.Props.EngineVm"],
    "streams": [
        EVAL(4000, 60000, oracles_only=True, oracles=["backend-divergence*", "callthread-exec-limit", "vm-dynamic-lazy"]),
        VM(2500, 30000, kinds=["vmcode"]),
        {"name": "engine", "quick_n": 1500, "thorough_n": 20000, "model_is_oracle": True, "oracles": ["api-panic", "process-crash"]},
    ],
    "explanation": "Compiler-correctness simulation over the model: for every well-annotated tree whose reference evaluation is not stuck (C01/C02), running the compiled code on the model machine equals the reference evaluator — same value or failure and the same log of host calls and prints (C03.vm_correct, vm_same_events); the compiler refuses well-annotated trees only for an encoding overflow (refuse_overflow). The reference evaluator is tied to the closure compiler and the AST interpreter, the model compiler and machine to vm.Compile and both dispatch loops by the eval and vm streams (bytes, constant pool, outcome, event order), and the oracle compares the four back ends pairwise on every accepted program. END TO END (third session; Proofs/VmChecked*): vm_correct_checked / runVm_correct_checked - for every program the checker accepts, in every conforming environment that holds no LAZY function value (NoLazyFunValues, decidable; preserved by evaluation: noLazy_preserved), the machine run with the fuel runVm really passes returns exactly what the reference evaluator returns (value or failure, and the same log of host calls and prints): the three hypotheses of the simulation theorem (WellAnnotated, KindsAgree, NotStuck) are now DERIVED from check, type soundness (C01) and progress (C02); checked_needs_noLazy is the kernel-checked witness that the extra hypothesis is necessary (finding D20: h.f(1) with a lazy function value in a field). refuse_exact: compile refuses exactly when a count exceeds the encoding capacity (65 535 constants / members / jump target, 255 arguments), characterised by an exact size abstraction; compiles_small: no program of at most 4095 nodes is refused; overflows_long_list: a checked list literal of more than 65 535 members is refused (by lemma, not evaluation); run_fuel_mono. Over the engine object: EngineVm (Model/EngineVm.lean) is the engine whose vm back end really compiles to bytecode at Compile and runs the machine at every invocation; for EVERY history of API calls its outputs equal those of the evaluator-based engine step by step, except that a program the bytecode compiler refuses (exactly: a size overflows, refusal_exact) is a compile error there and later invocations of it find no Callable (EngineVmProps.engineVm_refines, engines_agree, engineVm_refines_small, api_sound_vm; hypothesis: no lazy function VALUE in a run-time environment, the D20 condition). The engine stream is answered by EngineVm.run; it includes a history in which the vm compiler refuses a call with 256 arguments (the count does not fit 8 bits) that the closure compiler accepts on the same engine.",
    "assumptions": ["the call-threaded loop is generated from the switch loop by the repository's own generator; it is tied behaviourally, not modelled separately", "vmFuel e <= the fuel runVm passes is not proved (the machine is additionally shown to need at most the code size by C11)"],
}

CHECKS["C04"] = {
    "gen_ties": ["Builtins", "Vm"],
    "level": "proof",
    "lean_targets": ["Yae.Props.C04"],
    "streams": [
        EVAL(5000, 80000, kinds=["run", "pipeline"], projections=["value", "class"], model_is_oracle=True),
        VM(1500, 20000, kinds=["vmrun"], projections=["value", "class"], model_is_oracle=True),
        {"name": "num", "quick_n": 20000, "thorough_n": 300000, "model_is_oracle": True},
        {"name": "valrel", "quick_n": 3000, "thorough_n": 40000},
    ],
    "explanation": "The model's built-in bodies are the formal semantics (IEEE arithmetic through Lean Float, bit-exact trunc/floor/ceil/round/min/max/abs, float->int as amd64 does it, shortest-round-trip number rendering, strconv quoting, rune-counted length, order-preserving de-duplicating set functions, get/isset, string conversion, calendar rendering of instants); proved laws: set functions are total, duplicate-free, keep first-occurrence order with the documented membership (union/intersect/diff_law), get agrees with isset, get is total, the comparison definitions; rune-counted length (len_law, len_runes); the equations of string() on every kind of value and string(x)=String() exactly where it holds, with kernel-checked differences elsewhere (string_prim/list/obj/map, string_eq_String); exact ==/!= on strings and bools and the order of instants by (sec,nsec) whatever the zone (eq_ne_exact, time_cmp, time_cmp_ns); numeric literals: radix forms are the value written when < 2^63 and rejected otherwise, integer forms are the float64 of the number written and exact below 2^53, float forms decompose into mantissa and decimal exponent (radix_literal, int_literal(_exact,_round_trip), float_literal); every word of the string / raw-string patterns decodes item by item (str_literal, raw_literal; rejected: exactly \\/, raw newline, lone surrogates); absolute date-times: civilFromDays inverts a naive day count for every date from 0000-03-01 on with no upper bound (civil_round_trip, day_round_trip), an absolute form is displayed as itself and a character-level reader reads the rendering back to the instant (strtotime_absolute, time_literal_absolute, time_text_reader) (C04.*). Tie: full-value projection of the eval stream over boundary pools, the num stream (parse/format/convert, 60k cases per run, bit for bit), the valrel stream.",
    "assumptions": ["math.Pow and regexp/strtotime are externals: pow is exercised on exactly representable cases, regexp and strtotime results travel as tables computed by the real functions"],
}

CHECKS["C05"] = {
    "gen_ties": ["Builtins"],
    "level": "proof",
    "lean_targets": ["Yae.Props.C05", "Yae.Props.C05b", "Yae.Props.C17"],
    "streams": [
        EVAL(5000, 80000, kinds=["check", "pipeline"], projections=["accept", "type", "annot"], model_is_oracle=True, oracles=["check-internal-fault", "mono-key-field-order", "poly-first-match-bot"]),
        {"name": "types", "quick_n": 8000, "thorough_n": 100000, "kinds": ["infer"], "oracles": ["match-*"]},
    ],
    "explanation": "A declarative typing relation Typed (Spec/Typing.lean) states the rules; proved: check accepts only typed programs with exactly the relation's type (C05.sound), accepts every typed program for every value of the type-variable counter (complete, counter_irrelevant, accepts_iff_typed, never_fuel), the relation is functional (unique), the annotated tree is the input plus attachments (erase); the checker's first-match rule vs the natural rule is characterised (overload_rules_coincide) with the kernel-checked D22 witness of their difference. Tie: check requests of the eval stream (accept/reject, inferred type, annotated tree) on type-directed programs and their type-breaking mutants with random overload sets.",
    "assumptions": ["the environment satisfies SigEnv: variable types are ground and well formed, registered signatures satisfy the decidable condition sigOK (true of all 56 built-ins by decide: C05.builtins_sigOK); under it inferFun equals the specification's matcher and check never runs out of fuel (C05.sigOK_inferFun, never_fuel), so sound / complete / accepts_iff_typed hold without further hypotheses"],
}

CHECKS["C06"] = {
    "gen_ties": ["Builtins", "Vm"],
    "level": "proof",
    "lean_targets": ["Yae.Props.C06", "Yae.Props.C03"],
    "streams": [
        EVAL(5000, 80000, kinds=["run", "pipeline"], projections=["callnames"], oracles=["backend-divergence-calls"]),
        VM(1500, 20000, kinds=["vmrun"], projections=["callnames"]),
    ],
    "explanation": "Unfolding theorems about the reference evaluator: if/&&/|| evaluate the condition once and only the selected operand (if_lazy, and_lazy, or_lazy, if_true/false), lazy host functions force exactly the thunks they choose (lazy_host), strict calls, list/map/object literals and subscripts evaluate operands once in source order and then emit exactly one call event (operands_in_order, strict_order_*, list/map/obj/subscript_order, host_invocation_event), the guard if(isset(m,k), m[k], d) never fails (guard_safe), evaluation is a function of its inputs (determined); the VM produces the same log (C03.vm_same_events). Tie: call-trace projection of the eval and vm streams with tracing, failing and lazy host functions in operand positions on all four back ends.",
    "assumptions": [],
}

CHECKS["C07"] = {
    "gen_ties": ["Builtins"],
    "level": "proof",
    "lean_targets": ["Yae.Props.C07", "Yae.Props.C07b", "Yae.Props.Api"],
    "streams": [
        {"name": "envcheck", "quick_n": 3000, "thorough_n": 40000,
         "oracles": ["envcheck-accepts-mismatch", "envcheck-rejects-equal", "envcheck-evaluated-on-reject", "envcheck-panic", "envcheck-wrong-result", "process-crash"]},
        {"name": "engine", "quick_n": 1500, "thorough_n": 20000, "model_is_oracle": True, "oracles": ["api-panic", "process-crash"]},
    ],
    "explanation": "Decision logic of the facade's environment check over the model (Conv.envCheck), proved: accepted iff every compile-time name is bound at run time to a value of an equal type (C07.accept_iff, reject_iff, reject_missing, reject_mismatch, undefined_iff); extra names never matter (extra_names_ok); the verdict, error class included, is invariant under re-ordering of both environments (order_irrelevant); only the types of the bound values matter (only_types_matter); a value whose own object type is a field permutation of the declared type passes (field_order_ok); acceptance plus well-formed values gives the premise of C01/C02 (accepted_env_ok). Tie: envcheck stream through the public API (Compile, Callable) on pairs of struct / map / raw environments and their mutations, half of them after a warm-up call on the same Callable, with a tracing host function making 'evaluates nothing' observable. The stream also compiles other expressions on the same engine between a compilation and its invocation, builds compile-time types whose components are one shared node (a DAG), and realises ONE declaration as two Go types (other field order, numeric kinds, pointers): such bindings are equal by construction and must be accepted whatever the reflection layer makes of them. At the level of the engine object (Model/Engine.lean, tied by the engine stream): a rejected invocation returns the environment error with an EMPTY event log - no host call, no print line, no debug entry - for every engine, compiler, Callable and environment (C07.reject_evaluates_nothing, missing_or_mistyped_evaluates_nothing); an accepted one is exactly the compiled tree evaluated on the run-time bindings (accept_evaluates_normally, equal_types_evaluate_normally). ApiProps.api_env_refusal_iff states the same over every history of API calls on a fresh engine: the refusal case occurs exactly when a compile-time name is missing or bound to a value of another type.",
    "assumptions": [],
}

CHECKS["C08"] = {
    "gen_ties": ["Parser"],
    "level": "proof",
    "lean_targets": ["Yae.Props.C08"],
    "streams": [
        {"name": "parse", "quick_n": 8000, "thorough_n": 60000,
         "oracles": ["parse-tree", "parse-span", "parse-nonassoc", "parse-accepts-malformed", "parse-rejects-wellformed", "parse-fractional-bp", "parse-huge-bp", "parse-harness", "process-crash"]},
    ],
    "explanation": "The Pratt parser is modelled in full (grammar tables, nud/led functions, float32 binding powers as bit patterns with IEEE < and BP.Prev defined on the bits, the one-pass list-or-map rule, positions) and tied to parser.Parse by the parse stream: 23 operator tables (incl. fractional and huge powers, twin tables differing only after the decimal point) x random trees rendered with minimal and redundant parentheses x all short token sequences x every operator inside the branches of ?: x mutations; full tree and positions compared; an independent precedence-climbing reference parser in the harness decides 'the tree dictated by the declarations', spans, non-associativity and rejection of malformed input. PROVED over the model (third session; Proofs/ParseYield*, ParseRespects*, ParseComplete*, ParseUngroup*, BPOrder; about 5000 lines): two declarative notions, neither of which runs the parser - Yields (the tree is read off a token range by the ambiguous grammar, nodes and spans built as the code builds them) and Respects (the precedence / associativity / fixity discipline R1-R4 on trees) - and C08.exactly: for every well-formed operator table, parse returns t IF AND ONLY IF t yields the token list and respects the declarations; hence complete, unique (the declarations dictate the tree), required_parens, redundant_parens (deleting a pair of parentheses whose removal keeps Respects makes parse return the same tree without that Group node; (o.f)(x) vs o.f(x) included), yields / respects (soundness, for every table without an end-of-file operator), span_exact and span_nested (every node records exactly the span from its first to its last token; children lie inside, disjoint, in order - for token positions in source order, which C09.lex_ordered provides: lexed_ordered), nonassoc, outcomes; closer_needed / nonneg_prefix_needed show each clause of well-formedness is necessary; wf_builtin: the built-in table (tied to oper.BuiltIn() by GenTie.Parser) is well formed. The parser is now evaluated by the kernel (decide +kernel examples: a + b * c, a ^ b ^ c, (a == b) == c, -a.f(x)[1] ? b : c). From the source text: for lexed input the hypotheses on the tokens (operator tokens carry their kind as lexeme, positions in source order, no end-of-file token) are theorems about the lexer model (lexed_opLexemes, lexed_ordered, lexed_no_eof), so exactly_lexed states the iff with hypotheses on the operator table only (well-formed, no operator named like a literal kind).",
    "assumptions": ["operator tables that redefine built-in tokens ( ( [ { : , <sym> ) are outside the well-formed tables the property is read for (reported as parse-shadowed-builtin, informational)"],
}

CHECKS["C09"] = {
    "gen_ties": ["Parser", "Lexer"],
    "level": "proof",
    "lean_targets": ["Yae.Props.C09"],
    "streams": [
        {"name": "lex", "quick_n": 15000, "thorough_n": 200000,
         "oracles": ["lex-partition", "lex-word", "lex-longest", "lex-shadowed", "lex-literal", "process-crash"]},
    ],
    "explanation": "Proved over the model of the lexer: a successful run partitions the input into white-space gaps and non-empty lexemes in order (C09.lex_partition), every token's recorded index range, line and column are exactly those of its place (lex_token_at, lex_token_cursor, lex_ordered, lex_slice), identifier-like operators and true/false are whole words (lex_words), '.' and '?' are not split out of a longer operator (lex_prim), the operator sort is a stable descending-length permutation (sortOps_perm/sorted/stable) and the operator token produced is a longest registered symbolic operator unless punctuation or '.'/'?' comes first (lex_longest; the kernel-checked d25_colon_operator shows the unrestricted sentence is false: finding D25), no fuel exhaustion for non-empty kinds (lex_no_fuel). The ten literal recognisers are tied to Go's regular expressions by the lex stream only (nine kernel-checked instances). Tie: lex stream (exhaustive short strings over a mixed alphabet, random token soups, 13 operator sets; tokens and positions compared) plus implementation-side oracles for partition, whole words, longest match. Literal forms (third session): a formal regular-expression semantics (Spec/Regex: syntax Re with a printer, the declarative language Re.Matches, and a backtracking leftmost-first reference matcher proved sound and complete for the language) and, for each of the ten patterns of the lexicon and for keywordPostfix / idReg, the theorem that the model's hand-written recogniser computes exactly the reference match (Pat.run_eq_matchLen, C09.literal_forms, keyword_form, identOp_form; the greedy-is-leftmost-first claims for the two float patterns and uniqueness of the string match are theorems; for the nine patterns without a nullable loop body the result does not depend on the policy for empty iterations). The pattern TEXTS are read from the Go source on every run and must equal, character for character, the printed form of those expressions (GenTie.Lexer: lex_regex_tie). Property level: lex_literal (a literal token is the leftmost-first match of the first matching pattern and lies in its language), literal_single_token / quoted_single_token / number_single_token / symbol_single_token / lex_number_first / lex_quoted_first (a literal followed by something that cannot continue it is exactly one token), two_exponents (1.5e3e4 lexes as two tokens: rule order, confirmed on the Go lexer). Trusted: that Go's regexp computes the reference semantics on these expressions (lex stream).",
    "assumptions": [],
}

CHECKS["C10"] = {
    "gen_ties": ["Builtins", "Parser"],
    "level": "proof",
    "lean_targets": ["Yae.Props.C10"],
    "streams": [
        {"name": "desugar", "quick_n": 6000, "thorough_n": 50000,
         "oracles": ["desugar-core", "desugar-idempotent", "desugar-idempotent-group-member", "desugar-mutates-input", "desugar-order", "desugar-shape", "process-crash"]},
        EVAL(2500, 30000, oracles_only=True, oracles=["desugar-aliases-input", "sugar-differs-from-call"]),
    ],
    "explanation": "Over the model of trans.Desugar, proved: the result contains only core forms, for every input (C10.core, core_go), desugaring is idempotent on every tree without a parenthesised member callee (idem_partial; the kernel-checked not_idempotent witness (o.f)(x) is finding D18), the five rewriting equations hold and notation equals the explicit call for every downstream function (shape_*, notation_*, same_downstream), receiver and arguments keep their order (args_order, pairs_order, fields_order), core trees are fixed up to erased attachments (core_fixed); type and value of sugar are those of its desugaring because the pipeline has no other semantics for it. Tie: desugar stream on every tree the parse stream accepted plus hand-built ones; oracles for core-only, idempotence, input purity (tree serialised before/after) and order against an independent rule-based reference.",
    "assumptions": [],
}

CHECKS["C11"] = {
    "gen_ties": ["Builtins", "Vm"],
    "level": "proof",
    "lean_targets": ["Yae.Props.C11", "Yae.Props.C11b", "Yae.Props.C03"],
    "streams": [
        VM(4000, 40000, kinds=["verify", "vmcode"], model_is_oracle=["verify"], oracles=["compile-internal-fault", "process-crash"]),
    ],
    "explanation": "An executable verifier (Model/VmVerify.lean: complete decoding into known instructions, in-range constants of the right kind, forward jumps to instruction boundaries, a consistent abstract stack with slot kinds, exactly one value at the final return, thunk bodies against the pool prefix they were compiled with) is PROVED sound for the model machine: verified code never underflows, never meets an unknown opcode / wrong constant kind / thunk-value confusion and stops within the code size (verify_sound, verify_sound_thunk, runVm_sound, verify_decodes, wellFormed_explicit), and every output of the model compiler on a checked tree verifies and runs safely (compile_verified_checked, compiled_runs_safely). It is also run on the bytes the Go compiler actually emitted for every generated program (translation validation, incl. >255 / >65535-member literals and long conditionals), and the model compiler is tied byte for byte to vm.Compile.",
    "assumptions": ["compile_verified is proved for well-annotated trees whose list/map literals carry list/map types (C11.compile_verified_partial), which the checker's output always satisfies (compile_verified_checked); the kernel-checked counterexamples not_verified_* show the hypothesis is needed"],
}

CHECKS["C12"] = {
    "gen_ties": ["Builtins", "Vm", "Parser", "Conv", "Lexer"],
    "level": "other",
    "lean_targets": ["Yae.Props.C12", "Yae.Props.C12b", "Yae.Props.Api"],
    "streams": [
        {"name": "api", "quick_n": 1500, "thorough_n": 20000, "oracles": ["api-panic", "api-slow", "api-superpoly*", "process-crash"], "timeout": 3000},
        {"name": "history", "quick_n": 300, "thorough_n": 3000, "oracles_only": True, "oracles": ["history-panic", "process-crash"]},
        {"name": "conv", "quick_n": 2000, "thorough_n": 20000, "oracles_only": True, "oracles": ["conv-panic"]},
        {"name": "debug", "quick_n": 800, "thorough_n": 8000, "oracles_only": True, "oracles": ["debug-panic", "process-crash"]},
        EVAL(2500, 30000, kinds=["pipeline"], oracles=["api-panic", "process-crash"]),
    ],
    "explanation": "Partial by nature. Proved over the model: every stage is a total function returning a value or an error and its fuel never runs out — lexer (C12.lex_no_fuel, lex_steps: at most one round per input character, lex_fuel_mono, lex_rule_attempts), parser (parse_no_fuel_partial, parseWith_no_fuel: 4*tokens+1 suffices), unifier (C17.unify_fuel_sufficient), checker (C05.never_fuel), evaluator (C02.progress: depth suffices), VM (C11.verify_sound, compiled_runs_safely: at most the code size). Not expressible in a model: wall-clock budgets, goroutine stack exhaustion, process death. The api stream is the failing-input search for those: random bytes/runes, token-level mutations of valid programs, bracket nests to depth 2000, operator chains, 14 kinds of host values through Eval / Compile+Callable / Debug with a per-input time budget, and growth families timed at increasing depth. Containment (third session): the inventory of panic guards of the API layer (which functions of facade.go, conv, ext/sql.go install a deferred recover, and through which helper) is regenerated from the source on every run (Gen.panicGuards) and tied (C12.guards_tie); over a hand-modelled call structure of Eval / Debug / Compile / Callable, every internal stage runs under one of those guards or is one of three stages that are total functions in the model (C12.contained_partial, helpers_recover). parse_fuel_witness: the one table for which the parser does not terminate (a prefix operator whose kind is the end-of-file marker), kernel-evaluated. The composed pipeline (Model/Facade: lex, parse, desugar, check, environment check, evaluate - tied to Compile + Callable FROM THE SOURCE TEXT by the pipeline cases of the eval stream): C12.compile_total - for every well-formed operator table and signature environment and EVERY source text, compilation ends in a tree, the syntax error or a type error, never in an outcome that stands for a run-time fault or an endless loop; run_total - an accepted run-time environment with well-formed values gives a value of the inferred type or a documented failure, and a refused one evaluates nothing. Work bounds (cost-instrumented copies of the parser and the desugarer, proved equal to the model after erasing the counter): parse_work_linear - at most 2n+1 parser calls on n tokens, on success and on failure, at every fuel; parse_nodes - the tree has at most n nodes; desugar_work_linear; compile_work_partial - the chain lexer rounds / rule attempts / #tokens <= #runes / parser calls / tree nodes in terms of the source length. Over the engine object, for every history of API calls: every compilation yields a Callable or a REPORTED error (ApiProps.api_compile_reports) and every invocation ends in one of the four outcomes of api_sound - never fuel, never an unexplained stuck state.",
    "assumptions": ["testing, not proof, for promptness and panic containment of the Go facade"],
}

CHECKS["C13"] = {
    "gen_ties": ["Builtins", "Vm"],
    "level": "proof",
    "lean_targets": ["Yae.Props.C13", "Yae.Props.C06"],
    "streams": [
        {"name": "history", "quick_n": 800, "thorough_n": 10000, "oracles": ["history-*", "process-crash"]},
        EVAL(3000, 40000, kinds=["run", "pipeline"], projections=["prints"], oracles=["address-in-text", "backend-divergence-reentrant"]),
        {"name": "valrel", "quick_n": 2000, "thorough_n": 30000, "oracles_only": True, "oracles": ["valrel-canonical"]},
        {"name": "conv", "quick_n": 2500, "thorough_n": 30000, "oracles_only": True, "oracles": ["conv-type-disagrees"], "oracle_input_regex": r"^env history"},
        {"name": "engine", "quick_n": 3000, "thorough_n": 60000, "model_is_oracle": True, "oracles": ["api-panic", "process-crash"]},
    ],
    "explanation": "The engine object of facade.go is a state machine in the model (Model/Engine.lean: registrations, compiler choice, one-time appending of the built-ins at the first compilation, Callables that keep their compile-time environment and - for vm / closure - their function table). Proved over it: a compilation changes nothing but the one-time initialisation and an invocation changes nothing (init_idempotent, compile_state, invoke_state); in ANY history of compilations and invocations every output is the output of that call on the engine alone (history_independent, history_independent_fresh, recompiled_same); what registrations can and cannot change for Callables compiled earlier (early_binding_ignores_engine, callable_stable_under_append, with the kernel-checked witnesses registration_order_matters and late_binding_depends_on_compiler showing why the theorem is about histories without registrations); no output except through print (output_only_from_print(_dynamic), print_prints); the outcome depends on the bindings of the compile-time names only (invoke_depends_on_bound_names, extra_bindings_irrelevant). The model is a pure function of (source, environment): evaluation is determined (C06.determined), renderings and string() are invariant under any re-ordering of map entries at any depth (C13.texts_invariant, render_map_perm, stringify_map_perm, valEq_map_perm) and object rendering under field permutation (render_obj_perm); the only events are host calls and print lines. Tie: the engine stream plays random histories of API calls (RegisterFun incl. colliding keys, RegisterOperator, UseCompiler vm/closure/interp, UseBuiltIn, Compile, invocation of any Callable obtained so far) on ONE yae.Expr against Engine.run, output by output; the history stream plays random Compile/invoke sequences on ONE engine with shared environment objects (structs, *types.Env/*val.Env, maps), each invoke twice, against fresh engines with fresh copies, with stdout captured and host values deep-compared; the prints projection of the eval stream; a compiled expression re-entered from a host function while it is running (an interleaved invocation) must give the results of separate evaluations on every back end.",
    "assumptions": ["string() of an object follows declaration order by design (kernel-checked example C13.stringify_obj_declaration_order); it is a function of the environment's contents, which include the field order",
                    "the history theorems quantify over histories of compilations and invocations; registrations are configuration a result does depend on (kernel-checked witnesses registration_order_matters, late_binding_depends_on_compiler), and the engine stream compares histories WITH registrations against the model",
                    "not modelled: RegisterTranslator (user translators), the EnableDebug writer, function tables of the environments themselves; that the Go back ends write to neither environment map (aliasing) is covered by the history stream (shared environment objects, deep comparison of host values), not by a theorem; output_only_from_print is about the model's host behaviours, which cannot print - a real host function can do anything"],
}

CHECKS["C14"] = {
    "gen_ties": ["Builtins"],
    "level": "other",
    "lean_targets": ["Yae.Props.C14"],
    "streams": [
        {"name": "race", "kind": "racecheck", "quick_n": 150, "thorough_n": 1500, "oracles": ["race-*"]},
    ],
    "explanation": "Partial by nature. Proved: a lockset theorem over abstract access traces (race_free); the REGENERATED inventory of write sites to state shared between API calls equals the expected list and every entry is mutex-guarded, atomic or unreachable from the API (inventory_tie, inventory_disciplined); the checker's verdict does not depend on the shared type-variable counter (outcome_independent_of_counter). Not modelled: the Go memory model and real schedules. The race stream (a -race build: one Callable from 16 goroutines, separate and warmed-up engines compiling concurrently with random start offsets, every outcome compared with the sequential one) is the search for a failing schedule.",
    "assumptions": ["the inventory extractor (go/ast scan for stores to package-level variables and closure-captured state) is trusted"],
}

CHECKS["C15"] = {
    "gen_ties": ["Conv"],
    "level": "proof",
    "lean_targets": ["Yae.Props.C15"],
    "streams": [
        {"name": "conv", "quick_n": 4000, "thorough_n": 50000,
         "oracles": ["conv-wf", "conv-type-disagrees", "conv-content", "conv-unstable-type", "conv-error-missing", "conv-panic", "process-crash"]},
        {"name": "envcheck", "quick_n": 1000, "thorough_n": 10000, "oracles_only": True, "oracles": ["envcheck-panic"]},
    ],
    "explanation": "Host data is modelled as a mirror of reflect (GoType/GoVal) with conv.TypeOf/ValOf/TypeEnvOf/ValEnvOf as total functions. Proved: every converted value is deeply well formed with no absent component (C15.valOf_wf, valOf_noNil, typeOf_wf), the reported type is the value's type (typeOfRV_agree) and tyEq the static type for plain values (typeOf_agree_partial; the kernel-checked nil_field_counterexample shows the 'declared optional' precondition is needed), two plain values of one Go type convert to equal types (sample_independent, shape_determines_type), scalars and slice order are preserved (content_scalars, content_slice), nil / unsupported / mixed / too-deep data is an error (error_nil_top, error_nil_inside, error_unsupported_*, error_mixed, error_depth, error_depth_nested). Tie: conv stream (reflect-built values: StructOf/SliceOf/MapOf with tags, pointers, interfaces, all sized numerics, times, unsupported kinds, recursive types, depth 98..103) serialised independently of conv, compared modulo Go map iteration order; oracles for well-formedness, type agreement, contents, type stability, missing errors, panics. CONTENTS (third session; Spec/ConvContent, Proofs/ConvContent*): content_general / content_exact / content_faithful - for every shape and any nesting the converted value holds exactly the content of the host value (numbers as the doubles they convert to, element order of slices and arrays, every map entry under its converted key, every struct field under its tag name, nil optional fields absent, pointers and interfaces transparent), on the nose when the converted keys of every map are pairwise distinct and up to the permutation of entries in general; collision_counterexample / collision_order_dependent (kernel-checked): a Go map two of whose keys are one yae key (int64 2^53 and 2^53+1) converts to ONE entry, and which value survives depends on the iteration order - the hypothesis is necessary; string keys never collide (string_keys_distinct); content_map_lookup / content_struct_lookup (through the accessors m[k] and o.f); env_content / env_binds (environments); sample_accepts - compiled against one plain sample of a Go struct type, any other plain value of that type passes the environment check (envCheck (typeEnvOf g1) (valEnvOf g2) = ok), with sample_rejected_counterexample for a nil untagged pointer.",
    "assumptions": ["content equality of map entries and struct field names is checked by the conv oracle, not restated as a theorem beyond well-formedness"],
}

CHECKS["C16"] = {
    "gen_ties": ["Builtins", "Conv"],
    "level": "proof",
    "lean_targets": ["Yae.Props.C16", "Yae.Props.C02", "Yae.Props.Api"],
    "streams": [
        EVAL(4000, 60000, kinds=["check", "run"], projections=["accept", "class"], model_is_oracle=["check", "run"], input_regex=r"\b(mb|ms|om|mb2|om2)\b|maybe|Nothing|Just"),
        {"name": "conv", "quick_n": 4000, "thorough_n": 50000, "oracles_only": True, "oracles": ["conv-wf", "conv-type-disagrees"]},
        {"name": "envcheck", "quick_n": 2000, "thorough_n": 30000, "oracles_only": True, "oracles": ["envcheck-accepts-mismatch", "envcheck-result-ill-formed"], "oracle_input_regex": r"maybe|nil"},
    ],
    "explanation": "Proved: unification of a pattern with an optional type succeeds only for a variable, an optional pattern (or top, which no registered signature contains) (no_coercion, builtins_no_top); in every accepted call an optional argument meets a type-variable or optional parameter (accepted_call_no_coercion); by decide over the regenerated built-in table the only optional parameter is get's and the bare-variable positions are listed (sole_eliminator); member and subscript on an optional are rejected (member_rejected, subscript_rejected); get(optional, d) yields payload or default (get_maybe_spec); accepted programs over environments with absent values never fail because of them (C02.progress with WF admitting nothing). Tie: eval stream with optional-typed variables present/absent and nested, conv stream with nil pointers/slices/maps. The envcheck stream (oracles restricted to inputs with optionals or nil): a run-time environment that differs from the compile-time one in optionality is refused, so an accepted expression never meets an absent value where it was compiled for a present one. Through the public API (ApiProps.api_sound over every history of calls on the engine object): an accepted expression invoked on an accepted environment ends in a value of its compile-time type or in one of the documented failures - index, key, modulus, regular expression, a failing host function - none of which is about absence; an environment that differs in optionality from the compile-time one is refused with an empty event log (api_env_refusal_iff).",
    "assumptions": [],
}

CHECKS["C17"] = {
    "gen_ties": [],
    "level": "proof",
    "lean_targets": ["Yae.Props.C17"],
    "streams": [
        {"name": "types", "quick_n": 20000, "thorough_n": 300000, "model_is_oracle": True, "oracles": ["tyeq-*", "unify-*", "match-*"]},
    ],
    "explanation": "Theorems over the model of types.Equals / types.Unify: equivalence on well-formed types, coincidence with structural identity by field name (tyEq_iff_structEq), matching sound and complete against variable-free types with sufficient fuel (match_sound, match_complete, unify_fuel_sufficient), the bottom/top absorption rules (unify_bot_right/left); the model is tied to the code by the types stream (Equals, Unify, inferFun on generated type pairs) and by implementation-side oracles (reflexive, symmetric, transitive, structural; the substitution unifies both sides; acyclic).",
    "assumptions": ["general two-sided unification (both sides with variables) is covered by correspondence and the implementation-side oracle, not by a theorem; the theorems cover matching against variable-free types, which is the only use the checker makes of it"],
}

CHECKS["C18"] = {
    "gen_ties": ["Builtins"],
    "level": "proof",
    "lean_targets": ["Yae.Props.C18"],
    "streams": [
        {"name": "valrel", "quick_n": 6000, "thorough_n": 80000, "oracles": ["valrel-*", "process-crash"]},
        {"name": "num", "quick_n": 10000, "thorough_n": 100000},
    ],
    "explanation": "Over the model of val.Equals / String / Key and the set functions: == is symmetric on well-formed values and reflexive exactly on values whose numeric leaves are self-equal (valEq_symm, valEq_refl_iff); rendering is invariant under permutation of map entries and of object fields (render_map_perm, render_obj_perm); for tolerance-separated values equal implies same text and same set element (equal_imp_same_text_partial, equal_imp_same_set_element); for numbers, strings and booleans equal iff same text iff same key (prim_equal_iff_same_text/key); distinct numbers never render alike or collide as keys (numbers_render_apart, numbers_keys_apart; for all integral doubles up to 2^63 with no assumption: int_range_numbers_render_apart). Tie: valrel stream (pairs: copy, field/insertion-permuted copy, one-leaf mutants at tolerance edges, unrelated) comparing ==, renderings, keys, string(), union membership; num stream for rendering. THE CONVERSE (third session; Proofs/ValRelText*): same_text_imp_equal / equal_iff_same_text / equal_iff_same_type_and_text - for well-typed values of equal types that are tolerance-separated, == holds EXACTLY when the two render to the same text: the rendering grammar is unambiguous (quoted strings are self-delimiting whatever follows; number texts contain no separator; list / map / object texts split uniquely into their items; the text of an instant determines it, with the calendar arithmetic proved injective from 0000-03-01 on), by induction over the values with an arbitrary continuation; the corollaries the property names: same element for union / intersect / diff (merged_iff_equal, union_has_iff, intersect_has_iff, diff_has_iff), same map entry (same_key_iff_equal, select_same_entry_iff_equal). Each hypothesis that excludes something has a kernel-checked counterexample (two values with the same text that are not ==): different types ([] of two element types; an object with a field named \"a: true, b\"), ill-typed components, forged key texts, function values, a zone name containing a separator, zone offsets with odd seconds (Go prints +hhmm only), dates before 0000-03-01 (a limitation of the model's calendar arithmetic).",
    "assumptions": ["six IEEE / shortest-formatting facts are explicit hypotheses (structure FloatFacts: numEQ symmetric, zeros equal, NaN bits, numNE = not numEQ on finite values, fmtFloat injective, integer and float texts disjoint); Lean cannot compute with Float in the kernel", "same text => == for composite values (unambiguity of the rendering grammar) is not proved; it is checked by the valrel oracle"],
}

CHECKS["C19"] = {
    "gen_ties": ["Builtins", "Parser"],
    "level": "proof",
    "lean_targets": ["Yae.Props.C19", "Yae.Props.C19b"],
    "streams": [
        {"name": "debug", "quick_n": 2500, "thorough_n": 30000,
         "oracles": ["debug-result-differs", "debug-record", "debug-record-shifted", "debug-column-not-at-term", "debug-render-firstline", "debug-render-missing-value", "debug-panic", "process-crash"]},
        {"name": "engine", "quick_n": 1500, "thorough_n": 20000, "model_is_oracle": True, "oracles": ["api-panic", "process-crash"]},
    ],
    "explanation": "Debug evaluation is the reference evaluator with dbg = true. Proved: it returns the same value or failure and, apart from the debug entries, the same host calls and prints as normal evaluation, for every expression, environment and fuel (C19.same_result, same_run); an entry is recorded exactly when an identifier / call / subscript / member node completes, carrying its value and column+1, literals record nothing and untaken branches record nothing (recorded_node, record_on_success, no_record_on_failure, record_ident, *_records_nothing, if_records_only_taken); Record.Rec keeps columns distinct and places an entry at its own column when free (rec_free, rec_first_free, rec_distinct_cols), so the record equals the entries whenever their columns are distinct (recordOf_faithful_partial; the kernel-checked d27_eval / d27_record show the shift when a thunk is forced twice: finding D27); the report's first line is the source (render_firstline). Tie: debug stream (result, hook-exported entries, report text) on single-line programs with non-ASCII identifiers, multi-line values, unevaluated lazy branches, lazy host functions; oracles: same result, entries equal an independent instrumented walk, first line, every recorded value shown at its column, every evaluated variable attributed to the column where its name stands in the source (also with tabs, carriage returns and Unicode spaces between tokens). The report: render_shows / render_shows_lines / render_shows_last (every recorded value with column >= 1 that is the last of its column stands, whole, on one report line below the source and the | line, starting at its column; a multi-line value on consecutive lines), render_hidden (the other entries do not influence the report), render_first_line, render_no_break, render_lines_join, and recordOf_shown (composition with the distinct-columns theorem for real records). Not proved: that the cells between values hold only blanks and |. Over the engine object (Model/Engine.lean, tied by the engine stream, in which closure.DebugCompile is one of the four compilers): the same Callable under the debug compiler and under the closure compiler returns the same value, failure or environment error, with the same host calls and print lines (C19.engine_debug_same_result); a refused environment records nothing (engine_debug_reject_records_nothing).",
    "assumptions": [],
}

CHECKS["C20"] = {
    "gen_ties": ["Builtins", "Sql"],
    "level": "proof",
    "lean_targets": ["Yae.Props.C20"],
    "streams": [
        {"name": "sql", "quick_n": 3000, "thorough_n": 40000,
         "oracles": ["sql-structure", "sql-quote", "sql-scalar", "sql-scalar-time-fraction", "sql-unreadable", "sql-panic", "process-crash"]},
        {"name": "num", "quick_n": 5000, "thorough_n": 50000},
    ],
    "explanation": "ext/sql is modelled in full (criteria -> call tree -> type check against the SQL function table -> text with precedence-driven parentheses, fmtVal) together with a reference reader of the produced dialect with standard SQL precedence (tokenizer + precedence-climbing parser) and an executable statement of C20 (c20Check). PROVED (third session; Proofs/SqlDoc, SqlLex*, SqlParse*, SqlStruct*, Spec/SqlSide; about 4000 lines): C20.structural / c20Check_holds - whenever toSql produces a text and the decidable, purely syntactic side condition sideOK holds, the reference reader reads the text as a tree equal, up to the associativity of AND and of OR (flatten), to the meaning treeOf of the criteria under the run-time environment; the proof goes through the type checker (a statically resolved call refers to a registered function of the callee's name), emit, the tokenizer and the parser with the fuel they really use; no hypothesis on string operands (string_literal_reads_back: the reader's own scanner reads quote s back as one token whatever follows), negative numbers, times, nesting, or the compile-time environment; finite_number_is_literal: every finite number is written as -?digits(.digits)?. Each exclusion of sideOK is justified by a kernel-checked counterexample (toSql produces a text, c20Check = some false): NaN / +-Inf (SQL1), IN with an unbound list-typed name (SQL3), a back quote in a column name, an empty list literal, a one-element list outside IN, a nested application used as an operand of a condition (outside the criteria grammar the property quantifies over: operands are never parenthesised), a Cond whose operator is named AND/OR/NOT. Also: the scalar forms (fmtVal_*), substitution (bound_name_substituted, unbound_name_is_column), quote_roundtrip / quote_injective, paren_rule / paren_table. The function table, every formatter's text and the precedence table of the connectives are regenerated from the running code and tied (GenTie.Sql). Tie: sql stream (random criteria trees to depth 4, adversarial strings and numbers, bound and unbound names, member access; c20Check in Lean and an independent reader in Go).",
    "assumptions": ["string literals are in Go quote syntax; control characters use escapes MySQL reads differently (nothing escapes the quotes)"],
}

# Property theorem files that are not written yet are dropped from the targets (and named in
# the evidence); at the end of the build round none should be missing.
import os as _os
_LEAN = _os.path.join(_os.path.dirname(_os.path.dirname(_os.path.abspath(__file__))), "lean")
MISSING_TARGETS = {}
for _pid, _c in CHECKS.items():
    _keep = []
    for _t in _c.get("lean_targets", []):
        if _os.path.exists(_os.path.join(_LEAN, *_t.split(".")) + ".lean"):
            _keep.append(_t)
        else:
            MISSING_TARGETS.setdefault(_pid, []).append(_t)
    _c["lean_targets"] = _keep
    _c.setdefault("technique", TECH)
