"""Per-property configuration of bin/check: Lean targets (property theorems), correspondence
streams with the projections / oracle classes that belong to the property, claimed level."""

COMMON_TRUSTED_BASE = [
    "Lean 4.33.0 kernel (and leanchecker in the thorough tier); axioms limited to propext, Classical.choice, Quot.sound (audited by #print axioms on every run)",
    "the hand-written Lean model under lean/Yae/Model is tied to /repo by differential execution (harness/cmd/corr, built against /repo with -tags verif on every run), not derived from the source",
    "harness/cmd/extract (regenerates lean/Yae/Gen from the running packages) and the canonicalisation of answers in the harness",
    "Go runtime and standard library (strconv, regexp, sort, reflect, unicode, math, time), cgo timelib, amd64 float->int conversion; Lean Float = IEEE binary64 for + - * /",
]

CHECKS = {}

CHECKS["C17"] = {
    "level": "proof",
    "lean_targets": ["Yae.Props.C17"],
    "streams": [
        {"name": "types", "quick_n": 20000, "thorough_n": 300000,
         "oracles": ["tyeq-*", "unify-*", "match-*"]},
    ],
    "explanation": "Theorems over the model of types.Equals / types.Unify (equivalence on well-formed types, coincidence with structural identity by field name, matching sound and complete against variable-free types with sufficient fuel, the bottom/top absorption rules); the model is tied to the code by the `types` stream (Equals, Unify, inferFun on generated type pairs) and by implementation-side oracles (reflexive, symmetric, transitive, structural; substitution unifies both sides; acyclic).",
    "assumptions": ["general two-sided unification (both sides with variables) is covered by correspondence and the implementation-side oracle, not by a theorem; the theorems cover matching against variable-free types, which is the only use the checker makes of it"],
}
