package main

// Overlapping evaluations of ONE debug-compiled expression: a host function re-enters the same
// closure (its own environment, its own record) while the outer evaluation is under way.  Each
// evaluation's record must be what it is when the two do not overlap: the outer one equals the
// record of a run in which the host function returns the same value without re-entering, the
// inner one equals the record of the inner environment evaluated alone.

import (
	"fmt"
	"strings"

	"github.com/goghcrow/yae/closure"
	"github.com/goghcrow/yae/compiler"
	"github.com/goghcrow/yae/debug"
	"github.com/goghcrow/yae/trans"
	"github.com/goghcrow/yae/types"
	"github.com/goghcrow/yae/val"
)

func debugReentrantCases() []Case {
	human := "debug re-entrant: a host function evaluates the same debug-compiled expression with another environment and record"
	c := Case{Human: human, Tags: []string{"special:debug-reentrant"}, Nontriv: true, Want: "ok"}
	if guardBegin(human) {
		return []Case{crashCase(human)}
	}
	defer guardEnd()
	programs := []string{`gate(a) + b`, `b + gate(a) * a`, `if(gate(a) > 0, a + b, b)`, `[a, gate(b), b][1] + a`}
	var bad []string
	for _, src := range programs {
		res := func() (r string) {
			defer func() {
				if p := recover(); p != nil {
					r = "panic: " + fmt.Sprint(p)
				}
			}()
			entriesOf := func(rcd *debug.Record) string {
				xs := []string{}
				for _, e := range rcd.Entries() {
					xs = append(xs, fmt.Sprintf("%d:%s", e.Col, e.V.String()))
				}
				return strings.Join(xs, " ")
			}
			mkEnv := func(a, b float64) (*val.Env, *debug.Record) {
				e := val.NewEnv()
				e.Put("a", val.Num(a))
				e.Put("b", val.Num(b))
				rcd := debug.NewRecord()
				e.Dgb = rcd
				return e, rcd
			}
			// run(reenter): gate(x) returns x; when reenter is set and we are at depth 0 it first
			// evaluates the same closure on the inner environment
			run := func(reenter bool) (outer, inner string) {
				var cl compiler.Closure
				var renv *val.Env
				depth := 0
				gate := val.Fun(types.Fun("gate", []*types.Type{types.Num}, types.Num), func(args ...*val.Val) *val.Val {
					if reenter && depth == 0 {
						depth++
						ie, ircd := mkEnv(10, 20)
						cl(ie.Inherit(renv))
						inner = entriesOf(ircd)
						depth--
					}
					return args[0]
				})
				eng := newEngine(nil)
				eng.tenv.RegisterFun(gate.Type)
				eng.renv.RegisterFun(gate)
				renv = eng.renv
				parsed, perr := parseSrc(src)
				if perr != nil {
					panic("does not parse")
				}
				d := trans.Desugar(parsed)
				env0 := types.NewEnv()
				env0.Put("a", types.Num)
				env0.Put("b", types.Num)
				types.Check(d, env0.Inherit(eng.tenv))
				cl = closure.DebugCompile(d, eng.renv)
				oe, orcd := mkEnv(1, 2)
				cl(oe.Inherit(eng.renv))
				outer = entriesOf(orcd)
				if !reenter {
					ie, ircd := mkEnv(10, 20)
					cl(ie.Inherit(eng.renv))
					inner = entriesOf(ircd)
				}
				return
			}
			o1, i1 := run(false)
			o2, i2 := run(true)
			var out []string
			if o1 != o2 {
				out = append(out, fmt.Sprintf("outer record [%s], without the overlap [%s]", o2, o1))
			}
			if i1 != i2 {
				out = append(out, fmt.Sprintf("inner record [%s], evaluated alone [%s]", i2, i1))
			}
			return strings.Join(out, "; ")
		}()
		if res != "" {
			bad = append(bad, src+": "+res)
		}
	}
	if len(bad) > 0 {
		c.Want = "differs"
		c.Oracle, c.OracleID = "overlapping debug evaluations of one compiled expression record into each other: "+strings.Join(bad, " | "), "debug-record"
	}
	return []Case{c}
}
