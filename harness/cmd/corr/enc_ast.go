package main

import (
	"github.com/goghcrow/yae/parser/ast"
	"github.com/goghcrow/yae/parser/pos"
	"github.com/goghcrow/yae/types"
)

func encPos(p pos.Pos) string {
	return sxList(sxInt(p.Idx), sxInt(p.IdxEnd), sxInt(p.Col), sxInt(p.Line))
}

func encOptTy(t interface{}) string {
	ty, ok := t.(*types.Type)
	if !ok || ty == nil {
		return "-"
	}
	return encTy(ty)
}

// encExpr serialises a tree with positions and checker attachments (lean/Yae/Model/Ast.lean).
func encExpr(e ast.Expr) string {
	switch x := e.(type) {
	case *ast.StrExpr:
		return sxList("str", encPos(x.Pos), sxStr(x.Val))
	case *ast.NumExpr:
		return sxList("num", encPos(x.Pos), sxNum(x.Val))
	case *ast.TimeExpr:
		return sxList("time", encPos(x.Pos), sxInt(int(x.Val)))
	case *ast.BoolExpr:
		return sxList("bool", encPos(x.Pos), sxBool(x.Val))
	case *ast.ListExpr:
		xs := []string{}
		for _, el := range x.Elems {
			xs = append(xs, encExpr(el))
		}
		return sxList("list", encPos(x.Pos), encOptTy(x.Type), sxList(xs...))
	case *ast.MapExpr:
		xs := []string{}
		for _, p := range x.Pairs {
			xs = append(xs, sxList(encExpr(p.Key), encExpr(p.Val)))
		}
		return sxList("map", encPos(x.Pos), encOptTy(x.Type), sxList(xs...))
	case *ast.ObjExpr:
		xs := []string{}
		for _, f := range x.Fields {
			xs = append(xs, sxList(sxStr(f.Name), encExpr(f.Val)))
		}
		return sxList("obj", encPos(x.Pos), encOptTy(x.Type), sxList(xs...))
	case *ast.IdentExpr:
		return sxList("ident", encPos(x.Pos), sxStr(x.Name))
	case *ast.CallExpr:
		xs := []string{}
		for _, a := range x.Args {
			xs = append(xs, encExpr(a))
		}
		return sxList("call", encPos(x.Pos), sxInt(int(x.DBGCol)), encExpr(x.Callee), sxList(xs...),
			encOptTy(x.CalleeType), sxStr(x.Resolved), sxInt(x.Index))
	case *ast.SubscriptExpr:
		return sxList("subscript", encPos(x.Pos), sxInt(int(x.DBGCol)), encExpr(x.Var), encExpr(x.Idx), encOptTy(x.VarType))
	case *ast.MemberExpr:
		return sxList("member", encPos(x.Pos), sxInt(int(x.DBGCol)), encExpr(x.Obj), sxStr(x.Field.Name),
			encPos(x.Field.Pos), encOptTy(x.ObjType), sxInt(x.Index))
	case *ast.UnaryExpr:
		return sxList("unary", encPos(x.Pos), sxStr(x.Name), encPos(x.IdentExpr.Pos), encExpr(x.LHS), sxBool(x.Prefix))
	case *ast.BinaryExpr:
		return sxList("binary", encPos(x.Pos), sxStr(x.Name), encPos(x.IdentExpr.Pos), sxInt(int(x.Fixity)), encExpr(x.LHS), encExpr(x.RHS))
	case *ast.TenaryExpr:
		return sxList("ternary", encPos(x.Pos), sxStr(x.Name), encPos(x.IdentExpr.Pos), encExpr(x.Left), encExpr(x.Mid), encExpr(x.Right))
	case *ast.GroupExpr:
		return sxList("group", encPos(x.Pos), encExpr(x.SubExpr))
	}
	return "bad-expr"
}
