package main

import (
	"sort"

	"github.com/goghcrow/yae/types"
)

// encTy renders a *types.Type as the protocol S-expression (tree expansion of DAGs).
func encTy(t *types.Type) string {
	if t == nil {
		return "nil"
	}
	switch t.Kind {
	case types.KTop:
		return "top"
	case types.KBot:
		return "bot"
	case types.KTyVar:
		return sxList("var", sxStr(t.TyVar().Name))
	case types.KNum:
		return "num"
	case types.KStr:
		return "str"
	case types.KBool:
		return "bool"
	case types.KTime:
		return "time"
	case types.KList:
		return sxList("list", encTy(t.List().El))
	case types.KMap:
		return sxList("map", encTy(t.Map().Key), encTy(t.Map().Val))
	case types.KObj:
		xs := []string{"obj"}
		for _, f := range t.Obj().Fields {
			xs = append(xs, sxList(sxStr(f.Name), encTy(f.Val)))
		}
		return sxList(xs...)
	case types.KFun:
		ps := []string{}
		for _, p := range t.Fun().Param {
			ps = append(ps, encTy(p))
		}
		return sxList("fun", sxStr(t.Fun().Name), sxList(ps...), encTy(t.Fun().Return))
	case types.KMaybe:
		return sxList("maybe", encTy(t.Maybe().Elem))
	default: // tuple (unexported kind)
		xs := []string{"tuple"}
		for _, p := range t.Tuple().Val {
			xs = append(xs, encTy(p))
		}
		return sxList(xs...)
	}
}

func encSubst(m map[string]*types.Type) string {
	keys := make([]string, 0, len(m))
	for k := range m {
		keys = append(keys, k)
	}
	sort.Strings(keys)
	xs := []string{}
	for _, k := range keys {
		xs = append(xs, sxList(sxStr(k), encTy(m[k])))
	}
	return sxList(xs...)
}
