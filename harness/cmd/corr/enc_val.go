package main

import (
	"fmt"
	"sort"
	"time"

	"github.com/goghcrow/yae/types"
	"github.com/goghcrow/yae/val"
)

// hostFns lets encVal name a host function value (set by the stream that registers them).
var hostFnDesc = map[*val.Val]string{}

func encTime(t time.Time) string {
	name, off := t.Zone()
	return sxList("time", fmt.Sprintf("%d", t.Unix()), sxInt(t.Nanosecond()), sxInt(off), sxStr(name))
}

// encVal serialises a value together with the types it carries. It follows the value's own
// dynamic type (exactly what the unsafe accessors of package val do), so it must only be used
// on values that passed the well-formedness oracle, or under recover.
func encVal(v *val.Val) string {
	if v == nil {
		return "nil"
	}
	switch v.Type.Kind {
	case types.KNum:
		return sxList("num", sxNum(v.Num().V))
	case types.KStr:
		return sxList("str", sxStr(v.Str().V))
	case types.KBool:
		return sxList("bool", sxBool(v.Bool().V))
	case types.KTime:
		return encTime(v.Time().V)
	case types.KList:
		xs := []string{"list", encTy(v.Type)}
		for _, el := range v.List().V {
			xs = append(xs, encVal(el))
		}
		return sxList(xs...)
	case types.KMap:
		type ent struct{ tag, key, v string }
		es := []ent{}
		for k, el := range v.Map().V {
			tag, text := val.KeyParts(k)
			es = append(es, ent{tag, text, encVal(el)})
		}
		sort.Slice(es, func(i, j int) bool { return es[i].key < es[j].key })
		xs := []string{"map", encTy(v.Type)}
		for _, e := range es {
			xs = append(xs, sxList(e.tag, sxStr(e.key), e.v))
		}
		return sxList(xs...)
	case types.KObj:
		xs := []string{"obj", encTy(v.Type)}
		for _, el := range v.Obj().V {
			xs = append(xs, encVal(el))
		}
		return sxList(xs...)
	case types.KFun:
		if d, ok := hostFnDesc[v]; ok {
			return d
		}
		return sxList("fn", encTy(v.Type), "?", sxBool(v.Fun().Lazy))
	case types.KMaybe:
		mb := v.Maybe()
		if mb.V == nil {
			return sxList("nothing", encTy(mb.Type.Maybe().Elem))
		}
		return sxList("just", encTy(mb.Type.Maybe().Elem), encVal(mb.V))
	}
	return "bad-val"
}

// wfVal is the implementation-side oracle of C01: the value is deeply well-formed and its own
// type equals `want` (types.Equals). It never dereferences through a cast before checking the tag.
func wfVal(v *val.Val, want *types.Type, path string) string {
	if v == nil {
		return path + ": nil value"
	}
	if v.Type == nil {
		return path + ": value without type"
	}
	if want != nil && !sameTypeIndep(want, v.Type) {
		return fmt.Sprintf("%s: value of type %s where %s is declared", path, v.Type, want)
	}
	switch v.Type.Kind {
	case types.KNum, types.KStr, types.KBool, types.KTime:
		return ""
	case types.KList:
		el := v.Type.List().El
		for i, x := range v.List().V {
			if r := wfVal(x, el, fmt.Sprintf("%s[%d]", path, i)); r != "" {
				return r
			}
		}
		return ""
	case types.KMap:
		mt := v.Type.Map()
		for k, x := range v.Map().V {
			tag, text := val.KeyParts(k)
			if tag != mt.Key.Kind.String() {
				return fmt.Sprintf("%s: key %s has tag %s in a map keyed by %s", path, text, tag, mt.Key)
			}
			if r := wfVal(x, mt.Val, fmt.Sprintf("%s[%s]", path, text)); r != "" {
				return r
			}
		}
		return ""
	case types.KObj:
		fs := v.Type.Obj().Fields
		if len(fs) != len(v.Obj().V) {
			return fmt.Sprintf("%s: object with %d values for %d fields", path, len(v.Obj().V), len(fs))
		}
		for i, x := range v.Obj().V {
			if r := wfVal(x, fs[i].Val, path+"."+fs[i].Name); r != "" {
				return r
			}
		}
		return ""
	case types.KMaybe:
		mb := v.Maybe()
		if mb.V == nil {
			return ""
		}
		return wfVal(mb.V, mb.Type.Maybe().Elem, path+"?")
	case types.KFun:
		return ""
	}
	return fmt.Sprintf("%s: value of kind %s", path, v.Type.Kind)
}

// sameTypeIndep is the harness's own structural type equality (object fields by name), so that
// the well-formedness oracle does not depend on the repository's types.Equals.
func sameTypeIndep(a, b *types.Type) bool {
	if a == nil || b == nil {
		return a == b
	}
	if a.Kind != b.Kind {
		return false
	}
	switch a.Kind {
	case types.KTyVar:
		return a.TyVar().Name == b.TyVar().Name
	case types.KList:
		return sameTypeIndep(a.List().El, b.List().El)
	case types.KMaybe:
		return sameTypeIndep(a.Maybe().Elem, b.Maybe().Elem)
	case types.KMap:
		return sameTypeIndep(a.Map().Key, b.Map().Key) && sameTypeIndep(a.Map().Val, b.Map().Val)
	case types.KObj:
		fa, fb := a.Obj().Fields, b.Obj().Fields
		if len(fa) != len(fb) {
			return false
		}
		for _, x := range fa {
			found := false
			for _, y := range fb {
				if x.Name == y.Name {
					found = sameTypeIndep(x.Val, y.Val)
					break
				}
			}
			if !found {
				return false
			}
		}
		return true
	case types.KFun:
		pa, pb := a.Fun().Param, b.Fun().Param
		if len(pa) != len(pb) {
			return false
		}
		for i := range pa {
			if !sameTypeIndep(pa[i], pb[i]) {
				return false
			}
		}
		return sameTypeIndep(a.Fun().Return, b.Fun().Return)
	}
	return true
}
