package main

// One fixed history for the engine stream: a list literal of 66 000 members is refused by the
// bytecode compiler (operand of NEW_LIST does not fit 16 bits: `overflow`, reported by Compile as
// an error) and accepted by the closure compiler on the same engine; a literal of 65 535 members is
// accepted by both.

import (
	"fmt"
	"strings"

	"github.com/goghcrow/yae"
	"github.com/goghcrow/yae/closure"
	"github.com/goghcrow/yae/types"
	"github.com/goghcrow/yae/val"
)

func engineRefusalCase() Case {
	human := "engine Compile([1 … 66000][0]) on vm; UseCompiler(closure); Compile(the same); invoke #2; UseCompiler(vm); Compile([1 … 65535][0]); invoke #5"
	c := Case{Human: human, Tags: []string{"gen:engine-history", "engine:vm-refusal-history"}, Nontriv: true}
	if guardBegin(human) {
		return crashCase(human)
	}
	defer guardEnd()
	long := func(n int) string {
		var b strings.Builder
		b.WriteString("[")
		for i := 1; i <= n; i++ {
			if i > 1 {
				b.WriteString(", ")
			}
			fmt.Fprint(&b, i%10)
		}
		b.WriteString("][0]")
		return b.String()
	}
	big, fit := long(66000), long(65535)
	e := yae.NewExpr()
	env0 := types.NewEnv()
	var want, reqOps []string
	var callables []yae.Callable
	compile := func(src string) {
		var cl yae.Callable
		var err error
		func() {
			defer func() {
				if p := recover(); p != nil {
					err = fmt.Errorf("PANIC %v", p)
				}
			}()
			cl, err = e.Compile(src, env0)
		}()
		callables = append(callables, cl)
		reqOps = append(reqOps, sxList("compile", sxList(), sxStr(src)))
		switch {
		case err == nil:
			want = append(want, "(compiled ok)")
		case err.Error() == "overflow":
			want = append(want, "(compiled err overflow)")
		default:
			want = append(want, sxList("compiled", "err", sxStr(err.Error())))
		}
	}
	invoke := func(k int) {
		callables = append(callables, nil)
		reqOps = append(reqOps, sxList("invoke", sxInt(k), sxList()))
		if callables[k] == nil {
			want = append(want, "nocallable")
			return
		}
		var res *val.Val
		var err error
		func() {
			defer func() {
				if p := recover(); p != nil {
					err = fmt.Errorf("PANIC %v", p)
				}
			}()
			res, err = callables[k](val.NewEnv())
		}()
		if err != nil {
			want = append(want, sxList("result", "fail", classifyPanic(err.Error()), sxList()))
		} else {
			want = append(want, sxList("result", "ok", safely(func() string { return encVal(res) }), sxList()))
		}
	}
	compile(big) // 0
	invoke(0)    // 1: no Callable
	e.UseCompiler(closure.Compile)
	callables = append(callables, nil)
	reqOps = append(reqOps, "(compiler closure)")
	want = append(want, "done") // 2
	compile(big)                // 3
	invoke(3)                   // 4
	e.UseBytecodeCompiler()
	callables = append(callables, nil)
	reqOps = append(reqOps, "(compiler vm)")
	want = append(want, "done") // 5
	compile(fit)                // 6
	invoke(6)                   // 7
	c.Req = sxList("engine", sxList(), sxList(sxList(), sxList()), sxList(reqOps...))
	c.Want = sxList(append([]string{"outs"}, want...)...)
	return c
}
