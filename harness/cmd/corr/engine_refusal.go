package main

// One fixed history for the engine stream: a call with 256 arguments is refused by the bytecode
// compiler (the argument count does not fit 8 bits: `overflow`, reported by Compile as an error;
// a later invocation finds no Callable) and accepted by the closure compiler on the same engine.

import (
	"fmt"
	"strings"

	"github.com/goghcrow/yae"
	"github.com/goghcrow/yae/closure"
	"github.com/goghcrow/yae/types"
	"github.com/goghcrow/yae/val"
)

func engineRefusalCase() Case {
	human := "engine RegisterFun(wide: 256 parameters); Compile(wide(1, …, 1)) on vm; invoke #1; UseCompiler(closure); Compile(the same); invoke #4"
	c := Case{Human: human, Tags: []string{"gen:engine-history", "engine:vm-refusal-history"}, Nontriv: true}
	if guardBegin(human) {
		return crashCase(human)
	}
	defer guardEnd()
	ps := make([]*T, 256)
	args := make([]string, 256)
	for i := range ps {
		ps[i] = tNum
		args[i] = "1"
	}
	wide := hostDecl{Name: "wide", Params: ps, Ret: tNum, Beh: "(ret 0)"}
	src := "wide(" + strings.Join(args, ", ") + ")"
	e := yae.NewExpr()
	env0 := types.NewEnv()
	var want, reqOps []string
	var callables []yae.Callable
	step := func(req, w string, cl yae.Callable) {
		reqOps = append(reqOps, req)
		want = append(want, w)
		callables = append(callables, cl)
	}
	compile := func() {
		var cl yae.Callable
		var err error
		func() {
			defer func() {
				if p := recover(); p != nil {
					err = fmt.Errorf("PANIC %v", p)
				}
			}()
			cl, err = e.Compile(src, env0)
		}()
		switch {
		case err == nil:
			step(sxList("compile", sxList(), sxStr(src)), "(compiled ok)", cl)
		case err.Error() == "overflow":
			step(sxList("compile", sxList(), sxStr(src)), "(compiled err overflow)", nil)
		default:
			step(sxList("compile", sxList(), sxStr(src)), sxList("compiled", "err", sxStr(err.Error())), nil)
		}
	}
	invoke := func(k int) {
		req := sxList("invoke", sxInt(k), sxList())
		if callables[k] == nil {
			step(req, "nocallable", nil)
			return
		}
		var res *val.Val
		var err error
		trace = nil
		out := captureStdout(func() {
			defer func() {
				if p := recover(); p != nil {
					err = fmt.Errorf("PANIC %v", p)
				}
			}()
			res, err = callables[k](val.NewEnv())
		})
		var events []string
		for _, ln := range strings.Split(strings.TrimSuffix(out, "\n"), "\n") {
			if strings.HasPrefix(ln, callMarker) {
				events = append(events, strings.TrimPrefix(ln, callMarker))
			}
		}
		if err != nil {
			step(req, sxList("result", "fail", classifyPanic(err.Error()), sxList(events...)), nil)
		} else {
			step(req, sxList("result", "ok", safely(func() string { return encVal(res) }), sxList(events...)), nil)
		}
	}
	e.RegisterFun(wide.build())
	step(sxList("regfun", wide.sx()), "done", nil) // 0
	compile()                                       // 1: vm refuses
	invoke(1)                                       // 2: no Callable
	e.UseCompiler(closure.Compile)
	step("(compiler closure)", "done", nil) // 3
	compile()                               // 4
	invoke(4)                               // 5
	c.Req = sxList("engine", sxList(), sxList(sxList(), sxList()), sxList(reqOps...))
	c.Want = sxList(append([]string{"outs"}, want...)...)
	return c
}
