package main

// A Callable invoked again WHILE it is running (from a host function it calls), with an
// environment of its own — mismatching (must be refused, and the outer evaluation must go on with
// ITS bindings) or equal in type with other values (accepted, and again the outer evaluation keeps
// its own bindings).

import (
	"fmt"

	"github.com/goghcrow/yae"
	"github.com/goghcrow/yae/types"
	"github.com/goghcrow/yae/val"
)

func envcheckReentrantCases() []Case {
	var out []Case
	for _, be := range []string{"vm", "closure"} {
		for _, inner := range []struct {
			name   string
			env    map[string]interface{}
			accept bool
		}{
			{"a mistyped binding", map[string]interface{}{"x": "oops", "y": 2}, false},
			{"a missing binding", map[string]interface{}{"y": 2}, false},
			{"equal types, other values", map[string]interface{}{"x": 100, "y": 200}, true},
		} {
			human := fmt.Sprintf("re-entrant invocation [%s]: probe(1) + x + y compiled against {x: 41, y: 1}; while it runs, probe invokes the same Callable with %s", be, inner.name)
			c := Case{Human: human, Tags: []string{"special:envcheck-reentrant"}, Nontriv: true, Want: "ok"}
			if guardBegin(human) {
				out = append(out, crashCase(human))
				continue
			}
			func() {
				defer guardEnd()
				defer func() {
					if p := recover(); p != nil {
						c.Want = "panic"
						c.OracleID, c.Oracle = "envcheck-panic", fmt.Sprint(p)
					}
				}()
				e := yae.NewExpr()
				if be == "closure" {
					e.UseClosureCompiler()
				}
				var callable yae.Callable
				depth := 0
				var innerErr error
				var innerRes *val.Val
				probe := val.Fun(types.Fun("probe", []*types.Type{types.Num}, types.Num), func(args ...*val.Val) *val.Val {
					if depth == 0 {
						depth++
						innerRes, innerErr = callable(inner.env)
						depth--
					}
					return args[0]
				})
				e.RegisterFun(probe)
				var err error
				callable, err = e.Compile("probe(1) + x + y", map[string]interface{}{"x": 41, "y": 1})
				if err != nil {
					c.Want = "compile-error"
					c.OracleID, c.Oracle = "envcheck-rejects-equal", "does not compile: "+err.Error()
					return
				}
				res, rerr := callable(map[string]interface{}{"x": 41, "y": 1})
				switch {
				case inner.accept && innerErr != nil:
					c.OracleID, c.Oracle = "envcheck-rejects-equal", "the inner invocation (equal types) is refused: "+innerErr.Error()
				case !inner.accept && innerErr == nil:
					c.OracleID, c.Oracle = "envcheck-accepts-mismatch", fmt.Sprintf("the inner invocation with %s is accepted (result %v)", inner.name, innerRes)
				case inner.accept && (innerRes == nil || innerRes.Type.Kind != types.KNum || innerRes.Num().V != 301):
					c.OracleID, c.Oracle = "envcheck-wrong-result", fmt.Sprintf("the inner invocation evaluates to %v, expected 301", innerRes)
				case rerr != nil:
					c.OracleID, c.Oracle = "envcheck-rejects-equal", "the outer invocation fails after the inner one: "+rerr.Error()
				case res == nil || res.Type.Kind != types.KNum || res.Num().V != 43:
					c.OracleID, c.Oracle = "envcheck-wrong-result", fmt.Sprintf("the outer invocation evaluates to %v, expected 43 (its own bindings x = 41, y = 1)", res)
				}
				if c.OracleID != "" {
					c.Want = "differs"
				}
			}()
			out = append(out, c)
		}
	}
	return out
}
