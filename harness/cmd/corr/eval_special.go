package main

import (
	"fmt"
	"os"
	"os/exec"
	"strings"

	"github.com/goghcrow/yae/trans"
	"github.com/goghcrow/yae/types"
	"github.com/goghcrow/yae/val"
	"github.com/goghcrow/yae/vm"
)

// Special cases of the eval stream: corners of C03 / C05 that need a specific registration
// order, a long-running program or a function value in the environment.

// longProgram executes more than n instructions on the VM (a list literal with n members).
func longProgram(n int) string {
	var b strings.Builder
	b.WriteString("len([")
	for i := 0; i < n; i++ {
		if i > 0 {
			b.WriteString(",")
		}
		b.WriteString("n1")
	}
	b.WriteString("])")
	return b.String()
}

// acceptance of a source under an engine: "" when accepted, else the error class
func acceptClass(eng *engine, vars []envVar, src string) string {
	parsed, perr := parseSrc(src)
	if perr != nil {
		return "syntax"
	}
	d := trans.Desugar(parsed)
	_, cerr := checkExpr(eng, vars, d)
	if cerr != nil {
		return classifyCheckErr(cerr)
	}
	return ""
}

func specialCases() []Case {
	var cs []Case
	vals := map[string]*val.Val{}
	vg := &valGen{r: newRand(1)}
	for _, v := range envFamily {
		vals[v.Name] = vg.gen(v.Ty, true)
	}
	// (a) more than 1024 instructions: the call-threaded loop has an execution limit
	eng := newEngine(hostZoo)
	cs = append(cs, evalCases(eng, envFamily, vals, longProgram(1100), "prog:long")...)

	// (b) a monomorphic overload must match an argument whose object type lists the fields in
	// another order (types are equal irrespective of field order)
	objT := tObj(TF{"a", tNum}, TF{"b", tStr})
	hobj := hostDecl{Name: "hobj", Params: []*T{objT}, Ret: tNum, Beh: sxList("cnum", sxNum(1)), Const: val.Num(1)}
	eng2 := newEngine([]hostDecl{hobj})
	same := acceptClass(eng2, envFamily, `hobj({a: 1, b: "x"})`)
	perm := acceptClass(eng2, envFamily, `hobj({b: "x", a: 1})`)
	c := Case{Human: `overload hobj({a:num,b:str}) called with {b:"x", a:1}`, Tags: []string{"special:mono-field-order"}, Nontriv: true,
		Want: fmt.Sprintf("declared-order=%q permuted=%q", same, perm)}
	if same == "" && perm != "" {
		c.Oracle, c.OracleID = "a monomorphic overload registered for {a: num, b: str} is not found for an argument of the equal type {b: str, a: num}: "+perm, "mono-key-field-order"
	}
	cs = append(cs, c)
	cs = append(cs, evalCases(eng2, envFamily, vals, `hobj({a: 1, b: "x"})`, "prog:special")...)
	cs = append(cs, evalCases(eng2, envFamily, vals, `hobj({b: "x", a: 1})`, "prog:special")...)

	// (c) the first polymorphic overload whose pattern unifies through the ⊥ rule is committed to
	// even when the final parameter check then fails and a later overload fits
	f1 := hostDecl{Name: "pf", Params: []*T{tList(tList(tVar("a")))}, Ret: tNum, Beh: sxList("cnum", sxNum(1)), Const: val.Num(1)}
	f2 := hostDecl{Name: "pf", Params: []*T{tList(tVar("b"))}, Ret: tNum, Beh: sxList("cnum", sxNum(2)), Const: val.Num(2)}
	engA := newEngine([]hostDecl{f1, f2})
	engB := newEngine([]hostDecl{f2})
	both := acceptClass(engA, envFamily, `pf([])`)
	only2 := acceptClass(engB, envFamily, `pf([])`)
	c = Case{Human: `overloads pf(list[list[a]]) then pf(list[b]) called with []`, Tags: []string{"special:poly-first-match"}, Nontriv: true,
		Want: fmt.Sprintf("both=%q second-only=%q", both, only2)}
	if only2 == "" && both != "" {
		c.Oracle, c.OracleID = "pf([]) is rejected ("+both+") although the second registered overload pf(list[b]) can be instantiated to the argument type", "poly-first-match-bot"
	}
	cs = append(cs, c)
	cs = append(cs, evalCases(engA, envFamily, vals, `pf([])`, "prog:special")...)
	cs = append(cs, evalCases(engA, envFamily, vals, `pf([[1]]) + pf([1])`, "prog:special")...)

	// (d) dynamic call of a lazy function value: run in a child process (the VM passes raw
	// arguments where thunks are expected, which can crash the process)
	c = Case{Human: `dynamic call (ho.g)(1, 2) of a lazy function value on the vm`, Tags: []string{"special:dynamic-lazy"}, Nontriv: true}
	out, err := exec.Command(os.Args[0], "-selftest", "dynamic-lazy").CombinedOutput()
	res := strings.TrimSpace(string(out))
	if i := strings.Index(res, "\n"); i >= 0 {
		res = res[:i]
	}
	c.Want = res
	if err != nil || !strings.HasPrefix(res, "agree") {
		if len(res) > 200 {
			res = res[:200]
		}
		c.Oracle, c.OracleID = "closure and vm disagree on a dynamic call of a lazy function value: "+res, "vm-dynamic-lazy"
	}
	cs = append(cs, c)
	return cs
}

// selftestDynamicLazy is run in a child process: (ho.g)(1,2) with ho.g a lazy function value.
func selftestDynamicLazy() {
	lz := hostDecl{Name: "lz", Params: []*T{tNum, tNum}, Ret: tNum, Lazy: true, Beh: "(force 0)", Force: []int{0}}
	fv := lz.build()
	eng := newEngine(nil)
	hoT := types.Obj([]types.Field{{Name: "g", Val: fv.Type}})
	ho := val.Obj(hoT.Obj()).Obj()
	ho.V[0] = fv
	parsed, _ := parseSrc(`(ho.g)(1, 2)`)
	d := trans.Desugar(parsed)
	env0 := types.NewEnv()
	env0.Put("ho", hoT)
	ty := types.Check(d, env0.Inherit(eng.tenv))
	run := func(b backend) (res string) {
		defer func() {
			if r := recover(); r != nil {
				res = "panic: " + fmt.Sprint(r)
			}
		}()
		cl := b.c(d, eng.renv)
		env1 := val.NewEnv()
		env1.Put("ho", ho.Vl())
		v := cl(env1.Inherit(eng.renv))
		if w := wfVal(v, ty, "result"); w != "" {
			return "ill-formed: " + w
		}
		return v.String()
	}
	a := run(backends[0])
	b := run(backend{"vm", vm.Compile})
	if a == b {
		fmt.Println("agree: " + a)
		return
	}
	fmt.Printf("closure=%s vm=%s\n", a, b)
	os.Exit(1)
}
