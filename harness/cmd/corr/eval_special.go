package main

import (
	"fmt"
	"github.com/goghcrow/yae"
	"github.com/goghcrow/yae/compiler"
	"github.com/goghcrow/yae/fun"
	"github.com/goghcrow/yae/parser/ast"
	"github.com/goghcrow/yae/parser/oper"
	"io"
	"os"
	"os/exec"
	"strings"

	"github.com/goghcrow/yae/trans"
	"github.com/goghcrow/yae/types"
	"github.com/goghcrow/yae/val"
	"github.com/goghcrow/yae/vm"
)

// Special cases of the eval stream: corners of C03 / C05 that need a specific registration
// order, a long-running program or a function value in the environment.

// longProgram executes more than n instructions on the VM (a list literal with n members).
func longProgram(n int) string {
	var b strings.Builder
	b.WriteString("len([")
	for i := 0; i < n; i++ {
		if i > 0 {
			b.WriteString(",")
		}
		b.WriteString("n1")
	}
	b.WriteString("])")
	return b.String()
}

// acceptance of a source under an engine: "" when accepted, else the error class
func acceptClass(eng *engine, vars []envVar, src string) string {
	parsed, perr := parseSrc(src)
	if perr != nil {
		return "syntax"
	}
	d := trans.Desugar(parsed)
	_, cerr := checkExpr(eng, vars, d)
	if cerr != nil {
		return classifyCheckErr(cerr)
	}
	return ""
}

func specialCases() []Case {
	var cs []Case
	vals := map[string]*val.Val{}
	vg := &valGen{r: newRand(1)}
	for _, v := range envFamily {
		vals[v.Name] = vg.gen(v.Ty, true)
	}
	// (a) more than 1024 instructions: the call-threaded loop has an execution limit
	eng := newEngine(hostZoo)
	cs = append(cs, evalCases(eng, envFamily, vals, longProgram(1100), "prog:long")...)

	// (b) a monomorphic overload must match an argument whose object type lists the fields in
	// another order (types are equal irrespective of field order)
	objT := tObj(TF{"a", tNum}, TF{"b", tStr})
	hobj := hostDecl{Name: "hobj", Params: []*T{objT}, Ret: tNum, Beh: sxList("cnum", sxNum(1)), Const: val.Num(1)}
	eng2 := newEngine([]hostDecl{hobj})
	same := acceptClass(eng2, envFamily, `hobj({a: 1, b: "x"})`)
	perm := acceptClass(eng2, envFamily, `hobj({b: "x", a: 1})`)
	c := Case{Human: `overload hobj({a:num,b:str}) called with {b:"x", a:1}`, Tags: []string{"special:mono-field-order"}, Nontriv: true,
		Want: fmt.Sprintf("declared-order=%q permuted=%q", same, perm)}
	if same == "" && perm != "" {
		c.Oracle, c.OracleID = "a monomorphic overload registered for {a: num, b: str} is not found for an argument of the equal type {b: str, a: num}: "+perm, "mono-key-field-order"
	}
	cs = append(cs, c)
	cs = append(cs, evalCases(eng2, envFamily, vals, `hobj({a: 1, b: "x"})`, "prog:special")...)
	cs = append(cs, evalCases(eng2, envFamily, vals, `hobj({b: "x", a: 1})`, "prog:special")...)

	// (c) the first polymorphic overload whose pattern unifies through the ⊥ rule is committed to
	// even when the final parameter check then fails and a later overload fits
	f1 := hostDecl{Name: "pf", Params: []*T{tList(tList(tVar("a")))}, Ret: tNum, Beh: sxList("cnum", sxNum(1)), Const: val.Num(1)}
	f2 := hostDecl{Name: "pf", Params: []*T{tList(tVar("b"))}, Ret: tNum, Beh: sxList("cnum", sxNum(2)), Const: val.Num(2)}
	engA := newEngine([]hostDecl{f1, f2})
	engB := newEngine([]hostDecl{f2})
	both := acceptClass(engA, envFamily, `pf([])`)
	only2 := acceptClass(engB, envFamily, `pf([])`)
	c = Case{Human: `overloads pf(list[list[a]]) then pf(list[b]) called with []`, Tags: []string{"special:poly-first-match"}, Nontriv: true,
		Want: fmt.Sprintf("both=%q second-only=%q", both, only2)}
	if only2 == "" && both != "" {
		c.Oracle, c.OracleID = "pf([]) is rejected ("+both+") although the second registered overload pf(list[b]) can be instantiated to the argument type", "poly-first-match-bot"
	}
	cs = append(cs, c)
	cs = append(cs, evalCases(engA, envFamily, vals, `pf([])`, "prog:special")...)
	cs = append(cs, evalCases(engA, envFamily, vals, `pf([[1]]) + pf([1])`, "prog:special")...)

	// (e) the same polymorphic function registered twice, then another overload of that name:
	// the index written into the tree must select the same function in the run-time table
	sumL := hostDecl{Name: "summary", Params: []*T{tList(tVar("a"))}, Ret: tNum, Beh: sxList("cnum", sxNum(-1)), Const: val.Num(-1)}
	sumM := hostDecl{Name: "summary", Params: []*T{tMap(tVar("k"), tVar("v"))}, Ret: tStr, Beh: sxList("cstr", sxStr("map")), Const: val.Str("map")}
	engD := newEngine([]hostDecl{sumL, sumL, sumM})
	for _, p := range []string{`summary(m)`, `summary(xs)`, `summary(m) + "!"`, `[summary(mn), summary(["a": 1])]`} {
		cs = append(cs, evalCases(engD, envFamily, vals, p, "prog:special-dup-registration")...)
	}
	// (f) a polymorphic overload whose result contains a variable its parameters do not determine
	wrapOpen := hostDecl{Name: "wrap", Params: []*T{tVar("a")}, Ret: tList(tVar("b")), Beh: "(ret 0)"}
	wrapOK := hostDecl{Name: "wrap", Params: []*T{tVar("a")}, Ret: tList(tVar("a")), Beh: "(ret 0)"}
	engW := newEngine([]hostDecl{wrapOpen, wrapOK})
	for _, p := range []string{`len(wrap(1))`, `[wrap(1)]`, `{f: wrap(true)}`} {
		out := evalCases(engW, envFamily, vals, p, "prog:special-open-result")
		// only the checker's verdict is compared (the host behaviours are not type-correct)
		if len(out) > 0 {
			cs = append(cs, out[0])
		}
	}

	// (g) a dynamic call site evaluated several times with different function values in the
	// environment: every back end must call the CURRENT value of the callee expression
	cs = append(cs, dynamicCalleeCase())

	// (i) sugar against the explicit call THROUGH THE FACADE, under several engine configurations
	cs = append(cs, facadeSugarCases()...)

	// (h) re-entrancy: a host function evaluates the SAME compiled expression again while it is
	// running (no goroutine involved); every back end must behave as if each evaluation had its
	// own machine state
	cs = append(cs, reentrantCases()...)

	// (d) dynamic call of a lazy function value: run in a child process (the VM passes raw
	// arguments where thunks are expected, which can crash the process)
	c = Case{Human: `dynamic call (ho.g)(1, 2) of a lazy function value on the vm`, Tags: []string{"special:dynamic-lazy"}, Nontriv: true}
	out, err := exec.Command(os.Args[0], "-selftest", "dynamic-lazy").CombinedOutput()
	res := strings.TrimSpace(string(out))
	if i := strings.Index(res, "\n"); i >= 0 {
		res = res[:i]
	}
	c.Want = res
	if err != nil || !strings.HasPrefix(res, "agree") {
		if len(res) > 200 {
			res = res[:200]
		}
		c.Oracle, c.OracleID = "closure and vm disagree on a dynamic call of a lazy function value: "+res, "vm-dynamic-lazy"
	}
	cs = append(cs, c)
	return cs
}

// selftestDynamicLazy is run in a child process: (ho.g)(1,2) with ho.g a lazy function value.
func selftestDynamicLazy() {
	lz := hostDecl{Name: "lz", Params: []*T{tNum, tNum}, Ret: tNum, Lazy: true, Beh: "(force 0)", Force: []int{0}}
	fv := lz.build()
	eng := newEngine(nil)
	hoT := types.Obj([]types.Field{{Name: "g", Val: fv.Type}})
	ho := val.Obj(hoT.Obj()).Obj()
	ho.V[0] = fv
	parsed, _ := parseSrc(`(ho.g)(1, 2)`)
	d := trans.Desugar(parsed)
	env0 := types.NewEnv()
	env0.Put("ho", hoT)
	ty := types.Check(d, env0.Inherit(eng.tenv))
	run := func(b backend) (res string) {
		defer func() {
			if r := recover(); r != nil {
				res = "panic: " + fmt.Sprint(r)
			}
		}()
		cl := b.c(d, eng.renv)
		env1 := val.NewEnv()
		env1.Put("ho", ho.Vl())
		v := cl(env1.Inherit(eng.renv))
		if w := wfVal(v, ty, "result"); w != "" {
			return "ill-formed: " + w
		}
		return v.String()
	}
	a := run(backends[0])
	b := run(backend{"vm", vm.Compile})
	if a == b {
		fmt.Println("agree: " + a)
		return
	}
	fmt.Printf("closure=%s vm=%s\n", a, b)
	os.Exit(1)
}

func dynamicCalleeCase() Case {
	c := Case{Human: "dynamic call (ho.f)(1, 2) compiled once, run with two different function values", Tags: []string{"special:dynamic-callee"}, Nontriv: true, Want: "ok"}
	if guardBegin(c.Human) {
		return crashCase(c.Human)
	}
	defer guardEnd()
	first := hostDecl{Name: "pickA", Params: []*T{tNum, tNum}, Ret: tNum, Beh: "(ret 0)", RetArg: 0}
	second := hostDecl{Name: "pickB", Params: []*T{tNum, tNum}, Ret: tNum, Beh: "(ret 1)", RetArg: 1}
	fa, fb := first.build(), second.build()
	eng := newEngine(nil)
	hoT := types.Obj([]types.Field{{Name: "f", Val: fa.Type}})
	mkEnv := func(f *val.Val) *val.Env {
		ho := val.Obj(hoT.Obj()).Obj()
		ho.V[0] = f
		e := val.NewEnv()
		e.Put("ho", ho.Vl())
		return e
	}
	parsed, perr := parseSrc(`(ho.f)(1, 2)`)
	if perr != nil {
		c.Oracle, c.OracleID = "does not parse", "backend-divergence"
		return c
	}
	d := trans.Desugar(parsed)
	env0 := types.NewEnv()
	env0.Put("ho", hoT)
	func() {
		defer func() { recover() }()
		types.Check(d, env0.Inherit(eng.tenv))
	}()
	var results []string
	for _, b := range backends[:3] {
		res := func() (r string) {
			defer func() {
				if p := recover(); p != nil {
					r = "panic: " + fmt.Sprint(p)
				}
			}()
			cl := b.c(d, eng.renv)
			out := []string{}
			captureStdout(func() {
				for _, f := range []*val.Val{fa, fb, fa, fb} {
					out = append(out, cl(mkEnv(f).Inherit(eng.renv)).String())
				}
			})
			return strings.Join(out, ",")
		}()
		results = append(results, b.name+"="+res)
	}
	c.Want = strings.Join(results, " ")
	for _, r := range results[1:] {
		if strings.SplitN(r, "=", 2)[1] != strings.SplitN(results[0], "=", 2)[1] || !strings.HasSuffix(r, "=1,2,1,2") {
			c.Oracle, c.OracleID = "back ends disagree on a dynamic call whose callee changes between invocations (expected 1,2,1,2): "+c.Want, "backend-divergence"
		}
	}
	if !strings.HasSuffix(results[0], "=1,2,1,2") {
		c.Oracle, c.OracleID = "a dynamic call does not call the current value of its callee (expected 1,2,1,2): "+c.Want, "backend-divergence"
	}
	return c
}

// reentrantCase: `if(n <= 1, 1, n * sub(n - 1))` where the host function `sub(k)` evaluates the
// very same compiled closure with n = k: factorial by re-entering the compiled expression; also a
// lazy variant in which the re-entry happens inside a forced thunk.
func reentrantCases() []Case {
	c := Case{Human: "re-entrant evaluation: a host function evaluates the same compiled expression again", Tags: []string{"special:reentrant"}, Nontriv: true, Want: "ok"}
	if guardBegin(c.Human) {
		return []Case{crashCase(c.Human)}
	}
	defer guardEnd()
	programs := []struct {
		src  string
		want func(n float64) float64
	}{
		{`if(n <= 1, 1, n * sub(n - 1))`, func(n float64) float64 {
			r := 1.0
			for k := 2.0; k <= n; k++ {
				r *= k
			}
			return r
		}},
		{`n <= 0 ? 0 : n + sub(n - 1)`, func(n float64) float64 { return n * (n + 1) / 2 }},
		{`[n, if(n <= 0, 0, sub(n - 1))][0] + if(n <= 0, 0, len([sub(0), sub(0)]))`, func(n float64) float64 {
			if n <= 0 {
				return 0
			}
			return n + 2
		}},
	}
	var bad []string
	for _, pr := range programs {
		for _, b := range backends[:3] {
			res := func() (r string) {
				defer func() {
					if p := recover(); p != nil {
						r = "panic: " + fmt.Sprint(p)
					}
				}()
				var cl compiler.Closure
				var renv *val.Env
				sub := val.Fun(types.Fun("sub", []*types.Type{types.Num}, types.Num), func(a ...*val.Val) *val.Val {
					e := val.NewEnv()
					e.Put("n", val.Num(a[0].Num().V))
					return cl(e.Inherit(renv))
				})
				eng := newEngine(nil)
				eng.tenv.RegisterFun(sub.Type)
				eng.renv.RegisterFun(sub)
				renv = eng.renv
				parsed, perr := parseSrc(pr.src)
				if perr != nil {
					return "does not parse"
				}
				d := trans.Desugar(parsed)
				env0 := types.NewEnv()
				env0.Put("n", types.Num)
				types.Check(d, env0.Inherit(eng.tenv))
				cl = b.c(d, eng.renv)
				out := []string{}
				for _, n := range []float64{0, 1, 4, 6} {
					e := val.NewEnv()
					e.Put("n", val.Num(n))
					v := cl(e.Inherit(eng.renv))
					if v.Type.Kind != types.KNum || v.Num().V != pr.want(n) {
						out = append(out, fmt.Sprintf("n=%v gives %s, expected %v", n, v, pr.want(n)))
					}
				}
				return strings.Join(out, "; ")
			}()
			if res != "" {
				bad = append(bad, b.name+" on "+pr.src+": "+res)
			}
		}
	}
	if len(bad) > 0 {
		c.Want = "differs"
		c.Oracle, c.OracleID = "a compiled expression is not re-entrant: "+strings.Join(bad, " | "), "backend-divergence-reentrant"
	}
	out := []Case{c}
	// the same observation as an internal fault when the interleaved evaluation ends in a Go panic
	// (an accepted program in a conforming environment must not fail that way)
	f := Case{Human: c.Human + " (faults)", Tags: []string{"special:reentrant"}, Nontriv: true, Want: "ok"}
	for _, b := range bad {
		if strings.Contains(b, "panic: ") {
			f.Want = "differs"
			f.Oracle, f.OracleID = "internal fault during an interleaved evaluation of an accepted program: "+b, "internal-fault"
			break
		}
	}
	return append(out, f)
}

// facadeSugarCases: pairs (sugared text, explicit call) evaluated through yae.Expr.Compile under
// engine configurations that differ in what is registered — the default engine, built-ins switched
// off with functions only, with functions and operators, with an extra translator — must have the
// same outcome (value, or both fail).  "x op y, op x, c ? a : b, o.f(args) and (e) have the same
// type and value (or fail alike) as the explicit calls" whatever the engine was given.
func facadeSugarCases() []Case {
	type cfg struct {
		name string
		mk   func() *yae.Expr
	}
	funs := func() []*val.Val { return fun.BuiltIn() }
	cfgs := []cfg{
		{"default", func() *yae.Expr { return yae.NewExpr() }},
		{"default+closure", func() *yae.Expr { return yae.NewExpr().UseClosureCompiler() }},
		{"functions-only", func() *yae.Expr { return yae.NewExpr().UseBuiltIn(false).RegisterFun(funs()...) }},
		{"functions+operators", func() *yae.Expr {
			return yae.NewExpr().UseBuiltIn(false).RegisterOperator(oper.BuiltIn()...).RegisterFun(funs()...)
		}},
		{"operators-first", func() *yae.Expr {
			return yae.NewExpr().UseBuiltIn(false).RegisterFun(funs()...).RegisterOperator(oper.BuiltIn()...)
		}},
		{"debug-log", func() *yae.Expr { return yae.NewExpr().EnableDebug(io.Discard) }},
		{"bytecode-explicit", func() *yae.Expr { return yae.NewExpr().UseClosureCompiler().UseBytecodeCompiler() }},
		{"extra-translator", func() *yae.Expr {
			return yae.NewExpr().RegisterTranslator(func(e ast.Expr) ast.Expr { return e })
		}},
	}
	type pair struct {
		sugar, call string
		needsOps    bool
	}
	pairs := []pair{
		{`(n)`, `n`, false}, {`((n))`, `n`, false}, {`max((n), (7))`, `max(n, 7)`, false}, {`(len)(s)`, `len(s)`, false},
		{`b ? s : "no"`, `if(b, s, "no")`, false}, {`b ? (b ? 1 : 2) : 3`, `if(b, if(b, 1, 2), 3)`, false},
		{`n.max(7)`, `max(n, 7)`, false}, {`s.len()`, `len(s)`, false}, {`xs.len().max(1)`, `max(len(xs), 1)`, false},
		{`[n, (n)].len()`, `len([n, n])`, false}, {`{a: (n)}.a`, `{a: n}.a`, false}, {`xs[(0)]`, `xs[0]`, false},
		// (a symbolic operator cannot be written as a callee in source text; the operator forms are
		// compared with their desugaring at the tree level by the desugar stream)
		{`-n`, `-(n)`, true}, {`!b`, `!(b)`, true}, {`(n + 1)`, `n + 1`, true}, {`(n > 1) && (b)`, `n > 1 && b`, true},
		{`(b ? n : 0) + 1`, `if(b, n, 0) + 1`, true}, {`(n + 1).max(2)`, `max(n + 1, 2)`, true},
	}
	env := map[string]interface{}{"n": 3.0, "s": "a", "b": true, "xs": []float64{1, 2}}
	var cs []Case
	for _, cf := range cfgs {
		for _, pr := range pairs {
			if pr.needsOps && cf.name == "functions-only" {
				continue
			}
			human := fmt.Sprintf("facade[%s] %s  vs  %s", cf.name, pr.sugar, pr.call)
			c := Case{Human: human, Tags: []string{"special:facade-sugar", "cfg:" + cf.name}, Nontriv: true, Want: "same"}
			if guardBegin(human) {
				cs = append(cs, crashCase(human))
				continue
			}
			func() {
				defer guardEnd()
				run := func(src string) (out string) {
					defer func() {
						if r := recover(); r != nil {
							out = "panic: " + fmt.Sprint(r)
						}
					}()
					cl, err := cf.mk().Compile(src, env)
					if err != nil {
						return "compile error"
					}
					v, err := cl(env)
					if err != nil {
						return "run error"
					}
					return v.String() + " : " + v.Type.String()
				}
				a, b := run(pr.sugar), run(pr.call)
				if a != b {
					c.Want = "differs"
					c.Oracle, c.OracleID = fmt.Sprintf("%s gives %s, %s gives %s", pr.sugar, a, pr.call, b), "sugar-differs-from-call"
				} else if strings.HasSuffix(a, "error") || strings.HasPrefix(a, "panic") {
					// both fail: fine for the property, but on the unchanged tree every pair evaluates
					c.Tags = append(c.Tags, "facade-sugar:both-fail")
				}
			}()
			cs = append(cs, c)
		}
	}
	return cs
}
