package main

import (
	"bufio"
	"bytes"
	"encoding/json"
	"fmt"
	"io"
	"math/rand"
	"os"
	"os/exec"
	"sort"
	"strings"
	"time"
)

// A Case is one request of the correspondence protocol together with the implementation's
// canonical answer and bookkeeping for the evidence file.
type Case struct {
	Req      string   // request line sent to the model
	Want     string   // what the implementation answered, canonicalised
	Human    string   // readable form of the input, for samples and replays
	Tags     []string // distribution buckets
	Nontriv  bool     // counts towards distinct_nontrivial
	Oracle   string   // non-empty: implementation-side oracle failure for the *property*
	OracleID string   // class of the oracle failure (matched against known findings)
}

type Disagreement struct {
	Stream string `json:"stream"`
	Human  string `json:"input"`
	Req    string `json:"request"`
	Impl   string `json:"implementation"`
	Model  string `json:"model"`
	// Projections names the parts of the answer that differ (class, skeleton, value, calls,
	// prints, tree, ...); "all" when the stream does not split its answers.
	Projections []string `json:"projections"`
}

type OracleFailure struct {
	Stream string `json:"stream"`
	Class  string `json:"class"`
	Human  string `json:"input"`
	What   string `json:"what"`
	Req    string `json:"request,omitempty"`
}

type Summary struct {
	Stream             string          `json:"stream"`
	Seed               int64           `json:"seed"`
	Evaluations        int             `json:"evaluations"`
	Distinct           int             `json:"distinct_nontrivial"`
	Rule               string          `json:"rule"`
	Dist               map[string]int  `json:"distribution"`
	Samples            []string        `json:"samples"`
	Disagreements      []Disagreement  `json:"disagreements"`
	OracleFails        []OracleFailure `json:"oracle_failures"`
	ModelErrors        int             `json:"model_errors"`
	TotalDisagreements int             `json:"total_disagreements"`
	Crashes            int             `json:"worker_crashes"`
	WallS              float64         `json:"wall_s"`
	Exhaustive         bool            `json:"exhaustive"`
}

type Stream struct {
	Name string
	Rule string
	// Gen produces the cases. n is the requested number of random cases (streams add their
	// fixed corpus and exhaustive parts on top), thorough selects the deeper enumeration.
	Gen func(r *rand.Rand, n int, thorough bool) []Case
}

var streams = map[string]*Stream{}

func register(s *Stream) { streams[s.Name] = s }

func runModel(modelBin string, reqs []string) ([]string, error) {
	var in bytes.Buffer
	for _, r := range reqs {
		in.WriteString(r)
		in.WriteByte('\n')
	}
	cmd := exec.Command(modelBin)
	cmd.Stdin = &in
	var out bytes.Buffer
	cmd.Stdout = &out
	cmd.Stderr = os.Stderr
	if err := cmd.Run(); err != nil {
		return nil, fmt.Errorf("model driver failed: %v", err)
	}
	var lines []string
	sc := bufio.NewScanner(&out)
	sc.Buffer(make([]byte, 1<<20), 1<<28)
	for sc.Scan() {
		lines = append(lines, sc.Text())
	}
	if len(lines) != len(reqs) {
		return nil, fmt.Errorf("model driver answered %d lines for %d requests", len(lines), len(reqs))
	}
	return lines, nil
}

// ---------------------------------------------------------------------------------------
// crash isolation: the code under test reinterprets memory through unsafe casts, so a wrong
// static type can kill the process with a fatal signal that recover() cannot catch.  Cases are
// therefore generated and evaluated in a worker process; every guarded item announces itself in
// a progress file first.  When the worker dies, the parent records the announced item as a
// `process-crash` oracle failure and restarts the worker with that item skipped.

// hangTimeout: a guarded item is killed and reported when the worker has burnt this much CPU
// time on it without finishing (a busy loop), or when it shows no progress for blockedTimeout of
// wall time WHILE consuming next to no CPU (a blocked call), or after absoluteTimeout.  CPU time, not wall time, so that a loaded machine (twenty checks
// running side by side) cannot turn a slow but finite evaluation into a false alarm.
var hangTimeout = 5 * time.Minute // CPU time of the whole worker process (collector threads included)
var blockedTimeout = 6 * time.Minute
var absoluteTimeout = 40 * time.Minute

// readTail: the last n bytes of a file
func readTail(path string, n int64) ([]byte, error) {
	f, err := os.Open(path)
	if err != nil {
		return nil, err
	}
	defer f.Close()
	st, err := f.Stat()
	if err != nil {
		return nil, err
	}
	off := st.Size() - n
	if off < 0 {
		off = 0
	}
	b := make([]byte, st.Size()-off)
	_, err = f.ReadAt(b, off)
	if err != nil && err != io.EOF {
		return nil, err
	}
	return b, nil
}

// procCPU: user+system time consumed so far by process pid (Linux /proc), ok=false if unknown
func procCPU(pid int) (time.Duration, bool) {
	b, err := os.ReadFile(fmt.Sprintf("/proc/%d/stat", pid))
	if err != nil {
		return 0, false
	}
	// fields after the command name in parentheses: state is field 3, utime 14, stime 15
	s := string(b)
	i := strings.LastIndexByte(s, ')')
	if i < 0 {
		return 0, false
	}
	f := strings.Fields(s[i+1:])
	if len(f) < 13 {
		return 0, false
	}
	var ut, st int64
	fmt.Sscanf(f[11], "%d", &ut)
	fmt.Sscanf(f[12], "%d", &st)
	return time.Duration(ut+st) * (time.Second / 100), true // USER_HZ = 100
}

var (
	guardSkip     = map[int]bool{}
	guardHung     = map[int]bool{}
	guardCounter  = 0
	guardProgress *os.File
	guardCurrent  string
	guardPanics   []Case // items whose evaluation panicked (recovered by guardEnd)
)

// guardBegin announces an item; it returns true when the item crashed an earlier worker and
// must be skipped (the caller then emits crashCase).
func guardBegin(human string) bool {
	idx := guardCounter
	guardCounter++
	if guardSkip[idx] {
		guardLastSkippedHung = guardHung[idx]
		return true
	}
	guardCurrent = human
	if guardProgress != nil {
		h := human
		if len(h) > 400 {
			h = h[:400]
		}
		fmt.Fprintf(guardProgress, "BEGIN\t%d\t%s\n", idx, strings.ReplaceAll(h, "\n", "\\n"))
	}
	return false
}

// guardEnd must be the deferred call itself (`defer guardEnd()`): it also recovers a panic that
// escaped the item (the harness's own walk of an ill-typed value, for instance) and records the
// item as a crash instead of losing the worker.
func guardEnd() {
	if r := recover(); r != nil {
		c := crashCase(guardCurrent)
		c.Oracle = fmt.Sprintf("evaluating this input panicked outside every error handler: %v", r)
		guardPanics = append(guardPanics, c)
	}
	if guardProgress != nil {
		fmt.Fprintf(guardProgress, "END\n")
	}
}

var guardLastSkippedHung bool

func crashCase(human string) Case {
	what := "the process was killed by a fatal fault (e.g. a mis-typed memory access, stack exhaustion) while this input was evaluated"
	if guardLastSkippedHung {
		what = fmt.Sprintf("no answer within %v of CPU time (or %v without progress and without CPU use) while this input was evaluated (the worker process was killed)", hangTimeout, blockedTimeout)
	}
	return Case{Human: human, Want: "process-crash", Tags: []string{"process-crash"}, Nontriv: true, Oracle: what, OracleID: "process-crash"}
}

// workerMain generates the cases of a stream and writes them as JSON.
func workerMain(s *Stream, seed int64, n int, thorough bool, skip, progress, casesOut string) {
	for _, x := range strings.Split(skip, ",") {
		if x != "" {
			var i int
			fmt.Sscanf(strings.TrimSuffix(x, "h"), "%d", &i)
			guardSkip[i] = true
			if strings.HasSuffix(x, "h") {
				guardHung[i] = true
			}
		}
	}
	if progress != "" {
		f, err := os.OpenFile(progress, os.O_CREATE|os.O_WRONLY|os.O_TRUNC, 0644)
		if err == nil {
			guardProgress = f
		}
	}
	r := rand.New(rand.NewSource(seed))
	cases := s.Gen(r, n, thorough)
	cases = append(cases, guardPanics...)
	f, err := os.Create(casesOut)
	if err != nil {
		fmt.Fprintln(os.Stderr, err)
		os.Exit(2)
	}
	w := bufio.NewWriterSize(f, 1<<20)
	enc := json.NewEncoder(w)
	for i := range cases {
		if err := enc.Encode(&cases[i]); err != nil {
			fmt.Fprintln(os.Stderr, err)
			os.Exit(2)
		}
	}
	w.Flush()
	f.Close()
}

// generateIsolated runs the worker, restarting it around crashing items.
func generateIsolated(s *Stream, seed int64, n int, thorough bool) ([]Case, int, error) {
	dir, err := os.MkdirTemp("", "corr-worker-")
	if err != nil {
		return nil, 0, err
	}
	defer os.RemoveAll(dir)
	progress := dir + "/progress"
	casesFile := dir + "/cases.json"
	var skip []string
	var crashed []Case // what is known of the items that killed a worker, should the cap be hit
	hangs := map[string]bool{}
	_ = hangs
	nhung := 0
	for attempt := 0; attempt < 60 && nhung < 4; attempt++ {
		// the first hang is given the full budget (no false alarm on a loaded machine); once one
		// item did hang, the tree is in violation anyway and the next ones are cut short
		busyLimit, blockedLimit := hangTimeout, blockedTimeout
		if nhung > 0 {
			busyLimit, blockedLimit = 45*time.Second, 45*time.Second
		}
		args := []string{"-worker", "-stream", s.Name, "-seed", fmt.Sprint(seed), "-n", fmt.Sprint(n),
			"-skip", strings.Join(skip, ","), "-progress", progress, "-cases", casesFile}
		if thorough {
			args = append(args, "-thorough")
		}
		cmd := exec.Command(os.Args[0], args...)
		var stderr bytes.Buffer
		cmd.Stderr = &stderr
		cmd.Stdout = os.Stdout
		hung := false
		err := func() error {
			if err := cmd.Start(); err != nil {
				return err
			}
			done := make(chan error, 1)
			go func() { done <- cmd.Wait() }()
			lastSize, lastChange := int64(-1), time.Now()
			cpuAtChange, _ := procCPU(cmd.Process.Pid)
			tick := time.NewTicker(500 * time.Millisecond)
			defer tick.Stop()
			for {
				select {
				case e := <-done:
					return e
				case <-tick.C:
					cpu, cpuOK := procCPU(cmd.Process.Pid)
					if st, e := os.Stat(progress); e == nil && st.Size() != lastSize {
						lastSize, lastChange = st.Size(), time.Now()
						cpuAtChange = cpu
					}
					// an item that burns CPU this long without finishing, or is blocked, is a hang
					// only an item that has announced itself and not finished can hang; between
					// items the worker generates inputs (no progress lines, possibly for long)
					inItem := false
					if b, e := readTail(progress, 2048); e == nil {
						t := strings.TrimRight(string(b), "\n")
						if i := strings.LastIndexByte(t, '\n'); i >= 0 {
							t = t[i+1:]
						}
						inItem = strings.HasPrefix(t, "BEGIN\t")
					}
					busy := inItem && cpuOK && cpu-cpuAtChange > busyLimit
					blocked := inItem && time.Since(lastChange) > blockedLimit && (!cpuOK || cpu-cpuAtChange < 10*time.Second)
					if busy || blocked || time.Since(lastChange) > absoluteTimeout {
						hung = true
						cmd.Process.Kill()
					}
				}
			}
		}()
		if err == nil {
			f, err := os.Open(casesFile)
			if err != nil {
				return nil, len(skip), err
			}
			defer f.Close()
			var cases []Case
			dec := json.NewDecoder(bufio.NewReaderSize(f, 1<<20))
			for dec.More() {
				var c Case
				if err := dec.Decode(&c); err != nil {
					return nil, len(skip), err
				}
				cases = append(cases, c)
			}
			return cases, len(skip), nil
		}
		// the worker died: which item was running?
		b, _ := os.ReadFile(progress)
		lines := strings.Split(strings.TrimRight(string(b), "\n"), "\n")
		last := ""
		if len(lines) > 0 {
			last = lines[len(lines)-1]
		}
		if !strings.HasPrefix(last, "BEGIN\t") {
			tail := stderr.String()
			if len(tail) > 3000 {
				tail = tail[:3000]
			}
			return nil, len(skip), fmt.Errorf("worker died outside a guarded item (%v): %s", err, tail)
		}
		parts := strings.SplitN(last, "\t", 3)
		if hung {
			nhung++
			skip = append(skip, parts[1]+"h")
		} else {
			skip = append(skip, parts[1])
		}
		human := ""
		if len(parts) == 3 {
			human = strings.ReplaceAll(parts[2], "\\n", "\n")
		}
		guardLastSkippedHung = hung
		crashed = append(crashed, crashCase(human))
	}
	// too many items kill the worker: the stream is cut short, but what was seen is reported
	// (every one of them is a concrete input on which the process died)
	return crashed, len(skip), nil
}

func runStream(s *Stream, modelBin string, seed int64, n int, thorough bool, corpus []string) (*Summary, error) {
	t0 := time.Now()
	cases, crashes, err := generateIsolated(s, seed, n, thorough)
	if err != nil {
		return nil, err
	}
	sum := &Summary{Stream: s.Name, Seed: seed, Rule: s.Rule, Dist: map[string]int{}, Crashes: crashes}
	reqs := make([]string, 0, len(cases))
	idx := make([]int, len(cases))
	for i, c := range cases {
		idx[i] = -1
		if c.Req != "" {
			idx[i] = len(reqs)
			reqs = append(reqs, c.Req)
		}
	}
	var modelOut []string
	if len(reqs) > 0 {
		var err error
		modelOut, err = runModel(modelBin, reqs)
		if err != nil {
			return nil, err
		}
	}
	answers := make([]string, len(cases))
	for i := range cases {
		if idx[i] >= 0 {
			answers[i] = modelOut[idx[i]]
		}
	}
	distinct := map[string]bool{}
	for i, c := range cases {
		sum.Evaluations++
		for _, t := range c.Tags {
			sum.Dist[t]++
		}
		if c.Nontriv {
			if c.Req != "" {
				distinct[c.Req] = true
			} else {
				distinct[c.Human] = true
			}
		}
		if c.Oracle != "" {
			sum.OracleFails = append(sum.OracleFails, OracleFailure{s.Name, c.OracleID, c.Human, c.Oracle, c.Req})
		}
		if c.Req == "" {
			continue
		}
		if strings.HasPrefix(answers[i], "bad-") {
			sum.ModelErrors++
		}
		if answers[i] != c.Want {
			sum.Disagreements = append(sum.Disagreements, Disagreement{s.Name, c.Human, c.Req, c.Want, answers[i], projectionsOf(c.Human, c.Want, answers[i])})
		}
	}
	sum.Distinct = len(distinct)
	// samples: a few spread over the run
	step := len(cases)/5 + 1
	for i := 0; i < len(cases); i += step {
		sum.Samples = append(sum.Samples, cases[i].Human+"  =>  "+cases[i].Want)
	}
	sum.TotalDisagreements = len(sum.Disagreements)
	sort.SliceStable(sum.Disagreements, func(i, j int) bool { return len(sum.Disagreements[i].Req) < len(sum.Disagreements[j].Req) })
	// keep the shortest few of every kind of request and of every projection signature
	perKind := map[string]int{}
	var kept []Disagreement
	for _, d := range sum.Disagreements {
		k := strings.SplitN(d.Human, " ", 2)[0] + "/" + strings.Join(d.Projections, ",")
		if perKind[k] < 12 {
			perKind[k]++
			kept = append(kept, d)
		}
	}
	sum.Disagreements = kept
	// at most 150 per class (every class that fails is reported, whatever else fails too)
	perClass := map[string]int{}
	var keptO []OracleFailure
	for _, o := range sum.OracleFails {
		if perClass[o.Class] < 150 {
			perClass[o.Class]++
			keptO = append(keptO, o)
		}
	}
	sum.OracleFails = keptO
	sum.WallS = time.Since(t0).Seconds()
	return sum, nil
}

func writeJSON(path string, v interface{}) error {
	b, err := json.MarshalIndent(v, "", " ")
	if err != nil {
		return err
	}
	return os.WriteFile(path, b, 0644)
}

// splitTop splits "(a b (c d) e)" into its top-level elements.
func splitTop(s string) []string {
	s = strings.TrimSpace(s)
	if !strings.HasPrefix(s, "(") || !strings.HasSuffix(s, ")") {
		return []string{s}
	}
	s = s[1 : len(s)-1]
	var out []string
	depth, start := 0, -1
	for i := 0; i < len(s); i++ {
		switch s[i] {
		case '(':
			if depth == 0 && start < 0 {
				start = i
			}
			depth++
		case ')':
			depth--
			if depth == 0 {
				out = append(out, s[start:i+1])
				start = -1
			}
		case ' ':
			if depth == 0 && start >= 0 {
				out = append(out, s[start:i])
				start = -1
			}
		default:
			if depth == 0 && start < 0 {
				start = i
			}
		}
	}
	if start >= 0 {
		out = append(out, s[start:])
	}
	return out
}

func filterEvents(evs string, kind string) string {
	var xs []string
	for _, e := range splitTop(evs) {
		if strings.HasPrefix(e, "("+kind+" ") || e == "("+kind+")" {
			xs = append(xs, e)
		}
	}
	return strings.Join(xs, " ")
}

// projectionsOf names which parts of an answer differ between implementation and model, by kind
// of request (first word of the human form): run/vmrun/debug answers are (ok <val> <events>) /
// (fail <class> <events>); check answers (ok <type> <annotated tree>) / (err <class>).
func projectionsOf(human, impl, model string) []string {
	kind := strings.SplitN(human, " ", 2)[0]
	a, b := splitTop(impl), splitTop(model)
	if len(a) < 1 || len(b) < 1 {
		return []string{"all"}
	}
	switch kind {
	case "check":
		if a[0] != b[0] {
			return []string{"accept"}
		}
		if a[0] == "err" {
			return []string{"errclass"}
		}
		if len(a) != 3 || len(b) != 3 {
			return []string{"all"}
		}
		var ps []string
		if a[1] != b[1] {
			ps = append(ps, "type")
		}
		if a[2] != b[2] {
			ps = append(ps, "annot")
		}
		return ps
	case "run", "vmrun", "pipeline":
		if kind == "pipeline" && (a[0] == "err" || b[0] == "err") {
			// the whole facade from source text: a compile-time verdict differs
			if a[0] != b[0] {
				return []string{"accept"}
			}
			return []string{"errclass"}
		}
		if a[0] != b[0] {
			return []string{"class"}
		}
		if (a[0] != "ok" && a[0] != "fail") || len(a) != 3 || len(b) != 3 {
			return []string{"all"}
		}
		var ps []string
		if a[0] == "fail" && a[1] != b[1] {
			// different failures: the traces differ as a consequence
			return []string{"class"}
		}
		if a[0] == "ok" && a[1] != b[1] {
			if skeleton(a[1]) != skeleton(b[1]) {
				ps = append(ps, "skeleton")
			}
			ps = append(ps, "value")
		}
		if filterEvents(a[2], "call") != filterEvents(b[2], "call") {
			ps = append(ps, "calls")
			if callNames(a[2]) != callNames(b[2]) {
				ps = append(ps, "callnames")
			}
		}
		if filterEvents(a[2], "print") != filterEvents(b[2], "print") {
			ps = append(ps, "prints")
		}
		if len(ps) == 0 {
			ps = []string{"all"}
		}
		return ps
	case "vmcode":
		return []string{"code"}
	case "verify":
		return []string{"verify"}
	}
	return []string{"all"}
}

// callNames: the sequence of invoked host functions without their arguments.
func callNames(evs string) string {
	var xs []string
	for _, e := range splitTop(evs) {
		if strings.HasPrefix(e, "(call ") {
			parts := splitTop(e)
			if len(parts) >= 2 {
				xs = append(xs, parts[1])
			}
		}
	}
	return strings.Join(xs, " ")
}
