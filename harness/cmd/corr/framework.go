package main

import (
	"bufio"
	"bytes"
	"encoding/json"
	"fmt"
	"math/rand"
	"os"
	"os/exec"
	"sort"
	"strings"
	"time"
)

// A Case is one request of the correspondence protocol together with the implementation's
// canonical answer and bookkeeping for the evidence file.
type Case struct {
	Req      string   // request line sent to the model
	Want     string   // what the implementation answered, canonicalised
	Human    string   // readable form of the input, for samples and replays
	Tags     []string // distribution buckets
	Nontriv  bool     // counts towards distinct_nontrivial
	Oracle   string   // non-empty: implementation-side oracle failure for the *property*
	OracleID string   // class of the oracle failure (matched against known findings)
}

type Disagreement struct {
	Stream string `json:"stream"`
	Human  string `json:"input"`
	Req    string `json:"request"`
	Impl   string `json:"implementation"`
	Model  string `json:"model"`
}

type OracleFailure struct {
	Stream string `json:"stream"`
	Class  string `json:"class"`
	Human  string `json:"input"`
	What   string `json:"what"`
	Req    string `json:"request,omitempty"`
}

type Summary struct {
	Stream        string          `json:"stream"`
	Seed          int64           `json:"seed"`
	Evaluations   int             `json:"evaluations"`
	Distinct      int             `json:"distinct_nontrivial"`
	Rule          string          `json:"rule"`
	Dist          map[string]int  `json:"distribution"`
	Samples       []string        `json:"samples"`
	Disagreements []Disagreement  `json:"disagreements"`
	OracleFails   []OracleFailure `json:"oracle_failures"`
	ModelErrors   int             `json:"model_errors"`
	WallS         float64         `json:"wall_s"`
	Exhaustive    bool            `json:"exhaustive"`
}

type Stream struct {
	Name string
	Rule string
	// Gen produces the cases. n is the requested number of random cases (streams add their
	// fixed corpus and exhaustive parts on top), thorough selects the deeper enumeration.
	Gen func(r *rand.Rand, n int, thorough bool) []Case
}

var streams = map[string]*Stream{}

func register(s *Stream) { streams[s.Name] = s }

func runModel(modelBin string, reqs []string) ([]string, error) {
	var in bytes.Buffer
	for _, r := range reqs {
		in.WriteString(r)
		in.WriteByte('\n')
	}
	cmd := exec.Command(modelBin)
	cmd.Stdin = &in
	var out bytes.Buffer
	cmd.Stdout = &out
	cmd.Stderr = os.Stderr
	if err := cmd.Run(); err != nil {
		return nil, fmt.Errorf("model driver failed: %v", err)
	}
	var lines []string
	sc := bufio.NewScanner(&out)
	sc.Buffer(make([]byte, 1<<20), 1<<28)
	for sc.Scan() {
		lines = append(lines, sc.Text())
	}
	if len(lines) != len(reqs) {
		return nil, fmt.Errorf("model driver answered %d lines for %d requests", len(lines), len(reqs))
	}
	return lines, nil
}

func runStream(s *Stream, modelBin string, seed int64, n int, thorough bool, corpus []string) (*Summary, error) {
	t0 := time.Now()
	r := rand.New(rand.NewSource(seed))
	cases := s.Gen(r, n, thorough)
	sum := &Summary{Stream: s.Name, Seed: seed, Rule: s.Rule, Dist: map[string]int{}}
	reqs := make([]string, 0, len(cases))
	idx := make([]int, len(cases))
	for i, c := range cases {
		idx[i] = -1
		if c.Req != "" {
			idx[i] = len(reqs)
			reqs = append(reqs, c.Req)
		}
	}
	var modelOut []string
	if len(reqs) > 0 {
		var err error
		modelOut, err = runModel(modelBin, reqs)
		if err != nil {
			return nil, err
		}
	}
	answers := make([]string, len(cases))
	for i := range cases {
		if idx[i] >= 0 {
			answers[i] = modelOut[idx[i]]
		}
	}
	distinct := map[string]bool{}
	for i, c := range cases {
		sum.Evaluations++
		for _, t := range c.Tags {
			sum.Dist[t]++
		}
		if c.Nontriv {
			distinct[c.Req] = true
		}
		if c.Oracle != "" {
			sum.OracleFails = append(sum.OracleFails, OracleFailure{s.Name, c.OracleID, c.Human, c.Oracle, c.Req})
		}
		if c.Req == "" {
			continue
		}
		if strings.HasPrefix(answers[i], "bad-") {
			sum.ModelErrors++
		}
		if answers[i] != c.Want {
			sum.Disagreements = append(sum.Disagreements, Disagreement{s.Name, c.Human, c.Req, c.Want, answers[i]})
		}
	}
	sum.Distinct = len(distinct)
	// samples: a few spread over the run
	step := len(cases)/5 + 1
	for i := 0; i < len(cases); i += step {
		sum.Samples = append(sum.Samples, cases[i].Human+"  =>  "+cases[i].Want)
	}
	sort.Slice(sum.Disagreements, func(i, j int) bool { return len(sum.Disagreements[i].Req) < len(sum.Disagreements[j].Req) })
	if len(sum.Disagreements) > 50 {
		sum.Disagreements = sum.Disagreements[:50]
	}
	if len(sum.OracleFails) > 200 {
		sum.OracleFails = sum.OracleFails[:200]
	}
	sum.WallS = time.Since(t0).Seconds()
	return sum, nil
}

func writeJSON(path string, v interface{}) error {
	b, err := json.MarshalIndent(v, "", " ")
	if err != nil {
		return err
	}
	return os.WriteFile(path, b, 0644)
}
