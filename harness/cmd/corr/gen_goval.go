package main

import (
	"fmt"
	"math"
	"math/rand"
	"reflect"
	"sort"
	"strconv"
	"strings"
	"time"
	"unsafe"

	"github.com/goghcrow/yae/types"
)

// Host data for the conv / envcheck streams: random reflect.Types (reflect.StructOf, SliceOf,
// ArrayOf, MapOf, PointerTo), random values of a given type, and the serialisation of a
// reflect.Value to the wire format documented in lean/Yae/Driver/Conv.lean. The serialiser
// walks the value with reflect only; it shares no code with package conv.

var (
	ifaceT = reflect.TypeOf((*interface{})(nil)).Elem()
	timeT  = reflect.TypeOf(time.Time{})
)

var goPrims = []reflect.Type{
	reflect.TypeOf(false),
	reflect.TypeOf(int(0)), reflect.TypeOf(int8(0)), reflect.TypeOf(int16(0)), reflect.TypeOf(int32(0)), reflect.TypeOf(int64(0)),
	reflect.TypeOf(uint(0)), reflect.TypeOf(uint8(0)), reflect.TypeOf(uint16(0)), reflect.TypeOf(uint32(0)), reflect.TypeOf(uint64(0)),
	reflect.TypeOf(float32(0)), reflect.TypeOf(float64(0)),
	reflect.TypeOf(""), timeT,
}

var goUnsup = []reflect.Type{
	reflect.TypeOf((chan int)(nil)), reflect.TypeOf((func())(nil)), reflect.TypeOf(complex128(0)),
	reflect.TypeOf(complex64(0)), reflect.TypeOf(uintptr(0)), reflect.TypeOf(unsafe.Pointer(nil)),
}

// ---------------------------------------------------------------------------------------
// wire format

func goKindAtom(k reflect.Kind) string {
	switch k {
	case reflect.Int:
		return "i0"
	case reflect.Int8:
		return "i8"
	case reflect.Int16:
		return "i16"
	case reflect.Int32:
		return "i32"
	case reflect.Int64:
		return "i64"
	case reflect.Uint:
		return "u0"
	case reflect.Uint8:
		return "u8"
	case reflect.Uint16:
		return "u16"
	case reflect.Uint32:
		return "u32"
	case reflect.Uint64:
		return "u64"
	}
	return "?"
}

func encGoFields(rt reflect.Type) []string {
	xs := []string{}
	for i := 0; i < rt.NumField(); i++ {
		f := rt.Field(i)
		xs = append(xs, sxList(sxStr(f.Name), sxStr(string(f.Tag)), encGoType(f.Type), sxBool(f.PkgPath == "")))
	}
	return xs
}

func encGoType(rt reflect.Type) string {
	if rt == timeT {
		return "time"
	}
	switch rt.Kind() {
	case reflect.Bool:
		return "bool"
	case reflect.Int, reflect.Int8, reflect.Int16, reflect.Int32, reflect.Int64,
		reflect.Uint, reflect.Uint8, reflect.Uint16, reflect.Uint32, reflect.Uint64:
		return goKindAtom(rt.Kind())
	case reflect.Float32:
		return "f32"
	case reflect.Float64:
		return "f64"
	case reflect.String:
		return "string"
	case reflect.Ptr:
		return sxList("ptr", encGoType(rt.Elem()))
	case reflect.Slice:
		return sxList("slice", encGoType(rt.Elem()))
	case reflect.Array:
		return sxList("array", sxInt(rt.Len()), encGoType(rt.Elem()))
	case reflect.Map:
		return sxList("map", encGoType(rt.Key()), encGoType(rt.Elem()))
	case reflect.Struct:
		return sxList(append([]string{"struct"}, encGoFields(rt)...)...)
	case reflect.Interface:
		return "iface"
	}
	return sxList("unsup", sxStr(rt.String()))
}

type timeRepr struct {
	wall uint64
	ext  int64
	loc  *time.Location
}

// readTime reads a time.Time even when the value was reached through an unexported field
// (where Interface() is forbidden): the three words are read with the plain accessors.
func readTime(rv reflect.Value) time.Time {
	if rv.CanInterface() {
		return rv.Interface().(time.Time)
	}
	tr := timeRepr{rv.Field(0).Uint(), rv.Field(1).Int(), (*time.Location)(unsafe.Pointer(rv.Field(2).Pointer()))}
	return *(*time.Time)(unsafe.Pointer(&tr))
}

func encGoVal(rv reflect.Value) string {
	if !rv.IsValid() {
		return "invalid"
	}
	rt := rv.Type()
	if rt == timeT {
		return encTime(readTime(rv))
	}
	switch rv.Kind() {
	case reflect.Bool:
		return sxList("bool", sxBool(rv.Bool()))
	case reflect.Int, reflect.Int8, reflect.Int16, reflect.Int32, reflect.Int64:
		return sxList("int", goKindAtom(rv.Kind()), strconv.FormatInt(rv.Int(), 10))
	case reflect.Uint, reflect.Uint8, reflect.Uint16, reflect.Uint32, reflect.Uint64:
		return sxList("uint", goKindAtom(rv.Kind()), strconv.FormatUint(rv.Uint(), 10))
	case reflect.Float32:
		return sxList("f32", sxNum(rv.Float()))
	case reflect.Float64:
		return sxList("f64", sxNum(rv.Float()))
	case reflect.String:
		return sxList("string", sxStr(rv.String()))
	case reflect.Ptr:
		if rv.IsNil() {
			return sxList("ptrnil", encGoType(rt.Elem()))
		}
		return sxList("ptr", encGoVal(rv.Elem()))
	case reflect.Interface:
		if rv.IsNil() {
			return "ifacenil"
		}
		return sxList("iface", encGoVal(rv.Elem()))
	case reflect.Slice:
		if rv.IsNil() {
			return sxList("slicenil", encGoType(rt.Elem()))
		}
		xs := []string{"slice", encGoType(rt.Elem())}
		for i := 0; i < rv.Len(); i++ {
			xs = append(xs, encGoVal(rv.Index(i)))
		}
		return sxList(xs...)
	case reflect.Array:
		xs := []string{"array", encGoType(rt.Elem())}
		for i := 0; i < rv.Len(); i++ {
			xs = append(xs, encGoVal(rv.Index(i)))
		}
		return sxList(xs...)
	case reflect.Map:
		if rv.IsNil() {
			return sxList("mapnil", encGoType(rt.Key()), encGoType(rt.Elem()))
		}
		xs := []string{"map", encGoType(rt.Key()), encGoType(rt.Elem())}
		it := rv.MapRange()
		for it.Next() {
			xs = append(xs, sxList(encGoVal(it.Key()), encGoVal(it.Value())))
		}
		return sxList(xs...)
	case reflect.Struct:
		xs := []string{"struct", sxList(encGoFields(rt)...)}
		for i := 0; i < rv.NumField(); i++ {
			xs = append(xs, encGoVal(rv.Field(i)))
		}
		return sxList(xs...)
	case reflect.Chan, reflect.Func:
		return sxList("unsup", sxStr(rt.String()), sxBool(rv.IsNil()))
	}
	return sxList("unsup", sxStr(rt.String()), "false")
}

// descGo is a compact readable rendering (no addresses) for samples and reports.
func descGo(rv reflect.Value) string {
	if !rv.IsValid() {
		return "nil"
	}
	if rv.Type() == timeT {
		return readTime(rv).Format(time.RFC3339Nano)
	}
	switch rv.Kind() {
	case reflect.Bool:
		return strconv.FormatBool(rv.Bool())
	case reflect.Int, reflect.Int8, reflect.Int16, reflect.Int32, reflect.Int64:
		return strconv.FormatInt(rv.Int(), 10)
	case reflect.Uint, reflect.Uint8, reflect.Uint16, reflect.Uint32, reflect.Uint64, reflect.Uintptr:
		return strconv.FormatUint(rv.Uint(), 10)
	case reflect.Float32, reflect.Float64:
		return strconv.FormatFloat(rv.Float(), 'g', -1, 64)
	case reflect.String:
		return strconv.Quote(rv.String())
	case reflect.Ptr:
		if rv.IsNil() {
			return "nil"
		}
		return "&" + descGo(rv.Elem())
	case reflect.Interface:
		if rv.IsNil() {
			return "nil"
		}
		return rv.Elem().Type().String() + "(" + descGo(rv.Elem()) + ")"
	case reflect.Slice, reflect.Array:
		if rv.Kind() == reflect.Slice && rv.IsNil() {
			return "nil"
		}
		xs := []string{}
		for i := 0; i < rv.Len(); i++ {
			xs = append(xs, descGo(rv.Index(i)))
		}
		return "[" + strings.Join(xs, " ") + "]"
	case reflect.Map:
		if rv.IsNil() {
			return "nil"
		}
		xs := []string{}
		it := rv.MapRange()
		for it.Next() {
			xs = append(xs, descGo(it.Key())+":"+descGo(it.Value()))
		}
		sort.Strings(xs)
		return "map[" + strings.Join(xs, " ") + "]"
	case reflect.Struct:
		xs := []string{}
		for i := 0; i < rv.NumField(); i++ {
			xs = append(xs, rv.Type().Field(i).Name+":"+descGo(rv.Field(i)))
		}
		return "{" + strings.Join(xs, " ") + "}"
	case reflect.Chan, reflect.Func:
		if rv.IsNil() {
			return "nil"
		}
		return "<" + rv.Kind().String() + ">"
	}
	return "<" + rv.Kind().String() + ">"
}

func humanGo(rv reflect.Value) string {
	if !rv.IsValid() {
		return "nil"
	}
	s := rv.Type().String() + " " + descGo(rv)
	if len(s) > 600 {
		s = s[:600] + "…"
	}
	return s
}

// ---------------------------------------------------------------------------------------
// generators

type cvGen struct {
	r        *rand.Rand
	iface    bool // interface{}-typed parts allowed
	unsup    bool // chan / func / complex … allowed
	unexp    bool // unexported struct fields allowed
	oddTags  bool // malformed / exotic tags allowed
	clean    bool // values: nil only in fields tagged maybe, no NaN keys
	fieldNil bool // values (with clean): additionally nil in untagged nil-able struct fields
	names    []string
}

var tagNamePool = []string{"a", "b", "c", "x", "F0", "名"}

func (g *cvGen) chance(n int) bool { return g.r.Intn(n) == 0 }

func (g *cvGen) prim() reflect.Type { return goPrims[g.r.Intn(len(goPrims))] }

func (g *cvGen) keyType(d int) reflect.Type {
	switch x := g.r.Intn(20); {
	case x < 14:
		return g.prim()
	case x == 14:
		return reflect.PtrTo(g.prim())
	case x == 15 && g.iface:
		return ifaceT
	case x == 16:
		return reflect.ArrayOf(g.r.Intn(3), g.prim())
	case x == 17:
		return reflect.StructOf([]reflect.StructField{{Name: "K", Type: g.prim()}})
	}
	return reflect.TypeOf("")
}

func (g *cvGen) tag(i int) (reflect.StructTag, bool) {
	n := tagNamePool[g.r.Intn(len(tagNamePool))]
	if g.names != nil {
		n = g.names[i%len(g.names)]
	}
	switch x := g.r.Intn(16); {
	case x < 4:
		return "", false
	case x < 7:
		return reflect.StructTag(`yae:"` + n + `"`), false
	case x < 10:
		return reflect.StructTag(`yae:"` + n + `,maybe"`), true
	case x < 12:
		return `yae:",maybe"`, true
	}
	if !g.oddTags {
		return reflect.StructTag(`json:"j" yae:"` + n + `"`), false
	}
	odd := []struct {
		t string
		m bool
	}{
		{`yae:"` + n + `,Maybe"`, true},
		{`yae:" ` + n + ` , MAYBE "`, true},
		{`json:"j,omitempty" yae:"` + n + `,maybe"`, true},
		{`yae:"` + n + `,omitempty"`, false},
		{`yae:"` + n + `,omitempty,maybe"`, false},
		{`yae:` + n, false},
		{`yae:"` + n, false},
		{`  yae:"` + n + `"  json:"k"`, false},
		{`yae:"a\t,\x6daybe"`, true},
		{`yae:"a\"b,maybe"`, true},
		{`bad tag yae:"` + n + `"`, false},
		{`yae:"\400"`, false},
		{`yae:"` + n + ",mayKbe\"", false},
		{"yae:\"　" + n + " , maybe\u0085\"", true},
		{`yae:""`, false},
		{`yae:","`, false},
		{`yae:",maybe,"`, true},
		{`xyae:"q" yae:"` + n + `"`, false},
	}
	o := odd[g.r.Intn(len(odd))]
	return reflect.StructTag(o.t), o.m
}

func (g *cvGen) structType(d int) reflect.Type {
	n := g.r.Intn(5)
	fs := []reflect.StructField{}
	for i := 0; i < n; i++ {
		tag, _ := g.tag(i)
		f := reflect.StructField{Name: fmt.Sprintf("F%d", i), Type: g.typ(d - 1), Tag: tag}
		if g.unexp && g.chance(8) {
			f.Name = fmt.Sprintf("f%d", i)
			f.PkgPath = "main"
		}
		fs = append(fs, f)
	}
	return reflect.StructOf(fs)
}

func (g *cvGen) typ(d int) reflect.Type {
	if d <= 0 {
		return g.prim()
	}
	switch x := g.r.Intn(100); {
	case x < 32:
		return g.prim()
	case x < 42:
		return reflect.PtrTo(g.typ(d - 1))
	case x < 55:
		return reflect.SliceOf(g.typ(d - 1))
	case x < 60:
		return reflect.ArrayOf(g.r.Intn(4), g.typ(d-1))
	case x < 72:
		k := g.keyType(d - 1)
		if !k.Comparable() {
			k = reflect.TypeOf("")
		}
		return reflect.MapOf(k, g.typ(d-1))
	case x < 88:
		return g.structType(d)
	case x < 96:
		if g.iface {
			return ifaceT
		}
		return g.prim()
	default:
		if g.unsup {
			return goUnsup[g.r.Intn(len(goUnsup))]
		}
		return g.prim()
	}
}

var intEdges = []int64{0, 1, -1, 2, 7, 42, -42, 127, -128, 255, 32767, -32768, 65535, 2147483647, -2147483648,
	9007199254740992, 9007199254740993, -9007199254740993, 9007199254740995, 9223372036854775807, -9223372036854775808, 9223372036854775295, 1152921504606846977}
var uintEdges = []uint64{0, 1, 2, 42, 255, 65535, 4294967295, 9007199254740992, 9007199254740993, 9223372036854775808,
	18446744073709551615, 18446744073709551614, 18446744073709550591, 18446744073709549568, 9223372036854775809}
var floatEdges = []float64{0, 1, -1, 0.5, 0.1, 1.5, 2.5, 1e21, 1e-7, 5e-324, 1e300, 123456789.125, 9007199254740993, 9223372036854775808, -9223372036854775808,
	math.MaxFloat64, float64(float32(0.1)), float64(math.MaxFloat32), 3}
var goStrPool = []string{"", "a", "b", "ab", "k1", "hello", "x y", "é", "中文", "a\"b", "a\\b", "\n", "\t", "\x01", " ", "😀", " ", "\x7f", "a,b"}
var goZones = []*time.Location{time.UTC, time.FixedZone("CST", 8*3600), time.FixedZone("EST", -5*3600), time.FixedZone("IST", 5*3600+1800), time.FixedZone("NPT", 5*3600+2700), time.Local}

func (g *cvGen) timeVal() time.Time {
	if g.chance(12) {
		return time.Time{}
	}
	secs := []int64{0, 1, -1, 86399, 1577934245, 946684799, 2147483648, 1600000000, -2208988800, 253402300799, -62135596800, 951782400}
	nsecs := []int64{0, 0, 500000000, 123456789, 1000, 999999999, 100}
	return time.Unix(secs[g.r.Intn(len(secs))], nsecs[g.r.Intn(len(nsecs))]).In(goZones[g.r.Intn(len(goZones))])
}

func truncInt(k reflect.Kind, v int64) int64 {
	switch k {
	case reflect.Int8:
		return int64(int8(v))
	case reflect.Int16:
		return int64(int16(v))
	case reflect.Int32:
		return int64(int32(v))
	}
	return v
}

func truncUint(k reflect.Kind, v uint64) uint64 {
	switch k {
	case reflect.Uint8:
		return uint64(uint8(v))
	case reflect.Uint16:
		return uint64(uint16(v))
	case reflect.Uint32:
		return uint64(uint32(v))
	}
	return v
}

// settable returns a settable alias of a value reached through an unexported field.
func settable(dst reflect.Value) reflect.Value {
	if dst.CanSet() {
		return dst
	}
	return reflect.NewAt(dst.Type(), unsafe.Pointer(dst.UnsafeAddr())).Elem()
}

func (g *cvGen) mayNil(nilOK bool) bool {
	if g.clean {
		return nilOK && g.chance(3)
	}
	return g.chance(6)
}

// fill sets the addressable value dst to a random value of its type.
func (g *cvGen) fill(dst reflect.Value, d int, nilOK bool) {
	dst = settable(dst)
	rt := dst.Type()
	if rt == timeT {
		dst.Set(reflect.ValueOf(g.timeVal()))
		return
	}
	switch rt.Kind() {
	case reflect.Bool:
		dst.SetBool(g.chance(2))
	case reflect.Int, reflect.Int8, reflect.Int16, reflect.Int32, reflect.Int64:
		v := intEdges[g.r.Intn(len(intEdges))]
		if g.chance(3) {
			v = int64(g.r.Intn(10))
		}
		dst.SetInt(truncInt(rt.Kind(), v))
	case reflect.Uint, reflect.Uint8, reflect.Uint16, reflect.Uint32, reflect.Uint64, reflect.Uintptr:
		v := uintEdges[g.r.Intn(len(uintEdges))]
		if g.chance(3) {
			v = uint64(g.r.Intn(10))
		}
		dst.SetUint(truncUint(rt.Kind(), v))
	case reflect.Float32, reflect.Float64:
		v := floatEdges[g.r.Intn(len(floatEdges))]
		if !g.clean && g.chance(8) {
			v = []float64{math.NaN(), math.Inf(1), math.Inf(-1), math.Copysign(0, -1)}[g.r.Intn(4)]
		}
		if rt.Kind() == reflect.Float32 {
			v = float64(float32(v))
		}
		dst.SetFloat(v)
	case reflect.Complex64, reflect.Complex128:
		dst.SetComplex(complex(1, 2))
	case reflect.String:
		dst.SetString(goStrPool[g.r.Intn(len(goStrPool))])
	case reflect.Ptr:
		if g.mayNil(nilOK) {
			return
		}
		p := reflect.New(rt.Elem())
		g.fill(p.Elem(), d, false)
		dst.Set(p)
	case reflect.Interface:
		if g.mayNil(nilOK) {
			return
		}
		g.fillIface(dst, g.dynType(d), d)
	case reflect.Slice:
		if g.mayNil(nilOK) {
			return
		}
		n := g.r.Intn(4)
		if g.chance(4) {
			n = 0
		}
		s := reflect.MakeSlice(rt, n, n)
		g.fillSeq(s, d)
		dst.Set(s)
	case reflect.Array:
		g.fillSeq(dst, d)
	case reflect.Map:
		if g.mayNil(nilOK) {
			return
		}
		n := g.r.Intn(4)
		if g.chance(4) {
			n = 0
		}
		m := reflect.MakeMap(rt)
		var kdyn, vdyn reflect.Type
		if rt.Key() == ifaceT && !g.chance(4) {
			kdyn = g.prim()
		}
		if rt.Elem() == ifaceT && !g.chance(4) {
			vdyn = g.dynType(d - 1)
		}
		for i := 0; i < n; i++ {
			k := reflect.New(rt.Key()).Elem()
			if kdyn != nil {
				g.fillIface(k, kdyn, 0)
			} else {
				g.fill(k, 0, false)
			}
			v := reflect.New(rt.Elem()).Elem()
			if vdyn != nil {
				g.fillIface(v, vdyn, d-1)
			} else {
				g.fill(v, d-1, false)
			}
			m.SetMapIndex(k, v)
		}
		dst.Set(m)
	case reflect.Struct:
		for i := 0; i < rt.NumField(); i++ {
			_, mb := parseTagRef(rt.Field(i))
			if g.fieldNil && !mb && g.chance(2) {
				continue // nil-able fields stay nil, the others zero: not declared optional
			}
			g.fill(dst.Field(i), d-1, mb)
		}
	case reflect.Chan:
		if g.chance(2) {
			dst.Set(reflect.MakeChan(rt, 0))
		}
	case reflect.Func:
		if g.chance(2) {
			dst.Set(reflect.MakeFunc(rt, func([]reflect.Value) []reflect.Value { return nil }))
		}
	case reflect.UnsafePointer:
		if g.chance(2) {
			x := 0
			dst.SetPointer(unsafe.Pointer(&x))
		}
	}
}

func (g *cvGen) dynType(d int) reflect.Type {
	sv := g.iface
	if d <= 1 {
		g.iface = false
	}
	t := g.typ(d - 1)
	g.iface = sv
	if t == ifaceT {
		return g.prim()
	}
	return t
}

func (g *cvGen) fillIface(dst reflect.Value, dyn reflect.Type, d int) {
	v := reflect.New(dyn).Elem()
	g.fill(v, d-1, false)
	settable(dst).Set(v)
}

func (g *cvGen) fillSeq(s reflect.Value, d int) {
	var dyn reflect.Type
	if s.Type().Elem() == ifaceT && !g.chance(4) {
		dyn = g.dynType(d - 1)
	}
	for i := 0; i < s.Len(); i++ {
		if dyn != nil && !g.mayNil(false) {
			g.fillIface(s.Index(i), dyn, d-1)
		} else {
			g.fill(s.Index(i), d-1, false)
		}
	}
}

func (g *cvGen) value(rt reflect.Type, d int) reflect.Value {
	v := reflect.New(rt).Elem()
	g.fill(v, d, false)
	return v
}

// parseTagRef is the documented reading of the yae tag (README: `yae:"name"`, `yae:"name,maybe"`),
// written against reflect's own tag parser: name = first comma-separated part when not blank,
// maybe = second part equals "maybe" ignoring case and surrounding blanks.
func parseTagRef(f reflect.StructField) (string, bool) {
	name := f.Name
	v, _ := f.Tag.Lookup("yae")
	parts := strings.Split(v, ",")
	if s := strings.TrimSpace(parts[0]); s != "" {
		name = s
	}
	mb := len(parts) > 1 && strings.EqualFold(strings.TrimSpace(parts[1]), "maybe")
	return name, mb
}

// ---------------------------------------------------------------------------------------
// independent type comparison: canonical text with object fields sorted by name

func canonTy(t *types.Type) string {
	if t == nil {
		return "<nil>"
	}
	switch t.Kind {
	case types.KList:
		return "list[" + canonTy(t.List().El) + "]"
	case types.KMap:
		return "map[" + canonTy(t.Map().Key) + "," + canonTy(t.Map().Val) + "]"
	case types.KMaybe:
		return "maybe[" + canonTy(t.Maybe().Elem) + "]"
	case types.KObj:
		xs := []string{}
		for _, f := range t.Obj().Fields {
			xs = append(xs, strconv.Quote(f.Name)+":"+canonTy(f.Val))
		}
		sort.Strings(xs)
		return "{" + strings.Join(xs, ",") + "}"
	case types.KFun:
		xs := []string{}
		for _, p := range t.Fun().Param {
			xs = append(xs, canonTy(p))
		}
		return "fun(" + strings.Join(xs, ",") + ")" + canonTy(t.Fun().Return)
	case types.KTyVar:
		return "'" + t.TyVar().Name
	}
	return t.Kind.String()
}

func sameTy(a, b *types.Type) bool { return canonTy(a) == canonTy(b) }
