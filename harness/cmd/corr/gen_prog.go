package main

import (
	"fmt"
	"math"
	"math/rand"
	"strings"
)

// Type-directed generator of yae source programs over a fixed family of environments.

type envVar struct {
	Name string
	Ty   *T
}

type progGen struct {
	r      *rand.Rand
	vars   []envVar
	hosts  []hostDecl
	stats  map[string]int
	sugar  bool // use operator syntax (else explicit calls are mixed in)
	boundy bool // prefer boundary literals
}

var numPool = []string{"0", "1", "2", "3", "7", "10", "42", "255", "256", "1000", "0.5", "1.5", "2.5", "0.1", "3.14",
	"1e3", "1.5e2", "2e-3", "0x10", "0xff", "0b101", "0o17", "9007199254740993", "1e15", "123456789.125",
	"0.000000001", "0.0000000005", "1e30", "9223372036854775807", "9223372036854775808", "1e308",
	"(0/0)", "(1/0)", "(0-1/0)", "(0*(0-1))", "(0-9223372036854775808)", "4611686018427387904", "1e21", "1e22"}
var smallIntPool = []string{"0", "1", "2", "3", "4", "5"}
var idxPool = []string{"0", "1", "2", "3", "5", "0.5", "1.9", "100", "1e30", "(0-1)", "(0-0.5)", "(0/0)", "(1/0)", "(0-1/0)", "9223372036854775808"}
var strPool = []string{`"a, b"`, `"x: y"`, `"[a]"`, `"{a: 1}"`, `""`, `"a"`, `"b"`, `"ab"`, `"hello"`, `"x y"`, `"é"`, `"中文"`, `"a\"b"`, `"a\\b"`, `"\n"`, `"\t"`, "`raw`", "`a\"b`", `"é"`, `"k1"`, `"k2"`}
var keyStrPool = []string{`"k1"`, `"k2"`, `"k3"`, `"a"`, `""`}
var timePool = []string{"2020-01-02", "2020-01-02 03:04:05", "1999-12-31 23:59", "@86400", "@0", "2038-01-19 03:14:08", "1970-01-01"}
var regexPats = []string{"a+", "^x", "[", "(", "b?$", "", "é", `\d+`}
var regexSubs = []string{"aaa", "xa", "", "b", "é1", "42"}

func (g *progGen) pick(xs []string) string { return xs[g.r.Intn(len(xs))] }
func (g *progGen) hit(s string)            { g.stats[s]++ }

func (g *progGen) varsOf(t *T) []string {
	var xs []string
	for _, v := range g.vars {
		if refEq(v.Ty, t) {
			xs = append(xs, v.Name)
		}
	}
	return xs
}

// sources of a value of type t among the variables: paths like o.a, os[0].b, xs[1], m["k1"]
func (g *progGen) paths(t *T, depth int) []string {
	var xs []string
	for _, v := range g.vars {
		g.pathsFrom(v.Name, v.Ty, t, 2, &xs, depth)
	}
	return xs
}

func (g *progGen) pathsFrom(expr string, have, want *T, fuel int, out *[]string, depth int) {
	if refEq(have, want) {
		*out = append(*out, expr)
	}
	if fuel == 0 {
		return
	}
	switch have.K {
	case "obj":
		for _, f := range have.Fields {
			g.pathsFrom(expr+"."+f.Name, f.T, want, fuel-1, out, depth)
		}
	case "list":
		g.pathsFrom(expr+"["+g.pick(smallIntPool)+"]", have.Kids[0], want, fuel-1, out, depth)
	case "map":
		if have.Kids[0].K == "str" {
			g.pathsFrom(expr+"["+g.pick(keyStrPool)+"]", have.Kids[1], want, fuel-1, out, depth)
		} else if have.Kids[0].K == "num" {
			g.pathsFrom(expr+"["+g.pick(smallIntPool)+"]", have.Kids[1], want, fuel-1, out, depth)
		}
	case "maybe":
		// get(mb, default) needs a default of the payload type; handled in gen
	}
}

func (g *progGen) numLit() string {
	if g.r.Intn(3) == 0 {
		return fmt.Sprintf("%d", g.r.Intn(20))
	}
	return g.pick(numPool)
}

func (g *progGen) bin(op, a, b string) string {
	if g.sugar || g.r.Intn(4) != 0 {
		return "(" + a + " " + op + " " + b + ")"
	}
	return "`" + "" // unreachable marker, replaced below
}

// call renders op(a, b) in sugared or explicit form. Explicit calls of symbolic operators are
// not expressible in source (the callee must be an identifier token), so only word operators
// and functions use the explicit form.
func (g *progGen) opCall(op string, args ...string) string {
	switch len(args) {
	case 1:
		return "(" + op + " " + args[0] + ")"
	default:
		return "(" + args[0] + " " + op + " " + args[1] + ")"
	}
}

func (g *progGen) fn(name string, args ...string) string {
	if len(args) > 0 && g.r.Intn(5) == 0 {
		// method-call sugar: a.f(b, c)
		recv := args[0]
		if !strings.HasPrefix(recv, "(") && !isSimple(recv) {
			recv = "(" + recv + ")"
		}
		g.hit("sugar:method")
		return recv + "." + name + "(" + strings.Join(args[1:], ", ") + ")"
	}
	return name + "(" + strings.Join(args, ", ") + ")"
}

func isSimple(s string) bool {
	for _, c := range s {
		if !(c == '_' || c >= '0' && c <= '9' || c >= 'a' && c <= 'z' || c >= 'A' && c <= 'Z') {
			return false
		}
	}
	return len(s) > 0 && !(s[0] >= '0' && s[0] <= '9')
}

func (g *progGen) cond(c, a, b string) string {
	switch g.r.Intn(3) {
	case 0:
		g.hit("sugar:ternary")
		return "(" + c + " ? " + a + " : " + b + ")"
	default:
		return "if(" + c + ", " + a + ", " + b + ")"
	}
}

// gen produces an expression of type t.
func (g *progGen) gen(t *T, depth int) string {
	// variables and paths
	if depth <= 0 || g.r.Intn(5) == 0 {
		if vs := g.varsOf(t); len(vs) > 0 && g.r.Intn(3) != 0 {
			g.hit("leaf:var")
			return g.pick(vs)
		}
		return g.leaf(t)
	}
	if g.r.Intn(6) == 0 {
		if ps := g.paths(t, depth); len(ps) > 0 {
			g.hit("node:path")
			return g.pick(ps)
		}
	}
	d := depth - 1
	// host functions returning t
	if len(g.hosts) > 0 && g.r.Intn(6) == 0 {
		if s, ok := g.hostCall(t, d); ok {
			return s
		}
	}
	// generic forms available at every type
	switch g.r.Intn(12) {
	case 0:
		g.hit("node:if")
		return g.cond(g.gen(tBool, d), g.gen(t, d), g.gen(t, d))
	case 1:
		if t.K != "maybe" {
			g.hit("node:listsub")
			return g.gen(tList(t), d) + "[" + g.index(d) + "]"
		}
	case 2:
		if t.K != "maybe" {
			g.hit("node:get-list")
			return g.fn("get", g.gen(tList(t), d), g.index(d), g.gen(t, d))
		}
	case 3:
		if t.K != "maybe" {
			g.hit("node:get-map")
			return g.fn("get", g.gen(tMap(tStr, t), d), g.gen(tStr, d), g.gen(t, d))
		}
	case 4:
		if vs := g.varsOf(tMaybe(t)); len(vs) > 0 {
			g.hit("node:get-maybe")
			return g.fn("get", g.pick(vs), g.gen(t, d))
		}
	case 5:
		if t.K != "maybe" {
			g.hit("node:member")
			fs := []TF{{"p", tNum}, {"q", t}}
			if g.r.Intn(2) == 0 {
				fs = []TF{{"q", t}, {"p", tNum}}
			}
			return g.objLit(tObj(fs...), d) + ".q"
		}
	case 6:
		g.hit("node:print")
		return g.fn("print", g.gen(t, d))
	}
	switch t.K {
	case "num":
		return g.genNum(d)
	case "str":
		return g.genStr(d)
	case "bool":
		return g.genBool(d)
	case "time":
		return g.genTime(d)
	case "list":
		return g.genList(t, d)
	case "map":
		return g.genMap(t, d)
	case "obj":
		return g.objLit(t, d)
	}
	return g.leaf(t)
}

func (g *progGen) index(d int) string {
	if g.r.Intn(3) == 0 {
		g.hit("index:boundary")
		return g.pick(idxPool)
	}
	if g.r.Intn(3) == 0 {
		return g.gen(tNum, d)
	}
	return g.pick(smallIntPool)
}

func (g *progGen) leaf(t *T) string {
	switch t.K {
	case "num":
		g.hit("leaf:num")
		return g.numLit()
	case "str":
		g.hit("leaf:str")
		return g.pick(strPool)
	case "bool":
		g.hit("leaf:bool")
		return g.pick([]string{"true", "false"})
	case "time":
		g.hit("leaf:time")
		if g.r.Intn(2) == 0 {
			return "'" + g.pick(timePool) + "'"
		}
		return "strtotime(\"" + g.pick(timePool) + "\")"
	case "list":
		n := g.r.Intn(3)
		if vs := g.varsOf(t); len(vs) > 0 && g.r.Intn(2) == 0 {
			return g.pick(vs)
		}
		xs := []string{g.leaf(t.Kids[0])} // at least one element: [] has type list[⊥]
		for i := 0; i < n; i++ {
			xs = append(xs, g.leaf(t.Kids[0]))
		}
		g.hit("leaf:list")
		return "[" + strings.Join(xs, ", ") + "]"
	case "map":
		if vs := g.varsOf(t); len(vs) > 0 && g.r.Intn(2) == 0 {
			return g.pick(vs)
		}
		n := 1 + g.r.Intn(3)
		xs := []string{}
		for i := 0; i < n; i++ {
			xs = append(xs, g.keyLeaf(t.Kids[0])+": "+g.leaf(t.Kids[1]))
		}
		g.hit("leaf:map")
		return "[" + strings.Join(xs, ", ") + "]"
	case "obj":
		return g.objLit(t, 0)
	case "maybe":
		if vs := g.varsOf(t); len(vs) > 0 {
			return g.pick(vs)
		}
		// no literal form exists for optionals: fall back to a path or a (type-incorrect) payload
		if ps := g.paths(t, 0); len(ps) > 0 {
			return g.pick(ps)
		}
		return g.leaf(t.Kids[0])
	}
	return "0"
}

func (g *progGen) keyLeaf(t *T) string {
	// a key computed from the environment (the entry set then depends on the invocation)
	if g.r.Intn(4) == 0 {
		if vs := g.varsOf(t); len(vs) > 0 {
			g.hit("leaf:key-var")
			return g.pick(vs)
		}
	}
	switch t.K {
	case "str":
		return g.pick(keyStrPool)
	case "num":
		if g.r.Intn(4) == 0 {
			return g.pick([]string{"0.5", "1e30", "2e30", "1.5", "9007199254740993"})
		}
		return g.pick(smallIntPool)
	case "bool":
		return g.pick([]string{"true", "false"})
	case "time":
		return "'" + g.pick(timePool) + "'"
	}
	return g.leaf(t)
}

func (g *progGen) objLit(t *T, d int) string {
	fs := append([]TF{}, t.Fields...)
	xs := []string{}
	for _, f := range fs {
		if d > 0 {
			xs = append(xs, f.Name+": "+g.gen(f.T, d-1))
		} else {
			xs = append(xs, f.Name+": "+g.leaf(f.T))
		}
	}
	g.hit("node:obj")
	return "{" + strings.Join(xs, ", ") + "}"
}

func (g *progGen) genNum(d int) string {
	switch g.r.Intn(16) {
	case 0, 1:
		g.hit("num:+")
		return g.opCall("+", g.gen(tNum, d), g.gen(tNum, d))
	case 2:
		g.hit("num:-")
		return g.opCall("-", g.gen(tNum, d), g.gen(tNum, d))
	case 3:
		g.hit("num:*")
		return g.opCall("*", g.gen(tNum, d), g.gen(tNum, d))
	case 4:
		g.hit("num:/")
		return g.opCall("/", g.gen(tNum, d), g.gen(tNum, d))
	case 5:
		g.hit("num:%")
		return g.opCall("%", g.gen(tNum, d), g.gen(tNum, d))
	case 6:
		g.hit("num:^")
		return g.opCall("^", g.pick(smallIntPool), g.pick(smallIntPool))
	case 7:
		g.hit("num:neg")
		return g.opCall(g.pick([]string{"-", "+"}), g.gen(tNum, d))
	case 8:
		f := g.pick([]string{"abs", "ceil", "floor", "round"})
		g.hit("num:" + f)
		return g.fn(f, g.gen(tNum, d))
	case 9:
		f := g.pick([]string{"max", "min"})
		g.hit("num:" + f)
		if g.r.Intn(2) == 0 {
			return g.fn(f, g.gen(tList(tNum), d))
		}
		return g.fn(f, g.gen(tNum, d), g.gen(tNum, d))
	case 10:
		g.hit("num:len")
		switch g.r.Intn(3) {
		case 0:
			return g.fn("len", g.gen(tStr, d))
		case 1:
			return g.fn("len", g.gen(tList(g.elemTy()), d))
		default:
			return g.fn("len", g.gen(tMap(tStr, g.elemTy()), d))
		}
	case 11:
		g.hit("num:time-sub")
		return g.opCall("-", g.gen(tTime, d), g.gen(tTime, d))
	case 12:
		g.hit("num:mapsub")
		return g.gen(tMap(tStr, tNum), d) + "[" + g.gen(tStr, d) + "]"
	case 13:
		g.hit("num:mapsub-num")
		return g.gen(tMap(tNum, tNum), d) + "[" + g.index(d) + "]"
	}
	return g.leaf(tNum)
}

func (g *progGen) elemTy() *T {
	return []*T{tNum, tStr, tBool, tTime, tList(tNum), tObj(TF{"a", tNum}, TF{"b", tStr})}[g.r.Intn(6)]
}

func (g *progGen) genStr(d int) string {
	switch g.r.Intn(7) {
	case 0, 1:
		g.hit("str:+")
		return g.opCall("+", g.gen(tStr, d), g.gen(tStr, d))
	case 4:
		// the same variable twice inside one rendered value (a shared sub-value, not a cycle)
		var cands []string
		for _, v := range g.vars {
			if v.Ty.K == "list" || v.Ty.K == "map" || v.Ty.K == "obj" || v.Ty.K == "maybe" {
				cands = append(cands, v.Name)
			}
		}
		if len(cands) > 0 {
			x := g.pick(cands)
			g.hit("str:string-shared")
			switch g.r.Intn(3) {
			case 0:
				return g.fn("string", "["+x+", "+x+"]")
			case 1:
				return g.fn("string", "{a: "+x+", b: ["+x+"]}")
			default:
				return g.fn("string", "[\"k1\": "+x+", \"k2\": "+x+"]")
			}
		}
		return g.leaf(tStr)
	case 2, 3:
		g.hit("str:string")
		ts := []*T{tNum, tStr, tBool, tTime, tList(tNum), tList(tStr), tMap(tStr, tNum), tMap(tNum, tStr), tObj(TF{"b", tStr}, TF{"a", tNum}), tList(tObj(TF{"a", tNum}, TF{"b", tStr}))}
		for _, v := range g.vars {
			if v.Ty.K == "maybe" || v.Ty.K == "obj" {
				ts = append(ts, v.Ty)
			}
		}
		return g.fn("string", g.gen(ts[g.r.Intn(len(ts))], d))
	}
	return g.leaf(tStr)
}

func (g *progGen) genBool(d int) string {
	switch g.r.Intn(14) {
	case 0:
		g.hit("bool:not")
		return g.opCall(g.pick([]string{"!", "not"}), g.gen(tBool, d))
	case 1, 2:
		op := g.pick([]string{"&&", "||", "and", "or"})
		g.hit("bool:" + op)
		return g.opCall(op, g.gen(tBool, d), g.gen(tBool, d))
	case 3, 4, 5:
		op := g.pick([]string{"==", "!=", "<", "<=", ">", ">="})
		g.hit("bool:num" + op)
		a := g.gen(tNum, d)
		b := g.gen(tNum, d)
		if g.r.Intn(4) == 0 { // tolerance edge
			b = "(" + a + " + " + g.pick([]string{"0.000000001", "0.0000000009", "0.0000000011", "0"}) + ")"
		}
		return g.opCall(op, a, b)
	case 6:
		op := g.pick([]string{"==", "!="})
		t := []*T{tStr, tBool, tTime, tList(tNum), tList(tStr), tMap(tStr, tNum), tList(tObj(TF{"a", tNum}, TF{"b", tStr}))}[g.r.Intn(7)]
		g.hit("bool:eq-" + t.K)
		return g.opCall(op, g.gen(t, d), g.gen(t, d))
	case 7:
		op := g.pick([]string{"<", "<=", ">", ">=", "==", "!="})
		g.hit("bool:time" + op)
		return g.opCall(op, g.gen(tTime, d), g.gen(tTime, d))
	case 8:
		g.hit("bool:match")
		return g.fn("match", "\""+strings.ReplaceAll(g.pick(regexPats), `\`, `\\`)+"\"", "\""+g.pick(regexSubs)+"\"")
	case 9:
		g.hit("bool:isset")
		if g.r.Intn(2) == 0 {
			return g.fn("isset", g.gen(tMap(tNum, tNum), d), g.index(d))
		}
		return g.fn("isset", g.gen(tMap(tStr, g.elemTy()), d), g.gen(tStr, d))
	case 10:
		g.hit("bool:guard")
		m := g.pick(append(g.varsOf(tMap(tStr, tNum)), "[\"k1\": 1]"))
		k := g.pick(keyStrPool)
		return "(if(isset(" + m + ", " + k + "), " + m + "[" + k + "], 0) == " + g.gen(tNum, d) + ")"
	}
	return g.leaf(tBool)
}

func (g *progGen) genTime(d int) string {
	return g.leaf(tTime)
}

func (g *progGen) genList(t *T, d int) string {
	el := t.Kids[0]
	switch g.r.Intn(6) {
	case 0, 1:
		f := g.pick([]string{"union", "intersect", "diff"})
		g.hit("list:" + f)
		return g.fn(f, g.gen(t, d), g.gen(t, d))
	case 2, 3, 4:
		n := 1 + g.r.Intn(4)
		if g.r.Intn(40) == 0 {
			n = 43 + g.r.Intn(5) // exceeds the VM's initial stack
		}
		xs := []string{}
		for i := 0; i < n; i++ {
			if i > 0 && g.r.Intn(4) == 0 {
				xs = append(xs, xs[g.r.Intn(len(xs))]) // duplicates for the set functions
			} else if el.K == "obj" {
				xs = append(xs, g.objLit((&tyGen{r: g.r}).permute(el), d))
			} else {
				xs = append(xs, g.gen(el, d))
			}
		}
		g.hit("list:lit")
		return "[" + strings.Join(xs, ", ") + "]"
	}
	return g.leaf(t)
}

func (g *progGen) genMap(t *T, d int) string {
	n := 1 + g.r.Intn(4)
	xs := []string{}
	for i := 0; i < n; i++ {
		xs = append(xs, g.keyLeaf(t.Kids[0])+": "+g.gen(t.Kids[1], d))
	}
	g.hit("map:lit")
	return "[" + strings.Join(xs, ", ") + "]"
}

func (g *progGen) hostCall(t *T, d int) (string, bool) {
	var cands []hostDecl
	for _, h := range g.hosts {
		if h.Ret != nil && refEq(h.Ret, t) {
			cands = append(cands, h)
		} else if h.Ret == nil { // polymorphic a -> a style
			cands = append(cands, h)
		}
	}
	if len(cands) == 0 {
		return "", false
	}
	h := cands[g.r.Intn(len(cands))]
	args := []string{}
	for _, p := range h.Params {
		if p == nil {
			args = append(args, g.gen(t, d))
		} else {
			args = append(args, g.gen(p, d))
		}
	}
	g.hit("host:" + h.Name)
	return h.Name + "(" + strings.Join(args, ", ") + ")", true
}

// breakType applies a type-breaking mutation at the source level: replaces one balanced
// sub-expression by an expression of another type, drops or duplicates a call argument.
func (g *progGen) breakType(src string) string {
	// object literals: add a field (a strict superset of the expected type), drop or rename one
	if i := strings.Index(src, "{"); i >= 0 && g.r.Intn(3) == 0 {
		objs := []int{}
		for j := 0; j < len(src); j++ {
			if src[j] == '{' {
				objs = append(objs, j)
			}
		}
		j := objs[g.r.Intn(len(objs))]
		switch g.r.Intn(3) {
		case 0:
			if j+1 < len(src) && src[j+1] == '}' {
				return src[:j+1] + "zz: 1" + src[j+1:]
			}
			return src[:j+1] + "zz: \"x\", " + src[j+1:]
		case 1:
			if k := strings.Index(src[j:], ":"); k > 0 {
				return src[:j+k] + "x" + src[j+k:] // rename the first field
			}
		default:
			if k := strings.IndexAny(src[j:], ",}"); k > 0 && src[j+k] == ',' {
				return src[:j+1] + src[j+k+1:] // drop the first field
			}
		}
	}
	spans := subExprSpans(src)
	if len(spans) == 0 {
		return src + " + \"x\""
	}
	sp := spans[g.r.Intn(len(spans))]
	repl := []string{"\"s\"", "1", "true", "[1]", "[\"a\": 1]", "{a: 1}", "'2020-01-02'", "[]", "[:]", "{}", "undefinedVar", "match",
		// an optional where the payload type is required (must be rejected at compile time)
		"mb", "ms", "om.p", "mb", "ms"}
	return src[:sp[0]] + g.pick(repl) + src[sp[1]:]
}

// subExprSpans finds spans of literals / identifiers / parenthesised groups (byte offsets).
func subExprSpans(src string) [][2]int {
	var out [][2]int
	var stack []int
	inStr := byte(0)
	for i := 0; i < len(src); i++ {
		c := src[i]
		if inStr != 0 {
			if c == '\\' && inStr == '"' {
				i++
			} else if c == inStr {
				inStr = 0
			}
			continue
		}
		switch c {
		case '"', '\'', '`':
			inStr = c
		case '(', '[', '{':
			stack = append(stack, i)
		case ')', ']', '}':
			if len(stack) > 0 {
				st := stack[len(stack)-1]
				stack = stack[:len(stack)-1]
				if src[st] == '(' && (st == 0 || !isWordByte(src[st-1])) {
					out = append(out, [2]int{st, i + 1})
				}
			}
		default:
			if c >= '0' && c <= '9' && (i == 0 || !isWordByte(src[i-1]) && src[i-1] != '.') {
				j := i
				for j < len(src) && (isWordByte(src[j]) || src[j] == '.') {
					j++
				}
				out = append(out, [2]int{i, j})
				i = j - 1
			}
		}
	}
	return out
}

func isWordByte(c byte) bool {
	return c == '_' || c >= '0' && c <= '9' || c >= 'a' && c <= 'z' || c >= 'A' && c <= 'Z' || c >= 0x80
}

var _ = math.Pi
