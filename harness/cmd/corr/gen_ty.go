package main

import (
	"fmt"
	"math/rand"
	"strings"

	"github.com/goghcrow/yae/types"
)

// T is the harness's own tree representation of a type, so that Go *types.Type values are
// always built without sharing unless a stream shares on purpose.
type T struct {
	K      string // top bot var num str bool time tuple list map obj fun maybe
	Name   string // var / fun name
	Kids   []*T   // tuple members, list el, map k v, fun params..., maybe el
	Ret    *T     // fun
	Fields []TF
}
type TF struct {
	Name string
	T    *T
}

func tAtom(k string) *T               { return &T{K: k} }
func tVar(n string) *T                { return &T{K: "var", Name: n} }
func tList(e *T) *T                   { return &T{K: "list", Kids: []*T{e}} }
func tMaybe(e *T) *T                  { return &T{K: "maybe", Kids: []*T{e}} }
func tMap(k, v *T) *T                 { return &T{K: "map", Kids: []*T{k, v}} }
func tTuple(xs ...*T) *T              { return &T{K: "tuple", Kids: xs} }
func tObj(fs ...TF) *T                { return &T{K: "obj", Fields: fs} }
func tFun(n string, ps []*T, r *T) *T { return &T{K: "fun", Name: n, Kids: ps, Ret: r} }

var (
	tNum  = tAtom("num")
	tStr  = tAtom("str")
	tBool = tAtom("bool")
	tTime = tAtom("time")
	tBot  = tAtom("bot")
	tTop  = tAtom("top")
)

func (t *T) String() string {
	switch t.K {
	case "var":
		return "'" + t.Name
	case "tuple":
		xs := []string{}
		for _, k := range t.Kids {
			xs = append(xs, k.String())
		}
		return "(" + strings.Join(xs, ", ") + ")"
	case "list":
		return "list[" + t.Kids[0].String() + "]"
	case "maybe":
		return "maybe[" + t.Kids[0].String() + "]"
	case "map":
		return "map[" + t.Kids[0].String() + ", " + t.Kids[1].String() + "]"
	case "obj":
		xs := []string{}
		for _, f := range t.Fields {
			xs = append(xs, f.Name+": "+f.T.String())
		}
		return "{" + strings.Join(xs, ", ") + "}"
	case "fun":
		xs := []string{}
		for _, k := range t.Kids {
			xs = append(xs, k.String())
		}
		return "func " + t.Name + "(" + strings.Join(xs, ", ") + ") " + t.Ret.String()
	case "top":
		return "⊤"
	case "bot":
		return "⊥"
	}
	return t.K
}

// build makes a fresh, unshared *types.Type. It panics where the types package asserts
// (non-keyable map key, duplicate field) — callers recover.
func (t *T) build() *types.Type {
	switch t.K {
	case "top":
		return types.Top
	case "bot":
		return types.Bottom
	case "var":
		return types.NewTyVarExact(t.Name)
	case "num":
		return types.Num
	case "str":
		return types.Str
	case "bool":
		return types.Bool
	case "time":
		return types.Time
	case "tuple":
		xs := make([]*types.Type, len(t.Kids))
		for i, k := range t.Kids {
			xs[i] = k.build()
		}
		return types.Tuple(xs)
	case "list":
		return types.List(t.Kids[0].build())
	case "maybe":
		return types.Maybe(t.Kids[0].build())
	case "map":
		return types.Map(t.Kids[0].build(), t.Kids[1].build())
	case "obj":
		fs := make([]types.Field, len(t.Fields))
		for i, f := range t.Fields {
			fs[i] = types.Field{Name: f.Name, Val: f.T.build()}
		}
		return types.Obj(fs)
	case "fun":
		xs := make([]*types.Type, len(t.Kids))
		for i, k := range t.Kids {
			xs[i] = k.build()
		}
		return types.Fun(t.Name, xs, t.Ret.build())
	}
	panic("bad T " + t.K)
}

func (t *T) sx() string {
	switch t.K {
	case "var":
		return sxList("var", sxStr(t.Name))
	case "tuple":
		xs := []string{"tuple"}
		for _, k := range t.Kids {
			xs = append(xs, k.sx())
		}
		return sxList(xs...)
	case "list":
		return sxList("list", t.Kids[0].sx())
	case "maybe":
		return sxList("maybe", t.Kids[0].sx())
	case "map":
		return sxList("map", t.Kids[0].sx(), t.Kids[1].sx())
	case "obj":
		xs := []string{"obj"}
		for _, f := range t.Fields {
			xs = append(xs, sxList(sxStr(f.Name), f.T.sx()))
		}
		return sxList(xs...)
	case "fun":
		ps := []string{}
		for _, k := range t.Kids {
			ps = append(ps, k.sx())
		}
		return sxList("fun", sxStr(t.Name), sxList(ps...), t.Ret.sx())
	}
	return t.K
}

func (t *T) depth() int {
	d := 0
	for _, k := range t.Kids {
		if x := k.depth() + 1; x > d {
			d = x
		}
	}
	for _, f := range t.Fields {
		if x := f.T.depth() + 1; x > d {
			d = x
		}
	}
	if t.Ret != nil {
		if x := t.Ret.depth() + 1; x > d {
			d = x
		}
	}
	return d
}

func (t *T) hasVar() bool {
	if t.K == "var" {
		return true
	}
	for _, k := range t.Kids {
		if k.hasVar() {
			return true
		}
	}
	for _, f := range t.Fields {
		if f.T.hasVar() {
			return true
		}
	}
	return t.Ret != nil && t.Ret.hasVar()
}

type tyGen struct {
	r      *rand.Rand
	vars   []string // variable names that may appear ("" slice: ground)
	bot    bool     // allow ⊥
	top    bool     // allow ⊤
	funs   bool
	fields []string
}

// field names: plain ones, and names that differ only in case, in an accent, or by a prefix (an
// ordering or a lookup that folds case, compares prefixes or normalises text confuses them)
var fieldPool = []string{"a", "b", "c", "d", "A", "B", "ab", "aB", "Ab", "é", "É", "a1"}

func (g *tyGen) atom() *T {
	opts := []*T{tNum, tStr, tBool, tTime}
	if g.bot {
		opts = append(opts, tBot)
	}
	if g.top && g.r.Intn(4) == 0 {
		opts = append(opts, tTop)
	}
	for _, v := range g.vars {
		opts = append(opts, tVar(v), tVar(v)) // variables twice as likely
	}
	return opts[g.r.Intn(len(opts))]
}

func (g *tyGen) key() *T {
	opts := []*T{tNum, tStr, tBool, tTime}
	if g.bot {
		opts = append(opts, tBot)
	}
	for _, v := range g.vars {
		opts = append(opts, tVar(v))
	}
	return opts[g.r.Intn(len(opts))]
}

func (g *tyGen) gen(depth int) *T {
	if depth <= 0 || g.r.Intn(4) == 0 {
		return g.atom()
	}
	n := 5
	if g.funs {
		n = 6
	}
	switch g.r.Intn(n) {
	case 0:
		return tList(g.gen(depth - 1))
	case 1:
		return tMaybe(g.gen(depth - 1))
	case 2:
		return tMap(g.key(), g.gen(depth-1))
	case 3, 4:
		nf := g.r.Intn(4)
		perm := g.r.Perm(len(fieldPool))
		fs := []TF{}
		for i := 0; i < nf; i++ {
			fs = append(fs, TF{fieldPool[perm[i]], g.gen(depth - 1)})
		}
		return tObj(fs...)
	default:
		np := g.r.Intn(3)
		ps := []*T{}
		for i := 0; i < np; i++ {
			ps = append(ps, g.gen(depth-1))
		}
		return tFun("f", ps, g.gen(depth-1))
	}
}

// permute returns a copy with object fields shuffled everywhere (an Equals-equal type).
func (g *tyGen) permute(t *T) *T {
	c := &T{K: t.K, Name: t.Name}
	for _, k := range t.Kids {
		c.Kids = append(c.Kids, g.permute(k))
	}
	if t.Ret != nil {
		c.Ret = g.permute(t.Ret)
	}
	if len(t.Fields) > 0 {
		p := g.r.Perm(len(t.Fields))
		for _, i := range p {
			c.Fields = append(c.Fields, TF{t.Fields[i].Name, g.permute(t.Fields[i].T)})
		}
	}
	return c
}

// mutate changes one position of the type (a usually non-equal neighbour).
func (g *tyGen) mutate(t *T) *T {
	sites := 1 + len(t.Kids) + len(t.Fields)
	if t.Ret != nil {
		sites++
	}
	pick := g.r.Intn(sites)
	if pick == 0 {
		switch g.r.Intn(3) {
		case 0:
			return g.gen(1)
		case 1:
			if t.K == "obj" && len(t.Fields) > 0 { // rename or drop a field
				c := &T{K: "obj"}
				c.Fields = append(c.Fields, t.Fields...)
				i := g.r.Intn(len(c.Fields))
				if g.r.Intn(2) == 0 {
					c.Fields = append(c.Fields[:i:i], c.Fields[i+1:]...)
				} else {
					c.Fields[i] = TF{c.Fields[i].Name + "x", c.Fields[i].T}
				}
				return c
			}
			return tList(t)
		default:
			return tMaybe(t)
		}
	}
	c := &T{K: t.K, Name: t.Name, Ret: t.Ret}
	c.Kids = append(c.Kids, t.Kids...)
	c.Fields = append(c.Fields, t.Fields...)
	pick--
	if pick < len(c.Kids) {
		if t.K == "map" && pick == 0 {
			c.Kids[0] = g.key()
		} else {
			c.Kids[pick] = g.mutate(c.Kids[pick])
		}
		return c
	}
	pick -= len(c.Kids)
	if pick < len(c.Fields) {
		c.Fields[pick] = TF{c.Fields[pick].Name, g.mutate(c.Fields[pick].T)}
		return c
	}
	c.Ret = g.mutate(t.Ret)
	return c
}

// ground instantiates the variables of a pattern with random ground types.
func (g *tyGen) instantiate(t *T, env map[string]*T, gg *tyGen) *T {
	if t.K == "var" {
		if u, ok := env[t.Name]; ok {
			return u
		}
		u := gg.gen(1)
		env[t.Name] = u
		return u
	}
	c := &T{K: t.K, Name: t.Name}
	for i, k := range t.Kids {
		if t.K == "map" && i == 0 && k.K == "var" {
			if u, ok := env[k.Name]; ok {
				c.Kids = append(c.Kids, u)
			} else {
				u := gg.key()
				env[k.Name] = u
				c.Kids = append(c.Kids, u)
			}
			continue
		}
		c.Kids = append(c.Kids, g.instantiate(k, env, gg))
	}
	if t.Ret != nil {
		c.Ret = g.instantiate(t.Ret, env, gg)
	}
	for _, f := range t.Fields {
		c.Fields = append(c.Fields, TF{f.Name, g.instantiate(f.T, env, gg)})
	}
	return c
}

func safely(f func() string) (res string) {
	defer func() {
		if r := recover(); r != nil {
			res = "(err panic)"
			_ = fmt.Sprint(r)
		}
	}()
	return f()
}

// buildShared builds the type like build, but a *T node that occurs several times in the tree
// is built ONCE and its *types.Type pointer reused (a DAG, as hand-written environments do).
func (t *T) buildShared(memo map[*T]*types.Type) *types.Type {
	if x, ok := memo[t]; ok {
		return x
	}
	var res *types.Type
	switch t.K {
	case "tuple":
		xs := make([]*types.Type, len(t.Kids))
		for i, k := range t.Kids {
			xs[i] = k.buildShared(memo)
		}
		res = types.Tuple(xs)
	case "list":
		res = types.List(t.Kids[0].buildShared(memo))
	case "maybe":
		res = types.Maybe(t.Kids[0].buildShared(memo))
	case "map":
		res = types.Map(t.Kids[0].buildShared(memo), t.Kids[1].buildShared(memo))
	case "obj":
		fs := make([]types.Field, len(t.Fields))
		for i, f := range t.Fields {
			fs[i] = types.Field{Name: f.Name, Val: f.T.buildShared(memo)}
		}
		res = types.Obj(fs)
	case "fun":
		xs := make([]*types.Type, len(t.Kids))
		for i, k := range t.Kids {
			xs[i] = k.buildShared(memo)
		}
		res = types.Fun(t.Name, xs, t.Ret.buildShared(memo))
	default:
		res = t.build()
	}
	memo[t] = res
	return res
}
