package main

import (
	"fmt"
	"io"
	"math"
	"math/rand"
	"os"
	"strings"
	"time"

	"github.com/goghcrow/yae/fun"
	"github.com/goghcrow/yae/types"
	"github.com/goghcrow/yae/val"
)

// hostDecl describes a function the embedding program registers (lean: FunDecl with a host ref).
type hostDecl struct {
	Name   string
	Params []*T // nil = the type variable a
	Ret    *T   // nil = a
	Lazy   bool
	Beh    string // protocol form of the behaviour: (ret i) (cnum #..) fail (force i j ..)
	RetArg int
	Fail   bool
	Const  *val.Val
	Force  []int
}

func newRand(seed int64) *rand.Rand { return rand.New(rand.NewSource(seed)) }

var trace []string // events of the current run, protocol form

// callMarker prefixes the lines host functions write to (captured) standard output.
const callMarker = "\x00CALL "

func traceEvent(ev string) {
	trace = append(trace, ev)
	fmt.Fprintln(os.Stdout, callMarker+ev)
}

func (h hostDecl) tyT() *T {
	ps := []*T{}
	for _, p := range h.Params {
		if p == nil {
			ps = append(ps, tVar("a"))
		} else {
			ps = append(ps, p)
		}
	}
	r := h.Ret
	if r == nil {
		r = tVar("a")
	}
	return tFun(h.Name, ps, r)
}

func (h hostDecl) sx() string {
	return sxList("host", sxStr(h.Name), h.tyT().sx(), sxBool(h.Lazy), h.Beh)
}

func (h hostDecl) build() *val.Val {
	a := types.TyVar("a")
	ps := []*types.Type{}
	for _, p := range h.Params {
		if p == nil {
			ps = append(ps, a)
		} else {
			ps = append(ps, p.build())
		}
	}
	var r *types.Type
	if h.Ret == nil {
		r = a
	} else {
		r = h.Ret.build()
	}
	ty := types.Fun(h.Name, ps, r)
	name := h.Name
	if h.Lazy {
		order := h.Force
		return val.LazyFun(ty, func(args ...*val.Val) *val.Val {
			traceEvent(sxList("call", sxStr(name)))
			var last *val.Val
			for _, i := range order {
				last = args[i].Fun().Call()
			}
			return last
		})
	}
	return val.Fun(ty, func(args ...*val.Val) *val.Val {
		xs := []string{"call", sxStr(name)}
		for _, a := range args {
			xs = append(xs, sxStr(a.String()))
		}
		traceEvent(sxList(xs...))
		if h.Fail {
			panic(fmt.Errorf("hostfail:%s", name))
		}
		if h.Const != nil {
			return h.Const
		}
		return args[h.RetArg]
	})
}

var hostZoo = []hostDecl{
	{Name: "tr", Params: []*T{tNum}, Ret: tNum, Beh: "(ret 0)"},
	{Name: "trs", Params: []*T{tStr}, Ret: tStr, Beh: "(ret 0)"},
	{Name: "tr2", Params: []*T{tNum, tNum}, Ret: tNum, Beh: "(ret 1)", RetArg: 1},
	{Name: "boom", Params: []*T{tNum}, Ret: tNum, Beh: "fail", Fail: true},
	{Name: "lz", Params: []*T{tNum, tNum}, Ret: tNum, Lazy: true, Beh: "(force 0)", Force: []int{0}},
	{Name: "lz2", Params: []*T{tNum, tNum}, Ret: tNum, Lazy: true, Beh: "(force 1 1)", Force: []int{1, 1}},
	{Name: "lzb", Params: []*T{tBool, tNum, tNum}, Ret: tNum, Lazy: true, Beh: "(force 0 2)", Force: []int{0, 2}},
	{Name: "idp", Params: []*T{nil}, Ret: nil, Beh: "(ret 0)"},
	{Name: "pick2", Params: []*T{nil, nil}, Ret: nil, Lazy: true, Beh: "(force 1)", Force: []int{1}},
	{Name: "cnst", Params: []*T{}, Ret: tNum, Beh: sxList("cnum", sxNum(7)), Const: val.Num(7)},
	{Name: "len", Params: []*T{tNum}, Ret: tNum, Beh: "(ret 0)"},
	{Name: "trb", Params: []*T{tBool}, Ret: tBool, Beh: "(ret 0)"},
}

// engine replicates what yae.Expr holds: the type-check and run-time function tables,
// registered in lockstep (facade.go RegisterFun).
type engine struct {
	tenv  *types.Env
	renv  *val.Env
	hosts []hostDecl
	funsx string
}

func newEngine(hosts []hostDecl) *engine {
	e := &engine{tenv: types.NewEnv(), renv: val.NewEnv(), hosts: hosts}
	for _, f := range fun.BuiltIn() {
		e.tenv.RegisterFun(f.Type)
		e.renv.RegisterFun(f)
	}
	xs := []string{"builtins"}
	for _, h := range hosts {
		f := h.build()
		e.tenv.RegisterFun(f.Type)
		e.renv.RegisterFun(f)
		xs = append(xs, h.sx())
	}
	e.funsx = sxList(xs...)
	return e
}

// captureStdout runs f with os.Stdout redirected and returns what was written.
func captureStdout(f func()) string {
	old := os.Stdout
	r, w, err := os.Pipe()
	if err != nil {
		f()
		return ""
	}
	os.Stdout = w
	done := make(chan string)
	go func() {
		b, _ := io.ReadAll(r)
		done <- string(b)
	}()
	func() {
		defer func() {
			os.Stdout = old
			w.Close()
		}()
		f()
	}()
	s := <-done
	r.Close()
	return s
}

// ---------------------------------------------------------------------------------------
// environment values

var zonePool = []*time.Location{time.UTC, time.FixedZone("X5", 5*3600), time.FixedZone("W3", -3*3600-1800)}

type valGen struct {
	r       *rand.Rand
	special bool // allow NaN / ±Inf (only for top-level numbers)
}

var hostNumPool = []float64{math.Copysign(0, -1), 4611686018427387904, 0, 1, -1, 2, 3, 0.5, -0.5, 1.5, 2.5, 10, 42, 100, 1e-9, 9.999999e-10, 1.0000001e-9, 255, 256, 65535,
	9007199254740992, 9007199254740993, 9223372036854775807, -9223372036854775808, 1e15, 1e21, 1e30, 2e30, -1e30, 0.1, 0.2, 0.30000000000000004, 123456789.125, 1e-7, 5e-324}
var hostStrPool = []string{"a, b", "x: y", "[a, b]", "", "a", "b", "ab", "k1", "k2", "hello", "x y", "é", "中文", "a\"b", "a\\b", "\n", "\t", "\x01", " ", "😀", "aaa"}

func (g *valGen) num() float64 {
	if g.special && g.r.Intn(12) == 0 {
		return []float64{math.NaN(), math.Inf(1), math.Inf(-1), math.Copysign(0, -1)}[g.r.Intn(4)]
	}
	if g.r.Intn(3) == 0 {
		return float64(g.r.Intn(10))
	}
	return hostNumPool[g.r.Intn(len(hostNumPool))]
}

func (g *valGen) time() time.Time {
	secs := []int64{0, 86400, 1577934245, 946684799, 2147483648, 1600000000}
	nsecs := []int64{0, 0, 0, 500000000, 123456789, 1000}
	return time.Unix(secs[g.r.Intn(len(secs))], nsecs[g.r.Intn(len(nsecs))]).In(zonePool[g.r.Intn(len(zonePool))])
}

// gen builds a value whose own type Equals t (object types may be field-permuted).
func (g *valGen) gen(t *T, top bool) *val.Val {
	sp := g.special
	g.special = sp && top
	defer func() { g.special = sp }()
	switch t.K {
	case "num":
		return val.Num(g.num())
	case "str":
		return val.Str(hostStrPool[g.r.Intn(len(hostStrPool))])
	case "bool":
		return val.Bool(g.r.Intn(2) == 0)
	case "time":
		return val.Time(g.time())
	case "list":
		n := g.r.Intn(5)
		l := val.List(t.build().List(), 0).List()
		for i := 0; i < n; i++ {
			l.V = append(l.V, g.gen(t.Kids[0], false))
		}
		return l.Vl()
	case "map":
		n := g.r.Intn(4)
		m := val.Map(t.build().Map()).Map()
		for i := 0; i < n; i++ {
			var k *val.Val
			switch t.Kids[0].K {
			case "str":
				k = val.Str([]string{"k1", "k2", "k3", "a", "", "K1", "A", "k", "é", "É", "a, b", "k1 "}[g.r.Intn(12)])
			case "num":
				k = val.Num([]float64{0, 1, 2, 3, 0.5, 1e30}[g.r.Intn(6)])
			default:
				k = g.gen(t.Kids[0], false)
			}
			m.V[k.Key()] = g.gen(t.Kids[1], false)
		}
		return m.Vl()
	case "obj":
		pt := t
		if g.r.Intn(2) == 0 {
			pt = (&tyGen{r: g.r}).permuteTop(t)
		}
		o := val.Obj(pt.build().Obj()).Obj()
		for i, f := range pt.Fields {
			o.V[i] = g.gen(f.T, false)
		}
		return o.Vl()
	case "maybe":
		if g.r.Intn(2) == 0 {
			return val.Nothing(t.Kids[0].build())
		}
		v := g.gen(t.Kids[0], false)
		return val.Just(v.Type, v)
	}
	panic("valGen: " + t.K)
}

// permuteTop shuffles only the outermost field list.
func (g *tyGen) permuteTop(t *T) *T {
	c := &T{K: t.K, Name: t.Name, Kids: t.Kids, Ret: t.Ret}
	for _, i := range g.r.Perm(len(t.Fields)) {
		c.Fields = append(c.Fields, t.Fields[i])
	}
	return c
}

var envFamily = []envVar{
	{"n1", tNum}, {"n2", tNum}, {"s1", tStr}, {"s2", tStr}, {"b1", tBool}, {"t1", tTime}, {"t2", tTime},
	{"xs", tList(tNum)}, {"ss", tList(tStr)}, {"ts", tList(tTime)},
	{"m", tMap(tStr, tNum)}, {"mn", tMap(tNum, tNum)},
	{"o", tObj(TF{"a", tNum}, TF{"b", tStr}, TF{"c", tObj(TF{"x", tNum}, TF{"y", tBool})})},
	{"os", tList(tObj(TF{"a", tNum}, TF{"b", tStr}))},
	{"mo", tMap(tStr, tObj(TF{"a", tNum}, TF{"b", tStr}))},
	{"mb", tMaybe(tNum)}, {"ms", tMaybe(tStr)},
	{"om", tObj(TF{"p", tMaybe(tStr)}, TF{"q", tNum})},
	{"mb2", tMaybe(tNum)}, {"om2", tObj(TF{"p", tMaybe(tStr)}, TF{"q", tNum})},
}

func classifyPanic(r interface{}) string {
	msg := fmt.Sprint(r)
	switch {
	case strings.Contains(msg, "hostfail:"):
		return sxList("hostfail", sxStr(strings.TrimPrefix(msg, "hostfail:")))
	case strings.Contains(msg, "out of range"):
		return "index"
	case strings.Contains(msg, "undefined key"):
		return "key"
	case strings.Contains(msg, "integer divide by zero"):
		return "modzero"
	case strings.Contains(msg, "error parsing regexp"):
		return "regex"
	}
	if len(msg) > 60 {
		msg = msg[:60]
	}
	return sxList("stuck", sxStr(msg))
}
