package main

import (
	"flag"
	"fmt"
	"os"
	"sort"
)

func main() {
	stream := flag.String("stream", "", "stream name")
	model := flag.String("model", "", "path of the model driver binary")
	seed := flag.Int64("seed", 1, "PRNG seed")
	n := flag.Int("n", 1000, "number of random cases")
	thorough := flag.Bool("thorough", false, "thorough tier")
	out := flag.String("out", "", "summary JSON path")
	list := flag.Bool("list", false, "list streams")
	selftest := flag.String("selftest", "", "internal: run one isolated case in this process")
	worker := flag.Bool("worker", false, "internal: generate cases in this process")
	skip := flag.String("skip", "", "internal: guarded items to skip")
	progress := flag.String("progress", "", "internal: progress file")
	casesOut := flag.String("cases", "", "internal: cases output")
	flag.Parse()
	if *selftest == "dynamic-lazy" {
		selftestDynamicLazy()
		return
	}
	if *list {
		names := []string{}
		for k := range streams {
			names = append(names, k)
		}
		sort.Strings(names)
		for _, k := range names {
			fmt.Println(k)
		}
		return
	}
	s, ok := streams[*stream]
	if !ok {
		fmt.Fprintf(os.Stderr, "unknown stream %q\n", *stream)
		os.Exit(2)
	}
	if *worker {
		workerMain(s, *seed, *n, *thorough, *skip, *progress, *casesOut)
		return
	}
	sum, err := runStream(s, *model, *seed, *n, *thorough, nil)
	if err != nil {
		fmt.Fprintln(os.Stderr, err)
		os.Exit(2)
	}
	if *out != "" {
		if err := writeJSON(*out, sum); err != nil {
			fmt.Fprintln(os.Stderr, err)
			os.Exit(2)
		}
	}
	fmt.Printf("stream=%s evaluations=%d distinct=%d disagreements=%d oracle_failures=%d model_errors=%d wall=%.1fs\n",
		sum.Stream, sum.Evaluations, sum.Distinct, len(sum.Disagreements), len(sum.OracleFails), sum.ModelErrors, sum.WallS)
	for i, d := range sum.Disagreements {
		if i >= 5 {
			break
		}
		fmt.Printf("  DISAGREE %s\n    impl : %s\n    model: %s\n", d.Human, d.Impl, d.Model)
	}
	for i, d := range sum.OracleFails {
		if i >= 5 {
			break
		}
		fmt.Printf("  ORACLE[%s] %s: %s\n", d.Class, d.Human, d.What)
	}
}
