package main

import (
	"fmt"
	"math/rand"
	"runtime"
	"strings"
	"syscall"
	"time"

	"github.com/goghcrow/yae"
)

// cpuNow: CPU time (user+system) consumed so far by the calling OS thread.  The budgets of C12
// are measured in CPU time of the evaluating thread, not wall time (on a loaded machine wall time
// measures the scheduler) and not process time (which adds the collector's parallel threads).
// The caller has locked its goroutine to the thread.
func cpuNow() time.Duration {
	const rusageThread = 1 // RUSAGE_THREAD (Linux)
	var ru syscall.Rusage
	if err := syscall.Getrusage(rusageThread, &ru); err != nil {
		return time.Duration(time.Now().UnixNano())
	}
	return time.Duration(ru.Utime.Nano() + ru.Stime.Nano())
}

// apiOutcome runs f under recover and a (CPU time) stopwatch.
func apiOutcome(f func() error) (res string, panicked string, dur time.Duration) {
	runtime.LockOSThread()
	defer runtime.UnlockOSThread()
	t0 := cpuNow()
	func() {
		defer func() {
			if r := recover(); r != nil {
				panicked = fmt.Sprint(r)
			}
		}()
		if err := f(); err != nil {
			res = "error"
		} else {
			res = "value"
		}
	}()
	return res, panicked, cpuNow() - t0
}

var hostValues = []func() interface{}{
	func() interface{} { return nil },
	func() interface{} { return struct{}{} },
	func() interface{} { return genHostEnv(rand.New(rand.NewSource(7))) },
	func() interface{} { h := genHostEnv(rand.New(rand.NewSource(8))); return &h },
	func() interface{} { return map[string]interface{}{"n1": 1.5, "s1": "x", "xs": []int{1, 2}} },
	func() interface{} { return map[string]interface{}{"bad": make(chan int)} },
	func() interface{} { return map[string]interface{}{"nilp": (*int)(nil)} },
	func() interface{} { return map[string]interface{}{"mixed": []interface{}{1, "a"}} },
	func() interface{} { return 42 },
	func() interface{} { return "str" },
	func() interface{} { return []int{1} },
	func() interface{} { var p *hostEnv; return p },
	func() interface{} { return struct{ F func() }{} },
	func() interface{} { return map[int]string{1: "a"} },
}

// host values whose pointers / interfaces form a cycle without passing through a container
type cycP *cycP

func cyclicHostValues() []func() interface{} {
	return []func() interface{}{
		func() interface{} { var x interface{}; x = &x; return map[string]interface{}{"a": x} },
		func() interface{} { return struct{ A cycP }{} },
		func() interface{} { var x interface{}; x = &x; return x },
		func() interface{} {
			type node struct {
				Val  int
				Next *node
			}
			n := &node{Val: 1}
			n.Next = n
			return n
		},
	}
}

func budgetFor(src string) time.Duration {
	// generous on purpose: the budget separates polynomial from exponential behaviour (which
	// exceeds any budget within a few more bytes), it is not a performance requirement; CPU time
	// of the evaluating thread still stretches 2-3x on a machine whose cores are all busy
	return 10*time.Second + time.Duration(len(src))*time.Millisecond
}

func apiCase(src string, hv int, tag string) Case {
	if guardBegin(fmt.Sprintf("api[%s] env#%d %q", tag, hv, src)) {
		return crashCase(fmt.Sprintf("api[%s] env#%d %q", tag, hv, src))
	}
	defer guardEnd()
	human := src
	if len(human) > 120 {
		human = human[:120] + fmt.Sprintf("…(%d bytes)", len(src))
	}
	c := Case{Human: fmt.Sprintf("api[%s] env#%d %q", tag, hv, human), Tags: []string{"api:" + tag}, Nontriv: true}
	env := hostValues[hv]()
	type ep struct {
		name string
		f    func() error
	}
	eps := []ep{
		{"Eval", func() error { _, err := yae.Eval(src, env); return err }},
		{"Compile+Callable", func() error {
			cl, err := yae.NewExpr().Compile(src, env)
			if err != nil {
				return err
			}
			_, err = cl(env)
			return err
		}},
		{"Debug", func() error { _, _, err := yae.Debug(src, env); return err }},
	}
	outs := []string{}
	for _, e := range eps {
		var res, pan string
		var dur time.Duration
		out := captureStdout(func() { res, pan, dur = apiOutcome(e.f) })
		_ = out
		outs = append(outs, e.name+"="+res)
		if pan != "" {
			c.Oracle, c.OracleID = e.name+" panicked: "+trim(pan), "api-panic"
			break
		}
		if dur > budgetFor(src) {
			c.Oracle, c.OracleID = fmt.Sprintf("%s took %v on a %d-byte input", e.name, dur, len(src)), "api-slow"
			break
		}
	}
	c.Want = strings.Join(outs, " ")
	c.Tags = append(c.Tags, "api:"+strings.Join(outs, ","))
	return c
}

func nest(open, close, core string, d int) string {
	return strings.Repeat(open, d) + core + strings.Repeat(close, d)
}

// mapKeyNest: maps nested in key position: [[[1:1]:1]:1]
func mapKeyNest(d int) string {
	return strings.Repeat("[", d) + "1:1" + strings.Repeat("]:1", d-1) + "]"
}

// growthCase measures parse time of a family at increasing depth and flags super-polynomial growth.
func growthCase(name string, gen func(d int) string, depths []int, id string) Case {
	if guardBegin("growth " + name) {
		return crashCase("growth " + name)
	}
	defer guardEnd()
	c := Case{Human: "growth " + name, Tags: []string{"api:growth"}, Nontriv: true}
	var times []time.Duration
	var report []string
	for _, d := range depths {
		src := gen(d)
		_, pan, dur := apiOutcome(func() error { _, err := yae.NewExpr().Compile(src, nil); return err })
		if pan != "" {
			c.Oracle, c.OracleID = name+" panicked: "+trim(pan), "api-panic"
			return c
		}
		times = append(times, dur)
		report = append(report, fmt.Sprintf("d=%d:%dB:%v", d, len(src), dur.Round(time.Microsecond)))
		if dur > 6*time.Second {
			c.Oracle = fmt.Sprintf("%s: compile time grows super-polynomially: %s", name, strings.Join(report, " "))
			c.OracleID = id
			c.Want = "slow"
			return c
		}
	}
	c.Want = "ok"
	return c
}

// hostGrowthCase: conversion time of host values nested in first position at increasing depth.
func hostGrowthCase() Case {
	if guardBegin("growth host nesting") {
		return crashCase("growth host nesting")
	}
	defer guardEnd()
	c := Case{Human: "growth host value: list nested in first position", Tags: []string{"api:growth"}, Nontriv: true, Want: "ok"}
	var report []string
	for _, d := range []int{4, 8, 12, 16, 20, 24, 28, 32} {
		var v interface{} = []interface{}{1}
		for i := 0; i < d; i++ {
			v = []interface{}{v}
		}
		env := map[string]interface{}{"a": v}
		_, pan, dur := apiOutcome(func() error { _, err := yae.Eval("1", env); return err })
		report = append(report, fmt.Sprintf("d=%d:%v", d, dur.Round(time.Microsecond)))
		if pan != "" {
			c.Oracle, c.OracleID = "panicked: "+trim(pan), "api-panic"
			return c
		}
		if dur > 6*time.Second {
			c.Oracle, c.OracleID = "conversion time of a nested host list grows super-polynomially: "+strings.Join(report, " "), "api-superpoly"
			c.Want = "slow"
			return c
		}
	}
	return c
}

func init() {
	register(&Stream{
		Name: "api",
		Rule: "public API (Eval, Compile+Callable, Debug) on random byte/rune strings, token-level mutations (insert/delete/duplicate/swap) of generated valid programs, bracket nests up to depth 2000, long operator chains (up to 3000 terms), crossed with 14 host values (nil, structs, pointers, maps, unsupported kinds, mixed interface slices); oracles: no panic escapes, per-input time budget 2s+0.1ms/byte; growth families measured at increasing depth. Non-trivial = every case; distinct = distinct (input, host value).",
		Gen: func(r *rand.Rand, n int, thorough bool) []Case {
			var cs []Case
			stats := map[string]int{}
			alphabet := []rune("()[]{}:,.?+-*/%^<>=!&|'\"` \n\t0123456789abcxyzé中_\\e#@~$;")
			for i := 0; i < n; i++ {
				hv := r.Intn(len(hostValues))
				switch i % 4 {
				case 0: // random runes
					l := 1 + r.Intn(40)
					var b strings.Builder
					for j := 0; j < l; j++ {
						b.WriteRune(alphabet[r.Intn(len(alphabet))])
					}
					cs = append(cs, apiCase(b.String(), hv, "random-runes"))
				case 1: // random bytes (possibly invalid UTF-8)
					l := 1 + r.Intn(30)
					bs := make([]byte, l)
					for j := range bs {
						bs[j] = byte(r.Intn(256))
					}
					cs = append(cs, apiCase(string(bs), hv, "random-bytes"))
				default: // mutated valid programs over the host environment
					g := &progGen{r: r, vars: historyVars[:len(historyVars)-1], stats: stats, sugar: true}
					src := g.gen(targetTypes[r.Intn(len(targetTypes))], 1+r.Intn(3))
					toks := strings.Fields(strings.NewReplacer("(", " ( ", ")", " ) ", "[", " [ ", "]", " ] ", ",", " , ").Replace(src))
					for k := r.Intn(3); k >= 0 && len(toks) > 0; k-- {
						p := r.Intn(len(toks))
						switch r.Intn(4) {
						case 0:
							toks = append(toks[:p], toks[p+1:]...)
						case 1:
							toks = append(toks[:p+1], toks[p:]...)
						case 2:
							q := r.Intn(len(toks))
							toks[p], toks[q] = toks[q], toks[p]
						case 3:
							ins := []string{"(", ")", "[", "]", "{", "}", ":", ",", ".", "?", "+", "==", "true", "1", "\"s\"", "'t'", "x"}
							toks = append(toks[:p+1], append([]string{ins[r.Intn(len(ins))]}, toks[p+1:]...)...)
						}
					}
					hv2 := []int{2, 3, 4}[r.Intn(3)]
					if r.Intn(4) == 0 {
						hv2 = hv
					}
					cs = append(cs, apiCase(strings.Join(toks, " "), hv2, "mutated-program"))
					if i%12 == 2 {
						// line breaks around and inside an otherwise valid program
						for _, v := range []string{src + "\n", src + "\r\n", "\n" + src, strings.Replace(src, " ", "\n", 1), src + "\n\n", src + " \t"} {
							cs = append(cs, apiCase(v, []int{2, 4}[r.Intn(2)], "valid-with-linebreaks"))
						}
					}
				}
			}
			// cyclic host values (each in a case of its own: a hang costs the watchdog's timeout)
			for i, mk := range cyclicHostValues() {
				hostValues = append(hostValues, mk)
				cs = append(cs, apiCase("1", len(hostValues)-1, fmt.Sprintf("cyclic-host-value-%d", i)))
			}
			// nests and chains
			depths := []int{10, 100, 500, 2000}
			for _, d := range depths {
				cs = append(cs, apiCase(nest("(", ")", "1", d), 0, "nest-paren"))
				cs = append(cs, apiCase(nest("[", "]", "1", d), 0, "nest-list"))
				cs = append(cs, apiCase(nest("{a:", "}", "1", d), 0, "nest-obj"))
				cs = append(cs, apiCase(strings.Repeat("-", d)+"1", 0, "nest-unary"))
				cs = append(cs, apiCase(strings.Repeat("true ? 1 : ", d)+"2", 0, "nest-ternary"))
				cs = append(cs, apiCase(strings.Repeat("(", d), 0, "nest-unclosed"))
				cs = append(cs, apiCase(nest("f(", ")", "1", d), 0, "nest-call"))
			}
			for _, k := range []int{100, 1000, 3000} {
				cs = append(cs, apiCase("1"+strings.Repeat(" + 1", k), 0, "chain-add"))
				cs = append(cs, apiCase("[1"+strings.Repeat(", 1", k)+"]", 0, "wide-list"))
				cs = append(cs, apiCase("1"+strings.Repeat(" ^ 1", k/10), 0, "chain-right-assoc"))
			}
			cs = append(cs, growthCase("method-call chain x.abs().abs()…", func(d int) string { return "1" + strings.Repeat(".abs()", d) }, []int{4, 8, 12, 16, 20, 24, 28, 32}, "api-superpoly"))
			cs = append(cs, growthCase("method-call chain with arguments", func(d int) string { return "1" + strings.Repeat(".max(2).min(3)", d/2) }, []int{4, 8, 12, 16, 20, 24, 28, 32}, "api-superpoly"))
			cs = append(cs, hostGrowthCase())
			cs = append(cs, growthCase("list nest [[…]]", func(d int) string { return nest("[", "]", "1", d) }, []int{50, 100, 200, 400, 800}, "api-superpoly"))
			cs = append(cs, growthCase("map value nest [1:[1:…]]", func(d int) string { return strings.Repeat("[1:", d) + "1" + strings.Repeat("]", d) }, []int{8, 12, 16, 20, 24, 28, 32}, "api-superpoly-map-nest"))
			cs = append(cs, growthCase("map key nest [[1:1]:1]", mapKeyNest, []int{6, 8, 10, 12, 14, 16, 18, 20, 22}, "api-superpoly-map-nest"))
			cs = append(cs, growthCase("list of maps nest [[[1:1]]]", func(d int) string { return strings.Repeat("[", d) + "1:1" + strings.Repeat("]", d) }, []int{6, 8, 10, 12, 14, 16, 18, 20, 22}, "api-superpoly-map-nest"))
			return cs
		},
	})
}
