package main

import (
	"fmt"
	"math"
	"math/rand"
	"reflect"
	"sort"
	"strings"
	"time"

	"github.com/goghcrow/yae/conv"
	"github.com/goghcrow/yae/types"
	"github.com/goghcrow/yae/val"
)

// Stream `conv` (property C15): host data generated through reflect is converted by the real
// package conv (TypeOf, ValOf, TypeEnvOf, ValEnvOf) and by the Lean model (requests conv.type,
// conv.val, conv.tenv, conv.venv; wire format in lean/Yae/Driver/Conv.lean). Errors are compared
// by class. Go iterates maps in random order and conv derives types, error precedence and
// overwriting from that order, so for values that contain a map with two or more entries the
// implementation is run several times and the model is asked (conv.among) whether every observed
// answer is its answer for some iteration order.
//
// Implementation-side oracles (independent of the model): conv-wf, conv-type-disagrees,
// conv-content, conv-unstable-type, conv-nil-untagged, conv-error-missing, conv-panic.

func init() {
	register(&Stream{
		Name: "conv",
		Rule: "conv.TypeOf / ValOf / TypeEnvOf / ValEnvOf on reflect-built host data answer as the model's typeOfRV / valOf / typeEnvOf / valEnvOf (errors by class, escaped panics as (panic)); maps with several entries: every observed answer is among the model's answers over the iteration orders",
		Gen:  genConvCases,
	})
}

// ---------------------------------------------------------------------------------------
// running the implementation

func isNilTop(x interface{}) bool {
	rv := reflect.ValueOf(x)
	if !rv.IsValid() {
		return true
	}
	switch rv.Kind() {
	case reflect.Chan, reflect.Func, reflect.Interface, reflect.Map, reflect.Ptr, reflect.Slice:
		return rv.IsNil()
	}
	return false
}

// classifyConvErr maps the message of a conv error to the model's class.
func classifyConvErr(msg string, topNil bool) string {
	nilClass := "nilInside"
	if topNil {
		nilClass = "nilTop"
	}
	switch {
	case msg == "max nested depth exceeded":
		return "depth"
	case strings.HasPrefix(msg, "val: Of(nil"):
		return nilClass
	case msg == "reflect: call of reflect.Value.Type on zero Value":
		return nilClass
	case strings.HasPrefix(msg, "val: TypeOf(nil"), strings.HasPrefix(msg, "val: ValOf(nil"):
		return "unsupported"
	case strings.HasPrefix(msg, "expect struct type actual"):
		return "notStruct"
	case strings.HasPrefix(msg, "expect ") && strings.Contains(msg, " actual "):
		return "mixed"
	case strings.HasPrefix(msg, "invalid type of map's key"):
		return "mapKey"
	case strings.HasPrefix(msg, "duplicated field"):
		return "dupField"
	case strings.HasPrefix(msg, "reflect.Value.Interface: cannot return value obtained from unexported field"):
		return "other"
	}
	if len(msg) > 80 {
		msg = msg[:80]
	}
	return "unknown:" + sxStr(msg)
}

type convOut struct {
	line   string // protocol answer
	panic  string // non-empty: a panic escaped
	ty     *types.Type
	vl     *val.Val
	tenv   *types.Env
	venv   *val.Env
	failed bool // error result
	msg    string
}

func encTypeEnv(e *types.Env) string {
	type b struct{ n, s string }
	bs := []b{}
	e.ForEach(func(n string, t *types.Type) { bs = append(bs, b{n, encTy(t)}) })
	sort.Slice(bs, func(i, j int) bool { return bs[i].n < bs[j].n })
	xs := []string{}
	for _, x := range bs {
		xs = append(xs, sxList(sxStr(x.n), x.s))
	}
	return sxList(xs...)
}

func encValEnv(e *val.Env) string {
	type b struct{ n, s string }
	bs := []b{}
	e.ForEach(func(n string, v *val.Val) { bs = append(bs, b{n, encVal(v)}) })
	sort.Slice(bs, func(i, j int) bool { return bs[i].n < bs[j].n })
	xs := []string{}
	for _, x := range bs {
		xs = append(xs, sxList(sxStr(x.n), x.s))
	}
	return sxList(xs...)
}

func runConvOp(op string, x interface{}) (o convOut) {
	topNil := isNilTop(x)
	defer func() {
		if r := recover(); r != nil {
			o = convOut{line: "(panic)", panic: fmt.Sprint(r), failed: true}
		}
	}()
	var err error
	switch op {
	case "type":
		o.ty, err = conv.TypeOf(x)
		if err == nil {
			o.line = sxList("ok", encTy(o.ty))
		}
	case "val":
		o.vl, err = conv.ValOf(x)
		if err == nil {
			o.line = sxList("ok", encVal(o.vl))
		}
	case "tenv":
		o.tenv, err = conv.TypeEnvOf(x)
		if err == nil {
			o.line = sxList("ok", encTypeEnv(o.tenv))
		}
	case "venv":
		o.venv, err = conv.ValEnvOf(x)
		if err == nil {
			o.line = sxList("ok", encValEnv(o.venv))
		}
	}
	if err != nil {
		o.failed = true
		o.msg = err.Error()
		o.line = sxList("err", classifyConvErr(o.msg, topNil))
	}
	return
}

// ---------------------------------------------------------------------------------------
// independent facts about a host value

// orderCount: number of distinct iteration orders of the maps inside (capped).
func orderCount(rv reflect.Value) int {
	if !rv.IsValid() {
		return 1
	}
	mul := func(a, b int) int {
		if a*b > 100000 {
			return 100000
		}
		return a * b
	}
	n := 1
	switch rv.Kind() {
	case reflect.Ptr, reflect.Interface:
		if !rv.IsNil() {
			return orderCount(rv.Elem())
		}
	case reflect.Slice, reflect.Array:
		for i := 0; i < rv.Len(); i++ {
			n = mul(n, orderCount(rv.Index(i)))
		}
	case reflect.Map:
		it := rv.MapRange()
		i := 0
		for it.Next() {
			i++
			n = mul(n, i)
			n = mul(n, orderCount(it.Key()))
			n = mul(n, orderCount(it.Value()))
		}
	case reflect.Struct:
		if rv.Type() == timeT {
			return 1
		}
		for i := 0; i < rv.NumField(); i++ {
			n = mul(n, orderCount(rv.Field(i)))
		}
	}
	return n
}

type goFacts struct {
	maxLevel    int    // deepest level at which conv visits a value
	unsupported string // path of a reachable value of an unsupported kind
	mixed       string // path of an interface-typed sequence whose elements differ in category
	nilInside   string // path of a nil element (not a struct field)
	untaggedNil string // path of a nil struct field that is not tagged maybe
	hasIface    bool
}

func goCategory(rv reflect.Value) string {
	for rv.IsValid() && (rv.Kind() == reflect.Ptr || rv.Kind() == reflect.Interface) {
		if rv.IsNil() {
			return "nil"
		}
		rv = rv.Elem()
	}
	if !rv.IsValid() {
		return "nil"
	}
	if rv.Type() == timeT {
		return "time"
	}
	switch rv.Kind() {
	case reflect.Bool:
		return "bool"
	case reflect.Int, reflect.Int8, reflect.Int16, reflect.Int32, reflect.Int64,
		reflect.Uint, reflect.Uint8, reflect.Uint16, reflect.Uint32, reflect.Uint64,
		reflect.Float32, reflect.Float64:
		return "num"
	case reflect.String:
		return "str"
	case reflect.Slice, reflect.Array:
		return "list"
	case reflect.Map:
		return "map"
	case reflect.Struct:
		return "obj"
	}
	return "unsupported"
}

func rvNil(rv reflect.Value) bool {
	if !rv.IsValid() {
		return true
	}
	switch rv.Kind() {
	case reflect.Chan, reflect.Func, reflect.Interface, reflect.Map, reflect.Ptr, reflect.Slice:
		return rv.IsNil()
	}
	return false
}

func (f *goFacts) walk(rv reflect.Value, lv int, path string) {
	if lv > f.maxLevel {
		f.maxLevel = lv
	}
	for rv.Kind() == reflect.Ptr || rv.Kind() == reflect.Interface {
		if rv.Kind() == reflect.Interface {
			f.hasIface = true
		}
		if rv.IsNil() {
			if f.nilInside == "" {
				f.nilInside = path
			}
			return
		}
		rv = rv.Elem()
	}
	if rv.Type() == timeT {
		return
	}
	switch rv.Kind() {
	case reflect.Slice, reflect.Array:
		cats := map[string]bool{}
		for i := 0; i < rv.Len(); i++ {
			e := rv.Index(i)
			if rvNil(e) {
				if f.nilInside == "" {
					f.nilInside = fmt.Sprintf("%s[%d]", path, i)
				}
				continue
			}
			cats[goCategory(e)] = true
			f.walk(e, lv+1, fmt.Sprintf("%s[%d]", path, i))
		}
		delete(cats, "nil")
		if len(cats) > 1 && f.mixed == "" {
			f.mixed = path
		}
	case reflect.Map:
		it := rv.MapRange()
		kc, vc := map[string]bool{}, map[string]bool{}
		for it.Next() {
			kc[goCategory(it.Key())] = true
			vc[goCategory(it.Value())] = true
			if rvNil(it.Key()) || rvNil(it.Value()) {
				if f.nilInside == "" {
					f.nilInside = path + "[..]"
				}
				continue
			}
			f.walk(it.Key(), lv+1, path+"<key>")
			f.walk(it.Value(), lv+1, path+"[..]")
		}
		delete(kc, "nil")
		delete(vc, "nil")
		if (len(kc) > 1 || len(vc) > 1) && f.mixed == "" {
			f.mixed = path
		}
	case reflect.Struct:
		for i := 0; i < rv.NumField(); i++ {
			ft := rv.Type().Field(i)
			fv := rv.Field(i)
			if rvNil(fv) {
				if _, mb := parseTagRef(ft); !mb && f.untaggedNil == "" {
					f.untaggedNil = path + "." + ft.Name
				}
				continue
			}
			f.walk(fv, lv+1, path+"."+ft.Name)
		}
	case reflect.Chan, reflect.Func, reflect.Complex64, reflect.Complex128, reflect.Uintptr, reflect.UnsafePointer:
		if f.unsupported == "" {
			f.unsupported = path + " (" + rv.Kind().String() + ")"
		}
	}
}

func factsOf(rv reflect.Value) *goFacts {
	f := &goFacts{}
	if rv.IsValid() && !rvNil(rv) {
		f.walk(rv, 0, "v")
	}
	return f
}

func typeHasIface(rt reflect.Type) bool {
	if rt == timeT {
		return false
	}
	switch rt.Kind() {
	case reflect.Interface:
		return true
	case reflect.Ptr, reflect.Slice, reflect.Array:
		return typeHasIface(rt.Elem())
	case reflect.Map:
		return typeHasIface(rt.Key()) || typeHasIface(rt.Elem())
	case reflect.Struct:
		for i := 0; i < rt.NumField(); i++ {
			if typeHasIface(rt.Field(i).Type) {
				return true
			}
		}
	}
	return false
}

func sameNum(a, b float64) bool { return a == b || (math.IsNaN(a) && math.IsNaN(b)) }

// contentEq walks the host value and the converted value side by side ("" = equal contents).
func contentEq(rv reflect.Value, v *val.Val, path string) string {
	for rv.Kind() == reflect.Ptr || rv.Kind() == reflect.Interface {
		if rv.IsNil() {
			return path + ": nil host value was converted"
		}
		rv = rv.Elem()
	}
	if v == nil || v.Type == nil {
		return path + ": nil value"
	}
	k := v.Type.Kind
	bad := func(want string) string {
		return fmt.Sprintf("%s: host %s converted to a value of type %s", path, want, v.Type)
	}
	if rv.Type() == timeT {
		if k != types.KTime {
			return bad("time")
		}
		if t := readTime(rv); !t.Equal(v.Time().V) {
			return fmt.Sprintf("%s: instant %s became %s", path, t, v.Time().V)
		}
		return ""
	}
	switch rv.Kind() {
	case reflect.Bool:
		if k != types.KBool {
			return bad("bool")
		}
		if rv.Bool() != v.Bool().V {
			return path + ": bool differs"
		}
	case reflect.Int, reflect.Int8, reflect.Int16, reflect.Int32, reflect.Int64:
		if k != types.KNum {
			return bad("integer")
		}
		if float64(rv.Int()) != v.Num().V {
			return fmt.Sprintf("%s: %d became %v", path, rv.Int(), v.Num().V)
		}
	case reflect.Uint, reflect.Uint8, reflect.Uint16, reflect.Uint32, reflect.Uint64:
		if k != types.KNum {
			return bad("unsigned integer")
		}
		if float64(rv.Uint()) != v.Num().V {
			return fmt.Sprintf("%s: %d became %v", path, rv.Uint(), v.Num().V)
		}
	case reflect.Float32, reflect.Float64:
		if k != types.KNum {
			return bad("float")
		}
		if !sameNum(rv.Float(), v.Num().V) {
			return fmt.Sprintf("%s: %v became %v", path, rv.Float(), v.Num().V)
		}
	case reflect.String:
		if k != types.KStr {
			return bad("string")
		}
		if rv.String() != v.Str().V {
			return path + ": string differs"
		}
	case reflect.Slice, reflect.Array:
		if k != types.KList {
			return bad("sequence")
		}
		if rv.Len() != len(v.List().V) {
			return fmt.Sprintf("%s: %d elements became %d", path, rv.Len(), len(v.List().V))
		}
		for i := 0; i < rv.Len(); i++ {
			if r := contentEq(rv.Index(i), v.List().V[i], fmt.Sprintf("%s[%d]", path, i)); r != "" {
				return r
			}
		}
	case reflect.Map:
		if k != types.KMap {
			return bad("map")
		}
		// host keys that convert to the same yae key (numbers as doubles: 2^53 and 2^53+1, int 1
		// and float 1.0 under interface keys, pointers to equal values) are one entry; the
		// stored value must be the content of one of them.
		groups := map[val.Key][]reflect.Value{}
		var order []val.Key
		it := rv.MapRange()
		for it.Next() {
			kv := hostKey(it.Key())
			if kv == nil {
				return path + ": host key has no primitive counterpart"
			}
			kk := kv.Key()
			if _, ok := groups[kk]; !ok {
				order = append(order, kk)
			}
			groups[kk] = append(groups[kk], it.Value())
		}
		if len(groups) != len(v.Map().V) {
			return fmt.Sprintf("%s: map with %d distinct converted keys became a map with %d entries", path, len(groups), len(v.Map().V))
		}
		for _, kk := range order {
			got, ok := v.Map().V[kk]
			if !ok {
				return fmt.Sprintf("%s: key %s is missing", path, kk)
			}
			first := ""
			matched := false
			for _, hv := range groups[kk] {
				r := contentEq(hv, got, path+"["+kk.String()+"]")
				if r == "" {
					matched = true
					break
				}
				if first == "" {
					first = r
				}
			}
			if !matched {
				return first
			}
		}
	case reflect.Struct:
		if k != types.KObj {
			return bad("struct")
		}
		if rv.NumField() != len(v.Obj().V) || rv.NumField() != len(v.Type.Obj().Fields) {
			return fmt.Sprintf("%s: %d fields became %d", path, rv.NumField(), len(v.Obj().V))
		}
		for i := 0; i < rv.NumField(); i++ {
			ft := rv.Type().Field(i)
			name, mb := parseTagRef(ft)
			got, ok := v.Obj().Get(name)
			if !ok {
				return fmt.Sprintf("%s: no field named %q (Go field %s, tag %q)", path, name, ft.Name, ft.Tag)
			}
			fv := rv.Field(i)
			p := path + "." + name
			if rvNil(fv) {
				if got == nil || got.Type == nil || got.Type.Kind != types.KMaybe || got.Maybe().V != nil {
					return p + ": nil field is not Nothing"
				}
				continue
			}
			if mb {
				if got == nil || got.Type == nil || got.Type.Kind != types.KMaybe || got.Maybe().V == nil {
					return p + ": non-nil optional field is not Just"
				}
				got = got.Maybe().V
			}
			if r := contentEq(fv, got, p); r != "" {
				return r
			}
		}
	default:
		return path + ": unsupported kind was converted"
	}
	return ""
}

// hostKey: the primitive value a host map key stands for.
func hostKey(rv reflect.Value) *val.Val {
	for rv.Kind() == reflect.Ptr || rv.Kind() == reflect.Interface {
		if rv.IsNil() {
			return nil
		}
		rv = rv.Elem()
	}
	if rv.Type() == timeT {
		return val.Time(readTime(rv))
	}
	switch rv.Kind() {
	case reflect.Bool:
		return val.Bool(rv.Bool())
	case reflect.Int, reflect.Int8, reflect.Int16, reflect.Int32, reflect.Int64:
		return val.Num(float64(rv.Int()))
	case reflect.Uint, reflect.Uint8, reflect.Uint16, reflect.Uint32, reflect.Uint64:
		return val.Num(float64(rv.Uint()))
	case reflect.Float32, reflect.Float64:
		return val.Num(rv.Float())
	case reflect.String:
		return val.Str(rv.String())
	}
	return nil
}

// ---------------------------------------------------------------------------------------
// cases

const amongRuns = 5
const amongCap = 150

// convCases builds the protocol cases and runs the oracles for one host value.
// x is what is handed to conv (x == nil: the untyped nil); rv the same value for reflect walks.
func convCases(x interface{}, tags []string, envOps bool) []Case {
	if guardBegin("conv " + humanGo(reflect.ValueOf(x))) {
		return []Case{crashCase("conv " + humanGo(reflect.ValueOf(x)))}
	}
	defer guardEnd()
	rv := reflect.ValueOf(x)
	human := humanGo(rv)
	g := encGoVal(rv)
	oc := orderCount(rv)
	facts := factsOf(rv)
	var out []Case
	ops := []string{"type", "val"}
	if envOps {
		ops = append(ops, "tenv", "venv")
	}
	var tyOut, vlOut, teOut, veOut convOut
	for _, op := range ops {
		c := Case{Human: op + " " + human, Tags: append([]string{"op:" + op}, tags...), Nontriv: true}
		first := runConvOp(op, x)
		if op == "type" {
			tyOut = first
		}
		if op == "val" {
			vlOut = first
		}
		if op == "tenv" {
			teOut = first
		}
		if op == "venv" {
			veOut = first
		}
		cls := "ok"
		if first.failed {
			cls = strings.TrimSuffix(strings.TrimPrefix(strings.TrimPrefix(first.line, "(err "), "("), ")")
			if strings.HasPrefix(cls, "unknown:") {
				cls = "unknown"
			}
		}
		c.Tags = append(c.Tags, op+":"+cls)
		if first.panic != "" {
			c.Oracle = fmt.Sprintf("conv.%s panics: %s", map[string]string{"type": "TypeOf", "val": "ValOf", "tenv": "TypeEnvOf", "venv": "ValEnvOf"}[op], first.panic)
			c.OracleID = "conv-panic"
		}
		switch {
		case oc == 1:
			c.Req = sxList("conv."+op, g)
			c.Want = first.line
		case oc <= amongCap:
			seen := map[string]bool{first.line: true}
			for i := 1; i < amongRuns; i++ {
				seen[runConvOp(op, x).line] = true
			}
			obs := []string{}
			for s := range seen {
				obs = append(obs, s)
			}
			sort.Strings(obs)
			c.Req = sxList("conv.among", op, g, sxList(obs...))
			c.Want = "(ok)"
			c.Tags = append(c.Tags, "map-order:among")
			if len(obs) > 1 {
				c.Tags = append(c.Tags, "map-order:answer-varies")
			}
		default:
			c.Want = first.line
			c.Tags = append(c.Tags, "map-order:too-many")
		}
		out = append(out, c)
	}

	// implementation-side oracles of C15 on this value
	add := func(id, what string) {
		out = append(out, Case{Human: human, Want: "oracle", Oracle: what, OracleID: id, Tags: []string{"oracle:" + id}})
	}
	if vlOut.panic == "" && !vlOut.failed {
		v := vlOut.vl
		wf := safely(func() string { return wfVal(v, nil, "v") })
		if wf != "" {
			add("conv-wf", "ValOf yields an ill-formed value: "+wf)
		} else {
			if tyOut.panic == "" && !tyOut.failed {
				if !sameTy(tyOut.ty, v.Type) || !types.Equals(tyOut.ty, v.Type) {
					add("conv-type-disagrees", fmt.Sprintf("TypeOf says %s, ValOf yields a value of type %s", tyOut.ty, v.Type))
				}
			} else if tyOut.failed && tyOut.panic == "" {
				add("conv-type-disagrees", fmt.Sprintf("ValOf succeeds (%s) but TypeOf fails: %s", v.Type, tyOut.msg))
			}
			if r := safely(func() string { return contentEq(rv, v, "v") }); r != "" {
				add("conv-content", r)
			}
		}
		// data that must be refused
		switch {
		case isNilTop(x):
			add("conv-error-missing", "nil at top level was converted")
		case facts.unsupported != "":
			add("conv-error-missing", "unsupported kind at "+facts.unsupported+" was converted")
		case facts.mixed != "":
			add("conv-error-missing", "mixed-type interface data at "+facts.mixed+" was converted")
		case facts.maxLevel > conv.MaxLevelHook:
			add("conv-error-missing", fmt.Sprintf("nesting %d beyond the limit %d was converted", facts.maxLevel, conv.MaxLevelHook))
		}
	}
	// the two environments of ONE host value agree name by name: the type environment says, for
	// every name, the type of the value the value environment binds (a nil field is `maybe[T]` in
	// both, a non-nil one `T` in both)
	if envOps && teOut.tenv != nil && veOut.venv != nil && !teOut.failed && !veOut.failed {
		if bad := envsAgree(teOut.tenv, veOut.venv); bad != "" {
			add("conv-type-disagrees", bad)
		}
	}
	if isNilTop(x) && x == nil && tyOut.panic == "" && !tyOut.failed {
		add("conv-error-missing", "TypeOf(nil) succeeded")
	}
	return out
}

// envsAgree: every name of the type environment is bound, in the value environment of the same
// host value, to a value of exactly that type ("" = they agree)
func envsAgree(tenv *types.Env, venv *val.Env) string {
	return safely(func() string {
		msg := ""
		tenv.ForEach(func(name string, ty *types.Type) {
			if msg != "" {
				return
			}
			v, ok := venv.Get(name)
			switch {
			case !ok:
				msg = fmt.Sprintf("TypeEnvOf declares %s : %s, ValEnvOf does not bind it", name, ty)
			case !sameTy(ty, v.Type) || !types.Equals(ty, v.Type):
				msg = fmt.Sprintf("TypeEnvOf declares %s : %s, ValEnvOf binds a value of type %s", name, ty, v.Type)
			}
		})
		return msg
	})
}

// envHistoryCase: the same Go struct type as environment several times in a row with different
// contents (nil-able fields filled, then nil, then filled again): each time the two environments
// of the value at hand must agree — nothing may be remembered from an earlier value of that type.
func envHistoryCase(vs []reflect.Value) []Case {
	var out []Case
	for i, v := range vs {
		if v.Kind() != reflect.Struct {
			return out
		}
		x := v.Interface()
		human := fmt.Sprintf("env history #%d %s", i, humanGo(v))
		c := Case{Human: human, Want: "agree", Tags: []string{"stability:env-history"}}
		func() {
			defer func() {
				if r := recover(); r != nil {
					c.OracleID, c.Oracle = "conv-panic", fmt.Sprintf("environment conversion panics: %v", r)
				}
			}()
			te, err1 := conv.TypeEnvOf(x)
			ve, err2 := conv.ValEnvOf(x)
			switch {
			case err1 != nil && err2 == nil:
				// (the converse is by design: TypeEnvOf falls back to the static type of data
				// that ValEnvOf refuses, e.g. a nil inside an array)
				c.OracleID, c.Oracle = "conv-type-disagrees", fmt.Sprintf("ValEnvOf succeeds but TypeEnvOf fails: %v", err1)
			case err1 == nil && err2 == nil:
				if bad := envsAgree(te, ve); bad != "" {
					c.OracleID, c.Oracle = "conv-type-disagrees", bad
				}
			}
		}()
		out = append(out, c)
		// the converted value of every step is well formed on its own (a component typed by an
		// earlier conversion of the same Go type is not)
		w := Case{Human: human + " (value)", Want: "wf", Tags: []string{"stability:env-history-wf"}}
		func() {
			defer func() {
				if r := recover(); r != nil {
					w.OracleID, w.Oracle = "conv-panic", fmt.Sprintf("conversion panics: %v", r)
				}
			}()
			if vl, err := conv.ValOf(x); err == nil {
				if wf := safely(func() string { return wfVal(vl, nil, "v") }); wf != "" {
					w.OracleID, w.Oracle = "conv-wf", "ValOf yields an ill-formed value: "+wf
				}
			}
		}()
		out = append(out, w)
	}
	return out
}

// stabilityCases: two (three) values of one static type without interface parts.
func stabilityCases(r *rand.Rand) []Case {
	g := &cvGen{r: r, clean: true}
	var rt reflect.Type
	for {
		rt = g.typ(3)
		k := rt.Kind()
		if k == reflect.Struct || k == reflect.Slice || k == reflect.Map || k == reflect.Ptr || g.chance(4) {
			break
		}
	}
	static, err := conv.TypeOf(reflect.Zero(reflect.PtrTo(rt)).Interface())
	if err != nil {
		return []Case{{Human: rt.String(), Want: "static-type-error", Tags: []string{"stability:static-type-error:" + classifyConvErr(err.Error(), false)}}}
	}
	v1, v2 := g.value(rt, 3), g.value(rt, 3)
	g3 := &cvGen{r: r, clean: true, fieldNil: true}
	v3 := g3.value(rt, 3)
	var out []Case
	check := func(v reflect.Value, label string) *types.Type {
		t, err := safeTypeOf(v.Interface())
		human := label + " " + humanGo(v)
		if err != "" {
			out = append(out, Case{Human: human, Want: "oracle", Tags: []string{"oracle:conv-unstable-type"},
				OracleID: "conv-unstable-type", Oracle: "TypeOf fails on a clean value: " + err})
			return nil
		}
		return t
	}
	out = append(out, envHistoryCase([]reflect.Value{v1, v3, v2, v3})...)
	t1, t2 := check(v1, "sample1"), check(v2, "sample2")
	c := Case{Human: "stable " + rt.String(), Want: "stable", Tags: []string{"stability:checked"}}
	if t1 != nil && t2 != nil {
		switch {
		case !sameTy(t1, t2) || !types.Equals(t1, t2):
			c.OracleID, c.Oracle = "conv-unstable-type", fmt.Sprintf("two values of %s get the types %s and %s (%s / %s)", rt, t1, t2, descGo(v1), descGo(v2))
		case !sameTy(t1, static):
			c.OracleID, c.Oracle = "conv-unstable-type", fmt.Sprintf("a value of %s gets the type %s, the static type is %s (%s)", rt, t1, static, descGo(v1))
		}
	}
	out = append(out, c)
	// the same type with nil in nil-able fields that are NOT declared optional: outside the
	// precondition of the property, reported separately.
	f3 := factsOf(v3)
	if t3, err := safeTypeOf(v3.Interface()); err == "" && f3.untaggedNil != "" {
		c3 := Case{Human: "untagged-nil " + humanGo(v3), Want: "checked", Tags: []string{"stability:untagged-nil"}}
		if !sameTy(t3, static) {
			c3.OracleID = "conv-nil-untagged"
			c3.Oracle = fmt.Sprintf("nil in the untagged field %s: the value gets the type %s, other values of %s get %s", f3.untaggedNil, t3, rt, static)
		}
		out = append(out, c3)
	}
	return out
}

func safeTypeOf(x interface{}) (t *types.Type, msg string) {
	defer func() {
		if r := recover(); r != nil {
			msg = "panic: " + fmt.Sprint(r)
		}
	}()
	t, err := conv.TypeOf(x)
	if err != nil {
		return nil, err.Error()
	}
	return t, ""
}

// ---------------------------------------------------------------------------------------
// fixed families

func chainType(kind string, d int, leaf reflect.Type) reflect.Type {
	t := leaf
	for i := 0; i < d; i++ {
		switch kind {
		case "slice":
			t = reflect.SliceOf(t)
		case "array":
			t = reflect.ArrayOf(1, t)
		case "ptrslice":
			t = reflect.SliceOf(reflect.PtrTo(t))
		case "map":
			t = reflect.MapOf(reflect.TypeOf(""), t)
		case "struct":
			t = reflect.StructOf([]reflect.StructField{{Name: "N", Type: reflect.PtrTo(t), Tag: `yae:"n"`}})
		case "ptr":
			t = reflect.PtrTo(t)
		}
	}
	return t
}

// chainValue fills a chain type down to `stop` levels (then leaves the zero value: empty / nil).
func chainValue(rt reflect.Type, stop int) reflect.Value {
	v := reflect.New(rt).Elem()
	cur := v
	for lv := 0; ; {
		for cur.Kind() == reflect.Ptr {
			p := reflect.New(cur.Type().Elem())
			cur.Set(p)
			cur = p.Elem()
		}
		if lv >= stop {
			break
		}
		switch cur.Kind() {
		case reflect.Slice:
			s := reflect.MakeSlice(cur.Type(), 1, 1)
			cur.Set(s)
			cur = s.Index(0)
		case reflect.Array:
			cur = cur.Index(0)
		case reflect.Map:
			// map elements are not addressable: build bottom-up instead
			inner := chainValue(cur.Type().Elem(), stop-lv-1)
			m := reflect.MakeMap(cur.Type())
			m.SetMapIndex(reflect.ValueOf("k"), inner)
			cur.Set(m)
			return v
		case reflect.Struct:
			cur = cur.Field(0)
		case reflect.Interface:
			return v
		default:
			cur.Set(reflect.ValueOf(7).Convert(cur.Type()))
			return v
		}
		lv++
	}
	return v
}

// ifaceChain: []interface{}{[]interface{}{ … 7 }} of depth d.
func ifaceChain(d int) interface{} {
	var x interface{} = 7
	for i := 0; i < d; i++ {
		x = []interface{}{x}
	}
	return x
}

func depthCases() []Case {
	var out []Case
	intT := reflect.TypeOf(0)
	for _, kind := range []string{"slice", "array", "ptrslice", "map", "struct"} {
		for d := 98; d <= 103; d++ {
			rt := chainType(kind, d, intT)
			tag := []string{fmt.Sprintf("depth:%s:%d", kind, d)}
			full := chainValue(rt, d)
			out = append(out, convCases(full.Interface(), append(tag, "depth:full"), kind == "struct" || kind == "map")...)
			if kind != "array" {
				part := chainValue(rt, d-3)
				out = append(out, convCases(part.Interface(), append(tag, "depth:empty-tail"), false)...)
			}
			out = append(out, convCases(reflect.Zero(reflect.PtrTo(rt)).Interface(), append(tag, "depth:typed-nil"), false)...)
		}
	}
	for d := 98; d <= 103; d++ {
		out = append(out, convCases(ifaceChain(d), []string{fmt.Sprintf("depth:iface:%d", d)}, false)...)
	}
	// pointers do not count towards the nesting level; their own number is bounded by the same
	// limit (more than maxLevel+1 unwrapping steps is a depth error: outside the model, which
	// has no hop counter, so the long chain runs the oracles only)
	rt := chainType("ptr", 100, intT)
	out = append(out, convCases(chainValue(rt, 0).Interface(), []string{"depth:ptr:100"}, true)...)
	out = append(out, opaqueCases(chainValue(chainType("ptr", 150, intT), 0).Interface())...)
	return out
}

type recNode struct {
	Next *recNode `yae:"next,maybe"`
	V    int
}

type recTree struct {
	L, R *recTree
}

type namedStr string
type namedTime time.Time

func fixedConvCases() []Case {
	var out []Case
	add := func(tag string, env bool, xs ...interface{}) {
		for _, x := range xs {
			out = append(out, convCases(x, []string{"fixed:" + tag}, env)...)
		}
	}
	var np *int
	var nps *struct{ A int }
	var nm map[string]int
	var ns []int
	var ni interface{}
	var nc chan int
	var nf func()
	i42 := 42
	pi := &i42
	f314 := 3.14
	i42b := 42
	nan1, nan2 := math.NaN(), math.NaN()
	pf := &f314
	add("nil", true, nil, np, &np, nps, &nps, nm, &nm, ns, &ns, &ni, nc, nf, &nc)
	add("readme", true,
		42, &i42, &pi, []interface{}{}, []int{1}, []interface{}{1}, []interface{}{42, 3.14}, []interface{}{&i42, &pf},
		[]interface{}{42, 3.14, ""}, []interface{}{nil}, map[string]interface{}{}, map[string]int{},
		map[string]interface{}{"a": 1}, map[int]interface{}{1: 1}, map[int64]interface{}{2: "2"},
		struct {
			Id   int64  `yae:"id,omitempty"`
			Name string `yae:"name"`
		}{42, "晓"},
		&struct {
			Nested *struct{ A int } `yae:",Maybe"`
		}{},
		&struct{ Nested *struct{ A int } }{},
		&struct{ Nested *struct{ A int } }{Nested: &struct{ A int }{42}},
	)
	add("unsupported", true, make(chan int), func() {}, complex(1, 2), uintptr(3), []complex128{1}, struct{ C chan int }{}, struct{ C chan int }{make(chan int)},
		map[string]func(){"f": nil}, [2]uintptr{}, struct{ I interface{} }{}, struct{ I interface{} }{1}, []interface{}{np}, []*int{nil}, []interface{}{ni})
	add("numbers", false, int64(9007199254740993), int64(-9007199254740993), int64(math.MaxInt64), int64(math.MinInt64), uint64(math.MaxUint64),
		uint64(math.MaxUint64-1024), uint64(1<<63+1025), uint64(1<<63+1024), uint64(1<<63+3072), float32(0.1), float32(math.MaxFloat32), math.NaN(), math.Inf(-1), math.Copysign(0, -1),
		int8(-128), uint8(255), int16(-32768), uint16(65535), int32(math.MinInt32), uint32(math.MaxUint32), uint(math.MaxUint64), int(math.MinInt64))
	add("keys", false, map[int64]string{1 << 53: "a"}, map[[2]int]string{{1, 2}: "a"}, map[[0]int]string{}, map[*int]string{pi: "a"}, map[struct{ K int }]int{{1}: 1},
		map[struct{ K int }]int{}, map[interface{}]int{1: 1}, map[interface{}]int{"a": 1}, map[float64]int{math.NaN(): 1}, map[float64]int{math.Inf(1): 1}, map[float64]int{0.5: 1},
		map[bool]int{true: 1}, map[time.Time]int{time.Unix(0, 0).In(goZones[1]): 1}, map[string]int{"a\"b\n": 1}, map[uint64]int{math.MaxUint64: 1}, map[float32]int{0.1: 1},
		map[interface{}]int{math.NaN(): 1}, map[[1]float64]int{{math.NaN()}: 1}, map[namedStr]int{"x": 1})
	add("collide", false, map[int64]string{1 << 53: "a", 1<<53 + 1: "b"}, map[uint64]int{math.MaxUint64: 1, math.MaxUint64 - 1: 2, 7: 3},
		map[interface{}]int{1: 1, 1.0: 2, int8(1): 3}, map[interface{}]string{uint8(2): "a", float32(2): "b"}, map[*int]int{pi: 1, &i42b: 2},
		map[float64]int{nan1: 1, nan2: 2}, map[float64]int{0.5: 1, nan1: 2}, map[interface{}]int{int64(1 << 62): 1, float64(1 << 62): 2},
		map[time.Time]int{time.Unix(9, 0).UTC(): 1, time.Unix(9, 0).In(goZones[1]): 2})
	add("order", true,
		map[string]interface{}{"a": struct {
			X int
			Y string
		}{1, "s"}, "b": struct {
			Y string
			X int
		}{"t", 2}},
		map[string]interface{}{"a": 1, "b": "s", "c": nil}, map[string]interface{}{"a": 1, "b": nil, "c": make(chan int)},
		[]interface{}{map[string]interface{}{"a": 1, "b": "x"}, map[string]interface{}{"p": []interface{}{nil}, "q": 2}},
		map[interface{}]interface{}{"a": 1, 2: 2}, map[string][]interface{}{"a": {1, "x"}, "b": {nil}},
		struct {
			M map[string]interface{} `yae:"m"`
		}{map[string]interface{}{"k": 1, "l": 2.5, "m": int8(3)}})
	add("env", true, map[string]interface{}{"a": nil}, map[string]*int{"a": nil}, map[string]*int{"a": pi}, map[namedStr]int{"x": 1}, &map[string]int{"x": 1},
		map[string]interface{}{"a": []interface{}{}}, map[string]interface{}{"a": make(chan int)}, map[int]int{1: 1},
		struct {
			A int `yae:"x"`
			B int `yae:"x"`
		}{}, struct{}{}, &struct{}{}, struct {
			a int
			t time.Time
		}{1, time.Unix(5, 0).UTC()}, struct{ T time.Time }{time.Unix(5, 0).UTC()})
	// recursive and named types have no finite / no faithful wire form: oracles only
	n := &recNode{V: 1}
	n.Next = &recNode{V: 2, Next: n}
	for _, x := range []interface{}{n, recNode{}, &recTree{}, recTree{L: &recTree{}}, namedTime(time.Unix(1, 0))} {
		out = append(out, opaqueCases(x)...)
	}
	return out
}

// opaqueCases: only the panic / well-formedness oracles (the value is not walked).
func opaqueCases(x interface{}) []Case {
	human := fmt.Sprintf("%T (recursive or named type)", x)
	var out []Case
	for _, op := range []string{"type", "val", "tenv", "venv"} {
		o := runConvOp(op, x)
		c := Case{Human: op + " " + human, Want: strings.SplitN(o.line, " ", 2)[0], Tags: []string{"fixed:recursive-or-named", "op:" + op}}
		if o.panic != "" {
			c.OracleID, c.Oracle = "conv-panic", "conv panics: "+o.panic
		} else if op == "val" && !o.failed {
			if wf := safely(func() string { return wfVal(o.vl, nil, "v") }); wf != "" {
				c.OracleID, c.Oracle = "conv-wf", wf
			}
		}
		out = append(out, c)
	}
	return out
}

// sharedPointerCases: ONE non-nil pointer reachable twice (a DAG, not a cycle): the converted value
// is what it is when the two occurrences are distinct pointers to equal data.
func sharedPointerCases() []Case {
	type inner struct {
		A int    `yae:"a"`
		B string `yae:"b"`
	}
	type transfer struct {
		From *inner `yae:"from"`
		To   *inner `yae:"to"`
		N    *int   `yae:"n"`
		M    *int   `yae:"m"`
	}
	type wrap struct {
		Xs []*inner          `yae:"xs"`
		Ms map[string]*inner `yae:"ms"`
		P  **int             `yae:"p"`
		Q  **int             `yae:"q"`
	}
	n := 7
	pn := &n
	in := &inner{1, "x"}
	tm := time.Date(2020, 1, 2, 3, 4, 5, 0, time.UTC)
	var out []Case
	for _, x := range []interface{}{
		[]*int{pn, pn}, []*int{pn, pn, pn}, []interface{}{pn, pn}, []interface{}{in, in, 1},
		map[string]*int{"a": pn, "b": pn}, map[string]interface{}{"a": in, "b": in},
		transfer{in, in, pn, pn}, &transfer{in, in, pn, pn}, []transfer{{in, in, pn, pn}, {in, in, pn, pn}},
		wrap{[]*inner{in, in}, map[string]*inner{"k": in, "j": in}, &pn, &pn},
		[]*time.Time{&tm, &tm}, [][]*int{{pn}, {pn}}, [2]*inner{in, in},
		struct {
			A *inner `yae:"a"`
			B []*inner
		}{in, []*inner{in}},
	} {
		out = append(out, convCases(x, []string{"fixed:shared-pointer"}, envish(reflect.TypeOf(x)))...)
	}
	return out
}

func genConvCases(r *rand.Rand, n int, thorough bool) []Case {
	out := fixedConvCases()
	out = append(out, depthCases()...)
	out = append(out, sharedPointerCases()...)
	for i := 0; i < n; i++ {
		switch r.Intn(10) {
		case 0, 1:
			out = append(out, stabilityCases(r)...)
		case 4: // interface-typed collections holding one or several dynamic types
			x := ifaceCollection(r)
			out = append(out, convCases(x, []string{"gen:iface-collection"}, r.Intn(4) == 0)...)
		case 2, 3: // clean data: every nil-able part non-nil or optional, no interfaces
			g := &cvGen{r: r, clean: true, unexp: r.Intn(4) == 0}
			rt := g.typ(3)
			out = append(out, convCases(g.value(rt, 3).Interface(), []string{"gen:clean"}, envish(rt) || r.Intn(8) == 0)...)
		default:
			g := &cvGen{r: r, iface: true, unsup: r.Intn(3) == 0, unexp: r.Intn(3) == 0, oddTags: r.Intn(2) == 0}
			rt := g.typ(3)
			if r.Intn(6) == 0 {
				// environment-shaped: string-keyed map or struct, possibly behind pointers
				if r.Intn(2) == 0 {
					rt = reflect.MapOf(reflect.TypeOf(""), g.typ(2))
				} else {
					rt = g.structType(3)
				}
				for r.Intn(3) == 0 {
					rt = reflect.PtrTo(rt)
				}
			}
			v := g.value(rt, 3)
			var x interface{}
			if v.Kind() == reflect.Interface {
				if !v.IsNil() {
					x = v.Elem().Interface()
				}
			} else {
				x = v.Interface()
			}
			tags := []string{"gen:any"}
			if typeHasIface(rt) {
				tags = append(tags, "gen:iface-parts")
			}
			out = append(out, convCases(x, tags, envish(rt) || r.Intn(8) == 0)...)
		}
	}
	return out
}

func envish(rt reflect.Type) bool {
	for rt.Kind() == reflect.Ptr {
		rt = rt.Elem()
	}
	return rt != timeT && (rt.Kind() == reflect.Struct || rt.Kind() == reflect.Map)
}

// ifaceCollection: []interface{} / map[...]interface{} / map[interface{}]... whose elements are
// drawn from a small family of dynamic values, so that equal, equal-up-to-field-order and
// different element types all occur.
func ifaceCollection(r *rand.Rand) interface{} {
	i, f := 7, 2.5
	var nilp *int
	fam := []interface{}{
		1, int8(2), uint64(math.MaxUint64), 2.5, float32(0.1), &i, &f, "s", "", true, time.Unix(3, 0).UTC(), time.Unix(4, 5).In(goZones[2]),
		[]int{1}, []int{}, []float64{2}, []string{"a"}, []interface{}{1}, []interface{}{"a"}, [1]int8{3}, []interface{}{},
		map[string]int{"a": 1}, map[string]int{}, map[string]float64{"b": 2}, map[int]int{1: 1}, map[string]interface{}{"a": 1},
		struct {
			X int
			Y string
		}{1, "a"},
		struct {
			Y string
			X float64
		}{"b", 2},
		struct {
			X int    `yae:"Y"`
			Y string `yae:"X"`
		}{1, "a"},
		struct {
			X *int
			Y string
		}{&i, "c"},
		struct {
			X *int
			Y string
		}{nil, "c"},
		struct {
			X *int `yae:",maybe"`
			Y string
		}{nil, "c"},
		struct {
			X *int `yae:",maybe"`
			Y string
		}{&i, "c"},
		struct{}{}, nil, nilp, make(chan int), complex(1, 1),
	}
	pick := func() interface{} { return fam[r.Intn(len(fam))] }
	// mostly stay within a neighbourhood so that equal types are likely
	base := r.Intn(len(fam))
	near := func() interface{} {
		if r.Intn(3) == 0 {
			return pick()
		}
		j := base + r.Intn(5) - 2
		if j < 0 || j >= len(fam) {
			j = base
		}
		return fam[j]
	}
	n := 1 + r.Intn(4)
	switch r.Intn(5) {
	case 0, 1:
		xs := []interface{}{}
		for k := 0; k < n; k++ {
			xs = append(xs, near())
		}
		return xs
	case 2:
		m := map[string]interface{}{}
		for k := 0; k < n; k++ {
			m[[]string{"a", "b", "c", "d"}[r.Intn(4)]] = near()
		}
		return m
	case 3:
		m := map[interface{}]interface{}{}
		keys := []interface{}{1, 1.0, int8(1), 2, "a", "b", true, 0.5, uint64(1 << 63), float64(1 << 63), time.Unix(1, 0).UTC(), [1]int{1}, &i}
		for k := 0; k < n; k++ {
			m[keys[r.Intn(len(keys))]] = near()
		}
		return m
	}
	return struct {
		A interface{} `yae:"a"`
		B []interface{}
		C *interface{} `yae:"c,maybe"`
	}{near(), []interface{}{near(), near()}, func() *interface{} { x := near(); return &x }()}
}
