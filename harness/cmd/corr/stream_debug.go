package main

import (
	"fmt"
	"math/rand"
	"regexp"
	"sort"
	"strings"
	"time"
	"unicode/utf8"

	"github.com/goghcrow/yae"
	"github.com/goghcrow/yae/closure"
	"github.com/goghcrow/yae/compiler"
	"github.com/goghcrow/yae/conv"
	"github.com/goghcrow/yae/debug"
	"github.com/goghcrow/yae/fun"
	"github.com/goghcrow/yae/parser/ast"
	"github.com/goghcrow/yae/trans"
	"github.com/goghcrow/yae/types"
	"github.com/goghcrow/yae/val"
)

// Stream `debug` (property C19): closure.DebugCompile + debug.Record + the report renderer
// against lean/Yae/Model/Debug.lean (and the `dbg = true` mode of the reference evaluator),
// with the implementation-side oracles debug-result-differs / debug-record /
// debug-record-shifted / debug-render-firstline / debug-render-missing-value / debug-panic.

func normClass(c string) string {
	if strings.HasPrefix(c, "(stuck") {
		return "(stuck)"
	}
	return c
}

func minInt(a, b int) int {
	if a < b {
		return a
	}
	return b
}

type dbgEntry struct {
	col  int
	text string
}

func encEntries(es []dbgEntry) string {
	xs := []string{"entries"}
	for _, e := range es {
		xs = append(xs, sxList(sxInt(e.col), sxStr(e.text)))
	}
	return sxList(xs...)
}

type dbgOutcome struct {
	class   string // "ok", failure class, "refused" (compilation panicked)
	value   string
	res     *val.Val
	entries []dbgEntry
	report  string
	panics  []string // panics outside evaluation: compiling, exporting, rendering
	rerun   string   // "" or how a second / third evaluation with the SAME record differs
}

// runDebug does what facade Debug does after type checking: DebugCompile, a fresh record in
// env.Dgb, evaluation, rendering.
func runDebug(eng *engine, d ast.Expr, vals map[string]*val.Val, src string) (o dbgOutcome) {
	var cl compiler.Closure
	func() {
		defer func() {
			if r := recover(); r != nil {
				o.class = "refused"
				o.panics = append(o.panics, fmt.Sprintf("DebugCompile panics: %v", r))
			}
		}()
		cl = closure.DebugCompile(d, eng.renv)
	}()
	if o.class == "refused" {
		return
	}
	env1 := val.NewEnv()
	for k, v := range vals {
		env1.Put(k, v)
	}
	rcd := debug.NewRecord()
	env1.Dgb = rcd
	var res *val.Val
	captureStdout(func() {
		defer func() {
			if r := recover(); r != nil {
				o.class = normClass(classifyPanic(r))
			}
		}()
		res = cl(env1.Inherit(eng.renv))
	})
	func() {
		defer func() {
			if r := recover(); r != nil {
				o.panics = append(o.panics, fmt.Sprintf("exporting the record panics: %v", r))
			}
		}()
		for _, e := range rcd.Entries() {
			o.entries = append(o.entries, dbgEntry{e.Col, e.V.String()})
		}
	}()
	func() {
		defer func() {
			if r := recover(); r != nil {
				o.panics = append(o.panics, fmt.Sprintf("Render panics: %v", r))
			}
		}()
		o.report = rcd.Render(src)
	}()
	// the DebugCompile protocol: the wrapper clears the record at the start of every run, so the
	// same closure evaluated again with the SAME record and environment records the same entries
	for round := 2; round <= 3 && o.rerun == ""; round++ {
		func() {
			defer func() {
				if r := recover(); r != nil {
					o.rerun = fmt.Sprintf("evaluation #%d with the same record: the bookkeeping panics: %v", round, r)
				}
			}()
			captureStdout(func() {
				defer func() { recover() }() // a failing evaluation fails again: only the record matters
				cl(env1.Inherit(eng.renv))
			})
			var again []dbgEntry
			for _, e := range rcd.Entries() {
				again = append(again, dbgEntry{e.Col, e.V.String()})
			}
			if showEntries(again) != showEntries(o.entries) {
				o.rerun = fmt.Sprintf("evaluation #%d with the same record recorded %s, the first recorded %s", round, showEntries(again), showEntries(o.entries))
			} else if rep := rcd.Render(src); rep != o.report {
				o.rerun = fmt.Sprintf("evaluation #%d with the same record renders a different report", round)
			}
		}()
	}
	if o.class != "" {
		return
	}
	o.class = "ok"
	o.res = res
	func() {
		defer func() {
			if r := recover(); r != nil {
				o.panics = append(o.panics, fmt.Sprintf("serialising the result panics: %v", r))
				o.value = "bad-val"
			}
		}()
		o.value = encVal(res)
	}()
	return
}

func (o dbgOutcome) line() string {
	if o.class == "ok" {
		return sxList("ok", o.value, encEntries(o.entries), sxStr(o.report))
	}
	return sxList("fail", o.class, encEntries(o.entries), sxStr(o.report))
}

// ---------------------------------------------------------------------------------------
// the independent instrumented walk: which recordable terms (identifier, call, member,
// subscript) are evaluated, in which order, with which value — computed from the plain
// (non-debug) closure of every sub-term.

type dbgWalker struct {
	eng     *engine
	hosts   map[string]hostDecl
	env     *val.Env
	own     []dbgEntry // own column of the term, value
	idents  []dbgEntry // evaluated variables: column, name
	stopped bool
}

func (w *dbgWalker) value(e ast.Expr) (v *val.Val, ok bool) {
	defer func() {
		if r := recover(); r != nil {
			v, ok = nil, false
		}
	}()
	cl := closure.Compile(e, w.eng.renv)
	return cl(w.env), true
}

func (w *dbgWalker) record(e ast.Expr, col int) bool {
	v, ok := w.value(e)
	if !ok {
		return false
	}
	w.own = append(w.own, dbgEntry{col + 1, v.String()})
	return true
}

func (w *dbgWalker) walk(e ast.Expr) bool {
	switch x := e.(type) {
	case *ast.StrExpr, *ast.NumExpr, *ast.TimeExpr, *ast.BoolExpr:
		return true
	case *ast.ListExpr:
		for _, el := range x.Elems {
			if !w.walk(el) {
				return false
			}
		}
		return true
	case *ast.MapExpr:
		for _, p := range x.Pairs {
			if !w.walk(p.Key) || !w.walk(p.Val) {
				return false
			}
		}
		return true
	case *ast.ObjExpr:
		for _, f := range x.Fields {
			if !w.walk(f.Val) {
				return false
			}
		}
		return true
	case *ast.IdentExpr:
		w.idents = append(w.idents, dbgEntry{x.Col, x.Name})
		return w.record(x, x.Col)
	case *ast.MemberExpr:
		return w.walk(x.Obj) && w.record(x, int(x.DBGCol))
	case *ast.SubscriptExpr:
		return w.walk(x.Var) && w.walk(x.Idx) && w.record(x, int(x.DBGCol))
	case *ast.CallExpr:
		var f *val.FunVal
		if x.Resolved == "" {
			if !w.walk(x.Callee) {
				return false
			}
			fv, ok := w.value(x.Callee)
			if !ok {
				return false
			}
			f = fv.Fun()
		} else if x.Index < 0 {
			f = w.eng.renv.MustGetMonoFun(x.Resolved)
		} else {
			f = w.eng.renv.MustGetPolyFuns(x.Resolved)[x.Index]
		}
		if !f.Lazy {
			for _, a := range x.Args {
				if !w.walk(a) {
					return false
				}
			}
			return w.record(x, int(x.DBGCol))
		}
		cond := func(a ast.Expr) (bool, bool) {
			if !w.walk(a) {
				return false, false
			}
			v, ok := w.value(a)
			if !ok {
				return false, false
			}
			return v.Bool().V, true
		}
		switch f {
		case fun.IF_BOOL_ANY_ANY.Fun():
			c, ok := cond(x.Args[0])
			if !ok {
				return false
			}
			br := x.Args[2]
			if c {
				br = x.Args[1]
			}
			if !w.walk(br) {
				return false
			}
		case fun.LOGIC_AND_BOOL_BOOL.Fun():
			c, ok := cond(x.Args[0])
			if !ok {
				return false
			}
			if c && !w.walk(x.Args[1]) {
				return false
			}
		case fun.LOGIC_OR_BOOL_BOOL.Fun():
			c, ok := cond(x.Args[0])
			if !ok {
				return false
			}
			if !c && !w.walk(x.Args[1]) {
				return false
			}
		default:
			h, ok := w.hosts[f.Type.Fun().Name]
			if !ok || !h.Lazy {
				w.stopped = true // a lazy function the walk knows nothing about
				return false
			}
			for _, i := range h.Force {
				if !w.walk(x.Args[i]) {
					return false
				}
			}
		}
		return w.record(x, int(x.DBGCol))
	}
	w.stopped = true
	return false
}

// collide applies the collision rule of Record.Rec to own-column entries.
func collide(own []dbgEntry) (out []dbgEntry, shifted int) {
	taken := map[int]bool{}
	for _, e := range own {
		c := e.col
		for taken[c] {
			c++
		}
		if c != e.col {
			shifted++
		}
		taken[c] = true
		out = append(out, dbgEntry{c, e.text})
	}
	return
}

func showEntries(es []dbgEntry) string {
	xs := []string{}
	for _, e := range es {
		xs = append(xs, fmt.Sprintf("%d:%s", e.col, e.text))
	}
	return "[" + strings.Join(xs, " ") + "]"
}

var reLineBreak = regexp.MustCompile("\r\n|\r|\n")

// missingInReport returns the first entry (col >= 1) whose rendering is not in the report at
// its column, below the source line.
func missingInReport(report string, es []dbgEntry) (dbgEntry, bool) {
	lines := strings.Split(report, "\n")
	for _, e := range es {
		if e.col < 1 {
			continue
		}
		// the report is split on \n only; a value containing \r keeps it inside a line
		parts := reLineBreak.Split(e.text, -1)
		found := false
		for i := 1; i+len(parts) <= len(lines) && !found; i++ {
			ok := true
			for k, p := range parts {
				rs := []rune(lines[i+k])
				ps := []rune(p)
				if e.col-1+len(ps) > len(rs) || string(rs[e.col-1:e.col-1+len(ps)]) != p {
					ok = false
					break
				}
			}
			found = ok
		}
		if !found {
			return e, true
		}
	}
	return dbgEntry{}, false
}

// debugCases: one accepted single-line program → a `debug.run` request plus oracles.
// facade, when non-nil, supplies result and report of the public yae.Debug for the same input.
func debugCases(eng *engine, vars []envVar, vals map[string]*val.Val, src, tag string,
	facade func() (*val.Val, string, error)) []Case {
	if strings.Contains(src, "\n") {
		return nil
	}
	if guardBegin("debug " + src) {
		return []Case{crashCase("debug " + src)}
	}
	defer guardEnd()
	parsed, perr := parseSrc(src)
	if perr != nil {
		return []Case{{Human: "debug " + src, Want: "syntax-error", Tags: []string{"dbg:syntax-error", tag}}}
	}
	d := trans.Desugar(parsed)
	ty, cerr := checkExpr(eng, vars, d)
	if cerr != nil {
		return []Case{{Human: "debug " + src, Want: "rejected", Tags: []string{"dbg:rejected", tag}}}
	}
	var out []Case
	oracle := func(id, what string) {
		out = append(out, Case{Human: "debug " + src, Want: id, Oracle: what, OracleID: id, Tags: []string{"oracle:" + id}})
	}
	normal := runBackend(backends[0], eng, d, vals, ty)
	dbg := runDebug(eng, d, vals, src)
	for _, p := range dbg.panics {
		oracle("debug-panic", p)
	}
	if dbg.class == "refused" {
		return out
	}
	mc := Case{Human: "debug " + src, Tags: []string{tag}, Nontriv: true}
	mc.Req = sxList("debug.run", eng.funsx, encVars(vars, vals), externsFor(d), encExpr(d), sxStr(src))
	mc.Want = dbg.line()
	if dbg.class == "ok" {
		mc.Tags = append(mc.Tags, "dbg:ok")
	} else {
		mc.Tags = append(mc.Tags, "dbg:fail:"+strings.Trim(strings.SplitN(dbg.class, " ", 2)[0], "()"))
	}
	mc.Tags = append(mc.Tags, fmt.Sprintf("dbg:entries:%02d", minInt(len(dbg.entries), 12)))
	multi := false
	for _, e := range dbg.entries {
		if reLineBreak.MatchString(e.text) {
			multi = true
		}
	}
	if multi {
		mc.Tags = append(mc.Tags, "dbg:multiline-value")
	}
	if !utf8.ValidString(src) || strings.ContainsRune(src, utf8.RuneError) {
		mc.Tags = append(mc.Tags, "dbg:non-utf8")
	}

	// same value or failure as normal evaluation
	nclass := normClass(normal.class)
	if nclass != dbg.class || (nclass == "ok" && normal.value != dbg.value) {
		oracle("debug-result-differs", fmt.Sprintf("normal evaluation: %s, debug evaluation: %s", short(normal.line()), short(sxList(dbg.class, dbg.value))))
	}
	// the record
	env1 := val.NewEnv()
	for k, v := range vals {
		env1.Put(k, v)
	}
	hosts := map[string]hostDecl{}
	for _, h := range eng.hosts {
		hosts[h.Name] = h
	}
	w := &dbgWalker{eng: eng, hosts: hosts, env: env1.Inherit(eng.renv)}
	var completed bool
	captureStdout(func() { completed = w.walk(d) })
	if dbg.rerun != "" {
		oracle("debug-record", dbg.rerun)
	}
	if !w.stopped {
		exp, shifted := collide(w.own)
		if showEntries(exp) != showEntries(dbg.entries) {
			oracle("debug-record", fmt.Sprintf("recorded %s, the evaluated terms are %s", showEntries(dbg.entries), showEntries(exp)))
		} else if shifted > 0 {
			mc.Tags = append(mc.Tags, "dbg:shifted")
			oracle("debug-record-shifted", fmt.Sprintf("%d value(s) are attributed to a column that is not the column of their term: own columns %s, recorded %s", shifted, showEntries(w.own), showEntries(dbg.entries)))
		}
		// the column of a variable is where its name stands in the (single-line) source
		runes := []rune(src)
		for _, id := range w.idents {
			n := len([]rune(id.text))
			if id.col < 0 || id.col+n > len(runes) || string(runes[id.col:id.col+n]) != id.text {
				oracle("debug-column-not-at-term", fmt.Sprintf("variable %s is attributed to column %d of %q, where it does not stand", id.text, id.col, src))
				break
			}
		}
		if completed != (dbg.class == "ok") {
			oracle("debug-record", fmt.Sprintf("the walk completes=%v but debug evaluation is %s", completed, dbg.class))
		}
	} else {
		mc.Tags = append(mc.Tags, "dbg:walk-stopped")
	}
	// the report
	first := strings.SplitN(dbg.report, "\n", 2)[0]
	if len(dbg.panics) == 0 {
		if first != src {
			oracle("debug-render-firstline", fmt.Sprintf("first line %q", first))
		}
		if e, missing := missingInReport(dbg.report, dbg.entries); missing {
			oracle("debug-render-missing-value", fmt.Sprintf("value %s recorded at column %d is not shown at that column in\n%s", e.text, e.col, dbg.report))
		}
	}
	if facade != nil {
		var res *val.Val
		var report string
		var err error
		var pan interface{}
		captureStdout(func() {
			defer func() { pan = recover() }()
			res, report, err = facade()
		})
		switch {
		case pan != nil:
			oracle("debug-panic", fmt.Sprintf("yae.Debug panics: %v", pan))
		case err != nil:
			cls := normClass(classifyPanic(err.Error()))
			mc.Want = sxList("fail", cls, encEntries(dbg.entries), sxStr(report))
			if dbg.class == "ok" {
				oracle("debug-result-differs", "yae.Debug fails with "+err.Error()+" where DebugCompile succeeds")
			}
		default:
			v := safely(func() string { return encVal(res) })
			mc.Want = sxList("ok", v, encEntries(dbg.entries), sxStr(report))
		}
		mc.Tags = append(mc.Tags, "dbg:facade")
	}
	return append([]Case{mc}, out...)
}

// ---------------------------------------------------------------------------------------
// environments

var dbgML = tObj(TF{"x\ny", tNum}, TF{"z", tStr})
var dbgMR = tObj(TF{"p\r\nq", tNum}, TF{"r\rs", tStr}, TF{"w", tNum})

var dbgFamily = append(append([]envVar{}, envFamily...),
	envVar{"变量", tNum}, envVar{"é1", tStr}, envVar{"名", tObj(TF{"值", tNum}, TF{"b", tStr})},
	envVar{"ml", dbgML}, envVar{"mr", dbgMR}, envVar{"mls", tList(dbgML)}, envVar{"tz", tTime})

func dbgVals(r *rand.Rand, vars []envVar) map[string]*val.Val {
	m := genVals(r, vars)
	if _, ok := m["tz"]; ok {
		m["tz"] = val.Time(time.Unix(1577934245, 0).In(time.FixedZone("A\nB", 3600)))
	}
	return m
}

var dbgFixed = []string{
	`obj.num + lst[1] > "hello".len()`,
	`n1 + n2`,
	`n1+n2`,
	`s1 + " " + s2`,
	`变量 + n1 * 变量`,
	`é1 + "é" + s1`,
	`名.值 + 名.b.len()`,
	`"中文".len() + 变量`,
	`ml`,
	`ml.z`,
	`ml.z + s1`,
	`[ml, ml][0].z`,
	`mls[0].z`,
	`mr.w + n1`,
	`mr`,
	`string(ml) + string(mr)`,
	`tz`,
	`tz < t1`,
	`string(tz)`,
	`[tz, t1]`,
	`lz2(1, n1 + n2)`,
	`lz2(n1, xs[0])`,
	`lz2(n1,n2)`,
	`lz2(1,n1+n2)+n1`,
	`lz(n1, n2)`,
	`lzb(b1, n1, n2)`,
	`lzb(b1,n1,n2)+lzb(b1,n1,n2)`,
	`pick2(n1, s1)`,
	`pick2(xs, ss)[0]`,
	`if(b1, n1, n2)`,
	`b1 ? n1 : n2`,
	`b1 && n1 > n2`,
	`b1 || n1 > n2`,
	`!b1 || (n1 > n2 && n2 > n1)`,
	`if(n1 > 0, xs[0], xs[100])`,
	`xs[100] + n1`,
	`n1 + xs[100]`,
	`m["nokey"] + n1`,
	`boom(n1) + n2`,
	`n2 + boom(n1)`,
	`tr2(n1, boom(n2))`,
	`1 % 0 + n1`,
	`o.c.x + os[0].a`,
	`o.c.y ? o.a : o.c.x`,
	`[n1, n2, n1]`,
	`{a: n1, b: [s1, s2]}`,
	`["k1": n1, "k2": n2]["k1"]`,
	`get(mb, n1) + get(ms, s1).len()`,
	`xs`,
	`xs == xs`,
	`print(n1) + print(n2)`,
	`cnst() + cnst()`,
	`idp(n1) + idp(s1).len()`,
	`1 + 2`,
	`"no variables"`,
	`n1 +	n2`,
	"n1 +\rn2",
	`   n1`,
	`n1   `,
	`(((n1)))`,
	`-n1`,
	`- - n1`,
	`n1 - -n2`,
	`max(n1, n2) + min(xs)`,
	`n1.max(n2)`,
	`s1.len().max(n1)`,
	`os[0].b + os[1].b`,
	`mo["k1"].a`,
	`om.p`,
	`len(string(os))`,
}

// ---------------------------------------------------------------------------------------
// the public yae.Debug on host values

type dbgInner struct {
	Num  int    `yae:"num"`
	Name string `yae:"name"`
}
type dbgBreaks struct {
	A int    `yae:"x\ny"`
	Z string `yae:"z"`
}
type dbgHost struct {
	A    int            `yae:"a"`
	B    float64        `yae:"b"`
	S    string         `yae:"s"`
	Flag bool           `yae:"flag"`
	Obj  dbgInner       `yae:"obj"`
	Lst  []int          `yae:"lst"`
	Strs []string       `yae:"strs"`
	M    map[string]int `yae:"m"`
	T    time.Time      `yae:"t"`
	U    int            `yae:"变量"`
	ML   dbgBreaks      `yae:"ml"`
	Opt  *int           `yae:"opt,maybe"`
}

var dbgHostVars = []envVar{
	{"a", tNum}, {"b", tNum}, {"s", tStr}, {"flag", tBool},
	{"obj", tObj(TF{"num", tNum}, TF{"name", tStr})}, {"lst", tList(tNum)}, {"strs", tList(tStr)},
	{"m", tMap(tStr, tNum)}, {"t", tTime}, {"变量", tNum}, {"ml", tObj(TF{"x\ny", tNum}, TF{"z", tStr})},
	{"opt", tMaybe(tNum)},
}

var dbgHostFixed = []string{
	`obj.num + lst[1] > "hello".len()`,
	`a + b * 变量`,
	`s + " " + obj.name`,
	`flag ? lst[0] : lst[9]`,
	`flag && lst[9] > 0`,
	`m["k1"] + m["nokey"]`,
	`ml.z + s`,
	`ml`,
	`string(t) + s`,
	`get(opt, a) + a`,
	`strs[0].len() + lst.len()`,
	`[a, b, 变量]`,
	`lst[a]`,
	`1 % 0`,
	`a +`,
	`a + s`,
}

func dbgHosts() []dbgHost {
	one := 1
	return []dbgHost{
		{A: 1, B: 2.5, S: "Hello\nWorld!", Flag: true, Obj: dbgInner{42, "é"}, Lst: []int{1, 2, 3}, Strs: []string{"中文", "b"},
			M: map[string]int{"k1": 1, "k2": 2}, T: time.Unix(1577934245, 0).UTC(), U: 7, ML: dbgBreaks{5, "z"}, Opt: &one},
		{A: 0, B: -0.5, S: "", Flag: false, Obj: dbgInner{0, ""}, Lst: []int{10}, Strs: []string{"x"},
			M: map[string]int{}, T: time.Unix(0, 500000000).UTC(), U: 123456789, ML: dbgBreaks{0, "a\nb"}, Opt: nil},
	}
}

func facadeEnv(host interface{}) (vals map[string]*val.Val, err error) {
	env, err := conv.ValEnvOf(host)
	if err != nil {
		return nil, err
	}
	vals = map[string]*val.Val{}
	env.ForEach(func(name string, v *val.Val) { vals[name] = v })
	return vals, nil
}

// varsOfVals derives the typing environment from the values (facade: conv.TypeEnvOf ≡ types of
// conv.ValEnvOf for fully populated hosts); used for map hosts.
func tOfType(t *types.Type) *T {
	switch t.Kind {
	case types.KNum:
		return tNum
	case types.KStr:
		return tStr
	case types.KBool:
		return tBool
	case types.KTime:
		return tTime
	case types.KList:
		return tList(tOfType(t.List().El))
	case types.KMap:
		return tMap(tOfType(t.Map().Key), tOfType(t.Map().Val))
	case types.KMaybe:
		return tMaybe(tOfType(t.Maybe().Elem))
	case types.KObj:
		fs := []TF{}
		for _, f := range t.Obj().Fields {
			fs = append(fs, TF{f.Name, tOfType(f.Val)})
		}
		return tObj(fs...)
	case types.KBot:
		return tBot
	}
	panic("tOfType " + t.String())
}

func varsOfVals(vals map[string]*val.Val) []envVar {
	names := []string{}
	for k := range vals {
		names = append(names, k)
	}
	sort.Strings(names)
	vs := []envVar{}
	for _, k := range names {
		vs = append(vs, envVar{k, tOfType(vals[k].Type)})
	}
	return vs
}

// ---------------------------------------------------------------------------------------
// the record and the renderer alone

var dbgTextPool = []string{"a", "é", "中文", "😀", "x\ny", "p\r\nq", "r\rs", "\n", "", "long field name here", "k\n\nm", "  ", "|"}

func recRenderCases(r *rand.Rand) []Case {
	n := r.Intn(8)
	srcs := []string{"n1 + n2", "", "变量 + é1 * (x - y) / 3", "a.b.c[0](1,2,3) + \"中文\"", "x", "\tx +\ty", "a\rb"}
	src := srcs[r.Intn(len(srcs))]
	rcd := debug.NewRecord()
	calls := []string{}
	human := []string{}
	for i := 0; i < n; i++ {
		col := r.Intn(24) - 2
		if r.Intn(3) == 0 && i > 0 {
			col = r.Intn(4) + 1
		}
		var v *val.Val
		switch r.Intn(5) {
		case 0:
			v = val.Num(hostNumPool[r.Intn(len(hostNumPool))])
		case 1:
			v = val.Str(hostStrPool[r.Intn(len(hostStrPool))])
		case 2:
			v = val.Bool(r.Intn(2) == 0)
		default:
			name := dbgTextPool[r.Intn(len(dbgTextPool))]
			o := val.Obj(types.Obj([]types.Field{{Name: name, Val: types.Num}}).Obj()).Obj()
			o.V[0] = val.Num(float64(r.Intn(100)))
			v = o.Vl()
		}
		rcd.Rec(v, col)
		calls = append(calls, sxList(sxInt(col), sxStr(v.String())))
		human = append(human, fmt.Sprintf("%d:%s", col, v.String()))
	}
	var es []dbgEntry
	for _, e := range rcd.Entries() {
		es = append(es, dbgEntry{e.Col, e.V.String()})
	}
	h := fmt.Sprintf("Rec %s on %q", strings.Join(human, " "), src)
	c1 := Case{Human: "debug.rec " + h, Tags: []string{"rec"}, Nontriv: true}
	c1.Req = sxList("debug.rec", sxList(calls...))
	c1.Want = sxList("ok", encEntries(es))
	out := []Case{c1}
	c2 := Case{Human: "debug.render " + h, Tags: []string{"render"}, Nontriv: true}
	c2.Req = sxList("debug.render", sxStr(src), sxList(calls...))
	report, pan := "", interface{}(nil)
	func() {
		defer func() { pan = recover() }()
		report = rcd.Render(src)
	}()
	if pan != nil {
		c2.Want = "panic"
		c2.Oracle, c2.OracleID = fmt.Sprintf("Render panics: %v", pan), "debug-panic"
		return append(out, c2)
	}
	c2.Want = sxList("ok", sxStr(report))
	out = append(out, c2)
	if first := strings.SplitN(report, "\n", 2)[0]; first != src {
		out = append(out, Case{Human: "debug.render " + h, Oracle: fmt.Sprintf("first line %q", first), OracleID: "debug-render-firstline"})
	}
	if e, missing := missingInReport(report, es); missing {
		out = append(out, Case{Human: "debug.render " + h, OracleID: "debug-render-missing-value",
			Oracle: fmt.Sprintf("value %s recorded at column %d is not shown at that column in\n%s", e.text, e.col, report)})
	}
	return out
}

func init() {
	register(&Stream{
		Name: "debug",
		Rule: "single-line programs: a fixed corpus (power-assert examples, non-ASCII identifiers and strings, values rendering on several lines: objects whose field names contain \\n, \\r\\n, \\r and a time zone name with a line break; lazy host functions forcing a thunk once, twice or never; failing evaluations) and type-directed random programs (depth<=4, as in stream eval) over a 25-variable environment and random host function subsets; each accepted program is run with closure.Compile and with closure.DebugCompile + debug.Record exactly as facade Debug does, the record is exported through the hook and rendered; the public yae.Debug is run on struct hosts for fixed and random programs; plus random Rec call sequences (colliding, non-positive, distant columns; multi-line and wide values) rendered on assorted source lines. Non-trivial = accepted program or record request; distinct = distinct request.",
		Gen: func(r *rand.Rand, n int, thorough bool) []Case {
			var cs []Case
			stats := map[string]int{}
			eng := newEngine(hostZoo)
			vals := dbgVals(r, dbgFamily)
			fixed := append([]string{}, dbgFixed...)
			for _, p := range fixedPrograms {
				if !strings.Contains(p, "\n") {
					fixed = append(fixed, p)
				}
			}
			for _, p := range fixed {
				cs = append(cs, debugCases(eng, dbgFamily, vals, p, "prog:fixed", nil)...)
			}
			cs = append(cs, debugFacadeHistoryCases()...)
			cs = append(cs, debugReentrantCases()...)
			// the public entry point
			feng := newEngine(nil)
			for hi, h := range dbgHosts() {
				h := h
				hv, err := facadeEnv(h)
				if err != nil {
					cs = append(cs, Case{Human: "facade host", Oracle: err.Error(), OracleID: "debug-panic"})
					continue
				}
				progs := append([]string{}, dbgHostFixed...)
				g := &progGen{r: r, vars: dbgHostVars, stats: stats, sugar: true}
				for i := 0; i < n/25; i++ {
					progs = append(progs, g.gen(targetTypes[r.Intn(len(targetTypes))], 1+r.Intn(3)))
				}
				for _, p := range progs {
					p := p
					cs = append(cs, debugCases(feng, dbgHostVars, hv, p, fmt.Sprintf("prog:facade%d", hi), func() (*val.Val, string, error) {
						return yae.Debug(p, h)
					})...)
				}
			}
			// a map host, as in test/powerassert_test.go
			mh := map[string]interface{}{"obj": dbgInner{42, "x"}, "lst": []int{1, 2, 3}, "s1": "Hello\nWorld!", "s2": "123\n456\n789"}
			if hv, err := facadeEnv(mh); err == nil {
				for _, p := range []string{`obj.num + lst[1] > "hello".len()`, `s1 + " " + s2`, `lst[3]`, `obj.name + s1`} {
					p := p
					cs = append(cs, debugCases(feng, varsOfVals(hv), hv, p, "prog:facade-map", func() (*val.Val, string, error) {
						return yae.Debug(p, mh)
					})...)
				}
			}
			for i := 0; i < n; i++ {
				if i%20 == 0 {
					eng = newEngine(pickHosts(r))
					vals = dbgVals(r, dbgFamily)
				}
				g := &progGen{r: r, vars: dbgFamily, hosts: eng.hosts, stats: stats, sugar: true}
				src := g.gen(targetTypes[r.Intn(len(targetTypes))], 1+r.Intn(4))
				cs = append(cs, debugCases(eng, dbgFamily, vals, src, "prog:typed", nil)...)
				// the same program with other white space between its tokens (no literal with
				// quotes in it, so that only token separators change)
				if i%5 == 0 && !strings.ContainsAny(src, "\"'`") && strings.Contains(src, " ") {
					ws := []string{"\r", "\t", "  ", "\u00a0", "\u3000", " \r ", "\r\r"}
					var b strings.Builder
					for _, ch := range src {
						if ch == ' ' && r.Intn(2) == 0 {
							b.WriteString(ws[r.Intn(len(ws))])
						} else {
							b.WriteRune(ch)
						}
					}
					cs = append(cs, debugCases(eng, dbgFamily, vals, b.String(), "prog:typed-ws", nil)...)
				}
			}
			for i := 0; i < n/2; i++ {
				cs = append(cs, recRenderCases(r)...)
			}
			return cs
		},
	})
}

// debugFacadeHistoryCases: yae.Debug called several times in one process with the SAME source and
// environments of the SAME Go type (map[string]interface{}, one struct type) whose contents have
// different yae types or values: every call must agree with yae.Eval on that environment (value or
// failure) and show the values of THAT environment — nothing may be remembered from earlier calls.
func debugFacadeHistoryCases() []Case {
	type opt struct {
		P *float64 `yae:"p"`
		Q string   `yae:"q"`
	}
	f := 2.5
	histories := []struct {
		src  string
		envs []interface{}
	}{
		{`lhs + rhs`, []interface{}{map[string]interface{}{"lhs": 1, "rhs": 2}, map[string]interface{}{"lhs": "x", "rhs": "y"}, map[string]interface{}{"lhs": 3.5, "rhs": 4}, map[string]interface{}{"lhs": "p", "rhs": "q"}}},
		{`len(xs) > 1 ? xs[0] : xs[0]`, []interface{}{map[string]interface{}{"xs": []int{1, 2}}, map[string]interface{}{"xs": []string{"a"}}, map[string]interface{}{"xs": []float64{7}}}},
		{`a == b`, []interface{}{map[string]interface{}{"a": 1, "b": 1.0}, map[string]interface{}{"a": "s", "b": "t"}, map[string]interface{}{"a": true, "b": true}}},
		{`string(v)`, []interface{}{map[string]interface{}{"v": 1}, map[string]interface{}{"v": "one"}, map[string]interface{}{"v": []int{1}}, map[string]interface{}{"v": map[string]int{"k": 1}}}},
		{`q + "!"`, []interface{}{opt{&f, "a"}, opt{nil, "b"}, opt{&f, "c"}}},
	}
	var cs []Case
	for _, h := range histories {
		human := fmt.Sprintf("debug facade history %q over %d environments of one Go type", h.src, len(h.envs))
		c := Case{Human: human, Tags: []string{"dbg:facade-history"}, Nontriv: true, Want: "agree"}
		if guardBegin(human) {
			cs = append(cs, crashCase(human))
			continue
		}
		func() {
			defer guardEnd()
			for round := 0; round < 2 && c.OracleID == ""; round++ {
				for i, env := range h.envs {
					var dv, ev *val.Val
					var derr, eerr error
					var report string
					var pan interface{}
					captureStdout(func() {
						defer func() { pan = recover() }()
						dv, report, derr = yae.Debug(h.src, env)
						ev, eerr = yae.Eval(h.src, env)
					})
					d, e := describe(dv, derr), describe(ev, eerr)
					if derr != nil && eerr != nil {
						d, e = "error", "error"
					}
					switch {
					case pan != nil:
						c.OracleID, c.Oracle = "debug-panic", fmt.Sprintf("call #%d of round %d panics: %v", i, round, pan)
					case d != e:
						c.OracleID, c.Oracle = "debug-result-differs", fmt.Sprintf("call #%d of round %d (%v): Debug gives %s, Eval gives %s", i, round, env, d, e)
					case derr == nil && strings.SplitN(report, "\n", 2)[0] != h.src:
						c.OracleID, c.Oracle = "debug-render-firstline", fmt.Sprintf("call #%d: first line %q", i, strings.SplitN(report, "\n", 2)[0])
					}
					if c.OracleID != "" {
						c.Want = "differs"
						break
					}
				}
			}
		}()
		cs = append(cs, c)
	}
	return cs
}
