package main

// Histories of API calls on ONE yae.Expr (registrations of functions and operators, compiler
// switches, compilations, invocations of any Callable obtained so far, in any order) against the
// engine state machine of the model (Yae/Model/Engine.lean: `Engine.run`), output by output.
// This is the tie of the model the history theorems of C13 are about: WHEN the built-ins are
// appended (first compilation), what a registration after a compilation changes for an existing
// Callable (nothing for vm / closure, the function table for interp), what a Callable keeps.

import (
	"fmt"
	"math/rand"
	"strings"

	"github.com/goghcrow/yae"
	"github.com/goghcrow/yae/closure"
	"github.com/goghcrow/yae/debug"
	"github.com/goghcrow/yae/interp"
	"github.com/goghcrow/yae/parser/oper"
	"github.com/goghcrow/yae/types"
	"github.com/goghcrow/yae/val"
	"github.com/goghcrow/yae/vm"
)

// functions that collide with built-ins or with each other: same monomorphic key with another
// behaviour (re-registration replaces), same name with a polymorphic signature (first match wins)
var engineHostPool = append(append([]hostDecl{}, hostZoo...),
	hostDecl{Name: "tr", Params: []*T{tNum}, Ret: tNum, Beh: sxList("cnum", sxNum(99)), Const: val.Num(99)},
	hostDecl{Name: "!", Params: []*T{tBool}, Ret: tBool, Beh: "(cbool true)", Const: val.Bool(true)},
	hostDecl{Name: "string", Params: []*T{nil}, Ret: tStr, Beh: sxList("cstr", sxStr("host")), Const: val.Str("host")},
	hostDecl{Name: "+", Params: []*T{tNum, tNum}, Ret: tNum, Beh: "(ret 0)"},
	hostDecl{Name: "+", Params: []*T{tNum, tNum}, Ret: tNum, Beh: "(ret 1)", RetArg: 1},
	hostDecl{Name: "len", Params: []*T{tStr}, Ret: tNum, Beh: sxList("cnum", sxNum(-1)), Const: val.Num(-1)},
	hostDecl{Name: "idp", Params: []*T{tNum}, Ret: tNum, Beh: sxList("cnum", sxNum(5)), Const: val.Num(5)},
	hostDecl{Name: "<>", Params: []*T{tNum, tNum}, Ret: tNum, Beh: "(ret 1)", RetArg: 1},
	// polymorphic overloads of one name and arity, from general to specific and the other way
	// round: the first that unifies, in REGISTRATION order, is the one that is called
	hostDecl{Name: "sel", Params: []*T{nil, nil}, Ret: nil, Beh: "(ret 0)"},
	hostDecl{Name: "sel", Params: []*T{tNum, nil}, Ret: nil, Beh: "(ret 1)", RetArg: 1},
	hostDecl{Name: "sel", Params: []*T{nil, tStr}, Ret: tStr, Beh: sxList("cstr", sxStr("sel-str")), Const: val.Str("sel-str")},
	hostDecl{Name: "get", Params: []*T{tMap(tStr, tNum), tStr, tNum}, Ret: tNum, Beh: sxList("cnum", sxNum(-7)), Const: val.Num(-7)},
)

var engineVars = []envVar{{"n1", tNum}, {"n2", tNum}, {"s1", tStr}, {"b1", tBool}, {"xs", tList(tNum)}}

var enginePrograms = []string{
	`!b1`, `tr(n1) + 1`, `string(b1)`, `n1 + 2`, `len(s1)`, `len(n1)`, `cnst()`, `if(b1, tr(n1), 2)`, `idp(n1)`, `idp(s1)`,
	`print(n1)`, `string([n1, 2])`, `lz(n1, boom(1))`, `n1 <> 2`, `tr(n1 <> n2) + tr(1)`, `string(n1) + s1`, `!(n1 > n2) && b1`,
	`xs[0] + len(xs)`, `tr2(n1, n2)`, `boom(n1)`, `n1 +`, `nosuch(n1)`, `s1 + n1`,
	// longer programs (deeper operand stacks, more constants); what the bytecode compiler REFUSES is
	// in engineRefusalCase
	engineLongList(60), "len(" + engineLongList(50) + ") + tr(n1)", engineNested(45),
	`sel(n1, s1)`, `sel(n1, n2)`, `sel(s1, s1)`, `sel(b1, s1)`, `sel(n1, xs)[0]`, `get(["a": 1], "a", 0)`, `get([1: 2], 1, 0)`, `get(["a": n1], s1, n2) + sel(n1, n2)`,
}

// engineLongList: `[1, 2, …, n][0]`
func engineLongList(n int) string {
	xs := make([]string, n)
	for i := range xs {
		xs[i] = fmt.Sprint(i + 1)
	}
	return "[" + strings.Join(xs, ", ") + "][0]"
}

// engineNested: `n1 + (n1 + (… + 1))`, n levels
func engineNested(n int) string {
	s := "1"
	for i := 0; i < n; i++ {
		s = "n1 + (" + s + ")"
	}
	return s
}

func engineHistoryCase(r *rand.Rand) Case {
	nops := 5 + r.Intn(10)
	e := yae.NewExpr()
	var reqOps, want, human []string
	var callables []yae.Callable // by step index (nil where the step is no successful compilation)
	var registered []hostDecl
	compiled := []int{}
	srcOf, backendOf, regAt := map[int]string{}, map[int]string{}, map[string]int{}
	backend := "vm"
	vals := genVals(r, engineVars)
	backends := []string{"vm", "closure", "interp", "debug"}
	c := Case{Tags: []string{"gen:engine-history"}, Nontriv: true}
	if guardBegin("engine history") {
		return crashCase("engine history")
	}
	defer guardEnd()
	builtinOff := r.Intn(12) == 0
	// two histories out of three have a THEME: one function name; registrations and programs are
	// drawn mostly from those that mention it, so that overload sets and re-registrations of one
	// name meet the programs that call it
	themes := []string{"sel", "tr", "+", "!", "string", "len", "idp", "get", "<>"}
	theme := ""
	if r.Intn(3) != 0 {
		theme = themes[r.Intn(len(themes))]
		c.Tags = append(c.Tags, "engine:theme:"+theme)
	}
	var themeHosts []hostDecl
	var themeProgs []string
	for _, h := range engineHostPool {
		if h.Name == theme {
			themeHosts = append(themeHosts, h)
		}
	}
	for _, p := range enginePrograms {
		if theme != "" && strings.Contains(p, theme) {
			themeProgs = append(themeProgs, p)
		}
	}
	for step := 0; step < nops; step++ {
		callables = append(callables, nil)
		x := r.Intn(100)
		if step == 0 && !builtinOff && r.Intn(3) != 0 {
			x = 33 // most histories start by choosing a compiler
		}
		switch {
		case step == 0 && builtinOff:
			e.UseBuiltIn(false)
			reqOps = append(reqOps, "(builtin false)")
			want = append(want, "done")
			human = append(human, "UseBuiltIn(false)")
		case x < 28:
			h := engineHostPool[r.Intn(len(engineHostPool))]
			if len(themeHosts) > 0 && r.Intn(3) != 0 {
				h = themeHosts[r.Intn(len(themeHosts))]
			}
			e.RegisterFun(h.build())
			registered = append(registered, h)
			regAt[h.Name] = step
			reqOps = append(reqOps, sxList("regfun", h.sx()))
			want = append(want, "done")
			human = append(human, "RegisterFun("+h.Name+" "+h.Beh+")")
		case x < 32:
			op := oper.Operator{Kind: "<>", BP: oper.BP_TERM, Fixity: oper.INFIX_L}
			e.RegisterOperator(op)
			reqOps = append(reqOps, sxList("regop", sxList(sxStr(string(op.Kind)), sxNum(float64(op.BP)), sxInt(int(op.Fixity)))))
			want = append(want, "done")
			human = append(human, "RegisterOperator(<>)")
		case x < 38:
			b := backends[r.Intn(len(backends))]
			switch b {
			case "vm":
				e.UseCompiler(vm.Compile)
			case "closure":
				e.UseCompiler(closure.Compile)
			case "debug":
				e.UseCompiler(closure.DebugCompile)
			default:
				e.UseCompiler(interp.Interp)
			}
			backend = b
			reqOps = append(reqOps, sxList("compiler", b))
			want = append(want, "done")
			human = append(human, "UseCompiler("+b+")")
			c.Tags = append(c.Tags, "engine:compiler:"+b)
		case x < 68 || len(compiled) == 0:
			src := enginePrograms[r.Intn(len(enginePrograms))]
			if len(themeProgs) > 0 && r.Intn(3) != 0 {
				src = themeProgs[r.Intn(len(themeProgs))]
			} else if r.Intn(3) == 0 {
				g := &progGen{r: r, vars: engineVars, hosts: registered, stats: map[string]int{}, sugar: true}
				src = g.gen(targetTypes[r.Intn(len(targetTypes))], 1+r.Intn(3))
			}
			if strings.ContainsAny(src, "'~\n") || strings.Contains(src, "match") || strings.Contains(src, "strtotime") {
				src = `n1 + 2` // no externals (regexp, strtotime) in these histories
			}
			env0 := types.NewEnv()
			for _, v := range engineVars {
				env0.Put(v.Name, v.Ty.build())
			}
			var cl yae.Callable
			var cerr error
			func() {
				defer func() {
					if p := recover(); p != nil {
						cerr = fmt.Errorf("PANIC %v", p)
					}
				}()
				cl, cerr = e.Compile(src, env0)
			}()
			reqOps = append(reqOps, sxList("compile", encTVars(engineVars), sxStr(src)))
			human = append(human, "Compile("+src+")")
			switch {
			case cerr == nil:
				callables[step] = cl
				srcOf[step], backendOf[step] = src, backend
				compiled = append(compiled, step)
				want = append(want, "(compiled ok)")
				c.Tags = append(c.Tags, "engine:compile:ok")
			case strings.HasPrefix(cerr.Error(), "PANIC "):
				want = append(want, "(compiled panic)")
				c.Oracle, c.OracleID = "Compile panics: "+cerr.Error(), "api-panic"
			default:
				msg := cerr.Error()
				if msg == "overflow" {
					want = append(want, "(compiled err overflow)")
					c.Tags = append(c.Tags, "engine:compile:vm-refuses")
				} else if strings.Contains(msg, "syntax error") || strings.Contains(msg, "invalid num literal") || strings.Contains(msg, "nothing token matched") || strings.Contains(msg, "expect right pos") {
					want = append(want, "(compiled err syntax)")
				} else {
					want = append(want, sxList("compiled", "err", classifyCheckErr(msg)))
				}
				c.Tags = append(c.Tags, "engine:compile:error")
			}
		default:
			k := compiled[r.Intn(len(compiled))]
			vs := vals
			vars := engineVars
			switch r.Intn(8) {
			case 0:
				vs = genVals(r, engineVars)
			case 1: // one name missing
				vars = engineVars[1:]
			case 2: // one name bound to a value of another type
				vs = map[string]*val.Val{}
				for n, v := range vals {
					vs[n] = v
				}
				vs["s1"] = val.Num(1)
			}
			env1 := val.NewEnv()
			for _, v := range vars {
				env1.Put(v.Name, vs[v.Name])
			}
			if backendOf[k] == "debug" {
				env1.Dgb = debug.NewRecord() // as yae.Debug does; the record is not compared here
			}
			trace = nil
			var res *val.Val
			var rerr error
			out := captureStdout(func() {
				defer func() {
					if p := recover(); p != nil {
						rerr = fmt.Errorf("PANIC %v", p)
					}
				}()
				res, rerr = callables[k](env1)
			})
			var events []string
			if out != "" {
				for _, ln := range strings.Split(strings.TrimSuffix(out, "\n"), "\n") {
					if strings.HasPrefix(ln, callMarker) {
						events = append(events, strings.TrimPrefix(ln, callMarker))
					} else {
						events = append(events, sxList("print", sxStr(ln)))
					}
				}
			}
			for name, at := range regAt {
				if at > k && strings.Contains(srcOf[k], name) {
					c.Tags = append(c.Tags, "engine:invoke-after-reregistration:"+backendOf[k])
					break
				}
			}
			reqOps = append(reqOps, sxList("invoke", sxInt(k), encVars(vars, vs)))
			human = append(human, fmt.Sprintf("invoke #%d", k))
			switch {
			case rerr != nil && strings.HasPrefix(rerr.Error(), "PANIC "):
				want = append(want, "(result panic)")
				c.Oracle, c.OracleID = "the Callable panics: "+rerr.Error(), "api-panic"
			case rerr != nil && strings.HasPrefix(rerr.Error(), "undefined ") && !strings.Contains(rerr.Error(), "undefined key"):
				want = append(want, "(result err env-undefined)")
			case rerr != nil && strings.HasPrefix(rerr.Error(), "type mismatched"):
				want = append(want, "(result err env-mismatch)")
			case rerr != nil:
				want = append(want, sxList("result", "fail", classifyPanic(rerr.Error()), sxList(events...)))
				c.Tags = append(c.Tags, "engine:invoke:fail")
			default:
				want = append(want, sxList("result", "ok", safely(func() string { return encVal(res) }), sxList(events...)))
				c.Tags = append(c.Tags, "engine:invoke:ok")
			}
		}
	}
	c.Human = "engine " + strings.Join(human, "; ")
	c.Req = sxList("engine", sxList(), sxList(sxList(), sxList()), sxList(reqOps...))
	c.Want = sxList(append([]string{"outs"}, want...)...)
	return c
}

func init() {
	register(&Stream{
		Name: "engine",
		Rule: "random histories of 5-14 API calls on ONE yae.Expr: RegisterFun (12 host functions plus 12 that collide with built-ins or with each other: same monomorphic key with another behaviour, polymorphic signature under a built-in's name), RegisterOperator, UseCompiler (vm / closure / interp / closure.DebugCompile), UseBuiltIn(false), Compile (fixed programs incl. ill-typed and unparseable ones, and type-directed random ones over the functions registered so far), invocation of ANY Callable obtained so far (same values, fresh values, a missing name, a mistyped name); the model's EngineVm.run (the engine whose vm back end compiles to bytecode and runs the machine; a refusal of the bytecode compiler is a compile error) answers the whole history, compared output by output. Non-trivial = every history; distinct = distinct request.",
		Gen: func(r *rand.Rand, n int, thorough bool) []Case {
			var cs []Case
			cs = append(cs, engineRefusalCase())
			for i := 0; i < n; i++ {
				cs = append(cs, engineHistoryCase(r))
			}
			return cs
		},
	})
}
