package main

import (
	"fmt"
	"math/rand"
	"reflect"
	"sort"
	"strings"
	"time"

	"github.com/goghcrow/yae"
	"github.com/goghcrow/yae/conv"
	"github.com/goghcrow/yae/types"
	"github.com/goghcrow/yae/val"
)

// Stream `envcheck` (property C07): an expression is compiled through the public API against
// one environment and invoked with another one. Environments are structs (reflect.StructOf),
// pointers to structs, map[string]interface{}, raw *types.Env / *val.Env, and mutations of them
// (a name dropped, a type changed at depth, fields reordered / renamed on the Go side, numeric
// kinds swapped, maybe toggled, nil in optional and non-optional fields, extra names).
// The program calls a tracing host function on every name, so "evaluates nothing" is observable.
//
// Model request: (envcheck <compile-time bindings> <run-time bindings>) -> (ok) | (err undefined)
// | (err mismatch) | (err env) (both kinds of offending names: Go reports whichever it meets first).
// Oracles: envcheck-accepts-mismatch, envcheck-rejects-equal, envcheck-evaluated-on-reject,
// envcheck-wrong-result, envcheck-panic.

func init() {
	register(&Stream{
		Name: "envcheck",
		Rule: "a Callable compiled against environment A and invoked with environment B reports an environment error exactly when the model's envCheck on (types of A, values of B) does, with the same kind",
		Gen:  genEnvcheckCases,
	})
}

// ---------------------------------------------------------------------------------------
// environment descriptors

type eT struct {
	k   string // int i8 i64 u8 u64 f32 f64 str bool time | slice arr map struct
	el  *eT
	key *eT
	fs  []eF
}

type eF struct {
	name  string
	t     *eT
	maybe bool
	ptr   bool // declared as a pointer
}

var ePrims = []string{"int", "i8", "i64", "u8", "u64", "f32", "f64", "str", "bool", "time"}
var eNums = []string{"int", "i8", "i64", "u8", "u64", "f32", "f64"}

func ePrimType(k string) reflect.Type {
	switch k {
	case "int":
		return reflect.TypeOf(int(0))
	case "i8":
		return reflect.TypeOf(int8(0))
	case "i64":
		return reflect.TypeOf(int64(0))
	case "u8":
		return reflect.TypeOf(uint8(0))
	case "u64":
		return reflect.TypeOf(uint64(0))
	case "f32":
		return reflect.TypeOf(float32(0))
	case "f64":
		return reflect.TypeOf(float64(0))
	case "str":
		return reflect.TypeOf("")
	case "bool":
		return reflect.TypeOf(false)
	}
	return timeT
}

func eCategory(k string) string {
	for _, n := range eNums {
		if n == k {
			return "num"
		}
	}
	return k
}

type eGen struct{ r *rand.Rand }

func (g *eGen) prim() *eT { return &eT{k: ePrims[g.r.Intn(len(ePrims))]} }

func (g *eGen) typ(d int) *eT {
	if d <= 0 {
		return g.prim()
	}
	switch x := g.r.Intn(10); {
	case x < 4:
		return g.prim()
	case x < 6:
		return &eT{k: "slice", el: g.typ(d - 1)}
	case x == 6:
		return &eT{k: "arr", el: g.typ(d - 1)}
	case x == 7:
		return &eT{k: "map", key: &eT{k: []string{"str", "int", "bool", "f64", "time"}[g.r.Intn(5)]}, el: g.typ(d - 1)}
	}
	return &eT{k: "struct", fs: g.fields(1+g.r.Intn(3), "f", d-1)}
}

func (g *eGen) fields(n int, prefix string, d int) []eF {
	fs := []eF{}
	for i := 0; i < n; i++ {
		fs = append(fs, eF{name: fmt.Sprintf("%s%d", prefix, i), t: g.typ(d), maybe: g.r.Intn(5) == 0, ptr: g.r.Intn(4) == 0})
	}
	return fs
}

func (t *eT) clone() *eT {
	if t == nil {
		return nil
	}
	c := &eT{k: t.k, el: t.el.clone(), key: t.key.clone()}
	for _, f := range t.fs {
		c.fs = append(c.fs, eF{f.name, f.t.clone(), f.maybe, f.ptr})
	}
	return c
}

func cloneFields(fs []eF) []eF { return (&eT{k: "struct", fs: fs}).clone().fs }

// eStyle: how a descriptor is realised as a Go type (none of it changes the yae type).
type eStyle struct {
	r       *rand.Rand
	prefix  string // Go field names
	shuffle bool   // declaration order of struct fields
	swapNum bool   // another numeric kind
	ptrs    bool   // pointers added / removed on non-optional parts
}

func (s *eStyle) rtype(t *eT) reflect.Type {
	var rt reflect.Type
	switch t.k {
	case "slice":
		rt = reflect.SliceOf(s.rtype(t.el))
	case "arr":
		rt = reflect.ArrayOf(2, s.rtype(t.el))
	case "map":
		rt = reflect.MapOf(s.rtype(t.key), s.rtype(t.el))
	case "struct":
		rt = s.structType(t.fs)
	default:
		k := t.k
		if s.swapNum && eCategory(k) == "num" {
			k = eNums[s.r.Intn(len(eNums))]
		}
		rt = ePrimType(k)
	}
	return rt
}

func (s *eStyle) structType(fs []eF) reflect.Type {
	idx := make([]int, len(fs))
	for i := range idx {
		idx[i] = i
	}
	if s.shuffle {
		s.r.Shuffle(len(idx), func(i, j int) { idx[i], idx[j] = idx[j], idx[i] })
	}
	sf := []reflect.StructField{}
	for _, i := range idx {
		f := fs[i]
		ft := s.rtype(f.t)
		ptr := f.ptr
		if s.ptrs && s.r.Intn(3) == 0 {
			ptr = !ptr
		}
		if ptr {
			ft = reflect.PtrTo(ft)
		}
		tag := `yae:"` + f.name + `"`
		if f.maybe {
			tag = `yae:"` + f.name + `,maybe"`
		}
		sf = append(sf, reflect.StructField{Name: fmt.Sprintf("%s%d", s.prefix, i), Type: ft, Tag: reflect.StructTag(tag)})
	}
	return reflect.StructOf(sf)
}

// mutate returns a changed copy of the bindings and the name of the change.
func (g *eGen) mutate(fs []eF) ([]eF, string) {
	fs = cloneFields(fs)
	switch g.r.Intn(8) {
	case 0:
		if len(fs) > 0 {
			i := g.r.Intn(len(fs))
			return append(fs[:i], fs[i+1:]...), "drop-name"
		}
	case 1:
		return append(fs, g.fields(1+g.r.Intn(2), "x", 1)...), "extra-names"
	case 2, 3:
		if len(fs) > 0 {
			i := g.r.Intn(len(fs))
			fs[i].t = g.changeAtDepth(fs[i].t)
			return fs, "type-changed-at-depth"
		}
	case 4:
		if len(fs) > 0 {
			i := g.r.Intn(len(fs))
			if fs[i].t.k == "struct" && len(fs[i].t.fs) > 0 && g.r.Intn(2) == 0 {
				j := g.r.Intn(len(fs[i].t.fs))
				fs[i].t.fs[j].maybe = !fs[i].t.fs[j].maybe
				return fs, "maybe-toggled-nested"
			}
			fs[i].maybe = !fs[i].maybe
			return fs, "maybe-toggled"
		}
	case 5:
		if len(fs) > 0 {
			i := g.r.Intn(len(fs))
			fs[i].name = fs[i].name + "_"
			return fs, "name-renamed"
		}
	case 6:
		if len(fs) > 1 {
			fs[0].t, fs[1].t = fs[1].t, fs[0].t
			return fs, "types-swapped"
		}
	}
	return fs, "same"
}

func (g *eGen) changeAtDepth(t *eT) *eT {
	switch t.k {
	case "slice", "arr":
		if g.r.Intn(3) != 0 {
			return &eT{k: t.k, el: g.changeAtDepth(t.el)}
		}
	case "map":
		switch g.r.Intn(3) {
		case 0:
			return &eT{k: "map", key: t.key, el: g.changeAtDepth(t.el)}
		case 1:
			nk := "str"
			if t.key.k == "str" {
				nk = "int"
			}
			return &eT{k: "map", key: &eT{k: nk}, el: t.el}
		}
	case "struct":
		c := t.clone()
		if len(c.fs) > 0 {
			j := g.r.Intn(len(c.fs))
			switch g.r.Intn(4) {
			case 0:
				c.fs = append(c.fs[:j], c.fs[j+1:]...)
			case 1:
				c.fs = append(c.fs, eF{name: "extra", t: g.prim()})
			case 2:
				c.fs[j].name += "_"
			default:
				c.fs[j].t = g.changeAtDepth(c.fs[j].t)
			}
			return c
		}
	}
	// another category at this node
	for {
		n := g.typ(1)
		if eCategory(n.k) != eCategory(t.k) {
			return n
		}
	}
}

// ---------------------------------------------------------------------------------------
// realising environments

type envForm struct {
	x     interface{} // what is handed to Compile / the Callable
	human string
}

func (g *eGen) realise(fs []eF, st *eStyle, form string, nilFields bool) envForm {
	rt := st.structType(fs)
	vg := &cvGen{r: g.r, clean: true, fieldNil: nilFields}
	v := vg.value(rt, 3)
	switch form {
	case "struct":
		return envForm{v.Interface(), "struct " + humanGo(v)}
	case "ptr":
		p := reflect.New(rt)
		p.Elem().Set(v)
		return envForm{p.Interface(), "ptr " + humanGo(p)}
	case "map":
		m := map[string]interface{}{}
		for i := 0; i < rt.NumField(); i++ {
			name, _ := parseTagRef(rt.Field(i))
			m[name] = v.Field(i).Interface()
		}
		return envForm{m, "map " + humanGo(reflect.ValueOf(m))}
	case "raw-type":
		e, err := conv.TypeEnvOf(v.Interface())
		if err != nil {
			return envForm{v.Interface(), "struct " + humanGo(v)}
		}
		return envForm{e, "*types.Env of " + humanGo(v)}
	case "raw-val":
		e, err := conv.ValEnvOf(v.Interface())
		if err != nil {
			return envForm{v.Interface(), "struct " + humanGo(v)}
		}
		return envForm{e, "*val.Env of " + humanGo(v)}
	}
	panic(form)
}

// ---------------------------------------------------------------------------------------
// one compile / invoke pair

var envTrace []string

func traceFuns() []*val.Val {
	a, b, c := types.TyVar("a"), types.TyVar("b"), types.TyVar("c")
	tr := val.Fun(types.Fun("tr", []*types.Type{a}, a), func(args ...*val.Val) *val.Val {
		envTrace = append(envTrace, "tr")
		return args[0]
	})
	k2 := val.Fun(types.Fun("k2", []*types.Type{b, c}, c), func(args ...*val.Val) *val.Val {
		envTrace = append(envTrace, "k2")
		return args[1]
	})
	return []*val.Val{tr, k2}
}

func isIdent(s string) bool {
	if s == "" {
		return false
	}
	for i, c := range s {
		if !(c == '_' || (c >= 'a' && c <= 'z') || (c >= 'A' && c <= 'Z') || (i > 0 && c >= '0' && c <= '9')) {
			return false
		}
	}
	return true
}

type envTerm struct {
	name  string
	field string // non-empty: member access
}

// envProgram builds k2(tr(x), k2(tr(y.f), tr(z))) over the names of the compile-time bindings.
func envProgram(r *rand.Rand, tenv map[string]*types.Type) (string, []envTerm) {
	names := []string{}
	for n := range tenv {
		if isIdent(n) {
			names = append(names, n)
		}
	}
	sort.Strings(names)
	if len(names) == 0 {
		return "tr(1)", nil
	}
	r.Shuffle(len(names), func(i, j int) { names[i], names[j] = names[j], names[i] })
	if len(names) > 3 && r.Intn(2) == 0 {
		names = names[:3]
	}
	terms := []envTerm{}
	for _, n := range names {
		t := envTerm{name: n}
		ty := tenv[n]
		if ty.Kind == types.KObj && len(ty.Obj().Fields) > 0 && r.Intn(2) == 0 {
			f := ty.Obj().Fields[r.Intn(len(ty.Obj().Fields))].Name
			if isIdent(f) {
				t.field = f
			}
		}
		terms = append(terms, t)
	}
	src := ""
	for i := len(terms) - 1; i >= 0; i-- {
		e := terms[i].name
		if terms[i].field != "" {
			e += "." + terms[i].field
		}
		e = "tr(" + e + ")"
		if src == "" {
			src = e
		} else {
			src = "k2(" + e + ", " + src + ")"
		}
	}
	return src, terms
}

func typeBindings(x interface{}) (m map[string]*types.Type, fail string) {
	defer func() {
		if r := recover(); r != nil {
			fail = "panic: " + fmt.Sprint(r)
		}
	}()
	e, ok := x.(*types.Env)
	if !ok {
		var err error
		e, err = conv.TypeEnvOf(x)
		if err != nil {
			return nil, err.Error()
		}
	}
	m = map[string]*types.Type{}
	e.ForEach(func(n string, t *types.Type) { m[n] = t })
	return m, ""
}

func valBindings(x interface{}) (m map[string]*val.Val, fail string) {
	defer func() {
		if r := recover(); r != nil {
			fail = "panic: " + fmt.Sprint(r)
		}
	}()
	e, ok := x.(*val.Env)
	if !ok {
		var err error
		e, err = conv.ValEnvOf(x)
		if err != nil {
			return nil, err.Error()
		}
	}
	m = map[string]*val.Val{}
	e.ForEach(func(n string, v *val.Val) { m[n] = v })
	return m, ""
}

func hasTag(tags []string, t string) bool {
	for _, x := range tags {
		if x == t {
			return true
		}
	}
	return false
}

// envcheckExtras: further oracle cases found while running envcheckCase (a case carries one oracle)
var envcheckExtras []Case

func envcheckCase(r *rand.Rand, a, b envForm, tags []string) Case {
	if guardBegin("compile against " + a.human + "  ||  invoke with " + b.human) {
		return crashCase("compile against " + a.human + "  ||  invoke with " + b.human)
	}
	defer guardEnd()
	c := Case{Human: "compile against " + a.human + "  ||  invoke with " + b.human, Tags: tags, Nontriv: true}
	if len(c.Human) > 1500 {
		c.Human = c.Human[:1500] + "…"
	}
	oracle := func(id, what string) {
		if c.OracleID == "" {
			c.OracleID, c.Oracle = id, what
		}
	}
	tenv, tfail := typeBindings(a.x)
	src := "tr(1)"
	var terms []envTerm
	if tfail == "" {
		src, terms = envProgram(r, tenv)
	}
	// a quarter of the programs return an object literal of the (untraced) terms, so that every
	// variable flows into the result without passing through a function
	objResult := false
	if len(terms) > 0 && r.Intn(4) == 0 {
		objResult = true
		fs := []string{}
		for i, t := range terms {
			e := t.name
			if t.field != "" {
				e += "." + t.field
			}
			fs = append(fs, fmt.Sprintf("p%d: %s", i, e))
		}
		src = "k2(" + src + ", {" + strings.Join(fs, ", ") + "})"
		c.Tags = append(c.Tags, "program:object-result")
	}
	c.Human = src + "  ||  " + c.Human

	// compile
	e := yae.NewExpr()
	e.RegisterFun(traceFuns()...)
	var callable yae.Callable
	var cerr error
	func() {
		defer func() {
			if p := recover(); p != nil {
				oracle("envcheck-panic", "Compile panics: "+fmt.Sprint(p))
				cerr = fmt.Errorf("panic")
			}
		}()
		callable, cerr = e.Compile(src, a.x)
	}()
	if cerr != nil {
		c.Want = "compile-error"
		c.Tags = append(c.Tags, "compile:error")
		return c
	}
	c.Tags = append(c.Tags, "compile:ok")

	// history: half of the cases first invoke the callable once with the compile-time data
	// itself (a call that must be accepted); the verdict on the second call must not depend on it
	if _, isTypeEnv := a.x.(*types.Env); !isTypeEnv && r.Intn(2) == 0 {
		func() {
			defer func() { recover() }()
			callable(a.x)
		}()
		c.Tags = append(c.Tags, "history:warm-up-call")
	}

	// history: a third of the cases compile ANOTHER expression on the same engine against the
	// run-time data (other types under the same names, possibly) between the compilation and the
	// invocation of the first; what the first callable checks must still be ITS compile-time env
	if _, isTypeEnv := b.x.(*types.Env); !isTypeEnv && r.Intn(3) == 0 {
		func() {
			defer func() { recover() }()
			if other, err := e.Compile(src, b.x); err == nil && r.Intn(2) == 0 {
				other(b.x)
			}
		}()
		c.Tags = append(c.Tags, "history:second-compile")
	}

	// invoke
	envTrace = nil
	var res *val.Val
	var rerr error
	panicked := false
	func() {
		defer func() {
			if p := recover(); p != nil {
				panicked = true
				oracle("envcheck-panic", "the Callable panics: "+fmt.Sprint(p))
			}
		}()
		res, rerr = callable(b.x)
	}()
	trace := append([]string{}, envTrace...)
	if panicked {
		c.Want = "panic"
		c.Tags = append(c.Tags, "invoke:panic")
		return c
	}

	venv, vfail := valBindings(b.x)
	if vfail != "" {
		// the run-time data cannot be converted at all: must be an error, nothing evaluated
		c.Want = "conversion-error"
		c.Tags = append(c.Tags, "invoke:conversion-error")
		if rerr == nil {
			oracle("envcheck-accepts-mismatch", "run-time data that cannot be converted ("+vfail+") was accepted")
		}
		if len(trace) > 0 {
			oracle("envcheck-evaluated-on-reject", fmt.Sprintf("%d host calls although the data was refused", len(trace)))
		}
		return c
	}

	// independent verdict
	missing, mismatched := []string{}, []string{}
	for n, t := range tenv {
		v, ok := venv[n]
		switch {
		case !ok:
			missing = append(missing, n)
		case v == nil || canonTy(t) != canonTy(v.Type):
			mismatched = append(mismatched, n)
		}
	}
	sort.Strings(missing)
	sort.Strings(mismatched)

	// the implementation's verdict
	verdict := "(ok)"
	if rerr != nil {
		msg := rerr.Error()
		switch {
		case strings.HasPrefix(msg, "undefined "):
			verdict = "(err undefined)"
		case strings.HasPrefix(msg, "type mismatched"):
			verdict = "(err mismatch)"
		default:
			verdict = "(fail " + sxStr(msg) + ")"
		}
		if len(missing) > 0 && len(mismatched) > 0 && strings.HasPrefix(verdict, "(err") {
			verdict = "(err env)"
		}
	}
	c.Want = verdict
	vt := "fail"
	if !strings.HasPrefix(verdict, "(fail") {
		vt = strings.TrimPrefix(strings.Trim(verdict, "()"), "err ")
	}
	c.Tags = append(c.Tags, "verdict:"+vt)
	tb := []string{}
	tnames := []string{}
	for n := range tenv {
		tnames = append(tnames, n)
	}
	sort.Strings(tnames)
	for _, n := range tnames {
		tb = append(tb, sxList(sxStr(n), encTy(tenv[n])))
	}
	vb := []string{}
	vnames := []string{}
	for n := range venv {
		vnames = append(vnames, n)
	}
	sort.Strings(vnames)
	for _, n := range vnames {
		vb = append(vb, sxList(sxStr(n), encVal(venv[n])))
	}
	c.Req = sxList("envcheck", sxList(tb...), sxList(vb...))

	equal := len(missing) == 0 && len(mismatched) == 0
	if equal {
		c.Tags = append(c.Tags, "bindings:equal")
	} else {
		c.Tags = append(c.Tags, "bindings:differ")
	}
	switch {
	case rerr == nil && !equal:
		oracle("envcheck-accepts-mismatch", fmt.Sprintf("accepted although missing=%v mismatched=%v", missing, mismatched))
	case rerr != nil && equal:
		oracle("envcheck-rejects-equal", "rejected although every compile-time name is bound to a value of an equal type: "+rerr.Error())
	case rerr != nil && hasTag(tags, "constructed:equal"):
		oracle("envcheck-rejects-equal", "rejected although the run-time data realises the very declaration the expression was compiled against (equal types by construction): "+rerr.Error())
	}
	if rerr != nil && len(trace) > 0 {
		oracle("envcheck-evaluated-on-reject", fmt.Sprintf("%d host calls before the rejection %q", len(trace), rerr.Error()))
	}
	if rerr == nil {
		// whatever was accepted: the value produced is well formed, no absent component
		if wf := safely(func() string { return wfVal(res, nil, "result") }); wf != "" {
			envcheckExtras = append(envcheckExtras, Case{Human: "result of " + c.Human, Want: "ill-formed", Tags: []string{"oracle:envcheck-result-ill-formed"},
				OracleID: "envcheck-result-ill-formed", Oracle: "the environment was accepted and the value produced is ill formed: " + wf})
		}
	}
	if rerr == nil && equal && len(terms) > 0 {
		// evaluates normally: every term traced once, the result is the last term's value
		ntr := 0
		for _, t := range trace {
			if t == "tr" {
				ntr++
			}
		}
		termVal := func(t envTerm) *val.Val {
			w := venv[t.name]
			if t.field != "" && w != nil && w.Type.Kind == types.KObj {
				w, _ = w.Obj().Get(t.field)
			}
			return w
		}
		want := termVal(terms[len(terms)-1])
		if objResult && res != nil && res.Type != nil && res.Type.Kind == types.KObj {
			// compare field by field with the bindings; the last one through the common path below
			for i, t := range terms[:len(terms)-1] {
				got, _ := res.Obj().Get(fmt.Sprintf("p%d", i))
				w := termVal(t)
				if got == nil || w == nil || safely(func() string { return encVal(got) }) != safely(func() string { return encVal(w) }) {
					if !hostKeysCoincide(reflect.ValueOf(b.x), 0) {
						oracle("envcheck-wrong-result", fmt.Sprintf("field p%d of the result is %s, the environment binds %s", i, got, w))
					}
				}
			}
			res, _ = res.Obj().Get(fmt.Sprintf("p%d", len(terms)-1))
		} else if objResult {
			res = nil
		}
		switch {
		case ntr != len(terms):
			oracle("envcheck-wrong-result", fmt.Sprintf("%d traced calls for %d terms", ntr, len(terms)))
		case res == nil || want == nil:
			oracle("envcheck-wrong-result", "nil result")
		case hostKeysCoincide(reflect.ValueOf(b.x), 0):
			// a host map two of whose keys are the same yae key (numbers as doubles, equal
			// instants): which entry survives depends on Go's map iteration order, so two
			// conversions of the same host value need not agree; outside what the property
			// says about "the environment's contents" (DESIGN §0.3, not a finding)
			c.Tags = append(c.Tags, "host-keys-coincide")
		default:
			got := safely(func() string { return encVal(res) })
			if exp := safely(func() string { return encVal(want) }); got != exp {
				oracle("envcheck-wrong-result", fmt.Sprintf("result %s, the environment binds %s", res, want))
			}
		}
	}
	return c
}

// ---------------------------------------------------------------------------------------

func genEnvcheckCases(r *rand.Rand, n int, thorough bool) []Case {
	var out []Case
	g := &eGen{r: r}
	forms := []string{"struct", "ptr", "map", "raw-type"}
	formsB := []string{"struct", "ptr", "map", "raw-val"}

	// fixed probes
	type S1 struct {
		A int    `yae:"a"`
		B string `yae:"b"`
	}
	type S2 struct {
		B string  `yae:"b"`
		A float64 `yae:"a"`
		C bool
	}
	type S3 struct {
		A *int   `yae:"a"`
		B string `yae:"b"`
	}
	var np *S1
	one := 1
	fixed := [][2]interface{}{
		{S1{1, "x"}, S1{2, "y"}}, {S1{1, "x"}, &S1{2, "y"}}, {S1{1, "x"}, S2{"y", 2, true}}, {S2{"y", 2, true}, S1{1, "x"}},
		{S1{1, "x"}, map[string]interface{}{"a": 1, "b": "s"}}, {S1{1, "x"}, map[string]interface{}{"a": 1}}, {S1{1, "x"}, map[string]interface{}{"a": "1", "b": "s"}},
		{S1{1, "x"}, map[string]interface{}{"a": "1"}}, {S1{1, "x"}, nil}, {nil, S1{1, "x"}}, {nil, nil}, {S1{1, "x"}, np}, {np, S1{1, "x"}}, {S1{1, "x"}, &np}, {&np, S1{1, "x"}},
		{S3{&one, "x"}, S3{nil, "y"}}, {S3{nil, "x"}, S3{&one, "y"}}, {S3{&one, "x"}, S1{1, "x"}}, {S1{1, "x"}, S3{&one, "x"}},
		{S1{1, "x"}, 42}, {42, S1{1, "x"}}, {map[string]interface{}{"a": []interface{}{}}, map[string]interface{}{"a": []int{}}},
		{map[string]interface{}{"a": []int{}}, map[string]interface{}{"a": []interface{}{}}}, {map[string]interface{}{"a": []int{1}}, map[string]interface{}{"a": []interface{}{1.5}}},
	}
	for _, p := range fixed {
		a := envForm{p[0], fmt.Sprintf("%T %s", p[0], descGo(reflect.ValueOf(p[0])))}
		b := envForm{p[1], fmt.Sprintf("%T %s", p[1], descGo(reflect.ValueOf(p[1])))}
		out = append(out, envcheckCase(r, a, b, []string{"fixed"}))
	}

	out = append(out, envcheckReentrantCases()...)

	for i := 0; i < n; i++ {
		if r.Intn(5) == 0 {
			out = append(out, rawEnvCase(r))
			continue
		}
		fs := g.fields(1+r.Intn(4), "v", 2)
		stA := &eStyle{r: r, prefix: "F"}
		formA := forms[r.Intn(len(forms))]
		a := g.realise(fs, stA, formA, false)

		fsB, mut := g.mutate(fs)
		if r.Intn(3) == 0 {
			fsB, mut = cloneFields(fs), "same"
		}
		stB := &eStyle{r: r, prefix: "F"}
		style := "same-go-type"
		if r.Intn(2) == 0 {
			stB = &eStyle{r: r, prefix: "G", shuffle: r.Intn(2) == 0, swapNum: r.Intn(2) == 0, ptrs: r.Intn(2) == 0}
			style = "other-go-type"
		}
		nilFields := r.Intn(6) == 0
		formB := formsB[r.Intn(len(formsB))]
		b := g.realise(fsB, stB, formB, nilFields)
		tags := []string{"mutation:" + mut, "style:" + style, "formA:" + formA, "formB:" + formB}
		if nilFields {
			tags = append(tags, "nil-in-untagged-fields")
		}
		if mut == "same" && !nilFields && formA != "map" && formB != "map" {
			// one declaration realised twice (struct forms keep the maybe tags; nil only in
			// fields tagged maybe): the bindings have equal types BY CONSTRUCTION, whatever the
			// reflection layer makes of the two Go values
			tags = append(tags, "constructed:equal")
		}
		out = append(out, envcheckCase(r, a, b, tags))
	}
	out = append(out, envcheckExtras...)
	envcheckExtras = nil
	return out
}

// rawEnvCase: hand-built *types.Env / *val.Env from the type generator of the other streams.
func rawEnvCase(r *rand.Rand) Case {
	tg := &tyGen{r: r}
	vg := &valGen{r: r}
	n := 1 + r.Intn(4)
	perm := r.Perm(len(envFamily))[:n]
	tenv := types.NewEnv()
	venv := val.NewEnv()
	mut := "same"
	descA, descB := []string{}, []string{}
	for i, j := range perm {
		ev := envFamily[j]
		tenv.Put(ev.Name, ev.Ty.build())
		descA = append(descA, ev.Name+": "+ev.Ty.String())
		tb := tg.permute(ev.Ty)
		if i == 0 {
			switch r.Intn(6) {
			case 0:
				mut = "drop-name"
				continue
			case 1, 2:
				mut = "type-mutated"
				tb = tg.mutate(ev.Ty)
			}
		}
		venv.Put(ev.Name, vg.gen(tb, false))
		descB = append(descB, ev.Name+": "+tb.String())
	}
	if r.Intn(3) == 0 {
		venv.Put("extra", val.Num(1))
		descB = append(descB, "extra: num")
	}
	// a compile-time type that is a DAG: both components are ONE *types.Type; the run-time value
	// agrees on the first and may differ on the second
	if r.Intn(3) == 0 {
		sub := tg.gen(2)
		if sub.depth() == 0 {
			sub = tObj(TF{"x", sub}, TF{"y", tNum})
		}
		other := sub
		if r.Intn(2) == 0 {
			other = tg.mutate(sub)
		}
		ta := tObj(TF{"from", sub}, TF{"to", sub})
		tb := tObj(TF{"from", sub}, TF{"to", other})
		if buildable(ta, tb) {
			if vb := safeGen(vg, tb); vb != nil {
				tenv.Put("sh", ta.buildShared(map[*T]*types.Type{}))
				venv.Put("sh", vb)
				descA = append(descA, "sh (shared components): "+ta.String())
				descB = append(descB, "sh: "+tb.String())
				mut += "+shared"
			}
		}
	}
	a := envForm{tenv, "*types.Env{" + strings.Join(descA, ", ") + "}"}
	b := envForm{venv, "*val.Env{" + strings.Join(descB, ", ") + "}"}
	return envcheckCase(r, a, b, []string{"raw-env", "mutation:" + mut})
}

func safeGen(vg *valGen, t *T) (v *val.Val) {
	defer func() {
		if recover() != nil {
			v = nil
		}
	}()
	return vg.gen(t, false)
}

// hostKeysCoincide: does the host value contain a Go map two of whose keys convert to the same
// yae key (e.g. int64 keys 2^53 and 2^53+1, which are one number as doubles)?
func hostKeysCoincide(v reflect.Value, depth int) bool {
	if depth > 12 || !v.IsValid() {
		return false
	}
	switch v.Kind() {
	case reflect.Pointer, reflect.Interface:
		if v.IsNil() {
			return false
		}
		return hostKeysCoincide(v.Elem(), depth+1)
	case reflect.Struct:
		if _, ok := v.Interface().(time.Time); ok {
			return false
		}
		for i := 0; i < v.NumField(); i++ {
			if v.Type().Field(i).IsExported() && hostKeysCoincide(v.Field(i), depth+1) {
				return true
			}
		}
	case reflect.Slice, reflect.Array:
		for i := 0; i < v.Len(); i++ {
			if hostKeysCoincide(v.Index(i), depth+1) {
				return true
			}
		}
	case reflect.Map:
		seen := map[string]bool{}
		it := v.MapRange()
		for it.Next() {
			kk := safely(func() string {
				kv, err := conv.ValOf(it.Key().Interface())
				if err != nil {
					return fmt.Sprintf("?%v", it.Key().Interface())
				}
				return kv.Type.String() + "#" + kv.Key().String()
			})
			if seen[kk] {
				return true
			}
			seen[kk] = true
			if hostKeysCoincide(it.Value(), depth+1) {
				return true
			}
		}
	}
	return false
}
