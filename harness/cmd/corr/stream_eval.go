package main

import (
	"fmt"
	"math/rand"
	"regexp"
	"strings"

	"github.com/goghcrow/yae/closure"
	"github.com/goghcrow/yae/compiler"
	"github.com/goghcrow/yae/interp"
	"github.com/goghcrow/yae/parser"
	"github.com/goghcrow/yae/parser/ast"
	"github.com/goghcrow/yae/parser/lexer"
	"github.com/goghcrow/yae/parser/oper"
	"github.com/goghcrow/yae/timelib"
	"github.com/goghcrow/yae/trans"
	"github.com/goghcrow/yae/types"
	"github.com/goghcrow/yae/val"
	"github.com/goghcrow/yae/vm"
)

type backend struct {
	name string
	c    compiler.Compiler
}

var backends = []backend{
	{"closure", closure.Compile},
	{"interp", interp.Interp},
	{"vm", vm.Compile},
	{"vm-callthread", vm.CompileCallThreaded},
}

type outcome struct {
	class  string // "ok" or failure class in protocol form; "refused" when compilation panicked
	value  string // protocol form of the value (ok only)
	wf     string // well-formedness oracle result (ok only)
	events []string
	msg    string
	addr   string // a string result or printed line that contains a memory address
}

func (o outcome) line() string {
	if o.class == "ok" {
		v := o.value
		if v == "" {
			v = "(ill-formed)"
		}
		return sxList("ok", v, sxList(o.events...))
	}
	return sxList("fail", o.class, sxList(o.events...))
}

func parseSrc(src string) (e ast.Expr, err interface{}) {
	defer func() {
		if r := recover(); r != nil {
			err = r
		}
	}()
	ops := append([]oper.Operator{}, oper.BuiltIn()...)
	toks := lexer.NewLexer(ops).Lex(src)
	ops2 := append([]oper.Operator{}, oper.BuiltIn()...)
	return parser.NewParser(ops2).Parse(toks), nil
}

func checkExpr(eng *engine, vars []envVar, d ast.Expr) (ty *types.Type, err interface{}) {
	defer func() {
		if r := recover(); r != nil {
			err = r
		}
	}()
	env0 := types.NewEnv()
	for _, v := range vars {
		env0.Put(v.Name, v.Ty.build())
	}
	return types.Check(d, env0.Inherit(eng.tenv)), nil
}

func classifyCheckErr(r interface{}) string {
	msg := fmt.Sprint(r)
	switch {
	case strings.HasPrefix(msg, "type mismatched"):
		return "type"
	case strings.HasPrefix(msg, "args ") && strings.Contains(msg, "mismatch fun"):
		return "type"
	case strings.HasPrefix(msg, "undefined"):
		return "undefined"
	case strings.HasPrefix(msg, "arity mismatch"):
		return "arity"
	case strings.HasSuffix(msg, " reserved"):
		return "reserved"
	case strings.Contains(msg, "has no overload func"):
		return "nofun"
	case strings.HasPrefix(msg, "non callable"):
		return "noncallable"
	case strings.HasPrefix(msg, "invalid type of map's key"):
		return "mapkey"
	case strings.HasPrefix(msg, "duplicated field"):
		return "dupfield"
	case msg == "unreachable":
		return "unreachable"
	}
	return "internal:" + msg
}

func runBackend(b backend, eng *engine, d ast.Expr, vals map[string]*val.Val, want *types.Type) (o outcome) {
	trace = nil
	var cl compiler.Closure
	func() {
		defer func() {
			if r := recover(); r != nil {
				o.class = "refused"
				o.msg = fmt.Sprint(r)
			}
		}()
		cl = b.c(d, eng.renv)
	}()
	if o.class == "refused" {
		return
	}
	env1 := val.NewEnv()
	for k, v := range vals {
		env1.Put(k, v)
	}
	var res *val.Val
	out := captureStdout(func() {
		defer func() {
			if r := recover(); r != nil {
				o.class = classifyPanic(r)
				o.msg = fmt.Sprint(r)
			}
		}()
		res = cl(env1.Inherit(eng.renv))
	})
	// host functions write a marker line into the captured stream, so calls and prints keep
	// their relative order
	if out != "" {
		for _, ln := range strings.Split(strings.TrimSuffix(out, "\n"), "\n") {
			if strings.HasPrefix(ln, callMarker) {
				o.events = append(o.events, strings.TrimPrefix(ln, callMarker))
			} else {
				o.events = append(o.events, sxList("print", sxStr(ln)))
			}
		}
	}
	if o.class != "" {
		return
	}
	o.class = "ok"
	o.addr = addrInText(res, out)
	o.wf = safeWf(res, want)
	if o.wf == "" {
		func() {
			defer func() {
				if r := recover(); r != nil {
					o.wf = fmt.Sprintf("serialising the result panics: %v", r)
				}
			}()
			o.value = encVal(res)
		}()
	}
	return
}

var reNum = regexp.MustCompile(`\(num #[0-9a-f]{16}\)`)
var reStr = regexp.MustCompile(`\(str \$[0-9a-f]*\)`)
var reBool = regexp.MustCompile(`\(bool (true|false)\)`)
var reTime = regexp.MustCompile(`\(time [^()]*\)`)

// skeleton blanks the primitive payloads of a protocol value: the type-skeleton projection.
func skeleton(s string) string {
	s = reNum.ReplaceAllString(s, "(num)")
	s = reStr.ReplaceAllString(s, "(str)")
	s = reBool.ReplaceAllString(s, "(bool)")
	return reTime.ReplaceAllString(s, "(time)")
}

// externsFor tabulates the external functions (regexp.MatchString, timelib.Strtotime) on the
// literal arguments that occur in the tree: the generators only ever pass literals to them.
func externsFor(d ast.Expr) string {
	rs, ts := []string{}, []string{}
	seenR, seenT := map[string]bool{}, map[string]bool{}
	var walk func(e ast.Expr)
	walk = func(e ast.Expr) {
		switch x := e.(type) {
		case *ast.ListExpr:
			for _, el := range x.Elems {
				walk(el)
			}
		case *ast.MapExpr:
			for _, p := range x.Pairs {
				walk(p.Key)
				walk(p.Val)
			}
		case *ast.ObjExpr:
			for _, f := range x.Fields {
				walk(f.Val)
			}
		case *ast.CallExpr:
			walk(x.Callee)
			for _, a := range x.Args {
				walk(a)
			}
			if id, ok := x.Callee.(*ast.IdentExpr); ok {
				if id.Name == "match" && len(x.Args) == 2 {
					p, ok1 := x.Args[0].(*ast.StrExpr)
					sub, ok2 := x.Args[1].(*ast.StrExpr)
					if ok1 && ok2 && !seenR[p.Val+"\x00"+sub.Val] {
						seenR[p.Val+"\x00"+sub.Val] = true
						m, err := regexp.MatchString(p.Val, sub.Val)
						r := sxBool(m)
						if err != nil {
							r = "err"
						}
						rs = append(rs, sxList(sxStr(p.Val), sxStr(sub.Val), r))
					}
				}
				if id.Name == "strtotime" && len(x.Args) == 1 {
					if t, ok := x.Args[0].(*ast.StrExpr); ok && !seenT[t.Val] {
						seenT[t.Val] = true
						ts = append(ts, sxList(sxStr(t.Val), fmt.Sprintf("%d", timelib.Strtotime(t.Val))))
					}
				}
			}
		case *ast.SubscriptExpr:
			walk(x.Var)
			walk(x.Idx)
		case *ast.MemberExpr:
			walk(x.Obj)
		}
	}
	walk(d)
	return sxList(sxList(rs...), sxList(ts...))
}

func encVars(vars []envVar, vals map[string]*val.Val) string {
	xs := []string{}
	for _, v := range vars {
		xs = append(xs, sxList(sxStr(v.Name), encVal(vals[v.Name])))
	}
	return sxList(xs...)
}

func encTVars(vars []envVar) string {
	xs := []string{}
	for _, v := range vars {
		xs = append(xs, sxList(sxStr(v.Name), v.Ty.sx()))
	}
	return sxList(xs...)
}

// evalCases turns one source program into protocol cases: a `check` request on the desugared
// tree and, when accepted, a `run` request on the annotated tree; with the implementation-side
// oracles for C01 (well-formed result of the inferred type on every back end), C02 (failure
// classes), C03 (back ends agree).
func evalCases(eng *engine, vars []envVar, vals map[string]*val.Val, src string, tag string) []Case {
	if guardBegin("run " + src) {
		return []Case{crashCase("run " + src)}
	}
	defer guardEnd()
	var out []Case
	parsed, perr := parseSrc(src)
	human := src
	if len(human) > 240 {
		human = fmt.Sprintf("%s…(%d bytes)", human[:240], len(src))
	}
	if perr != nil {
		return []Case{{Human: human, Want: "syntax-error", Tags: []string{"prog:syntax-error", tag}},
			pipelineCase(eng, vars, vals, src, human, tag, nil)}
	}
	parsedBefore := encExpr(parsed)
	d := trans.Desugar(parsed)
	plain := encExpr(d)
	pc := pipelineCase(eng, vars, vals, src, human, tag, d)
	ty, cerr := checkExpr(eng, vars, d)
	cc := Case{Human: "check " + human, Tags: []string{tag}}
	// the parsed tree must be left untouched by desugaring AND by what is done to its result
	// (the checker annotates the desugared tree in place: aliasing would show here)
	if encExpr(parsed) != parsedBefore {
		cc.Oracle, cc.OracleID = "type-checking the desugared tree changed the original parsed tree (the desugared tree shares nodes with it)", "desugar-aliases-input"
	}
	// … and desugaring the same parsed tree AGAIN gives the plain tree again: a result that carries
	// the annotations of the first one shares nodes with it (two compilations of one parsed tree
	// against different environments would then see each other's resolutions)
	if cc.OracleID == "" {
		if again := safely(func() string { return encExpr(trans.Desugar(parsed)) }); again != plain {
			cc.Oracle, cc.OracleID = "desugaring the same parsed tree a second time, after the first result was type-checked, does not give the plain desugared tree again (the results share nodes)", "desugar-aliases-input"
		}
	}
	cc.Req = sxList("check", eng.funsx, encTVars(vars), plain)
	cc.Nontriv = true
	if cerr != nil {
		cls := classifyCheckErr(cerr)
		cc.Want = sxList("err", cls)
		cc.Tags = append(cc.Tags, "check:reject:"+strings.SplitN(cls, ":", 2)[0])
		if strings.HasPrefix(cls, "internal:") {
			cc.Oracle, cc.OracleID = "type checker fails with an internal fault: "+cls, "check-internal-fault"
		}
		return append(out, cc, pc)
	}
	cc.Want = sxList("ok", encTy(ty), encExpr(d))
	cc.Tags = append(cc.Tags, "check:accept", "type:"+ty.Kind.String())
	out = append(out, cc, pc)

	rc := Case{Human: "run " + human, Tags: []string{tag}, Nontriv: true}
	rc.Req = sxList("run", "plain", eng.funsx, encVars(vars, vals), externsFor(d), encExpr(d))
	outs := make([]outcome, len(backends))
	for i, b := range backends {
		outs[i] = runBackend(b, eng, d, vals, ty)
	}
	ref := outs[0]
	rc.Want = ref.line()
	if ref.class == "ok" {
		rc.Tags = append(rc.Tags, "run:ok")
	} else {
		rc.Tags = append(rc.Tags, "run:fail:"+strings.Trim(strings.SplitN(ref.class, " ", 2)[0], "()"))
	}
	// every oracle that fires is reported (each property owns different classes)
	type hit struct{ id, what string }
	var hits []hit
	add := func(id, what string) {
		for _, h := range hits {
			if h.id == id {
				return
			}
		}
		hits = append(hits, hit{id, what})
	}
	for i, o := range outs {
		bn := backends[i].name
		switch {
		case o.class == "refused":
			if !strings.Contains(o.msg, "overflow") {
				add("compile-internal-fault", bn+" refuses to compile an accepted program: "+o.msg)
			}
			rc.Tags = append(rc.Tags, "run:refused:"+bn)
		case o.class == "ok" && o.wf != "":
			add("wf", bn+": "+o.wf)
		case o.addr != "":
			add("address-in-text", bn+": a produced text contains a memory address (it cannot depend on the contents only): "+o.addr)
		case strings.HasPrefix(o.class, "(stuck"):
			id := "internal-fault"
			if bn == "vm-callthread" && strings.Contains(o.msg, "over exec limit") {
				id = "callthread-exec-limit"
			}
			add(id, bn+" fails with an internal fault: "+o.msg)
		}
	}
	for i := 1; i < len(outs); i++ {
		if outs[i].class == "refused" {
			continue
		}
		if backends[i].name == "vm-callthread" && strings.Contains(outs[i].msg, "over exec limit") {
			continue // reported as callthread-exec-limit
		}
		if outs[i].line() != ref.line() {
			id := "backend-divergence"
			// the sequence of host-function invocations alone (property C06)
			if strings.Join(callsOnly(outs[i].events), " ") != strings.Join(callsOnly(ref.events), " ") {
				id = "backend-divergence-calls"
			}
			add(id, fmt.Sprintf("%s and %s differ: %s vs %s", backends[0].name, backends[i].name, short(ref.line()), short(outs[i].line())))
		}
	}
	out = append(out, rc)
	for i, h := range hits {
		if i == 0 {
			out[len(out)-1].Oracle, out[len(out)-1].OracleID = h.what, h.id
			continue
		}
		out = append(out, Case{Human: rc.Human, Want: "oracle", Oracle: h.what, OracleID: h.id, Tags: []string{"extra-oracle-hit"}})
	}
	return out
}

func evalCasesUnused() {}

func unusedTail(out []Case, rc Case) []Case {
	return append(out, rc)
}

func short(s string) string {
	if len(s) > 300 {
		return s[:300] + "…"
	}
	return s
}

func pickHosts(r *rand.Rand) []hostDecl {
	var hs []hostDecl
	for _, i := range r.Perm(len(hostZoo)) {
		if r.Intn(3) != 0 {
			hs = append(hs, hostZoo[i])
		}
	}
	return hs
}

func genVals(r *rand.Rand, vars []envVar) map[string]*val.Val {
	vg := &valGen{r: r, special: true}
	m := map[string]*val.Val{}
	for _, v := range vars {
		m[v.Name] = vg.gen(v.Ty, true)
	}
	return m
}

var targetTypes = []*T{tNum, tNum, tStr, tBool, tBool, tTime, tList(tNum), tList(tStr), tMap(tStr, tNum), tMap(tNum, tStr),
	tObj(TF{"a", tNum}, TF{"b", tStr}), tList(tObj(TF{"a", tNum}, TF{"b", tStr})), tList(tList(tNum)), tList(tList(tStr)), tMap(tStr, tList(tStr))}

var fixedPrograms = []string{
	// the empty literals ([] : list[⊥], [:] : map[⊥,⊥]) next to typed operands of one type variable
	`union([], xs)`, `union([], [1, 2])`, `union(xs, [])`, `intersect([], xs)`, `diff([], xs)`, `union([], xs) == xs`, `len(union([], ss))`,
	`get([], 0, n1)`, `get([:], s1, n1)`, `xs == []`, `[] == xs`, `[:] == m`, `[[], xs]`, `[xs, []]`, `if(b1, [], xs)`, `union([[]], [xs])`, `union([], xs)[0] + 1`,
	`[{a:1,b:"x"},{b:"y",a:2}][1].a`,
	`[{a:1,b:"x"},{b:"y",a:2}][1].a + 1`,
	`["a":1,"a":2]["a"]`,
	`get([1,2], 0-1, 0)`,
	`get(xs, 0/0, 7)`,
	`get(xs, 1e30, 7)`,
	`string(1e30)`,
	`[1e30:1, 2e30:2]`,
	`union([1e30],[2e30])`,
	`1/0`,
	`string(["a":1,"b":2,"c":3,"d":4])`,
	`union([1,2],[2,3])`,
	`{c:1,a:2,b:3}`,
	`[xs, xs]`,
	`string([xs, xs])`,
	`1/0 == 1/0`,
	`[0/0] == [0/0]`,
	`1 % 0`,
	`[1,2][5]`,
	`m["nokey"]`,
	`if(isset(m,"k1"), m["k1"], 0)`,
	`match("[", "a")`,
	`o.c.x + os[0].a`,
	`get(mb, 5) + get(ms, "d").len()`,
	`om.p`,
	`1 < 2 && 2 < 3 || false`,
	`!b1 ? n1 : n2`,
	`len("中文") + len([1,2,3]) + len(["a":1])`,
	`'2020-01-02' < t1`,
	`t1 - t2`,
	`string(t1)`,
	`string(o)`,
	`string(mb)`,
	`max([]) `,
	`min(xs) + max(xs)`,
	`2 ^ 3 ^ 2`,
	`0x10 + 0b11 + 0o7`,
	`round(2.5) + round(0-2.5) + floor(0-0.5) + ceil(0.5)`,
	`intersect([1,2,2,3],[3,2]) == [2,3]`,
	`len(union([["a, b"]], [["a", "b"]]))`, `intersect([["a, b"]], [["a", "b"]])`, `diff([["x", "y: z"]], [["x, y", "z"]])`,
	`len(union([["k": "x, \"y\": z"]], [["k": "x", "y": "z"]]))`, `union([{a: "1, b: 2"}], [{a: "1"}])`,
	`isset([0: "zero"], ceil(0-0.5))`, `get([0: "zero"], round(0-0.2), "dflt")`, `[0: "zero"][0*(0-1)]`, `len([0: "a", 0*(0-1): "b"])`,
	`string([4611686018427387904: 1])`, `[4611686018427387904: 1, 4611686018427388000: 2]`,
	`diff(["a","b"],["b"])`,
	`["k1":1] == ["k1":1.0000000001]`,
	`(0-7) % 3`,
	`7.9 % 2.1`,
	`1e30 % 7`,
	`min(0/0, 1)`, `max(0/0, 1)`, `min(1, 0/0)`, `max(0-1/0, 0/0)`, `min(1/0, 0/0)`,
	`1 / min(0*(0-1), 0)`, `1 / max(0, 0*(0-1))`, `1 / min(0, 0*(0-1))`, `string(max(0*(0-1), 0*(0-1)))`,
	`abs(0*(0-1))`, `1/abs(0*(0-1))`, `round(0-0.4)`, `1/round(0-0.4)`, `1/ceil(0-0.5)`, `floor(0/0)`,
	`min([0/0, 1])`, `max([1, 0/0])`, `min([0, 0*(0-1)])`,
	`(0/0) == (0/0)`, `(0/0) != (0/0)`, `(0/0) < 1`, `(0/0) >= 1`, `(1/0) == (1/0)`, `(1/0) != (1/0)`, `(1/0) > 1e308`,
	`!(n1 == n2)`, `!(n1 != n2)`, `!(n1 < n2)`, `!((0/0) < 1)`, `!((1/0) == (1/0))`,
}

// effectPrograms: every operator and every operand position with OBSERVABLE operands (tracing
// host calls, failing operations) next to literals and next to each other — the programs on which
// an "algebraic simplification", a peephole, a reordering of operands, fields or arguments, or a
// dropped operand shows in the trace of host calls or in which failure is reported, although the
// VALUE of the expression stays right.  Engine: hostZoo (tr, trs, trb trace; boom fails).
func effectPrograms() []string {
	var ps []string
	add := func(xs ...string) { ps = append(ps, xs...) }
	// short-circuit operators and conditionals: observable operand against each literal, both sides
	for _, op := range []string{"&&", "||"} {
		for _, lit := range []string{"true", "false"} {
			add("trb(b1) "+op+" "+lit, lit+" "+op+" trb(b1)", "(tr(1) > 0) "+op+" "+lit, lit+" "+op+" (boom(1) > 0)",
				"(boom(1) > 0) "+op+" "+lit, "([1][tr(5)] > 0) "+op+" "+lit, "(trb(true) "+op+" "+lit+") "+op+" trb(false)",
				"!(trb(b1) "+op+" "+lit+")", "lz(tr(1), tr(2)) > 0 "+op+" "+lit)
		}
		add("trb(true) "+op+" trb(false)", "trb(false) "+op+" trb(true)", "trb(b1) "+op+" trb(b1) "+op+" trb(!b1)")
	}
	for _, c := range []string{"true", "false", "trb(true)", "trb(false)", "b1"} {
		add("if("+c+", tr(1), tr(2))", c+" ? tr(1) : tr(2)", "if("+c+", tr(1), boom(2))", c+" ? boom(1) : tr(2)",
			"if("+c+", 1, 2) + tr(3)", "if("+c+", if("+c+", tr(1), tr(2)), tr(3))")
	}
	add("!trb(true)", "!!trb(false)", "!(tr(1) < tr(2))", "!(tr(1) == tr(2))", "0 - tr(1)", "-tr(1)", "+tr(1)")
	// strict binary operators: left then right, each once — also with a literal or a failing side
	for _, op := range []string{"+", "-", "*", "/", "%", "^", "==", "!=", "<", "<=", ">", ">="} {
		add("tr(1) "+op+" tr(2)", "tr(2) "+op+" 1", "1 "+op+" tr(2)", "tr(1) "+op+" boom(2)", "boom(1) "+op+" tr(2)",
			"[1,2][tr(7)] "+op+" tr(8)", "tr(1) "+op+" tr(2) "+op+" tr(3)", "tr(0) "+op+" 0", "0 "+op+" tr(0)", "tr(1) "+op+" 1")
	}
	for _, op := range []string{"+", "==", "!=", "<", ">"} {
		add("trs(\"a\") " + op + " trs(\"b\")")
	}
	add("t1 > t2 == (tr(1) > tr(2))", "(t1 - t2) + tr(1)", "min(tr(1), tr(2))", "max(tr(2), tr(1))", "tr2(tr(1), tr(2))",
		"tr2(boom(1), tr(2))", "tr2(tr(1), boom(2))", "idp(tr(1)) + idp(tr(2))")
	// literals: elements, entries and fields in SOURCE order (fields deliberately not alphabetical)
	add("[tr(1), tr(2), tr(3)]", "[tr(3), boom(2), tr(1)]", "[tr(2): tr(1), tr(4): tr(3)]", "[trs(\"b\"): tr(1), trs(\"a\"): tr(2)]",
		"{b: tr(1), a: tr(2)}", "{z: tr(1), m: tr(2), a: tr(3)}.m", "{z: [0][tr(5)], a: tr(6)}.a", "{b: boom(1), a: tr(2)}",
		"{b: {d: tr(1), c: tr(2)}, a: tr(3)}", "[{b: tr(1), a: tr(2)}, {a: tr(3), b: tr(4)}]", "[[tr(1)], [tr(2), tr(3)]]",
		"[tr(1), tr(2)][tr(0)]", "[tr(1): tr(2)][tr(1)]", "[tr(1)][tr(9)]", "[tr(1): 2][tr(3)]", "{a: tr(1)}.a + tr(2)")
	// entries whose LITERAL key is repeated later in the same literal (the later one wins in the
	// value): the shadowed value is still an operand, evaluated once, in source order, and its
	// failure is the failure of the literal
	add(`["a": tr(1), "b": tr(2), "a": tr(3)]`, `["a": [1, 2][tr(5)], "a": 0]`, `[1: tr(1), 1: tr(2)]`, `[true: tr(1), true: boom(2)]`,
		`["a": boom(1), "a": 0]`, `["a": tr(1), "a": tr(2)]["a"]`, `len(["k": tr(1), "k": tr(2), "k": tr(3)])`, `[1: tr(1), 2: tr(2), 1.0: tr(3)]`)
	// calls: arguments left to right, once; lazy host functions force what they force
	add("lz(tr(1), tr(2))", "lz2(tr(1), tr(2))", "lzb(trb(true), tr(1), tr(2))", "lzb(trb(false), tr(1), tr(2))", "pick2(tr(1), tr(2))",
		"lz(lz(tr(1), tr(2)), tr(3))", "lz2(tr(1), lz2(tr(2), tr(3)))", "lz(boom(1), tr(2))", "lz(tr(1), boom(2))", "cnst() + tr(1)",
		"get([tr(1)], tr(0), tr(9))", "get([tr(1): tr(2)], tr(1), tr(9))", "isset([tr(1): 2], tr(1))", "union([tr(1)], [tr(2)])",
		"len([tr(1), tr(2)])", "string(tr(1)) + string(tr(2))", "tr(1).tr2(tr(2))", "tr(tr(tr(1)))", "tr(1) + tr(1) + tr(1)")
	return ps
}

// constants that are == (tolerance, rendering of integers, equal instants) but not identical:
// anything that merges, interns or caches constants by == rather than by identity shows here
var nearEqualConstPrograms = []string{
	`(1.0000000001 - 1) * 1000000000000`, `[0.25, 0.2500000001, 0.25]`, `0 + 1e-10 * 1e10`, `0.0000000002 / 0.0000000001`,
	`["a": 3, "b": 3.0000000004]["b"] * 1e10 - 3e10`, `if(n1 > 1, 0.0000000002 / 0.0000000001, 0.0000000001)`, `lz(1.0000000001, 1) - 1`,
	`[1, 1.0000000001][1] == 1`, `(1.0000000001 - 1.0000000002) * 1e12`, `1e-10 + 2e-10 + 3e-10 == 6e-10`, `[1e-10, 2e-10, 3e-10]`,
	`len(union([1e-10], [2e-10]))`, `[1e-10: "a", 2e-10: "b"]`, `len([0.1: 1, 0.10000000001: 2])`, `1 / (0 * (0 - 1)) + 1 / 0`,
	`[0, 0 * (0 - 1)]`, `[7, 7.0, 7.00000000001][2] - 7`, `"a" + "a" == "aa" && "a" != "a "`, `["x", "x"][1] + "x"`,
	`[9007199254740992, 9007199254740993, 9007199254740994]`, `9007199254740993 - 9007199254740992`,
	`['2020-01-01 00:00:00', '2020-01-01T00:00:00'][1] == '2020-01-01 00:00:00'`,
}

// powers at the edges of what an integer fast path, a loop over the bits of the exponent or a
// conversion to int64 can get wrong (all results exactly representable: 0, 1, ±Inf, or exact)
var powBoundaryPrograms = []string{
	`2 ^ (0 - 9223372036854775808)`, `2 ^ 9223372036854775807`, `10 ^ (0 - 9223372036854775808)`, `1 ^ (0 - 9223372036854775808)`,
	`2 ^ (0 - 9223372036854775807)`, `0.5 ^ 9223372036854775808`, `(0 - 1) ^ 9007199254740992`, `(0 - 1) ^ 9007199254740993`,
	`2 ^ (0 - 1e300)`, `2 ^ 1e300`, `1 ^ 1e300`, `0 ^ 0`, `0 ^ (0 - 1)`, `(0 - 8) ^ (1 / 3)`, `4 ^ 0.5`, `2 ^ 10`, `2 ^ (0 - 2)`, `2 ^ 1024`,
	`2 ^ 1023 * 2`, `2 ^ (0 - 1074)`, `2 ^ (0 - 1075)`, `n2 ^ (0 - 9223372036854775808)`, `(1 / 0) ^ 0`, `(0 / 0) ^ 0`, `1 ^ (0 / 0)`,
	`9223372036854775807 % 2`, `(0 - 9223372036854775808) % 3`, `7 % (0 - 9223372036854775808)`, `abs(0 - 9223372036854775808)`,
	`round(9223372036854775807)`, `floor(0 - 9223372036854775808.5)`, `xs[9223372036854775807]`, `get(xs, 0 - 9223372036854775808, 1)`,
}

var optionalPrograms = []string{
	`[mb] == [mb2]`, `[mb] != [mb2]`, `[mb2] == [mb]`, `["k": mb] == ["k": mb2]`, `{x: mb} == {x: mb2}`, `om == om2`, `om != om2`,
	`[om] == [om2]`, `[om.p] == [om2.p]`, `[ms] == [ms]`, `[[mb], [mb2]] == [[mb2], [mb]]`, `len(union([mb], [mb2]))`, `len(intersect([mb], [mb2]))`,
	`len(diff([mb, mb2], [mb]))`, `string([mb, mb2])`, `string(om) + string(om2)`, `get(mb, 0) == get(mb2, 0)`, `get(om.p, "") == get(om2.p, "")`,
	`if(b1, mb, mb2)`, `[mb, mb2][1]`, `get([mb], 0, mb2)`, `isset(["k": mb], "k")`, `["a": mb, "b": mb2]["b"]`, `{p: mb, q: mb2}.q`,
	// one variable of a composite type mentioned twice in the first row (its type is then ONE node
	// occurring twice in the expected type), an optional in the place of the second occurrence in
	// a later row: must be rejected
	`[{a: om, b: om}, {a: om2, b: om.p}]`, `[{a: om, b: om}, {a: om2, b: mb}]`, `[{a: xs, b: xs}, {a: [1], b: mb}]`,
	`[{a: os, b: os}, {a: [{a: 1, b: ""}], b: ms}][1].b[0]`, `len([{a: xs, b: xs}, {a: [1], b: mb}][1].b)`,
	`["k": {a: m, b: m}, "j": {a: ["x": 1], b: ms}]`, `[[xs, xs], [[1], [mb]]]`, `[{a: om, b: om}, {a: om2, b: om2}][1].b.q`,
	`[{a: xs, b: xs}, {a: [1], b: [2]}][1].b[0]`, `if(b1, {a: ss, b: ss}, {a: [""], b: ms})`,
}

func init() {
	register(&Stream{
		Name: "eval",
		Rule: "type-directed random source programs (depth<=4) over an 18-variable environment family (numbers incl. NaN/±Inf/2^53/2^63 edges, non-ASCII strings, times in three zones, lists, maps, objects with permuted field order, optionals present/absent), a random subset of 12 host functions (strict, lazy, polymorphic, failing, overloading built-ins) registered in random order, boundary index/modulus pools, plus type-breaking mutants, a fixed corpus and the effects family (every operator, operand position, literal / argument / field position with observable operands — tracing and failing host calls — next to literals and to each other); every accepted program is run on closure, interp, vm and vm-callthread. Non-trivial = parses; distinct = distinct request.",
		Gen: func(r *rand.Rand, n int, thorough bool) []Case {
			var cs []Case
			stats := map[string]int{}
			// fixed corpus on a fixed engine
			eng := newEngine(hostZoo)
			vals := genVals(r, envFamily)
			for _, p := range fixedPrograms {
				cs = append(cs, evalCases(eng, envFamily, vals, p, "prog:fixed")...)
			}
			cs = append(cs, specialCases()...)
			for _, p := range effectPrograms() {
				cs = append(cs, evalCases(eng, envFamily, vals, p, "prog:effects")...)
			}
			for _, p := range nearEqualConstPrograms {
				cs = append(cs, evalCases(eng, envFamily, vals, p, "prog:near-equal-constants")...)
			}
			for _, p := range powBoundaryPrograms {
				cs = append(cs, evalCases(eng, envFamily, vals, p, "prog:pow-boundary")...)
			}
			// optionals that are never consumed: equality, containers, set functions and string
			// conversion over present and absent values of one optional type (several draws, so
			// that present / absent, absent / present, both and neither all occur)
			for draw := 0; draw < 8; draw++ {
				ovals := genVals(r, envFamily)
				for _, p := range optionalPrograms {
					cs = append(cs, evalCases(eng, envFamily, ovals, p, "prog:optionals")...)
				}
			}
			for i := 0; i < n; i++ {
				if i%20 == 0 {
					eng = newEngine(pickHosts(r))
					vals = genVals(r, envFamily)
				}
				g := &progGen{r: r, vars: envFamily, hosts: eng.hosts, stats: stats, sugar: true}
				depth := 1 + r.Intn(4)
				t := targetTypes[r.Intn(len(targetTypes))]
				src := g.gen(t, depth)
				tag := "prog:typed"
				if r.Intn(5) == 0 {
					src = g.breakType(src)
					tag = "prog:mutant"
				}
				cs = append(cs, evalCases(eng, envFamily, vals, src, tag)...)
			}
			for k, v := range stats {
				cs = append(cs, Case{Human: "generator-stat " + k, Want: fmt.Sprint(v), Tags: []string{"gen:" + k}})
			}
			return cs
		},
	})
}

// safeWf: the well-formedness walk itself can fault on a value whose tag lies about its layout.
func safeWf(v *val.Val, want *types.Type) (res string) {
	defer func() {
		if r := recover(); r != nil {
			res = fmt.Sprintf("walking the result faults (a tag that does not match the value's layout): %v", r)
		}
	}()
	return wfVal(v, want, "result")
}

func callsOnly(evs []string) []string {
	var xs []string
	for _, e := range evs {
		if strings.HasPrefix(e, "(call ") {
			xs = append(xs, e)
		}
	}
	return xs
}

var reAddr = regexp.MustCompile(`@0x[0-9a-f]{6,}|recursive-(val|type)`)

// addrInText looks for memory addresses in string results (any depth) and in printed output.
func addrInText(v *val.Val, printed string) (found string) {
	defer func() { recover() }()
	if m := reAddr.FindString(printed); m != "" {
		return m
	}
	var walk func(v *val.Val, depth int) string
	walk = func(v *val.Val, depth int) string {
		if v == nil || v.Type == nil || depth > 6 {
			return ""
		}
		switch v.Type.Kind {
		case types.KStr:
			return reAddr.FindString(v.Str().V)
		case types.KList:
			for _, x := range v.List().V {
				if r := walk(x, depth+1); r != "" {
					return r
				}
			}
		case types.KObj:
			for _, x := range v.Obj().V {
				if r := walk(x, depth+1); r != "" {
					return r
				}
			}
		case types.KMap:
			for _, x := range v.Map().V {
				if r := walk(x, depth+1); r != "" {
					return r
				}
			}
		}
		return ""
	}
	return walk(v, 0)
}
