package main

import (
	"fmt"
	"math/rand"
	"reflect"
	"strings"
	"time"

	"github.com/goghcrow/yae"
	"github.com/goghcrow/yae/conv"
	"github.com/goghcrow/yae/interp"
	"github.com/goghcrow/yae/types"
	"github.com/goghcrow/yae/val"
)

// Host environment used through the public API (struct and map forms of the same data).
type hostInner struct {
	X float64 `yae:"x"`
	Y bool    `yae:"y"`
}
type hostEnv struct {
	N1 float64            `yae:"n1"`
	N2 int                `yae:"n2"`
	S1 string             `yae:"s1"`
	B1 bool               `yae:"b1"`
	T1 time.Time          `yae:"t1"`
	Xs []float64          `yae:"xs"`
	Ss []string           `yae:"ss"`
	M  map[string]float64 `yae:"m"`
	O  hostInner          `yae:"o"`
	Mb *float64           `yae:"mb,maybe"`
}

func genHostEnv(r *rand.Rand) hostEnv {
	f := func() float64 { return hostNumPool[r.Intn(len(hostNumPool))] }
	h := hostEnv{N1: f(), N2: r.Intn(10), S1: hostStrPool[r.Intn(len(hostStrPool))], B1: r.Intn(2) == 0,
		T1: time.Unix(int64(r.Intn(2000000000)), 0).UTC(), O: hostInner{f(), r.Intn(2) == 0}}
	h.Xs = []float64{}
	for i := r.Intn(5); i > 0; i-- { // possibly empty
		h.Xs = append(h.Xs, f())
	}
	h.Ss = []string{}
	for i := r.Intn(4); i > 0; i-- { // possibly empty
		h.Ss = append(h.Ss, hostStrPool[r.Intn(len(hostStrPool))])
	}
	h.M = map[string]float64{}
	for _, k := range []string{"k1", "k2", "k3", "a", "b", "c"} {
		if r.Intn(2) == 0 {
			h.M[k] = f()
		}
	}
	if r.Intn(2) == 0 {
		v := f()
		h.Mb = &v
	}
	return h
}

func copyHostEnv(h hostEnv) hostEnv {
	c := h
	c.Xs = append([]float64{}, h.Xs...)
	c.Ss = append([]string{}, h.Ss...)
	c.M = map[string]float64{}
	for k, v := range h.M {
		c.M[k] = v
	}
	if h.Mb != nil {
		v := *h.Mb
		c.Mb = &v
	}
	return c
}

var historyVars = []envVar{
	{"n1", tNum}, {"n2", tNum}, {"s1", tStr}, {"b1", tBool}, {"t1", tTime}, {"xs", tList(tNum)}, {"ss", tList(tStr)},
	{"m", tMap(tStr, tNum)}, {"o", tObj(TF{"x", tNum}, TF{"y", tBool})}, {"mb", tMaybe(tNum)},
}

func describe(v *val.Val, err error) string {
	if err != nil {
		msg := err.Error()
		if len(msg) > 80 {
			msg = msg[:80]
		}
		// addresses never appear in well-behaved messages; keep the text
		return "error: " + msg
	}
	return safely(func() string { return v.String() + " : " + v.Type.String() })
}

type histOp struct {
	kind string // compile | invoke
	expr int
	env  int
	call int
}

// runHistory plays ops on one shared engine with shared environment objects and returns the
// outputs; fresh=true plays every op on a new engine with fresh copies instead.
func historyCase(r *rand.Rand, progs []string, idx int) Case {
	if guardBegin("history " + strings.Join(progs, " ; ")) {
		return crashCase("history " + strings.Join(progs, " ; "))
	}
	defer guardEnd()
	nenv := 3
	hosts := make([]hostEnv, nenv)
	for i := range hosts {
		hosts[i] = genHostEnv(r)
	}
	nops := 6 + r.Intn(10)
	var ops []histOp
	ncall := 0
	for i := 0; i < nops; i++ {
		if ncall == 0 || r.Intn(3) == 0 {
			ops = append(ops, histOp{"compile", r.Intn(len(progs)), r.Intn(nenv), ncall})
			ncall++
		} else {
			ops = append(ops, histOp{"invoke", 0, r.Intn(nenv), r.Intn(ncall)})
		}
	}
	mode := []string{"struct", "typeenv", "map"}[r.Intn(3)]
	backendName := []string{"vm", "closure", "interp"}[r.Intn(3)]
	newExpr := func() *yae.Expr {
		e := yae.NewExpr().RegisterFun(historyHostFuns()...)
		switch backendName {
		case "closure":
			e.UseClosureCompiler()
		case "interp":
			e.UseCompiler(interp.Interp)
		}
		return e
	}
	var human []string
	for _, o := range ops {
		if o.kind == "compile" {
			human = append(human, fmt.Sprintf("c%d=compile(%q,env%d)", o.call, progs[o.expr], o.env))
		} else {
			human = append(human, fmt.Sprintf("c%d(env%d)", o.call, o.env))
		}
	}
	c := Case{Human: "history[" + mode + "/" + backendName + "] " + strings.Join(human, "; "), Tags: []string{"history:" + mode, "history:" + backendName}, Nontriv: true}

	// shared objects
	shared := newExpr()
	tenvs := make([]*types.Env, nenv)
	venvs := make([]*val.Env, nenv)
	maps := make([]map[string]interface{}, nenv)
	before := make([]hostEnv, nenv)
	for i := range hosts {
		before[i] = copyHostEnv(hosts[i])
		tenvs[i], _ = conv.TypeEnvOf(hosts[i])
		venvs[i], _ = conv.ValEnvOf(hosts[i])
		maps[i] = mapOfHost(hosts[i])
	}
	compEnv := func(i int) interface{} {
		switch mode {
		case "typeenv":
			return tenvs[i]
		case "map":
			return maps[i]
		}
		return hosts[i]
	}
	runEnv := func(i int) interface{} {
		switch mode {
		case "typeenv":
			return venvs[i]
		case "map":
			return maps[i]
		}
		return hosts[i]
	}
	// fresh copies in the same form
	freshComp := func(i int) interface{} {
		h := copyHostEnv(before[i])
		switch mode {
		case "typeenv":
			e, _ := conv.TypeEnvOf(h)
			return e
		case "map":
			return mapOfHost(h)
		}
		return h
	}
	freshRun := func(i int) interface{} {
		h := copyHostEnv(before[i])
		switch mode {
		case "typeenv":
			e, _ := conv.ValEnvOf(h)
			return e
		case "map":
			return mapOfHost(h)
		}
		return h
	}
	calls := map[int]yae.Callable{}
	callSrc := map[int]int{}
	var outShared, outFresh []string
	var stdout string
	panicked := ""
	stdout = captureStdout(func() {
		defer func() {
			if r := recover(); r != nil {
				panicked = fmt.Sprint(r)
			}
		}()
		for _, o := range ops {
			if o.kind == "compile" {
				cl, err := shared.Compile(progs[o.expr], compEnv(o.env))
				calls[o.call] = cl
				callSrc[o.call] = o.expr
				if err != nil {
					outShared = append(outShared, "compile-error: "+trim(err.Error()))
				} else {
					outShared = append(outShared, "compiled")
				}
				// fresh baseline
				_, ferr := newExpr().Compile(progs[o.expr], freshComp(o.env))
				if ferr != nil {
					outFresh = append(outFresh, "compile-error: "+trim(ferr.Error()))
				} else {
					outFresh = append(outFresh, "compiled")
				}
			} else {
				cl := calls[o.call]
				if cl == nil {
					outShared = append(outShared, "no-callable")
					outFresh = append(outFresh, "no-callable")
					continue
				}
				v1, e1 := cl(runEnv(o.env))
				v2, e2 := cl(runEnv(o.env)) // repeated: map iteration order and reuse
				a, b := describe(v1, e1), describe(v2, e2)
				if a != b {
					a = a + " / repeated: " + b
				}
				outShared = append(outShared, a)
				fcl, ferr := newExpr().Compile(progs[callSrc[o.call]], freshComp(o.env))
				if ferr != nil {
					outFresh = append(outFresh, "no-callable")
				} else {
					v, e := fcl(freshRun(o.env))
					outFresh = append(outFresh, describe(v, e))
				}
			}
		}
	})
	c.Want = "ok"
	switch {
	case panicked != "":
		c.Oracle, c.OracleID = "a panic escaped the public API: "+panicked, "history-panic"
	case strings.Join(outShared, "\n") != strings.Join(outFresh, "\n"):
		for i := range outShared {
			if i < len(outFresh) && outShared[i] != outFresh[i] {
				c.Oracle = fmt.Sprintf("op %d (%s): shared objects give %q, fresh objects give %q", i, human[i], outShared[i], outFresh[i])
				break
			}
		}
		c.OracleID = "history-differs"
		if strings.Contains(c.Oracle, "env.parent != nil") {
			c.OracleID = "history-env-unusable"
		}
	case stdout != "" && !anyPrint(progs, ops):
		c.Oracle, c.OracleID = "evaluation wrote to standard output without print: "+trim(stdout), "history-stdout"
	default:
		for i := range hosts {
			if !reflect.DeepEqual(hosts[i], before[i]) {
				c.Oracle, c.OracleID = fmt.Sprintf("host value env%d was modified", i), "history-mutates-host"
			}
		}
	}
	return c
}

// historyHostFuns: host functions registered on every engine of the history stream — strict,
// lazy (forcing one, both, or one of two by a condition) and polymorphic — so that whatever an
// engine or a compiled expression remembers about a call (thunks, caches) is exercised by the
// repeated and interleaved invocations with different environments.  Pure: no output, no state.
func historyHostFuns() []*val.Val {
	num2 := []*types.Type{types.Num, types.Num}
	a := types.TyVar("a")
	return []*val.Val{
		val.Fun(types.Fun("hid", []*types.Type{types.Num}, types.Num), func(x ...*val.Val) *val.Val { return x[0] }),
		val.Fun(types.Fun("hadd", num2, types.Num), func(x ...*val.Val) *val.Val { return val.Num(x[0].Num().V + x[1].Num().V) }),
		val.LazyFun(types.Fun("hfst", num2, types.Num), func(x ...*val.Val) *val.Val { return x[0].Fun().Call() }),
		val.LazyFun(types.Fun("hboth", num2, types.Num), func(x ...*val.Val) *val.Val {
			return val.Num(x[0].Fun().Call().Num().V*1000 + x[1].Fun().Call().Num().V + x[1].Fun().Call().Num().V)
		}),
		val.LazyFun(types.Fun("hpick", []*types.Type{types.Bool, a, a}, a), func(x ...*val.Val) *val.Val {
			if x[0].Fun().Call().Bool().V {
				return x[1].Fun().Call()
			}
			return x[2].Fun().Call()
		}),
	}
}

var historyHostPrograms = []string{
	`hpick(b1, n1 + 1, n2 * 2)`, `hfst(n1 + n2, n2)`, `hboth(n1, n2 + 1)`, `hpick(o.y, s1, "z") + s1`, `hid(n1) + hadd(n2, len(xs))`,
	`hpick(b1, xs, [n1])`, `hfst(hboth(n1, n2), n1)`, `if(b1, hfst(n1, 0), hboth(n2, n1))`, `hpick(n1 > n2, o.x, get(m, "k1", n2))`,
}

func mapOfHost(h hostEnv) map[string]interface{} {
	m := map[string]interface{}{"n1": h.N1, "n2": h.N2, "s1": h.S1, "b1": h.B1, "t1": h.T1,
		"xs": h.Xs, "ss": h.Ss, "m": h.M, "o": h.O}
	return m
}

func anyPrint(progs []string, ops []histOp) bool {
	for _, o := range ops {
		if o.kind == "compile" && strings.Contains(progs[o.expr], "print") {
			return true
		}
	}
	return false
}

func trim(s string) string {
	if len(s) > 100 {
		return s[:100]
	}
	return s
}

func init() {
	register(&Stream{
		Name: "history",
		Rule: "random sequences (6-15 operations) of Compile / invoke on ONE engine with three shared environment objects (host structs, *types.Env/*val.Env pairs, or map[string]interface{}), each invoke run twice; every output is compared with the same operation on a fresh engine with fresh copies; stdout captured; host values deep-compared before/after. Every engine has five pure host functions registered (strict, lazy forcing one / both / one of two, polymorphic) and a third of the programs call them. Programs come from the type-directed generator over the host environment (maps with several entries included). Non-trivial = every case; distinct = distinct operation sequence.",
		Gen: func(r *rand.Rand, n int, thorough bool) []Case {
			var cs []Case
			stats := map[string]int{}
			for i := 0; i < n; i++ {
				g := &progGen{r: r, vars: historyVars[:len(historyVars)-1], stats: stats, sugar: true}
				var progs []string
				for j := 0; j < 4; j++ {
					t := targetTypes[r.Intn(len(targetTypes))]
					src := g.gen(t, 1+r.Intn(3))
					if r.Intn(3) == 0 {
						src = "string(" + g.gen(tMap(tStr, tNum), 1) + ")"
					}
					if r.Intn(8) == 0 {
						src = g.breakType(src)
					}
					if r.Intn(3) == 0 {
						src = historyHostPrograms[r.Intn(len(historyHostPrograms))]
					}
					progs = append(progs, src)
				}
				cs = append(cs, historyCase(r, progs, i))
			}
			return cs
		},
	})
}
