package main

import (
	"fmt"
	"math/rand"
	"regexp"
	"strconv"
	"strings"
	"unicode"

	"github.com/goghcrow/yae/parser/lexer"
	"github.com/goghcrow/yae/parser/oper"
	"github.com/goghcrow/yae/parser/token"
)

// ---------------------------------------------------------------------------------------
// lex stream (property C09): lexer.NewLexer(ops).Lex(src) against the Lean model `Yae.lex`.
//
//   request : (lex ((<$kind> <#bp> <fixity>) ...) <$src>)
//   answer  : (ok (tok <$kind> <$lexeme> idx idxEnd col line) ...) | (err syntax)
//
// Implementation-side oracles (independent of the model):
//   lex-partition : tokens in source order, non-empty, non-overlapping, only white space
//                   between/around them, span == lexeme, Line/Col == cursor of the prefix
//   lex-word      : `true`/`false`/identifier-like operator tokens are whole words
//   lex-longest   : a symbolic user-operator token is the longest registered symbolic
//                   operator that is a prefix of the rest
//   lex-shadowed  : a punctuation / built-in `.` `?` token was produced although a longer
//                   registered symbolic operator is a prefix of the rest (e.g. `:=`)
// ---------------------------------------------------------------------------------------

type lexOpSet struct {
	name string
	ops  []oper.Operator
}

func op(k string, bp oper.BP, f oper.Fixity) oper.Operator {
	return oper.Operator{Kind: token.Kind(k), BP: bp, Fixity: f}
}

func lexOpSets() []lexOpSet {
	builtin := append([]oper.Operator{}, oper.BuiltIn()...)
	sets := []lexOpSet{
		{"builtin", builtin},
		{"empty", nil},
		// prefix-overlapping symbolic operators, given shortest first so that Sort matters
		{"overlap", []oper.Operator{
			op("<", oper.BP_CMP, oper.INFIX_N), op("<=", oper.BP_CMP, oper.INFIX_N), op("<=>", oper.BP_CMP, oper.INFIX_N),
			op("!", oper.BP_PREFIX, oper.PREFIX), op("!=", oper.BP_EQ, oper.INFIX_N), op("!==", oper.BP_EQ, oper.INFIX_N),
			op("=", oper.BP_EQ, oper.INFIX_R), op("==", oper.BP_EQ, oper.INFIX_N),
		}},
		// operators that begin with the built-in `.` / `?`
		{"dot-question", []oper.Operator{
			op(".^.", oper.BP_TERM, oper.INFIX_N), op("?:", oper.BP_COND, oper.INFIX_R), op("??", oper.BP_COND, oper.INFIX_R),
			op("?.", oper.BP_MEMBER, oper.INFIX_L), op("..", oper.BP_CMP, oper.INFIX_N), op("...", oper.BP_PREFIX, oper.PREFIX),
			op(".", oper.BP_MEMBER, oper.INFIX_L), op("^", oper.BP_EXP, oper.INFIX_R),
		}},
		// identifier-like operators (keyword rule), ASCII and not
		{"ident", []oper.Operator{
			op("and", oper.BP_LOGIC_AND, oper.INFIX_L), op("in", oper.BP_CMP, oper.INFIX_N), op("非", oper.BP_PREFIX, oper.PREFIX),
			op("or", oper.BP_LOGIC_OR, oper.INFIX_L), op("not", oper.BP_PREFIX, oper.PREFIX), op("is", oper.BP_EQ, oper.INFIX_N),
			op("a", oper.BP_TERM, oper.INFIX_L), op("a1", oper.BP_TERM, oper.INFIX_L), op("a_b", oper.BP_TERM, oper.INFIX_L),
			op("é", oper.BP_TERM, oper.INFIX_L), op("_", oper.BP_TERM, oper.INFIX_L),
		}},
		// one operator of every fixity (and NA)
		{"fixities", []oper.Operator{
			op("~", oper.BP_PREFIX, oper.PREFIX), op("<>", oper.BP_CMP, oper.INFIX_N), op("+", oper.BP_TERM, oper.INFIX_L),
			op("**", oper.BP_EXP, oper.INFIX_R), op("!", oper.BP_POSTFIX, oper.POSTFIX), op("@", oper.BP_NONE, oper.NA),
			op("-", oper.BP_PREFIX, oper.PREFIX), op("-", oper.BP_TERM, oper.INFIX_L), op("++", oper.BP_POSTFIX, oper.POSTFIX),
		}},
		// built-in plus user additions
		{"builtin+user", append(append([]oper.Operator{}, builtin...),
			op(".^.", oper.BP_TERM, oper.INFIX_N), op("as", oper.BP_TERM, oper.INFIX_N), op("<=>", oper.BP_CMP, oper.INFIX_N),
			op("!==", oper.BP_EQ, oper.INFIX_N), op("??", oper.BP_COND, oper.INFIX_R))},
		// byte length vs rune length: `≤` is 3 bytes / 1 rune, `××` 4 bytes / 2 runes, `ˆ` is a LETTER
		{"bytes-vs-runes", []oper.Operator{
			op("<=", oper.BP_CMP, oper.INFIX_N), op("≤", oper.BP_CMP, oper.INFIX_N), op("***", oper.BP_EXP, oper.INFIX_R),
			op("××", oper.BP_FACTOR, oper.INFIX_L), op("×", oper.BP_FACTOR, oper.INFIX_L), op("→", oper.BP_COND, oper.INFIX_R),
			op("ˆ", oper.BP_EXP, oper.INFIX_R), op("ˆˆ", oper.BP_EXP, oper.INFIX_R), op("中", oper.BP_TERM, oper.INFIX_L),
			op("abc", oper.BP_TERM, oper.INFIX_L), op("<", oper.BP_CMP, oper.INFIX_N), op("≤≤", oper.BP_CMP, oper.INFIX_N),
		}},
		// operators that start with punctuation (never lexed: D25) or contain it
		{"colon", []oper.Operator{
			op(":=", oper.BP_COND, oper.INFIX_R), op("::", oper.BP_TERM, oper.INFIX_R), op("=:", oper.BP_COND, oper.INFIX_R),
			op(":", oper.BP_COND, oper.INFIX_R), op("[]", oper.BP_POSTFIX, oper.POSTFIX), op("=", oper.BP_EQ, oper.INFIX_R),
			op("<:", oper.BP_CMP, oper.INFIX_N), op("<", oper.BP_CMP, oper.INFIX_N),
		}},
		// operator kinds that collide with literals and words
		{"literal-like", []oper.Operator{
			op("true", oper.BP_TERM, oper.INFIX_L), op("tru", oper.BP_TERM, oper.INFIX_L), op("e", oper.BP_TERM, oper.INFIX_L),
			op("0x", oper.BP_TERM, oper.INFIX_L), op("x1", oper.BP_TERM, oper.INFIX_L), op("'", oper.BP_TERM, oper.INFIX_L),
			op("1.", oper.BP_TERM, oper.INFIX_L), op("falsehood", oper.BP_TERM, oper.INFIX_L),
			// start with the built-in `.` / `?` but continue with a non-operator character: the
			// built-in rule comes first and wins
			op(".e", oper.BP_MEMBER, oper.INFIX_L), op("?x", oper.BP_COND, oper.INFIX_R), op("?(", oper.BP_CALL, oper.INFIX_L),
		}},
		// long and nested prefixes, reverse-sorted input and duplicates
		{"nested", []oper.Operator{
			op("-", oper.BP_TERM, oper.INFIX_L), op("->", oper.BP_COND, oper.INFIX_R), op("-->", oper.BP_COND, oper.INFIX_R),
			op("--->", oper.BP_COND, oper.INFIX_R), op(">", oper.BP_CMP, oper.INFIX_N), op(">>", oper.BP_TERM, oper.INFIX_L),
			op(">>=", oper.BP_TERM, oper.INFIX_L), op("-", oper.BP_PREFIX, oper.PREFIX), op("|>", oper.BP_TERM, oper.INFIX_L),
			op("\\", oper.BP_TERM, oper.INFIX_L), op("\\\\", oper.BP_TERM, oper.INFIX_L),
		}},
		// every character of oper.operators as an operator of its own, and pairs
		{"all-op-chars", func() []oper.Operator {
			var os []oper.Operator
			for _, r := range ":!#$%^&*+./<=>?@\\ˆ|~-" {
				os = append(os, op(string(r), oper.BP_TERM, oper.INFIX_L))
			}
			os = append(os, op("&&", oper.BP_LOGIC_AND, oper.INFIX_L), op("||", oper.BP_LOGIC_OR, oper.INFIX_L),
				op("#!", oper.BP_PREFIX, oper.PREFIX), op("$$", oper.BP_POSTFIX, oper.POSTFIX))
			return os
		}()},
		// mixed symbolic + identifier-like with the same lengths (stability of Sort)
		{"mixed-stable", []oper.Operator{
			op("in", oper.BP_CMP, oper.INFIX_N), op("<=", oper.BP_CMP, oper.INFIX_N), op("<", oper.BP_CMP, oper.INFIX_N),
			op("i", oper.BP_CMP, oper.INFIX_N), op("int", oper.BP_CMP, oper.INFIX_N), op("<=<", oper.BP_CMP, oper.INFIX_N),
			op("!in", oper.BP_CMP, oper.INFIX_N), op("!", oper.BP_PREFIX, oper.PREFIX), op("and", oper.BP_LOGIC_AND, oper.INFIX_L),
			op("&&", oper.BP_LOGIC_AND, oper.INFIX_L),
		}},
	}
	return sets
}

func encOps(ops []oper.Operator) string {
	xs := make([]string, len(ops))
	for i, o := range ops {
		xs[i] = sxList(sxStr(string(o.Kind)), sxNum(float64(o.BP)), sxInt(int(o.Fixity)))
	}
	return sxList(xs...)
}

func encToks(toks []*token.Token) string {
	xs := []string{"ok"}
	for _, t := range toks {
		xs = append(xs, sxList("tok", sxStr(string(t.Kind)), sxStr(t.Lexeme),
			sxInt(t.Pos.Idx), sxInt(t.Pos.IdxEnd), sxInt(t.Pos.Col), sxInt(t.Pos.Line)))
	}
	return sxList(xs...)
}

// runLex runs the implementation on a private copy of the operator slice (oper.Sort sorts
// its argument in place).
func runLex(ops []oper.Operator, src string) (toks []*token.Token, ok bool) {
	defer func() {
		if r := recover(); r != nil {
			toks, ok = nil, false
		}
	}()
	cp := append([]oper.Operator{}, ops...)
	return lexer.NewLexer(cp).Lex(src), true
}

func isWordRune(r rune) bool { return r == '_' || unicode.IsLetter(r) || unicode.IsDigit(r) }

var lexLiteralKinds = map[token.Kind]bool{token.SYM: true, token.NUM: true, token.STR: true, token.TIME: true}

// lexOracles checks the C09 properties on a successful run; returns (description, class).
func lexOracles(ops []oper.Operator, src string, toks []*token.Token) (string, string) {
	runes := []rune(src)
	// --- lex-partition
	cur, line, col := 0, 0, 0
	advance := func(to int) bool { // everything in [cur,to) must be white space
		for cur < to {
			if !unicode.IsSpace(runes[cur]) {
				return false
			}
			if runes[cur] == '\n' {
				line++
				col = 0
			} else {
				col++
			}
			cur++
		}
		return true
	}
	for i, t := range toks {
		p := t.Pos
		if p.Idx < cur || p.IdxEnd <= p.Idx || p.IdxEnd > len(runes) {
			return fmt.Sprintf("token %d %q has span [%d,%d) after cursor %d (len %d)", i, t.Lexeme, p.Idx, p.IdxEnd, cur, len(runes)), "lex-partition"
		}
		if !advance(p.Idx) {
			return fmt.Sprintf("non-space rune %q skipped before token %d %q", runes[cur], i, t.Lexeme), "lex-partition"
		}
		if p.Line != line || p.Col != col {
			return fmt.Sprintf("token %d %q at line %d col %d, cursor says line %d col %d", i, t.Lexeme, p.Line, p.Col, line, col), "lex-partition"
		}
		if string(runes[p.Idx:p.IdxEnd]) != t.Lexeme {
			return fmt.Sprintf("token %d lexeme %q but span is %q", i, t.Lexeme, string(runes[p.Idx:p.IdxEnd])), "lex-partition"
		}
		for cur < p.IdxEnd { // move over the token
			if runes[cur] == '\n' {
				line++
				col = 0
			} else {
				col++
			}
			cur++
		}
	}
	if !advance(len(runes)) {
		return fmt.Sprintf("non-space rune %q left after the last token", runes[cur]), "lex-partition"
	}
	// --- lex-word / lex-longest / lex-shadowed
	identOps := map[token.Kind]bool{}
	var symOps []string
	for _, o := range ops {
		if oper.IsIdentOp(string(o.Kind)) {
			identOps[o.Kind] = true
		} else {
			symOps = append(symOps, string(o.Kind))
		}
	}
	userSym := map[token.Kind]bool{}
	for _, k := range symOps {
		userSym[token.Kind(k)] = true
	}
	for i, t := range toks {
		if t.Kind == token.TRUE || t.Kind == token.FALSE || identOps[t.Kind] {
			if t.Pos.IdxEnd < len(runes) && isWordRune(runes[t.Pos.IdxEnd]) {
				return fmt.Sprintf("token %d %q (kind %s) is followed by word rune %q", i, t.Lexeme, t.Kind, runes[t.Pos.IdxEnd]), "lex-word"
			}
			continue
		}
		if lexLiteralKinds[t.Kind] {
			// --- lex-literal: a literal token is the whole leftmost-first match of the first
			// documented literal form that matches the REST OF THE INPUT at that place
			if want, form := literalAt(string(runes[t.Pos.Idx:])); want >= 0 && want != t.Pos.IdxEnd-t.Pos.Idx {
				return fmt.Sprintf("token %d %q (kind %s) has %d runes, but the literal form %s matches %d runes there", i, clip(t.Lexeme), t.Kind, t.Pos.IdxEnd-t.Pos.Idx, form, want), "lex-literal"
			}
			continue
		}
		rest := string(runes[t.Pos.Idx:])
		for _, k := range symOps {
			if len([]rune(k)) > t.Pos.IdxEnd-t.Pos.Idx && strings.HasPrefix(rest, k) {
				if userSym[t.Kind] && !byBuiltinRule(t, runes) {
					return fmt.Sprintf("token %d is operator %q although the longer operator %q is a prefix of the rest", i, t.Lexeme, k), "lex-longest"
				}
				if !oper.IsOp(k) {
					// not a declarable symbolic operator (characters outside the operator alphabet)
					continue
				}
				return fmt.Sprintf("token %d is built-in %q although the registered operator %q is a prefix of the rest", i, t.Lexeme, k), "lex-shadowed"
			}
		}
	}
	return "", ""
}

// the documented literal forms, in the documented order (the property's text and README; the same
// texts the regenerated obligation GenTie.Lexer pins), compiled by the harness itself
var literalForms = []struct {
	name string
	re   *regexp.Regexp
}{
	{"float (fractions)", regexp.MustCompile(`^(?:(?:0|[1-9][0-9]*)(?:[.][0-9]+)+(?:[eE][-+]?[0-9]+)?)`)},
	{"float (exponents)", regexp.MustCompile(`^(?:(?:0|[1-9][0-9]*)(?:[.][0-9]+)?(?:[eE][-+]?[0-9]+)+)`)},
	{"binary", regexp.MustCompile(`^(?:0b(?:0|1[0-1]*))`)},
	{"hex", regexp.MustCompile(`^(?:0x(?:0|[1-9a-fA-F][0-9a-fA-F]*))`)},
	{"octal", regexp.MustCompile(`^(?:0o(?:0|[1-7][0-7]*))`)},
	{"integer", regexp.MustCompile(`^(?:(?:0|[1-9][0-9]*))`)},
	{"string", regexp.MustCompile("^(?:\"(?:[^\"\\\\]*|\\\\[\"\\\\trnbf\\/]|\\\\u[0-9a-fA-F]{4})*\")")},
	{"raw string", regexp.MustCompile("^(?:`[^`]*`)")},
	{"time", regexp.MustCompile("^(?:'[^`\"']*')")},
	{"identifier", regexp.MustCompile(`^(?:[a-zA-Z\p{L}_][a-zA-Z0-9\p{L}_]*)`)},
}

// literalAt: rune length of the first literal form matching at the start of rest (-1: none)
func literalAt(rest string) (int, string) {
	for _, f := range literalForms {
		if m := f.re.FindString(rest); m != "" {
			return len([]rune(m)), f.name
		}
	}
	return -1, ""
}

func clip(s string) string {
	if len(s) > 80 {
		return s[:80] + "…"
	}
	return s
}

// byBuiltinRule: the token comes from one of the rules that precede the user operators: the
// eight punctuation rules (plain prefix, always first) or the `.`/`?` rule (which fires exactly
// when no operator character follows), even if the same kind is also registered by the user.
func byBuiltinRule(t *token.Token, runes []rune) bool {
	switch t.Kind {
	case token.COLON, token.COMMA, token.LEFT_PAREN, token.RIGHT_PAREN, token.LEFT_BRACKET, token.RIGHT_BRACKET, token.LEFT_BRACE, token.RIGHT_BRACE:
		return true
	case token.DOT, token.QUESTION:
		return !oper.HasPrefix(string(runes[t.Pos.IdxEnd:]))
	}
	return false
}

func lexCase(set lexOpSet, src string, gen string) Case {
	if guardBegin("lex[" + set.name + "] " + strconv.Quote(src)) {
		return crashCase("lex[" + set.name + "] " + strconv.Quote(src))
	}
	defer guardEnd()
	c := Case{
		Human: "lex[" + set.name + "] " + strconv.Quote(src),
		// the lexer works on []rune(src): a malformed byte IS the rune U+FFFD; the model (whose
		// inputs are Unicode strings) is asked about the text the lexer sees
		Req:     sxList("lex", encOps(set.ops), sxStr(string([]rune(src)))),
		Tags:    []string{"gen:" + gen, "ops:" + set.name},
		Nontriv: len([]rune(src)) >= 2,
	}
	toks, ok := runLex(set.ops, src)
	if !ok {
		c.Want = "(err syntax)"
		c.Tags = append(c.Tags, "res:syntax-error")
		return c
	}
	c.Want = encToks(toks)
	c.Tags = append(c.Tags, "res:ok", fmt.Sprintf("ntok:%s", bucket(len(toks))))
	seen := map[string]bool{}
	for _, t := range toks {
		cl := "tok:oper-or-punct"
		if lexLiteralKinds[t.Kind] || t.Kind == token.TRUE || t.Kind == token.FALSE {
			cl = "tok:" + string(t.Kind)
		}
		if !seen[cl] {
			seen[cl] = true
			c.Tags = append(c.Tags, cl)
		}
	}
	c.Oracle, c.OracleID = lexOracles(set.ops, src, toks)
	return c
}

func bucket(n int) string {
	switch {
	case n == 0:
		return "0"
	case n == 1:
		return "1"
	case n <= 3:
		return "2-3"
	case n <= 7:
		return "4-7"
	default:
		return "8+"
	}
}

// --- generators ---------------------------------------------------------------------------

// alphabet of the exhaustive part: operator characters, letters (one non-ASCII), digits,
// `.`, `e`, `x`, the three quotes, backslash, space, newline.
var lexAlphabet = []rune{'<', '=', '!', '.', '?', ':', '-', 'a', 'e', 'x', 'é', '0', '1', '"', '\'', '`', '\\', ' ', '\n'}

func lexNth(alpha []rune, length, idx int) string {
	rs := make([]rune, length)
	for i := length - 1; i >= 0; i-- {
		rs[i] = alpha[idx%len(alpha)]
		idx /= len(alpha)
	}
	return string(rs)
}

// an exhaustive family: all strings prefix+w, w over alpha, |w| <= maxLen, x all operator sets
type lexFamily struct {
	name   string
	prefix string
	alpha  []rune
	quick  int      // maxLen in the quick tier
	deep   int      // maxLen in the thorough tier
	sets   []string // operator sets the family is crossed with (nil: all)
}

var lexFamilies = []lexFamily{
	{"mixed", "", lexAlphabet, 3, 5, nil},
	// the six number patterns and their near misses
	{"num", "", []rune{'0', '1', '.', 'e', 'E', '+', '-', 'x', 'b', 'o', 'f', '8'}, 4, 6, []string{"builtin", "empty", "literal-like", "dot-question"}},
	// the quoted-string pattern: escapes, \u, unterminated
	{"str", "\"", []rune{'"', '\\', 'u', 'n', 'a', '0', 'F', 'g', '/', '\n'}, 4, 7, []string{"empty", "builtin"}},
	// raw strings and times
	{"quote", "", []rune{'\'', '`', '"', '\\', 'a', '-', ' ', '\n'}, 4, 6, []string{"empty", "literal-like", "fixities"}},
	// words: true/false/identifier operators and what follows them
	{"word", "", []rune{'t', 'r', 'u', 'e', 'a', 'n', 'd', 'i', '_', '1', '.', ' ', '非'}, 4, 5, []string{"ident", "builtin", "literal-like", "mixed-stable", "empty"}},
}

func lexExhaustive(r *rand.Rand, sets []lexOpSet, fam lexFamily, maxLen, budget int) []Case {
	if fam.sets != nil {
		var sel []lexOpSet
		for _, name := range fam.sets {
			for _, s := range sets {
				if s.name == name {
					sel = append(sel, s)
				}
			}
		}
		sets = sel
	}
	// the space: (length, index within length, operator set)
	counts := make([]int, maxLen+1)
	total := 0
	c := 1
	for l := 0; l <= maxLen; l++ {
		counts[l] = c
		total += c
		c *= len(fam.alpha)
	}
	space := total * len(sets)
	gen := fmt.Sprintf("exhaustive-%s-len<=%d", fam.name, maxLen)
	decode := func(i int) Case {
		set := sets[i%len(sets)]
		i /= len(sets)
		l := 0
		for i >= counts[l] {
			i -= counts[l]
			l++
		}
		return lexCase(set, fam.prefix+lexNth(fam.alpha, l, i), gen)
	}
	var cs []Case
	if space <= budget {
		for i := 0; i < space; i++ {
			cs = append(cs, decode(i))
		}
		return cs
	}
	for i := 0; i < budget; i++ {
		c := decode(r.Intn(space))
		c.Tags[0] += "-sampled"
		cs = append(cs, c)
	}
	return cs
}

// clean: only fragments that are lexable on their own (well-formed literals, registered
// operators), so that long sources survive to the end; otherwise near misses and stray runes too.
type lexFrag struct {
	r     *rand.Rand
	clean bool
}

func (g lexFrag) pick(xs ...string) string { return xs[g.r.Intn(len(xs))] }

func (g lexFrag) digits(n int) string {
	var b strings.Builder
	for i := 0; i < n; i++ {
		b.WriteByte(byte('0' + g.r.Intn(10)))
	}
	return b.String()
}

func (g lexFrag) intPart() string {
	switch g.r.Intn(5) {
	case 0:
		return "0"
	case 1:
		return "0" + g.digits(1+g.r.Intn(2)) // leading zero
	default:
		return string(byte('1'+g.r.Intn(9))) + g.digits(g.r.Intn(3))
	}
}

func (g lexFrag) exp() string {
	return g.pick("e", "E") + g.pick("", "", "+", "-", "+-") + g.digits(g.r.Intn(3))
}

func (g lexFrag) number() string {
	switch g.r.Intn(9) {
	case 0: // float form 1: fractions (one or more), optional exponent
		s := g.intPart()
		for i := 0; i <= g.r.Intn(3); i++ {
			s += "." + g.digits(g.r.Intn(3))
		}
		if g.r.Intn(2) == 0 {
			s += g.exp()
		}
		return s
	case 1: // float form 2: exponent(s)
		s := g.intPart()
		if g.r.Intn(3) == 0 {
			s += "." + g.digits(1+g.r.Intn(2))
		}
		for i := 0; i <= g.r.Intn(3); i++ {
			s += g.exp()
		}
		return s
	case 2:
		return "0b" + g.pick("0", "1", "10", "101", "01", "2", "", "0b", "1e1", "11.1")
	case 3:
		return "0x" + g.pick("0", "1F", "ff", "0F", "aG", "g", "", "Ee1", "1.5", "e+1", "9z")
	case 4:
		return "0o" + g.pick("0", "17", "07", "8", "78", "", "1e1", "7.7")
	case 5:
		return g.pick("0X1F", "0B1", "0O7", "00", "007", "1_000", "1.", ".5", "1..2", "1.e5", "1e", "1e+", "0e0", "0.0.0e-0E+1", "9e9e9", "1.5e+5x", "1x", "0xx", "12ab")
	default:
		return g.intPart()
	}
}

func (g lexFrag) strBody(n int, forbidden string) string {
	var b strings.Builder
	for i := 0; i < n; i++ {
		switch g.r.Intn(12) {
		case 0:
			b.WriteString(`\` + g.pick(`"`, `\`, "t", "r", "n", "b", "f", "/"))
		case 1:
			b.WriteString(`\u` + g.pick("12aF", "0000", "FFFF", "abcd", "12a", "12ag", "", "+123", "12345"))
		case 2:
			b.WriteString(`\` + g.pick("x", "a", "0", "'", "`", " ", "\n", "U0001", "é"))
		case 3:
			b.WriteString(g.pick("\n", "\t", " ", "\u00a0", "\u3000"))
		case 4:
			b.WriteString(g.pick(`"`, "'", "`"))
		case 5:
			b.WriteString(g.pick("é", "中", "ˆ", "😀", "\u0085"))
		case 6:
			b.WriteString(`\\`)
		default:
			b.WriteString(g.pick("a", "b", "1", "-", ":", "x", "2020-01-02", " "))
		}
	}
	s := b.String()
	if forbidden != "" && g.r.Intn(4) != 0 {
		for _, f := range forbidden {
			s = strings.ReplaceAll(s, string(f), "")
		}
	}
	return s
}

func (g lexFrag) str() string {
	if g.clean {
		switch g.r.Intn(4) {
		case 0:
			return "`" + g.strBody(g.r.Intn(5), "`") + "`"
		case 1:
			return "'" + strings.NewReplacer("`", "", "\"", "", "'", "").Replace(g.strBody(g.r.Intn(4), "")) + "'"
		}
		var b strings.Builder
		b.WriteByte('"')
		for i := 0; i < g.r.Intn(6); i++ {
			b.WriteString(g.pick("a", " ", "\n", "é", `\"`, `\\`, `\n`, `\/`, `\t`, `\u00e9`, `\uABCD`, "'", "`", "1", ":"))
		}
		b.WriteByte('"')
		return b.String()
	}
	switch g.r.Intn(6) {
	case 0: // raw
		return "`" + g.strBody(g.r.Intn(5), "`") + g.pick("`", "`", "`", "")
	case 1: // time
		return "'" + g.strBody(g.r.Intn(4), "`\"'\\") + g.pick("'", "'", "'", "")
	case 2: // well-formed by construction
		var b strings.Builder
		b.WriteByte('"')
		for i := 0; i < g.r.Intn(6); i++ {
			b.WriteString(g.pick("a", " ", "\n", "é", `\"`, `\\`, `\n`, `\/`, `é`, `ꯍ`, "'", "`"))
		}
		b.WriteByte('"')
		return b.String()
	default:
		return `"` + g.strBody(g.r.Intn(5), "") + g.pick(`"`, `"`, `"`, "")
	}
}

func (g lexFrag) ident() string {
	starts := []string{"a", "b", "x", "e", "t", "_", "é", "中", "ˆ", "A", "Z", "非"}
	conts := append([]string{"0", "1", "9", "_", "٣" /* arabic-indic digit: not \d, not \p{L} */}, starts...)
	s := g.pick(starts...)
	for i := 0; i < g.r.Intn(4); i++ {
		s += g.pick(conts...)
	}
	if g.r.Intn(8) == 0 { // a random letter from anywhere in the tables
		for {
			c := []rune(g.randRunes(1))[0]
			if unicode.IsLetter(c) {
				s += string(c)
				break
			}
		}
	}
	return s
}

var lexOpCharList = []rune(":!#$%^&*+./<=>?@\\ˆ|~-")

func (g lexFrag) opChars(n int) string {
	rs := make([]rune, n)
	for i := range rs {
		rs[i] = lexOpCharList[g.r.Intn(len(lexOpCharList))]
	}
	return string(rs)
}

// random scalar values: exercises the IsSpace and \p{L} tables of the model
func (g lexFrag) randRunes(n int) string {
	rs := make([]rune, 0, n)
	for len(rs) < n {
		var c rune
		switch g.r.Intn(4) {
		case 0:
			c = rune(0x80 + g.r.Intn(0x2000-0x80))
		case 1:
			c = rune(0x2000 + g.r.Intn(0x1000)) // general punctuation, spaces, symbols
		case 2:
			c = rune(0x3000 + g.r.Intn(0x10000-0x3000))
		default:
			c = rune(0x10000 + g.r.Intn(0x22000))
		}
		if c >= 0xD800 && c <= 0xDFFF {
			continue
		}
		rs = append(rs, c)
	}
	return string(rs)
}

func (g lexFrag) fragment(set lexOpSet) string {
	k := g.r.Intn(14)
	if g.clean && (k == 10 || k == 12) {
		k = g.r.Intn(10)
	}
	switch k {
	case 0, 1:
		return g.number()
	case 2, 3:
		return g.str()
	case 4:
		return g.ident()
	case 5, 6: // a registered operator, possibly glued to something
		if len(set.ops) == 0 {
			if g.clean {
				return g.pick(".", "?", ",", ":")
			}
			return g.opChars(1 + g.r.Intn(3))
		}
		k := string(set.ops[g.r.Intn(len(set.ops))].Kind)
		return k + g.pick("", "", "", "a", "1", "_", "=", ".", "é", k)
	case 7: // true/false followed by letters
		return g.pick("true", "false") + g.pick("", "", "x", "1", "_", "é", "true", ".", "(", " ")
	case 8: // . and ? followed by operator characters or not
		return g.pick(".", "?") + g.pick("", "a", "1", " ", "(", g.opChars(1), g.opChars(2), "ˆ", "\\")
	case 9:
		return g.pick(":", ",", "(", ")", "[", "]", "{", "}")
	case 10:
		return g.opChars(1 + g.r.Intn(3))
	case 11: // other words near the keywords
		return g.pick("tru", "truee", "fals", "falsey", "and", "andy", "or", "nota", "not", "in", "int", "as", "assert", "iff", "if")
	case 12: // stray characters, some of them not lexable at all; random code points (tables)
		if g.r.Intn(2) == 0 {
			return g.randRunes(1 + g.r.Intn(3))
		}
		return g.pick("#", "$", "@", "\\", ";", "§", "😀", "٣", "\u0085", "\u00a0", "\u2028", "\u200b", "\ufeff", "´")
	default:
		return g.ident() + g.pick(".", "(", "[", "?") + g.ident()
	}
}

func (g lexFrag) source(set lexOpSet) string {
	var b strings.Builder
	n := 1 + g.r.Intn(8)
	for i := 0; i < n; i++ {
		b.WriteString(g.fragment(set))
		b.WriteString(g.pick("", "", " ", " ", "\n", "\t", "\r\n", "  ", "\u00a0", "\u3000", "\n\n "))
	}
	s := []rune(b.String())
	// small mutations: drop / duplicate / replace one rune
	if len(s) > 0 && !g.clean && g.r.Intn(3) == 0 {
		i := g.r.Intn(len(s))
		switch g.r.Intn(3) {
		case 0:
			s = append(s[:i:i], s[i+1:]...)
		case 1:
			s = append(s[:i:i], append([]rune{s[i]}, s[i:]...)...)
		default:
			s[i] = lexAlphabet[g.r.Intn(len(lexAlphabet))]
		}
	}
	return string(s)
}

var lexFixed = []string{
	"", " ", "\n", "truex", "true", "falsey", "true1", "true_", "trueé", "true.x", ".^.", "a.^.b", "a.b", "a?b:c", "a?.b", "a ?? b",
	"iff", "assert", "a as b", "a:=b", "a<=>b", "a<=b", "a<b", "a!==b", "a!=b", "!a", "x and y", "xand y", "x andy", "x 非y", "非 y", "a in b",
	"1.2.3", "1.2.3e4", "1e5e6", "1.5e+", "1e", "1.", ".5", "00", "007", "0x0F", "0x0", "0xg", "0b012", "0b2", "0o17", "0o08", "0xE+1", "1.e5", "12e-3x",
	`"ኯ"`, `"a\"b"`, `"\x"`, `"\u12"`, `"a`, `"a\"`, `"\\"`, `"\\\"`, "\"a\nb\"", `""`, `"""`, `"a"b"`, "`a\"b`", "``", "`a", "`a\nb`",
	"'2020-01-01'", "'a\"b'", "'a`b'", "''", "'a\nb'", "'a", "'a'b'",
	"if(\n\t\t布尔,\n\t\t列表[0].姓名.len() + 数字,\n\t\t0\n\t)", "a\nb\n  c", "a\u00a0b", "a\u0085b", "a\u200bb", "#", "a # b", "a ˆ b", "x.ˆ", "x?ˆ",
	"f(a, b)[0]{x: 1}", "-1", "- 1", "a--b", "a--->b", "a>>=b", "≤≤≤", "a××b", "a×××b", "a*** b", "[]", "a[]", "1.x", "1 .x", "a.e", "a?x", "a?(b)", "a.e+", "?x?", "0x.1", "e1", "1e1", "x1",
}

// long tokens and long inputs: lengths around the sizes of typical windows and buffers
var lexLongLens = []int{31, 32, 33, 63, 64, 65, 66, 100, 127, 128, 129, 255, 256, 257, 1000}

func lexLongSources(r *rand.Rand, thorough bool) []string {
	g := lexFrag{r: r, clean: true}
	lens := lexLongLens
	if thorough {
		lens = append(append([]int{}, lens...), 4095, 4096, 4097, 65535, 65536, 70000)
	}
	// beyond 1000 runes only the single-token forms (lexing is quadratic in the number of tokens
	// on both sides: a 70 000-token input would take hours)
	single := func(n int, xs []string) []string {
		if n <= 1000 {
			return xs
		}
		var ys []string
		for _, x := range xs {
			if strings.Count(x, " ")+strings.Count(x, "\n")+strings.Count(x, "+")+strings.Count(x, "(")+strings.Count(x, ".")+strings.Count(x, "<")+strings.Count(x, "-")+strings.Count(x, "?")+strings.Count(x, ",") < 8 {
				ys = append(ys, x)
			}
		}
		return ys
	}
	var out []string
	rep := func(s string, n int) string { return strings.Repeat(s, n) }
	for _, n := range lens {
		d := g.digits(n)
		if d[0] == '0' {
			d = "1" + d[1:]
		}
		out = append(out, single(n, []string{
			d,                            // integer
			"1" + rep("0", n-1) + " + 1", // 10…0
			"0." + g.digits(n),           // fraction
			"1." + g.digits(n/2) + "e" + g.digits(n/2+1), // fraction and exponent
			"1e" + g.digits(n),                           // exponent
			"0x1" + rep("aF", n/2), "0b1" + rep("01", n/2), "0o1" + rep("07", n/2),
			"x" + rep("y1_", n/3+1), rep("é", n), "_" + rep("中", n), // identifiers
			"true" + rep("x", n), rep("a", n) + " and " + rep("b", n),
			`"` + rep("a", n) + `"`, `"` + rep(`\n`, n/2) + `"`, `"` + rep("é", n) + `" x`, `"` + rep(`\u00e9`, n/6+1) + `"`,
			"`" + rep("r", n) + "`", "`" + rep("a\n", n/2) + "` z", "'" + rep("2", n) + "'",
			`"` + rep("a", n), "'" + rep("b", n), // unterminated
			rep(" ", n) + "a" + rep("\n", n) + "b", rep("\t", n) + "1", // white space runs
			rep("+", n), rep("<", n) + "a", rep("-", n) + ">", "a" + rep(".", n) + "b", rep("?", n), // operator runs
			rep("a ", n), rep("1+", n) + "1", rep("(", n) + "x" + rep(")", n), rep("[1,", n) + "2" + rep("]", n), // many tokens
			rep("a.b ", n/2), rep("x\n", n), rep("非 ", n),
		})...)
	}
	return out
}

// operator-table histories: tables used one after the other in one process that a cache keyed by
// anything coarser than the table itself would confuse — the same characters split differently,
// the same kinds in another order, one operator more or less, the same kinds with other fixities.
type lexHistory struct {
	name   string
	tables [][]oper.Operator
	srcs   []string
}

func lexHistories() []lexHistory {
	syms := func(fx oper.Fixity, ks ...string) []oper.Operator {
		var os []oper.Operator
		for _, k := range ks {
			os = append(os, op(k, oper.BP_TERM, fx))
		}
		return os
	}
	L := oper.INFIX_L
	return []lexHistory{
		{"resplit-1", [][]oper.Operator{syms(L, "<=", ">", "="), syms(L, "<=", ">="), syms(L, "<", "=>", "="), syms(L, "<=>=")},
			[]string{"a >= b", "a <= b", "a => b", "a <=>= b", "a > = b", "a<b", "a=b"}},
		{"resplit-2", [][]oper.Operator{syms(L, "<<", "=="), syms(L, "<<=", "="), syms(L, "<", "<==")},
			[]string{"a <<= b", "a == b", "a <== b", "a << b", "a<=b", "a = b"}},
		{"resplit-words", [][]oper.Operator{syms(L, "ab", "c"), syms(L, "a", "bc"), syms(L, "abc"), syms(L, "c", "ab")},
			[]string{"x ab y", "x a y", "x bc y", "x abc y", "x c y", "abc", "ab c"}},
		{"permuted", [][]oper.Operator{syms(L, "+", "++", "+++"), syms(L, "+++", "+", "++"), syms(L, "++", "+++", "+")},
			[]string{"a+++b", "a++b", "a+b", "a++++b"}},
		{"grow-shrink", [][]oper.Operator{syms(L, "-", "->"), syms(L, "-", "->", "-->"), syms(L, "-"), syms(L, "->"), {}},
			[]string{"a-->b", "a->b", "a-b", "a - > b"}},
		{"same-kinds-other-fixity", [][]oper.Operator{syms(L, "!", "~"), syms(oper.PREFIX, "!", "~"), syms(oper.POSTFIX, "!", "~"), syms(oper.INFIX_N, "!", "~")},
			[]string{"!a", "a!", "a ! b", "~a~"}},
		{"ident-vs-symbol", [][]oper.Operator{syms(L, "in", "<"), syms(L, "i", "n<"), syms(L, "in<")},
			[]string{"a in b", "a in< b", "a i b", "a n< b", "ain<b"}},
		{"builtin-then-user", [][]oper.Operator{oper.BuiltIn(), append(append([]oper.Operator{}, oper.BuiltIn()...), op("=>", oper.BP_COND, oper.INFIX_R)), oper.BuiltIn(), syms(L, "=>"), oper.BuiltIn()},
			[]string{"a >= b", "a => b", "a == b || !c", "a ? b : c", "a and b"}},
	}
}

func lexHistoryCases() []Case {
	var cs []Case
	for _, h := range lexHistories() {
		// every table, in order, on every source; then the whole round again (a poisoned cache
		// shows on the second use of an earlier table as well)
		for round := 0; round < 2; round++ {
			for ti, t := range h.tables {
				set := lexOpSet{fmt.Sprintf("history:%s#%d", h.name, ti), t}
				for _, src := range h.srcs {
					cs = append(cs, lexCase(set, src, "table-history"))
				}
			}
		}
	}
	return cs
}

// malformed UTF-8 inside and between tokens (each bad byte is one rune, U+FFFD, for the lexer)
func lexInvalidUTF8Sources() []string {
	bad := []string{"\xff", "\xc0", "\xe4\xb8", "\xf0\x9f\x98", "\x80", "\xed\xa0\x80"}
	var out []string
	for _, b := range bad {
		out = append(out,
			"`"+b+"` + abc", `"`+b+`" + abc <= 0x1F`, "'"+b+"' - 1", `"a`+b+`b" "c" x`, "`x"+b+b+"` `y` z",
			"a"+b+" + 1", b+" a", "a "+b, `"x" `+b+` "y"`, "1"+b+"2", "`"+b+"`\n  next.line(1)", `"é`+b+`中" == s1 && true`,
			"'"+b+b+b+"' < t1 ? 1 : 2")
	}
	return out
}

// regexCase: Go's regexp on one of the lexer's patterns against the formal semantics of that
// pattern in the model (Spec/Regex: reference matcher `Re.find`, which the hand-written
// recognisers are proved equal to).  Index 0..9: literalForms; 10: keywordPostfix; 11: idReg.
var reKeywordPostfixGo = regexp.MustCompile(`^[a-zA-Z\d\p{L}_]+`)
var reIdentOpGo = regexp.MustCompile(`^[a-zA-Z\p{L}_][a-zA-Z0-9\p{L}_]*$`)

func regexCase(k int, src string) Case {
	human := fmt.Sprintf("regex[%d] %s", k, strconv.Quote(src))
	if guardBegin(human) {
		return crashCase(human)
	}
	defer guardEnd()
	c := Case{Human: human, Req: sxList("regex", sxInt(k), sxStr(src)), Tags: []string{"gen:regex"}, Nontriv: len(src) > 0}
	switch {
	case k == 10:
		c.Want = sxList("ok", fmt.Sprint(reKeywordPostfixGo.MatchString(src)))
	case k == 11:
		c.Want = sxList("ok", fmt.Sprint(reIdentOpGo.MatchString(src)))
	default:
		if m := literalForms[k].re.FindString(src); m != "" {
			c.Want = sxList("ok", fmt.Sprint(len([]rune(m))))
		} else {
			c.Want = "(none)"
		}
	}
	return c
}

func regexCases(r *rand.Rand, n int) []Case {
	var cs []Case
	g := lexFrag{r: r}
	fixed := []string{"", "0", "00", "1.5", "1.5.25", "1.5e3", "1.5e3e4", "1e", "1e+", "1.e5", "1..2", "0x1F", "0x", "0b102", "0o78", "12ab",
		`"a"`, `"a\"b"`, `"\u12aF"`, `"\u12"`, `"\x"`, `"a`, "\"a\nb\"", `""x`, "`a`b", "``", "'a'", "'a`'", "'a\"'", "abc", "a1_é", "1a", "_", "é中", "true", "truex"}
	for _, s := range fixed {
		for k := 0; k < 12; k++ {
			cs = append(cs, regexCase(k, s))
		}
	}
	for i := 0; i < n; i++ {
		var s string
		switch r.Intn(4) {
		case 0:
			s = g.number()
		case 1:
			s = g.str()
		case 2:
			s = g.ident() + g.pick("", " ", ".", "(", "1", "e5")
		default:
			s = g.number() + g.pick("", ".", "e", "x", ".5", "e+1", "e1e2", " ") + g.pick("", g.digits(2), g.ident())
		}
		cs = append(cs, regexCase(r.Intn(12), s))
	}
	return cs
}

func init() {
	register(&Stream{
		Name: "lex",
		Rule: "lexer.NewLexer(ops).Lex(src) vs the Lean model, token kinds, lexemes and positions. Inputs: a fixed corpus x all operator sets; five exhaustive families x operator sets, each uniformly sampled down to n/5 when its space is larger: all strings up to length 3 (thorough: 5) over a 19-character mixed alphabet (operator characters, letters incl. é, digits, . e x, three quotes, backslash, space, newline), number-ish strings (<=4/6 over 01.eE+-xbof8), quoted strings (a double quote followed by <=4/7 over double quote, backslash, u n a 0 F g / and newline), raw/time strings (<=4/6), words (<=4/5 over true/and letters, _ 1 . space 非); n random sources (half of them from well-formed fragments only) glued from token-ish fragments (six number forms and near misses, strings/raw strings/times with good and bad escapes, identifiers incl. non-ASCII, registered operators glued to words, true/false + letters, ./? + operator characters, stray characters, random code points up to U+32000, Unicode white space) with one-rune mutations. Plus malformed UTF-8 inside and between tokens (the lexer sees U+FFFD). Plus the regular expressions themselves: Go's regexp on each of the ten literal patterns, keywordPostfix and idReg against the formal semantics (reference matcher) of the model, on literal-ish strings. Plus operator-table histories (tables used one after the other in one process: the same characters split differently, permuted, grown and shrunk, the same kinds with other fixities; two rounds) and long tokens / long inputs (every literal form, identifiers, operator and white-space runs, bracket nests and token sequences of 31..1000 runes, thorough: up to 70000). 13 operator sets: built-in, empty, prefix-overlapping, ./?-prefixed, identifier-like, all fixities, byte-vs-rune lengths, punctuation-prefixed, literal-like, nested, every operator character, mixed. Non-trivial = at least 2 runes; distinct = distinct request line.",
		Gen: func(r *rand.Rand, n int, thorough bool) []Case {
			sets := lexOpSets()
			var cs []Case
			for _, s := range lexFixed {
				for _, set := range sets {
					cs = append(cs, lexCase(set, s, "fixed"))
				}
			}
			cs = append(cs, lexHistoryCases()...)
			for i, src := range lexInvalidUTF8Sources() {
				cs = append(cs, lexCase(sets[0], src, "invalid-utf8"))
				cs = append(cs, lexCase(sets[1+i%(len(sets)-1)], src, "invalid-utf8"))
			}
			cs = append(cs, regexCases(r, n/2+200)...)
			for i, src := range lexLongSources(r, thorough) {
				cs = append(cs, lexCase(sets[i%len(sets)], src, "long"))
				cs = append(cs, lexCase(sets[0], src, "long"))
			}
			for _, fam := range lexFamilies {
				maxLen := fam.quick
				if thorough {
					maxLen = fam.deep
				}
				cs = append(cs, lexExhaustive(r, sets, fam, maxLen, n/len(lexFamilies)+1)...)
			}
			for i := 0; i < n; i++ {
				set := sets[r.Intn(len(sets))]
				g := lexFrag{r: r, clean: i%2 == 0}
				gen := "fragments"
				if g.clean {
					gen = "fragments-clean"
				}
				cs = append(cs, lexCase(set, g.source(set), gen))
			}
			return cs
		},
	})
}
