package main

import (
	"fmt"
	"math"
	"math/big"
	"math/rand"
	"regexp"
	"strconv"
	"strings"
	"unicode/utf8"

	"github.com/goghcrow/yae/parser/ast"
	"github.com/goghcrow/yae/parser/pos"
	"github.com/goghcrow/yae/util"
	"github.com/goghcrow/yae/val"
)

// Stream "num": the model's number and string-quoting library (lean/Yae/Model/Num.lean) against
// the real Go code: strconv, math, the hardware float->int conversion and the repo's own
// val.Num(x).String() / Key(), util.FmtFloat, ast.Num and ast.Str.

// NaN payloads are not observable in the model (Float.toBits canonicalises): every NaN travels as
// the bit pattern of math.NaN().
func nmSxNumC(f float64) string {
	if f != f {
		return "#7ff8000000000001"
	}
	return sxNum(f)
}

// the conversion goes through a package-level variable so that it is performed at run time by
// the CPU (CVTTSD2SI on amd64) rather than folded (or rejected) by the compiler.
var nmNumSink float64
var nmIntSink int64

//go:noinline
func nmCvtInt64(f float64) int64 { nmNumSink = f; return int64(nmNumSink) }

//go:noinline
func nmCvtInt(f float64) int { nmNumSink = f; return int(nmNumSink) }

//go:noinline
func nmCvtFloat(n int64) float64 { nmIntSink = n; return float64(nmIntSink) }

func nmFclass(x float64) string {
	switch {
	case x != x:
		return "nan"
	case math.IsInf(x, 0):
		return "inf"
	case x == 0:
		return "zero"
	case math.Abs(x) < 2.2250738585072014e-308:
		return "subnormal"
	case x == math.Trunc(x) && math.Abs(x) < 9.3e18:
		return "int-in-range"
	case x == math.Trunc(x):
		return "int-out-of-range"
	case math.Abs(x) < 1:
		return "fraction"
	default:
		return "mixed"
	}
}

func nmHnum(x float64) string {
	return fmt.Sprintf("%s(0x%016x)", strconv.FormatFloat(x, 'g', -1, 64), math.Float64bits(x))
}

// all one-float requests for x
func nmNumCasesFor(x float64, tag string) []Case {
	cl := nmFclass(x)
	tags := func(op string) []string { return []string{"num:" + op, "num-class:" + cl, "num-src:" + tag} }
	nontriv := cl != "zero"
	var cs []Case
	h := nmHnum(x)

	// render: val.Num(x).String(), cross-checked against Key() and against the spelled-out rule
	// (current tree: IsInt = integral and inside the int64 range)
	{
		c := Case{Human: "render " + h, Req: sxList("num.render", sxNum(x)), Tags: tags("render"), Nontriv: nontriv}
		c.Want = safely(func() string {
			v := val.Num(x)
			s := v.String()
			k := v.Key().String()
			var spelled string
			if x == math.Trunc(x) && x >= -(1<<63) && x < 1<<63 {
				spelled = strconv.FormatInt(nmCvtInt64(x), 10)
			} else {
				spelled = strconv.FormatFloat(x, 'f', -1, 64)
			}
			if s != k {
				c.Oracle, c.OracleID = fmt.Sprintf("String()=%q but Key()=%q", s, k), "num-render-key-differs"
			} else if s != spelled {
				c.Oracle, c.OracleID = fmt.Sprintf("String()=%q but rule gives %q", s, spelled), "num-render-rule-differs"
			}
			return sxList("ok", sxStr(s))
		})
		cs = append(cs, c)
	}
	// the pinned tree's rule (IsInt = integral only), evaluated with strconv and the CPU conversion;
	// the repository is not involved
	{
		var spelled string
		if x == math.Trunc(x) {
			spelled = strconv.FormatInt(nmCvtInt64(x), 10)
		} else {
			spelled = strconv.FormatFloat(x, 'f', -1, 64)
		}
		cs = append(cs, Case{Human: "renderpinned " + h, Req: sxList("num.renderpinned", sxNum(x)),
			Want: sxList("ok", sxStr(spelled)), Tags: tags("renderpinned"), Nontriv: nontriv})
	}
	{
		c := Case{Human: "fmtfloat " + h, Req: sxList("num.fmtfloat", sxNum(x)), Tags: tags("fmtfloat"), Nontriv: nontriv}
		s := strconv.FormatFloat(x, 'f', -1, 64)
		if u := util.FmtFloat(x); u != s {
			c.Oracle, c.OracleID = fmt.Sprintf("util.FmtFloat=%q strconv=%q", u, s), "num-fmtfloat-differs"
		}
		// round trip (finite): the printed text parses back to x
		if x == x && !math.IsInf(x, 0) {
			if y, err := strconv.ParseFloat(s, 64); err != nil || math.Float64bits(y) != math.Float64bits(x) {
				c.Oracle, c.OracleID = fmt.Sprintf("%q does not parse back", s), "num-fmtfloat-roundtrip"
			}
		}
		c.Want = sxList("ok", sxStr(s))
		cs = append(cs, c)
	}
	{
		c := Case{Human: "toint " + h, Req: sxList("num.toint", sxNum(x)), Tags: tags("toint"), Nontriv: nontriv}
		n := nmCvtInt64(x)
		if m := nmCvtInt(x); int64(m) != n {
			c.Oracle, c.OracleID = "int(f) != int64(f)", "num-int-width"
		}
		if n2 := val.Num(x).Num().Int(); n2 != n {
			c.Oracle, c.OracleID = "NumVal.Int() != int64(f)", "num-int-method"
		}
		c.Want = sxList("ok", strconv.FormatInt(n, 10))
		cs = append(cs, c)
	}
	un := []struct {
		op string
		f  func(float64) float64
	}{
		{"trunc", math.Trunc}, {"floor", math.Floor}, {"ceil", math.Ceil}, {"round", math.Round},
		{"abs", math.Abs}, {"neg", func(v float64) float64 { return -v }},
	}
	for _, u := range un {
		cs = append(cs, Case{Human: u.op + " " + h, Req: sxList("num."+u.op, sxNum(x)),
			Want: sxList("ok", nmSxNumC(u.f(x))), Tags: tags(u.op), Nontriv: nontriv})
	}
	cs = append(cs, Case{Human: "isint " + h, Req: sxList("num.isint", sxNum(x)),
		Want: sxList("ok", sxBool(val.Num(x).Num().IsInt())), Tags: tags("isint"), Nontriv: nontriv})
	cs = append(cs, Case{Human: "isintegral " + h, Req: sxList("num.isintegral", sxNum(x)),
		Want: sxList("ok", sxBool(x == math.Trunc(x))), Tags: tags("isintegral"), Nontriv: nontriv})
	return cs
}

func nmMinmaxCases(x, y float64, tag string) []Case {
	t := func(op string) []string { return []string{"num:" + op, "num-src:" + tag} }
	return []Case{
		{Human: "min " + nmHnum(x) + " " + nmHnum(y), Req: sxList("num.min", sxNum(x), sxNum(y)),
			Want: sxList("ok", nmSxNumC(math.Min(x, y))), Tags: t("min"), Nontriv: true},
		{Human: "max " + nmHnum(x) + " " + nmHnum(y), Req: sxList("num.max", sxNum(x), sxNum(y)),
			Want: sxList("ok", nmSxNumC(math.Max(x, y))), Tags: t("max"), Nontriv: true},
	}
}

func nmIntCases(n int64, tag string) []Case {
	t := func(op string) []string { return []string{"num:" + op, "num-src:" + tag} }
	ds := strconv.FormatInt(n, 10)
	return []Case{
		{Human: "ofint " + ds, Req: sxList("num.ofint", ds), Want: sxList("ok", sxNum(nmCvtFloat(n))), Tags: t("ofint"), Nontriv: n != 0},
		{Human: "fmtint " + ds, Req: sxList("num.fmtint", ds), Want: sxList("ok", sxStr(util.FmtInt(n))), Tags: t("fmtint"), Nontriv: n != 0},
	}
}

// the lexer's NUM rules (parser/lexer/factory.go), anchored
var nmNumLexRules = []*regexp.Regexp{
	regexp.MustCompile(`^(?:0|[1-9][0-9]*)(?:[.][0-9]+)+(?:[eE][-+]?[0-9]+)?$`),
	regexp.MustCompile(`^(?:0|[1-9][0-9]*)(?:[.][0-9]+)?(?:[eE][-+]?[0-9]+)+$`),
	regexp.MustCompile(`^0b(?:0|1[0-1]*)$`),
	regexp.MustCompile(`^0x(?:0|[1-9a-fA-F][0-9a-fA-F]*)$`),
	regexp.MustCompile(`^0o(?:0|[1-7][0-7]*)$`),
	regexp.MustCompile(`^(?:0|[1-9][0-9]*)$`),
}

func nmLexNum(s string) bool {
	for _, r := range nmNumLexRules {
		if r.MatchString(s) {
			return true
		}
	}
	return false
}

// the model's ParseFloat covers the decimal syntax only (no inf/nan words, hex floats, underscores);
// this is that language's alphabet
var nmDecimalShape = regexp.MustCompile(`^[0-9.eE+\-]*$`)

func nmInParseFloatDomain(s string) bool { return nmDecimalShape.MatchString(s) }

func nmParseCases(s string, tag string) []Case {
	var cs []Case
	lexed := "lexable"
	if !nmLexNum(s) {
		lexed = "unlexable"
	}
	{
		c := Case{Human: "parse " + strconv.Quote(s), Req: sxList("num.parse", sxStr(s)),
			Tags: []string{"num:parse", "num-src:" + tag, "num-lex:" + lexed}, Nontriv: true}
		func() {
			defer func() {
				if r := recover(); r != nil {
					c.Want = "(err)"
					c.Tags = append(c.Tags, "num-parse:err")
				}
			}()
			f := ast.Num(s, pos.Unknown).Val
			c.Want = sxList("ok", nmSxNumC(f))
			c.Tags = append(c.Tags, "num-parse:ok")
		}()
		cs = append(cs, c)
	}
	if nmInParseFloatDomain(s) {
		c := Case{Human: "parsefloat " + strconv.Quote(s), Req: sxList("num.parsefloat", sxStr(s)),
			Tags: []string{"num:parsefloat", "num-src:" + tag}, Nontriv: true}
		f, err := strconv.ParseFloat(s, 64)
		if err != nil {
			c.Want = "(err)"
			if ne, ok := err.(*strconv.NumError); ok && ne.Err == strconv.ErrRange {
				c.Tags = append(c.Tags, "num-parsefloat:range")
			} else {
				c.Tags = append(c.Tags, "num-parsefloat:syntax")
			}
		} else {
			c.Want = sxList("ok", nmSxNumC(f))
			switch {
			case f == 0:
				c.Tags = append(c.Tags, "num-parsefloat:zero")
			case math.Abs(f) < 2.2250738585072014e-308:
				c.Tags = append(c.Tags, "num-parsefloat:subnormal")
			default:
				c.Tags = append(c.Tags, "num-parsefloat:normal")
			}
		}
		cs = append(cs, c)
	}
	return cs
}

func nmHstr(s string) string { return strconv.QuoteToASCII(s) }

func nmQuoteCase(s string, tag string) Case {
	c := Case{Human: "quote " + nmHstr(s), Req: sxList("str.quote", sxStr(s)),
		Tags: []string{"str:quote", "str-src:" + tag}, Nontriv: s != ""}
	q := strconv.Quote(s)
	if v := val.Str(s).String(); v != q {
		c.Oracle, c.OracleID = "val.Str(s).String() != strconv.Quote(s)", "str-quote-val-differs"
	}
	if k := val.Str(s).Key().String(); k != q {
		c.Oracle, c.OracleID = "val.Str(s).Key() != strconv.Quote(s)", "str-quote-key-differs"
	}
	if u, err := strconv.Unquote(q); err != nil || u != s {
		c.Oracle, c.OracleID = "Unquote(Quote(s)) != s", "str-quote-roundtrip"
	}
	if q == `"`+s+`"` {
		c.Tags = append(c.Tags, "str-quote:verbatim")
	} else {
		c.Tags = append(c.Tags, "str-quote:escaped")
	}
	c.Want = sxList("ok", sxStr(q))
	return c
}

var nmStrLexRules = []*regexp.Regexp{
	regexp.MustCompile(`^"(?:[^"\\]*|\\["\\trnbf\/]|\\u[0-9a-fA-F]{4})*"$`),
	regexp.MustCompile("^`[^`]*`$"),
}

func nmLexStr(s string) bool {
	return nmStrLexRules[0].MatchString(s) || nmStrLexRules[1].MatchString(s)
}

func nmUnquoteCase(s string, tag string) Case {
	lexed := nmLexStr(s)
	lt := "unlexable"
	if lexed {
		lt = "lexable"
	}
	c := Case{Human: "unquote " + nmHstr(s), Req: sxList("str.unquote", sxStr(s)),
		Tags: []string{"str:unquote", "str-src:" + tag, "str-lex:" + lt}, Nontriv: true}
	u, err := strconv.Unquote(s)
	if err != nil {
		c.Want = "(err)"
		c.Tags = append(c.Tags, "str-unquote:err")
	} else if !utf8.ValidString(u) {
		// not representable in the model (only from \x / octal escapes, outside the lexer's language)
		return Case{Human: "unquote " + nmHstr(s), Want: "skipped", Tags: []string{"skipped:non-utf8-result"}}
	} else {
		c.Want = sxList("ok", sxStr(u))
		c.Tags = append(c.Tags, "str-unquote:ok")
	}
	// the repo's constructor agrees with strconv (it asserts on error)
	func() {
		defer func() {
			if r := recover(); r != nil {
				if err == nil {
					c.Oracle, c.OracleID = "ast.Str panics but Unquote succeeds", "str-unquote-ast-differs"
				}
			}
		}()
		v := ast.Str(s, pos.Unknown).Val
		if err != nil || v != u {
			c.Oracle, c.OracleID = "ast.Str value differs from Unquote", "str-unquote-ast-differs"
		}
	}()
	return c
}

// ---- generators ----

func nmNumPool() []float64 {
	fb := math.Float64frombits
	xs := []float64{
		0, fb(1 << 63), 1, -1, 2, 10, 0.1, 0.2, 0.3, 0.5, 1.5, 2.5, 3.5, -0.5, -1.5, -2.5, 0.25, 0.75,
		0.49999999999999994, 0.5000000000000001, -0.49999999999999994, 0.9999999999999999, 1.0000000000000002,
		1e-9 * (1 + 1.0/(1<<20)), 1e-9 * (1 - 1.0/(1<<20)), 1e-9, -1e-9,
		1 << 52, 1<<52 + 0.5, 1<<52 - 0.5, 1<<51 + 0.5, 1 << 53, 1<<53 + 2, 1<<53 - 1, -(1 << 53), -(1<<53 - 1),
		4503599627370497.5, 4503599627370495.5,
		9223372036854775808.0, -9223372036854775808.0, 9223372036854774784.0, -9223372036854774784.0,
		9223372036854777856.0, -9223372036854777856.0, 18446744073709551616.0, -18446744073709551616.0,
		1e15, 1e16, 1e17, 1e18, 1e19, 1e20, 1e21, 1e22, 1e23, 1e24, 1e30, 1e100, 1e308, -1e308,
		math.MaxFloat64, -math.MaxFloat64, math.SmallestNonzeroFloat64, -math.SmallestNonzeroFloat64,
		fb(2), fb(3), fb(0x000fffffffffffff), fb(0x0010000000000000), fb(0x0010000000000001), fb(0x0008000000000000),
		fb(0x001fffffffffffff), fb(0x0020000000000000),
		2.2250738585072014e-308, 2.225073858507201e-308, 4.9406564584124654e-324, 1e-323, 1e-310, 1e-320,
		math.Inf(1), math.Inf(-1), math.NaN(), fb(0xfff8000000000000), fb(0x7ff0000000000001),
		123456789012345680000, 8.41e21, 5e-324, 0.000001, 0.0000001, 1e-7, 123456.789, 3.141592653589793, 2.718281828459045,
		0.1 + 0.2, 1.0 / 3, 2.0 / 3, 100, 1000, 1e6, 1234567890123456, 12345678901234567, 123456789012345678,
		0.123456789012345, 0.1234567890123456, 0.12345678901234567, 9.999999999999999e22, 1.7976931348623157e308,
		9007199254740993, 9007199254740992, 9007199254740991, 5e-1, 4.35, 0.57, 1.005, 2.675, 1e21 + 1e5,
		float64(math.MaxInt32), float64(math.MinInt32), float64(math.MaxInt32) + 0.5, 4294967296, 4294967295.5,
	}
	for e := -1074; e <= 1023; e++ {
		p := math.Ldexp(1, e)
		xs = append(xs, p)
		if e%7 == 0 {
			xs = append(xs, -p, math.Nextafter(p, 0), math.Nextafter(p, math.Inf(1)))
		}
	}
	for e := -324; e <= 308; e++ {
		p, _ := strconv.ParseFloat("1e"+strconv.Itoa(e), 64)
		xs = append(xs, p)
		if e%5 == 0 {
			xs = append(xs, math.Nextafter(p, 0), math.Nextafter(p, math.Inf(1)), -p)
		}
	}
	for n := -20; n <= 20; n++ {
		xs = append(xs, float64(n)+0.5, float64(n)+0.25, float64(n))
	}
	return xs
}

func nmRandFloat(r *rand.Rand) (float64, string) {
	switch r.Intn(12) {
	case 0, 1, 2:
		return math.Float64frombits(r.Uint64()), "random-bits"
	case 3:
		// integers of every magnitude, possibly beyond 2^53 and 2^63
		e := r.Intn(70)
		v := math.Ldexp(float64(r.Uint64()>>11), e-52)
		v = math.Trunc(v)
		if r.Intn(2) == 0 {
			v = -v
		}
		return v, "random-int"
	case 4:
		// n + 0.5 (rounding ties)
		v := float64(r.Int63n(1<<uint(1+r.Intn(52)))) + 0.5
		if r.Intn(2) == 0 {
			v = -v
		}
		return v, "random-half"
	case 5:
		// k digits after the point
		k := 1 + r.Intn(17)
		s := strconv.Itoa(r.Intn(1000)) + "." + nmRandDigits(r, k)
		v, _ := strconv.ParseFloat(s, 64)
		return v, "random-decimal"
	case 6:
		// 15..17 significant digits with a random exponent
		k := 15 + r.Intn(3)
		s := string('1'+byte(r.Intn(9))) + "." + nmRandDigits(r, k-1) + "e" + strconv.Itoa(r.Intn(600)-300)
		v, _ := strconv.ParseFloat(s, 64)
		return v, "random-sig15-17"
	case 7:
		// near 2^63 and 2^53
		base := []float64{9223372036854775808.0, 9007199254740992.0, 4503599627370496.0, 4294967296.0}[r.Intn(4)]
		v := base
		for i := r.Intn(4); i > 0; i-- {
			if r.Intn(2) == 0 {
				v = math.Nextafter(v, 0)
			} else {
				v = math.Nextafter(v, math.Inf(1))
			}
		}
		if r.Intn(2) == 0 {
			v = -v
		}
		return v, "random-near-limit"
	case 8:
		// subnormals
		v := math.Float64frombits(r.Uint64() >> uint(12+r.Intn(52)))
		if r.Intn(2) == 0 {
			v = -v
		}
		return v, "random-subnormal"
	case 9:
		// exponent in the range where trunc/round do real work
		bits := r.Uint64()
		e := uint64(1023 - 3 + r.Intn(60))
		bits = bits&^(0x7ff<<52) | e<<52
		return math.Float64frombits(bits), "random-mid-exponent"
	case 10:
		// few mantissa bits: short decimal expansions
		bits := r.Uint64()
		keep := uint(1 + r.Intn(20))
		bits &^= (1<<(52-keep) - 1)
		return math.Float64frombits(bits), "random-short-mantissa"
	default:
		// small arithmetic results
		a, b := float64(r.Intn(2000)-1000), float64(1+r.Intn(999))
		return a / b, "random-quotient"
	}
}

func nmRandDigits(r *rand.Rand, k int) string {
	b := make([]byte, k)
	for i := range b {
		b[i] = '0' + byte(r.Intn(10))
	}
	return string(b)
}

func nmNumLexemePool() []string {
	xs := []string{
		"0", "1", "10", "007", "00", "0.0", "0.5", "1.5", "1.50", "3.14", "1e3", "1E3", "1e+3", "1e-3", "1.5e3", "0e0", "0e999999", "0.0e-999999",
		"9007199254740993", "9007199254740992", "9007199254740991", "9007199254740995", "9007199254740994.999999999999999999",
		"0.1000000000000000055511151231257827", "0.10000000000000000555111512312578270211815834045410156250",
		"0.10000000000000000555111512312578270211815834045410156251",
		"1e23", "8.41e21", "2.2250738585072011e-308", "2.2250738585072012e-308", "2.2250738585072014e-308", "2.225073858507201e-308",
		"4.9e-324", "5e-324", "2.4703282292062327e-324", "2.4703282292062328e-324", "2.47032822920623272e-324", "2.4703282292062327208051355972538464e-324", "1e-324", "1e-400", "1e-99999999999999999999",
		"1.7976931348623157e308", "1.7976931348623158e308", "1.797693134862315807e308", "1.7976931348623158079e308", "1.7976931348623159e308", "1.8e308", "1e309", "1e400", "1e99999999999999999999", "179769313486231570814527423731704356798070567525844996598917476803157260780028538760589558632766878171540458953514382464234321326889464182768467546703537516986049910576551282076245490090389328944075868508455133942304583236903222948165808559332123348274797826204144723168738177180919299881250404026184124858368",
		"179769313486231580793728971405303415079934132710037826936173778980444968292764750946649017977587207096330286416692887910946555547851940402630657488671505820681908902000708383676273854845817711531764475730270069855571366959622842914819860834936475292719074168444365510704342711559699508093042880177904174497791",
		"179769313486231580793728971405303415079934132710037826936173778980444968292764750946649017977587207096330286416692887910946555547851940402630657488671505820681908902000708383676273854845817711531764475730270069855571366959622842914819860834936475292719074168444365510704342711559699508093042880177904174497792",
		"123456789012345678901234567890", "0.000000000000000000000000000001", "1.2.3", "1e5e6", "1.5e", "1e", "e5", ".5", "5.", ".", "", "1..2", "1e+", "1e-", "1e+-5", "1.e5", ".e5", ".5e1", "5.e1",
		"0x0", "0x1", "0xff", "0xFF", "0xfF", "0x7fffffffffffffff", "0x8000000000000000", "0xffffffffffffffff", "0x7ffffffffffffc00", "0x7ffffffffffffe00", "0x7ffffffffffffdff", "0x7ffffffffffffe01",
		"0x20000000000001", "0x20000000000002", "0x20000000000003", "0x40000000000001", "0x40000000000002", "0x40000000000003", "0x40000000000006",
		"0x", "0xg", "0x00", "0x01", "0X1", "0x1e5", "0xe", "0xe5", "0x1e", "0xdeadbeef", "0xDEADBEEFCAFE",
		"0b0", "0b1", "0b101", "0b", "0b2", "0b00", "0B1", "0b" + strings.Repeat("1", 63), "0b" + strings.Repeat("1", 64), "0b1" + strings.Repeat("0", 63), "0b1" + strings.Repeat("0", 62),
		"0o0", "0o7", "0o17", "0o8", "0o", "0O7", "0o777777777777777777777", "0o1000000000000000000000", "0o0777", "017", "08",
		"1" + strings.Repeat("0", 308), "1" + strings.Repeat("0", 309), "0." + strings.Repeat("0", 400) + "1",
		strings.Repeat("9", 800), strings.Repeat("9", 801) + "e-500", "0." + strings.Repeat("0", 322) + "24703282292062327208051355972538464", "1" + strings.Repeat("0", 400) + "e-400",
		"-5", "+5", "-0", "-0.0", "+", "-", "+-5", "-.5", "-1e400", "-1e-400", "- 5", "1e0000000000000000000000005", "1e-0", "1e+0", "4.35", "0.57", "1.005", "100e-2", "12345e-5",
	}
	return xs
}

func nmRandLexeme(r *rand.Rand) (string, string) {
	switch r.Intn(14) {
	case 0:
		return strconv.Itoa(r.Intn(100000)), "lex-int-short"
	case 1:
		return nmNz(r) + nmRandDigits(r, 14+r.Intn(8)), "lex-int-long"
	case 2:
		return strconv.Itoa(r.Intn(1000)) + "." + nmRandDigits(r, 1+r.Intn(6)), "lex-frac-short"
	case 3:
		return strconv.Itoa(r.Intn(10)) + "." + nmRandDigits(r, 15+r.Intn(25)), "lex-frac-long"
	case 4:
		sign := []string{"", "+", "-"}[r.Intn(3)]
		return nmNz(r) + "." + nmRandDigits(r, r.Intn(20)+1) + []string{"e", "E"}[r.Intn(2)] + sign + strconv.Itoa(r.Intn(340)), "lex-exp"
	case 5:
		// exact halfway between two adjacent doubles, and its neighbours: x + ulp/2 written out exactly
		return nmHalfwayLexeme(r), "lex-halfway"
	case 6:
		// the shortest form of a random double, possibly with one digit perturbed / appended
		x := math.Float64frombits(r.Uint64() & 0x7fffffffffffffff)
		if x != x || math.IsInf(x, 0) {
			x = 1.5
		}
		s := strconv.FormatFloat(x, 'e', -1, 64)
		if r.Intn(2) == 0 {
			// append digits after the mantissa
			i := strings.IndexByte(s, 'e')
			m := s[:i]
			if !strings.Contains(m, ".") {
				m += "."
			}
			s = m + nmRandDigits(r, 1+r.Intn(5)) + s[i:]
		}
		return s, "lex-shortest-perturbed"
	case 7:
		// near the overflow / underflow thresholds
		if r.Intn(2) == 0 {
			return "1.79769313486231" + nmRandDigits(r, 1+r.Intn(6)) + "e308", "lex-near-overflow"
		}
		return strconv.Itoa(1+r.Intn(9)) + "." + nmRandDigits(r, r.Intn(5)) + "e-" + strconv.Itoa(320+r.Intn(8)), "lex-near-underflow"
	case 8:
		k := 1 + r.Intn(17)
		return "0x" + nmRandFrom(r, "0123456789abcdefABCDEF", k), "lex-hex"
	case 9:
		return "0b" + nmRandFrom(r, "01", 1+r.Intn(66)), "lex-bin"
	case 10:
		return "0o" + nmRandFrom(r, "01234567", 1+r.Intn(23)), "lex-oct"
	case 11:
		// hex around 2^53..2^63 where float64(n) must round
		n := uint64(1)<<uint(53+r.Intn(11)) + uint64(r.Intn(4096))
		return "0x" + strconv.FormatUint(n, 16), "lex-hex-rounding"
	case 12:
		// garbage from the number alphabet (mostly syntax errors)
		return nmRandFrom(r, "0123456789.eE+-", 1+r.Intn(6)), "lex-garbage"
	default:
		// what the two float rules admit beyond ParseFloat: repeated fraction / exponent parts
		s := strconv.Itoa(r.Intn(100))
		for i := r.Intn(3); i > 0; i-- {
			s += "." + nmRandDigits(r, 1+r.Intn(3))
		}
		for i := r.Intn(3); i > 0; i-- {
			s += "e" + []string{"", "+", "-"}[r.Intn(3)] + strconv.Itoa(r.Intn(30))
		}
		return s, "lex-multi-part"
	}
}

func nmNz(r *rand.Rand) string { return string('1' + byte(r.Intn(9))) }

func nmRandFrom(r *rand.Rand, alphabet string, k int) string {
	b := make([]byte, k)
	for i := range b {
		b[i] = alphabet[r.Intn(len(alphabet))]
	}
	return string(b)
}

// exact decimal expansion of (2m+1)·2^(e-1), the midpoint above the double m·2^e, optionally
// nudged by a final digit so that it lies just below / above the tie.
func nmHalfwayLexeme(r *rand.Rand) string {
	var x float64
	switch r.Intn(3) {
	case 0:
		x = math.Float64frombits(r.Uint64() & 0x7fefffffffffffff)
	case 1:
		x = math.Float64frombits(r.Uint64() >> uint(12+r.Intn(40))) // subnormal
	default:
		x = math.Ldexp(float64(r.Uint64()>>11|1<<52), r.Intn(40)-60)
	}
	if x != x || math.IsInf(x, 0) {
		x = 1
	}
	bits := math.Float64bits(x)
	ef := int(bits>>52) & 0x7ff
	m := bits & (1<<52 - 1)
	e := -1074
	if ef != 0 {
		m |= 1 << 52
		e = ef - 1075
	}
	// midpoint = (2m+1) * 2^(e-1)
	s := nmExactDecimal(2*m+1, e-1)
	switch r.Intn(4) {
	case 0:
		return s
	case 1:
		if strings.Contains(s, ".") {
			return s + "1"
		}
		return s + ".0000000000000000000001"
	case 2:
		// just below: decrement the last digit (it is never 0 for a fraction: ends in 5)
		if strings.Contains(s, ".") {
			return s[:len(s)-1] + "4" + nmRandDigits(r, 3)
		}
		return s
	default:
		// exponent form with the same digits
		if i := strings.IndexByte(s, '.'); i >= 0 {
			return s[:i] + s[i+1:] + "e-" + strconv.Itoa(len(s)-i-1)
		}
		return s + "e0"
	}
}

// exact decimal text of n·2^e (n>0), positional, no trailing fractional zeros
func nmExactDecimal(n uint64, e int) string {
	v := new(big.Int).SetUint64(n)
	if e >= 0 {
		return v.Lsh(v, uint(e)).String()
	}
	// n / 2^k = n·5^k / 10^k
	k := -e
	v.Mul(v, new(big.Int).Exp(big.NewInt(5), big.NewInt(int64(k)), nil))
	ds := v.String()
	if len(ds) <= k {
		ds = strings.Repeat("0", k-len(ds)+1) + ds
	}
	ip, fp := ds[:len(ds)-k], strings.TrimRight(ds[len(ds)-k:], "0")
	if fp == "" {
		return ip
	}
	return ip + "." + fp
}

// ---- strings ----

func nmStrPool() []string {
	return []string{
		"", "a", "hello", "with space", "\"", "\\", "\\\\", "a\"b", "a\\b", "'", "`",
		"\a\b\f\n\r\t\v", "\x00", "\x01\x02\x1f", "\x7f", "\u0080", "\u009f", "\u00a0", "\u00ad", "\u00a1", "é", "日本語", "\ufffd", "\ufeff", "\u200b", "\u2028", "\u2029", "\u3000",
		"\U0001F600", "\U0001F600\U0001F3FB", "\U000E0001", "\U0010FFFF", "\U000F0000", "\ue000", "\ud7ff", "\U00010000", "\uffff", "\ufffe", "\u0378", "\u0377",
		"tab\there", "nl\nhere", "mixed \"q\" \\ \x07 é \u200b \U0001F600 end", "\u0300", "a\u0300", "\u061c", "\u070f",
	}
}

func nmRandStr(r *rand.Rand) (string, string) {
	k := r.Intn(12)
	var b []rune
	kind := r.Intn(6)
	for i := 0; i < k; i++ {
		switch kind {
		case 0:
			b = append(b, rune(32+r.Intn(95)))
		case 1:
			b = append(b, rune(r.Intn(0x100)))
		case 2:
			b = append(b, nmRandRune(r, 0x10000))
		case 3:
			b = append(b, nmRandRune(r, 0x110000))
		case 4:
			sp := []rune("\"\\\a\b\f\n\r\t\v\x00\x7f'`/u")
			b = append(b, sp[r.Intn(len(sp))])
		default:
			switch r.Intn(4) {
			case 0:
				b = append(b, rune(32+r.Intn(95)))
			case 1:
				b = append(b, []rune("\"\\\n\t\r")[r.Intn(5)])
			case 2:
				b = append(b, nmRandRune(r, 0x3000))
			default:
				b = append(b, nmRandRune(r, 0x110000))
			}
		}
	}
	return string(b), []string{"ascii-printable", "latin1", "bmp", "any-plane", "specials", "mixed"}[kind]
}

func nmRandRune(r *rand.Rand, lim int) rune {
	for {
		c := rune(r.Intn(lim))
		if c < 0xD800 || c > 0xDFFF {
			return c
		}
	}
}

func nmUnquotePool() []string {
	return []string{
		`""`, `"a"`, `"hello world"`, `"a\"b"`, `"a\\b"`, `"\t\r\n\b\f"`, `"\/"`, `"a\/b"`, `"\u0041"`, `"\u00e9"`, `"\u65E5"`, `"\ud800"`, `"\udfff"`, `"\ud83d\ude00"`, `"\uD7FF"`, `"\ue000"`, `"\uFFFF"`, `"\u0000"`, `"\u000a"`,
		"\"a\nb\"", "\"a\rb\"", "\"a\tb\"", "\"\x00\"", "\"é\"", "\"日本\"", "\"\U0001F600\"", "\"\\\\\\\"\"", `"\\"`, `"\\\\"`, `"\"`, `"`, ``, `"abc`, `abc"`, `abc`, `"a"b"`, `"a""`, `"\a"`, `"\v"`, `"\'"`, `"'"`, `"\x41"`, `"\x7f"`, `"\101"`, `"\0"`, `"\00"`, `"\000"`, `"\U0001F600"`, `"\U00110000"`, `"\U0000d800"`, `"\u123"`, `"\u12G4"`, `"\q"`, `"\`, `"\u"`, `"\x4"`, `"\18"`,
		"``", "`a`", "`a\"b`", "`a\\nb`", "`a\nb`", "`a\rb`", "`\r`", "`\r\n`", "`a\r\nb\r`", "`é\U0001F600`", "`", "`a", "a`", "`a`b`", "`a``", "`\\`",
		`''`, `'a'`, `'ab'`, `'\''`, `'\"'`, `'"'`, `'\n'`, `'é'`, `'\u00e9'`, `'`, `'a`, `'\'`, "'\n'", `'''`,
		`"` + "`" + `"`, "`\"`", `x"a"`, ` "a"`, `"a" `,
	}
}

func nmRandUnquoteInput(r *rand.Rand) (string, string) {
	switch r.Intn(6) {
	case 0, 1, 2:
		// a member of the lexer's double-quoted language
		var b strings.Builder
		b.WriteByte('"')
		for i := r.Intn(8); i > 0; i-- {
			switch r.Intn(8) {
			case 0:
				b.WriteString("\\" + string(`"\trnbf/`[r.Intn(8)]))
			case 1:
				b.WriteString("\\u" + nmRandFrom(r, "0123456789abcdefABCDEF", 4))
			case 2:
				b.WriteString("\\u" + []string{"d800", "DBFF", "dc00", "dfff", "d7ff", "e000", "0000", "000A", "0022", "005c", "fffd", "FFFF"}[r.Intn(12)])
			case 3:
				c := nmRandRune(r, 0x110000)
				if c == '"' || c == '\\' {
					c = 'x'
				}
				b.WriteRune(c)
			case 4:
				b.WriteString([]string{"\n", "\r", "\t", "\x00", "'", "`", "/", " "}[r.Intn(8)])
			default:
				b.WriteByte(byte('a' + r.Intn(26)))
			}
		}
		b.WriteByte('"')
		return b.String(), "unq-lexer-dq"
	case 3:
		// a member of the back-quoted language
		var b strings.Builder
		b.WriteByte('`')
		for i := r.Intn(8); i > 0; i-- {
			switch r.Intn(5) {
			case 0:
				b.WriteString([]string{"\r", "\n", "\r\n", "\\", "\"", "\\n", "\\u0041"}[r.Intn(7)])
			case 1:
				c := nmRandRune(r, 0x110000)
				if c == '`' {
					c = 'x'
				}
				b.WriteRune(c)
			default:
				b.WriteByte(byte('a' + r.Intn(26)))
			}
		}
		b.WriteByte('`')
		return b.String(), "unq-lexer-raw"
	case 4:
		// Quote output of a random string (always accepted)
		s, _ := nmRandStr(r)
		return strconv.Quote(s), "unq-of-quote"
	default:
		// soup over the quoting alphabet: mostly rejected
		alphabet := []string{"\"", "\"", "`", "'", "\\", "\\", "n", "u", "U", "x", "0", "1", "7", "8", "a", "f", "D", "8", "0", "0", "\n", "\r", "é", "/", "v"}
		var b strings.Builder
		b.WriteString([]string{"\"", "\"", "`", "'"}[r.Intn(4)])
		for i := r.Intn(9); i > 0; i-- {
			b.WriteString(alphabet[r.Intn(len(alphabet))])
		}
		if r.Intn(4) != 0 {
			b.WriteString([]string{"\"", "\"", "`", "'"}[r.Intn(4)])
		}
		return b.String(), "unq-soup"
	}
}

func init() {
	register(&Stream{
		Name: "num",
		Rule: "numbers: boundary pool (±0, ties n+0.5, 2^53±1, ±2^63 and neighbours, all powers of two and ten with neighbours, subnormals, ±Inf, NaN, 15/16/17-digit values) and random doubles (raw bit patterns, integers of every magnitude, halves, short decimals, 15-17 significant digits, subnormals, mid exponents, short mantissas, quotients) through render/fmtfloat/toint/trunc/floor/ceil/round/abs/neg/isint/min/max; int64 values through ofint/fmtint; number lexemes (fixed corpus of halfway, overflow, underflow, hex/bin/oct and malformed lexemes; random short/long mantissas, exponents, exact binary midpoints and their neighbours, perturbed shortest forms, threshold values, hex/bin/oct incl. > int64, lexer-admitted multi-part forms, garbage) through ast.Num and strconv.ParseFloat; strings (quotes, backslashes, controls, latin-1, BMP, astral, unassigned and non-printable runes) through strconv.Quote / val.Str; literals of the lexer's two string rules, Quote outputs and quote-alphabet soup through strconv.Unquote / ast.Str. Non-trivial = not the zero value / empty string; distinct = distinct request line.",
		Gen: func(r *rand.Rand, n int, thorough bool) []Case {
			var cs []Case
			pool := nmNumPool()
			for _, x := range pool {
				cs = append(cs, nmNumCasesFor(x, "pool")...)
			}
			special := []float64{0, math.Copysign(0, -1), 1, -1, math.Inf(1), math.Inf(-1), math.NaN(), 1.5, -1.5, 5e-324, -5e-324, math.MaxFloat64, -math.MaxFloat64}
			for _, x := range special {
				for _, y := range special {
					cs = append(cs, nmMinmaxCases(x, y, "pool")...)
				}
			}
			ints := []int64{0, 1, -1, 9, 10, -10, 99, 100, 1<<53 - 1, 1 << 53, 1<<53 + 1, 1<<53 + 2, 1<<53 + 3, -(1<<53 + 1), 1<<54 + 2, 1<<54 + 6, 1<<54 + 1, 1<<54 + 3,
				math.MaxInt64, math.MinInt64, math.MaxInt64 - 511, math.MaxInt64 - 512, math.MaxInt64 - 513, math.MinInt64 + 1, 1 << 62, 1<<62 + 1<<8, 1<<62 + 1<<9, 1<<62 + 3<<8, 123456789, -987654321012345678}
			for _, k := range ints {
				cs = append(cs, nmIntCases(k, "pool")...)
			}
			for _, s := range nmNumLexemePool() {
				cs = append(cs, nmParseCases(s, "pool")...)
			}
			for _, s := range nmStrPool() {
				cs = append(cs, nmQuoteCase(s, "pool"))
				cs = append(cs, nmUnquoteCase(strconv.Quote(s), "pool-quoted"))
			}
			for _, s := range nmUnquotePool() {
				if utf8.ValidString(s) {
					cs = append(cs, nmUnquoteCase(s, "pool"))
				}
			}
			// single-byte exhaustive: every rune below 0x300 through Quote
			for c := rune(0); c < 0x300; c++ {
				cs = append(cs, nmQuoteCase(string(c), "exhaustive-low"))
			}
			if thorough {
				for c := rune(0x300); c <= 0x10FFFF; c += 1 {
					if c >= 0xD800 && c <= 0xDFFF {
						continue
					}
					if c < 0x3400 || c%37 == 0 {
						cs = append(cs, nmQuoteCase("a"+string(c), "thorough-rune-sweep"))
					}
				}
			}
			for i := 0; i < n; i++ {
				switch i % 10 {
				case 0, 1:
					x, tag := nmRandFloat(r)
					all := nmNumCasesFor(x, tag)
					// spread: keep render, renderpinned, fmtfloat, toint, the two isint flavours and two of the rest
					k := len(all)
					cs = append(cs, all[0], all[1], all[2], all[3], all[k-2], all[k-1], all[4+r.Intn(k-6)], all[4+r.Intn(k-6)])
				case 2:
					x, tag := nmRandFloat(r)
					y, _ := nmRandFloat(r)
					if r.Intn(4) == 0 {
						y = x
					}
					if r.Intn(8) == 0 {
						y = -x
					}
					cs = append(cs, nmMinmaxCases(x, y, tag)...)
				case 3:
					var k int64
					switch r.Intn(3) {
					case 0:
						k = int64(r.Uint64())
					case 1:
						k = int64(r.Uint64()) >> uint(r.Intn(64))
					default:
						k = (int64(1)<<uint(53+r.Intn(10)) + int64(r.Intn(2048)) - 1024)
						if r.Intn(2) == 0 {
							k = -k
						}
					}
					cs = append(cs, nmIntCases(k, "random")...)
				case 4, 5, 6:
					s, tag := nmRandLexeme(r)
					cs = append(cs, nmParseCases(s, tag)...)
				case 7:
					s, tag := nmRandStr(r)
					cs = append(cs, nmQuoteCase(s, tag))
				default:
					s, tag := nmRandUnquoteInput(r)
					cs = append(cs, nmUnquoteCase(s, tag))
				}
			}
			return cs
		},
	})
}
