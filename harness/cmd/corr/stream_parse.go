package main

import (
	"fmt"
	"math"
	"math/rand"
	"os"
	"sort"
	"strconv"
	"strings"

	"github.com/goghcrow/yae/parser"
	"github.com/goghcrow/yae/parser/ast"
	"github.com/goghcrow/yae/parser/lexer"
	"github.com/goghcrow/yae/parser/oper"
	"github.com/goghcrow/yae/parser/pos"
	"github.com/goghcrow/yae/parser/token"
	"github.com/goghcrow/yae/timelib"
	"github.com/goghcrow/yae/trans"
	"github.com/goghcrow/yae/types"
)

// ---------------------------------------------------------------------------------------
// parse stream (property C08): parser.NewParser(ops).Parse(lexer.NewLexer(ops).Lex(src))
// against the Lean model `Yae.parse` on the SAME token list (the real lexer's output).
//
//   request : (parse ((<$kind> <#bp> <fixity>) ...) (($timetext int) ...) (tok ...) ...)
//   answer  : (ok <expr>) | (err syntax)
//
// desugar stream (property C10): trans.Desugar(tree) against `Yae.desugarGo`.
//
//   request : (desugar <expr>)
//   answer  : (ok <expr>) | (err unreachable)
//
// Implementation-side oracles (independent of the model), see refParser below:
//   parse-tree                : accepted, but the tree is not the one the declarations dictate
//   parse-accepts-malformed   : accepted although the reference grammar rejects the input
//   parse-rejects-wellformed  : rejected although the reference grammar accepts the input
//   parse-fractional-bp       : explained by `bp-1` for right-associative operators / the
//                               else-branch of ?: when another power sits in (bp-1, bp)
//   parse-huge-bp             : explained by float32 `bp-1 == bp` (powers >= 2^24)
//   parse-shadowed-builtin    : explained by a user PREFIX operator whose kind replaces a
//                               built-in prefix form (grouping, literals, list, object)
//   parse-span                : a node's position is not first-token-start .. last-token-end
//                               with line/col of its first token (or a name position / DBGCol
//                               is not that of the operator token)
//   parse-nonassoc            : accepted tree has an INFIX_N binary with a same-name binary child
//   parse-harness             : the reference parser disagrees with the generating tree (a bug
//                               in this file, never expected)
//   desugar-core / desugar-idempotent / desugar-idempotent-group-member /
//   desugar-mutates-input / desugar-order / desugar-shape
// ---------------------------------------------------------------------------------------

// ---- operator tables --------------------------------------------------------------------

type psTable struct {
	name     string
	ops      []oper.Operator
	noOracle bool // degenerate powers (<= 0, NaN, Inf): model-vs-implementation only
	lx       interface{ Lex(string) []*token.Token }
	ps       interface {
		Parse([]*token.Token) ast.Expr
	}
	rt *refTab
}

func (t *psTable) init() *psTable {
	// ALWAYS fresh copies: oper.Sort sorts its argument in place
	t.lx = lexer.NewLexer(append([]oper.Operator{}, t.ops...))
	t.ps = parser.NewParser(append([]oper.Operator{}, t.ops...))
	t.rt = newRefTab(t.ops)
	return t
}

func psFixedTables() []*psTable {
	builtin := append([]oper.Operator{}, oper.BuiltIn()...)
	inf := oper.BP(math.Inf(1))
	nan := oper.BP(math.NaN())
	tabs := []*psTable{
		{name: "builtin", ops: builtin},
		// one user operator of every fixity next to the built-in ones
		{name: "fixities", ops: append(append([]oper.Operator{}, builtin...),
			op("~", oper.BP_PREFIX, oper.PREFIX), op("<>", oper.BP_CMP, oper.INFIX_N), op("**", oper.BP_EXP, oper.INFIX_R),
			op("++", oper.BP_POSTFIX, oper.POSTFIX), op("@", oper.BP_POSTFIX, oper.POSTFIX), op("|>", oper.BP_COND+0, oper.INFIX_L),
			op("$", oper.BP_NONE, oper.NA))},
		// identifier-like operators only
		{name: "ident-ops", ops: []oper.Operator{
			op("and", 4, oper.INFIX_L), op("or", 3, oper.INFIX_L), op("not", 10, oper.PREFIX), op("in", 6, oper.INFIX_N),
			op("is", 5, oper.INFIX_N), op("mod", 8, oper.INFIX_L), op("pow", 9, oper.INFIX_R), op("sq", 11, oper.POSTFIX),
			op("非", 10, oper.PREFIX), op("neg", 10, oper.PREFIX),
		}},
		// fractional powers, some of them inside (bp-1, bp) of a right-associative operator
		{name: "fractional", ops: []oper.Operator{
			op("+", 7, oper.INFIX_L), op("*", 8, oper.INFIX_L), op("^", 9, oper.INFIX_R), op("#", 8.5, oper.INFIX_L),
			op("@", 8.5, oper.INFIX_R), op("$", 8.25, oper.INFIX_N), op("~", 8.75, oper.PREFIX), op("!", 9.5, oper.POSTFIX),
			op("%", 1.5, oper.INFIX_L), op("->", 2.5, oper.INFIX_R), op("-", 7.5, oper.INFIX_L), op("-", 10, oper.PREFIX),
		}},
		// powers at and beyond float32's integer range: 16777220-1 == 16777220, 2^25-1 == 2^25, 1e10-1 == 1e10
		{name: "huge", ops: []oper.Operator{
			op("+", 16777216, oper.INFIX_L), op("**", 16777218, oper.INFIX_R), op("^", 16777220, oper.INFIX_R),
			op("*", 33554432, oper.INFIX_L), op("^^", 33554432, oper.INFIX_R), op("<>", 3e9, oper.INFIX_N),
			op("@", 1e10, oper.INFIX_R), op("-", 1e10, oper.PREFIX), op("!", 2e10, oper.POSTFIX), op("=", 5, oper.INFIX_R),
		}},
		// user declarations of the built-in infix forms: the built-in ones win
		{name: "collide-infix", ops: []oper.Operator{
			op("?", 7, oper.INFIX_L), op(".", 3, oper.INFIX_R), op("(", 5, oper.POSTFIX), op("[", 4, oper.INFIX_L),
			op("+", 7, oper.INFIX_L), op("-", 10, oper.PREFIX), op("*", 8, oper.INFIX_L),
		}},
		// user PREFIX declarations whose kind is a built-in prefix form
		{name: "shadow-prefix", ops: []oper.Operator{
			op("(", 10, oper.PREFIX), op("true", 10, oper.PREFIX), op("+", 7, oper.INFIX_L), op("-", 10, oper.PREFIX),
		}},
		{name: "shadow-bracket", ops: []oper.Operator{
			op("[", 10, oper.PREFIX), op("{", 3, oper.PREFIX), op("+", 7, oper.INFIX_L), op("*", 8, oper.INFIX_L),
		}},
		{name: "shadow-sym", ops: []oper.Operator{
			op("<sym>", 10, oper.PREFIX), op("+", 7, oper.INFIX_L), op("<num>", 11, oper.POSTFIX), op("false", 6, oper.INFIX_N),
		}},
		// user declarations whose kind is a punctuation token (the lexer produces the punctuation kind)
		{name: "collide-punct", ops: []oper.Operator{
			op(":", 4, oper.INFIX_L), op(",", 3, oper.INFIX_L), op(")", 11, oper.POSTFIX), op("]", 10, oper.PREFIX),
			op("+", 7, oper.INFIX_L), op("-", 10, oper.PREFIX),
		}},
		// the same kind declared several times: the last declaration of a slot wins
		{name: "duplicates", ops: []oper.Operator{
			op("+", 7, oper.INFIX_L), op("+", 3, oper.INFIX_R), op("-", 10, oper.PREFIX), op("-", 7, oper.INFIX_L),
			op("-", 2, oper.PREFIX), op("<", 6, oper.INFIX_N), op("<", 6, oper.INFIX_L), op("!", 11, oper.POSTFIX),
			op("!", 10, oper.PREFIX), op("!", 5, oper.INFIX_N), op("*", 8, oper.INFIX_L),
		}},
		// prefix-overlapping kinds, shortest first (oper.Sort reorders them)
		{name: "overlap", ops: []oper.Operator{
			op("<", 6, oper.INFIX_N), op("<=", 6, oper.INFIX_N), op("<=>", 6, oper.INFIX_N), op("!", 10, oper.PREFIX),
			op("!=", 5, oper.INFIX_N), op("!==", 5, oper.INFIX_N), op("=", 1, oper.INFIX_R), op("==", 5, oper.INFIX_N),
			op("+", 7, oper.INFIX_L), op("++", 11, oper.POSTFIX), op("+++", 7, oper.INFIX_R),
		}},
		// non-ASCII kinds (byte length != rune length)
		{name: "unicode", ops: []oper.Operator{
			op("×", 8, oper.INFIX_L), op("÷", 8, oper.INFIX_L), op("≤", 6, oper.INFIX_N), op("→", 3, oper.INFIX_R),
			op("¬", 10, oper.PREFIX), op("ˆ", 9, oper.INFIX_R), op("°", 11, oper.POSTFIX), op("+", 7, oper.INFIX_L),
		}},
		// all fixities at one and the same power
		{name: "same-bp", ops: []oper.Operator{
			op("+", 7, oper.INFIX_L), op("^", 7, oper.INFIX_R), op("<>", 7, oper.INFIX_N), op("!", 7, oper.POSTFIX),
			op("-", 7, oper.PREFIX), op("*", 7, oper.INFIX_L), op("**", 7, oper.INFIX_R),
		}},
		// prefix operators that bind weaker than the infix ones, postfix that binds weaker than prefix
		{name: "prefix-low", ops: []oper.Operator{
			op("not", 3, oper.PREFIX), op("-", 10, oper.PREFIX), op("+", 7, oper.INFIX_L), op("*", 8, oper.INFIX_L),
			op("==", 5, oper.INFIX_N), op("&&", 4, oper.INFIX_L), op("!", 11, oper.POSTFIX), op("?!", 6, oper.POSTFIX),
			op("~", 1, oper.PREFIX),
		}},
		// powers around and above call (12) and member (13)
		{name: "above-member", ops: []oper.Operator{
			op("|>", 14, oper.INFIX_L), op("@", 14, oper.PREFIX), op("!", 12.5, oper.POSTFIX), op("#", 12.5, oper.PREFIX),
			op("%", 13, oper.INFIX_L), op("+", 7, oper.INFIX_L), op("^", 13, oper.INFIX_R), op("~", 12, oper.PREFIX),
		}},
		// degenerate powers
		{name: "degenerate", noOracle: true, ops: []oper.Operator{
			op("+", 0, oper.INFIX_L), op("-", -5, oper.PREFIX), op("*", inf, oper.INFIX_L), op("^", inf, oper.INFIX_R),
			op("#", nan, oper.INFIX_L), op("~", nan, oper.PREFIX), op("!", -1, oper.POSTFIX), op("@", -2, oper.INFIX_R),
			op("%", 0.5, oper.INFIX_R), op("&", oper.BP(math.SmallestNonzeroFloat32), oper.INFIX_L),
		}},
	}
	for _, t := range tabs {
		t.init()
	}
	return tabs
}

var psRandKinds = []string{"+", "-", "*", "/", "^", "<", ">", "=", "!", "~", "#", "@", "&", "|", "<=", "**", "and", "or", "not", "mod"}
var psRandBPs = []oper.BP{1, 2, 3, 4, 5, 6, 7, 8, 9, 10, 11, 12, 13, 14, 3, 5, 7, 9, 2.5, 8.5, 7.25, 1.5, 16777216, 16777220, 33554432, 1e10}

func psRandomTable(r *rand.Rand, i int) *psTable {
	n := 4 + r.Intn(8)
	var ops []oper.Operator
	for j := 0; j < n; j++ {
		ops = append(ops, op(psRandKinds[r.Intn(len(psRandKinds))], psRandBPs[r.Intn(len(psRandBPs))], oper.Fixity(1+r.Intn(5))))
	}
	return (&psTable{name: fmt.Sprintf("random%d", i), ops: ops}).init()
}

// ---- neutral trees and shapes ---------------------------------------------------------

// shapes: one string per tree, the same format for generated trees, reference trees and
// implementation trees.
//   ident:x num:1 str:"s" time:'t' bool:true  [list e..] [map k v ..] [obj n v ..]
//   [pre OP e] [post OP e] [bin OP FIX l r] [tern l m r] [call f a..] [mem o FIELD] [sub v i] [grp e]

type gnode struct {
	kind  string // ident num str time bool list map obj pre post bin tern call mem sub grp
	name  string // lexeme of a leaf / operator / field
	fix   oper.Fixity
	kids  []*gnode
	names []string // obj field names
	// reference parser only: token indices
	first, last, opTok int
}

func (n *gnode) shape(strip bool) string {
	var b strings.Builder
	n.writeShape(&b, strip)
	return b.String()
}

func (n *gnode) writeShape(b *strings.Builder, strip bool) {
	switch n.kind {
	case "ident", "num", "str", "time", "bool":
		b.WriteString(n.kind + ":" + n.name)
		return
	case "grp":
		if strip {
			n.kids[0].writeShape(b, strip)
			return
		}
	}
	b.WriteString("[" + n.kind)
	switch n.kind {
	case "pre", "post", "mem":
		b.WriteString(" " + n.name)
	case "bin":
		b.WriteString(" " + n.name + " " + strconv.Itoa(int(n.fix)))
	}
	for i, k := range n.kids {
		if n.kind == "obj" {
			b.WriteString(" " + n.names[i])
		}
		b.WriteByte(' ')
		k.writeShape(b, strip)
	}
	b.WriteByte(']')
}

// goNode converts an implementation tree to the neutral form (no positions).
func goNode(e ast.Expr) *gnode {
	kids := func(es ...ast.Expr) []*gnode {
		out := make([]*gnode, len(es))
		for i, x := range es {
			out[i] = goNode(x)
		}
		return out
	}
	switch x := e.(type) {
	case *ast.IdentExpr:
		return &gnode{kind: "ident", name: x.Name}
	case *ast.NumExpr:
		return &gnode{kind: "num", name: x.Text}
	case *ast.StrExpr:
		return &gnode{kind: "str", name: x.Text}
	case *ast.TimeExpr:
		return &gnode{kind: "time", name: x.Text}
	case *ast.BoolExpr:
		return &gnode{kind: "bool", name: x.Text}
	case *ast.ListExpr:
		return &gnode{kind: "list", kids: kids(x.Elems...)}
	case *ast.MapExpr:
		n := &gnode{kind: "map"}
		for _, p := range x.Pairs {
			n.kids = append(n.kids, goNode(p.Key), goNode(p.Val))
		}
		return n
	case *ast.ObjExpr:
		n := &gnode{kind: "obj"}
		for _, f := range x.Fields {
			n.names = append(n.names, f.Name)
			n.kids = append(n.kids, goNode(f.Val))
		}
		return n
	case *ast.UnaryExpr:
		k := "post"
		if x.Prefix {
			k = "pre"
		}
		return &gnode{kind: k, name: x.Name, kids: kids(x.LHS)}
	case *ast.BinaryExpr:
		return &gnode{kind: "bin", name: x.Name, fix: x.Fixity, kids: kids(x.LHS, x.RHS)}
	case *ast.TenaryExpr:
		return &gnode{kind: "tern", name: x.Name, kids: kids(x.Left, x.Mid, x.Right)}
	case *ast.CallExpr:
		return &gnode{kind: "call", kids: kids(append([]ast.Expr{x.Callee}, x.Args...)...)}
	case *ast.MemberExpr:
		return &gnode{kind: "mem", name: x.Field.Name, kids: kids(x.Obj)}
	case *ast.SubscriptExpr:
		return &gnode{kind: "sub", kids: kids(x.Var, x.Idx)}
	case *ast.GroupExpr:
		return &gnode{kind: "grp", kids: kids(x.SubExpr)}
	}
	return &gnode{kind: "ident", name: "<bad-expr>"}
}

// goKids: the children of an implementation node in the order of gnode.kids.
func goKids(e ast.Expr) []ast.Expr {
	switch x := e.(type) {
	case *ast.ListExpr:
		return x.Elems
	case *ast.MapExpr:
		var out []ast.Expr
		for _, p := range x.Pairs {
			out = append(out, p.Key, p.Val)
		}
		return out
	case *ast.ObjExpr:
		var out []ast.Expr
		for _, f := range x.Fields {
			out = append(out, f.Val)
		}
		return out
	case *ast.UnaryExpr:
		return []ast.Expr{x.LHS}
	case *ast.BinaryExpr:
		return []ast.Expr{x.LHS, x.RHS}
	case *ast.TenaryExpr:
		return []ast.Expr{x.Left, x.Mid, x.Right}
	case *ast.CallExpr:
		return append([]ast.Expr{x.Callee}, x.Args...)
	case *ast.MemberExpr:
		return []ast.Expr{x.Obj}
	case *ast.SubscriptExpr:
		return []ast.Expr{x.Var, x.Idx}
	case *ast.GroupExpr:
		return []ast.Expr{x.SubExpr}
	}
	return nil
}

// ---- the reference parser ----------------------------------------------------------------
//
// Precedence climbing over (kind, lexeme) pairs, driven only by the declarations:
//   * per kind one prefix slot and one infix/postfix slot, the LAST declaration of a slot wins;
//   * the built-in infix forms ?: (2, right), call (12), member and subscript (13) always win;
//     the built-in prefix forms (identifier, literals, group, list/map, object) win over a user
//     prefix operator of the same kind, and a user operator whose kind is a punctuation or
//     literal token kind (: , ) ] } <sym> ...) is ignored  [flag shadow: the user operator wins];
//   * an operator binds when its power is > the minimum of the context; the right operand of
//     a left- or non-associative operator and the operand of a prefix operator have minimum
//     bp (exclusive), the right operand of a right-associative operator and the else-branch of
//     ?: have minimum bp INCLUSIVE  [rmode 1: bp-1 exclusive, exact; rmode 2: float32(bp-1)];
//   * a non-associative binary whose direct operand is a binary of the same name is rejected;
//   * `.` must be followed by an identifier  [flag anyField: by any token]; `.name(` is a
//     method call (the call belongs to the member form whatever the context's minimum);
//   * lists / maps / objects accept a trailing comma, calls do not; `[]` is the empty list,
//     `[:]` the empty map; a bracket is a map iff a `:` follows its first element.

type refInfix struct {
	bp  float64
	fix oper.Fixity
}

type refTab struct {
	prefix map[string]float64
	infix  map[string]refInfix
	// user infix/postfix declarations whose kind is a punctuation or literal token kind:
	// ignored unless flag shadow
	infixShadow map[string]refInfix
}

// kinds the lexer produces for punctuation and literals, whatever the user declares
var refReserved = map[string]bool{token.COLON: true, token.COMMA: true, token.RIGHT_PAREN: true, token.RIGHT_BRACKET: true,
	token.RIGHT_BRACE: true, token.LEFT_BRACE: true, token.SYM: true, token.NUM: true, token.STR: true, token.TIME: true,
	token.TRUE: true, token.FALSE: true, token.EOF: true}

func newRefTab(ops []oper.Operator) *refTab {
	t := &refTab{prefix: map[string]float64{}, infix: map[string]refInfix{}, infixShadow: map[string]refInfix{}}
	for _, o := range ops {
		switch o.Fixity {
		case oper.PREFIX:
			t.prefix[string(o.Kind)] = float64(o.BP)
		case oper.INFIX_N, oper.INFIX_L, oper.INFIX_R, oper.POSTFIX:
			t.infix[string(o.Kind)] = refInfix{float64(o.BP), o.Fixity}
		}
	}
	for _, k := range []string{"?", ".", "(", "["} {
		delete(t.infix, k)
	}
	for k, v := range t.infix {
		if refReserved[k] {
			t.infixShadow[k] = v
			delete(t.infix, k)
		}
	}
	return t
}

type refFlags struct {
	rmode    int
	shadow   bool
	anyField bool
}

type rtoken struct{ kind, lex string }

type refReject struct{ msg string }

type refParser struct {
	toks []rtoken
	i    int
	tab  *refTab
	fl   refFlags
}

var refBuiltinPrefix = map[string]bool{token.SYM: true, token.TRUE: true, token.FALSE: true, token.NUM: true, token.STR: true,
	token.TIME: true, token.LEFT_PAREN: true, token.LEFT_BRACKET: true, token.LEFT_BRACE: true}

func (p *refParser) fail(format string, a ...interface{}) {
	panic(refReject{fmt.Sprintf(format, a...)})
}

func (p *refParser) peek() string {
	if p.i >= len(p.toks) {
		return token.EOF
	}
	return p.toks[p.i].kind
}

func (p *refParser) next() int {
	if p.i >= len(p.toks) {
		p.fail("unexpected end")
	}
	p.i++
	return p.i - 1
}

func (p *refParser) expect(kind string) int {
	if p.peek() != kind {
		p.fail("expect %s at %d", kind, p.i)
	}
	return p.next()
}

func refNumOK(s string) bool {
	if _, err := strconv.ParseFloat(s, 64); err == nil {
		return true
	}
	for _, pb := range []struct {
		p string
		b int
	}{{"0x", 16}, {"0b", 2}, {"0o", 8}} {
		if strings.HasPrefix(s, pb.p) {
			if _, err := strconv.ParseInt(s[2:], pb.b, 64); err == nil {
				return true
			}
		}
	}
	return false
}

func (p *refParser) primary() *gnode {
	k := p.peek()
	if bp, ok := p.tab.prefix[k]; ok && (p.fl.shadow || !(refBuiltinPrefix[k] || refReserved[k])) {
		o := p.next()
		e := p.expr(bp, true)
		return &gnode{kind: "pre", name: p.toks[o].lex, kids: []*gnode{e}, first: o, last: e.last, opTok: o}
	}
	leaf := func(kind string) *gnode {
		i := p.next()
		return &gnode{kind: kind, name: p.toks[i].lex, first: i, last: i}
	}
	switch k {
	case token.SYM:
		return leaf("ident")
	case token.TRUE, token.FALSE:
		return leaf("bool")
	case token.TIME:
		return leaf("time")
	case token.NUM:
		if !refNumOK(p.toks[p.i].lex) {
			p.fail("bad number")
		}
		return leaf("num")
	case token.STR:
		if _, err := strconv.Unquote(p.toks[p.i].lex); err != nil {
			p.fail("bad string")
		}
		return leaf("str")
	case token.LEFT_PAREN:
		l := p.next()
		e := p.expr(0, true)
		r := p.expect(token.RIGHT_PAREN)
		return &gnode{kind: "grp", kids: []*gnode{e}, first: l, last: r}
	case token.LEFT_BRACKET:
		l := p.next()
		if p.peek() == token.COLON {
			p.next()
			r := p.expect(token.RIGHT_BRACKET)
			return &gnode{kind: "map", first: l, last: r}
		}
		if p.peek() == token.RIGHT_BRACKET {
			r := p.next()
			return &gnode{kind: "list", first: l, last: r}
		}
		n := &gnode{kind: "list", first: l}
		n.kids = append(n.kids, p.expr(0, true))
		if p.peek() == token.COLON {
			n.kind = "map"
			p.next()
			n.kids = append(n.kids, p.expr(0, true))
		}
		for p.peek() == token.COMMA {
			p.next()
			if p.peek() == token.RIGHT_BRACKET {
				break
			}
			n.kids = append(n.kids, p.expr(0, true))
			if n.kind == "map" {
				p.expect(token.COLON)
				n.kids = append(n.kids, p.expr(0, true))
			}
		}
		n.last = p.expect(token.RIGHT_BRACKET)
		return n
	case token.LEFT_BRACE:
		n := &gnode{kind: "obj", first: p.next()}
		for p.peek() != token.RIGHT_BRACE {
			f := p.expect(token.SYM)
			p.expect(token.COLON)
			n.names = append(n.names, p.toks[f].lex)
			n.kids = append(n.kids, p.expr(0, true))
			if p.peek() != token.COMMA {
				break
			}
			p.next()
		}
		n.last = p.expect(token.RIGHT_BRACE)
		return n
	}
	p.fail("no expression starts with %s at %d", k, p.i)
	return nil
}

func (p *refParser) rightMin(bp float64) (float64, bool) {
	switch p.fl.rmode {
	case 0:
		return bp, false
	case 1:
		return bp - 1, true
	}
	f := float32(bp)
	f = f - 1
	return float64(f), true
}

func (p *refParser) args(callee *gnode, lp int) *gnode {
	n := &gnode{kind: "call", kids: []*gnode{callee}, first: callee.first, opTok: lp}
	if p.peek() != token.RIGHT_PAREN {
		n.kids = append(n.kids, p.expr(0, true))
		for p.peek() == token.COMMA {
			p.next()
			n.kids = append(n.kids, p.expr(0, true))
		}
	}
	n.last = p.expect(token.RIGHT_PAREN)
	return n
}

func (p *refParser) expr(min float64, strict bool) *gnode {
	left := p.primary()
	for {
		k := p.peek()
		var lbp float64
		inf, user := p.tab.infix[k]
		if !user && p.fl.shadow {
			inf, user = p.tab.infixShadow[k]
		}
		switch k {
		case token.QUESTION:
			lbp = 2
		case token.LEFT_PAREN:
			lbp = 12
		case token.DOT, token.LEFT_BRACKET:
			lbp = 13
		default:
			if !user {
				return left
			}
			lbp = inf.bp
		}
		if strict && !(lbp > min) || !strict && !(lbp >= min) {
			return left
		}
		o := p.next()
		switch k {
		case token.QUESTION:
			m := p.expr(0, true)
			p.expect(token.COLON)
			rm, rs := p.rightMin(2)
			r := p.expr(rm, rs)
			left = &gnode{kind: "tern", name: p.toks[o].lex, kids: []*gnode{left, m, r}, first: left.first, last: r.last, opTok: o}
		case token.LEFT_PAREN:
			left = p.args(left, o)
		case token.LEFT_BRACKET:
			ix := p.expr(0, true)
			r := p.expect(token.RIGHT_BRACKET)
			left = &gnode{kind: "sub", kids: []*gnode{left, ix}, first: left.first, last: r, opTok: o}
		case token.DOT:
			if !p.fl.anyField && p.peek() != token.SYM {
				p.fail("field name expected at %d", p.i)
			}
			f := p.next()
			left = &gnode{kind: "mem", name: p.toks[f].lex, kids: []*gnode{left}, first: left.first, last: f, opTok: o}
			if p.peek() == token.LEFT_PAREN {
				left = p.args(left, p.next())
			}
		default:
			name := p.toks[o].lex
			if inf.fix == oper.POSTFIX {
				left = &gnode{kind: "post", name: name, kids: []*gnode{left}, first: left.first, last: o, opTok: o}
				continue
			}
			rm, rs := inf.bp, true
			if inf.fix == oper.INFIX_R {
				rm, rs = p.rightMin(inf.bp)
			}
			r := p.expr(rm, rs)
			if inf.fix == oper.INFIX_N {
				for _, c := range []*gnode{left, r} {
					if c.kind == "bin" && c.name == name {
						p.fail("%s is not associative", name)
					}
				}
			}
			left = &gnode{kind: "bin", name: name, fix: inf.fix, kids: []*gnode{left, r}, first: left.first, last: r.last, opTok: o}
		}
	}
}

func refParse(tab *refTab, fl refFlags, toks []rtoken) (n *gnode, why string) {
	defer func() {
		if r := recover(); r != nil {
			if rj, ok := r.(refReject); ok {
				n, why = nil, rj.msg
				return
			}
			panic(r)
		}
	}()
	p := &refParser{toks: toks, tab: tab, fl: fl}
	e := p.expr(0, true)
	if p.i != len(toks) {
		p.fail("trailing input at %d", p.i)
	}
	return e, ""
}

func refShape(tab *refTab, fl refFlags, toks []rtoken) string {
	n, _ := refParse(tab, fl, toks)
	if n == nil {
		return "reject"
	}
	return n.shape(false)
}

// ---- running the implementation ----------------------------------------------------------

func (t *psTable) lex(src string) (toks []*token.Token, ok bool) {
	defer func() {
		if r := recover(); r != nil {
			toks, ok = nil, false
		}
	}()
	return t.lx.Lex(src), true
}

func (t *psTable) parse(toks []*token.Token) (e ast.Expr, ok bool) {
	defer func() {
		if r := recover(); r != nil {
			e, ok = nil, false
		}
	}()
	e = t.ps.Parse(toks)
	return e, e != nil
}

func psEncToks(toks []*token.Token) []string {
	xs := make([]string, len(toks))
	for i, t := range toks {
		xs[i] = sxList("tok", sxStr(string(t.Kind)), sxStr(t.Lexeme),
			sxInt(t.Pos.Idx), sxInt(t.Pos.IdxEnd), sxInt(t.Pos.Col), sxInt(t.Pos.Line))
	}
	return xs
}

// the graph of timelib.Strtotime on the time literals of the token list
func psTimeTable(toks []*token.Token) string {
	seen := map[string]bool{}
	var xs []string
	for _, t := range toks {
		if t.Kind == token.TIME && len(t.Lexeme) >= 2 {
			s := t.Lexeme[1 : len(t.Lexeme)-1]
			if !seen[s] {
				seen[s] = true
				xs = append(xs, sxList(sxStr(s), fmt.Sprintf("%d", timelib.Strtotime(s))))
			}
		}
	}
	return sxList(xs...)
}

// ---- oracles -------------------------------------------------------------------------------

// spanCheck walks the implementation tree and the reference tree (same shape) in parallel.
func spanCheck(e ast.Expr, n *gnode, toks []*token.Token) string {
	p := e.Position()
	f, l := toks[n.first], toks[n.last]
	if p.Idx != f.Idx || p.IdxEnd != l.IdxEnd || p.Col != f.Col || p.Line != f.Line {
		return fmt.Sprintf("%s node %q has pos %+v, its tokens %q..%q give [%d,%d) col %d line %d", n.kind, e.String(), p, f.Lexeme, l.Lexeme, f.Idx, l.IdxEnd, f.Col, f.Line)
	}
	namePos := func(id *ast.IdentExpr) string {
		if id.Pos != toks[n.opTok].Pos {
			return fmt.Sprintf("%s node %q: operator position %+v, operator token at %+v", n.kind, e.String(), id.Pos, toks[n.opTok].Pos)
		}
		return ""
	}
	col := func(c int) string {
		if c != toks[n.opTok].Col {
			return fmt.Sprintf("%s node %q: DBGCol %d, token %q at col %d", n.kind, e.String(), c, toks[n.opTok].Lexeme, toks[n.opTok].Col)
		}
		return ""
	}
	msg := ""
	switch x := e.(type) {
	case *ast.UnaryExpr:
		msg = namePos(x.IdentExpr)
	case *ast.BinaryExpr:
		msg = namePos(x.IdentExpr)
	case *ast.TenaryExpr:
		msg = namePos(x.IdentExpr)
	case *ast.CallExpr:
		msg = col(int(x.DBGCol))
	case *ast.SubscriptExpr:
		msg = col(int(x.DBGCol))
	case *ast.MemberExpr:
		msg = col(int(x.DBGCol))
		if msg == "" && x.Field.Pos != toks[n.last].Pos {
			msg = fmt.Sprintf("member %q: field position %+v, field token at %+v", e.String(), x.Field.Pos, toks[n.last].Pos)
		}
	}
	if msg != "" {
		return msg
	}
	ks := goKids(e)
	if len(ks) != len(n.kids) {
		return "internal: child count"
	}
	for i := range ks {
		if m := spanCheck(ks[i], n.kids[i], toks); m != "" {
			return m
		}
	}
	return ""
}

func nonassocCheck(e ast.Expr) string {
	if b, ok := e.(*ast.BinaryExpr); ok && b.Fixity == oper.INFIX_N {
		for _, c := range []ast.Expr{b.LHS, b.RHS} {
			if cb, ok := c.(*ast.BinaryExpr); ok && cb.Name == b.Name {
				return fmt.Sprintf("non-associative %s chained in %q", b.Name, e.String())
			}
		}
	}
	for _, k := range goKids(e) {
		if m := nonassocCheck(k); m != "" {
			return m
		}
	}
	return ""
}

var refVariants = []struct {
	fl refFlags
	id string
}{
	{refFlags{rmode: 1}, "parse-fractional-bp"},
	{refFlags{rmode: 2}, "parse-huge-bp"},
	{refFlags{shadow: true}, "parse-shadowed-builtin"},
	{refFlags{anyField: true}, "parse-accepts-malformed"},
	{refFlags{rmode: 1, anyField: true}, "parse-fractional-bp"},
	{refFlags{rmode: 2, anyField: true}, "parse-huge-bp"},
	{refFlags{shadow: true, anyField: true}, "parse-shadowed-builtin"},
	{refFlags{rmode: 2, shadow: true}, "parse-huge-bp"},
	{refFlags{rmode: 2, shadow: true, anyField: true}, "parse-huge-bp"},
}

// parseOracles compares the implementation's answer with the reference parser.
// want (optional) is the generating tree: the reference must reproduce it modulo groups.
func parseOracles(tab *psTable, toks []*token.Token, tree ast.Expr, want *gnode) (string, string) {
	rt := make([]rtoken, len(toks))
	for i, t := range toks {
		rt[i] = rtoken{string(t.Kind), t.Lexeme}
	}
	ideal, why := refParse(tab.rt, refFlags{}, rt)
	if want != nil {
		if ideal == nil || ideal.shape(true) != want.shape(true) {
			got := "reject: " + why
			if ideal != nil {
				got = ideal.shape(true)
			}
			return fmt.Sprintf("reference parser gives %s for the rendering of %s", got, want.shape(true)), "parse-harness"
		}
	}
	goShape, idealShape := "reject", "reject"
	if tree != nil {
		goShape = goNode(tree).shape(false)
	}
	if ideal != nil {
		idealShape = ideal.shape(false)
	}
	if goShape == idealShape {
		if tree != nil {
			if m := spanCheck(tree, ideal, toks); m != "" {
				return m, "parse-span"
			}
			if m := nonassocCheck(tree); m != "" {
				return m, "parse-nonassoc"
			}
		}
		return "", ""
	}
	what := fmt.Sprintf("implementation: %s; declarations dictate: %s", goShape, idealShape)
	if ideal == nil {
		what += " (" + why + ")"
	}
	for _, v := range refVariants {
		if refShape(tab.rt, v.fl, rt) == goShape {
			if v.id == "parse-accepts-malformed" && tree == nil {
				continue
			}
			return what + fmt.Sprintf(" [explained by %+v]", v.fl), v.id
		}
	}
	switch {
	case tree != nil && ideal == nil:
		return what, "parse-accepts-malformed"
	case tree == nil:
		return what, "parse-rejects-wellformed"
	}
	return what, "parse-tree"
}

// ---- one parse case ------------------------------------------------------------------------

type psInput struct {
	tab      *psTable
	src      string
	gen      string
	want     *gnode         // generating tree (nil: none)
	toks     []*token.Token // synthetic token list (nil: lex src)
	lexparse bool           // send the source, the model lexes it itself
}

// psRun lexes and parses; the tree is nil when lexing or parsing failed.
func psRun(in psInput) (c Case, tree ast.Expr) {
	if guardBegin("parse[" + in.tab.name + "] " + strconv.Quote(in.src)) {
		return crashCase("parse[" + in.tab.name + "] " + strconv.Quote(in.src)), nil
	}
	defer guardEnd()
	c = Case{
		Human: "parse[" + in.tab.name + "] " + strconv.Quote(in.src),
		Tags:  []string{"gen:" + in.gen, "ops:" + in.tab.name},
	}
	toks, ok := in.toks, true
	if toks == nil {
		toks, ok = in.tab.lex(in.src)
	} else {
		c.Human = "parse[" + in.tab.name + "] tokens " + psShowToks(toks)
	}
	if !ok {
		c.Tags = append(c.Tags, "res:lex-error")
		c.Want = "(lex-error)"
		if in.lexparse {
			c.Req = sxList("lexparse", encOps(in.tab.ops), "()", sxStr(in.src))
			c.Want = "(err syntax)"
		}
		return c, nil
	}
	c.Nontriv = len(toks) >= 2
	c.Tags = append(c.Tags, "ntok:"+bucket(len(toks)))
	table := psTimeTable(toks)
	if in.lexparse {
		c.Req = sxList("lexparse", encOps(in.tab.ops), table, sxStr(in.src))
	} else {
		c.Req = sxList(append([]string{"parse", encOps(in.tab.ops), table}, psEncToks(toks)...)...)
	}
	tree, ok = in.tab.parse(toks)
	if ok {
		c.Want = sxList("ok", encExpr(tree))
		c.Tags = append(c.Tags, "res:ok", "depth:"+bucket(exprDepth(tree)))
	} else {
		tree = nil
		c.Want = "(err syntax)"
		c.Tags = append(c.Tags, "res:syntax-error")
	}
	if !in.tab.noOracle && in.toks == nil {
		c.Oracle, c.OracleID = parseOracles(in.tab, toks, tree, in.want)
		if c.OracleID != "" {
			c.Tags = append(c.Tags, "oracle:"+c.OracleID)
		}
	}
	return c, tree
}

func psShowToks(toks []*token.Token) string {
	xs := make([]string, len(toks))
	for i, t := range toks {
		xs[i] = fmt.Sprintf("%s%q@%d-%d:%d:%d", t.Kind, t.Lexeme, t.Pos.Idx, t.Pos.IdxEnd, t.Pos.Col, t.Pos.Line)
	}
	return strings.Join(xs, " ")
}

// psSynthetic: token lists no lexer produces (the model is a function of arbitrary lists):
// positions out of order or unknown, kinds that do not fit the lexeme, an EOF-kind token in
// the middle, time / number / string tokens with impossible lexemes.
func psSynthetic(r *rand.Rand, toks []*token.Token) []*token.Token {
	out := make([]*token.Token, len(toks))
	for i, t := range toks {
		cp := *t
		out[i] = &cp
	}
	if len(out) == 0 {
		return []*token.Token{{Kind: token.EOF, Lexeme: "x", Pos: pos.Pos{}}}
	}
	kinds := []token.Kind{token.EOF, token.QUESTION, token.DOT, token.LEFT_PAREN, token.SYM, token.NUM, token.STR, token.TIME, token.TRUE, token.COLON}
	lexemes := []string{"", "'", "x", "'2020-01-02'", "1", `"s"`, "1.2.3", "'a'", "`r`", "0x", "<END-OF-FILE>", "?"}
	for k := 1 + r.Intn(2); k > 0; k-- {
		i, j := r.Intn(len(out)), r.Intn(len(out))
		switch r.Intn(6) {
		case 0:
			out[i].Pos, out[j].Pos = out[j].Pos, out[i].Pos
		case 1:
			out[i].Pos = pos.Unknown
		case 2:
			out[i].Kind = kinds[r.Intn(len(kinds))]
			if out[i].Kind == token.TIME {
				out[i].Lexeme = lexemes[r.Intn(len(lexemes))]
			}
		case 3:
			out[i].Lexeme = lexemes[r.Intn(len(lexemes))]
		case 4:
			for a, b := 0, len(out)-1; a < b; a, b = a+1, b-1 {
				out[a].Pos, out[b].Pos = out[b].Pos, out[a].Pos
			}
		default:
			out[i].Pos.Idx, out[i].Pos.IdxEnd = out[i].Pos.IdxEnd+r.Intn(5), out[i].Pos.Idx
		}
	}
	return out
}

func exprDepth(e ast.Expr) int {
	d := 0
	for _, k := range goKids(e) {
		if x := exprDepth(k); x > d {
			d = x
		}
	}
	return d + 1
}

// ---- generators ------------------------------------------------------------------------------

// psLiterals gates number and string literals (the model needs the real Yae.Num for their
// values); CORR_NO_LITERALS=1 switches them off.
var psLiterals = os.Getenv("CORR_NO_LITERALS") == ""

type rtok struct {
	text  string
	kind  string
	paren int // >0: removable parenthesis pair id
}

type treeGen struct {
	r       *rand.Rand
	tab     *psTable
	prefix  []string
	postfix []string
	infix   []string
}

func newTreeGen(r *rand.Rand, tab *psTable) *treeGen {
	g := &treeGen{r: r, tab: tab}
	for k := range tab.rt.prefix {
		if !refBuiltinPrefix[k] && !refReserved[k] {
			g.prefix = append(g.prefix, k)
		}
	}
	for k, inf := range tab.rt.infix {
		if inf.fix == oper.POSTFIX {
			g.postfix = append(g.postfix, k)
		} else {
			g.infix = append(g.infix, k)
		}
	}
	sort.Strings(g.prefix)
	sort.Strings(g.postfix)
	sort.Strings(g.infix)
	return g
}

func (g *treeGen) pick(xs ...string) string { return xs[g.r.Intn(len(xs))] }

var psIdents = []string{"a", "b", "c", "x", "y", "z", "f", "g", "obj", "k1", "é", "名"}
var psTimes = []string{"'2020-01-02'", "'2020-01-02 03:04:05'", "'1970-01-01 00:00:00'", "'garbage'", "''", "'2038-01-19'"}
var psNums = []string{"1", "0", "42", "2.5", "1e3", "0x1F", "0b101", "0o17", "1.5e-3", "100"}
var psStrs = []string{`"s"`, `""`, `"a b"`, `"\n\"q\""`, "`raw`", "`a\"b`", `"é"`, `"é"`}

func (g *treeGen) leaf() *gnode {
	switch k := g.r.Intn(10); {
	case k < 5:
		return &gnode{kind: "ident", name: g.pick(psIdents...)}
	case k == 5:
		return &gnode{kind: "bool", name: g.pick("true", "false")}
	case k == 6:
		return &gnode{kind: "time", name: g.pick(psTimes...)}
	case k == 7 && psLiterals:
		return &gnode{kind: "str", name: g.pick(psStrs...)}
	case k >= 8 && psLiterals:
		return &gnode{kind: "num", name: g.pick(psNums...)}
	}
	return &gnode{kind: "ident", name: g.pick(psIdents...)}
}

func (g *treeGen) many(depth, max int) []*gnode {
	var out []*gnode
	for i := g.r.Intn(max + 1); i > 0; i-- {
		out = append(out, g.gen(depth))
	}
	return out
}

func (g *treeGen) gen(depth int) *gnode {
	if depth <= 1 || g.r.Intn(7) == 0 {
		return g.leaf()
	}
	d := depth - 1
	switch g.r.Intn(15) {
	case 0, 1, 2, 3:
		if len(g.infix) == 0 {
			break
		}
		k := g.pick(g.infix...)
		return &gnode{kind: "bin", name: k, fix: g.tab.rt.infix[k].fix, kids: []*gnode{g.gen(d), g.gen(d)}}
	case 4:
		if len(g.prefix) == 0 {
			break
		}
		return &gnode{kind: "pre", name: g.pick(g.prefix...), kids: []*gnode{g.gen(d)}}
	case 5:
		if len(g.postfix) == 0 {
			break
		}
		return &gnode{kind: "post", name: g.pick(g.postfix...), kids: []*gnode{g.gen(d)}}
	case 6:
		return &gnode{kind: "tern", name: "?", kids: []*gnode{g.gen(d), g.gen(d), g.gen(d)}}
	case 7:
		return &gnode{kind: "call", kids: append([]*gnode{g.gen(d)}, g.many(d, 3)...)}
	case 8: // method call
		m := &gnode{kind: "mem", name: g.pick(psIdents...), kids: []*gnode{g.gen(d)}}
		return &gnode{kind: "call", kids: append([]*gnode{m}, g.many(d, 2)...)}
	case 9:
		return &gnode{kind: "mem", name: g.pick(psIdents...), kids: []*gnode{g.gen(d)}}
	case 10:
		return &gnode{kind: "sub", kids: []*gnode{g.gen(d), g.gen(d)}}
	case 11:
		return &gnode{kind: "list", kids: g.many(d, 3)}
	case 12:
		n := &gnode{kind: "map"}
		for i := g.r.Intn(4); i > 0; i-- {
			n.kids = append(n.kids, g.gen(d), g.gen(d))
		}
		return n
	case 13:
		n := &gnode{kind: "obj"}
		for i := g.r.Intn(4); i > 0; i-- {
			n.names = append(n.names, g.pick(psIdents...))
			n.kids = append(n.kids, g.gen(d))
		}
		return n
	}
	return g.leaf()
}

func (g *treeGen) tree(depth int) *gnode { return g.gen(depth) }

// render: tokens of the tree.  A child in an operand position (not delimited by brackets or
// commas) that is not a leaf is wrapped in a REMOVABLE pair; with probability extra every
// child is wrapped in a permanent redundant pair (possibly twice).
type renderer struct {
	r      *rand.Rand
	extra  float64
	nextID int
	out    []rtok
}

func (rd *renderer) emit(text, kind string) { rd.out = append(rd.out, rtok{text: text, kind: kind}) }
func (rd *renderer) punct(text string)      { rd.emit(text, text) }

func (rd *renderer) child(n *gnode, operand bool) {
	redundant := 0
	if rd.extra > 0 && rd.r.Float64() < rd.extra {
		redundant = 1 + rd.r.Intn(2)
	}
	for i := 0; i < redundant; i++ {
		rd.punct("(")
	}
	leafy := len(n.kids) == 0 && n.kind != "list" && n.kind != "map" && n.kind != "obj"
	if operand && !leafy {
		rd.nextID++
		id := rd.nextID
		rd.out = append(rd.out, rtok{text: "(", kind: "(", paren: id})
		rd.node(n)
		rd.out = append(rd.out, rtok{text: ")", kind: ")", paren: id})
	} else {
		rd.node(n)
	}
	for i := 0; i < redundant; i++ {
		rd.punct(")")
	}
}

func (rd *renderer) node(n *gnode) {
	switch n.kind {
	case "ident":
		rd.emit(n.name, token.SYM)
	case "num":
		rd.emit(n.name, token.NUM)
	case "str":
		rd.emit(n.name, token.STR)
	case "time":
		rd.emit(n.name, token.TIME)
	case "bool":
		rd.emit(n.name, n.name)
	case "pre":
		rd.emit(n.name, n.name)
		rd.child(n.kids[0], true)
	case "post":
		rd.child(n.kids[0], true)
		rd.emit(n.name, n.name)
	case "bin":
		rd.child(n.kids[0], true)
		rd.emit(n.name, n.name)
		rd.child(n.kids[1], true)
	case "tern":
		rd.child(n.kids[0], true)
		rd.punct("?")
		rd.child(n.kids[1], false)
		rd.punct(":")
		rd.child(n.kids[2], true)
	case "call":
		rd.child(n.kids[0], true)
		rd.punct("(")
		for i, a := range n.kids[1:] {
			if i > 0 {
				rd.punct(",")
			}
			rd.child(a, false)
		}
		rd.punct(")")
	case "mem":
		rd.child(n.kids[0], true)
		rd.punct(".")
		rd.emit(n.name, token.SYM)
	case "sub":
		rd.child(n.kids[0], true)
		rd.punct("[")
		rd.child(n.kids[1], false)
		rd.punct("]")
	case "list":
		rd.punct("[")
		for i, a := range n.kids {
			if i > 0 {
				rd.punct(",")
			}
			rd.child(a, false)
		}
		if len(n.kids) > 0 && rd.r.Intn(6) == 0 {
			rd.punct(",")
		}
		rd.punct("]")
	case "map":
		rd.punct("[")
		if len(n.kids) == 0 {
			rd.punct(":")
		}
		for i := 0; i < len(n.kids); i += 2 {
			if i > 0 {
				rd.punct(",")
			}
			rd.child(n.kids[i], false)
			rd.punct(":")
			rd.child(n.kids[i+1], false)
		}
		if len(n.kids) > 0 && rd.r.Intn(6) == 0 {
			rd.punct(",")
		}
		rd.punct("]")
	case "obj":
		rd.punct("{")
		for i, a := range n.kids {
			if i > 0 {
				rd.punct(",")
			}
			rd.emit(n.names[i], token.SYM)
			rd.punct(":")
			rd.child(a, false)
		}
		if len(n.kids) > 0 && rd.r.Intn(6) == 0 {
			rd.punct(",")
		}
		rd.punct("}")
	}
}

func withoutParen(ts []rtok, id int) []rtok {
	out := make([]rtok, 0, len(ts))
	for _, t := range ts {
		if t.paren != id {
			out = append(out, t)
		}
	}
	return out
}

func toRtokens(ts []rtok) []rtoken {
	out := make([]rtoken, len(ts))
	for i, t := range ts {
		out[i] = rtoken{t.kind, t.text}
	}
	return out
}

// renderMinimal: the full rendering, then every removable pair whose removal leaves the
// reference parse (modulo groups) unchanged is removed (until nothing more can go).
func renderMinimal(r *rand.Rand, tab *psTable, n *gnode, extra float64) []rtok {
	rd := &renderer{r: r, extra: extra}
	rd.child(n, false)
	ts := rd.out
	target := n.shape(true)
	for changed := true; changed; {
		changed = false
		for id := 1; id <= rd.nextID; id++ {
			cand := withoutParen(ts, id)
			if len(cand) == len(ts) {
				continue
			}
			if e, _ := refParse(tab.rt, refFlags{}, toRtokens(cand)); e != nil && e.shape(true) == target {
				ts = cand
				changed = true
			}
		}
	}
	return ts
}

var psTight = map[string]bool{"(": true, ")": true, "[": true, "]": true, "{": true, "}": true, ",": true}

// join: white space between tokens; none (sometimes) next to brackets and commas, which
// never merge with their neighbours.
func psJoin(r *rand.Rand, texts []string) string {
	var b strings.Builder
	for i, t := range texts {
		if i > 0 {
			tight := psTight[t] || psTight[texts[i-1]]
			switch k := r.Intn(12); {
			case tight && k < 6:
			case k == 11:
				b.WriteString("\n")
			case k == 10:
				b.WriteString("  ")
			case k == 9:
				b.WriteString("\n\t ")
			default:
				b.WriteString(" ")
			}
		}
		b.WriteString(t)
	}
	return b.String()
}

func rtokTexts(ts []rtok) []string {
	out := make([]string, len(ts))
	for i, t := range ts {
		out[i] = t.text
	}
	return out
}

// genTreeInput renders a random tree; the generating tree is kept as the expectation only
// if the real lexer reproduces exactly the intended tokens.
func genTreeInput(r *rand.Rand, tab *psTable, redundant bool) (psInput, []string) {
	g := newTreeGen(r, tab)
	n := g.tree(2 + r.Intn(3))
	extra, gen := 0.0, "tree-minimal-parens"
	if redundant {
		extra, gen = 0.25, "tree-redundant-parens"
	}
	ts := renderMinimal(r, tab, n, extra)
	texts := rtokTexts(ts)
	src := psJoin(r, texts)
	in := psInput{tab: tab, src: src, gen: gen, want: n}
	toks, ok := tab.lex(src)
	same := ok && len(toks) == len(ts)
	for i := 0; same && i < len(ts); i++ {
		same = string(toks[i].Kind) == ts[i].kind && toks[i].Lexeme == ts[i].text
	}
	if !same {
		in.want = nil
		in.gen += "-relexed"
	}
	return in, texts
}

func (t *psTable) alphabet() []string {
	out := []string{"a", "b", "(", ")", "[", "]", "{", "}", ",", ":", ".", "?", "true", "'2020-01-02'"}
	if psLiterals {
		out = append(out, "1", `"s"`)
	}
	seen := map[string]bool{}
	for _, o := range t.ops {
		if !seen[string(o.Kind)] {
			seen[string(o.Kind)] = true
			out = append(out, string(o.Kind))
		}
	}
	return out
}

func psMutate(r *rand.Rand, tab *psTable, texts []string) []string {
	ts := append([]string{}, texts...)
	alpha := tab.alphabet()
	for k := 1 + r.Intn(2); k > 0; k-- {
		if len(ts) == 0 {
			ts = append(ts, alpha[r.Intn(len(alpha))])
			continue
		}
		i := r.Intn(len(ts))
		switch r.Intn(5) {
		case 0: // delete
			ts = append(ts[:i:i], ts[i+1:]...)
		case 1: // duplicate
			ts = append(ts[:i:i], append([]string{ts[i]}, ts[i:]...)...)
		case 2: // insert
			ts = append(ts[:i:i], append([]string{alpha[r.Intn(len(alpha))]}, ts[i:]...)...)
		case 3: // replace
			ts[i] = alpha[r.Intn(len(alpha))]
		default: // swap with the next
			if i+1 < len(ts) {
				ts[i], ts[i+1] = ts[i+1], ts[i]
			}
		}
	}
	return ts
}

// all sequences over alpha up to maxLen; the part longer than exhLen is sampled (budget each)
func psSequences(r *rand.Rand, tab *psTable, name string, alpha []string, exhLen, maxLen, budget int) []psInput {
	var out []psInput
	nth := func(length, idx int) string {
		ts := make([]string, length)
		for i := length - 1; i >= 0; i-- {
			ts[i] = alpha[idx%len(alpha)]
			idx /= len(alpha)
		}
		return strings.Join(ts, " ")
	}
	count := 1
	for l := 0; l <= maxLen; l++ {
		if l <= exhLen {
			for i := 0; i < count; i++ {
				out = append(out, psInput{tab: tab, src: nth(l, i), gen: fmt.Sprintf("seq-%s-len%d", name, l)})
			}
		} else {
			for i := 0; i < budget; i++ {
				out = append(out, psInput{tab: tab, src: nth(l, r.Intn(count)), gen: fmt.Sprintf("seq-%s-len%d-sampled", name, l)})
			}
		}
		count *= len(alpha)
	}
	return out
}

var psFixed = []string{
	"", "a", "a b", "a +", "+ a", "a + b", "a + b * c", "a * b + c", "a ^ b ^ c", "a - b - c", "- a ^ b", "- - a", "a - - b", "! a . b",
	"a == b == c", "a == b != c", "a < b == c < d", "(a == b) == c", "a == (b == c)", "a == b + c == d", "a == ! b == c",
	"a ? b : c", "a ? b : c ? d : e", "a ? b ? c : d : e", "a ? b : c + d", "a + b ? c : d", "a ? b , c : d", "a ? b", "a ? : c", "a ? b : ",
	"f()", "f(a)", "f(a, b)", "f(a,)", "f(,)", "f(a b)", "f(a)(b)", "f (a) (b) [c] . d", "f(", "f(a", "f)", "(a)", "((a))", "()", "(a", "a)", "(a, b)",
	"a.b", "a.b.c", "a.b(c)", "a.b(c).d(e)", "a.b()", "(a.b)(c)", "((a.b))(c)", "a . true", "a . ( b )", "a . ( ( b )", "a . )", "a .", "a . . b", "a . + b", "a . ?",
	"a . b ( c", "a . [ b ]", "a . , ", "- a . b ( c )", "a [ b ]", "a [ b ] [ c ]", "a [ ]", "a [ b , c ]", "a [ b : c ]", "a [ : ]",
	"[]", "[ ]", "[:]", "[ : ]", "[ : ", "[ : }", "[a]", "[a,]", "[a, b]", "[a, b,]", "[a,,]", "[,]", "[,a]", "[a b]", "[a:b]", "[a:b,]", "[a:b, c:d]", "[a:b, c]", "[a, b:c]",
	"[a:b c:d]", "[a:]", "[:a]", "[a:b:c]", "[a ? b : c]", "[a ? b : c : d]", "[a ? b : c : d ? e : f]", "[[a:b]:c]", "[[a]:c]", "[[a:b]]", "[a:[b:c]]", "[1:2, 3]", "[1, 2:3]",
	"[a", "[a,", "[a:b", "a]", "[a}", "[a)", "[(a])",
	"{}", "{ }", "{a:b}", "{a:b,}", "{a:b, c:d}", "{a:b,,}", "{,}", "{a}", "{a:}", "{:b}", "{a b}", "{true:a}", "{'2020-01-02':a}", "{a:b", "{a:b]", "{a:{b:c}}", "{a:[b:c]}", "{(a):b}",
	"{a:b}.a", "[a][b]", "[a:b][a]", "(a)(b)", "(a)[b]", "(a).b", "true . a", "true ( a )", "true ? false : true",
	"'2020-01-02'", "'2020-01-02' . a", "f('2020-01-02', 'garbage', '')", "['2020-01-02' : '2020-01-02 03:04:05']",
	"a\n+\nb", "a\n\t.b\n(c,\n d)", "  a  ", "名 + é", "f(名, é).名",
}

var psFixedLit = []string{
	"1", "1 + 2", "1 . a", "1 . 2", "a . 1", "1.5.a", "- 1", "1 - - 1", "-42 == 1", "0x1F + 0b11 * 0o7", "1.2.3", "1e5e6", "1.5e3", "1 ( 2 )", "1 [ 2 ]",
	`"s"`, `"s" + "t"`, `"s" . len ( )`, `"a\/b"`, "`raw` . a", `"é"`, `"a\"b"`, `["k" : 1, "l" : 2]`, `{a : "s", b : 2.5}`, `f("s", 1, true, 'garbage')`,
	"[1:2, 3]", "[1, 2:3]", "[1, 2, 3}", "[1:2:3]", `"Hello" + `, "1 ? 2 : 3", "a ? 1 : \"s\"",
}

func psNests(r *rand.Rand) []string {
	var out []string
	// maps nested in key position (exponential in the implementation: kept shallow)
	for d := 1; d <= 8; d++ {
		out = append(out, strings.Repeat("[", d)+"a : b"+strings.Repeat(" ] : c", d-1)+" ]")
		out = append(out, strings.Repeat("[", d)+"a"+strings.Repeat(" ] : c", d-1)+" ]")
		out = append(out, strings.Repeat("[", d)+"a : b"+strings.Repeat(" ] : c", d-1))
	}
	// values, lists, groups, calls, subscripts, objects: linear, deeper
	for _, d := range []int{1, 2, 3, 5, 8, 13, 21, 34} {
		out = append(out,
			strings.Repeat("[ a : ", d)+"b"+strings.Repeat(" ]", d),
			strings.Repeat("[", d)+strings.Repeat("]", d),
			strings.Repeat("[", d)+"a"+strings.Repeat(",]", d),
			strings.Repeat("(", d)+"a"+strings.Repeat(")", d),
			strings.Repeat("(", d)+"a"+strings.Repeat(")", d-1),
			strings.Repeat("f(", d)+strings.Repeat(")", d),
			"a"+strings.Repeat("[b", d)+strings.Repeat("]", d),
			"a"+strings.Repeat(".b(", d)+strings.Repeat(")", d),
			strings.Repeat("{x:", d)+"a"+strings.Repeat("}", d),
			strings.Repeat("a ? ", d)+"b"+strings.Repeat(" : c", d),
			strings.Repeat("a ? b : ", d)+"c",
			"a"+strings.Repeat(" . b", d)+strings.Repeat(" ( c )", d),
		)
	}
	// random bracket soups
	pieces := []string{"[", "]", "(", ")", "{", "}", ",", ":", "a", "b", ".", "?", "x :", "[:]", "[]", "a : b", "a ,", "f ("}
	for i := 0; i < 40; i++ {
		var ts []string
		for j := 2 + r.Intn(10); j > 0; j-- {
			ts = append(ts, pieces[r.Intn(len(pieces))])
		}
		out = append(out, strings.Join(ts, " "))
	}
	return out
}

// psPairs: every pair (thorough: triple) of the table's operators around plain operands, and
// each operator next to the built-in forms.
func psPairs(tab *psTable, thorough bool) []psInput {
	g := newTreeGen(nil, tab)
	var srcs []string
	add := func(ts ...string) { srcs = append(srcs, strings.Join(ts, " ")) }
	bins := append(append([]string{}, g.infix...), "?")
	mid := func(o string, x string) []string { // operator o followed by its operand(s) x
		if o == "?" {
			return []string{"?", "m", ":", x}
		}
		return []string{o, x}
	}
	cat := func(parts ...[]string) []string {
		var out []string
		for _, p := range parts {
			out = append(out, p...)
		}
		return out
	}
	for _, o1 := range bins {
		add(cat([]string{"a"}, mid(o1, "b"))...)
		for _, o2 := range bins {
			add(cat([]string{"a"}, mid(o1, "b"), mid(o2, "c"))...)
			add(cat([]string{"("}, []string{"a"}, mid(o1, "b"), []string{")"}, mid(o2, "c"))...)
			add(cat([]string{"a"}, []string{o1, "(", "b"}, mid(o2, "c"), []string{")"})...)
			if thorough {
				for _, o3 := range bins {
					add(cat([]string{"a"}, mid(o1, "b"), mid(o2, "c"), mid(o3, "d"))...)
				}
			}
			for _, p := range g.prefix {
				add(cat([]string{"a"}, mid(o1, p), []string{"b"}, mid(o2, "c"))...)
			}
			for _, q := range g.postfix {
				add(cat([]string{"a"}, mid(o1, "b"), []string{q}, mid(o2, "c"))...)
			}
		}
		for _, p := range g.prefix {
			add(cat([]string{p, "a"}, mid(o1, "b"))...)
			add(cat([]string{"a"}, mid(o1, p), []string{"b"})...)
		}
		for _, q := range g.postfix {
			add(cat([]string{"a"}, mid(o1, "b"), []string{q})...)
			add(cat([]string{"a", q}, mid(o1, "b"))...)
		}
		add(cat([]string{"a"}, mid(o1, "b"), []string{".", "f"})...)
		add(cat([]string{"a"}, mid(o1, "b"), []string{".", "f", "(", "c", ")"})...)
		add(cat([]string{"a"}, mid(o1, "b"), []string{"(", "c", ")"})...)
		add(cat([]string{"a"}, mid(o1, "b"), []string{"[", "c", "]"})...)
		add(cat([]string{"a", ".", "f"}, mid(o1, "b"))...)
		add(cat([]string{"[", "a"}, mid(o1, "b"), []string{":", "c"}, mid(o1, "d"), []string{"]"})...)
	}
	for _, p := range g.prefix {
		add(p, "a")
		add(p, "a", ".", "f")
		add(p, "a", ".", "f", "(", "b", ")")
		add(p, "a", "(", "b", ")")
		add(p, "a", "[", "b", "]")
		add(p, "(", "a", ")")
		add(p, "[", "a", "]")
		for _, p2 := range g.prefix {
			add(p, p2, "a")
		}
		for _, q := range g.postfix {
			add(p, "a", q)
			add(p, "(", "a", q, ")")
			add("(", p, "a", ")", q)
		}
	}
	for _, q := range g.postfix {
		add("a", q)
		add("a", q, ".", "f")
		add("a", ".", "f", q)
		add("a", q, "(", "b", ")")
		add("a", "(", "b", ")", q)
		add("a", q, "[", "b", "]")
		for _, q2 := range g.postfix {
			add("a", q, q2)
		}
	}
	out := make([]psInput, len(srcs))
	for i, s := range srcs {
		out[i] = psInput{tab: tab, src: s, gen: "operator-pairs"}
	}
	return out
}

// psInputs: everything the parse stream feeds to the parser (the desugar stream reuses it).
func psInputs(r *rand.Rand, n int, thorough bool) []psInput {
	tabs := psFixedTables()
	for i := 0; i < 4; i++ {
		tabs = append(tabs, psRandomTable(r, i))
	}
	byName := map[string]*psTable{}
	for _, t := range tabs {
		byName[t.name] = t
	}
	var ins []psInput
	fixed := append([]string{}, psFixed...)
	if psLiterals {
		fixed = append(fixed, psFixedLit...)
	}
	for _, s := range fixed {
		for i, t := range tabs {
			ins = append(ins, psInput{tab: t, src: s, gen: "fixed"})
			if i < 4 {
				ins = append(ins, psInput{tab: t, src: s, gen: "fixed-lexparse", lexparse: true})
			}
		}
	}
	for _, s := range psNests(r) {
		for _, name := range []string{"builtin", "fixities", "fractional"} {
			ins = append(ins, psInput{tab: byName[name], src: s, gen: "nests"})
		}
	}
	for _, d := range []int{100, 300} {
		for _, s := range []string{
			strings.Repeat("(", d) + "a" + strings.Repeat(")", d),
			strings.Repeat("[ a : ", d) + "b" + strings.Repeat(" ]", d),
			strings.Repeat("[", d) + "a" + strings.Repeat(",]", d),
			strings.Repeat("a ? ", d) + "b" + strings.Repeat(" : c", d),
			"a" + strings.Repeat(".b(", d) + strings.Repeat(")", d),
			strings.Repeat("- ", d) + "a" + strings.Repeat(" + b", d),
			"a" + strings.Repeat(" ^ b", d),
			strings.Repeat("{x:[f(", d) + "a" + strings.Repeat(")]}", d),
		} {
			ins = append(ins, psInput{tab: byName["builtin"], src: s, gen: "nests-deep"})
		}
	}
	for _, t := range tabs {
		ins = append(ins, psPairs(t, thorough)...)
	}
	// every infix / postfix operator of every table inside the branches of ?: (the middle
	// operand is delimited by ? and :, so no operator there needs parentheses, however weak)
	for _, t := range tabs {
		for _, o := range t.ops {
			k := string(o.Kind)
			switch o.Fixity {
			case oper.INFIX_L, oper.INFIX_R, oper.INFIX_N:
				for _, s := range []string{
					"a ? b " + k + " c : d", "a ? ( b " + k + " c ) : d", "a ? b : c " + k + " d", "a " + k + " b ? c : d",
					"a ? b ? c " + k + " d : e : f", "a ? b " + k + " c " + k + " d : e", "f ( a " + k + " b , c ) [ d " + k + " e ]",
				} {
					ins = append(ins, psInput{tab: t, src: s, gen: "ternary-branches"})
				}
			case oper.POSTFIX:
				ins = append(ins, psInput{tab: t, src: "a ? b " + k + " : c " + k, gen: "ternary-branches"})
			case oper.PREFIX:
				ins = append(ins, psInput{tab: t, src: "a ? " + k + " b : " + k + " c", gen: "ternary-branches"})
			}
		}
	}
	// twin tables: the same symbols, fixities and order with fractional powers that differ only
	// after the decimal point (and flip the relative precedence), used one after the other in
	// one process: a parser must depend on its own table only
	twinA := (&psTable{name: "twin-a", ops: []oper.Operator{op("@", 8.25, oper.INFIX_L), op("#", 8.75, oper.INFIX_L), op("+", 7, oper.INFIX_L), op("~", 7.5, oper.INFIX_R)}}).init()
	twinB := (&psTable{name: "twin-b", ops: []oper.Operator{op("@", 8.75, oper.INFIX_L), op("#", 8.25, oper.INFIX_L), op("+", 7.9, oper.INFIX_L), op("~", 7.25, oper.INFIX_R)}}).init()
	for round := 0; round < 2; round++ {
		for _, t := range []*psTable{twinA, twinB} {
			for _, s := range []string{"a @ b # c", "a # b @ c", "( a @ b ) # c", "a @ ( b # c )", "a + b ~ c", "a ~ b + c", "a ~ b ~ c @ d"} {
				ins = append(ins, psInput{tab: t, src: s, gen: "twin-tables"})
			}
		}
	}
	// (b) token sequences
	lit := "true"
	if psLiterals {
		lit = "1"
	}
	exh, max := 4, 4
	if thorough {
		max = 6
	}
	ins = append(ins, psSequences(r, byName["builtin"], "builtin", []string{"a", lit, "-", "==", "^", "(", ")", "[", "]", ",", ":", "."}, exh, max, n/2)...)
	ins = append(ins, psSequences(r, byName["fixities"], "fixities", []string{"a", "~", "++", "**", "<>", "(", ")", ".", "?", ":", ",", "{", "}"}, 3, max+0, n/4)...)
	ins = append(ins, psSequences(r, byName["fractional"], "fractional", []string{"a", "^", "#", "@", "$", "~", "!", "%", "?", ":", "(", ")"}, 3, max, n/4)...)
	ins = append(ins, psSequences(r, byName["huge"], "huge", []string{"a", "+", "**", "^", "^^", "*", "<>", "@", "-", "!", "(", ")"}, 3, max, n/4)...)
	// (a) rendered trees, (c) their mutations
	for i := 0; i < n; i++ {
		tab := tabs[r.Intn(len(tabs))]
		if tab.noOracle {
			tab = tabs[r.Intn(len(tabs))]
		}
		in, texts := genTreeInput(r, tab, i%2 == 1)
		if tab.noOracle {
			in.want = nil
		}
		ins = append(ins, in)
		if i%2 == 0 {
			ins = append(ins, psInput{tab: tab, src: psJoin(r, psMutate(r, tab, texts)), gen: "mutation"})
		}
		if i%4 == 1 {
			if toks, ok := tab.lex(in.src); ok {
				ins = append(ins, psInput{tab: tab, src: in.src, gen: "synthetic-tokens", toks: psSynthetic(r, toks)})
			}
		}
	}
	return ins
}

const psRule = "parser.NewParser(ops).Parse(toks) vs the Lean model on the token list produced by the real lexer, full tree with positions. " +
	"21 operator tables (built-in; 16 hand-made: all five fixities, identifier-like and non-ASCII kinds, fractional powers, powers >= 2^24 and 1e10, " +
	"collisions with ? . ( [, user prefix operators named ( [ { true <sym>, operators named : , ) ], duplicate declarations, prefix-overlapping kinds, one power for all fixities, " +
	"weak prefix operators, powers above member, degenerate powers 0/negative/Inf/NaN; 4 random per seed). Inputs: a fixed corpus x all tables (also as lexparse requests for 4 tables); " +
	"bracket nests (maps nested in key position to depth 8, linear nests to depth 34 and 100/300, bracket soups); every pair (thorough: triple) of each table's operators around plain " +
	"operands and next to the built-in forms; ALL token sequences up to length 4 over 12 token kinds " +
	"(built-in table) and up to length 3 over 12-13 kinds for three user tables, longer ones sampled (thorough: up to length 6); n random expression trees " +
	"(depth <= 4, every node kind) rendered with minimal parentheses (odd: plus redundant ones) and random white space; n/2 token-level mutations of them " +
	"(delete, duplicate, insert, replace, swap); n/4 synthetic token lists (positions out of order/unknown, kinds not fitting the lexeme, EOF-kind tokens inside). Oracles: an independent precedence-climbing reference parser driven by the declarations " +
	"(tree, accept/reject, spans, non-associativity). Non-trivial = at least 2 tokens; distinct = distinct request line."

// psCapReports keeps the first psReportCap oracle failures of every class as failures (the
// framework lists at most 200 per run); the others keep their `oracle:<class>` tag, so the
// distribution still counts all of them.
const psReportCap = 40

func psCapReports(cs []Case) []Case {
	seen := map[string]int{}
	for i := range cs {
		if id := cs[i].OracleID; id != "" {
			seen[id]++
			if seen[id] > psReportCap {
				cs[i].Oracle, cs[i].OracleID = "", ""
				cs[i].Tags = append(cs[i].Tags, "oracle-report-capped")
			}
		}
	}
	return cs
}

func init() {
	register(&Stream{
		Name: "parse",
		Rule: psRule,
		Gen: func(r *rand.Rand, n int, thorough bool) []Case {
			ins := psInputs(r, n, thorough)
			cs := make([]Case, 0, len(ins))
			for _, in := range ins {
				c, _ := psRun(in)
				cs = append(cs, c)
			}
			return psCapReports(cs)
		},
	})
	register(&Stream{
		Name: "desugar",
		Rule: "trans.Desugar(tree) vs the Lean model, full tree with positions and attachments. Inputs: every tree the parse stream's inputs make the parser accept " +
			"(same generators, same seed), plus hand-built trees: parenthesised member callees, nested method calls, ternaries in every position, nodes carrying checker " +
			"attachments, a ternary not named ?. Oracles: only core nodes in the result, idempotence, the input is not mutated, shape = independent reference " +
			"(receiver first, operands left to right). Non-trivial = the input contains a sugar node; distinct = distinct request line.",
		Gen: func(r *rand.Rand, n int, thorough bool) []Case {
			var cs []Case
			for _, hb := range dsHandBuilt() {
				cs = append(cs, dsCase(hb.name, hb.e, "hand-built"))
			}
			builtin := (&psTable{name: "builtin", ops: append([]oper.Operator{}, oper.BuiltIn()...)}).init()
			for _, s := range dsFixed {
				toks, ok := builtin.lex(s)
				if !ok {
					continue
				}
				if e, ok := builtin.parse(toks); ok {
					cs = append(cs, dsCase(strconv.Quote(s), e, "fixed"))
				}
			}
			for _, in := range psInputs(r, n, thorough) {
				_, tree := psRun(in)
				if tree != nil {
					cs = append(cs, dsCase("["+in.tab.name+"] "+strconv.Quote(in.src), tree, in.gen))
				}
			}
			return psCapReports(cs)
		},
	})
}

// ---- desugar ---------------------------------------------------------------------------------

var dsFixed = []string{
	"(o.f)(x)", "((o.f))(x)", "(o.f)()", "o.f(x)", "o.f(x).g(y)", "o.f(x.g(y)).h(z)", "a.b.c(d, e)", "(a.b).c(d)", "(a.b.c)(d)", "f(x)(y)", "o.f(x)(y)", "(o.f(x))(y)",
	"(o.f)(x)(y)", "((o.f)(x).g)(y)", "o[i].f(x)", "o.f[i](x)", "(o.f)[i]", "-o.f(x)", "(-o).f(x)", "o.f(-x, !y)",
	"a ? b : c", "(a ? b : c) ? d : e", "a ? (b ? c : d) : e", "a ? b : c ? d : e", "f(a ? b : c)", "(a ? f : g)(x)", "(a ? o : p).f(x)", "[a ? b : c, d ? e : f]",
	"[a ? b : c : d ? e : f]", "{k: a ? b : c}", "x[a ? b : c]", "(a ? b : c)[i]", "(a ? b : c).m", "-(a ? b : c)", "(a ? b : c) + (d ? e : f)", "a + b ? c * d : e / f",
	"a + b * c", "(a + b) * c", "((a))", "- - a", "! (a && b) || c", "a == b", "[ ]", "[:]", "{ }", "[(a)]", "[(a) : (b)]", "{k : (a)}", "f((a), ((b)))",
	"o.true", "o.if(a)", "if(a, b, c)", "'2020-01-02' . year ( )", "true . not ( )",
}

type dsTree struct {
	name string
	e    ast.Expr
}

func dsHandBuilt() []dsTree {
	p := func(i, j int) posT { return posT{i, j, i, 0} }
	id := func(n string, i int) *ast.IdentExpr { return ast.Var(n, p(i, i+len(n)).pos()) }
	var out []dsTree
	add := func(name string, e ast.Expr) { out = append(out, dsTree{name, e}) }
	// nodes carrying checker attachments: Desugar rebuilds them without
	call := ast.Call(id("f", 0), []ast.Expr{id("x", 2)}, 1, p(0, 4).pos())
	call.Index, call.Resolved, call.CalleeType = 3, "f$num", types.Num
	add("attachments:call", call)
	lst := ast.List([]ast.Expr{id("x", 1)}, p(0, 3).pos())
	lst.Type = types.Num
	add("attachments:list", lst)
	mp := ast.Map([]ast.Pair{{Key: id("k", 1), Val: id("v", 3)}}, p(0, 5).pos())
	mp.Type = types.Str
	add("attachments:map", mp)
	ob := ast.Obj([]ast.Field{{Name: "k", Val: id("v", 3)}}, p(0, 5).pos())
	ob.Type = types.Bool
	add("attachments:obj", ob)
	sub := ast.Subscript(id("a", 0), id("i", 2), 1, p(0, 4).pos())
	sub.VarType = types.Time
	add("attachments:subscript", sub)
	mem := ast.Member(id("o", 0), id("f", 2), 1, p(0, 3).pos())
	mem.Index, mem.ObjType = 2, types.Num
	add("attachments:member", mem)
	mcall := ast.Call(mem, []ast.Expr{lst, sub}, 3, p(0, 9).pos())
	mcall.Index, mcall.Resolved = 1, "r"
	add("attachments:method-call", mcall)
	add("attachments:group-member-call", ast.Call(ast.Group(mem, p(0, 5).pos()), []ast.Expr{call}, 5, p(0, 9).pos()))
	// positions the parser never produces
	add("unknown-positions", ast.Binary(ast.Var("+", posT{-1, -1, -1, -1}.pos()), oper.INFIX_L, ast.Var("a", posT{-1, -1, -1, -1}.pos()),
		ast.Unary(id("!", 7), id("b", 9), false, p(9, 8).pos()), posT{-1, -1, -1, -1}.pos()))
	// sugar with odd names / fixities
	add("binary-NA-fixity", ast.Binary(id("if", 2), oper.NA, id("a", 0), id("b", 5), p(0, 6).pos()))
	add("ternary-named-?", ast.Tenary(id("?", 2), id("a", 0), id("b", 4), id("c", 8), p(0, 9).pos()))
	add("ternary-not-named-?", ast.Tenary(id("??", 2), id("a", 0), id("b", 5), id("c", 9), p(0, 10).pos()))
	add("ternary-not-named-?-deep", ast.List([]ast.Expr{ast.Group(ast.Call(ast.Member(ast.Tenary(id("x", 2), id("a", 0), id("b", 4), id("c", 8), p(0, 9).pos()),
		id("f", 11), 10, p(0, 12).pos()), nil, 12, p(0, 14).pos()), p(0, 15).pos())}, p(0, 16).pos()))
	return out
}

type posT struct{ a, b, c, d int }

func (p posT) pos() pos.Pos { return pos.Pos{Idx: p.a, IdxEnd: p.b, Col: p.c, Line: p.d} }

func runDesugar(e ast.Expr) (d ast.Expr, ok bool) {
	defer func() {
		if r := recover(); r != nil {
			d, ok = nil, false
		}
	}()
	return trans.Desugar(e), true
}

// refDesugar: the shape the rewriting rules dictate, computed on the neutral tree.
func refDesugar(n *gnode) *gnode {
	ds := func(xs []*gnode) []*gnode {
		out := make([]*gnode, len(xs))
		for i, x := range xs {
			out[i] = refDesugar(x)
		}
		return out
	}
	fn := func(name string) *gnode { return &gnode{kind: "ident", name: name} }
	switch n.kind {
	case "grp":
		return refDesugar(n.kids[0])
	case "pre", "post", "bin":
		return &gnode{kind: "call", kids: append([]*gnode{fn(n.name)}, ds(n.kids)...)}
	case "tern":
		return &gnode{kind: "call", kids: append([]*gnode{fn("if")}, ds(n.kids)...)}
	case "call":
		if c := n.kids[0]; c.kind == "mem" {
			return &gnode{kind: "call", kids: append([]*gnode{fn(c.name), refDesugar(c.kids[0])}, ds(n.kids[1:])...)}
		}
	}
	return &gnode{kind: n.kind, name: n.name, fix: n.fix, names: n.names, kids: ds(n.kids)}
}

func hasSugar(n *gnode) bool {
	switch n.kind {
	case "grp", "pre", "post", "bin", "tern":
		return true
	}
	for _, k := range n.kids {
		if hasSugar(k) {
			return true
		}
	}
	return false
}

func hasMethodCall(n *gnode) bool {
	if n.kind == "call" && n.kids[0].kind == "mem" {
		return true
	}
	for _, k := range n.kids {
		if hasMethodCall(k) {
			return true
		}
	}
	return false
}

// a call whose callee is a member wrapped in one or more groups
func hasGroupMemberCallee(n *gnode) bool {
	if n.kind == "call" && n.kids[0].kind == "grp" {
		c := n.kids[0]
		for c.kind == "grp" {
			c = c.kids[0]
		}
		if c.kind == "mem" {
			return true
		}
	}
	for _, k := range n.kids {
		if hasGroupMemberCallee(k) {
			return true
		}
	}
	return false
}

func sortedWords(s string) string {
	ws := strings.Fields(strings.NewReplacer("[", " ", "]", " ").Replace(s))
	sort.Strings(ws)
	return strings.Join(ws, " ")
}

func dsCase(human string, e ast.Expr, gen string) Case {
	if guardBegin("desugar " + human) {
		return crashCase("desugar " + human)
	}
	defer guardEnd()
	before := encExpr(e)
	in := goNode(e)
	c := Case{
		Human:   "desugar " + human,
		Req:     sxList("desugar", before),
		Tags:    []string{"gen:" + gen},
		Nontriv: hasSugar(in),
	}
	if hasMethodCall(in) {
		c.Tags = append(c.Tags, "has:method-call")
	}
	if hasGroupMemberCallee(in) {
		c.Tags = append(c.Tags, "has:group-member-callee")
	}
	d, ok := runDesugar(e)
	if !ok {
		c.Want = "(err unreachable)"
		c.Tags = append(c.Tags, "res:panic")
		return c
	}
	c.Want = sxList("ok", encExpr(d))
	c.Tags = append(c.Tags, "res:ok")
	fail := func(id, what string) Case {
		c.Oracle, c.OracleID = what, id
		c.Tags = append(c.Tags, "oracle:"+id)
		return c
	}
	if after := encExpr(e); after != before {
		return fail("desugar-mutates-input", "the input tree changed")
	}
	out := goNode(d)
	if hasSugar(out) {
		return fail("desugar-core", "sugar node left in "+out.shape(false))
	}
	if want, got := refDesugar(in).shape(false), out.shape(false); want != got {
		if sortedWords(want) == sortedWords(got) {
			return fail("desugar-order", "got "+got+", rules give "+want)
		}
		return fail("desugar-shape", "got "+got+", rules give "+want)
	}
	d2, ok := runDesugar(d)
	if !ok || encExpr(d2) != encExpr(d) {
		id := "desugar-idempotent"
		if hasGroupMemberCallee(in) {
			id = "desugar-idempotent-group-member"
		}
		what := "Desugar(Desugar(t)) panics"
		if ok {
			what = "Desugar(t) = " + d.String() + " but Desugar(Desugar(t)) = " + d2.String()
		}
		return fail(id, what)
	}
	return c
}
