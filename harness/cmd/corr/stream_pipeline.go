package main

// The whole facade from the source text: yae.NewExpr().RegisterFun(hosts…).Compile(src, env0)
// and one invocation of the Callable, against the model's composed pipeline (Model/Facade.lean:
// lex, parse, desugar, check, environment check, evaluate).  The stage streams tie each stage on
// its own; this one ties the glue between them (what is handed from stage to stage, the order of
// registration of host functions and built-ins in the facade, error propagation).

import (
	"fmt"
	"strings"

	"github.com/goghcrow/yae"
	"github.com/goghcrow/yae/parser/ast"
	"github.com/goghcrow/yae/parser/lexer"
	"github.com/goghcrow/yae/parser/oper"
	"github.com/goghcrow/yae/parser/token"
	"github.com/goghcrow/yae/timelib"
	"github.com/goghcrow/yae/types"
	"github.com/goghcrow/yae/val"
)

// timeTableFor: timelib.Strtotime on the time literals of the source (the parser's external)
func timeTableFor(src string) (tbl string, ok bool) {
	defer func() {
		if r := recover(); r != nil {
			tbl, ok = sxList(), false
		}
	}()
	ops := append([]oper.Operator{}, oper.BuiltIn()...)
	xs := []string{}
	seen := map[string]bool{}
	for _, t := range lexer.NewLexer(ops).Lex(src) {
		if t.Kind == token.TIME && len(t.Lexeme) >= 2 && !seen[t.Lexeme] {
			seen[t.Lexeme] = true
			inner := t.Lexeme[1 : len(t.Lexeme)-1]
			xs = append(xs, sxList(sxStr(inner), fmt.Sprintf("%d", timelib.Strtotime(inner))))
		}
	}
	return sxList(xs...), true
}

// pipelineCase: `d` is the desugared tree of src when the harness could parse it (nil otherwise);
// it is used only to tabulate the externals (regexp, strtotime) of the program.
func pipelineCase(eng *engine, vars []envVar, vals map[string]*val.Val, src, human, tag string, d ast.Expr) Case {
	c := Case{Human: "pipeline " + human, Tags: []string{tag, "gen:pipeline"}, Nontriv: true}
	times, _ := timeTableFor(src)
	ext := sxList(sxList(), sxList())
	if d != nil {
		ext = externsFor(d)
	}
	// the facade registers host functions first; the built-ins are added at the first compilation
	fx := []string{}
	for _, h := range eng.hosts {
		fx = append(fx, h.sx())
	}
	fx = append(fx, "builtins")
	c.Req = sxList("pipeline", encOps(oper.BuiltIn()), times, sxList(fx...), encTVars(vars), encVars(vars, vals), ext, sxStr(src))

	e := yae.NewExpr().UseClosureCompiler()
	for _, h := range eng.hosts {
		e.RegisterFun(h.build())
	}
	env0 := types.NewEnv()
	for _, v := range vars {
		env0.Put(v.Name, v.Ty.build())
	}
	env1 := val.NewEnv()
	for k, v := range vals {
		env1.Put(k, v)
	}
	var callable yae.Callable
	var cerr error
	func() {
		defer func() {
			if r := recover(); r != nil {
				cerr = fmt.Errorf("PANIC %v", r)
			}
		}()
		callable, cerr = e.Compile(src, env0)
	}()
	if cerr != nil {
		msg := cerr.Error()
		switch {
		case strings.HasPrefix(msg, "PANIC "):
			c.Want = "(err panic)"
			c.Oracle, c.OracleID = "Compile panics: "+msg, "api-panic"
		case strings.Contains(msg, "syntax error") || strings.Contains(msg, "invalid num literal") || strings.Contains(msg, "nothing token matched") || strings.Contains(msg, "expect right pos"):
			c.Want = "(err syntax)"
		default:
			c.Want = sxList("err", classifyCheckErr(msg))
		}
		c.Tags = append(c.Tags, "pipeline:compile-error")
		return c
	}
	trace = nil
	var res *val.Val
	var rerr error
	out := captureStdout(func() {
		defer func() {
			if r := recover(); r != nil {
				rerr = fmt.Errorf("PANIC %v", r)
			}
		}()
		res, rerr = callable(env1)
	})
	var events []string
	if out != "" {
		for _, ln := range strings.Split(strings.TrimSuffix(out, "\n"), "\n") {
			if strings.HasPrefix(ln, callMarker) {
				events = append(events, strings.TrimPrefix(ln, callMarker))
			} else {
				events = append(events, sxList("print", sxStr(ln)))
			}
		}
	}
	switch {
	case rerr != nil && strings.HasPrefix(rerr.Error(), "PANIC "):
		c.Want = "(err panic)"
		c.Oracle, c.OracleID = "the Callable panics: "+rerr.Error(), "api-panic"
	case rerr != nil:
		c.Want = sxList("fail", classifyPanic(rerr.Error()), sxList(events...))
		c.Tags = append(c.Tags, "pipeline:fail")
	default:
		v := safely(func() string { return encVal(res) })
		c.Want = sxList("ok", v, sxList(events...))
		c.Tags = append(c.Tags, "pipeline:ok")
	}
	return c
}
