package main

import (
	"fmt"
	"math"
	"math/rand"
	"os"
	"regexp"
	"strconv"
	"strings"
	"time"
	"unicode/utf8"

	"github.com/goghcrow/yae/ext"
	"github.com/goghcrow/yae/parser/ast"
	"github.com/goghcrow/yae/parser/pos"
	"github.com/goghcrow/yae/types"
	"github.com/goghcrow/yae/val"
)

// Stream `sql` (property C20): ext.CompileToSql against lean/Yae/Model/Sql.lean, an independent
// reference reader of the produced dialect (the Go twin of lean/Yae/Model/SqlRead.lean), and the
// implementation-side oracles sql-structure / sql-unreadable / sql-quote / sql-scalar /
// sql-scalar-time-fraction / sql-panic (and sql-ident-escape / sql-structure-operand, see sqlOracles).

// simpleNum restricts strings to plain ASCII letters/digits and numbers to small integers while
// lean/Yae/Model/Num.lean is still the placeholder (CORR_SIMPLE_NUM=1).
var simpleNum = os.Getenv("CORR_SIMPLE_NUM") != ""

// ---------------------------------------------------------------------------------------
// criteria trees of the harness

type crit struct {
	isCond   bool
	field    string
	op       string
	operands []ast.Expr
	lop      ext.LogicalOper
	kids     []*crit
}

func (c *crit) build() ext.Criteria {
	if c.isCond {
		return ext.Cond{Field: c.field, Operator: c.op, Operands: c.operands}
	}
	ks := make([]ext.Criteria, len(c.kids))
	for i, k := range c.kids {
		ks[i] = k.build()
	}
	return ext.CondGroup{LogicalOper: c.lop, Conds: ks}
}

func (c *crit) sx() string {
	if c.isCond {
		xs := []string{}
		for _, o := range c.operands {
			xs = append(xs, encExpr(o))
		}
		return sxList("cond", sxStr(c.field), sxStr(c.op), sxList(xs...))
	}
	xs := []string{}
	for _, k := range c.kids {
		xs = append(xs, k.sx())
	}
	return sxList("group", c.lop.String(), sxList(xs...))
}

func (c *crit) human() string {
	if c.isCond {
		xs := []string{}
		for _, o := range c.operands {
			xs = append(xs, humanExpr(o))
		}
		return fmt.Sprintf("%s{%q %s}", c.op, c.field, strings.Join(xs, " "))
	}
	xs := []string{}
	for _, k := range c.kids {
		xs = append(xs, k.human())
	}
	return c.lop.String() + "[" + strings.Join(xs, ", ") + "]"
}

func humanExpr(e ast.Expr) string {
	switch x := e.(type) {
	case *ast.StrExpr:
		return strconv.Quote(x.Val)
	case *ast.NumExpr:
		return strconv.FormatFloat(x.Val, 'g', -1, 64)
	case *ast.TimeExpr:
		return fmt.Sprintf("@%d", x.Val)
	case *ast.BoolExpr:
		return strconv.FormatBool(x.Val)
	case *ast.IdentExpr:
		return x.Name
	case *ast.MemberExpr:
		return humanExpr(x.Obj) + "." + x.Field.Name
	case *ast.ListExpr:
		xs := []string{}
		for _, el := range x.Elems {
			xs = append(xs, humanExpr(el))
		}
		return "[" + strings.Join(xs, ", ") + "]"
	case *ast.CallExpr:
		xs := []string{}
		for _, a := range x.Args {
			xs = append(xs, humanExpr(a))
		}
		return humanExpr(x.Callee) + "(" + strings.Join(xs, ", ") + ")"
	case *ast.MapExpr:
		return "[:]"
	case *ast.ObjExpr:
		return "{..}"
	case *ast.SubscriptExpr:
		return humanExpr(x.Var) + "[" + humanExpr(x.Idx) + "]"
	}
	return "?"
}

func (c *crit) hasNestedCallOperand() bool {
	if c.isCond {
		for _, o := range c.operands {
			if exprHasCall(o) {
				return true
			}
		}
		return false
	}
	for _, k := range c.kids {
		if k.hasNestedCallOperand() {
			return true
		}
	}
	return false
}

func exprHasCall(e ast.Expr) bool {
	switch x := e.(type) {
	case *ast.CallExpr:
		return true
	case *ast.ListExpr:
		for _, el := range x.Elems {
			if exprHasCall(el) {
				return true
			}
		}
	}
	return false
}

// ---------------------------------------------------------------------------------------
// AST construction (positions unknown, as a program building criteria by hand would do)

func aStr(s string) ast.Expr  { return &ast.StrExpr{Pos: pos.Unknown, Text: strconv.Quote(s), Val: s} }
func aNum(f float64) ast.Expr { return &ast.NumExpr{Pos: pos.Unknown, Text: "", Val: f} }
func aTime(t int64) ast.Expr  { return &ast.TimeExpr{Pos: pos.Unknown, Text: "", Val: t} }
func aBool(b bool) ast.Expr {
	return &ast.BoolExpr{Pos: pos.Unknown, Text: strconv.FormatBool(b), Val: b}
}
func aVar(n string) ast.Expr { return ast.Var(n, pos.Unknown) }
func aList(xs ...ast.Expr) ast.Expr {
	return ast.List(xs, pos.Unknown)
}
func aMember(o ast.Expr, f string) ast.Expr {
	return ast.Member(o, ast.Var(f, pos.Unknown), pos.UnknownCol, pos.Unknown)
}
func aCall(callee ast.Expr, args ...ast.Expr) ast.Expr {
	return ast.Call(callee, args, pos.UnknownCol, pos.Unknown)
}

// ---------------------------------------------------------------------------------------
// environments

var sqlObjO = tObj(TF{"a", tNum}, TF{"b", tStr}, TF{"c", tTime}, TF{"d", tBool}, TF{"l", tList(tNum)})
var sqlObjP = tObj(TF{"x", tNum}, TF{"y", tStr})

var sqlCols = []envVar{
	{"n", tNum}, {"age", tNum}, {"price", tNum},
	{"name", tStr}, {"s", tStr}, {"名字", tStr},
	{"created", tTime}, {"t", tTime},
	{"active", tBool}, {"b", tBool},
	{"tags", tList(tStr)}, {"ns", tList(tNum)},
	{"o", sqlObjO}, {"p", sqlObjP}, {"mb", tMaybe(tNum)},
	{"cur_n", tNum}, {"cur_s", tStr}, {"cur_t", tTime}, {"cur_b", tBool}, {"cur_l", tList(tNum)},
	{"type", tStr},     // a reserved word as a column name
	{"we`ird", tNum},   // a column name with a back quote
	{"order by", tStr}, // a column name with a blank
}

var sqlStrPool = []string{"", "a", "admin", "hello%", "x y", "it's", `a"b`, `a\b`, `\`, `"`, `""`, `\"`, `" OR 1=1 --`, `") OR ("1"="1`,
	"\n", "\r\n", "\t", "\x00", "\x01", "\x7f", "\u0080", "\u00a0", "é", "中文", "😀", "\u3000", "\ufeff", "`col`", "a`b", "%_", "NULL", "1", "AND", "x\\", `\x41`, "'; DROP TABLE t; --", "\U0010ffff", "\ufffd"}
var sqlSimpleStrPool = []string{"", "a", "admin", "hello", "x y", "NULL", "1", "AND", "abc123", "Z"}
var sqlNumPool = []float64{0, 1, -1, 2, 3, 42, 100, 0.5, -0.5, 1.5, 0.1, 0.30000000000000004, 123456789.125, 1e-7, 1e-9, 5e-324, 1e15, 1e21, 1e30, -1e30,
	9007199254740992, 9007199254740993, 9223372036854775807, 9223372036854775808, -9223372036854775808, -9223372036854777856, 1.7976931348623157e308, 255, 65536}
var sqlSimpleNumPool = []float64{0, 1, -1, 2, 3, 42, 100, 255, 65536, -7}
var sqlSecPool = []int64{0, 1, -1, 86400, 1577934245, 946684799, 2147483648, -86400, 253402300799}

type sqlGen struct {
	r       *rand.Rand
	invalid bool // an invalid UTF-8 string was handed out since the last reset (no model request then)
}

var sqlInvalidStrPool = []string{"\xff", "a\xc3", "\xc3\x28", "\xed\xa0\x80", "\"\x80"}

func (g *sqlGen) str() string {
	if simpleNum {
		return sqlSimpleStrPool[g.r.Intn(len(sqlSimpleStrPool))]
	}
	if g.r.Intn(60) == 0 {
		g.invalid = true
		return sqlInvalidStrPool[g.r.Intn(len(sqlInvalidStrPool))]
	}
	if g.r.Intn(6) == 0 { // random bytes out of a small alphabet of troublemakers
		al := []string{`"`, `\`, "'", "`", " ", "a", "é", "\n", "%", ")", "(", ",", "-", "\x01", "中"}
		n := 1 + g.r.Intn(6)
		s := ""
		for i := 0; i < n; i++ {
			s += al[g.r.Intn(len(al))]
		}
		return s
	}
	return sqlStrPool[g.r.Intn(len(sqlStrPool))]
}

func (g *sqlGen) num(special bool) float64 {
	if simpleNum {
		return sqlSimpleNumPool[g.r.Intn(len(sqlSimpleNumPool))]
	}
	if special && g.r.Intn(8) == 0 {
		return []float64{math.NaN(), math.Inf(1), math.Inf(-1), math.Copysign(0, -1)}[g.r.Intn(4)]
	}
	if g.r.Intn(3) == 0 {
		return float64(g.r.Intn(20))
	}
	return sqlNumPool[g.r.Intn(len(sqlNumPool))]
}

func (g *sqlGen) sec() int64 { return sqlSecPool[g.r.Intn(len(sqlSecPool))] }

// value of type t for the run-time environment (objects may be field-permuted)
func (g *sqlGen) val(t *T) *val.Val {
	switch t.K {
	case "num":
		return val.Num(g.num(true))
	case "str":
		return val.Str(g.str())
	case "bool":
		return val.Bool(g.r.Intn(2) == 0)
	case "time":
		ns := []int64{0, 0, 0, 0, 0, 0, 500000000, 999999999}[g.r.Intn(8)]
		return val.Time(time.Unix(g.sec(), ns).In(zonePool[g.r.Intn(len(zonePool))]))
	case "list":
		l := val.List(t.build().List(), 0).List()
		for i, n := 0, g.r.Intn(3); i < n; i++ {
			l.V = append(l.V, g.val(t.Kids[0]))
		}
		return l.Vl()
	case "obj":
		pt := t
		if g.r.Intn(2) == 0 {
			pt = (&tyGen{r: g.r}).permuteTop(t)
		}
		o := val.Obj(pt.build().Obj()).Obj()
		for i, f := range pt.Fields {
			o.V[i] = g.val(f.T)
		}
		return o.Vl()
	case "maybe":
		if g.r.Intn(2) == 0 {
			return val.Nothing(t.Kids[0].build())
		}
		v := g.val(t.Kids[0])
		return val.Just(v.Type, v)
	}
	panic("sqlGen.val " + t.K)
}

func (g *sqlGen) colsOf(t *T) []string {
	var xs []string
	for _, c := range sqlCols {
		if refEq(c.Ty, t) {
			xs = append(xs, c.Name)
		}
	}
	return xs
}

func (g *sqlGen) pick(xs []string) string { return xs[g.r.Intn(len(xs))] }

// a column of type t; mostly the well-behaved ones
func (g *sqlGen) col(t *T) string {
	xs := g.colsOf(t)
	if len(xs) == 0 {
		return "n"
	}
	c := g.pick(xs)
	if (c == "type" || c == "we`ird" || c == "order by") && g.r.Intn(4) != 0 {
		c = g.pick(xs)
	}
	return c
}

func (g *sqlGen) lit(t *T) ast.Expr {
	switch t.K {
	case "num":
		return aNum(g.num(false))
	case "str":
		return aStr(g.str())
	case "bool":
		return aBool(g.r.Intn(2) == 0)
	case "time":
		return aTime(g.sec())
	}
	return aNum(0)
}

// operand of (scalar) type t
func (g *sqlGen) operand(t *T, depth int) ast.Expr {
	switch k := g.r.Intn(20); {
	case k < 11:
		return g.lit(t)
	case k < 15:
		return aVar(g.col(t))
	case k < 18:
		// member access on the env objects
		for _, o := range []envVar{{"o", sqlObjO}, {"p", sqlObjP}} {
			for _, i := range g.r.Perm(len(o.Ty.Fields)) {
				if refEq(o.Ty.Fields[i].T, t) {
					return aMember(aVar(o.Name), o.Ty.Fields[i].Name)
				}
			}
		}
		return g.lit(t)
	case k < 19 && t.K == "bool" && depth > 0:
		// a whole condition in operand position
		return g.crit(depth - 1).exprOf()
	}
	return g.illTyped()
}

func (g *sqlGen) illTyped() ast.Expr {
	switch g.r.Intn(10) {
	case 0:
		return aStr(g.str())
	case 1:
		return aNum(g.num(false))
	case 2:
		return aBool(true)
	case 3:
		return aTime(g.sec())
	case 4:
		return aVar("nosuchcol")
	case 5:
		return aMember(aVar("o"), "nosuchfield")
	case 6:
		return &ast.MapExpr{Pos: pos.Unknown}
	case 7:
		return ast.Obj([]ast.Field{{Name: "a", Val: aNum(1)}}, pos.Unknown)
	case 8:
		return aMember(ast.Obj([]ast.Field{{Name: "a", Val: aNum(1)}}, pos.Unknown), "a") // member of a non-identifier
	default:
		return ast.Subscript(aVar("ns"), aNum(0), pos.UnknownCol, pos.Unknown)
	}
}

// exprOf is ext's expr() for the harness tree (used for conditions in operand position).
func (c *crit) exprOf() ast.Expr {
	if c.isCond {
		args := append([]ast.Expr{aVar(c.field)}, c.operands...)
		return aCall(aVar(c.op), args...)
	}
	args := []ast.Expr{}
	for _, k := range c.kids {
		args = append(args, k.exprOf())
	}
	return aCall(aVar(c.lop.String()), args...)
}

var sqlScalars = []*T{tNum, tNum, tStr, tStr, tTime, tBool}

func (g *sqlGen) cond(depth int) *crit {
	c := &crit{isCond: true}
	switch k := g.r.Intn(20); {
	case k < 7: // comparison
		t := sqlScalars[g.r.Intn(len(sqlScalars))]
		ops := []string{"=", "<>", ">", ">=", "<", "<="}
		if (t.K == "str" || t.K == "bool") && g.r.Intn(8) != 0 {
			ops = ops[:2]
		}
		c.field, c.op = g.col(t), g.pick(ops)
		c.operands = []ast.Expr{g.operand(t, depth)}
	case k < 11: // IN
		t := []*T{tNum, tStr, tTime, tBool}[g.r.Intn(4)]
		c.field, c.op = g.col(t), "IN"
		switch g.r.Intn(8) {
		case 0:
			c.operands = []ast.Expr{aVar(g.col(tList(t)))} // a list-typed name
		case 1:
			c.operands = []ast.Expr{aList()} // empty list
		default:
			n := 1 + g.r.Intn(4)
			xs := []ast.Expr{}
			for i := 0; i < n; i++ {
				xs = append(xs, g.operand(t, 0))
			}
			c.operands = []ast.Expr{aList(xs...)}
		}
	case k < 14: // BETWEEN
		t := []*T{tNum, tTime}[g.r.Intn(2)]
		c.field, c.op = g.col(t), "BETWEEN"
		c.operands = []ast.Expr{g.operand(t, 0), g.operand(t, 0)}
	case k < 16: // LIKE
		c.field, c.op = g.col(tStr), "LIKE"
		c.operands = []ast.Expr{g.operand(tStr, 0)}
	case k < 18: // ISNULL
		c.field, c.op = sqlCols[g.r.Intn(len(sqlCols))].Name, "ISNULL"
		if g.r.Intn(3) != 0 {
			c.field = g.col(sqlScalars[g.r.Intn(len(sqlScalars))])
		}
	case k < 19: // wrong arity / unknown operator
		t := tNum
		c.field = g.col(t)
		c.op = g.pick([]string{"=", "BETWEEN", "IN", "LIKE", "ISNULL", "==", "and", "between", "NOT", "AND"})
		for i, n := 0, g.r.Intn(4); i < n; i++ {
			c.operands = append(c.operands, g.operand(t, 0))
		}
	default: // undefined column
		c.field, c.op = g.pick([]string{"nosuchcol", "", "N"}), "="
		c.operands = []ast.Expr{g.lit(tNum)}
	}
	return c
}

func (g *sqlGen) crit(depth int) *crit {
	if depth <= 0 || g.r.Intn(4) == 0 {
		return g.cond(depth)
	}
	c := &crit{}
	switch k := g.r.Intn(10); {
	case k < 4:
		c.lop = ext.AND
	case k < 8:
		c.lop = ext.OR
	default:
		c.lop = ext.NOT
	}
	n := 2
	if c.lop == ext.NOT {
		n = 1
	}
	if g.r.Intn(25) == 0 { // wrong arity
		n = []int{0, 1, 2, 3}[g.r.Intn(4)]
	}
	for i := 0; i < n; i++ {
		c.kids = append(c.kids, g.crit(depth-1))
	}
	return c
}

// ---------------------------------------------------------------------------------------
// running the implementation

var sqlKnownCompileAsserts = []string{"expect ident actual", "only support static dispatch", "unsupported expr", " not defined"}

// runSql returns the produced text or the protocol form of the failure; internal is non-empty
// when the failure is not one of the anticipated ones.
func runSql(c ext.Criteria, tenv *types.Env, venv *val.Env) (text string, errClass string, internal string) {
	var f func(v interface{}) (string, error)
	func() {
		defer func() {
			if r := recover(); r != nil {
				cls := classifyCheckErr(r)
				if strings.HasPrefix(cls, "internal:") {
					msg := fmt.Sprint(r)
					known := false
					for _, k := range sqlKnownCompileAsserts {
						if strings.Contains(msg, k) {
							known = true
						}
					}
					cls = "unsupported"
					if !known {
						internal = "CompileToSql panics: " + msg
					}
				}
				errClass = sxList("err", "panic-compile", cls)
			}
		}()
		f = ext.CompileToSql(c, tenv)
	}()
	if errClass != "" {
		return
	}
	var s string
	var err error
	func() {
		defer func() {
			if r := recover(); r != nil {
				internal = fmt.Sprintf("the compiled criteria panics: %v", r)
				errClass = sxList("err", "escaped-panic")
			}
		}()
		s, err = f(venv)
	}()
	if errClass != "" {
		return
	}
	if err == nil {
		return s, "", ""
	}
	msg := err.Error()
	switch {
	case strings.HasPrefix(msg, "undefined "):
		errClass = sxList("err", "env-undefined")
	case strings.HasPrefix(msg, "type mismatched"):
		errClass = sxList("err", "env-type")
	case strings.HasPrefix(msg, "missing `"):
		errClass = sxList("err", "missing-var")
	case strings.HasPrefix(msg, "unsupported val"):
		errClass = sxList("err", "unsupported-val")
	case strings.HasPrefix(msg, "runtime error: invalid memory address"):
		errClass = sxList("err", "nil-val")
		internal = "run-time error inside the compiled criteria: " + msg
	default:
		errClass = sxList("err", "other")
		internal = "unexpected failure of the compiled criteria: " + msg
	}
	return
}

// ---------------------------------------------------------------------------------------
// the meaning of a criteria tree (twin of Yae.Sql.treeOf / flatten)

type snode struct {
	K    string // col str num time list cond and or not
	S    string // column name, string content, lexeme, operator
	F    float64
	Kids []*snode
}

func (n *snode) sx() string {
	switch n.K {
	case "col", "str", "num", "time":
		return sxList(n.K, sxStr(n.S))
	case "cond":
		xs := []string{"cond", sxStr(n.S)}
		for _, k := range n.Kids {
			xs = append(xs, k.sx())
		}
		return sxList(xs...)
	}
	xs := []string{n.K}
	for _, k := range n.Kids {
		xs = append(xs, k.sx())
	}
	return sxList(xs...)
}

func (n *snode) human() string {
	switch n.K {
	case "col":
		return "`" + n.S + "`"
	case "str":
		return strconv.Quote(n.S)
	case "num":
		return n.S
	case "time":
		return "t(" + n.S + ")"
	}
	xs := []string{}
	for _, k := range n.Kids {
		xs = append(xs, k.human())
	}
	h := n.K
	if n.K == "cond" {
		h = n.S
	}
	return h + "[" + strings.Join(xs, " ") + "]"
}

func flattenS(n *snode) *snode {
	switch n.K {
	case "col", "str", "num", "time":
		return n
	}
	out := &snode{K: n.K, S: n.S}
	for _, k := range n.Kids {
		fk := flattenS(k)
		if (n.K == "and" || n.K == "or") && fk.K == n.K {
			out.Kids = append(out.Kids, fk.Kids...)
		} else {
			out.Kids = append(out.Kids, fk)
		}
	}
	return out
}

// numText is how a number is expected to be written: an integer literal when it is an integer
// in the int64 range, the shortest positional decimal otherwise.
func numText(x float64) string {
	if x == math.Trunc(x) && x >= -9223372036854775808 && x < 9223372036854775808 {
		return strconv.FormatInt(int64(x), 10)
	}
	return strconv.FormatFloat(x, 'f', -1, 64)
}

func numNode(x float64) *snode { return &snode{K: "num", S: numText(x), F: x} }
func boolNode(b bool) *snode {
	if b {
		return numNode(1)
	}
	return numNode(0)
}

func litOfVal(v *val.Val) *snode {
	if v == nil {
		return nil
	}
	switch v.Type.Kind {
	case types.KBool:
		return boolNode(v.Bool().V)
	case types.KNum:
		return numNode(v.Num().V)
	case types.KStr:
		return &snode{K: "str", S: v.Str().V}
	case types.KTime:
		// F keeps the sub-second part, which from_unixtime(<seconds>) cannot express
		return &snode{K: "time", S: strconv.FormatInt(v.Time().V.Unix(), 10), F: float64(v.Time().V.Nanosecond())}
	}
	return nil
}

func sqlOpName(op string) string {
	if op == "ISNULL" {
		return "IS NULL"
	}
	return op
}

func operandTree(e ast.Expr, venv map[string]*val.Val) *snode {
	switch x := e.(type) {
	case *ast.StrExpr:
		return &snode{K: "str", S: x.Val}
	case *ast.NumExpr:
		return numNode(x.Val)
	case *ast.TimeExpr:
		return &snode{K: "time", S: strconv.FormatInt(x.Val, 10)}
	case *ast.BoolExpr:
		return boolNode(x.Val)
	case *ast.ListExpr:
		n := &snode{K: "list"}
		for _, el := range x.Elems {
			k := operandTree(el, venv)
			if k == nil {
				return nil
			}
			n.Kids = append(n.Kids, k)
		}
		return n
	case *ast.IdentExpr:
		if v, ok := venv[x.Name]; ok {
			return litOfVal(v)
		}
		return &snode{K: "col", S: x.Name}
	case *ast.MemberExpr:
		id, ok := x.Obj.(*ast.IdentExpr)
		if !ok {
			return nil
		}
		v, ok := venv[id.Name]
		if !ok || v.Type.Kind != types.KObj {
			return nil
		}
		fv, ok := v.Obj().Get(x.Field.Name)
		if !ok {
			return nil
		}
		return litOfVal(fv)
	case *ast.CallExpr:
		id, ok := x.Callee.(*ast.IdentExpr)
		if !ok {
			return nil
		}
		var kids []*snode
		for _, a := range x.Args {
			k := operandTree(a, venv)
			if k == nil {
				return nil
			}
			kids = append(kids, k)
		}
		switch id.Name {
		case "AND":
			return &snode{K: "and", Kids: kids}
		case "OR":
			return &snode{K: "or", Kids: kids}
		case "NOT":
			if len(kids) != 1 {
				return nil
			}
			return &snode{K: "not", Kids: kids}
		}
		return &snode{K: "cond", S: sqlOpName(id.Name), Kids: kids}
	}
	return nil
}

func treeOf(c *crit, venv map[string]*val.Val) *snode {
	if c.isCond {
		n := &snode{K: "cond", S: sqlOpName(c.op)}
		f := operandTree(aVar(c.field), venv)
		if f == nil {
			return nil
		}
		n.Kids = append(n.Kids, f)
		for _, o := range c.operands {
			k := operandTree(o, venv)
			if k == nil {
				return nil
			}
			n.Kids = append(n.Kids, k)
		}
		return n
	}
	var kids []*snode
	for _, k := range c.kids {
		t := treeOf(k, venv)
		if t == nil {
			return nil
		}
		kids = append(kids, t)
	}
	switch c.lop {
	case ext.AND:
		return &snode{K: "and", Kids: kids}
	case ext.OR:
		return &snode{K: "or", Kids: kids}
	}
	if len(kids) != 1 {
		return nil
	}
	return &snode{K: "not", Kids: kids}
}

// ---------------------------------------------------------------------------------------
// the reference reader (Go twin of lean/Yae/Model/SqlRead.lean), standard SQL precedence

type stok struct {
	K string // word bq str num sym
	S string
}

var reSqlNum = regexp.MustCompile(`^-?[0-9]+(\.[0-9]+)?([eE][+-]?[0-9]+)?`)
var reSqlWord = regexp.MustCompile(`^[A-Za-z_][A-Za-z0-9_]*`)

func sqlTokens(text string) ([]stok, error) {
	var out []stok
	i := 0
	for i < len(text) {
		c := text[i]
		switch {
		case c == ' ' || c == '\t' || c == '\n' || c == '\r':
			i++
		case c == '"':
			j := i + 1
			for {
				if j >= len(text) {
					return nil, fmt.Errorf("unterminated string literal at %d", i)
				}
				if text[j] == '\\' {
					j += 2
					continue
				}
				if text[j] == '"' {
					break
				}
				j++
			}
			s, err := strconv.Unquote(text[i : j+1])
			if err != nil {
				return nil, fmt.Errorf("malformed string literal %s", text[i:j+1])
			}
			out = append(out, stok{"str", s})
			i = j + 1
		case c == '`':
			j := strings.IndexByte(text[i+1:], '`')
			if j < 0 {
				return nil, fmt.Errorf("unterminated identifier at %d", i)
			}
			out = append(out, stok{"bq", text[i+1 : i+1+j]})
			i = i + 1 + j + 1
		case c >= '0' && c <= '9' || c == '-' && i+1 < len(text) && text[i+1] >= '0' && text[i+1] <= '9':
			m := reSqlNum.FindString(text[i:])
			out = append(out, stok{"num", m})
			i += len(m)
		case c == '_' || c >= 'a' && c <= 'z' || c >= 'A' && c <= 'Z':
			m := reSqlWord.FindString(text[i:])
			out = append(out, stok{"word", m})
			i += len(m)
		case c == '(' || c == ')' || c == ',' || c == '=':
			out = append(out, stok{"sym", string(c)})
			i++
		case c == '<':
			if i+1 < len(text) && (text[i+1] == '>' || text[i+1] == '=') {
				out = append(out, stok{"sym", text[i : i+2]})
				i += 2
			} else {
				out = append(out, stok{"sym", "<"})
				i++
			}
		case c == '>':
			if i+1 < len(text) && text[i+1] == '=' {
				out = append(out, stok{"sym", ">="})
				i += 2
			} else {
				out = append(out, stok{"sym", ">"})
				i++
			}
		default:
			return nil, fmt.Errorf("unexpected character %q at %d", c, i)
		}
	}
	return out, nil
}

type sqlParser struct {
	ts []stok
	i  int
}

type sqlSyntax string

func (p *sqlParser) peek(k, s string) bool {
	return p.i < len(p.ts) && p.ts[p.i].K == k && p.ts[p.i].S == s
}
func (p *sqlParser) peekAt(off int, k, s string) bool {
	return p.i+off < len(p.ts) && p.ts[p.i+off].K == k && p.ts[p.i+off].S == s
}
func (p *sqlParser) fail(what string) { panic(sqlSyntax(fmt.Sprintf("%s at token %d", what, p.i))) }

// binding levels: 1 OR, 2 AND, 3 NOT, 4 predicates
func (p *sqlParser) expr(level int) *snode {
	switch level {
	case 1, 2:
		kw, k := "OR", "or"
		if level == 2 {
			kw, k = "AND", "and"
		}
		x := p.expr(level + 1)
		for p.peek("word", kw) {
			p.i++
			y := p.expr(level + 1)
			x = &snode{K: k, Kids: []*snode{x, y}}
		}
		return x
	case 3:
		if p.peek("word", "NOT") {
			p.i++
			return &snode{K: "not", Kids: []*snode{p.expr(3)}}
		}
		return p.predicate()
	}
	panic("level")
}

func (p *sqlParser) predicate() *snode {
	x := p.primary()
	for p.i < len(p.ts) {
		t := p.ts[p.i]
		switch {
		case t.K == "sym" && (t.S == "=" || t.S == "<>" || t.S == ">" || t.S == ">=" || t.S == "<" || t.S == "<="):
			p.i++
			x = &snode{K: "cond", S: t.S, Kids: []*snode{x, p.primary()}}
		case t.K == "word" && t.S == "IN" && p.peekAt(1, "sym", "("):
			p.i += 2
			x = &snode{K: "cond", S: "IN", Kids: []*snode{x, {K: "list", Kids: p.items()}}}
		case t.K == "word" && t.S == "LIKE":
			p.i++
			x = &snode{K: "cond", S: "LIKE", Kids: []*snode{x, p.primary()}}
		case t.K == "word" && t.S == "BETWEEN":
			p.i++
			lo := p.primary()
			if !p.peek("word", "AND") {
				p.fail("BETWEEN without AND")
			}
			p.i++
			hi := p.primary()
			x = &snode{K: "cond", S: "BETWEEN", Kids: []*snode{x, lo, hi}}
		case t.K == "word" && t.S == "IS" && p.peekAt(1, "word", "NULL"):
			p.i += 2
			x = &snode{K: "cond", S: "IS NULL", Kids: []*snode{x}}
		default:
			return x
		}
	}
	return x
}

// items reads `expr (, expr)* )` after an opening parenthesis
func (p *sqlParser) items() []*snode {
	var xs []*snode
	for {
		xs = append(xs, p.expr(1))
		if p.peek("sym", ")") {
			p.i++
			return xs
		}
		if !p.peek("sym", ",") {
			p.fail("expected , or )")
		}
		p.i++
	}
}

func (p *sqlParser) primary() *snode {
	if p.i >= len(p.ts) {
		p.fail("unexpected end")
	}
	t := p.ts[p.i]
	switch {
	case t.K == "str":
		p.i++
		return &snode{K: "str", S: t.S}
	case t.K == "num":
		p.i++
		f, _ := strconv.ParseFloat(t.S, 64)
		return &snode{K: "num", S: t.S, F: f}
	case t.K == "bq":
		p.i++
		return &snode{K: "col", S: t.S}
	case t.K == "word" && t.S == "from_unixtime" && p.peekAt(1, "sym", "(") && p.i+2 < len(p.ts) && p.ts[p.i+2].K == "num" && p.peekAt(3, "sym", ")"):
		s := p.ts[p.i+2].S
		p.i += 4
		return &snode{K: "time", S: s}
	case t.K == "sym" && t.S == "(":
		p.i++
		xs := p.items()
		if len(xs) == 1 {
			return xs[0]
		}
		return &snode{K: "list", Kids: xs}
	}
	p.fail("unexpected token " + t.K + " " + t.S)
	return nil
}

func readSqlGo(text string) (n *snode, toks []stok, err error) {
	toks, err = sqlTokens(text)
	if err != nil {
		return nil, nil, err
	}
	defer func() {
		if r := recover(); r != nil {
			if s, ok := r.(sqlSyntax); ok {
				n, err = nil, fmt.Errorf("%s", string(s))
				return
			}
			panic(r)
		}
	}()
	p := &sqlParser{ts: toks}
	n = p.expr(1)
	if p.i != len(toks) {
		return nil, toks, fmt.Errorf("trailing tokens from %d", p.i)
	}
	return n, toks, nil
}

// leanReadable: the Lean reader keeps string contents as (valid) strings
func leanReadable(toks []stok) bool {
	for _, t := range toks {
		if t.K == "str" && !utf8.ValidString(t.S) {
			return false
		}
	}
	return true
}

// ---------------------------------------------------------------------------------------
// oracles of C20

var reSqlNumLit = regexp.MustCompile(`^-?[0-9]+(\.[0-9]+)?([eE][+-]?[0-9]+)?$`)

type scalar struct {
	k string // str num time
	s string
	f float64
}

func leavesOf(n *snode, out *[]scalar) {
	switch n.K {
	case "str":
		*out = append(*out, scalar{"str", n.S, 0})
	case "num":
		*out = append(*out, scalar{"num", n.S, n.F})
	case "time":
		*out = append(*out, scalar{"time", n.S, n.F})
	case "col":
	default:
		for _, k := range n.Kids {
			leavesOf(k, out)
		}
	}
}

func tokenScalars(toks []stok) []scalar {
	var out []scalar
	for i := 0; i < len(toks); i++ {
		t := toks[i]
		switch {
		case t.K == "str":
			out = append(out, scalar{"str", t.S, 0})
		case t.K == "word" && t.S == "from_unixtime" && i+3 < len(toks) && toks[i+1] == (stok{"sym", "("}) && toks[i+2].K == "num" && toks[i+3] == (stok{"sym", ")"}):
			out = append(out, scalar{"time", toks[i+2].S, 0})
			i += 3
		case t.K == "num":
			f, _ := strconv.ParseFloat(t.S, 64)
			out = append(out, scalar{"num", t.S, f})
		}
	}
	return out
}

func sameTree(a, b *snode) string {
	if a.K != b.K {
		return fmt.Sprintf("%s where %s is expected", b.human(), a.human())
	}
	switch a.K {
	case "col", "str", "time":
		if a.S != b.S {
			return fmt.Sprintf("%s where %s is expected", b.human(), a.human())
		}
		return ""
	case "num":
		if a.F != b.F {
			return fmt.Sprintf("number %s where %s is expected", b.S, a.S)
		}
		return ""
	}
	if a.S != b.S || len(a.Kids) != len(b.Kids) {
		return fmt.Sprintf("%s where %s is expected", b.human(), a.human())
	}
	for i := range a.Kids {
		if d := sameTree(a.Kids[i], b.Kids[i]); d != "" {
			return d
		}
	}
	return ""
}

func hasBackquoteCol(n *snode) bool {
	if n.K == "col" {
		return strings.Contains(n.S, "`")
	}
	for _, k := range n.Kids {
		if hasBackquoteCol(k) {
			return true
		}
	}
	return false
}

type oracleHit struct{ id, what string }

// sqlOracles checks a produced text against the meaning of the criteria. Two situations that
// are outside the plain reading of C20 get their own class, whatever check they trip: a column
// name containing a back quote (sql-ident-escape), and a whole condition in operand position
// (sql-structure-operand).
func sqlOracles(c *crit, want *snode, text string) []oracleHit {
	hits := sqlOracles0(c, want, text)
	for i := range hits {
		if want != nil && hasBackquoteCol(want) {
			hits[i].what = hits[i].id + ": " + hits[i].what
			hits[i].id = "sql-ident-escape"
		} else if c.hasNestedCallOperand() {
			hits[i].what = hits[i].id + ": " + hits[i].what
			hits[i].id = "sql-structure-operand"
		}
	}
	return hits
}

func sqlOracles0(c *crit, want *snode, text string) []oracleHit {
	var hits []oracleHit
	if want == nil {
		return []oracleHit{{"sql-structure", "a text is produced for criteria that have no meaning: " + text}}
	}
	want = flattenS(want)
	var exp []scalar
	leavesOf(want, &exp)
	// operands that have no exact form in the dialect at all
	nonFinite := false
	for _, s := range exp {
		if s.k == "num" && (math.IsNaN(s.f) || math.IsInf(s.f, 0)) {
			nonFinite = true
			hits = append(hits, oracleHit{"sql-scalar", fmt.Sprintf("the number %v is written into %s", s.f, text)})
			break
		}
	}
	for _, s := range exp {
		if s.k == "time" && s.f != 0 {
			hits = append(hits, oracleHit{"sql-scalar-time-fraction", fmt.Sprintf("the time %s s + %d ns is written without its sub-second part in %s", s.s, int64(s.f), text)})
			break
		}
	}
	got, toks, err := readSqlGo(text)
	if toks == nil {
		if nonFinite { // the unreadable text is the consequence of the number
			return hits
		}
		return append(hits, oracleHit{"sql-unreadable", fmt.Sprintf("the text cannot be tokenised (%v): %s", err, text)})
	}
	act := tokenScalars(toks)
	// every string operand is exactly one literal with the same content, in order
	var es, as []string
	for _, s := range exp {
		if s.k == "str" {
			es = append(es, s.s)
		}
	}
	for _, s := range act {
		if s.k == "str" {
			as = append(as, s.s)
		}
	}
	if strings.Join(quoteAll(es), ",") != strings.Join(quoteAll(as), ",") {
		hits = append(hits, oracleHit{"sql-quote", fmt.Sprintf("string operands %v read back as %v in %s", quoteAll(es), quoteAll(as), text)})
	}
	// numbers, booleans, times in their exact form, in order
	var en, an []scalar
	for _, s := range exp {
		if s.k != "str" {
			en = append(en, s)
		}
	}
	for _, s := range act {
		if s.k != "str" {
			an = append(an, s)
		}
	}
	bad := ""
	if len(en) != len(an) {
		bad = fmt.Sprintf("%d numeric/time literals for %d operands", len(an), len(en))
	} else {
		for i := range en {
			if en[i].k != an[i].k {
				bad = fmt.Sprintf("%s literal %s where a %s is expected", an[i].k, an[i].s, en[i].k)
			} else if en[i].k == "time" && en[i].s != an[i].s {
				bad = fmt.Sprintf("time %s written as %s", en[i].s, an[i].s)
			} else if en[i].k == "num" && (!reSqlNumLit.MatchString(an[i].s) || an[i].f != en[i].f) {
				bad = fmt.Sprintf("number %v written as %s", en[i].f, an[i].s)
			}
			if bad != "" {
				break
			}
		}
	}
	if bad != "" && !nonFinite {
		hits = append(hits, oracleHit{"sql-scalar", bad + " in " + text})
	}
	if err != nil {
		if nonFinite {
			return hits
		}
		hits = append(hits, oracleHit{"sql-unreadable", fmt.Sprintf("the text does not parse (%v): %s", err, text)})
		return hits
	}
	if d := sameTree(want, flattenS(got)); d != "" {
		hits = append(hits, oracleHit{"sql-structure", fmt.Sprintf("%s reads as %s, expected %s (%s)", text, flattenS(got).human(), want.human(), d)})
	}
	return hits
}

func quoteAll(xs []string) []string {
	out := make([]string, len(xs))
	for i, x := range xs {
		out[i] = strconv.Quote(x)
	}
	return out
}

// ---------------------------------------------------------------------------------------
// cases

func sqlReadCase(text, tag string) Case {
	n, toks, err := readSqlGo(text)
	c := Case{Human: "sql.read " + text, Tags: []string{tag}, Nontriv: true}
	c.Req = sxList("sql.read", sxStr(text))
	if err != nil || !leanReadable(toks) {
		c.Want = sxList("err")
		c.Tags = append(c.Tags, "read:err")
	} else {
		c.Want = sxList("ok", flattenS(n).sx())
		c.Tags = append(c.Tags, "read:ok")
	}
	return c
}

var sqlMutations = []string{" AND ", " OR ", "NOT ", "(", ")", ",", " IN (", " BETWEEN ", " IS NULL", " = ", "\"", "`", "\\", "1", "-", ".", " LIKE ", "from_unixtime(", "e", "x"}

func mutateSql(r *rand.Rand, text string) string {
	rs := []rune(text)
	switch r.Intn(4) {
	case 0: // delete a rune
		if len(rs) > 0 {
			i := r.Intn(len(rs))
			rs = append(rs[:i:i], rs[i+1:]...)
		}
	case 1: // insert a fragment
		i := r.Intn(len(rs) + 1)
		frag := []rune(sqlMutations[r.Intn(len(sqlMutations))])
		rs = append(rs[:i:i], append(frag, rs[i:]...)...)
	case 2: // delete a parenthesis
		var idx []int
		for i, c := range rs {
			if c == '(' || c == ')' {
				idx = append(idx, i)
			}
		}
		if len(idx) > 0 {
			i := idx[r.Intn(len(idx))]
			rs = append(rs[:i:i], rs[i+1:]...)
		}
	default: // splice two halves
		if len(rs) > 2 {
			i, j := r.Intn(len(rs)), r.Intn(len(rs))
			if i > j {
				i, j = j, i
			}
			rs = append(rs[:i:i], rs[j:]...)
		}
	}
	return string(rs)
}

type sqlEnv struct {
	tvars []envVar
	vars  []envVar // run-time names with the type of the VALUE
	vals  map[string]*val.Val
	order []string
}

func (g *sqlGen) env() *sqlEnv {
	e := &sqlEnv{vals: map[string]*val.Val{}}
	dropped := map[string]bool{}
	for _, c := range sqlCols {
		if g.r.Intn(60) == 0 {
			dropped[c.Name] = true // a column missing at compile time
			continue
		}
		e.tvars = append(e.tvars, c)
	}
	// at most one offender of the run-time environment check (the Go map iteration order
	// decides which of several is reported)
	fault := g.r.Intn(12)
	for _, c := range sqlCols {
		if dropped[c.Name] {
			continue
		}
		p := 5
		if strings.HasPrefix(c.Name, "cur_") || c.Name == "o" || c.Name == "p" {
			p = 60
		}
		if g.r.Intn(100) >= p {
			continue
		}
		t := c.Ty
		if fault == 0 && g.r.Intn(3) == 0 { // a value of another type
			t = []*T{tNum, tStr, tBool, tObj(TF{"x", tNum}), tList(tStr)}[g.r.Intn(5)]
			fault = -1
		}
		e.vals[c.Name] = g.val(t)
		e.order = append(e.order, c.Name)
	}
	if fault == 1 { // a run-time name unknown at compile time
		e.vals["extra"] = val.Num(1)
		e.order = append(e.order, "extra")
	}
	return e
}

func sqlCases(g *sqlGen, c *crit, e *sqlEnv, tag string) []Case {
	if guardBegin("sql " + fmt.Sprint(c)) {
		return []Case{crashCase("sql " + fmt.Sprint(c))}
	}
	defer guardEnd()
	var out []Case
	tenvSx, venvSx := []string{}, []string{}
	tenv := types.NewEnv()
	for _, v := range e.tvars {
		tenv.Put(v.Name, v.Ty.build())
		tenvSx = append(tenvSx, sxList(sxStr(v.Name), v.Ty.sx()))
	}
	venv := val.NewEnv()
	bound := []string{}
	for _, n := range e.order {
		venv.Put(n, e.vals[n])
		venvSx = append(venvSx, sxList(sxStr(n), encVal(e.vals[n])))
		bound = append(bound, n+"="+e.vals[n].String())
	}
	human := c.human() + "  with " + strings.Join(bound, ", ")
	critSx := c.sx()
	want := treeOf(c, e.vals)

	text, errClass, internal := runSql(c.build(), tenv, venv)
	mc := Case{Human: "sql " + human, Tags: []string{tag}, Nontriv: true}
	mc.Req = sxList("sql", critSx, sxList(tenvSx...), sxList(venvSx...))
	if errClass != "" {
		mc.Want = errClass
		mc.Tags = append(mc.Tags, "sql:"+strings.Trim(errClass, "()"))
		if internal != "" {
			mc.Oracle, mc.OracleID = internal, "sql-panic"
		}
		out = append(out, mc)
	} else {
		mc.Want = sxList("ok", sxStr(text))
		mc.Tags = append(mc.Tags, "sql:ok")
		out = append(out, mc)
		verdict := true
		for _, h := range sqlOracles(c, want, text) {
			out = append(out, Case{Human: "sql " + human, Want: text, Oracle: h.what, OracleID: h.id, Tags: []string{"oracle:" + h.id}})
			if h.id != "sql-scalar-time-fraction" {
				verdict = false
			}
		}
		// the model's executable form of C20 against the verdict of the oracles (the dropped
		// sub-second part of a time is not visible to it: the meaning keeps whole seconds)
		out = append(out, Case{Human: "sql.c20 " + human, Tags: []string{"c20:" + sxBool(verdict)}, Nontriv: true,
			Req:  sxList("sql.c20", critSx, sxList(tenvSx...), sxList(venvSx...)),
			Want: sxList("ok", sxBool(verdict))})
		if utf8.ValidString(text) {
			out = append(out, sqlReadCase(text, "read:produced"))
			if g.r.Intn(3) == 0 {
				out = append(out, sqlReadCase(mutateSql(g.r, text), "read:mutant"))
			}
		}
	}
	if g.invalid { // invalid UTF-8 does not travel to the model: oracles only
		for i := range out {
			if out[i].Req != "" {
				out[i].Req, out[i].Tags = "", append(out[i].Tags, "no-model:invalid-utf8")
			}
		}
		return out
	}
	// the meaning of the criteria, model against harness
	tc := Case{Human: "sql.tree " + human, Tags: []string{"tree"}, Nontriv: true}
	tc.Req = sxList("sql.tree", critSx, sxList(venvSx...))
	if want == nil {
		tc.Want = sxList("err")
	} else {
		tc.Want = sxList("ok", flattenS(want).sx())
	}
	out = append(out, tc)
	return out
}

// fixed corpus: the parenthesisation corners
func sqlFixed() []*crit {
	cmp := func(f, op string, o ast.Expr) *crit {
		return &crit{isCond: true, field: f, op: op, operands: []ast.Expr{o}}
	}
	grp := func(l ext.LogicalOper, ks ...*crit) *crit { return &crit{lop: l, kids: ks} }
	a := cmp("n", "=", aNum(1))
	b := cmp("age", ">", aNum(2))
	c := cmp("name", "<>", aStr("x"))
	btw := &crit{isCond: true, field: "price", op: "BETWEEN", operands: []ast.Expr{aNum(1), aNum(2)}}
	isn := &crit{isCond: true, field: "s", op: "ISNULL"}
	in := &crit{isCond: true, field: "n", op: "IN", operands: []ast.Expr{aList(aNum(1), aNum(2))}}
	return []*crit{
		grp(ext.NOT, grp(ext.AND, a, b)),
		grp(ext.AND, grp(ext.NOT, a), b),
		grp(ext.NOT, grp(ext.NOT, a)),
		grp(ext.NOT, grp(ext.NOT, grp(ext.OR, a, b))),
		grp(ext.NOT, grp(ext.OR, grp(ext.NOT, a), b)),
		grp(ext.AND, grp(ext.OR, a, b), c),
		grp(ext.AND, a, grp(ext.OR, b, c)),
		grp(ext.OR, grp(ext.AND, a, b), c),
		grp(ext.OR, a, grp(ext.AND, b, c)),
		grp(ext.AND, a, grp(ext.AND, b, c)),
		grp(ext.AND, grp(ext.AND, a, b), c),
		grp(ext.OR, a, grp(ext.OR, b, c)),
		grp(ext.OR, grp(ext.OR, a, b), c),
		grp(ext.NOT, btw),
		grp(ext.AND, btw, a),
		grp(ext.AND, a, btw),
		grp(ext.OR, grp(ext.NOT, btw), grp(ext.AND, btw, btw)),
		grp(ext.NOT, isn),
		grp(ext.AND, grp(ext.NOT, isn), in),
		grp(ext.NOT, in),
		grp(ext.AND, grp(ext.NOT, grp(ext.AND, a, b)), grp(ext.NOT, grp(ext.OR, a, b))),
		grp(ext.OR, grp(ext.NOT, grp(ext.AND, a, grp(ext.OR, b, c))), a),
		cmp("b", "=", grp(ext.AND, a, b).exprOf()),
		cmp("b", "=", grp(ext.OR, a, b).exprOf()),
		cmp("b", "<>", grp(ext.NOT, a).exprOf()),
		cmp("b", "=", a.exprOf()),
		cmp("b", "=", isn.exprOf()),
		grp(ext.AND, cmp("b", "=", grp(ext.OR, a, b).exprOf()), c),
		{isCond: true, field: "b", op: "IN", operands: []ast.Expr{aList(a.exprOf(), grp(ext.OR, a, b).exprOf())}},
		{isCond: true, field: "n", op: "IN", operands: []ast.Expr{aList()}},
		{isCond: true, field: "we`ird", op: "=", operands: []ast.Expr{aNum(1)}},
		{isCond: true, field: "order by", op: "=", operands: []ast.Expr{aStr("x")}},
		{isCond: true, field: "type", op: "=", operands: []ast.Expr{aStr("x")}},
		grp(ext.AND, a),
		grp(ext.AND, a, b, c),
		grp(ext.NOT, a, b),
		grp(ext.NOT),
		cmp("name", "=", aStr(`" OR 1=1 --`)),
		cmp("name", "LIKE", aStr(`%\_"`)),
		cmp("n", "=", aVar("cur_n")),
		cmp("n", "=", aMember(aVar("o"), "a")),
		cmp("name", "=", aMember(aVar("p"), "y")),
		cmp("created", ">=", aMember(aVar("o"), "c")),
		cmp("active", "=", aMember(aVar("o"), "d")),
		{isCond: true, field: "n", op: "IN", operands: []ast.Expr{aMember(aVar("o"), "l")}},
		{isCond: true, field: "n", op: "IN", operands: []ast.Expr{aVar("cur_l")}},
	}
}

func init() {
	register(&Stream{
		Name: "sql",
		Rule: "random criteria trees (depth<=4 over AND/OR/NOT, also with wrong arities) over a 23-column compile-time environment (num/str/time/bool columns, list, object and optional columns, a reserved word, a back-quoted and a blank-containing column name); all condition kinds (= <> > >= < <= on num/str/time/bool, IN lists incl. empty and list-typed names, BETWEEN num/time, LIKE, ISNULL), operands = literals (adversarial strings: quotes, backslashes, control and non-ASCII characters, injection attempts; numbers incl. fractions, 1e30, 2^63, 5e-324), names bound or not bound at run time (values incl. NaN, ±Inf, -0), member access on run-time objects with permuted field order, conditions in operand position, ill-typed and unsupported operands; run-time environments with at most one fault (unknown name / value of another type); every produced text is also read back by the model's and the harness's reference readers, as are random mutants of it; plus a fixed corpus of parenthesisation corners. Non-trivial = every request; distinct = distinct request.",
		Gen: func(r *rand.Rand, n int, thorough bool) []Case {
			g := &sqlGen{r: r}
			var cs []Case
			for _, c := range sqlFixed() {
				for k := 0; k < 2; k++ {
					g.invalid = false
					e := g.env()
					if k == 0 { // nothing bound: pure column names
						e.vals, e.order = map[string]*val.Val{}, nil
						e.tvars = sqlCols
					}
					cs = append(cs, sqlCases(g, c, e, "crit:fixed")...)
				}
			}
			for i := 0; i < n; i++ {
				depth := r.Intn(5)
				g.invalid = false
				c := g.crit(depth)
				e := g.env()
				cs = append(cs, sqlCases(g, c, e, fmt.Sprintf("crit:depth%d", depth))...)
			}
			return cs
		},
	})
}
