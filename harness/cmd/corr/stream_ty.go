package main

import (
	"fmt"
	"math/rand"
	"sort"

	"github.com/goghcrow/yae/types"
)

// structural identity of two T trees with object fields compared by name: the reference
// meaning of "types are equal" in property C17.
func refEq(a, b *T) bool {
	if a.K != b.K {
		return false
	}
	switch a.K {
	case "var":
		return a.Name == b.Name
	case "obj":
		if len(a.Fields) != len(b.Fields) {
			return false
		}
		fa := append([]TF{}, a.Fields...)
		fb := append([]TF{}, b.Fields...)
		sort.Slice(fa, func(i, j int) bool { return fa[i].Name < fa[j].Name })
		sort.Slice(fb, func(i, j int) bool { return fb[i].Name < fb[j].Name })
		for i := range fa {
			if fa[i].Name != fb[i].Name || !refEq(fa[i].T, fb[i].T) {
				return false
			}
		}
		return true
	}
	if len(a.Kids) != len(b.Kids) {
		return false
	}
	for i := range a.Kids {
		if !refEq(a.Kids[i], b.Kids[i]) {
			return false
		}
	}
	if (a.Ret == nil) != (b.Ret == nil) {
		return false
	}
	if a.Ret != nil {
		return refEq(a.Ret, b.Ret)
	}
	return true
}

// relaxed ordering after substitution: ⊥ on the right and ⊤ on the left absorb.
func relaxedRel(a, b *types.Type) bool {
	if b.Kind == types.KBot || a.Kind == types.KTop {
		return true
	}
	if a.Kind != b.Kind {
		return false
	}
	switch a.Kind {
	case types.KTyVar:
		return a.TyVar().Name == b.TyVar().Name
	case types.KList:
		return relaxedRel(a.List().El, b.List().El)
	case types.KMaybe:
		return relaxedRel(a.Maybe().Elem, b.Maybe().Elem)
	case types.KMap:
		return relaxedRel(a.Map().Key, b.Map().Key) && relaxedRel(a.Map().Val, b.Map().Val)
	case types.KObj:
		if len(a.Obj().Fields) != len(b.Obj().Fields) {
			return false
		}
		for _, f := range a.Obj().Fields {
			g, ok := b.Obj().GetField(f.Name)
			if !ok || !relaxedRel(f.Val, g.Val) {
				return false
			}
		}
		return true
	case types.KFun:
		if len(a.Fun().Param) != len(b.Fun().Param) {
			return false
		}
		for i := range a.Fun().Param {
			if !relaxedRel(a.Fun().Param[i], b.Fun().Param[i]) {
				return false
			}
		}
		return relaxedRel(a.Fun().Return, b.Fun().Return)
	case types.KNum, types.KStr, types.KBool, types.KTime, types.KTop, types.KBot:
		return true
	default: // tuple
		if len(a.Tuple().Val) != len(b.Tuple().Val) {
			return false
		}
		for i := range a.Tuple().Val {
			if !relaxedRel(a.Tuple().Val[i], b.Tuple().Val[i]) {
				return false
			}
		}
		return true
	}
}

// buildable: the types package accepts the type (keyable map keys, distinct fields).
func buildable(ts ...*T) (ok bool) {
	defer func() {
		if r := recover(); r != nil {
			ok = false
		}
	}()
	for _, t := range ts {
		t.build()
	}
	return true
}

func skipCase(what string) Case {
	return Case{Human: what, Want: "skipped", Tags: []string{"skipped:unbuildable"}}
}

func tyeqCase(a, b *T, tag string) Case {
	if !buildable(a, b) {
		return skipCase("tyeq")
	}
	c := Case{Human: "tyeq " + a.String() + " ~ " + b.String(), Tags: []string{"tyeq:" + tag}}
	c.Req = sxList("tyeq", a.sx(), b.sx())
	var ab, ba, aa bool
	c.Want = safely(func() string {
		x, y := a.build(), b.build()
		ab = types.Equals(x, y)
		ba = types.Equals(b.build(), a.build())
		aa = types.Equals(x, a.build())
		return sxList("ok", sxBool(ab))
	})
	c.Nontriv = a.depth() > 0 || b.depth() > 0
	if c.Want != "(err panic)" {
		switch {
		case !aa:
			c.Oracle, c.OracleID = "Equals(t,t) is false", "tyeq-not-reflexive"
		case ab != ba:
			c.Oracle, c.OracleID = "Equals(a,b) != Equals(b,a)", "tyeq-not-symmetric"
		case ab != refEq(a, b):
			c.Oracle, c.OracleID = "Equals disagrees with structural identity (fields by name)", "tyeq-not-structural"
		}
		if ab {
			c.Tags = append(c.Tags, "tyeq:equal")
		} else {
			c.Tags = append(c.Tags, "tyeq:different")
		}
	}
	return c
}

// tyeqSharedCase: the left type reuses one *types.Type pointer for two components (a DAG); the
// right type agrees on the first occurrence and may differ on the second.
func tyeqSharedCase(g *tyGen) Case {
	sub := g.gen(2)
	if sub.depth() == 0 {
		sub = tObj(TF{"x", sub}, TF{"y", tNum})
	}
	other := sub
	tag := "shared-same"
	if g.r.Intn(2) == 0 {
		other = g.mutate(sub)
		tag = "shared-mutant"
	}
	var a, b *T
	switch g.r.Intn(3) {
	case 0:
		a = tObj(TF{"from", sub}, TF{"to", sub})
		b = tObj(TF{"from", sub}, TF{"to", other})
	case 1:
		a = tFun("f", []*T{sub, sub}, tNum)
		b = tFun("f", []*T{sub, other}, tNum)
	default:
		a = tMap(tStr, tObj(TF{"l", tList(sub)}, TF{"r", tList(sub)}))
		b = tMap(tStr, tObj(TF{"l", tList(sub)}, TF{"r", tList(other)}))
	}
	if !buildable(a, b) {
		return skipCase("tyeq-shared")
	}
	c := Case{Human: "tyeq[" + tag + "] " + a.String() + " ~ " + b.String(), Tags: []string{"tyeq:" + tag}, Nontriv: true}
	c.Req = sxList("tyeq", a.sx(), b.sx())
	c.Want = safely(func() string {
		x := a.buildShared(map[*T]*types.Type{})
		y := b.build()
		ab := types.Equals(x, y)
		ba := types.Equals(y, x)
		if ab != ba {
			c.Oracle, c.OracleID = "Equals(a,b) != Equals(b,a) on a type with shared components", "tyeq-not-symmetric"
		} else if ab != refEq(a, b) {
			c.Oracle, c.OracleID = "Equals disagrees with structural identity on a type with shared components", "tyeq-not-structural"
		}
		return sxList("ok", sxBool(ab))
	})
	return c
}

// unifyCycleCase: systems of equations over several variables given as two tuples, with
// cross references between the variables: x_i =? C[x_j].  Cyclic systems must be refused
// (occurs check on the substituted type), chains must succeed.
func unifyCycleCase(g *tyGen) Case {
	vars := []string{"a", "b", "c"}
	n := 2 + g.r.Intn(2)
	wrap := func(t *T) *T {
		switch g.r.Intn(5) {
		case 0:
			return tList(t)
		case 1:
			return tMaybe(t)
		case 2:
			return tObj(TF{"f", t}, TF{"g", tNum})
		case 3:
			return tMap(tStr, t)
		default:
			return tFun("f", []*T{t}, tNum)
		}
	}
	var ls, rs []*T
	cyclic := g.r.Intn(2) == 0
	for i := 0; i < n; i++ {
		ls = append(ls, tVar(vars[i]))
		var target *T
		if i+1 < n {
			target = wrap(tVar(vars[i+1]))
		} else if cyclic {
			target = wrap(tVar(vars[0]))
		} else {
			target = wrap(tNum)
		}
		rs = append(rs, target)
	}
	// random orientation per component and random order of the equations
	perm := g.r.Perm(n)
	var xs, ys []*T
	for _, i := range perm {
		if g.r.Intn(2) == 0 {
			xs, ys = append(xs, ls[i]), append(ys, rs[i])
		} else {
			xs, ys = append(xs, rs[i]), append(ys, ls[i])
		}
	}
	tag := "chain"
	if cyclic {
		tag = "cycle"
	}
	c := unifyCase(tTuple(xs...), tTuple(ys...), tag)
	if cyclic && c.Want != "(err fail)" && c.Want != "(err panic)" && c.Oracle == "" && c.Want != "skipped" {
		c.Oracle, c.OracleID = "a cyclic system of equations was unified (some variable is bound to a type containing itself)", "unify-occurs"
	}
	return c
}

func tyeqTransCase(a, b, c3 *T) Case {
	c := Case{Human: "tyeq-trans " + a.String() + " ~ " + b.String() + " ~ " + c3.String(), Tags: []string{"tyeq:trans"}}
	res := safely(func() string {
		ab := types.Equals(a.build(), b.build())
		bc := types.Equals(b.build(), c3.build())
		ac := types.Equals(a.build(), c3.build())
		if ab && bc && !ac {
			return "violated"
		}
		return "ok"
	})
	c.Want = res
	if res == "violated" {
		c.Oracle, c.OracleID = "Equals(a,b) and Equals(b,c) but not Equals(a,c)", "tyeq-not-transitive"
	}
	return c
}

func unifyCase(x, y *T, tag string) Case {
	if !buildable(x, y) {
		return skipCase("unify")
	}
	c := Case{Human: "unify " + x.String() + " =? " + y.String(), Tags: []string{"unify:" + tag}}
	c.Req = sxList("unify", x.sx(), y.sx(), "()")
	c.Nontriv = x.depth() > 0 || y.depth() > 0
	c.Want = safely(func() string {
		m := map[string]*types.Type{}
		bx, by := x.build(), y.build()
		u := types.Unify(bx, by, m)
		if u == nil {
			c.Tags = append(c.Tags, "unify:fail")
			return "(err fail)"
		}
		c.Tags = append(c.Tags, "unify:ok")
		// oracle: the substitution unifies both sides (up to the ⊥/⊤ rules), is acyclic.
		// Applied on the harness's own trees: types.Map would assert on a variable key that was
		// bound to a composite, which is about key validity, not about equality.
		func() {
			defer func() {
				if r := recover(); r != nil {
					c.Oracle, c.OracleID = fmt.Sprintf("oracle panicked: %v", r), "unify-oracle-panics"
				}
			}()
			sub := map[string]*T{}
			for name, t := range m {
				sub[name] = fromGo(t)
			}
			sx := substT(x, sub, 64)
			sy := substT(y, sub, 64)
			if sx == nil || sy == nil {
				c.Oracle, c.OracleID = "substitution is cyclic", "unify-occurs"
				return
			}
			if !relT(sx, sy) && !relT(sy, sx) {
				c.Oracle, c.OracleID = "substitution does not make the sides equal: "+sx.String()+" vs "+sy.String(), "unify-unsound"
			}
		}()
		return sxList("ok", encTy(u), encSubst(m))
	})
	return c
}

func occurs(name string, t *types.Type) bool {
	switch t.Kind {
	case types.KTyVar:
		return t.TyVar().Name == name
	case types.KList:
		return occurs(name, t.List().El)
	case types.KMaybe:
		return occurs(name, t.Maybe().Elem)
	case types.KMap:
		return occurs(name, t.Map().Key) || occurs(name, t.Map().Val)
	case types.KObj:
		for _, f := range t.Obj().Fields {
			if occurs(name, f.Val) {
				return true
			}
		}
		return false
	case types.KFun:
		for _, p := range t.Fun().Param {
			if occurs(name, p) {
				return true
			}
		}
		return occurs(name, t.Fun().Return)
	case types.KNum, types.KStr, types.KBool, types.KTime, types.KTop, types.KBot:
		return false
	default:
		for _, p := range t.Tuple().Val {
			if occurs(name, p) {
				return true
			}
		}
		return false
	}
}

// matchCase: pattern (with variables) against a ground instance or a mutated instance.
// Oracle: if the ground type IS an instance (constructed), unification must succeed.
func matchCase(g *tyGen, gg *tyGen, tag string) Case {
	p := g.gen(2)
	env := map[string]*T{}
	inst := g.instantiate(p, env, gg)
	target := inst
	isInstance := true
	switch g.r.Intn(3) {
	case 0:
		target = gg.permute(inst)
	case 1:
		target = gg.mutate(inst)
		isInstance = false
	}
	c := unifyCase(p, target, tag)
	if isInstance && c.Want == "(err fail)" && c.Oracle == "" {
		c.Oracle, c.OracleID = "pattern does not match its own instance", "match-incomplete"
	}
	return c
}

func inferCase(g *tyGen, gg *tyGen) Case {
	np := 1 + g.r.Intn(3)
	ps := []*T{}
	for i := 0; i < np; i++ {
		ps = append(ps, g.gen(2))
	}
	var ret *T
	if g.r.Intn(3) == 0 {
		ret = gg.gen(1)
	} else {
		ret = g.gen(1)
	}
	env := map[string]*T{}
	args := []*T{}
	for _, p := range ps {
		a := g.instantiate(p, env, gg)
		switch g.r.Intn(6) {
		case 0:
			a = gg.mutate(a)
		case 1:
			a = gg.permute(a)
		}
		args = append(args, a)
	}
	if g.r.Intn(10) == 0 && len(args) > 1 {
		args = args[:len(args)-1]
	}
	f := tFun("f", ps, ret)
	if !buildable(f) || !buildable(args...) {
		return skipCase("infer")
	}
	c := Case{Human: "infer " + f.String() + " @ " + tTuple(args...).String(), Tags: []string{"infer"}}
	psx, asx := []string{}, []string{}
	for _, p := range ps {
		psx = append(psx, p.sx())
	}
	for _, a := range args {
		asx = append(asx, a.sx())
	}
	c.Req = sxList("infer", sxStr("f"), sxList(psx...), ret.sx(), sxList(asx...))
	c.Nontriv = true
	c.Want = safely(func() string {
		bargs := make([]*types.Type, len(args))
		for i, a := range args {
			bargs[i] = a.build()
		}
		res := types.InferFunHook(f.build().Fun(), bargs)
		if res == nil {
			c.Tags = append(c.Tags, "infer:fail")
			return "(err fail)"
		}
		c.Tags = append(c.Tags, "infer:ok")
		out := []string{}
		for _, p := range res.Param {
			out = append(out, encTy(p))
		}
		return sxList("ok", sxList(out...), encTy(res.Return))
	})
	return c
}

func init() {
	register(&Stream{
		Name: "types",
		Rule: "type pairs: identical, field-permuted, one-position mutants and unrelated pairs of random types (depth<=3, vars a/b, ⊥, ⊤, fun) for Equals; pattern vs own instance / permuted instance / mutated instance and arbitrary two-sided pairs for Unify; inferFun on random signatures. Non-trivial = at least one side composite; distinct = distinct request line.",
		Gen: func(r *rand.Rand, n int, thorough bool) []Case {
			var cs []Case
			gv := &tyGen{r: r, vars: []string{"a", "b"}, bot: true, top: true, funs: true}
			gg := &tyGen{r: r, bot: true, funs: true}
			gp := &tyGen{r: r, vars: []string{"a", "b", "c"}, funs: false}
			// fixed corpus
			fixed := [][2]*T{
				{tObj(TF{"a", tNum}, TF{"b", tStr}), tObj(TF{"b", tStr}, TF{"a", tNum})},
				{tObj(TF{"a", tNum}, TF{"b", tStr}), tObj(TF{"a", tNum}, TF{"c", tStr})},
				{tObj(), tObj()},
				{tList(tBot), tList(tNum)},
				{tMap(tBot, tBot), tMap(tStr, tNum)},
				{tFun("f", []*T{tNum}, tStr), tFun("g", []*T{tNum}, tStr)},
				{tTuple(tNum, tStr), tTuple(tNum, tStr)},
				{tTuple(tNum), tTuple(tNum, tStr)},
				{tVar("a"), tVar("a")},
				{tVar("a"), tVar("b")},
				{tMaybe(tNum), tNum},
				{tTop, tBot},
			}
			for _, p := range fixed {
				cs = append(cs, tyeqCase(p[0], p[1], "fixed"), unifyCase(p[0], p[1], "fixed"), unifyCase(p[1], p[0], "fixed"))
			}
			for i := 0; i < n; i++ {
				d := 1 + r.Intn(3)
				a := gv.gen(d)
				switch i % 5 {
				case 0:
					cs = append(cs, tyeqCase(a, a, "same"))
				case 1:
					cs = append(cs, tyeqCase(a, gv.permute(a), "permuted"))
				case 2:
					cs = append(cs, tyeqCase(a, gv.mutate(a), "mutant"))
				case 3:
					cs = append(cs, tyeqCase(a, gv.gen(d), "random"))
				case 4:
					b := gv.permute(a)
					c3 := gv.permute(b)
					if r.Intn(2) == 0 {
						c3 = gv.mutate(b)
					}
					cs = append(cs, tyeqTransCase(a, b, c3))
				}
				if i%6 == 0 {
					cs = append(cs, tyeqSharedCase(gv))
				}
				if i%5 == 0 {
					cs = append(cs, unifyCycleCase(gv))
				}
				switch i % 4 {
				case 0:
					cs = append(cs, matchCase(gp, gg, "match"))
				case 1:
					cs = append(cs, unifyCase(gv.gen(d), gv.gen(d), "two-sided"))
				case 2:
					b := gv.mutate(a)
					cs = append(cs, unifyCase(a, b, "two-sided-near"))
				case 3:
					cs = append(cs, inferCase(gp, gg))
				}
			}
			return cs
		},
	})
}

func fromGo(t *types.Type) *T {
	switch t.Kind {
	case types.KTop:
		return tTop
	case types.KBot:
		return tBot
	case types.KTyVar:
		return tVar(t.TyVar().Name)
	case types.KNum:
		return tNum
	case types.KStr:
		return tStr
	case types.KBool:
		return tBool
	case types.KTime:
		return tTime
	case types.KList:
		return tList(fromGo(t.List().El))
	case types.KMaybe:
		return tMaybe(fromGo(t.Maybe().Elem))
	case types.KMap:
		return tMap(fromGo(t.Map().Key), fromGo(t.Map().Val))
	case types.KObj:
		fs := []TF{}
		for _, f := range t.Obj().Fields {
			fs = append(fs, TF{f.Name, fromGo(f.Val)})
		}
		return tObj(fs...)
	case types.KFun:
		ps := []*T{}
		for _, p := range t.Fun().Param {
			ps = append(ps, fromGo(p))
		}
		return tFun(t.Fun().Name, ps, fromGo(t.Fun().Return))
	default:
		ps := []*T{}
		for _, p := range t.Tuple().Val {
			ps = append(ps, fromGo(p))
		}
		return tTuple(ps...)
	}
}

// substT applies a substitution exhaustively; nil when a binding chain does not end.
func substT(t *T, m map[string]*T, fuel int) *T {
	if fuel == 0 {
		return nil
	}
	if t.K == "var" {
		u, ok := m[t.Name]
		if !ok || (u.K == "var" && u.Name == t.Name) {
			return t
		}
		return substT(u, m, fuel-1)
	}
	c := &T{K: t.K, Name: t.Name}
	for _, k := range t.Kids {
		x := substT(k, m, fuel)
		if x == nil {
			return nil
		}
		c.Kids = append(c.Kids, x)
	}
	for _, f := range t.Fields {
		x := substT(f.T, m, fuel)
		if x == nil {
			return nil
		}
		c.Fields = append(c.Fields, TF{f.Name, x})
	}
	if t.Ret != nil {
		c.Ret = substT(t.Ret, m, fuel)
		if c.Ret == nil {
			return nil
		}
	}
	return c
}

// relT: equality relaxed by "⊥ on the right / ⊤ on the left absorbs", fields by name.
func relT(a, b *T) bool {
	if b.K == "bot" || a.K == "top" {
		return true
	}
	if a.K != b.K {
		return false
	}
	switch a.K {
	case "var":
		return a.Name == b.Name
	case "obj":
		if len(a.Fields) != len(b.Fields) {
			return false
		}
		for _, f := range a.Fields {
			found := false
			for _, g := range b.Fields {
				if g.Name == f.Name {
					found = relT(f.T, g.T)
					break
				}
			}
			if !found {
				return false
			}
		}
		return true
	}
	if len(a.Kids) != len(b.Kids) {
		return false
	}
	for i := range a.Kids {
		if !relT(a.Kids[i], b.Kids[i]) {
			return false
		}
	}
	if a.Ret != nil {
		return b.Ret != nil && relT(a.Ret, b.Ret)
	}
	return true
}
