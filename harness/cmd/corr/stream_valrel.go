package main

import (
	"fmt"
	"math"
	"math/rand"
	"time"

	"github.com/goghcrow/yae/fun"
	"github.com/goghcrow/yae/types"
	"github.com/goghcrow/yae/val"
)

// copyVal deep-copies a value (fresh pointers). With permute it also shuffles the field order of
// every object's own type: the copy is Equals-equal and must render and key identically.
func copyVal(r *rand.Rand, v *val.Val, permute bool) *val.Val {
	switch v.Type.Kind {
	case types.KNum:
		return val.Num(v.Num().V)
	case types.KStr:
		return val.Str(v.Str().V)
	case types.KBool:
		return val.Bool(v.Bool().V)
	case types.KTime:
		return val.Time(v.Time().V)
	case types.KList:
		l := val.List(v.Type.List(), 0).List()
		for _, x := range v.List().V {
			l.V = append(l.V, copyVal(r, x, permute))
		}
		return l.Vl()
	case types.KMap:
		m := val.Map(v.Type.Map()).Map()
		keys := make([]val.Key, 0)
		for k := range v.Map().V {
			keys = append(keys, k)
		}
		r.Shuffle(len(keys), func(i, j int) { keys[i], keys[j] = keys[j], keys[i] })
		for _, k := range keys {
			m.V[k] = copyVal(r, v.Map().V[k], permute)
		}
		return m.Vl()
	case types.KObj:
		fs := v.Type.Obj().Fields
		idx := make([]int, len(fs))
		for i := range idx {
			idx[i] = i
		}
		if permute {
			r.Shuffle(len(idx), func(i, j int) { idx[i], idx[j] = idx[j], idx[i] })
		}
		nfs := make([]types.Field, len(fs))
		vals := make([]*val.Val, len(fs))
		for j, i := range idx {
			vals[j] = copyVal(r, v.Obj().V[i], permute)
			nfs[j] = types.Field{Name: fs[i].Name, Val: vals[j].Type}
		}
		o := val.Obj(types.Obj(nfs).Obj()).Obj()
		copy(o.V, vals)
		return o.Vl()
	case types.KMaybe:
		if v.Maybe().V == nil {
			return val.Nothing(v.Type.Maybe().Elem)
		}
		c := copyVal(r, v.Maybe().V, permute)
		return val.Just(c.Type, c)
	}
	return v
}

// mutateLeaf changes one primitive leaf; returns false when there is none.
func mutateLeaf(r *rand.Rand, v *val.Val, how int) bool {
	switch v.Type.Kind {
	case types.KNum:
		x := v.Num().V
		switch how % 6 {
		case 0:
			v.Num().V = x + 1
		case 1:
			v.Num().V = x + 2e-9 // just beyond the tolerance
		case 2:
			v.Num().V = math.Nextafter(x, math.Inf(1)) // within the tolerance (for small x)
		case 3:
			v.Num().V = -x
		case 4:
			v.Num().V = x * 2
		case 5:
			v.Num().V = x + 5e-10 // within the tolerance
		}
		return true
	case types.KStr:
		v.Str().V = v.Str().V + []string{"x", "\"", "\\", " ", "é"}[how%5]
		return true
	case types.KTime:
		switch how % 3 {
		case 0:
			v.Time().V = v.Time().V.Add(time.Second)
		case 1:
			v.Time().V = v.Time().V.In(zonePool[how%len(zonePool)]) // same instant, other zone
		case 2:
			v.Time().V = v.Time().V.Add(time.Nanosecond)
		}
		return true
	case types.KList:
		for _, i := range r.Perm(len(v.List().V)) {
			if mutateLeaf(r, v.List().V[i], how) {
				return true
			}
		}
	case types.KObj:
		for _, i := range r.Perm(len(v.Obj().V)) {
			if mutateLeaf(r, v.Obj().V[i], how) {
				return true
			}
		}
	case types.KMap:
		for _, x := range v.Map().V {
			if mutateLeaf(r, x, how) {
				return true
			}
		}
	case types.KMaybe:
		if v.Maybe().V != nil {
			return mutateLeaf(r, v.Maybe().V, how)
		}
	}
	return false
}

// leaves walks two same-shaped values in parallel and classifies the pair: sep = every pair of
// numeric leaves is bit-identical or differs by more than the tolerance; nonfinite / zoneDiff /
// shapeDiff describe why the plain statement of C18 does not apply.
type pairInfo struct {
	sep, nonfinite, zoneDiff, shapeDiff, maybeOrder bool
}

func walkPair(a, b *val.Val, p *pairInfo) {
	if a == nil || b == nil || a.Type.Kind != b.Type.Kind {
		p.shapeDiff = true
		return
	}
	switch a.Type.Kind {
	case types.KNum:
		x, y := a.Num().V, b.Num().V
		if math.IsNaN(x) || math.IsInf(x, 0) || math.IsNaN(y) || math.IsInf(y, 0) {
			p.nonfinite = true
		}
		if math.Float64bits(x) != math.Float64bits(y) && val.NumEQ(a.Num(), b.Num()) {
			p.sep = false
		}
	case types.KTime:
		if a.Time().V.Equal(b.Time().V) && a.Time().V.String() != b.Time().V.String() {
			p.zoneDiff = true
		}
	case types.KList:
		if len(a.List().V) != len(b.List().V) {
			p.shapeDiff = true
			return
		}
		for i := range a.List().V {
			walkPair(a.List().V[i], b.List().V[i], p)
		}
	case types.KObj:
		if !types.Equals(a.Type, b.Type) {
			p.shapeDiff = true
			return
		}
		for i, f := range a.Type.Obj().Fields {
			w, _ := b.Obj().Get(f.Name)
			walkPair(a.Obj().V[i], w, p)
		}
	case types.KMap:
		if len(a.Map().V) != len(b.Map().V) {
			p.shapeDiff = true
			return
		}
		for k, x := range a.Map().V {
			y, ok := b.Map().V[k]
			if !ok {
				p.shapeDiff = true
				return
			}
			walkPair(x, y, p)
		}
	case types.KMaybe:
		if a.Type.String() != b.Type.String() {
			p.maybeOrder = true
		}
		if (a.Maybe().V == nil) != (b.Maybe().V == nil) {
			p.shapeDiff = true
			return
		}
		if a.Maybe().V != nil {
			walkPair(a.Maybe().V, b.Maybe().V, p)
		}
	}
}

func encKey(v *val.Val) string {
	if !v.Type.IsPrimitive() {
		return "-"
	}
	tag, text := val.KeyParts(v.Key())
	return sxList(tag, sxStr(text))
}

func valrelCase(r *rand.Rand, a, b *val.Val, tag string) (c Case) {
	// equality, rendering, keys and the set functions run on values built by the harness: a panic
	// in any of them is a finding about that pair, not a reason to lose the stream
	pre := "valrel[" + tag + "] " + safely(func() string { return encVal(a) + " ~ " + encVal(b) })
	if len(pre) > 600 {
		pre = pre[:600] + "…"
	}
	if guardBegin(pre) {
		return crashCase(pre)
	}
	defer func() {
		if r := recover(); r != nil {
			c = Case{Human: pre, Want: "panic", Tags: []string{"valrel:" + tag, "valrel:panic"}, Nontriv: true,
				Oracle: fmt.Sprintf("==, rendering, keying or union panics on this pair: %v", r), OracleID: "valrel-panic"}
		}
		guardEnd()
	}()
	c = Case{Tags: []string{"valrel:" + tag, "valrel:type:" + a.Type.Kind.String()}, Nontriv: true}
	c.Req = sxList("valrel", encVal(a), encVal(b))
	eq, qe := val.Equals(a, b), val.Equals(b, a)
	ra, rb := a.String(), b.String()
	sa := fun.STRING_ANY.Fun().Call(a).Str().V
	sb := fun.STRING_ANY.Fun().Call(b).Str().V
	// set membership through the union built-in on two singleton lists
	la := val.List(types.List(a.Type).List(), 0).List()
	la.V = []*val.Val{a}
	lb := val.List(types.List(a.Type).List(), 0).List()
	lb.V = []*val.Val{b}
	var un *val.Val
	captureStdout(func() { un = fun.UNION_LIST_LIST.Fun().Call(la.Vl(), lb.Vl()) })
	same := len(un.List().V) == 1
	c.Human = fmt.Sprintf("valrel[%s] %s ~ %s", tag, ra, rb)
	c.Want = sxList("ok", sxBool(eq), sxBool(qe), sxStr(ra), sxStr(rb), encKey(a), encKey(b), sxStr(sa), sxStr(sb), sxBool(same))
	if eq {
		c.Tags = append(c.Tags, "valrel:equal")
	} else {
		c.Tags = append(c.Tags, "valrel:different")
	}
	p := pairInfo{sep: true}
	walkPair(a, b, &p)
	sameKey := encKey(a) == encKey(b)
	switch {
	case eq != qe:
		c.Oracle, c.OracleID = "== is not symmetric", "valrel-symm"
	case p.shapeDiff:
		// different shapes: must be unequal, texts must differ
		if eq {
			c.Oracle, c.OracleID = "values of different shape are ==", "valrel-eq-shape"
		}
	case !p.sep:
		c.Tags = append(c.Tags, "valrel:within-tolerance")
	case p.nonfinite:
		c.Tags = append(c.Tags, "valrel:nonfinite")
		if !eq && ra == rb {
			c.Oracle, c.OracleID = "identical non-finite numbers render alike but are not ==", "valrel-nonfinite"
		}
	case eq != (ra == rb):
		c.OracleID = "valrel-eq-text"
		if p.zoneDiff {
			c.OracleID = "valrel-eq-text-timezone"
		} else if p.maybeOrder {
			c.OracleID = "valrel-eq-text-maybe-fieldorder"
		}
		c.Oracle = fmt.Sprintf("== is %v but the renderings are %q and %q", eq, ra, rb)
	case a.Type.IsPrimitive() && eq != sameKey:
		c.Oracle, c.OracleID = fmt.Sprintf("== is %v but the keys are %s and %s", eq, encKey(a), encKey(b)), "valrel-eq-key"
	case eq != same:
		c.Oracle, c.OracleID = fmt.Sprintf("== is %v but union keeps %d element(s)", eq, len(un.List().V)), "valrel-eq-set"
	}
	return c
}

func init() {
	register(&Stream{
		Name: "valrel",
		Rule: "pairs of values of equal type built directly as *val.Val over random types (depth<=3: numbers across 2^53 / 2^63 / tolerance edges / NaN / ±Inf, strings needing escapes, times in three zones, lists, maps, objects, optionals): a value and its deep copy, its copy with permuted object field order and map insertion order, a one-leaf mutant (number beyond / within tolerance, string, instant or zone), and unrelated pairs; compared: ==, both renderings, keys, string(), membership in union. Non-trivial = every pair; distinct = distinct request.",
		Gen: func(r *rand.Rand, n int, thorough bool) []Case {
			var cs []Case
			tg := &tyGen{r: r}
			vg := &valGen{r: r, special: true}
			for i := 0; i < n; i++ {
				t := tg.gen(1 + r.Intn(3))
				if !buildable(t) {
					continue
				}
				a := vg.gen(t, true)
				switch i % 5 {
				case 0:
					cs = append(cs, valrelCase(r, a, copyVal(r, a, false), "copy"))
				case 1:
					cs = append(cs, valrelCase(r, a, copyVal(r, a, true), "permuted"))
				case 2, 3:
					b := copyVal(r, a, i%2 == 0)
					if mutateLeaf(r, b, r.Intn(30)) {
						cs = append(cs, valrelCase(r, a, b, "mutant"))
					} else {
						cs = append(cs, valrelCase(r, a, b, "copy"))
					}
				case 4:
					cs = append(cs, valrelCase(r, a, vg.gen(t, true), "random"))
				}
				// a value referenced twice (a DAG, not a cycle) against two separate copies
				if i%7 == 0 && a.Type.Kind.IsComposite() {
					lt := types.List(a.Type).List()
					shared := val.List(lt, 0).List()
					shared.V = []*val.Val{a, a}
					sep := val.List(lt, 0).List()
					sep.V = []*val.Val{copyVal(r, a, false), copyVal(r, a, false)}
					cs = append(cs, valrelCase(r, shared.Vl(), sep.Vl(), "shared"))
				}
			}
			// strings that contain the renderer's own separators, inside composites
			mk := func(xs ...string) *val.Val {
				l := val.List(types.List(types.Str).List(), 0).List()
				for _, x := range xs {
					l.V = append(l.V, val.Str(x))
				}
				return l.Vl()
			}
			for _, p := range [][2]*val.Val{{mk("a, b"), mk("a", "b")}, {mk("x", "y: z"), mk("x, y", "z")}, {mk("[a]"), mk("a")}, {mk("a\"", "b"), mk("a", "\"b")}} {
				cs = append(cs, valrelCase(r, p[0], p[1], "separator-strings"))
			}
			// numbers: the boundary pool against itself
			for _, x := range hostNumPool {
				for _, y := range hostNumPool {
					cs = append(cs, valrelCase(r, val.Num(x), val.Num(y), "num-pool"))
				}
			}
			return cs
		},
	})
}
