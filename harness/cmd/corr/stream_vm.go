package main

import (
	"encoding/hex"
	"fmt"
	"math/rand"
	"strings"

	"github.com/goghcrow/yae/parser/ast"
	"github.com/goghcrow/yae/trans"
	"github.com/goghcrow/yae/types"
	"github.com/goghcrow/yae/val"
	"github.com/goghcrow/yae/vm"
)

var opNames = vm.OpcodeNames()

func opWidth(name string) int {
	switch name {
	case "OP_CONST", "OP_LOAD", "OP_NEW_OBJ", "OP_OBJ_LOAD", "OP_IF_TRUE", "OP_JUMP":
		return 3
	case "OP_NEW_LIST", "OP_NEW_MAP":
		return 5
	case "OP_CALL_BY_VALUE", "OP_CALL_BY_NEED":
		return 4
	case "OP_DYNAMIC_CALL":
		return 2
	}
	return 1
}

// thunkConsts walks the code and returns the constant indices that OP_CONST pushes.
func constOperands(code []byte) (pushed map[int]bool, ok bool) {
	pushed = map[int]bool{}
	for i := 0; i < len(code); {
		if int(code[i]) >= len(opNames) {
			return pushed, false
		}
		n := opNames[code[i]]
		w := opWidth(n)
		if i+w > len(code) {
			return pushed, false
		}
		if n == "OP_CONST" {
			pushed[int(code[i+1])<<8|int(code[i+2])] = true
		}
		i += w
	}
	return pushed, true
}

func hexCode(b []byte) string { return "x" + hex.EncodeToString(b) }

// encPool serialises the constant pool of a compilation (main code and all thunk bodies share
// it). full=true includes literal values (for comparison with the model compiler), false only
// what the verifier needs.
func encPool(code []byte, consts []interface{}, full bool) (string, [][]byte) {
	pushed := map[int]bool{}
	var bodies [][]byte
	var scan func(c []byte)
	seen := map[int]bool{}
	scan = func(c []byte) {
		p, _ := constOperands(c)
		for i := range p {
			pushed[i] = true
			if i < len(consts) && !seen[i] {
				if v, ok := consts[i].(*val.Val); ok && v != nil && v.Type != nil && v.Type.Kind == types.KFun {
					seen[i] = true
					body := vm.ThunkBody(v)
					bodies = append(bodies, body)
					scan(body)
				}
			}
		}
	}
	scan(code)
	xs := []string{}
	for i, c := range consts {
		switch x := c.(type) {
		case string:
			xs = append(xs, sxList("name", sxStr(x)))
		case *types.Type:
			xs = append(xs, sxList("type", encTy(x)))
		case *val.Val:
			switch {
			case x == nil:
				xs = append(xs, sxList("val", "nil"))
			case x.Type.Kind == types.KFun && pushed[i]:
				xs = append(xs, sxList("thunk", hexCode(vm.ThunkBody(x))))
			case x.Type.Kind == types.KFun:
				xs = append(xs, sxList("fun", sxBool(x.Fun().Lazy), sxStr(x.Type.Fun().Name)))
			case full:
				xs = append(xs, sxList("val", encVal(x)))
			default:
				xs = append(xs, sxList("val"))
			}
		default:
			if c == nil {
				xs = append(xs, sxList("name", sxStr("<nil>")))
			} else {
				xs = append(xs, sxList("other"))
			}
		}
	}
	return sxList(xs...), bodies
}

// vmCases: for one accepted program, (1) the model compiler must emit the same bytes and
// constants as vm.Compile, (2) the verified verifier must accept the bytes the Go compiler
// emitted, (3) the model machine must compute what the Go machine computes.
func vmCases(eng *engine, vars []envVar, vals map[string]*val.Val, src string, tag string) []Case {
	if guardBegin("vmrun " + src) {
		return []Case{crashCase("vmrun " + src)}
	}
	defer guardEnd()
	parsed, perr := parseSrc(src)
	if perr != nil {
		return nil
	}
	d := trans.Desugar(parsed)
	ty, cerr := checkExpr(eng, vars, d)
	if cerr != nil {
		return nil
	}
	return vmCasesExpr(eng, vars, vals, d, ty, src, tag)
}

func vmCasesExpr(eng *engine, vars []envVar, vals map[string]*val.Val, d ast.Expr, ty *types.Type, src string, tag string) []Case {
	var out []Case
	human := src
	if len(human) > 200 {
		human = human[:200] + fmt.Sprintf("…(%d bytes)", len(src))
	}
	var code []byte
	var consts []interface{}
	refused := ""
	func() {
		defer func() {
			if r := recover(); r != nil {
				refused = fmt.Sprint(r)
			}
		}()
		code, consts = vm.CodeOf(d, eng.renv)
	}()
	cc := Case{Human: "vmcode " + human, Tags: []string{tag}, Nontriv: true}
	cc.Req = sxList("vmcode", eng.funsx, encExpr(d))
	if refused != "" {
		cls := "unreachable"
		if strings.Contains(refused, "overflow") {
			cls = "overflow"
		} else if strings.Contains(refused, "not defined") {
			cls = "notdefined"
		}
		cc.Want = sxList("err", cls)
		cc.Tags = append(cc.Tags, "vmcode:refused:"+cls)
		if cls != "overflow" {
			cc.Oracle, cc.OracleID = "vm compiler fails on an accepted program: "+refused, "compile-internal-fault"
		}
		return append(out, cc)
	}
	pool, bodies := encPool(code, consts, true)
	cc.Want = sxList("ok", hexCode(code), pool, "true")
	cc.Tags = append(cc.Tags, "vmcode:ok", fmt.Sprintf("vmcode:len<%d", lenBucket(len(code))), fmt.Sprintf("vmcode:thunks=%d", min(len(bodies), 3)))
	out = append(out, cc)

	vc := Case{Human: "verify " + human, Tags: []string{tag, "verify"}, Nontriv: true}
	vpool, _ := encPool(code, consts, false)
	vc.Req = sxList("verify", hexCode(code), vpool)
	vc.Want = "(ok true)"
	out = append(out, vc)

	rc := Case{Human: "vmrun " + human, Tags: []string{tag, "vmrun"}, Nontriv: true}
	rc.Req = sxList("vmrun", eng.funsx, encVars(vars, vals), externsFor(d), encExpr(d))
	o := runBackend(backends[2], eng, d, vals, ty)
	if o.class == "ok" && o.wf != "" {
		rc.Oracle, rc.OracleID = "vm: "+o.wf, "wf"
	}
	rc.Want = o.line()
	out = append(out, rc)
	return out
}

// sharedCompilerCases: ONE vm.Compiler compiles several programs one after the other; afterwards
// every unit — the first as well as the last — must still be what it was: the verified verifier
// accepts its bytes against the pool as it is now, and running it gives what the closure back end
// gives.  (A Compiler is an exported object: nothing says it is good for one expression only.)
func sharedCompilerCases(eng *engine, vars []envVar, vals map[string]*val.Val, srcs []string, tag string) []Case {
	human := "shared vm.Compiler: " + strings.Join(srcs, "  ;  ")
	if len(human) > 300 {
		human = human[:300] + "…"
	}
	if guardBegin(human) {
		return []Case{crashCase(human)}
	}
	defer guardEnd()
	type unit struct {
		src string
		d   ast.Expr
		ty  *types.Type
		u   *vm.Unit
	}
	var units []unit
	comp := vm.NewCompile()
	var out []Case
	for _, src := range srcs {
		parsed, perr := parseSrc(src)
		if perr != nil {
			continue
		}
		d := trans.Desugar(parsed)
		ty, cerr := checkExpr(eng, vars, d)
		if cerr != nil {
			continue
		}
		var u *vm.Unit
		refused := ""
		func() {
			defer func() {
				if r := recover(); r != nil {
					refused = fmt.Sprint(r)
				}
			}()
			u = vm.CompileUnit(comp, d, eng.renv)
		}()
		if refused != "" {
			if !strings.Contains(refused, "overflow") {
				out = append(out, Case{Human: "vmcode[shared] " + src, Want: "refused", Tags: []string{tag}, Nontriv: true,
					Oracle: "a shared vm.Compiler fails on an accepted program: " + refused, OracleID: "compile-internal-fault"})
			}
			continue
		}
		units = append(units, unit{src, d, ty, u})
	}
	for i, un := range units {
		h := fmt.Sprintf("[shared #%d of %d] %s", i+1, len(units), un.src)
		code, consts := un.u.Code(), un.u.Consts()
		vc := Case{Human: "verify " + h, Tags: []string{tag, "verify", "shared-compiler"}, Nontriv: true}
		vpool, _ := encPool(code, consts, false)
		vc.Req = sxList("verify", hexCode(code), vpool)
		vc.Want = "(ok true)"
		out = append(out, vc)
		// behaviour: the unit run now against the closure back end
		rc := Case{Human: "vmrun " + h, Tags: []string{tag, "shared-compiler"}, Nontriv: true, Want: "same"}
		ref := runBackend(backends[0], eng, un.d, vals, un.ty)
		got := func() (o outcome) {
			env1 := val.NewEnv()
			for k, v := range vals {
				env1.Put(k, v)
			}
			var res *val.Val
			captureStdout(func() {
				defer func() {
					if r := recover(); r != nil {
						o.class = classifyPanic(r)
						o.msg = fmt.Sprint(r)
					}
				}()
				res = un.u.Run(env1.Inherit(eng.renv))
			})
			if o.class == "" {
				o.class = "ok"
				o.value = safely(func() string { return encVal(res) })
			}
			return
		}()
		if got.class != ref.class || (got.class == "ok" && got.value != ref.value) {
			rc.Want = "differs"
			rc.Oracle = fmt.Sprintf("a unit of a shared vm.Compiler, run after later units were compiled: vm %s %s %s, closure %s %s", got.class, got.value, got.msg, ref.class, ref.value)
			if len(rc.Oracle) > 600 {
				rc.Oracle = rc.Oracle[:600]
			}
			rc.OracleID = "compile-internal-fault"
		}
		out = append(out, rc)
	}
	return out
}

func lenBucket(n int) int {
	for _, b := range []int{16, 64, 256, 1024, 65536, 1 << 20} {
		if n < b {
			return b
		}
	}
	return 1 << 30
}

func min(a, b int) int {
	if a < b {
		return a
	}
	return b
}

// wideProgram builds literals and conditionals that exceed the 8-bit / initial-stack ranges.
func wideProgram(r *rand.Rand, kind int) string {
	var b strings.Builder
	switch kind % 6 {
	case 0: // list wider than 255
		n := 256 + r.Intn(50)
		b.WriteString("len([")
		for i := 0; i < n; i++ {
			if i > 0 {
				b.WriteString(",")
			}
			fmt.Fprintf(&b, "%d", i%7)
		}
		b.WriteString("])")
	case 1: // map wider than 255
		n := 256 + r.Intn(20)
		b.WriteString("len([")
		for i := 0; i < n; i++ {
			if i > 0 {
				b.WriteString(",")
			}
			fmt.Fprintf(&b, "%d:%d", i, i%3)
		}
		b.WriteString("])")
	case 2: // conditional spanning more than 255 bytes
		b.WriteString("if(b1, ")
		n := 60 + r.Intn(40)
		for i := 0; i < n; i++ {
			b.WriteString("n1 + ")
		}
		b.WriteString("1, ")
		for i := 0; i < n; i++ {
			b.WriteString("n2 * ")
		}
		b.WriteString("2)")
	case 3: // deep nesting beyond the initial stack of 42
		n := 45 + r.Intn(10)
		for i := 0; i < n; i++ {
			b.WriteString("[")
		}
		b.WriteString("n1")
		for i := 0; i < n; i++ {
			b.WriteString("]")
		}
	case 4: // wide object
		b.WriteString("{")
		n := 50 + r.Intn(30)
		for i := 0; i < n; i++ {
			if i > 0 {
				b.WriteString(",")
			}
			fmt.Fprintf(&b, "f%d: %d", i, i)
		}
		b.WriteString("}.f7")
	case 5: // many pending operands: right-nested additions
		n := 50 + r.Intn(30)
		for i := 0; i < n; i++ {
			b.WriteString("(1 + ")
		}
		b.WriteString("n1")
		for i := 0; i < n; i++ {
			b.WriteString(")")
		}
	}
	return b.String()
}

func hugeProgram(kind int) string {
	var b strings.Builder
	switch kind {
	case 0: // 65536 members: exceeds the 16-bit size operand
		b.WriteString("len([")
		for i := 0; i < 65536; i++ {
			if i > 0 {
				b.WriteString(",")
			}
			b.WriteString("1")
		}
		b.WriteString("])")
	case 1: // 65535 members: the largest list that fits (and 65536 constants: does not)
		b.WriteString("len([")
		for i := 0; i < 65535; i++ {
			if i > 0 {
				b.WriteString(",")
			}
			b.WriteString("n1")
		}
		b.WriteString("])")
	case 2: // conditional whose else branch starts beyond 65535
		b.WriteString("if(b1, len([")
		for i := 0; i < 22000; i++ {
			if i > 0 {
				b.WriteString(",")
			}
			b.WriteString("1")
		}
		b.WriteString("]), 2)")
	}
	return b.String()
}

func init() {
	register(&Stream{
		Name: "vm",
		Rule: "the eval stream's program generator (accepted programs only) plus wide programs (lists/maps >255 members, objects with 50-80 fields, conditionals spanning >255 bytes, nesting >42 deep, and in the thorough tier 65535/65536-member literals and jump targets beyond 65535): model compiler output == vm.Compile output (bytes and constant pool), the Lean verifier accepts the bytes the Go compiler emitted (thunk bodies included), model machine == Go machine. Non-trivial = accepted program; distinct = distinct request.",
		Gen: func(r *rand.Rand, n int, thorough bool) []Case {
			var cs []Case
			stats := map[string]int{}
			eng := newEngine(hostZoo)
			vals := genVals(r, envFamily)
			for _, p := range nearEqualConstPrograms {
				cs = append(cs, vmCases(eng, envFamily, vals, p, "prog:near-equal-constants")...)
			}
			for _, p := range fixedPrograms {
				cs = append(cs, vmCases(eng, envFamily, vals, p, "prog:fixed")...)
			}
			for i := 0; i < 12; i++ {
				cs = append(cs, vmCases(eng, envFamily, vals, wideProgram(r, i), "prog:wide")...)
			}
			// constant-index sweep: every kind of instruction operand at many pool indices (incl. >255)
			tails := []string{"!b1", "o.a", "tr(n1)", "n1", "\"s\"", "if(b1, 1, 2)", "lz(1, 2)", "xs[0]", "{p: 1}.p", "b1 && !b1", "get(mb, 1)"}
			for _, k := range []int{0, 3, 9, 17, 19, 20, 21, 23, 26, 29, 31, 32, 33, 47, 63, 64, 100, 127, 128, 200, 253, 254, 255, 256, 257, 275, 280, 290, 300} {
				var b strings.Builder
				b.WriteString("[")
				for i := 0; i < k; i++ {
					b.WriteString("true, ")
				}
				boolTails := []string{"!b1", "b1 && !b1", "(n1 == 1)", "!(n1 == n2)", "!(s1 != \"a\")"}
				b.WriteString(boolTails[k%len(boolTails)])
				b.WriteString("]")
				cs = append(cs, vmCases(eng, envFamily, vals, b.String(), "prog:const-sweep")...)
				var c strings.Builder
				c.WriteString("len([")
				for i := 0; i < k; i++ {
					c.WriteString("1, ")
				}
				c.WriteString("2]) + string(" + tails[k%len(tails)] + ").len()")
				cs = append(cs, vmCases(eng, envFamily, vals, c.String(), "prog:const-sweep")...)
			}
			if thorough {
				for k := 0; k < 3; k++ {
					cs = append(cs, vmCases(eng, envFamily, vals, hugeProgram(k), "prog:huge")...)
				}
			}
			for i := 0; i < n; i++ {
				if i%20 == 0 {
					eng = newEngine(pickHosts(r))
					vals = genVals(r, envFamily)
				}
				g := &progGen{r: r, vars: envFamily, hosts: eng.hosts, stats: stats, sugar: true}
				src := g.gen(targetTypes[r.Intn(len(targetTypes))], 1+r.Intn(4))
				cs = append(cs, vmCases(eng, envFamily, vals, src, "prog:typed")...)
				if i%25 == 7 {
					// one Compiler for a handful of programs (fixed ones with strings, names,
					// conditionals and lazy calls around the random one)
					batch := []string{`n1 * 2 + 1`, `s1 + "x"`, src, `if(b1, lz(n1, 2), len(xs)) + 1`, `{a: n1, b: s1}.b + "n1"`, g.gen(targetTypes[r.Intn(len(targetTypes))], 1+r.Intn(3))}
					cs = append(cs, sharedCompilerCases(eng, envFamily, vals, batch, "prog:shared-compiler")...)
				}
			}
			return cs
		},
	})
}
