package main

import (
	"encoding/hex"
	"fmt"
	"math"
	"strings"
)

// S-expression helpers for the line protocol (see lean/Yae/SExp.lean).

func sxStr(s string) string { return "$" + hex.EncodeToString([]byte(s)) }

// sxNum sends the bit pattern; NaN payloads are not observable in yae, so NaN travels as one
// canonical pattern on both sides.
func sxNum(f float64) string {
	if f != f {
		return "#7ff8000000000001"
	}
	return fmt.Sprintf("#%016x", math.Float64bits(f))
}

func sxBool(b bool) string {
	if b {
		return "true"
	}
	return "false"
}

func sxList(xs ...string) string { return "(" + strings.Join(xs, " ") + ")" }

func sxInt(i int) string { return fmt.Sprintf("%d", i) }
