package main

import (
	"encoding/hex"
	"fmt"
	"math"
	"strings"
)

// S-expression helpers for the line protocol (see lean/Yae/SExp.lean).

func sxStr(s string) string { return "$" + hex.EncodeToString([]byte(s)) }

func sxNum(f float64) string { return fmt.Sprintf("#%016x", math.Float64bits(f)) }

func sxBool(b bool) string {
	if b {
		return "true"
	}
	return "false"
}

func sxList(xs ...string) string { return "(" + strings.Join(xs, " ") + ")" }

func sxInt(i int) string { return fmt.Sprintf("%d", i) }
