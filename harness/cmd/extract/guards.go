package main

// Inventory of panic guards for C12: for the API layer (facade.go, conv, ext/sql.go, util/err.go)
// every function or function literal that installs a deferred recover — directly
// (defer func(){ recover() }()), or through a helper that itself calls recover()
// ((*Expr).backStrace, util.Recover) — and the helpers themselves.

import (
	"go/ast"
	"go/parser"
	"go/token"
	"os"
	"path/filepath"
	"sort"
	"strings"
)

type guardSite struct{ file, fun, how string }

func callsRecover(n ast.Node) bool {
	found := false
	ast.Inspect(n, func(m ast.Node) bool {
		if c, ok := m.(*ast.CallExpr); ok {
			if id, ok := c.Fun.(*ast.Ident); ok && id.Name == "recover" && len(c.Args) == 0 {
				found = true
			}
		}
		return !found
	})
	return found
}

func funcName(fd *ast.FuncDecl) string {
	if fd.Recv != nil && len(fd.Recv.List) == 1 {
		t := fd.Recv.List[0].Type
		if st, ok := t.(*ast.StarExpr); ok {
			t = st.X
		}
		if id, ok := t.(*ast.Ident); ok {
			return id.Name + "." + fd.Name.Name
		}
	}
	return fd.Name.Name
}

func panicGuards(root string) []guardSite {
	files := []string{"facade.go", "ext/sql.go", "util/err.go"}
	if ms, _ := filepath.Glob(filepath.Join(root, "conv", "*.go")); ms != nil {
		for _, m := range ms {
			if strings.HasSuffix(m, "_test.go") || strings.HasSuffix(m, "_verif.go") {
				continue
			}
			rel, _ := filepath.Rel(root, m)
			files = append(files, rel)
		}
	}
	fset := token.NewFileSet()
	parsed := map[string]*ast.File{}
	helpers := map[string]bool{} // functions whose body calls recover() directly (not in a nested literal)
	for _, rel := range files {
		if _, err := os.Stat(filepath.Join(root, rel)); err != nil {
			continue
		}
		f, err := parser.ParseFile(fset, filepath.Join(root, rel), nil, 0)
		if err != nil {
			panic(err)
		}
		parsed[rel] = f
		for _, d := range f.Decls {
			if fd, ok := d.(*ast.FuncDecl); ok && fd.Body != nil {
				direct := false
				ast.Inspect(fd.Body, func(m ast.Node) bool {
					if _, ok := m.(*ast.FuncLit); ok {
						return false
					}
					if c, ok := m.(*ast.CallExpr); ok {
						if id, ok := c.Fun.(*ast.Ident); ok && id.Name == "recover" {
							direct = true
						}
					}
					return true
				})
				if direct {
					helpers[fd.Name.Name] = true
				}
			}
		}
	}
	var out []guardSite
	for rel, f := range parsed {
		for _, d := range f.Decls {
			fd, ok := d.(*ast.FuncDecl)
			if !ok || fd.Body == nil {
				continue
			}
			name := funcName(fd)
			if helpers[fd.Name.Name] {
				out = append(out, guardSite{rel, name, "helper:recover"})
			}
			// defers in the function body and in the function literals it returns / contains
			var walk func(body *ast.BlockStmt, where string)
			walk = func(body *ast.BlockStmt, where string) {
				ast.Inspect(body, func(m ast.Node) bool {
					switch x := m.(type) {
					case *ast.FuncLit:
						walk(x.Body, where+"/closure")
						return false
					case *ast.DeferStmt:
						how := ""
						switch fn := x.Call.Fun.(type) {
						case *ast.FuncLit:
							if callsRecover(fn.Body) {
								how = "defer:literal"
							}
						case *ast.SelectorExpr:
							if helpers[fn.Sel.Name] {
								how = "defer:" + fn.Sel.Name
							}
						case *ast.Ident:
							if helpers[fn.Name] {
								how = "defer:" + fn.Name
							}
						}
						if how != "" {
							out = append(out, guardSite{rel, where, how})
						}
						return false
					}
					return true
				})
			}
			walk(fd.Body, name)
		}
	}
	sort.Slice(out, func(i, j int) bool {
		if out[i].file != out[j].file {
			return out[i].file < out[j].file
		}
		if out[i].fun != out[j].fun {
			return out[i].fun < out[j].fun
		}
		return out[i].how < out[j].how
	})
	return out
}

func guardsLean(root string) string {
	var b strings.Builder
	b.WriteString("/- REGENERATED from /repo by harness/cmd/extract on every run. Do not edit. -/\nnamespace Yae.Gen\n\n")
	b.WriteString("/-- panic guards of the API layer: (file, function[/closure], how the recover is installed) -/\n")
	b.WriteString("def panicGuards : List (String × String × String) := [\n")
	gs := panicGuards(root)
	for i, g := range gs {
		sep := ","
		if i == len(gs)-1 {
			sep = ""
		}
		b.WriteString("  (" + q(g.file) + ", " + q(g.fun) + ", " + q(g.how) + ")" + sep + "\n")
	}
	b.WriteString("]\n\nend Yae.Gen\n")
	return b.String()
}
