package main

// The lexer's regular expressions, read from the SOURCE of parser/lexer and parser/oper (they are
// string literals passed to regex(...) / regexp.MustCompile inside unexported code): the patterns
// of the literal rules in the order newLexicon registers them, keywordPostfix, idReg and the
// operator alphabet.

import (
	"go/ast"
	"go/parser"
	"go/token"
	"path/filepath"
	"strconv"
	"strings"
)

type lexPat struct{ kind, pattern string }

func stringLit(e ast.Expr) (string, bool) {
	switch x := e.(type) {
	case *ast.BasicLit:
		if x.Kind == token.STRING {
			s, err := strconv.Unquote(x.Value)
			return s, err == nil
		}
	case *ast.BinaryExpr: // "a" + "b"
		if x.Op == token.ADD {
			l, ok1 := stringLit(x.X)
			r, ok2 := stringLit(x.Y)
			return l + r, ok1 && ok2
		}
	}
	return "", false
}

func lexPatterns(root string) (rules []lexPat, named map[string]string) {
	named = map[string]string{}
	fset := token.NewFileSet()
	parse := func(rel string) *ast.File {
		f, err := parser.ParseFile(fset, filepath.Join(root, rel), nil, 0)
		if err != nil {
			panic(err)
		}
		return f
	}
	// the literal rules: every regex(token.X, "pattern") call of parser/lexer/factory.go in source
	// order (whatever function builds the lexicon: a rename or a split does not change the list)
	ast.Inspect(parse("parser/lexer/factory.go"), func(m ast.Node) bool {
		c, ok := m.(*ast.CallExpr)
		if !ok {
			return true
		}
		if id, ok := c.Fun.(*ast.Ident); ok && id.Name == "regex" && len(c.Args) == 2 {
			kind := "?"
			if sel, ok := c.Args[0].(*ast.SelectorExpr); ok {
				kind = sel.Sel.Name
			}
			if p, ok := stringLit(c.Args[1]); ok {
				rules = append(rules, lexPat{kind, p})
			} else {
				rules = append(rules, lexPat{kind, "<not a string literal>"})
			}
		}
		return true
	})
	// package-level: name = regexp.MustCompile("…") and string constants
	grab := func(rel string, names ...string) {
		want := map[string]bool{}
		for _, n := range names {
			want[n] = true
		}
		ast.Inspect(parse(rel), func(n ast.Node) bool {
			vs, ok := n.(*ast.ValueSpec)
			if !ok {
				return true
			}
			for i, nm := range vs.Names {
				if !want[nm.Name] || i >= len(vs.Values) {
					continue
				}
				v := vs.Values[i]
				if c, ok := v.(*ast.CallExpr); ok && len(c.Args) == 1 {
					v = c.Args[0]
				}
				if s, ok := stringLit(v); ok {
					named[nm.Name] = s
				} else {
					named[nm.Name] = "<not a string literal>"
				}
			}
			return true
		})
	}
	grab("parser/lexer/rule.go", "keywordPostfix")
	grab("parser/oper/operator.go", "operators", "idReg")
	return
}

func lexPatLean(root string) string {
	rules, named := lexPatterns(root)
	var b strings.Builder
	b.WriteString("/- REGENERATED from /repo by harness/cmd/extract on every run. Do not edit. -/\nnamespace Yae.Gen\n\n")
	b.WriteString("/-- the regular expressions of the literal rules, in the order `newLexicon` registers them\n(token kind constant, pattern as written in parser/lexer/factory.go) -/\n")
	b.WriteString("def lexPatterns : List (String × String) := [\n")
	for i, r := range rules {
		sep := ","
		if i == len(rules)-1 {
			sep = ""
		}
		b.WriteString("  (" + q(r.kind) + ", " + q(r.pattern) + ")" + sep + "\n")
	}
	b.WriteString("]\n\n")
	b.WriteString("/-- `keywordPostfix` (parser/lexer/rule.go) -/\ndef keywordPostfixPattern : String := " + q(named["keywordPostfix"]) + "\n")
	b.WriteString("/-- `idReg` (parser/oper/operator.go) -/\ndef identOpPattern : String := " + q(named["idReg"]) + "\n")
	b.WriteString("/-- `operators` (parser/oper/operator.go) -/\ndef operatorAlphabet : String := " + q(named["operators"]) + "\n")
	b.WriteString("\nend Yae.Gen\n")
	return b.String()
}
