// extract regenerates lean/Yae/Gen/*.lean from the packages of /repo as they are now: the
// tables are read from the running code (not parsed from its text), so renames and moves do not
// change them, while any change of content does.
package main

import (
	"fmt"
	"math"
	"os"
	"path/filepath"
	"regexp"
	"sort"
	"strings"

	"github.com/goghcrow/yae/conv"
	sqlext "github.com/goghcrow/yae/ext/sql"
	"github.com/goghcrow/yae/fun"
	"github.com/goghcrow/yae/parser/lexer"
	"github.com/goghcrow/yae/parser/oper"
	"github.com/goghcrow/yae/val"
	"github.com/goghcrow/yae/vm"
)

var reVar = regexp.MustCompile(`'([^\d\s,\[\]\(\)\{\}:]+?)\d+`)

func normSig(s string) string { return reVar.ReplaceAllString(s, "'$1") }

func q(s string) string {
	var b strings.Builder
	b.WriteByte('"')
	for _, r := range s {
		switch {
		case r == '"':
			b.WriteString(`\"`)
		case r == '\\':
			b.WriteString(`\\`)
		case r < 0x20 || r == 0x7f:
			fmt.Fprintf(&b, `\x%02x`, r)
		default:
			b.WriteRune(r)
		}
	}
	b.WriteByte('"')
	return b.String()
}

func writeIfChanged(path, content string) {
	old, err := os.ReadFile(path)
	if err == nil && string(old) == content {
		return
	}
	if err := os.MkdirAll(filepath.Dir(path), 0755); err != nil {
		panic(err)
	}
	if err := os.WriteFile(path, []byte(content), 0644); err != nil {
		panic(err)
	}
}

func main() {
	if len(os.Args) < 2 {
		fmt.Fprintln(os.Stderr, "usage: extract <lean/Yae/Gen dir>")
		os.Exit(2)
	}
	dir := os.Args[1]
	hdr := "/- REGENERATED from /repo by harness/cmd/extract on every run. Do not edit. -/\nnamespace Yae.Gen\n\n"

	// built-in functions in registration order
	var b strings.Builder
	b.WriteString(hdr)
	b.WriteString("/-- `fun.BuiltIn()`: rendered signature (type-variable counters stripped) and laziness -/\n")
	b.WriteString("def builtinSigs : List (String × Bool) := [\n")
	for i, f := range fun.BuiltIn() {
		sep := ","
		if i == len(fun.BuiltIn())-1 {
			sep = ""
		}
		fmt.Fprintf(&b, "  (%s, %v)%s\n", q(normSig(f.Type.String())), f.Fun().Lazy, sep)
	}
	b.WriteString("]\n\nend Yae.Gen\n")
	writeIfChanged(filepath.Join(dir, "Builtins.lean"), b.String())

	// reserved words
	b.Reset()
	b.WriteString(hdr)
	b.WriteString("def reservedWords : List String := [")
	for i, w := range lexer.ReservedWords() {
		if i > 0 {
			b.WriteString(", ")
		}
		b.WriteString(q(w))
	}
	b.WriteString("]\n\nend Yae.Gen\n")
	writeIfChanged(filepath.Join(dir, "Reserved.lean"), b.String())

	// opcodes and intrinsics
	b.Reset()
	b.WriteString(hdr)
	b.WriteString("def opcodeNames : List String := [")
	for i, n := range vm.OpcodeNames() {
		if i > 0 {
			b.WriteString(", ")
		}
		b.WriteString(q(n))
	}
	b.WriteString("]\n\n")
	byVal, byNeed := vm.IntrinsicTables()
	type pair struct{ sig, op string }
	var ps []pair
	for f, op := range byVal {
		ps = append(ps, pair{normSig(f.Type.String()), op})
	}
	sort.Slice(ps, func(i, j int) bool { return ps[i].sig < ps[j].sig })
	b.WriteString("/-- call-by-value intrinsics: function signature ↦ opcode, sorted by signature -/\n")
	b.WriteString("def intrinsicsByValue : List (String × String) := [\n")
	for i, p := range ps {
		sep := ","
		if i == len(ps)-1 {
			sep = ""
		}
		fmt.Fprintf(&b, "  (%s, %s)%s\n", q(p.sig), q(p.op), sep)
	}
	b.WriteString("]\n\n")
	var ns []string
	for _, f := range byNeed {
		ns = append(ns, normSig(f.Type.String()))
	}
	sort.Strings(ns)
	b.WriteString("/-- call-by-need intrinsics (compiled to jumps), sorted -/\ndef intrinsicsByNeed : List String := [")
	for i, n := range ns {
		if i > 0 {
			b.WriteString(", ")
		}
		b.WriteString(q(n))
	}
	b.WriteString("]\n\nend Yae.Gen\n")
	writeIfChanged(filepath.Join(dir, "Opcodes.lean"), b.String())

	// constants and the built-in operator table
	b.Reset()
	b.WriteString(hdr)
	fmt.Fprintf(&b, "def epsilonBits : UInt64 := 0x%016x\n", math.Float64bits(val.EpsilonHook))
	fmt.Fprintf(&b, "def stackInit : Nat := %d\n", vm.StackInitHook)
	fmt.Fprintf(&b, "def stackGrow : Nat := %d\n", vm.StackGrowHook)
	fmt.Fprintf(&b, "def callThreadLimit : Nat := %d\n", vm.LimitHook)
	fmt.Fprintf(&b, "def maxLevel : Nat := %d\n\n", conv.MaxLevelHook)
	b.WriteString("/-- `oper.BuiltIn()`: kind, binding power (float32 widened, as bits), fixity -/\n")
	b.WriteString("def builtinOperators : List (String × UInt64 × Nat) := [\n")
	ops := oper.BuiltIn()
	for i, o := range ops {
		sep := ","
		if i == len(ops)-1 {
			sep = ""
		}
		fmt.Fprintf(&b, "  (%s, 0x%016x, %d)%s\n", q(string(o.Kind)), math.Float64bits(float64(o.BP)), int(o.Fixity), sep)
	}
	b.WriteString("]\n\n")
	fmt.Fprintf(&b, "def bpCond : UInt64 := 0x%016x\n", math.Float64bits(float64(oper.BP_COND)))
	fmt.Fprintf(&b, "def bpCall : UInt64 := 0x%016x\n", math.Float64bits(float64(oper.BP_CALL)))
	fmt.Fprintf(&b, "def bpMember : UInt64 := 0x%016x\n", math.Float64bits(float64(oper.BP_MEMBER)))
	b.WriteString("\nend Yae.Gen\n")
	writeIfChanged(filepath.Join(dir, "Consts.lean"), b.String())

	// the SQL function table: signature, what the formatter makes of placeholder arguments, and
	// the precedence of the logical connectives
	b.Reset()
	b.WriteString(hdr)
	b.WriteString("/-- `sql.BuiltIn()` in registration order: rendered signature, the text the registered\n")
	b.WriteString("formatter produces for the arguments `<0>`, `<1>`, … and, for a logical connective, its\n")
	b.WriteString("precedence in `logicalFunPrecTbl` (float32 widened, as bits) -/\n")
	b.WriteString("def sqlFuns : List (String × String × Option UInt64) := [\n")
	precs := sqlext.LogicalPrecHook()
	sfs := sqlext.BuiltIn()
	for i, f := range sfs {
		sep := ","
		if i == len(sfs)-1 {
			sep = ""
		}
		n := len(f.Fun().Type.Fun().Param)
		args := make([]*val.Val, n)
		for j := range args {
			args[j] = val.Str(fmt.Sprintf("<%d>", j))
		}
		out := f.Fun().Call(args...).Str().V
		prec := "none"
		if bp, ok := precs[f]; ok {
			prec = fmt.Sprintf("some 0x%016x", math.Float64bits(float64(bp)))
		}
		fmt.Fprintf(&b, "  (%s, %s, %s)%s\n", q(normSig(f.Type.String())), q(out), prec, sep)
	}
	b.WriteString("]\n\nend Yae.Gen\n")
	writeIfChanged(filepath.Join(dir, "Sql.lean"), b.String())

	writeIfChanged(filepath.Join(dir, "LexPatterns.lean"), lexPatLean(repoRoot()))
	writeIfChanged(filepath.Join(dir, "Guards.lean"), guardsLean(repoRoot()))
	writeIfChanged(filepath.Join(dir, "Shared.lean"), sharedLean(repoRoot()))
}

// repoRoot: /repo for every registered command; VERIF_REPO is set only by the mutation drill
// (bin/iso-seed), whose private harness copy is built against a scratch worktree.
func repoRoot() string {
	if r := os.Getenv("VERIF_REPO"); r != "" {
		return r
	}
	return "/repo"
}
