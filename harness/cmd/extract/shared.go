package main

import (
	"fmt"
	"go/ast"
	"go/parser"
	"go/token"
	"os"
	"path/filepath"
	"sort"
	"strings"
)

// sharedWrites scans the non-test, non-hook sources of /repo for write sites, outside init
// functions and package-level initialisers, whose target is shared between calls of the API:
//   - a package-level variable (assignment, inc/dec, element or field store), or
//   - a variable captured by a closure that is stored in a package-level variable (state such
//     as the counter behind types.TyVar).
//
// Each site is classified by how it is protected: "mutex" (lexically between a Lock and an
// Unlock call of the same function), "atomic" (an atomic.* call on its address) or "plain".
// The result is the inventory that lean/Yae/Props/C14.lean is instantiated with.
type sharedSite struct{ pkg, name, guard string }

func sharedWrites(root string) []sharedSite {
	var sites []sharedSite
	seen := map[string]bool{}
	add := func(pkg, name, guard string) {
		k := pkg + "\x00" + name + "\x00" + guard
		if !seen[k] {
			seen[k] = true
			sites = append(sites, sharedSite{pkg, name, guard})
		}
	}
	filepath.Walk(root, func(path string, info os.FileInfo, err error) error {
		if err != nil {
			return nil
		}
		if info.IsDir() {
			if info.Name() == ".git" || info.Name() == "test" {
				return filepath.SkipDir
			}
			return nil
		}
		if !strings.HasSuffix(path, ".go") || strings.HasSuffix(path, "_test.go") || strings.HasSuffix(path, "hook_verif.go") {
			return nil
		}
		fset := token.NewFileSet()
		f, err := parser.ParseFile(fset, path, nil, 0)
		if err != nil {
			return nil
		}
		rel, _ := filepath.Rel(root, filepath.Dir(path))
		pkgVars := map[*ast.Object]bool{}
		captured := map[*ast.Object]bool{} // declared inside a func literal of a package-level initialiser
		for _, d := range f.Decls {
			gd, ok := d.(*ast.GenDecl)
			if !ok || gd.Tok != token.VAR {
				continue
			}
			for _, sp := range gd.Specs {
				vs := sp.(*ast.ValueSpec)
				for _, n := range vs.Names {
					if n.Obj != nil {
						pkgVars[n.Obj] = true
					}
				}
				for _, v := range vs.Values {
					// variables declared directly in the outer function literal of the initialiser
					ast.Inspect(v, func(n ast.Node) bool {
						fl, ok := n.(*ast.FuncLit)
						if !ok {
							return true
						}
						for _, st := range fl.Body.List {
							switch s := st.(type) {
							case *ast.AssignStmt:
								if s.Tok == token.DEFINE {
									for _, l := range s.Lhs {
										if id, ok := l.(*ast.Ident); ok && id.Obj != nil {
											captured[id.Obj] = true
										}
									}
								}
							case *ast.DeclStmt:
								if g, ok := s.Decl.(*ast.GenDecl); ok {
									for _, sp := range g.Specs {
										if vs, ok := sp.(*ast.ValueSpec); ok {
											for _, id := range vs.Names {
												if id.Obj != nil {
													captured[id.Obj] = true
												}
											}
										}
									}
								}
							}
						}
						return false
					})
				}
			}
		}
		rootIdent := func(e ast.Expr) *ast.Ident {
			for {
				switch x := e.(type) {
				case *ast.Ident:
					return x
				case *ast.IndexExpr:
					e = x.X
				case *ast.SelectorExpr:
					e = x.X
				case *ast.StarExpr:
					e = x.X
				case *ast.ParenExpr:
					e = x.X
				default:
					return nil
				}
			}
		}
		shared := func(id *ast.Ident) bool {
			return id != nil && id.Obj != nil && (pkgVars[id.Obj] || captured[id.Obj])
		}
		// visit returned/nested closures of initialisers and all ordinary functions
		var visitBody func(body *ast.BlockStmt, depth int, inInitialiser bool)
		visitBody = func(body *ast.BlockStmt, depth int, inInitialiser bool) {
			if body == nil {
				return
			}
			locked := false
			for _, st := range body.List {
				ast.Inspect(st, func(n ast.Node) bool {
					switch x := n.(type) {
					case *ast.FuncLit:
						visitBody(x.Body, depth+1, inInitialiser)
						return false
					case *ast.CallExpr:
						if sel, ok := x.Fun.(*ast.SelectorExpr); ok {
							switch sel.Sel.Name {
							case "Lock":
								locked = true
							case "Unlock":
								locked = false
							}
							if id, ok := sel.X.(*ast.Ident); ok && id.Name == "atomic" {
								for _, a := range x.Args {
									if u, ok := a.(*ast.UnaryExpr); ok && u.Op == token.AND {
										if r := rootIdent(u.X); shared(r) {
											add(rel, r.Name, "atomic")
										}
									}
								}
							}
						}
					case *ast.AssignStmt:
						if x.Tok == token.DEFINE {
							return true
						}
						for _, l := range x.Lhs {
							r := rootIdent(l)
							if !shared(r) {
								continue
							}
							// the outer literal of an initialiser runs once at start-up
							if inInitialiser && depth == 0 {
								continue
							}
							g := "plain"
							if locked {
								g = "mutex"
							}
							add(rel, r.Name, g)
						}
					case *ast.IncDecStmt:
						r := rootIdent(x.X)
						if shared(r) && !(inInitialiser && depth == 0) {
							g := "plain"
							if locked {
								g = "mutex"
							}
							add(rel, r.Name, g)
						}
					}
					return true
				})
			}
		}
		for _, d := range f.Decls {
			switch x := d.(type) {
			case *ast.FuncDecl:
				if x.Name.Name == "init" && x.Recv == nil {
					continue
				}
				visitBody(x.Body, 1, false)
			case *ast.GenDecl:
				if x.Tok != token.VAR {
					continue
				}
				for _, sp := range x.Specs {
					for _, v := range sp.(*ast.ValueSpec).Values {
						ast.Inspect(v, func(n ast.Node) bool {
							if fl, ok := n.(*ast.FuncLit); ok {
								visitBody(fl.Body, 0, true)
								return false
							}
							return true
						})
					}
				}
			}
		}
		return nil
	})
	sort.Slice(sites, func(i, j int) bool {
		a, b := sites[i], sites[j]
		if a.pkg != b.pkg {
			return a.pkg < b.pkg
		}
		if a.name != b.name {
			return a.name < b.name
		}
		return a.guard < b.guard
	})
	return sites
}

func sharedLean(root string) string {
	var b strings.Builder
	b.WriteString("/- REGENERATED from /repo by harness/cmd/extract on every run. Do not edit. -/\nnamespace Yae.Gen\n\n")
	b.WriteString("/-- write sites to state shared between API calls: (package, variable, guard) -/\n")
	b.WriteString("def sharedWrites : List (String × String × String) := [\n")
	ss := sharedWrites(root)
	for i, s := range ss {
		sep := ","
		if i == len(ss)-1 {
			sep = ""
		}
		fmt.Fprintf(&b, "  (%s, %s, %s)%s\n", q(s.pkg), q(s.name), q(s.guard), sep)
	}
	b.WriteString("]\n\nend Yae.Gen\n")
	return b.String()
}
