// racecheck is built with -race: it is the search for a failing schedule of property C14.
// (1) one compiled expression is invoked from many goroutines at once, (2) separate engines
// compile concurrently, (3) one engine that has finished its first compilation compiles
// concurrently; every outcome is compared with the outcome of the same operation run alone.
// The race detector's reports go to stderr ("WARNING: DATA RACE") and set the exit code.
package main

import (
	"encoding/json"
	"flag"
	"fmt"
	"math/rand"
	"os"
	"sync"
	"time"

	"github.com/goghcrow/yae"
	"github.com/goghcrow/yae/types"
	"github.com/goghcrow/yae/val"
)

type env struct {
	N1 float64            `yae:"n1"`
	S1 string             `yae:"s1"`
	B1 bool               `yae:"b1"`
	Xs []float64          `yae:"xs"`
	M  map[string]float64 `yae:"m"`
	T1 time.Time          `yae:"t1"`
}

var programs = []string{
	`n1 + 1`,
	`len(xs) + len(s1) + len(m)`,
	`if(b1, n1, 2) * 3`,
	`b1 && n1 > 1 || !b1`,
	`[1, 2, n1] == xs`,
	`union(xs, [1, 2, 3])`,
	`string(m) + s1`,
	`get(xs, 1, 0) + get(m, "k1", 7)`,
	`{a: n1, b: s1}.a + max(xs)`,
	`["k": n1]["k"] + xs[0]`,
	`strtotime("2020-01-02") < t1`,
	`lz(n1, 2) + tr(3)`,
	`string([xs, xs])`,
	`match("a+", s1)`,
	`xs[5]`,
	`n1 % 0`,
	`1 +`,
	`n1 + "x"`,
}

func describe(v *val.Val, err error) string {
	if err != nil {
		return "error: " + err.Error()
	}
	return v.String() + " : " + v.Type.String()
}

func hostFuns() []*val.Val {
	tr := val.Fun(types.Fun("tr", []*types.Type{types.Num}, types.Num), func(a ...*val.Val) *val.Val { return a[0] })
	lz := val.LazyFun(types.Fun("lz", []*types.Type{types.Num, types.Num}, types.Num), func(a ...*val.Val) *val.Val { return a[0].Fun().Call() })
	return []*val.Val{tr, lz}
}

func newEngine() *yae.Expr { return yae.NewExpr().RegisterFun(hostFuns()...) }

type result struct {
	Evaluations int      `json:"evaluations"`
	Distinct    int      `json:"distinct_nontrivial"`
	Mismatches  []string `json:"mismatches"`
	Samples     []string `json:"samples"`
	Goroutines  int      `json:"goroutines"`
}

func main() {
	seed := flag.Int64("seed", 1, "seed")
	gor := flag.Int("goroutines", 16, "goroutines")
	iters := flag.Int("iters", 200, "iterations per goroutine")
	out := flag.String("out", "", "summary path")
	flag.Parse()
	r := rand.New(rand.NewSource(*seed))
	e := env{N1: 2.5, S1: "aaa", B1: true, Xs: []float64{1, 2, 2.5}, M: map[string]float64{"k1": 1, "k2": 2}, T1: time.Unix(1600000000, 0).UTC()}
	res := result{Goroutines: *gor}
	var mu sync.Mutex
	mismatch := func(s string) {
		mu.Lock()
		if len(res.Mismatches) < 20 {
			res.Mismatches = append(res.Mismatches, s)
		}
		mu.Unlock()
	}
	// sequential reference outcomes
	seq := map[string]string{}
	compileErr := map[string]string{}
	for _, p := range programs {
		c, err := newEngine().Compile(p, e)
		if err != nil {
			compileErr[p] = err.Error()
			continue
		}
		seq[p] = describe(c(e))
	}
	count := 0
	// (1) one callable, many goroutines
	for _, p := range programs {
		c, err := newEngine().Compile(p, e)
		if err != nil {
			continue
		}
		var wg sync.WaitGroup
		for g := 0; g < *gor; g++ {
			wg.Add(1)
			off := time.Duration(r.Intn(200)) * time.Microsecond
			go func() {
				defer wg.Done()
				time.Sleep(off)
				for i := 0; i < *iters/10+1; i++ {
					if got := describe(c(e)); got != seq[p] {
						mismatch(fmt.Sprintf("invoke %q concurrently: %s, alone: %s", p, got, seq[p]))
					}
				}
			}()
			count += *iters/10 + 1
		}
		wg.Wait()
	}
	// (2) separate engines compile (and run) concurrently; (3) one warmed-up engine shared
	shared := newEngine()
	if _, err := shared.Compile("1", e); err != nil {
		mismatch("warm-up compile failed: " + err.Error())
	}
	var wg sync.WaitGroup
	for g := 0; g < *gor; g++ {
		wg.Add(1)
		gr := rand.New(rand.NewSource(*seed*1000 + int64(g)))
		go func() {
			defer wg.Done()
			time.Sleep(time.Duration(gr.Intn(300)) * time.Microsecond)
			for i := 0; i < *iters; i++ {
				p := programs[gr.Intn(len(programs))]
				eng := shared
				if gr.Intn(2) == 0 {
					eng = newEngine()
				}
				c, err := eng.Compile(p, e)
				if err != nil {
					if compileErr[p] == "" {
						mismatch(fmt.Sprintf("compile %q concurrently fails: %v; alone it succeeds", p, err))
					}
					continue
				}
				if compileErr[p] != "" {
					mismatch(fmt.Sprintf("compile %q concurrently succeeds; alone: %s", p, compileErr[p]))
					continue
				}
				if got := describe(c(e)); got != seq[p] {
					mismatch(fmt.Sprintf("compile+invoke %q concurrently: %s, alone: %s", p, got, seq[p]))
				}
			}
		}()
		count += *iters
	}
	wg.Wait()
	res.Evaluations = count
	res.Distinct = len(programs)
	for _, p := range programs[:6] {
		res.Samples = append(res.Samples, fmt.Sprintf("%q => %s%s", p, seq[p], compileErr[p]))
	}
	if *out != "" {
		b, _ := json.MarshalIndent(res, "", " ")
		os.WriteFile(*out, b, 0644)
	}
	fmt.Printf("racecheck evaluations=%d mismatches=%d\n", res.Evaluations, len(res.Mismatches))
	if len(res.Mismatches) > 0 {
		for _, m := range res.Mismatches {
			fmt.Println("  MISMATCH", m)
		}
		os.Exit(3)
	}
}
