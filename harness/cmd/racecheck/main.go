// racecheck is built with -race: it is the search for a failing schedule of property C14.
// (1) one compiled expression is invoked from many goroutines at once, (2) separate engines
// compile concurrently, (3) one engine that has finished its first compilation compiles
// concurrently; every outcome is compared with the outcome of the same operation run alone.
// Every scenario runs on the three compilers (bytecode, closure, AST interpreter); the goroutines
// of scenario (1) use DIFFERENT environments on the same compiled expression (so a value leaking
// from one invocation into another shows as a wrong outcome, not only as a race report); scenario
// (4): one parsed tree compiled concurrently on a warmed-up engine against different type
// environments.  The race detector's reports go to stderr ("WARNING: DATA RACE") and set the exit code.
package main

import (
	"encoding/json"
	"flag"
	"fmt"
	"math/rand"
	"os"
	"sync"
	"time"

	"github.com/goghcrow/yae"
	"github.com/goghcrow/yae/conv"
	"github.com/goghcrow/yae/interp"
	"github.com/goghcrow/yae/parser/ast"
	"github.com/goghcrow/yae/parser/oper"
	"github.com/goghcrow/yae/types"
	"github.com/goghcrow/yae/val"
)

type env struct {
	N1 float64            `yae:"n1"`
	S1 string             `yae:"s1"`
	B1 bool               `yae:"b1"`
	Xs []float64          `yae:"xs"`
	M  map[string]float64 `yae:"m"`
	T1 time.Time          `yae:"t1"`
}

var programs = []string{
	`n1 + 1`,
	`len(xs) + len(s1) + len(m)`,
	`if(b1, n1, 2) * 3`,
	`b1 && n1 > 1 || !b1`,
	`[1, 2, n1] == xs`,
	`union(xs, [1, 2, 3])`,
	`string(m) + s1`,
	`get(xs, 1, 0) + get(m, "k1", 7)`,
	`{a: n1, b: s1}.a + max(xs)`,
	`["k": n1]["k"] + xs[0]`,
	`strtotime("2020-01-02") < t1`,
	`lz(n1, 2) + tr(3)`,
	`string([xs, xs])`,
	`match("a+", s1)`,
	`xs[5]`,
	`n1 % 0`,
	`1 +`,
	`n1 + "x"`,
}

func describe(v *val.Val, err error) string {
	if err != nil {
		return "error: " + err.Error()
	}
	return v.String() + " : " + v.Type.String()
}

func hostFuns() []*val.Val {
	tr := val.Fun(types.Fun("tr", []*types.Type{types.Num}, types.Num), func(a ...*val.Val) *val.Val { return a[0] })
	lz := val.LazyFun(types.Fun("lz", []*types.Type{types.Num, types.Num}, types.Num), func(a ...*val.Val) *val.Val { return a[0].Fun().Call() })
	return []*val.Val{tr, lz}
}

var compilers = []string{"vm", "closure", "interp"}

func newEngineWith(comp string) *yae.Expr {
	e := yae.NewExpr().RegisterFun(hostFuns()...)
	switch comp {
	case "closure":
		e.UseClosureCompiler()
	case "interp":
		e.UseCompiler(interp.Interp)
	}
	return e
}

func newEngine() *yae.Expr { return newEngineWith("vm") }

// envVariant: the environment goroutine g uses (same Go type, different contents)
func envVariant(g int) env {
	k := float64(g)
	return env{N1: 2.5 + k, S1: "aaa"[:1+g%3], B1: g%2 == 0, Xs: []float64{1 + k, 2, 2.5 + k},
		M: map[string]float64{"k1": 1 + k, "k2": 2}, T1: time.Unix(1600000000+int64(g)*86400*400, 0).UTC()}
}

// programs for scenario (4): well typed whatever the type of x is
var polyPrograms = []string{
	`[x, x]`, `string(x)`, `x == x`, `kind(x)`, `{a: x, b: [x]}.b`, `["k": x]["k"]`, `if(x == x, x, x)`, `len([x, x, x])`,
}

type envNum struct {
	X float64 `yae:"x"`
}
type envStr struct {
	X string `yae:"x"`
}
type envList struct {
	X []float64 `yae:"x"`
}

func kindFuns() []*val.Val {
	mk := func(t *types.Type, name string) *val.Val {
		return val.Fun(types.Fun("kind", []*types.Type{t}, types.Str), func(a ...*val.Val) *val.Val { return val.Str(name) })
	}
	return []*val.Val{mk(types.Num, "num"), mk(types.Str, "str"), mk(types.List(types.Num), "list")}
}

type result struct {
	Evaluations int      `json:"evaluations"`
	Distinct    int      `json:"distinct_nontrivial"`
	Mismatches  []string `json:"mismatches"`
	Samples     []string `json:"samples"`
	Goroutines  int      `json:"goroutines"`
}

func main() {
	seed := flag.Int64("seed", 1, "seed")
	gor := flag.Int("goroutines", 16, "goroutines")
	iters := flag.Int("iters", 200, "iterations per goroutine")
	out := flag.String("out", "", "summary path")
	flag.Parse()
	r := rand.New(rand.NewSource(*seed))
	e := env{N1: 2.5, S1: "aaa", B1: true, Xs: []float64{1, 2, 2.5}, M: map[string]float64{"k1": 1, "k2": 2}, T1: time.Unix(1600000000, 0).UTC()}
	res := result{Goroutines: *gor}
	var mu sync.Mutex
	mismatch := func(s string) {
		mu.Lock()
		if len(res.Mismatches) < 20 {
			res.Mismatches = append(res.Mismatches, s)
		}
		mu.Unlock()
	}
	// sequential reference outcomes
	seq := map[string]string{}
	compileErr := map[string]string{}
	for _, comp := range compilers {
		for _, p := range programs {
			c, err := newEngineWith(comp).Compile(p, e)
			if err != nil {
				compileErr[comp+"|"+p] = err.Error()
				continue
			}
			seq[comp+"|"+p] = describe(c(e))
		}
	}
	count := 0
	// (1) one callable, many goroutines, each with its own environment contents
	for _, comp := range compilers {
		for _, p := range programs {
			c, err := newEngineWith(comp).Compile(p, e)
			if err != nil {
				continue
			}
			// what each goroutine's environment gives when evaluated alone (fresh engine)
			alone := make([]string, *gor)
			envs := make([]env, *gor)
			for g := 0; g < *gor; g++ {
				envs[g] = envVariant(g)
				c1, err1 := newEngineWith(comp).Compile(p, envs[g])
				if err1 != nil {
					alone[g] = "compile error: " + err1.Error()
					continue
				}
				alone[g] = describe(c1(envs[g]))
			}
			var wg sync.WaitGroup
			for g := 0; g < *gor; g++ {
				wg.Add(1)
				off := time.Duration(r.Intn(200)) * time.Microsecond
				g := g
				go func() {
					defer wg.Done()
					time.Sleep(off)
					for i := 0; i < *iters/30+1; i++ {
						if got := describe(c(envs[g])); got != alone[g] {
							mismatch(fmt.Sprintf("[%s] invoke %q concurrently with environment #%d: %s, alone: %s", comp, p, g, got, alone[g]))
						}
					}
				}()
				count += *iters/30 + 1
			}
			wg.Wait()
		}
	}
	// (5) one callable over object values whose own types list the fields in different orders
	// (equal types, different storage order), from many goroutines
	{
		type ab struct {
			A float64 `yae:"a"`
			B float64 `yae:"b"`
		}
		type ba struct {
			B float64 `yae:"b"`
			A float64 `yae:"a"`
		}
		type hostAB struct {
			O ab `yae:"o"`
		}
		type hostBA struct {
			O ba `yae:"o"`
		}
		for _, comp := range compilers {
			for _, p := range []string{`o.a * 10 + o.b`, `[o.b, o.a][0] + o.a`, `string(o) + string(o.a)`} {
				c, err := newEngineWith(comp).Compile(p, hostAB{ab{1, 2}})
				if err != nil {
					mismatch(fmt.Sprintf("[%s] compile %q fails: %v", comp, p, err))
					continue
				}
				hosts := []interface{}{hostAB{ab{1, 2}}, hostBA{ba{2, 1}}, hostAB{ab{3, 4}}, hostBA{ba{4, 3}}}
				aloneO := make([]string, len(hosts))
				for h, host := range hosts {
					c1, err1 := newEngineWith(comp).Compile(p, host)
					if err1 != nil {
						aloneO[h] = "compile error: " + err1.Error()
						continue
					}
					aloneO[h] = describe(c1(host))
				}
				var wg sync.WaitGroup
				for g := 0; g < *gor; g++ {
					wg.Add(1)
					g := g
					go func() {
						defer wg.Done()
						for i := 0; i < *iters+50; i++ {
							h := (g + i) % len(hosts)
							if got := describe(c(hosts[h])); got != aloneO[h] {
								mismatch(fmt.Sprintf("[%s] invoke %q concurrently with %T%v: %s, alone: %s", comp, p, hosts[h], hosts[h], got, aloneO[h]))
								return
							}
						}
					}()
					count += *iters + 50
				}
				wg.Wait()
			}
		}
	}
	// (6) separate engines with DIFFERENT operator tables compile concurrently
	{
		mk := func(k int) *yae.Expr {
			e := newEngineWith("vm")
			switch k % 3 {
			case 1:
				e.RegisterOperator(oper.Operator{Kind: "<>", BP: oper.BP_EQ, Fixity: oper.INFIX_N}).
					RegisterFun(val.Fun(types.Fun("<>", []*types.Type{types.Num, types.Num}, types.Bool), func(a ...*val.Val) *val.Val { return val.Bool(a[0].Num().V != a[1].Num().V) }))
			case 2:
				e.RegisterOperator(oper.Operator{Kind: "**", BP: oper.BP_EXP, Fixity: oper.INFIX_R}, oper.Operator{Kind: "contains", BP: oper.BP_CMP, Fixity: oper.INFIX_N}).
					RegisterFun(val.Fun(types.Fun("**", []*types.Type{types.Num, types.Num}, types.Num), func(a ...*val.Val) *val.Val { return val.Num(a[0].Num().V * a[1].Num().V) }))
			}
			return e
		}
		progs := [][]string{{`n1 + 1 > 2`, `len(xs) * 2`, `s1 + "x"`}, {`n1 <> 2`, `n1 + 1 <> n1`, `b1 && n1 <> 0`}, {`n1 ** 2`, `2 ** n1 ** 2`, `n1 * 2 ** 3`}}
		aloneC := map[string]string{}
		for k := 0; k < 3; k++ {
			for _, p := range progs[k] {
				c1, err1 := mk(k).Compile(p, e)
				if err1 != nil {
					aloneC[fmt.Sprint(k, p)] = "compile error: " + err1.Error()
				} else {
					aloneC[fmt.Sprint(k, p)] = describe(c1(e))
				}
			}
		}
		var wg sync.WaitGroup
		for g := 0; g < *gor; g++ {
			wg.Add(1)
			g := g
			go func() {
				defer wg.Done()
				for i := 0; i < *iters/4+5; i++ {
					k := (g + i) % 3
					p := progs[k][i%len(progs[k])]
					got := ""
					if c1, err1 := mk(k).Compile(p, e); err1 != nil {
						got = "compile error: " + err1.Error()
					} else {
						got = describe(c1(e))
					}
					if got != aloneC[fmt.Sprint(k, p)] {
						mismatch(fmt.Sprintf("engine with operator table #%d compiles %q concurrently with engines of other tables: %s, alone: %s", k, p, got, aloneC[fmt.Sprint(k, p)]))
						return
					}
				}
			}()
			count += *iters/4 + 5
		}
		wg.Wait()
	}
	// (4) one parsed tree, compiled concurrently against different type environments
	for _, comp := range compilers {
		eng := newEngineWith(comp).RegisterFun(kindFuns()...)
		if _, err := eng.Compile("1", envNum{1}); err != nil {
			mismatch("warm-up compile failed: " + err.Error())
		}
		hosts := []interface{}{envNum{7}, envStr{"s"}, envList{[]float64{1, 2}}}
		for _, p := range polyPrograms {
			aloneP := make([]string, len(hosts))
			for h, host := range hosts {
				fe := newEngineWith(comp).RegisterFun(kindFuns()...)
				c1, err1 := fe.Compile(p, host)
				if err1 != nil {
					aloneP[h] = "compile error: " + err1.Error()
				} else {
					aloneP[h] = describe(c1(host))
				}
			}
			parsed := func() (t interface{}) {
				defer func() {
					if rec := recover(); rec != nil {
						t = nil
					}
				}()
				return eng.Parse(p)
			}()
			if parsed == nil {
				continue
			}
			var wg sync.WaitGroup
			for g := 0; g < *gor; g++ {
				wg.Add(1)
				g := g
				off := time.Duration(r.Intn(100)) * time.Microsecond
				go func() {
					defer wg.Done()
					time.Sleep(off)
					for i := 0; i < *iters/40+1; i++ {
						h := (g + i) % len(hosts)
						got := compileParsed(eng, parsed, hosts[h])
						if got != aloneP[h] {
							mismatch(fmt.Sprintf("[%s] one parsed tree of %q compiled concurrently against %T: %s, alone: %s", comp, p, hosts[h], got, aloneP[h]))
						}
					}
				}()
				count += *iters/40 + 1
			}
			wg.Wait()
		}
	}
	// (2) separate engines compile (and run) concurrently; (3) one warmed-up engine shared
	sharedBy := map[string]*yae.Expr{}
	for _, comp := range compilers {
		sharedBy[comp] = newEngineWith(comp)
		if _, err := sharedBy[comp].Compile("1", e); err != nil {
			mismatch("warm-up compile failed: " + err.Error())
		}
	}
	var wg sync.WaitGroup
	for g := 0; g < *gor; g++ {
		wg.Add(1)
		gr := rand.New(rand.NewSource(*seed*1000 + int64(g)))
		go func() {
			defer wg.Done()
			time.Sleep(time.Duration(gr.Intn(300)) * time.Microsecond)
			for i := 0; i < *iters; i++ {
				p := programs[gr.Intn(len(programs))]
				comp := compilers[gr.Intn(len(compilers))]
				eng := sharedBy[comp]
				if gr.Intn(2) == 0 {
					eng = newEngineWith(comp)
				}
				c, err := eng.Compile(p, e)
				if err != nil {
					if compileErr[comp+"|"+p] == "" {
						mismatch(fmt.Sprintf("compile %q concurrently fails: %v; alone it succeeds", p, err))
					}
					continue
				}
				if compileErr[comp+"|"+p] != "" {
					mismatch(fmt.Sprintf("compile %q concurrently succeeds; alone: %s", p, compileErr[comp+"|"+p]))
					continue
				}
				if got := describe(c(e)); got != seq[comp+"|"+p] {
					mismatch(fmt.Sprintf("[%s] compile+invoke %q concurrently: %s, alone: %s", comp, p, got, seq[comp+"|"+p]))
				}
			}
		}()
		count += *iters
	}
	wg.Wait()
	res.Evaluations = count
	res.Distinct = len(programs)
	for _, p := range programs[:6] {
		res.Samples = append(res.Samples, fmt.Sprintf("%q => %s%s", p, seq["vm|"+p], compileErr["vm|"+p]))
	}
	if *out != "" {
		b, _ := json.MarshalIndent(res, "", " ")
		os.WriteFile(*out, b, 0644)
	}
	fmt.Printf("racecheck evaluations=%d mismatches=%d\n", res.Evaluations, len(res.Mismatches))
	if len(res.Mismatches) > 0 {
		for _, m := range res.Mismatches {
			fmt.Println("  MISMATCH", m)
		}
		os.Exit(3)
	}
}

// compileParsed: CompileExpr + invoke through the public API, panics turned into an outcome
func compileParsed(eng *yae.Expr, parsed interface{}, host interface{}) (out string) {
	defer func() {
		if rec := recover(); rec != nil {
			out = fmt.Sprintf("compile error: %v", rec)
		}
	}()
	tenv, err := conv.TypeEnvOf(host)
	if err != nil {
		return "compile error: " + err.Error()
	}
	venv, err := conv.ValEnvOf(host)
	if err != nil {
		return "compile error: " + err.Error()
	}
	closure := eng.CompileExpr(parsed.(ast.Expr), tenv)
	rt := venv.Inherit(eng.RuntimeEnvHook())
	return describe(closure(rt), nil)
}
