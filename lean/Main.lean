import Yae.Driver
def main (args : List String) : IO Unit := Yae.Driver.main args
