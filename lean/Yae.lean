import Yae.SExp
import Yae.Model.Ty
import Yae.Model.Unify
