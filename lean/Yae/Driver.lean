/-
  Line-protocol driver: one request per line on stdin, one response per line on stdout.
-/
import Yae.SExp
import Yae.Model.Ty
import Yae.Model.Unify
import Yae.Driver.Wire
import Yae.Driver.Lex
import Yae.Driver.VmWire
import Yae.Driver.Num
import Yae.Driver.Parse
import Yae.Driver.Conv
import Yae.Driver.Sql
import Yae.Driver.Debug
import Yae.Driver.ValRel
import Yae.Model.Facade
import Yae.Driver.Engine
namespace Yae.Driver
open Yae SExp

def substToSExp (m : Subst) : SExp :=
  let sorted := (m.toArray.qsort (fun a b => a.1 < b.1)).toList
  .list (sorted.map fun (n, t) => .list [encStr n, t.toSExp])

def substOfSExp : SExp → Option Subst
  | .list xs => xs.mapM fun
      | .list [n, t] => do pure ((← decStr n), (← Ty.ofSExp t))
      | _ => none
  | _ => none

def uerr : UErr → SExp
  | .fail => .list [.atom "err", .atom "fail"]
  | .panic _ => .list [.atom "err", .atom "panic"]
  | .fuel => .list [.atom "err", .atom "fuel"]

def handle (req : SExp) : SExp :=
  match req with
  | .list (.atom "lex" :: _) => (handleLex req).getD (.atom "bad-request")
  | .list (.atom "regex" :: _) => (handleRegex req).getD (.atom "bad-request")
  | .list (.atom "parse" :: _) | .list (.atom "desugar" :: _) | .list (.atom "lexparse" :: _) =>
    (handleParse req).getD (.atom "bad-request")
  | .list (.atom "conv.type" :: _) | .list (.atom "conv.val" :: _) | .list (.atom "conv.tenv" :: _)
  | .list (.atom "conv.venv" :: _) | .list (.atom "conv.among" :: _) | .list (.atom "envcheck" :: _) =>
    (handleConv req).getD (.atom "bad-request")
  | .list (.atom "sql" :: _) | .list (.atom "sql.read" :: _) | .list (.atom "sql.tree" :: _)
  | .list (.atom "sql.c20" :: _) =>
    (handleSql req).getD (.atom "bad-request")
  | .list (.atom "debug.run" :: _) | .list (.atom "debug.rec" :: _) | .list (.atom "debug.render" :: _) =>
    (handleDebug req).getD (.atom "bad-request")
  | .list (.atom "valrel" :: _) => (handleValRel req).getD (.atom "bad-request")
  | .list (.atom "vmcode" :: _) => (handleVm req).getD (.atom "bad-request")
  | .list (.atom "vmrun" :: _) => (handleVm req).getD (.atom "bad-request")
  | .list (.atom "verify" :: _) => (handleVm req).getD (.atom "bad-request")
  | .list [.atom "tyeq", a, b] =>
    match Ty.ofSExp a, Ty.ofSExp b with
    | some a, some b => .list [.atom "ok", encBool (tyEq a b)]
    | _, _ => .atom "bad-request"
  | .list [.atom "tyrender", a] =>
    match Ty.ofSExp a with
    | some a => .list [.atom "ok", encStr a.render]
    | _ => .atom "bad-request"
  | .list [.atom "unify", a, b, m] =>
    match Ty.ofSExp a, Ty.ofSExp b, substOfSExp m with
    | some a, some b, some m =>
      match unify defaultFuel a b m with
      | .ok (t, m') => .list [.atom "ok", t.toSExp, substToSExp m']
      | .error e => uerr e
    | _, _, _ => .atom "bad-request"
  | .list [.atom "infer", name, .list ps, r, .list args] =>
    match decStr name, ps.mapM Ty.ofSExp, Ty.ofSExp r, args.mapM Ty.ofSExp with
    | some name, some ps, some r, some args =>
      match inferFun 0 name (TyList.ofList ps) r (TyList.ofList args) with
      | .ok (ps', r') => .list [.atom "ok", .list (ps'.toList.map Ty.toSExp), r'.toSExp]
      | .error e => uerr e
    | _, _, _, _ => .atom "bad-request"
  | .list [.atom "check", funs, tvars, e] =>
    match funsOfSExp funs, tvarsOfSExp tvars, Expr.ofSExp e with
    | some funs, some tvars, some e =>
      match check { vars := tvars, funs := funs, reserved := reservedWords } 0 e with
      | .ok (ty, e', _) => .list [.atom "ok", ty.toSExp, e'.toSExp]
      | .error err => .list [.atom "err", checkErrToSExp err]
    | _, _, _ => .atom "bad-request"
  | .list [.atom "run", .atom mode, funs, vars, ext, e] =>
    match funsOfSExp funs, varsOfSExp vars, externsOfSExp ext, Expr.ofSExp e with
    | some funs, some vars, some ext, some e =>
      let (r, evs) := runEval (mode == "debug") { vars := vars, funs := funs, ext := ext } e
      let evs := SExp.list (evs.map eventToSExp)
      match r with
      | .ok v => .list [.atom "ok", valToSExp v, evs]
      | .error f => .list [.atom "fail", failToSExp f, evs]
    | _, _, _, _ => .atom "bad-request"
  | .list [.atom "pipeline", .list ops, times, funs, tvars, vars, ext, src] =>
    -- the whole facade from the source text: lex, parse, desugar, check, env check, evaluate
    match ops.mapM operOfSExp, timeTableOfSExp times, funsOfSExp funs, tvarsOfSExp tvars,
        varsOfSExp vars, externsOfSExp ext, decStr src with
    | some ops, some times, some funs, some tvars, some vars, some ext, some src =>
      let Γ : TEnv := { vars := tvars, funs := funs, reserved := reservedWords }
      let ρ : REnv := { vars := vars, funs := funs, ext := ext }
      match Facade.evalSrc ops times Γ ρ src with
      | (.ok v, evs) => .list [.atom "ok", valToSExp v, SExp.list (evs.map eventToSExp)]
      | (.error (.fail f), evs) => .list [.atom "fail", failToSExp f, SExp.list (evs.map eventToSExp)]
      | (.error (.compile (.lex _)), _) => .list [.atom "err", .atom "syntax"]
      | (.error (.compile (.parse .externMiss)), _) => .list [.atom "err", .atom "extern-miss"]
      | (.error (.compile (.parse _)), _) => .list [.atom "err", .atom "syntax"]
      | (.error (.compile .desugar), _) => .list [.atom "err", .atom "unreachable"]
      | (.error (.compile (.check e)), _) => .list [.atom "err", checkErrToSExp e]
      | (.error (.env .undefined), _) => .list [.atom "err", .atom "env-undefined"]
      | (.error (.env .mismatch), _) => .list [.atom "err", .atom "env-mismatch"]
      | (.error (.env .mixed), _) => .list [.atom "err", .atom "env-mixed"]
    | _, _, _, _, _, _, _ => .atom "bad-request"
  | _ => ((handleEngine req).orElse fun _ => handleNum req).getD (.atom "bad-request")

partial def loop (hin hout : IO.FS.Stream) : IO Unit := do
  let line ← hin.getLine
  if line.isEmpty then return ()
  let line := line.trimAscii.toString
  if line.isEmpty then
    loop hin hout
  else
    let out := match SExp.parse line with
      | some req => (handle req).toStr
      | none => "bad-sexp"
    hout.putStrLn out
    loop hin hout

def main (_args : List String) : IO Unit := do
  let hin ← IO.getStdin
  let hout ← IO.getStdout
  loop hin hout
  hout.flush

end Yae.Driver
