/-
  Driver glue for the host-data conversion model (`Yae.Model.Conv`).

  Wire format of host data (S-expressions of `Yae.SExp`; `$hex` strings, `#hex` float bits):

    <gotype> ::= bool | i0 | i8 | i16 | i32 | i64          -- int, int8 .. int64
               | u0 | u8 | u16 | u32 | u64                 -- uint, uint8 .. uint64
               | f32 | f64 | string | time                 -- time = time.Time
               | (ptr T) | (slice T) | (array N T) | (map K V)
               | (struct F ...)                            -- F ::= ($goName $rawTag T exported?)
               | iface                                     -- interface{}
               | (unsup $name)                             -- chan, func, complex, uintptr, unsafe.Pointer

    <goval>  ::= invalid                                   -- reflect.ValueOf(nil)
               | (bool true|false)
               | (int iK n) | (uint uK n)                  -- decimal integers
               | (f32 #bits) | (f64 #bits)                 -- bits of the (widened) float64
               | (string $..)
               | (time sec nsec offset $zone)
               | (ptrnil T) | (ptr V)                      -- T: pointee type
               | ifacenil | (iface V)                      -- V: the dynamic value
               | (slicenil T) | (slice T V ...) | (array T V ...)     -- T: element type
               | (mapnil K V) | (map K V (k v) ...)        -- entries in iteration order
               | (struct (F ...) V ...)
               | (unsup $name nil?)

  Requests and answers:
    (conv.type g)  -> (ok <ty>)  | (err <class>)           -- conv.TypeOf
    (conv.val g)   -> (ok <val>) | (err <class>)           -- conv.ValOf
    (conv.tenv g)  -> (ok (($name <ty>) ...))  sorted by name | (err <class>) | (panic)
    (conv.venv g)  -> (ok (($name <val>) ...)) sorted by name | (err <class>) | (panic)
    (conv.among <op> g (<answer> ...)) with <op> in type|val|tenv|venv
                   -> (ok) when every listed answer is the model's answer for SOME iteration order
                      of the maps inside g (Go iterates maps in random order and `conv` takes the
                      first key's types, so the answer is a set); else (err (<model answers>))
    (envcheck (($name <ty>) ...) (($name <val>) ...)) -> (ok) | (err undefined|mismatch|env)
  <class> ::= nilTop | nilInside | unsupported | mixed | depth | mapKey | dupField | notStruct | other
-/
import Yae.SExp
import Yae.Model.Conv
import Yae.Driver.Wire
namespace Yae.Driver
open Yae SExp

def intKindOfAtom : String → Option IntKind
  | "i0" => some .int | "i8" => some .int8 | "i16" => some .int16
  | "i32" => some .int32 | "i64" => some .int64 | _ => none

def uintKindOfAtom : String → Option UintKind
  | "u0" => some .uint | "u8" => some .uint8 | "u16" => some .uint16
  | "u32" => some .uint32 | "u64" => some .uint64 | _ => none

mutual
partial def goTypeOfSExp : SExp → Option GoType
  | .atom "bool" => some .bool
  | .atom "f32" => some .float32
  | .atom "f64" => some .float64
  | .atom "string" => some .string
  | .atom "time" => some .time
  | .atom "iface" => some .iface
  | .atom a =>
    match intKindOfAtom a, uintKindOfAtom a with
    | some k, _ => some (.int k)
    | _, some k => some (.uint k)
    | _, _ => none
  | .list [.atom "ptr", t] => do pure (.ptr (← goTypeOfSExp t))
  | .list [.atom "slice", t] => do pure (.slice (← goTypeOfSExp t))
  | .list [.atom "array", n, t] => do pure (.array (← decNat n) (← goTypeOfSExp t))
  | .list [.atom "map", k, v] => do pure (.map (← goTypeOfSExp k) (← goTypeOfSExp v))
  | .list (.atom "struct" :: fs) => do pure (.struct (← goFieldsOfSExp fs))
  | .list [.atom "unsup", n] => do pure (.unsupported (← decStr n))
  | _ => none
partial def goFieldsOfSExp : List SExp → Option GoFieldList
  | [] => some .nil
  | .list [n, tag, t, ex] :: rest => do
      pure (.cons (← decStr n) (← decStr tag) (← goTypeOfSExp t) (← decBool ex) (← goFieldsOfSExp rest))
  | _ => none
end

partial def goValOfSExp : SExp → Option GoVal
  | .atom "invalid" => some .invalid
  | .atom "ifacenil" => some .ifaceNil
  | .list [.atom "bool", b] => do pure (.bool (← decBool b))
  | .list [.atom "int", .atom k, n] => do pure (.int (← intKindOfAtom k) (← decInt n))
  | .list [.atom "uint", .atom k, n] => do pure (.uint (← uintKindOfAtom k) (← decNat n))
  | .list [.atom "f32", b] => do pure (.float true (Float.ofBits (← decBits b)))
  | .list [.atom "f64", b] => do pure (.float false (Float.ofBits (← decBits b)))
  | .list [.atom "string", s] => do pure (.string (← decStr s))
  | .list [.atom "time", s, n, o, z] => do
      pure (.time ⟨← decInt s, ← decNat n, ← decInt o, ← decStr z⟩)
  | .list [.atom "ptrnil", t] => do pure (.ptrNil (← goTypeOfSExp t))
  | .list [.atom "ptr", v] => do pure (.ptr (← goValOfSExp v))
  | .list [.atom "iface", v] => do pure (.iface (← goValOfSExp v))
  | .list [.atom "slicenil", t] => do pure (.sliceNil (← goTypeOfSExp t))
  | .list (.atom "slice" :: t :: vs) => do
      pure (.slice (← goTypeOfSExp t) (GoValList.ofList (← vs.mapM goValOfSExp)))
  | .list (.atom "array" :: t :: vs) => do
      pure (.array (← goTypeOfSExp t) (GoValList.ofList (← vs.mapM goValOfSExp)))
  | .list [.atom "mapnil", k, v] => do pure (.mapNil (← goTypeOfSExp k) (← goTypeOfSExp v))
  | .list (.atom "map" :: k :: v :: es) => do
      let es ← es.mapM fun
        | .list [a, b] => do pure ((← goValOfSExp a), (← goValOfSExp b))
        | _ => none
      pure (.map (← goTypeOfSExp k) (← goTypeOfSExp v) (GoEntryList.ofList es))
  | .list (.atom "struct" :: .list fs :: vs) => do
      pure (.struct (← goFieldsOfSExp fs) (GoValList.ofList (← vs.mapM goValOfSExp)))
  | .list [.atom "unsup", n, b] => do pure (.unsupported (← decStr n) (← decBool b))
  | _ => none

def convErrAtom : ConvErr → String
  | .nilTop => "nilTop" | .nilInside => "nilInside" | .unsupported => "unsupported"
  | .mixed => "mixed" | .depth => "depth" | .mapKey => "mapKey" | .dupField => "dupField"
  | .notStruct => "notStruct" | .other => "other" | .panic => "panic"

def convAnswer {α} (enc : α → SExp) : Except ConvErr α → SExp
  | .ok x => .list [.atom "ok", enc x]
  | .error .panic => .list [.atom "panic"]
  | .error e => .list [.atom "err", .atom (convErrAtom e)]

/-- bindings sorted by name; a later binding of the same name wins (`env.Put` overwrites) -/
def encEnv {α} (enc : α → SExp) (bs : List (String × α)) : SExp :=
  let dedup := bs.foldl (fun acc (n, x) => (acc.filter fun p => p.1 != n) ++ [(n, x)]) []
  let sorted := (dedup.toArray.qsort (fun a b => a.1 < b.1)).toList
  .list (sorted.map fun (n, x) => .list [encStr n, enc x])

def convOp (op : String) (g : GoVal) : Option SExp :=
  match op with
  | "type" => some (convAnswer Ty.toSExp (typeOfRV g))
  | "val" => some (convAnswer valToSExp (convValOf g))
  | "tenv" => some (convAnswer (encEnv Ty.toSExp) (typeEnvOf g))
  | "venv" => some (convAnswer (encEnv valToSExp) (valEnvOf g))
  | _ => none

/-! every iteration order of every map inside a host value -/

def insertEverywhere {α} (x : α) : List α → List (List α)
  | [] => [[x]]
  | y :: ys => (x :: y :: ys) :: (insertEverywhere x ys).map (y :: ·)

def perms {α} : List α → List (List α)
  | [] => [[]]
  | x :: xs => (perms xs).flatMap (insertEverywhere x)

def product {α} : List (List α) → List (List α)
  | [] => [[]]
  | xs :: rest => xs.flatMap fun x => (product rest).map (x :: ·)

partial def orders : GoVal → List GoVal
  | .ptr v => (orders v).map .ptr
  | .iface v => (orders v).map .iface
  | .slice t vs => (product (vs.toList.map orders)).map fun l => .slice t (GoValList.ofList l)
  | .array t vs => (product (vs.toList.map orders)).map fun l => .array t (GoValList.ofList l)
  | .struct fs vs => (product (vs.toList.map orders)).map fun l => .struct fs (GoValList.ofList l)
  | .map k v es =>
    (perms es.toList).flatMap fun p =>
      (product (p.map fun (a, b) => (product [orders a, orders b]))).map fun l =>
        .map k v (GoEntryList.ofList (l.map fun
          | [a, b] => (a, b)
          | _ => (.invalid, .invalid)))
  | v => [v]

def tenvOfSExp : SExp → Option (List (String × Ty)) := tvarsOfSExp
def venvOfSExp : SExp → Option (List (String × Val)) := varsOfSExp

def handleConv : SExp → Option SExp
  | .list [.atom "conv.type", g] => do convOp "type" (← goValOfSExp g)
  | .list [.atom "conv.val", g] => do convOp "val" (← goValOfSExp g)
  | .list [.atom "conv.tenv", g] => do convOp "tenv" (← goValOfSExp g)
  | .list [.atom "conv.venv", g] => do convOp "venv" (← goValOfSExp g)
  | .list [.atom "conv.among", .atom op, g, .list obs] => do
      let g ← goValOfSExp g
      let answers ← (orders g).mapM (convOp op)
      let set := (answers.map SExp.toStr).eraseDups
      if obs.all fun o => set.contains o.toStr then
        pure (.list [.atom "ok"])
      else
        pure (.list [.atom "err", .list (set.map .atom)])
  | .list [.atom "envcheck", tenv, venv] => do
      let tenv ← tenvOfSExp tenv
      let venv ← venvOfSExp venv
      match envCheck tenv venv with
      | .ok () => pure (.list [.atom "ok"])
      | .error .undefined => pure (.list [.atom "err", .atom "undefined"])
      | .error .mismatch => pure (.list [.atom "err", .atom "mismatch"])
      | .error .mixed => pure (.list [.atom "err", .atom "env"])
  | _ => none

end Yae.Driver
