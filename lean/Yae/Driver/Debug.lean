/-
  Driver glue for the `debug` stream:

    (debug.run <funs> <vars> <externs> <annotated expr> $src)
        → (ok <val> (entries (col $rendering) ...) $report)
        | (fail <class> (entries ...) $report)
    (debug.rec ((col $text) ...))            → (ok (entries (col $text) ...))
        the calls `Rec(v, col)` in order, `$text` being `v.String()`
    (debug.render $src ((col $text) ...))    → (ok $report)
        the same calls, then `Render(src)`
-/
import Yae.SExp
import Yae.Driver.Wire
import Yae.Model.Debug
namespace Yae.Driver
open Yae SExp Yae.Debug

def entriesToSExp (r : Record) : SExp :=
  .list (.atom "entries" :: r.map fun e => .list [encInt e.col, encStr e.text])

def recCallsOfSExp : SExp → Option (List (Int × String))
  | .list xs => xs.mapM fun
    | .list [c, t] => do pure ((← decInt c), (← decStr t))
    | _ => none
  | _ => none

def recordOfCalls (calls : List (Int × String)) : Record :=
  calls.foldl (fun r (c, t) => recText r t c) []

def handleDebug : SExp → Option SExp
  | .list [.atom "debug.run", funs, vars, ext, e, src] => do
      let funs ← funsOfSExp funs
      let vars ← varsOfSExp vars
      let ext ← externsOfSExp ext
      let e ← Expr.ofSExp e
      let src ← decStr src
      let (r, evs) := runEval true { vars := vars, funs := funs, ext := ext } e
      let rcd := recordOf evs
      let report := encStr (render src rcd)
      match r with
      | .ok v => pure (.list [.atom "ok", valToSExp v, entriesToSExp rcd, report])
      | .error f => pure (.list [.atom "fail", failToSExp f, entriesToSExp rcd, report])
  | .list [.atom "debug.rec", calls] => do
      let calls ← recCallsOfSExp calls
      pure (.list [.atom "ok", entriesToSExp (recordOfCalls calls)])
  | .list [.atom "debug.render", src, calls] => do
      let src ← decStr src
      let calls ← recCallsOfSExp calls
      pure (.list [.atom "ok", encStr (render src (recordOfCalls calls))])
  | _ => none

end Yae.Driver
