/-
  `engine` request: a history of API calls on ONE engine object (`Yae/Model/Engine.lean`,
  `facade.go` `Expr`), answered with the outputs of all the calls, in order.

      (engine <times> <externs> (<op> ...))
      op  ::= (regfun (host n ty lazy beh)) | (regop <operator>) | (builtin b)
            | (compiler vm|closure|debug|interp) | (compile <tvars> <src>) | (invoke k <vars>)
      out ::= done | (compiled ok) | (compiled err <class>) | nocallable
            | (result ok v evs) | (result fail f evs) | (result err env-…)

  The history is run on `EngineVm` (`Yae/Model/EngineVm.lean`): the engine whose `vm` back end
  compiles to bytecode and runs the machine (a refusal of the VM compiler is a compile error
  `overflow`); `Yae.EngineVmProps.engineVm_refines` relates it to `Engine.run`, which the
  history theorems are about.
-/
import Yae.Driver.Wire
import Yae.Driver.Lex
import Yae.Driver.Parse
import Yae.Model.Engine
import Yae.Model.EngineVm
namespace Yae.Driver
open Yae SExp Yae.Facade

def backendOfSExp : SExp → Option Backend
  | .atom "vm" => some .vm | .atom "closure" => some .closure
  | .atom "debug" => some .closureDebug | .atom "interp" => some .interp
  | _ => none

def engineOpOfSExp (times : List (String × Int)) (ext : Externs) : SExp → Option Op
  | .list [.atom "regfun", f] => do
      match ← funsOfSExp (.list [f]) with
      | [d] => pure (.registerFun d)
      | _ => none
  | .list [.atom "regop", o] => do pure (.registerOperator (← operOfSExp o))
  | .list [.atom "builtin", b] => do pure (.useBuiltIn (← decBool b))
  | .list [.atom "compiler", b] => do pure (.useCompiler (← backendOfSExp b))
  | .list [.atom "compile", tvars, src] => do pure (.compile times (← tvarsOfSExp tvars) (← decStr src))
  | .list [.atom "invoke", k, vars] => do pure (.invoke (← decNat k) (← varsOfSExp vars) ext)
  | _ => none

def observable (evs : List Event) : SExp :=
  .list ((evs.filter fun | .dbg .. => false | _ => true).map eventToSExp)

def engineOutToSExp : Out → SExp
  | .done => .atom "done"
  | .noCallable => .atom "nocallable"
  | .compiled (.ok _) => .list [.atom "compiled", .atom "ok"]
  | .compiled (.error (.lex _)) => .list [.atom "compiled", .atom "err", .atom "syntax"]
  | .compiled (.error (.parse .externMiss)) => .list [.atom "compiled", .atom "err", .atom "extern-miss"]
  | .compiled (.error (.parse _)) => .list [.atom "compiled", .atom "err", .atom "syntax"]
  | .compiled (.error .desugar) => .list [.atom "compiled", .atom "err", .atom "unreachable"]
  | .compiled (.error (.check e)) => .list [.atom "compiled", .atom "err", checkErrToSExp e]
  | .result (.ok v, evs) => .list [.atom "result", .atom "ok", valToSExp v, observable evs]
  | .result (.error (.fail f), evs) => .list [.atom "result", .atom "fail", failToSExp f, observable evs]
  | .result (.error (.compile _), _) => .list [.atom "result", .atom "err", .atom "compile"]
  | .result (.error (.env .undefined), _) => .list [.atom "result", .atom "err", .atom "env-undefined"]
  | .result (.error (.env .mismatch), _) => .list [.atom "result", .atom "err", .atom "env-mismatch"]
  | .result (.error (.env .mixed), _) => .list [.atom "result", .atom "err", .atom "env-mixed"]

def engineOutVmToSExp : OutVm → SExp
  | .compiled (.error (.vm _)) => .list [.atom "compiled", .atom "err", .atom "overflow"]
  | o => match o.erase with
    | some out => engineOutToSExp out
    | none => .atom "bad-out"

def handleEngine : SExp → Option SExp
  | .list [.atom "engine", times, ext, .list ops] =>
    some <| match timeTableOfSExp times, externsOfSExp ext with
    | some times, some ext =>
      match ops.mapM (engineOpOfSExp times ext) with
      | some ops => .list (.atom "outs" :: (EngineVm.new.run ops).2.map engineOutVmToSExp)
      | none => .atom "bad-request"
    | _, _ => .atom "bad-request"
  | _ => none

end Yae.Driver
