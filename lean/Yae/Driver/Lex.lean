/-
  Driver glue for the `lex` stream:
    (lex ((<$kind> <#bp as binary64 bits> <fixity>) ...) <$src>)
      → (ok (tok <$kind> <$lexeme> idx idxEnd col line) ...) | (err syntax) | (err fuel)
-/
import Yae.SExp
import Yae.Model.Lexer
import Yae.Spec.Regex
namespace Yae.Driver
open Yae SExp

def operOfSExp : SExp → Option Operator
  | .list [k, bp, fx] => do
      let k ← decStr k
      let bits ← decBits bp
      let fx ← decNat fx
      -- binding powers are float32 values sent widened to binary64
      let bp ← BP.ofF64Bits bits
      pure ⟨k, bp, fx⟩
  | _ => none

def tokToSExp (t : Token) : SExp :=
  .list [.atom "tok", encStr t.kind, encStr t.lexeme,
         encInt t.pos.idx, encInt t.pos.idxEnd, encInt t.pos.col, encInt t.pos.line]

def handleLex : SExp → Option SExp
  | .list [.atom "lex", .list ops, src] => do
      let ops ← ops.mapM operOfSExp
      let src ← decStr src
      match lex ops src.toList with
      | .ok ts => pure (.list (.atom "ok" :: ts.map tokToSExp))
      | .error .syntax => pure (.list [.atom "err", .atom "syntax"])
      | .error .fuel => pure (.list [.atom "err", .atom "fuel"])
  | _ => none

/-- `(regex <k> <$s>)`: the formal semantics of the lexer's regular expressions, asked directly:
`k` = 0…9 the ten literal patterns in lexicon order (`FindString`: rune length of the anchored
leftmost-first match, the empty match counting as none), 10 = `keywordPostfix.MatchString`,
11 = `idReg.MatchString`.  Answer `(ok n)`, `(none)`, `(ok true|false)`. -/
def regexPats : List Pat := [.floatA, .floatB, .bin, .hex, .oct, .int, .str, .raw, .time, .sym]

def handleRegex : SExp → Option SExp
  | .list [.atom "regex", k, s] => do
      let k ← decNat k
      let s ← decStr s
      if k == 10 then pure (.list [.atom "ok", .atom (toString (reKeywordPostfix.matchPrefix s.toList))])
      else if k == 11 then pure (.list [.atom "ok", .atom (toString (reIdent.matchWhole s.toList))])
      else
        let p ← regexPats[k]?
        match (reOf p).find s.toList with
        | some n => pure (.list [.atom "ok", .atom (toString n)])
        | none => pure (.list [.atom "none"])
  | _ => none

end Yae.Driver
