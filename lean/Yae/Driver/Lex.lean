/-
  Driver glue for the `lex` stream:
    (lex ((<$kind> <#bp as binary64 bits> <fixity>) ...) <$src>)
      → (ok (tok <$kind> <$lexeme> idx idxEnd col line) ...) | (err syntax) | (err fuel)
-/
import Yae.SExp
import Yae.Model.Lexer
namespace Yae.Driver
open Yae SExp

def operOfSExp : SExp → Option Operator
  | .list [k, bp, fx] => do
      let k ← decStr k
      let bits ← decBits bp
      let fx ← decNat fx
      -- binding powers are float32 values sent widened to binary64
      let bp ← BP.ofF64Bits bits
      pure ⟨k, bp, fx⟩
  | _ => none

def tokToSExp (t : Token) : SExp :=
  .list [.atom "tok", encStr t.kind, encStr t.lexeme,
         encInt t.pos.idx, encInt t.pos.idxEnd, encInt t.pos.col, encInt t.pos.line]

def handleLex : SExp → Option SExp
  | .list [.atom "lex", .list ops, src] => do
      let ops ← ops.mapM operOfSExp
      let src ← decStr src
      match lex ops src.toList with
      | .ok ts => pure (.list (.atom "ok" :: ts.map tokToSExp))
      | .error .syntax => pure (.list [.atom "err", .atom "syntax"])
      | .error .fuel => pure (.list [.atom "err", .atom "fuel"])
  | _ => none

end Yae.Driver
