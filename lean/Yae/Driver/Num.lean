/-
  Line-protocol requests for the number / string-quoting model (stream `num`).

    (num.render #b) (num.fmtfloat #b)            → (ok $str)
    (num.toint #b)                               → (ok <decimal int>)
    (num.trunc|floor|ceil|round|abs|neg #b)      → (ok #b)
    (num.min #a #b) (num.max #a #b)              → (ok #b)
    (num.isint #b) (num.isintegral #b)           → (ok true|false)
    (num.renderpinned #b)                        → (ok $str)   -- pinned tree: IsInt without range check
    (num.parse $lexeme) (num.parsefloat $s)      → (ok #b) | (err)
    (num.ofint <decimal int>)                    → (ok #b)          -- float64(int64)
    (num.fmtint <decimal int>)                   → (ok $str)
    (str.quote $s)                               → (ok $str)
    (str.unquote $s)                             → (ok $str) | (err)

  NaN results are sent with the payload of Go's `math.NaN()`; the harness canonicalises the same way.
-/
import Yae.SExp
import Yae.Model.Num
namespace Yae.Driver
open Yae SExp

def encFloat (x : Float) : SExp :=
  if Num.isNaN x then encBits Num.nanBits else encBits x.toBits

def okS (x : SExp) : SExp := .list [.atom "ok", x]
def errS : SExp := .list [.atom "err"]

def numUnary : String → Option (Float → Float)
  | "num.trunc" => some Num.truncF
  | "num.floor" => some Num.floorF
  | "num.ceil" => some Num.ceilF
  | "num.round" => some Num.roundF
  | "num.abs" => some Num.absF
  | "num.neg" => some Num.negF
  | _ => none

/-- `none` = not a request of this family (or malformed): the caller answers `bad-request`. -/
def handleNum : SExp → Option SExp
  | .list [.atom "num.render", b] => do
      let b ← decBits b
      pure (okS (encStr (Num.renderNum (Float.ofBits b))))
  | .list [.atom "num.fmtfloat", b] => do
      let b ← decBits b
      pure (okS (encStr (Num.fmtFloat (Float.ofBits b))))
  | .list [.atom "num.toint", b] => do
      let b ← decBits b
      pure (okS (.atom (Num.fmtInt (Num.toInt64 (Float.ofBits b)))))
  | .list [.atom "num.renderpinned", b] => do
      let b ← decBits b
      pure (okS (encStr (Num.renderNumPinned (Float.ofBits b))))
  | .list [.atom "num.isintegral", b] => do
      let b ← decBits b
      pure (okS (encBool (Num.isIntegral (Float.ofBits b))))
  | .list [.atom "num.isint", b] => do
      let b ← decBits b
      pure (okS (encBool (Num.isInt (Float.ofBits b))))
  | .list [.atom "num.min", a, b] => do
      let a ← decBits a
      let b ← decBits b
      pure (okS (encFloat (Num.minF (Float.ofBits a) (Float.ofBits b))))
  | .list [.atom "num.max", a, b] => do
      let a ← decBits a
      let b ← decBits b
      pure (okS (encFloat (Num.maxF (Float.ofBits a) (Float.ofBits b))))
  | .list [.atom "num.parse", s] => do
      let s ← decStr s
      match Num.parseNumLit s with
      | some f => pure (okS (encFloat f))
      | none => pure errS
  | .list [.atom "num.parsefloat", s] => do
      let s ← decStr s
      match Num.parseFloat s with
      | some f => pure (okS (encFloat f))
      | none => pure errS
  | .list [.atom "num.ofint", n] => do
      let n ← decInt n
      pure (okS (encFloat (Num.intToFloat n)))
  | .list [.atom "num.fmtint", n] => do
      let n ← decInt n
      pure (okS (encStr (Num.fmtInt n)))
  | .list [.atom "str.quote", s] => do
      let s ← decStr s
      pure (okS (encStr (Num.quote s)))
  | .list [.atom "str.unquote", s] => do
      let s ← decStr s
      match Num.unquote s with
      | some r => pure (okS (encStr r))
      | none => pure errS
  | .list [.atom op, b] => do
      let f ← numUnary op
      let b ← decBits b
      pure (okS (encFloat (f (Float.ofBits b))))
  | _ => none

end Yae.Driver
