/-
  Driver glue for the `parse` and `desugar` streams:

    (parse <ops> <strtotime-table> (tok $kind $lexeme idx idxEnd col line) ...)
        ops   = ((<$kind> <#bp as binary64 bits> <fixity>) ...)      as in the lex request
        table = (($text int) ...)                                     graph of timelib.Strtotime
      → (ok <expr>) | (err syntax) | (err extern-miss) | (err fuel)
    (desugar <expr>)
      → (ok <expr>) | (err unreachable)
    (lexparse <ops> <strtotime-table> $src)
      → as `parse`, the tokens coming from the Lean lexer; a lexer error is `(err syntax)` too
-/
import Yae.SExp
import Yae.Driver.Lex
import Yae.Model.Parser
import Yae.Model.Desugar
namespace Yae.Driver
open Yae SExp

def tokOfSExp : SExp → Option Token
  | .list [.atom "tok", k, lx, a, b, c, d] => do
      pure ⟨← decStr k, ← decStr lx, ⟨← decInt a, ← decInt b, ← decInt c, ← decInt d⟩⟩
  | _ => none

def timeTableOfSExp : SExp → Option (List (String × Int))
  | .list xs => xs.mapM fun
      | .list [s, t] => do pure ((← decStr s), (← decInt t))
      | _ => none
  | _ => none

def parseResToSExp : Except ParseErr Expr → SExp
  | .ok e => .list [.atom "ok", e.toSExp]
  | .error .syntax => .list [.atom "err", .atom "syntax"]
  | .error .externMiss => .list [.atom "err", .atom "extern-miss"]
  | .error .fuel => .list [.atom "err", .atom "fuel"]

def handleParse : SExp → Option SExp
  | .list (.atom "parse" :: .list ops :: table :: toks) => do
      let ops ← ops.mapM operOfSExp
      let table ← timeTableOfSExp table
      let toks ← toks.mapM tokOfSExp
      pure (parseResToSExp (parse ops table toks))
  | .list [.atom "desugar", e] => do
      let e ← Expr.ofSExp e
      match desugarGo e with
      | some d => pure (.list [.atom "ok", d.toSExp])
      | none => pure (.list [.atom "err", .atom "unreachable"])
  | .list [.atom "lexparse", .list ops, table, src] => do
      let ops ← ops.mapM operOfSExp
      let table ← timeTableOfSExp table
      let src ← decStr src
      match lex ops src.toList with
      | .ok ts => pure (parseResToSExp (parse ops table ts))
      | .error .syntax => pure (.list [.atom "err", .atom "syntax"])
      | .error .fuel => pure (.list [.atom "err", .atom "fuel"])
  | _ => none

end Yae.Driver
