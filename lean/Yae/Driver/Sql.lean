/-
  Driver glue for the `sql` stream:

    (sql <criteria> <tenv> <venv>)   → (ok $text) | (err <class> ...)
    (sql.read $text)                 → (ok <tree>) | (err)          tree flattened
    (sql.tree <criteria> <venv>)     → (ok <tree>) | (err)          tree flattened
    (sql.c20 <criteria> <tenv> <venv>) → (ok true|false) | (na)     `c20Check`; `na`: no text

    criteria ::= (cond $field $operator (<expr> ...)) | (group AND|OR|NOT (<criteria> ...))
    tenv     ::= (($name <ty>) ...)          venv ::= (($name <val>) ...)
    tree     ::= (col $name) | (str $text) | (num $lexeme) | (time $lexeme) | (list <tree> ...)
               | (cond $op <tree> ...) | (and <tree> ...) | (or <tree> ...) | (not <tree>)
-/
import Yae.SExp
import Yae.Driver.Wire
import Yae.Model.Sql
import Yae.Model.SqlRead
namespace Yae.Driver
open Yae SExp Yae.Sql

partial def criteriaOfSExp : SExp → Option Criteria
  | .list [.atom "cond", f, op, .list es] => do
      pure (.cond (← decStr f) (← decStr op) (ExprList.ofList (← es.mapM Expr.ofSExp)))
  | .list [.atom "group", .atom l, .list cs] => do
      let l ← match l with
        | "AND" => some LogicalOper.and
        | "OR" => some LogicalOper.or
        | "NOT" => some LogicalOper.not
        | _ => none
      pure (.group l (CriteriaList.ofList (← cs.mapM criteriaOfSExp)))
  | _ => none

partial def sqlTreeToSExp : SqlTree → SExp
  | .col n => .list [.atom "col", encStr n]
  | .str s => .list [.atom "str", encStr s]
  | .num s => .list [.atom "num", encStr s]
  | .time s => .list [.atom "time", encStr s]
  | .list xs => .list (.atom "list" :: xs.toList.map sqlTreeToSExp)
  | .cond op xs => .list (.atom "cond" :: encStr op :: xs.toList.map sqlTreeToSExp)
  | .and xs => .list (.atom "and" :: xs.toList.map sqlTreeToSExp)
  | .or xs => .list (.atom "or" :: xs.toList.map sqlTreeToSExp)
  | .not x => .list [.atom "not", sqlTreeToSExp x]

def sqlErrToSExp : SqlErr → SExp
  | .check e => .list [.atom "err", .atom "panic-compile", checkErrToSExp e]
  | .compilePanic => .list [.atom "err", .atom "panic-compile", .atom "unsupported"]
  | .envUndefined => .list [.atom "err", .atom "env-undefined"]
  | .envType => .list [.atom "err", .atom "env-type"]
  | .missingVar => .list [.atom "err", .atom "missing-var"]
  | .unsupportedVal => .list [.atom "err", .atom "unsupported-val"]
  | .nilVal => .list [.atom "err", .atom "nil-val"]
  | .stuck _ => .list [.atom "err", .atom "stuck"]

def handleSql : SExp → Option SExp
  | .list [.atom "sql", c, tenv, venv] => do
      let c ← criteriaOfSExp c
      let tenv ← tvarsOfSExp tenv
      let venv ← varsOfSExp venv
      match toSql c tenv venv with
      | .ok s => pure (.list [.atom "ok", encStr s])
      | .error e => pure (sqlErrToSExp e)
  | .list [.atom "sql.read", text] => do
      let text ← decStr text
      match readSql text with
      | some t => pure (.list [.atom "ok", sqlTreeToSExp (flatten t)])
      | none => pure (.list [.atom "err"])
  | .list [.atom "sql.tree", c, venv] => do
      let c ← criteriaOfSExp c
      let venv ← varsOfSExp venv
      match treeOf venv c with
      | some t => pure (.list [.atom "ok", sqlTreeToSExp (flatten t)])
      | none => pure (.list [.atom "err"])
  | .list [.atom "sql.c20", c, tenv, venv] => do
      let c ← criteriaOfSExp c
      let tenv ← tvarsOfSExp tenv
      let venv ← varsOfSExp venv
      match c20Check c tenv venv with
      | some b => pure (.list [.atom "ok", encBool b])
      | none => pure (.list [.atom "na"])
  | _ => none

end Yae.Driver
