/-
  Driver glue for the `valrel` stream (C18): equality, renderings, keys, set membership of a
  pair of values.
-/
import Yae.Driver.Wire
namespace Yae.Driver
open Yae SExp

def keySExp (v : Val) : SExp :=
  match v.key? with
  | some (t, k) => .list [.atom (kindAtom t), encStr k]
  | none => .atom "-"

def handleValRel (req : SExp) : Option SExp :=
  match req with
  | .list [.atom "valrel", a, b] => do
    let v ← valOfSExp a
    let w ← valOfSExp b
    let sameElem := (setUnion (valSetOf (.cons v .nil)) (valSetOf (.cons w .nil))).length == 1
    pure (.list [.atom "ok", encBool (valEq v w), encBool (valEq w v), encStr v.render, encStr w.render,
      keySExp v, keySExp w, encStr v.stringify, encStr w.stringify, encBool sameElem])
  | _ => none

end Yae.Driver
