/-
  Driver glue for the VM: `vmcode` (model compiler output), `vmrun` (model compiler + model
  machine), `verify` (the verifier on code emitted by the Go compiler).
-/
import Yae.Driver.Wire
import Yae.Model.Vm
import Yae.Model.VmVerify
namespace Yae.Driver
open Yae SExp Yae.Vm

def hexOfCode (c : Code) : SExp := .atom ("x" ++ hexOfBytes c.toList)

def codeOfHex : SExp → Option Code
  | .atom a =>
    match a.toList with
    | 'x' :: hs => (bytesOfHex hs).map fun bs => bs.toArray
    | _ => none
  | _ => none

def constToSExp : Const → SExp
  | .val v => .list [.atom "val", valToSExp v]
  | .ty t => .list [.atom "type", t.toSExp]
  | .name s => .list [.atom "name", encStr s]
  | .fn d => .list [.atom "fun", encBool d.isLazy, encStr (match d.ty with | .fn n _ _ => n | _ => "?")]
  | .thunk b _ => .list [.atom "thunk", hexOfCode b]

/-- constants as exported from the Go compiler (values are not needed by the verifier) -/
def constOfSExp : SExp → Option Const
  | .list [.atom "val"] => some (.val .nil)
  | .list [.atom "val", v] => (valOfSExp v).map .val
  | .list [.atom "type", t] => (Ty.ofSExp t).map .ty
  | .list [.atom "name", s] => (decStr s).map .name
  | .list [.atom "fun", l, n] => do
      pure (.fn { ty := .fn (← decStr n) .nil .bot, ref := .host (← decStr n) .fail, isLazy := ← decBool l })
  | .list [.atom "thunk", b] => do pure (.thunk (← codeOfHex b) .bot)
  | .list [.atom "other"] => some (.name "<other>")
  | _ => none

def cerrToSExp : CErr → SExp
  | .overflow => .atom "overflow"
  | .notDefined => .atom "notdefined"
  | .unreachable _ => .atom "unreachable"

def handleVm (req : SExp) : Option SExp :=
  match req with
  | .list [.atom "vmcode", funs, e] => do
    let funs ← funsOfSExp funs
    let e ← Expr.ofSExp e
    match compile funs e with
    | .ok (code, pool) =>
      pure (.list [.atom "ok", hexOfCode code, .list (pool.toList.map constToSExp), encBool (VmVerify.verify code pool)])
    | .error err => pure (.list [.atom "err", cerrToSExp err])
  | .list [.atom "vmrun", funs, vars, ext, e] => do
    let funs ← funsOfSExp funs
    let vars ← varsOfSExp vars
    let ext ← externsOfSExp ext
    let e ← Expr.ofSExp e
    match compile funs e with
    | .error err => pure (.list [.atom "refused", cerrToSExp err])
    | .ok (code, pool) =>
      let (r, evs) := runVm { vars := vars, funs := funs, ext := ext } code pool
      let evs := SExp.list (evs.map eventToSExp)
      match r with
      | .ok v => pure (.list [.atom "ok", valToSExp v, evs])
      | .error f => pure (.list [.atom "fail", failToSExp f, evs])
  | .list [.atom "verify", code, .list consts] => do
    let code ← codeOfHex code
    let pool ← consts.mapM constOfSExp
    pure (.list [.atom "ok", encBool (VmVerify.verify code pool.toArray)])
  | _ => none

end Yae.Driver
