/-
  Wire format of values, function tables, environments, events (driver glue, not part of the model).
-/
import Yae.Model.Eval
namespace Yae.Driver
open Yae SExp

def kindAtom : Kind → String
  | .num => "num" | .str => "str" | .bool => "bool" | .time => "time"
  | .top => "top" | .bot => "bot" | .tyvar => "tyvar" | .tuple => "tuple"
  | .list => "list" | .map => "map" | .obj => "obj" | .fn => "fun" | .maybe => "maybe"

def kindOfAtom : String → Option Kind
  | "num" => some .num | "str" => some .str | "bool" => some .bool | "time" => some .time
  | _ => none

def behToSExp : HostBeh → SExp
  | .retArg i => .list [.atom "ret", encNat i]
  | .constNum v => .list [.atom "cnum", encBits v.toBits]
  | .constStr v => .list [.atom "cstr", encStr v]
  | .constBool v => .list [.atom "cbool", encBool v]
  | .fail => .atom "fail"
  | .force order => .list (.atom "force" :: order.map encNat)

def behOfSExp : SExp → Option HostBeh
  | .list [.atom "ret", i] => do pure (.retArg (← decNat i))
  | .list [.atom "cnum", v] => do pure (.constNum (Float.ofBits (← decBits v)))
  | .list [.atom "cstr", v] => do pure (.constStr (← decStr v))
  | .list [.atom "cbool", v] => do pure (.constBool (← decBool v))
  | .atom "fail" => some .fail
  | .list (.atom "force" :: order) => do pure (.force (← order.mapM decNat))
  | _ => none

def refToSExp : FunRef → SExp
  | .builtin i => .list [.atom "builtin", encNat i]
  | .host n b => .list [.atom "host", encStr n, behToSExp b]

def refOfSExp : SExp → Option FunRef
  | .list [.atom "builtin", i] => do pure (.builtin (← decNat i))
  | .list [.atom "host", n, b] => do pure (.host (← decStr n) (← behOfSExp b))
  | _ => none

/-- NaN payloads are not observable in yae; both sides send NaN as one bit pattern -/
def encFloatC (v : Float) : SExp :=
  if v.isNaN then .atom "#7ff8000000000001" else encBits v.toBits

partial def valToSExp : Val → SExp
  | .num v => .list [.atom "num", encFloatC v]
  | .str v => .list [.atom "str", encStr v]
  | .bool v => .list [.atom "bool", encBool v]
  | .time t => .list [.atom "time", encInt t.sec, encNat t.nsec, encInt t.offset, encStr t.zone]
  | .list ty vs => .list (.atom "list" :: ty.toSExp :: vs.toList.map valToSExp)
  | .map ty es =>
    let ents := (es.toList.toArray.qsort (fun a b => a.2.1 < b.2.1)).toList
    .list (.atom "map" :: ty.toSExp :: ents.map fun (t, k, v) => .list [.atom (kindAtom t), encStr k, valToSExp v])
  | .obj ty vs => .list (.atom "obj" :: ty.toSExp :: vs.toList.map valToSExp)
  | .fn ty ref l => .list [.atom "fn", ty.toSExp, refToSExp ref, encBool l]
  | .just el v => .list [.atom "just", el.toSExp, valToSExp v]
  | .nothing el => .list [.atom "nothing", el.toSExp]
  | .nil => .atom "nil"

partial def valOfSExp : SExp → Option Val
  | .list [.atom "num", v] => do pure (.num (Float.ofBits (← decBits v)))
  | .list [.atom "str", v] => do pure (.str (← decStr v))
  | .list [.atom "bool", v] => do pure (.bool (← decBool v))
  | .list [.atom "time", s, n, o, z] => do pure (.time ⟨← decInt s, ← decNat n, ← decInt o, ← decStr z⟩)
  | .list (.atom "list" :: ty :: vs) => do
      pure (.list (← Ty.ofSExp ty) (ValList.ofList (← vs.mapM valOfSExp)))
  | .list (.atom "map" :: ty :: es) => do
      let es ← es.mapM fun
        | .list [.atom t, k, v] => do pure ((← kindOfAtom t), (← decStr k), (← valOfSExp v))
        | _ => none
      pure (.map (← Ty.ofSExp ty) (EntryList.ofList es))
  | .list (.atom "obj" :: ty :: vs) => do
      pure (.obj (← Ty.ofSExp ty) (ValList.ofList (← vs.mapM valOfSExp)))
  | .list [.atom "fn", ty, ref, l] => do pure (.fn (← Ty.ofSExp ty) (← refOfSExp ref) (← decBool l))
  | .list [.atom "just", el, v] => do pure (.just (← Ty.ofSExp el) (← valOfSExp v))
  | .list [.atom "nothing", el] => do pure (.nothing (← Ty.ofSExp el))
  | .atom "nil" => some .nil
  | _ => none

/-- function table: `builtins` stands for the whole built-in table in order -/
def funsOfSExp : SExp → Option (List FunDecl)
  | .list xs => do
    let parts ← xs.mapM fun
      | .atom "builtins" =>
        some ((List.range builtins.length).zip builtins |>.map fun (i, b) => ({ ty := b.ty, ref := .builtin i, isLazy := b.isLazy } : FunDecl))
      | .list [.atom "host", n, ty, l, b] => do
        pure [({ ty := ← Ty.ofSExp ty, ref := .host (← decStr n) (← behOfSExp b), isLazy := ← decBool l } : FunDecl)]
      | _ => none
    pure parts.flatten
  | _ => none

def tvarsOfSExp : SExp → Option (List (String × Ty))
  | .list xs => xs.mapM fun
    | .list [n, t] => do pure ((← decStr n), (← Ty.ofSExp t))
    | _ => none
  | _ => none

def varsOfSExp : SExp → Option (List (String × Val))
  | .list xs => xs.mapM fun
    | .list [n, v] => do pure ((← decStr n), (← valOfSExp v))
    | _ => none
  | _ => none

def externsOfSExp : SExp → Option Externs
  | .list [.list rs, .list ts] => do
    let rs ← rs.mapM fun
      | .list [p, s, .atom "true"] => do pure ((← decStr p), (← decStr s), some true)
      | .list [p, s, .atom "false"] => do pure ((← decStr p), (← decStr s), some false)
      | .list [p, s, .atom "err"] => do pure ((← decStr p), (← decStr s), (none : Option Bool))
      | _ => none
    let ts ← ts.mapM fun
      | .list [s, t] => do pure ((← decStr s), (← decInt t))
      | _ => none
    pure { regex := rs, strtotime := ts }
  | _ => none

def failToSExp : Fail → SExp
  | .indexOutOfRange => .atom "index"
  | .missingKey => .atom "key"
  | .modZero => .atom "modzero"
  | .badRegex => .atom "regex"
  | .hostFail n => .list [.atom "hostfail", encStr n]
  | .stuck _ => .list [.atom "stuck"]
  | .fuel => .atom "fuel"

def eventToSExp : Event → SExp
  | .call fn args => .list (.atom "call" :: encStr fn :: args.map encStr)
  | .print s => .list [.atom "print", encStr s]
  | .dbg v col => .list [.atom "dbg", encInt col, encStr v.render]

def checkErrToSExp : CheckErr → SExp
  | .type => .atom "type" | .undefined => .atom "undefined" | .arity => .atom "arity"
  | .reserved => .atom "reserved" | .nofun => .atom "nofun" | .noncallable => .atom "noncallable"
  | .mapkey => .atom "mapkey" | .dupfield => .atom "dupfield" | .unreachable => .atom "unreachable"
  | .panic _ => .atom "panic" | .fuel => .atom "fuel"

end Yae.Driver
