/- REGENERATED from /repo by harness/cmd/extract on every run. Do not edit. -/
namespace Yae.Gen

def epsilonBits : UInt64 := 0x3e112e0be826d695
def stackInit : Nat := 42
def stackGrow : Nat := 500
def callThreadLimit : Nat := 1024
def maxLevel : Nat := 100

/-- `oper.BuiltIn()`: kind, binding power (float32 widened, as bits), fixity -/
def builtinOperators : List (String × UInt64 × Nat) := [
  ("+", 0x4024000000000000, 1),
  ("-", 0x4024000000000000, 1),
  ("+", 0x401c000000000000, 3),
  ("-", 0x401c000000000000, 3),
  ("*", 0x4020000000000000, 3),
  ("/", 0x4020000000000000, 3),
  ("%", 0x4020000000000000, 3),
  ("^", 0x4022000000000000, 4),
  ("<=", 0x4018000000000000, 2),
  ("<", 0x4018000000000000, 2),
  (">=", 0x4018000000000000, 2),
  (">", 0x4018000000000000, 2),
  ("==", 0x4014000000000000, 2),
  ("!=", 0x4014000000000000, 2),
  ("||", 0x4008000000000000, 3),
  ("&&", 0x4010000000000000, 3),
  ("!", 0x4024000000000000, 1),
  ("or", 0x4008000000000000, 3),
  ("and", 0x4010000000000000, 3),
  ("not", 0x4024000000000000, 1)
]

def bpCond : UInt64 := 0x4000000000000000
def bpCall : UInt64 := 0x4028000000000000
def bpMember : UInt64 := 0x402a000000000000

end Yae.Gen
