/- REGENERATED from /repo by harness/cmd/extract on every run. Do not edit. -/
namespace Yae.Gen

/-- panic guards of the API layer: (file, function[/closure], how the recover is installed) -/
def panicGuards : List (String × String × String) := [
  ("conv/type.go", "typeOfRV", "defer:Recover"),
  ("conv/val.go", "valOfRV", "defer:Recover"),
  ("ext/sql.go", "CompileToSql/closure", "defer:literal"),
  ("facade.go", "Expr.Compile", "defer:backStrace"),
  ("facade.go", "Expr.backStrace", "helper:recover"),
  ("facade.go", "Expr.envCheck", "defer:backStrace"),
  ("facade.go", "Expr.makeCallable/closure", "defer:backStrace"),
  ("util/err.go", "Recover", "helper:recover")
]

end Yae.Gen
