/- REGENERATED from /repo by harness/cmd/extract on every run. Do not edit. -/
namespace Yae.Gen

/-- the regular expressions of the literal rules, in the order `newLexicon` registers them
(token kind constant, pattern as written in parser/lexer/factory.go) -/
def lexPatterns : List (String × String) := [
  ("NUM", "(?:0|[1-9][0-9]*)(?:[.][0-9]+)+(?:[eE][-+]?[0-9]+)?"),
  ("NUM", "(?:0|[1-9][0-9]*)(?:[.][0-9]+)?(?:[eE][-+]?[0-9]+)+"),
  ("NUM", "0b(?:0|1[0-1]*)"),
  ("NUM", "0x(?:0|[1-9a-fA-F][0-9a-fA-F]*)"),
  ("NUM", "0o(?:0|[1-7][0-7]*)"),
  ("NUM", "(?:0|[1-9][0-9]*)"),
  ("STR", "\"(?:[^\"\\\\]*|\\\\[\"\\\\trnbf\\/]|\\\\u[0-9a-fA-F]{4})*\""),
  ("STR", "`[^`]*`"),
  ("TIME", "'[^`\"']*'"),
  ("SYM", "[a-zA-Z\\p{L}_][a-zA-Z0-9\\p{L}_]*")
]

/-- `keywordPostfix` (parser/lexer/rule.go) -/
def keywordPostfixPattern : String := "^[a-zA-Z\\d\\p{L}_]+"
/-- `idReg` (parser/oper/operator.go) -/
def identOpPattern : String := "^[a-zA-Z\\p{L}_][a-zA-Z0-9\\p{L}_]*$"
/-- `operators` (parser/oper/operator.go) -/
def operatorAlphabet : String := ":!#$%^&*+./<=>?@\\ˆ|~-"

end Yae.Gen
