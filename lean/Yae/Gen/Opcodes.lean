/- REGENERATED from /repo by harness/cmd/extract on every run. Do not edit. -/
namespace Yae.Gen

def opcodeNames : List String := ["OP_NOP", "OP_RETURN", "OP_CONST", "OP_LOAD", "OP_ADD_NUM", "OP_ADD_NUM_NUM", "OP_ADD_STR_STR", "OP_SUB_NUM", "OP_SUB_NUM_NUM", "OP_SUB_TIME_TIME", "OP_MUL_NUM_NUM", "OP_DIV_NUM_NUM", "OP_MOD_NUM_NUM", "OP_EXP_NUM_NUM", "OP_ABS_NUM", "OP_CEIL_NUM", "OP_FLOOR_NUM", "OP_ROUND_NUM", "OP_MIN_NUM_NUM", "OP_MAX_NUM_NUM", "OP_EQ_NUM_NUM", "OP_EQ_BOOL_BOOL", "OP_EQ_STR_STR", "OP_EQ_TIME_TIME", "OP_EQ_LIST_LIST", "OP_EQ_MAP_MAP", "OP_NE_NUM_NUM", "OP_NE_BOOL_BOOL", "OP_NE_STR_STR", "OP_NE_TIME_TIME", "OP_NE_LIST_LIST", "OP_NE_MAP_MAP", "OP_LT_NUM_NUM", "OP_LT_TIME_TIME", "OP_LE_NUM_NUM", "OP_LE_TIME_TIME", "OP_GT_NUM_NUM", "OP_GT_TIME_TIME", "OP_GE_NUM_NUM", "OP_GE_TIME_TIME", "OP_NEW_LIST", "OP_NEW_MAP", "OP_NEW_OBJ", "OP_LIST_LOAD", "OP_MAP_LOAD", "OP_OBJ_LOAD", "OP_LEN_STR", "OP_LEN_LIST", "OP_LEN_MAP", "OP_STRTOTIME_STR", "OP_CALL_BY_VALUE", "OP_CALL_BY_NEED", "OP_DYNAMIC_CALL", "OP_GET_MAYBE", "OP_IF_TRUE", "OP_LOGICAL_NOT", "OP_JUMP"]

/-- call-by-value intrinsics: function signature ↦ opcode, sorted by signature -/
def intrinsicsByValue : List (String × String) := [
  ("func !=(bool, bool) bool", "OP_NE_BOOL_BOOL"),
  ("func !=(list['a], list['a]) bool", "OP_NE_LIST_LIST"),
  ("func !=(map['k, 'v], map['k, 'v]) bool", "OP_NE_MAP_MAP"),
  ("func !=(num, num) bool", "OP_NE_NUM_NUM"),
  ("func !=(str, str) bool", "OP_NE_STR_STR"),
  ("func !=(time, time) bool", "OP_NE_TIME_TIME"),
  ("func %(num, num) num", "OP_MOD_NUM_NUM"),
  ("func *(num, num) num", "OP_MUL_NUM_NUM"),
  ("func +(num) num", "OP_ADD_NUM"),
  ("func +(num, num) num", "OP_ADD_NUM_NUM"),
  ("func +(str, str) str", "OP_ADD_STR_STR"),
  ("func -(num) num", "OP_SUB_NUM"),
  ("func -(num, num) num", "OP_SUB_NUM_NUM"),
  ("func -(time, time) num", "OP_SUB_TIME_TIME"),
  ("func /(num, num) num", "OP_DIV_NUM_NUM"),
  ("func <(num, num) bool", "OP_LT_NUM_NUM"),
  ("func <(time, time) bool", "OP_LT_TIME_TIME"),
  ("func <=(num, num) bool", "OP_LE_NUM_NUM"),
  ("func <=(time, time) bool", "OP_LE_TIME_TIME"),
  ("func ==(bool, bool) bool", "OP_EQ_BOOL_BOOL"),
  ("func ==(list['a], list['a]) bool", "OP_EQ_LIST_LIST"),
  ("func ==(map['k, 'v], map['k, 'v]) bool", "OP_EQ_MAP_MAP"),
  ("func ==(num, num) bool", "OP_EQ_NUM_NUM"),
  ("func ==(str, str) bool", "OP_EQ_STR_STR"),
  ("func ==(time, time) bool", "OP_EQ_TIME_TIME"),
  ("func >(num, num) bool", "OP_GT_NUM_NUM"),
  ("func >(time, time) bool", "OP_GT_TIME_TIME"),
  ("func >=(num, num) bool", "OP_GE_NUM_NUM"),
  ("func >=(time, time) bool", "OP_GE_TIME_TIME"),
  ("func ^(num, num) num", "OP_EXP_NUM_NUM"),
  ("func abs(num) num", "OP_ABS_NUM"),
  ("func ceil(num) num", "OP_CEIL_NUM"),
  ("func floor(num) num", "OP_FLOOR_NUM"),
  ("func get(maybe['a], 'a) 'a", "OP_GET_MAYBE"),
  ("func len(list['a]) num", "OP_LEN_LIST"),
  ("func len(map['k, 'v]) num", "OP_LEN_MAP"),
  ("func len(str) num", "OP_LEN_STR"),
  ("func max(num, num) num", "OP_MAX_NUM_NUM"),
  ("func min(num, num) num", "OP_MIN_NUM_NUM"),
  ("func round(num) num", "OP_ROUND_NUM"),
  ("func strtotime(str) time", "OP_STRTOTIME_STR")
]

/-- call-by-need intrinsics (compiled to jumps), sorted -/
def intrinsicsByNeed : List String := ["func !(bool) bool", "func &&(bool, bool) bool", "func if(bool, 'a, 'a) 'a", "func ||(bool, bool) bool"]

end Yae.Gen
