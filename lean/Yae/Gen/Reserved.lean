/- REGENERATED from /repo by harness/cmd/extract on every run. Do not edit. -/
namespace Yae.Gen

def reservedWords : List String := ["byte", "int", "float", "double", "string", "bool", "boolean", "ch", "void", "type", "var", "def", "define", "let", "rec", "mut", "fun", "fn", "function", "record", "struct", "map", "list", "object", "class", "trait", "interface", "sealed", "extends", "prefix", "infixl", "infixr", "infixn", "for", "do", "while", "switch", "cast", "range", "match", "select", "break", "continue", "return", "try", "catch", "throw", "finally", "import", "as", "module", "package", "namespace", "assert", "debugger"]

end Yae.Gen
