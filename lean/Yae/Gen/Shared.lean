/- REGENERATED from /repo by harness/cmd/extract on every run. Do not edit. -/
namespace Yae.Gen

/-- write sites to state shared between API calls: (package, variable, guard) -/
def sharedWrites : List (String × String × String) := [
  ("parser/ast", "n", "plain"),
  ("timelib", "tzCache", "mutex"),
  ("types", "n", "atomic")
]

end Yae.Gen
