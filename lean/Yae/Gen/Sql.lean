/- REGENERATED from /repo by harness/cmd/extract on every run. Do not edit. -/
namespace Yae.Gen

/-- `sql.BuiltIn()` in registration order: rendered signature, the text the registered
formatter produces for the arguments `<0>`, `<1>`, … and, for a logical connective, its
precedence in `logicalFunPrecTbl` (float32 widened, as bits) -/
def sqlFuns : List (String × String × Option UInt64) := [
  ("func BETWEEN(num, num, num) bool", "<0> BETWEEN <1> AND <2>", none),
  ("func BETWEEN(time, time, time) bool", "<0> BETWEEN <1> AND <2>", none),
  ("func =(bool, bool) bool", "<0> = <1>", none),
  ("func =(num, num) bool", "<0> = <1>", none),
  ("func =(str, str) bool", "<0> = <1>", none),
  ("func =(time, time) bool", "<0> = <1>", none),
  ("func >=(num, num) bool", "<0> >= <1>", none),
  ("func >=(time, time) bool", "<0> >= <1>", none),
  ("func >(num, num) bool", "<0> > <1>", none),
  ("func >(time, time) bool", "<0> > <1>", none),
  ("func IN('a, list['a]) bool", "<0> IN <1>", none),
  ("func ISNULL('a) bool", "<0> IS NULL", none),
  ("func <=(num, num) bool", "<0> <= <1>", none),
  ("func <=(time, time) bool", "<0> <= <1>", none),
  ("func LIKE(str, str) bool", "<0> LIKE <1>", none),
  ("func AND(bool, bool) bool", "<0> AND <1>", some 0x4010000000000000),
  ("func NOT(bool) bool", "NOT <0>", some 0x4024000000000000),
  ("func OR(bool, bool) bool", "<0> OR <1>", some 0x4008000000000000),
  ("func <(num, num) bool", "<0> < <1>", none),
  ("func <(time, time) bool", "<0> < <1>", none),
  ("func <>(bool, bool) bool", "<0> <> <1>", none),
  ("func <>(num, num) bool", "<0> <> <1>", none),
  ("func <>(str, str) bool", "<0> <> <1>", none),
  ("func <>(time, time) bool", "<0> <> <1>", none)
]

end Yae.Gen
