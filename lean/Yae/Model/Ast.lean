/-
  `parser/ast`: expression trees, sugar included, with the attachments the checker writes
  (`Type`, `CalleeType`, `Resolved`, `Index`, `VarType`, `ObjType`).
-/
import Yae.Model.Token
import Yae.Model.Ty
namespace Yae

mutual
inductive Expr where
  | str (p : Pos) (v : String)
  | num (p : Pos) (v : Float)
  | time (p : Pos) (v : Int)
  | bool (p : Pos) (v : Bool)
  | list (p : Pos) (es : ExprList) (ty : Option Ty)
  | map (p : Pos) (ps : PairList) (ty : Option Ty)
  | obj (p : Pos) (fs : FieldEList) (ty : Option Ty)
  | ident (p : Pos) (name : String)
  /-- `col` is the `DBGCol`; `resolved = ""` means dynamic dispatch; `index < 0` means mono. -/
  | call (p : Pos) (col : Int) (callee : Expr) (args : ExprList)
         (calleeTy : Option Ty) (resolved : String) (index : Int)
  | subscript (p : Pos) (col : Int) (var idx : Expr) (varTy : Option Ty)
  | member (p : Pos) (col : Int) (obj : Expr) (field : String) (fieldPos : Pos)
           (objTy : Option Ty) (index : Int)
  -- sugar, removed by `Desugar`
  | unary (p : Pos) (name : String) (namePos : Pos) (operand : Expr) (isPrefix : Bool)
  | binary (p : Pos) (name : String) (namePos : Pos) (fixity : Nat) (lhs rhs : Expr)
  | ternary (p : Pos) (name : String) (namePos : Pos) (l m r : Expr)
  | group (p : Pos) (sub : Expr)
inductive ExprList where
  | nil
  | cons (e : Expr) (es : ExprList)
inductive PairList where
  | nil
  | cons (k v : Expr) (ps : PairList)
inductive FieldEList where
  | nil
  | cons (name : String) (e : Expr) (fs : FieldEList)
end

instance : Inhabited Expr := ⟨.bool Pos.unknown false⟩
instance : Inhabited ExprList := ⟨.nil⟩

namespace ExprList
def toList : ExprList → List Expr
  | .nil => []
  | .cons e es => e :: toList es
def ofList : List Expr → ExprList
  | [] => .nil
  | e :: es => .cons e (ofList es)
def length : ExprList → Nat
  | .nil => 0
  | .cons _ es => length es + 1
def get? : ExprList → Nat → Option Expr
  | .nil, _ => none
  | .cons e _, 0 => some e
  | .cons _ es, n+1 => get? es n
end ExprList

namespace PairList
def toList : PairList → List (Expr × Expr)
  | .nil => []
  | .cons k v ps => (k, v) :: toList ps
def ofList : List (Expr × Expr) → PairList
  | [] => .nil
  | (k, v) :: ps => .cons k v (ofList ps)
def length : PairList → Nat
  | .nil => 0
  | .cons _ _ ps => length ps + 1
end PairList

namespace FieldEList
def toList : FieldEList → List (String × Expr)
  | .nil => []
  | .cons n e fs => (n, e) :: toList fs
def ofList : List (String × Expr) → FieldEList
  | [] => .nil
  | (n, e) :: fs => .cons n e (ofList fs)
def length : FieldEList → Nat
  | .nil => 0
  | .cons _ _ fs => length fs + 1
end FieldEList

def Expr.pos : Expr → Pos
  | .str p _ | .num p _ | .time p _ | .bool p _ | .list p _ _ | .map p _ _ | .obj p _ _
  | .ident p _ | .call p _ _ _ _ _ _ | .subscript p _ _ _ _ | .member p _ _ _ _ _ _
  | .unary p _ _ _ _ | .binary p _ _ _ _ _ | .ternary p _ _ _ _ _ | .group p _ => p

mutual
def Expr.depth : Expr → Nat
  | .list _ es _ => depthList es + 1
  | .map _ ps _ => depthPairs ps + 1
  | .obj _ fs _ => depthFields fs + 1
  | .call _ _ c as _ _ _ => max c.depth (depthList as) + 1
  | .subscript _ _ v i _ => max v.depth i.depth + 1
  | .member _ _ o _ _ _ _ => o.depth + 1
  | .unary _ _ _ e _ => e.depth + 1
  | .binary _ _ _ _ l r => max l.depth r.depth + 1
  | .ternary _ _ _ l m r => max l.depth (max m.depth r.depth) + 1
  | .group _ e => e.depth + 1
  | _ => 1
def depthList : ExprList → Nat
  | .nil => 0
  | .cons e es => max e.depth (depthList es)
def depthPairs : PairList → Nat
  | .nil => 0
  | .cons k v ps => max (max k.depth v.depth) (depthPairs ps)
def depthFields : FieldEList → Nat
  | .nil => 0
  | .cons _ e fs => max e.depth (depthFields fs)
end

/-! ### wire format

Positions are `(idx idxEnd col line)`.  Attachments are printed only when present. -/
open SExp

def Pos.toSExp (p : Pos) : SExp :=
  .list [encInt p.idx, encInt p.idxEnd, encInt p.col, encInt p.line]

def Pos.ofSExp : SExp → Option Pos
  | .list [a, b, c, d] => do pure ⟨← decInt a, ← decInt b, ← decInt c, ← decInt d⟩
  | _ => none

def optTy (t : Option Ty) : SExp :=
  match t with
  | none => .atom "-"
  | some t => t.toSExp

def optTyOf : SExp → Option (Option Ty)
  | .atom "-" => some none
  | s => (Ty.ofSExp s).map some

partial def Expr.toSExp : Expr → SExp
  | .str p v => .list [.atom "str", p.toSExp, encStr v]
  | .num p v => .list [.atom "num", p.toSExp, encBits v.toBits]
  | .time p v => .list [.atom "time", p.toSExp, encInt v]
  | .bool p v => .list [.atom "bool", p.toSExp, encBool v]
  | .list p es ty => .list [.atom "list", p.toSExp, optTy ty, .list (es.toList.map Expr.toSExp)]
  | .map p ps ty => .list [.atom "map", p.toSExp, optTy ty,
      .list (ps.toList.map fun (k, v) => .list [k.toSExp, v.toSExp])]
  | .obj p fs ty => .list [.atom "obj", p.toSExp, optTy ty,
      .list (fs.toList.map fun (n, e) => .list [encStr n, e.toSExp])]
  | .ident p n => .list [.atom "ident", p.toSExp, encStr n]
  | .call p col c as cty res idx => .list [.atom "call", p.toSExp, encInt col, c.toSExp,
      .list (as.toList.map Expr.toSExp), optTy cty, encStr res, encInt idx]
  | .subscript p col v i vty => .list [.atom "subscript", p.toSExp, encInt col, v.toSExp, i.toSExp, optTy vty]
  | .member p col o f fp oty idx => .list [.atom "member", p.toSExp, encInt col, o.toSExp, encStr f,
      fp.toSExp, optTy oty, encInt idx]
  | .unary p n np e pre => .list [.atom "unary", p.toSExp, encStr n, np.toSExp, e.toSExp, encBool pre]
  | .binary p n np fx l r => .list [.atom "binary", p.toSExp, encStr n, np.toSExp, encNat fx, l.toSExp, r.toSExp]
  | .ternary p n np l m r => .list [.atom "ternary", p.toSExp, encStr n, np.toSExp, l.toSExp, m.toSExp, r.toSExp]
  | .group p e => .list [.atom "group", p.toSExp, e.toSExp]

partial def Expr.ofSExp : SExp → Option Expr
  | .list [.atom "str", p, v] => do pure (.str (← Pos.ofSExp p) (← decStr v))
  | .list [.atom "num", p, v] => do pure (.num (← Pos.ofSExp p) (Float.ofBits (← decBits v)))
  | .list [.atom "time", p, v] => do pure (.time (← Pos.ofSExp p) (← decInt v))
  | .list [.atom "bool", p, v] => do pure (.bool (← Pos.ofSExp p) (← decBool v))
  | .list [.atom "list", p, ty, .list es] => do
      pure (.list (← Pos.ofSExp p) (ExprList.ofList (← es.mapM Expr.ofSExp)) (← optTyOf ty))
  | .list [.atom "map", p, ty, .list ps] => do
      let ps ← ps.mapM fun
        | .list [k, v] => do pure ((← Expr.ofSExp k), (← Expr.ofSExp v))
        | _ => none
      pure (.map (← Pos.ofSExp p) (PairList.ofList ps) (← optTyOf ty))
  | .list [.atom "obj", p, ty, .list fs] => do
      let fs ← fs.mapM fun
        | .list [n, e] => do pure ((← decStr n), (← Expr.ofSExp e))
        | _ => none
      pure (.obj (← Pos.ofSExp p) (FieldEList.ofList fs) (← optTyOf ty))
  | .list [.atom "ident", p, n] => do pure (.ident (← Pos.ofSExp p) (← decStr n))
  | .list [.atom "call", p, col, c, .list as, cty, res, idx] => do
      pure (.call (← Pos.ofSExp p) (← decInt col) (← Expr.ofSExp c)
        (ExprList.ofList (← as.mapM Expr.ofSExp)) (← optTyOf cty) (← decStr res) (← decInt idx))
  | .list [.atom "subscript", p, col, v, i, vty] => do
      pure (.subscript (← Pos.ofSExp p) (← decInt col) (← Expr.ofSExp v) (← Expr.ofSExp i) (← optTyOf vty))
  | .list [.atom "member", p, col, o, f, fp, oty, idx] => do
      pure (.member (← Pos.ofSExp p) (← decInt col) (← Expr.ofSExp o) (← decStr f) (← Pos.ofSExp fp)
        (← optTyOf oty) (← decInt idx))
  | .list [.atom "unary", p, n, np, e, pre] => do
      pure (.unary (← Pos.ofSExp p) (← decStr n) (← Pos.ofSExp np) (← Expr.ofSExp e) (← decBool pre))
  | .list [.atom "binary", p, n, np, fx, l, r] => do
      pure (.binary (← Pos.ofSExp p) (← decStr n) (← Pos.ofSExp np) (← decNat fx) (← Expr.ofSExp l) (← Expr.ofSExp r))
  | .list [.atom "ternary", p, n, np, l, m, r] => do
      pure (.ternary (← Pos.ofSExp p) (← decStr n) (← Pos.ofSExp np) (← Expr.ofSExp l) (← Expr.ofSExp m) (← Expr.ofSExp r))
  | .list [.atom "group", p, e] => do pure (.group (← Pos.ofSExp p) (← Expr.ofSExp e))
  | _ => none

/-- Is the node directly a `Member`?  (`o.f(args)` is the method-call form exactly then.) -/
def Expr.isMember : Expr → Bool
  | .member .. => true
  | _ => false

end Yae
