/-
  `fun/*.go`: the built-in function table in registration order (`fun.BuiltIn()`), and what
  each strict built-in computes.  Lazy built-ins (`if`, `&&`, `||`) are evaluated by `Eval`.
  `Gen/Builtins.lean` (regenerated from the code) must equal the signatures listed here.
-/
import Yae.Model.Val
namespace Yae

/-- Failures of evaluation.  The first four are the documented partial operations. -/
inductive Fail where
  | indexOutOfRange
  | missingKey
  | modZero
  | badRegex
  | hostFail (name : String)     -- a host function that fails on purpose (harness)
  | stuck (what : String)        -- internal fault: unchecked cast, nil, unreachable, …
  | fuel                         -- never for the fuel the callers pass (theorem)
  deriving Repr, DecidableEq, Inhabited

inductive Event where
  | call (fn : String) (args : List String)   -- host function invoked with rendered arguments
  | print (text : String)                     -- a line written to standard output
  | dbg (v : Val) (col : Int)                 -- debug record entry
  deriving Inhabited

/-- Functions of the Go runtime / cgo that the model does not re-implement: a table of the
argument/result pairs a run needs, supplied by the harness from the real functions. -/
structure Externs where
  regex : List (String × String × Option Bool) := []   -- pattern, subject ↦ matched / invalid pattern
  strtotime : List (String × Int) := []
  deriving Inhabited

def Externs.regex? (x : Externs) (p s : String) : Option (Option Bool) :=
  (x.regex.find? fun e => e.1 == p && e.2.1 == s).map (·.2.2)

def Externs.strtotime? (x : Externs) (s : String) : Option Int :=
  (x.strtotime.find? fun e => e.1 == s).map (·.2)

inductive BId where
  | ABS_NUM | ADD_NUM | ADD_NUM_NUM | ADD_STR_STR | CEIL_NUM | DIFF_LIST_LIST | DIV_NUM_NUM
  | EQ_BOOL_BOOL | EQ_LIST_LIST | EQ_MAP_MAP | EQ_NUM_NUM | EQ_STR_STR | EQ_TIME_TIME
  | EXP_NUM_NUM | FLOOR_NUM | GET_LIST_NUM_ANY | GET_MAP_ANY_ANY | GET_MAYBE
  | GE_NUM_NUM | GE_TIME_TIME | GT_NUM_NUM | GT_TIME_TIME | IF_BOOL_ANY_ANY
  | INTERSECT_LIST_LIST | ISSET_MAP_ANY | LEN_LIST | LEN_MAP | LEN_STR
  | LE_NUM_NUM | LE_TIME_TIME | LOGIC_AND_BOOL_BOOL | LOGIC_NOT_BOOL | LOGIC_OR_BOOL_BOOL
  | LT_NUM_NUM | LT_TIME_TIME | MATCH_STR_STR | MAX_LIST | MAX_NUM_NUM | MIN_LIST | MIN_NUM_NUM
  | MOD_NUM_NUM | MUL_NUM_NUM | NE_BOOL_BOOL | NE_LIST_LIST | NE_MAP_MAP | NE_NUM_NUM
  | NE_STR_STR | NE_TIME_TIME | PRINT_ANY | ROUND_NUM | STRING_ANY | STRTOTIME_STR
  | SUB_NUM | SUB_NUM_NUM | SUB_TIME_TIME | UNION_LIST_LIST
  deriving DecidableEq, Repr, Inhabited

structure BuiltinDecl where
  id : BId
  ty : Ty
  isLazy : Bool := false

private def tl (xs : List Ty) : TyList := TyList.ofList xs
private def a : Ty := .var "a"
private def k : Ty := .var "k"
private def v : Ty := .var "v"
private def f (name : String) (ps : List Ty) (r : Ty) : Ty := .fn name (tl ps) r

/-- `fun.BuiltIn()` in order (fun/gen.go lists the variables alphabetically). -/
def builtins : List BuiltinDecl := [
  ⟨.ABS_NUM, f "abs" [.num] .num, false⟩,
  ⟨.ADD_NUM, f "+" [.num] .num, false⟩,
  ⟨.ADD_NUM_NUM, f "+" [.num, .num] .num, false⟩,
  ⟨.ADD_STR_STR, f "+" [.str, .str] .str, false⟩,
  ⟨.CEIL_NUM, f "ceil" [.num] .num, false⟩,
  ⟨.DIFF_LIST_LIST, f "diff" [.list a, .list a] (.list a), false⟩,
  ⟨.DIV_NUM_NUM, f "/" [.num, .num] .num, false⟩,
  ⟨.EQ_BOOL_BOOL, f "==" [.bool, .bool] .bool, false⟩,
  ⟨.EQ_LIST_LIST, f "==" [.list a, .list a] .bool, false⟩,
  ⟨.EQ_MAP_MAP, f "==" [.map k v, .map k v] .bool, false⟩,
  ⟨.EQ_NUM_NUM, f "==" [.num, .num] .bool, false⟩,
  ⟨.EQ_STR_STR, f "==" [.str, .str] .bool, false⟩,
  ⟨.EQ_TIME_TIME, f "==" [.time, .time] .bool, false⟩,
  ⟨.EXP_NUM_NUM, f "^" [.num, .num] .num, false⟩,
  ⟨.FLOOR_NUM, f "floor" [.num] .num, false⟩,
  ⟨.GET_LIST_NUM_ANY, f "get" [.list a, .num, a] a, false⟩,
  ⟨.GET_MAP_ANY_ANY, f "get" [.map k v, k, v] v, false⟩,
  ⟨.GET_MAYBE, f "get" [.maybe a, a] a, false⟩,
  ⟨.GE_NUM_NUM, f ">=" [.num, .num] .bool, false⟩,
  ⟨.GE_TIME_TIME, f ">=" [.time, .time] .bool, false⟩,
  ⟨.GT_NUM_NUM, f ">" [.num, .num] .bool, false⟩,
  ⟨.GT_TIME_TIME, f ">" [.time, .time] .bool, false⟩,
  ⟨.IF_BOOL_ANY_ANY, f "if" [.bool, a, a] a, true⟩,
  ⟨.INTERSECT_LIST_LIST, f "intersect" [.list a, .list a] (.list a), false⟩,
  ⟨.ISSET_MAP_ANY, f "isset" [.map k v, k] .bool, false⟩,
  ⟨.LEN_LIST, f "len" [.list a] .num, false⟩,
  ⟨.LEN_MAP, f "len" [.map k v] .num, false⟩,
  ⟨.LEN_STR, f "len" [.str] .num, false⟩,
  ⟨.LE_NUM_NUM, f "<=" [.num, .num] .bool, false⟩,
  ⟨.LE_TIME_TIME, f "<=" [.time, .time] .bool, false⟩,
  ⟨.LOGIC_AND_BOOL_BOOL, f "&&" [.bool, .bool] .bool, true⟩,
  ⟨.LOGIC_NOT_BOOL, f "!" [.bool] .bool, false⟩,
  ⟨.LOGIC_OR_BOOL_BOOL, f "||" [.bool, .bool] .bool, true⟩,
  ⟨.LT_NUM_NUM, f "<" [.num, .num] .bool, false⟩,
  ⟨.LT_TIME_TIME, f "<" [.time, .time] .bool, false⟩,
  ⟨.MATCH_STR_STR, f "match" [.str, .str] .bool, false⟩,
  ⟨.MAX_LIST, f "max" [.list .num] .num, false⟩,
  ⟨.MAX_NUM_NUM, f "max" [.num, .num] .num, false⟩,
  ⟨.MIN_LIST, f "min" [.list .num] .num, false⟩,
  ⟨.MIN_NUM_NUM, f "min" [.num, .num] .num, false⟩,
  ⟨.MOD_NUM_NUM, f "%" [.num, .num] .num, false⟩,
  ⟨.MUL_NUM_NUM, f "*" [.num, .num] .num, false⟩,
  ⟨.NE_BOOL_BOOL, f "!=" [.bool, .bool] .bool, false⟩,
  ⟨.NE_LIST_LIST, f "!=" [.list a, .list a] .bool, false⟩,
  ⟨.NE_MAP_MAP, f "!=" [.map k v, .map k v] .bool, false⟩,
  ⟨.NE_NUM_NUM, f "!=" [.num, .num] .bool, false⟩,
  ⟨.NE_STR_STR, f "!=" [.str, .str] .bool, false⟩,
  ⟨.NE_TIME_TIME, f "!=" [.time, .time] .bool, false⟩,
  ⟨.PRINT_ANY, f "print" [a] a, false⟩,
  ⟨.ROUND_NUM, f "round" [.num] .num, false⟩,
  ⟨.STRING_ANY, f "string" [a] .str, false⟩,
  ⟨.STRTOTIME_STR, f "strtotime" [.str] .time, false⟩,
  ⟨.SUB_NUM, f "-" [.num] .num, false⟩,
  ⟨.SUB_NUM_NUM, f "-" [.num, .num] .num, false⟩,
  ⟨.SUB_TIME_TIME, f "-" [.time, .time] .num, false⟩,
  ⟨.UNION_LIST_LIST, f "union" [.list a, .list a] (.list a), false⟩
]

/-- `(rendered signature, lazy)` in registration order: compared with the regenerated table. -/
def builtinSigs : List (String × Bool) := builtins.map fun b => (b.ty.render, b.isLazy)

/-! ### set functions (`fun/list.go`) -/

/-- `valSetOf`: first occurrence of every rendering, in order. -/
def valSetOf : ValList → List (String × Val)
  | .nil => []
  | .cons x xs =>
    let rest := valSetOf xs
    let h := x.render
    (h, x) :: rest.filter (fun e => e.1 != h)

def setHas (s : List (String × Val)) (h : String) : Bool := s.any (fun e => e.1 == h)
def setGet (s : List (String × Val)) (h : String) : Option Val := (s.find? (fun e => e.1 == h)).map (·.2)

def setUnion (x y : List (String × Val)) : List Val :=
  x.map (·.2) ++ (y.filter fun e => !setHas x e.1).map (·.2)
def setIntersect (x y : List (String × Val)) : List Val :=
  x.filterMap fun e => setGet y e.1
def setDiff (x y : List (String × Val)) : List Val :=
  (x.filter fun e => !setHas y e.1).map (·.2)

def maxList (x : Float) : ValList → Float
  | .nil => x
  | .cons (.num y) ys => maxList (Num.maxF x y) ys
  | .cons _ ys => maxList x ys
def minList (x : Float) : ValList → Float
  | .nil => x
  | .cons (.num y) ys => minList (Num.minF x y) ys
  | .cons _ ys => minList x ys

def stuckCast (what : String) : Except Fail α := .error (.stuck ("cast:" ++ what))

/-- Result of applying a strict built-in: the value and what it wrote to standard output. -/
def applyBuiltin (ext : Externs) (id : BId) (args : List Val) : Except Fail (Val × List Event) :=
  let ret (x : Val) : Except Fail (Val × List Event) := .ok (x, [])
  match id, args with
  | .ABS_NUM, [.num x] => ret (.num (Num.absF x))
  | .ADD_NUM, [x] => ret x
  | .ADD_NUM_NUM, [.num x, .num y] => ret (.num (x + y))
  | .ADD_STR_STR, [.str x, .str y] => ret (.str (x ++ y))
  | .CEIL_NUM, [.num x] => ret (.num (Num.ceilF x))
  | .FLOOR_NUM, [.num x] => ret (.num (Num.floorF x))
  | .ROUND_NUM, [.num x] => ret (.num (Num.roundF x))
  | .SUB_NUM, [.num x] => ret (.num (Num.negF x))
  | .SUB_NUM_NUM, [.num x, .num y] => ret (.num (x - y))
  | .SUB_TIME_TIME, [.time x, .time y] => ret (.num (x.subSeconds y))
  | .MUL_NUM_NUM, [.num x, .num y] => ret (.num (x * y))
  | .DIV_NUM_NUM, [.num x, .num y] => ret (.num (x / y))
  | .MOD_NUM_NUM, [.num x, .num y] =>
    let d := Num.toInt64 y
    if d = 0 then .error .modZero
    else ret (.num (Float.ofInt (Int.tmod (Num.toInt64 x) d)))
  | .EXP_NUM_NUM, [.num x, .num y] => ret (.num (Float.pow x y))
  | .MAX_NUM_NUM, [.num x, .num y] => ret (.num (Num.maxF x y))
  | .MIN_NUM_NUM, [.num x, .num y] => ret (.num (Num.minF x y))
  | .MAX_LIST, [.list _ vs] =>
    (match vs with
     | .nil => ret (.num 0)
     | .cons (.num x) rest => ret (.num (maxList x rest))
     | _ => stuckCast "max")
  | .MIN_LIST, [.list _ vs] =>
    (match vs with
     | .nil => ret (.num 0)
     | .cons (.num x) rest => ret (.num (minList x rest))
     | _ => stuckCast "min")
  | .EQ_BOOL_BOOL, [.bool x, .bool y] => ret (.bool (x == y))
  | .NE_BOOL_BOOL, [.bool x, .bool y] => ret (.bool (x != y))
  | .EQ_NUM_NUM, [.num x, .num y] => ret (.bool (numEQ x y))
  | .NE_NUM_NUM, [.num x, .num y] => ret (.bool (numNE x y))
  | .EQ_STR_STR, [.str x, .str y] => ret (.bool (x == y))
  | .NE_STR_STR, [.str x, .str y] => ret (.bool (x != y))
  | .EQ_TIME_TIME, [.time x, .time y] => ret (.bool (x.equal y))
  | .NE_TIME_TIME, [.time x, .time y] => ret (.bool (!x.equal y))
  | .EQ_LIST_LIST, [x, y] => ret (.bool (valEq x y))
  | .NE_LIST_LIST, [x, y] => ret (.bool (!valEq x y))
  | .EQ_MAP_MAP, [x, y] => ret (.bool (valEq x y))
  | .NE_MAP_MAP, [x, y] => ret (.bool (!valEq x y))
  | .GT_NUM_NUM, [.num x, .num y] => ret (.bool (numGT x y))
  | .GE_NUM_NUM, [.num x, .num y] => ret (.bool (numGE x y))
  | .LT_NUM_NUM, [.num x, .num y] => ret (.bool (numLT x y))
  | .LE_NUM_NUM, [.num x, .num y] => ret (.bool (numLE x y))
  | .GT_TIME_TIME, [.time x, .time y] => ret (.bool (x.after y))
  | .GE_TIME_TIME, [.time x, .time y] => ret (.bool (x.after y || x.equal y))
  | .LT_TIME_TIME, [.time x, .time y] => ret (.bool (x.before y))
  | .LE_TIME_TIME, [.time x, .time y] => ret (.bool (x.before y || x.equal y))
  | .LOGIC_NOT_BOOL, [.bool x] => ret (.bool (!x))
  | .LEN_STR, [.str s] => ret (.num (Float.ofNat s.length))
  | .LEN_LIST, [.list _ vs] => ret (.num (Float.ofNat vs.length))
  | .LEN_MAP, [.map _ es] => ret (.num (Float.ofNat es.length))
  | .MATCH_STR_STR, [.str p, .str s] =>
    (match ext.regex? p s with
     | some (some b) => ret (.bool b)
     | some none => .error .badRegex
     | none => .error (.stuck "extern-miss:regex"))
  | .STRTOTIME_STR, [.str s] =>
    (match ext.strtotime? s with
     | some ts => ret (.time (TimeV.unix ts))
     | none => .error (.stuck "extern-miss:strtotime"))
  | .STRING_ANY, [x] => ret (.str x.stringify)
  | .PRINT_ANY, [x] => .ok (x, [.print x.render])
  | .ISSET_MAP_ANY, [.map _ es, key] =>
    (match key.key? with
     | some (t, ks) => ret (.bool (es.find? t ks).isSome)
     | none => .error (.stuck "invalid map key type"))
  | .GET_MAP_ANY_ANY, [.map _ es, key, dflt] =>
    (match key.key? with
     | some (t, ks) =>
       (match es.find? t ks with
        | some .nil => ret dflt
        | some x => ret x
        | none => ret dflt)
     | none => .error (.stuck "invalid map key type"))
  | .GET_LIST_NUM_ANY, [.list _ vs, .num i, dflt] =>
    let idx := Num.toInt i
    if idx < 0 || idx ≥ vs.length then ret dflt
    else (match vs.get? idx.toNat with
      | some .nil => ret dflt
      | some x => ret x
      | none => ret dflt)
  | .GET_MAYBE, [m, dflt] =>
    (match m with
     | .just _ x => ret x
     | .nothing _ => ret dflt
     | _ => stuckCast "maybe")
  | .UNION_LIST_LIST, [.list ty xs, .list _ ys] =>
    ret (.list ty (ValList.ofList (setUnion (valSetOf xs) (valSetOf ys))))
  | .INTERSECT_LIST_LIST, [.list ty xs, .list _ ys] =>
    ret (.list ty (ValList.ofList (setIntersect (valSetOf xs) (valSetOf ys))))
  | .DIFF_LIST_LIST, [.list ty xs, .list _ ys] =>
    ret (.list ty (ValList.ofList (setDiff (valSetOf xs) (valSetOf ys))))
  | _, _ => stuckCast "builtin-args"

end Yae
