/-
  `types/typecheck.go`, `types/env.go`, `types/overload.go`: the type checker.  It returns the
  inferred type together with the tree carrying the attachments the back ends rely on.
-/
import Yae.Model.Ast
import Yae.Model.Unify
import Yae.Model.Val
namespace Yae

/-- A registered function: its type (a `.fn`), what it refers to at run time, laziness. -/
structure FunDecl where
  ty : Ty
  ref : FunRef
  isLazy : Bool
  deriving Inhabited

/-- Typing environment: variables of the compile-time environment object, the engine's
function table in registration order, and the reserved words. -/
structure TEnv where
  vars : List (String × Ty)
  funs : List FunDecl
  reserved : List String
  deriving Inhabited

/-- `parser/lexer/reserved.go` (checked against the regenerated list). -/
def reservedWords : List String := [
  "byte", "int", "float", "double", "string", "bool", "boolean", "ch", "void",
  "type", "var", "def", "define", "let", "rec", "mut", "fun", "fn", "function",
  "record", "struct", "map", "list", "object", "class", "trait", "interface",
  "sealed", "extends",
  "prefix", "infixl", "infixr", "infixn",
  "for", "do", "while", "switch", "cast", "range", "match", "select",
  "break", "continue", "return", "try", "catch", "throw", "finally",
  "import", "as", "module", "package", "namespace",
  "assert", "debugger"]

def TEnv.lookupVar (env : TEnv) (x : String) : Option Ty :=
  (env.vars.find? fun p => p.1 == x).map (·.2)

/-- `FunTy.OverLoaded`: lookup key and whether the function is monomorphic. -/
def overloadKey (name : String) (ps : TyList) (ret : Ty) : String × Bool :=
  if slotFree (.fn name ps ret) then
    ("λ " ++ name ++ " " ++ (Ty.tuple ps).render, true)
  else
    ("∀.λ " ++ name ++ " " ++ toString ps.length, false)

def FunDecl.key (d : FunDecl) : String × Bool :=
  match d.ty with
  | .fn name ps ret => overloadKey name ps ret
  | _ => ("", true)

/-- mono table: a later registration under the same key replaces the earlier one -/
def lookupMono (funs : List FunDecl) (key : String) : Option FunDecl :=
  (funs.filter fun d => d.key == (key, true)).getLast?

/-- poly table: all registrations under the key, in registration order -/
def lookupPoly (funs : List FunDecl) (key : String) : List FunDecl :=
  funs.filter fun d => d.key == (key, false)

inductive CheckErr where
  | type | undefined | arity | reserved | nofun | noncallable | mapkey | dupfield
  | unreachable | panic (msg : String) | fuel
  deriving Repr, DecidableEq, Inhabited

abbrev CR := Except CheckErr

def typeAssert (expect actual : Ty) : CR Unit :=
  if tyEq expect actual then pure () else throw .type

/-- `types.Obj`: duplicate field names are refused. -/
def mkObj (fs : FieldList) : CR Ty :=
  if wfFieldsShallow fs then pure (.obj fs) else throw .dupfield
where
  wfFieldsShallow : FieldList → Bool
    | .nil => true
    | .cons n _ rest => (rest.find? n).isNone && wfFieldsShallow rest

def liftU {α} (x : UM α) : CR (Option α) :=
  match x with
  | .ok a => pure (some a)
  | .error .fail => pure none
  | .error (.panic m) => throw (.panic m)
  | .error .fuel => throw .fuel

/-- try the polymorphic overloads in registration order -/
def tryPoly (ctr : Nat) (args : TyList) : List FunDecl → Nat → CR (Option (Nat × TyList × Ty × String) × Nat)
  | [], _ => pure (none, ctr)
  | d :: rest, i =>
    match d.ty with
    | .fn name ps ret => do
      match ← liftU (inferFun ctr name ps ret args) with
      | some (ps', ret') => pure (some (i, ps', ret', name), ctr + args.length + 1)
      | none => tryPoly (ctr + args.length + 1) args rest (i + 1)
    | _ => throw .noncallable

structure Resolved where
  params : TyList
  ret : Ty
  fname : String
  key : String
  index : Int

def resolveOverloadedFun (env : TEnv) (ctr : Nat) (fname : String) (args : TyList) : CR (Resolved × Nat) := do
  let monoKey := (overloadKey fname args .bot).1
  match lookupMono env.funs monoKey with
  | some d =>
    match d.ty with
    | .fn name ps ret => pure (⟨ps, ret, name, monoKey, -1⟩, ctr)
    | _ => throw .noncallable
  | none =>
    let polyKey := "∀.λ " ++ fname ++ " " ++ toString args.length
    let cands := lookupPoly env.funs polyKey
    if cands.isEmpty then throw .nofun
    let (r, ctr) ← tryPoly (ctr + 1) args cands 0
    match r with
    | some (i, ps, ret, name) => pure (⟨ps, ret, name, polyKey, i⟩, ctr)
    | none => throw .nofun

def assertParams : TyList → TyList → CR Unit
  | .cons p ps, .cons a as => do typeAssert p a; assertParams ps as
  | _, _ => pure ()

mutual
/-- `types.Check`. The `Nat` is the type-variable counter (threaded, never observable). -/
def check (env : TEnv) (ctr : Nat) : Expr → CR (Ty × Expr × Nat)
  | .str p v => pure (.str, .str p v, ctr)
  | .num p v => pure (.num, .num p v, ctr)
  | .time p v => pure (.time, .time p v, ctr)
  | .bool p v => pure (.bool, .bool p v, ctr)
  | .list p es _ =>
    match es with
    | .nil => pure (.list .bot, .list p .nil (some (.list .bot)), ctr)
    | .cons e rest => do
      let (elTy, e', ctr) ← check env ctr e
      let (rest', ctr) ← checkElems env ctr elTy rest
      pure (.list elTy, .list p (.cons e' rest') (some (.list elTy)), ctr)
  | .map p ps _ =>
    match ps with
    | .nil => pure (.map .bot .bot, .map p .nil (some (.map .bot .bot)), ctr)
    | .cons k v rest => do
      let (kTy, k', ctr) ← check env ctr k
      if !kTy.isPrimitive then throw .mapkey
      let (vTy, v', ctr) ← check env ctr v
      let (rest', ctr) ← checkPairs env ctr kTy vTy rest
      pure (.map kTy vTy, .map p (.cons k' v' rest') (some (.map kTy vTy)), ctr)
  | .obj p fs _ => do
    let (tys, fs', ctr) ← checkFields env ctr fs
    let ty ← mkObj tys
    pure (ty, .obj p fs' (some ty), ctr)
  | .ident p name => do
    if env.reserved.contains name then throw .reserved
    match env.lookupVar name with
    | some ty => pure (ty, .ident p name, ctr)
    | none => throw .undefined
  | .call p col callee args _ _ _ => do
    let (argTys, args', ctr) ← checkArgs env ctr args
    match callee with
    | .ident cp fname => do
      let (r, ctr) ← resolveOverloadedFun env ctr fname argTys
      if r.params.length != argTys.length then throw .arity
      assertParams r.params argTys
      pure (r.ret, .call p col (.ident cp fname) args' (some (.fn r.fname r.params r.ret)) r.key r.index, ctr)
    | callee => do
      let (fTy, callee', ctr) ← check env ctr callee
      match fTy with
      | .fn name ps ret =>
        match ← liftU (inferFun ctr name ps ret argTys) with
        | none => throw .type
        | some (ps', ret') =>
          let ctr := ctr + argTys.length + 1
          if ps'.length != argTys.length then throw .arity
          assertParams ps' argTys
          pure (ret', .call p col callee' args' (some (.fn name ps' ret')) "" (-1), ctr)
      | _ => throw .noncallable
  | .subscript p col var idx _ => do
    let (varTy, var', ctr) ← check env ctr var
    match varTy with
    | .list el => do
      let (idxTy, idx', ctr) ← check env ctr idx
      typeAssert idxTy .num
      pure (el, .subscript p col var' idx' (some varTy), ctr)
    | .map k v => do
      let (idxTy, idx', ctr) ← check env ctr idx
      typeAssert idxTy k
      pure (v, .subscript p col var' idx' (some varTy), ctr)
    | _ => throw .type
  | .member p col obj field fp _ _ => do
    let (objTy, obj', ctr) ← check env ctr obj
    match objTy with
    | .obj fs =>
      match fs.find? field, fs.indexOf? field with
      | some fty, some i => pure (fty, .member p col obj' field fp (some objTy) i, ctr)
      | _, _ => throw .undefined
    | _ => throw .type
  | .unary .. => throw .unreachable
  | .binary .. => throw .unreachable
  | .ternary .. => throw .unreachable
  | .group .. => throw .unreachable
def checkElems (env : TEnv) (ctr : Nat) (elTy : Ty) : ExprList → CR (ExprList × Nat)
  | .nil => pure (.nil, ctr)
  | .cons e es => do
    let (ty, e', ctr) ← check env ctr e
    typeAssert elTy ty
    let (es', ctr) ← checkElems env ctr elTy es
    pure (.cons e' es', ctr)
def checkPairs (env : TEnv) (ctr : Nat) (kTy vTy : Ty) : PairList → CR (PairList × Nat)
  | .nil => pure (.nil, ctr)
  | .cons k v ps => do
    let (ty, k', ctr) ← check env ctr k
    typeAssert kTy ty
    let (ty, v', ctr) ← check env ctr v
    typeAssert vTy ty
    let (ps', ctr) ← checkPairs env ctr kTy vTy ps
    pure (.cons k' v' ps', ctr)
def checkFields (env : TEnv) (ctr : Nat) : FieldEList → CR (FieldList × FieldEList × Nat)
  | .nil => pure (.nil, .nil, ctr)
  | .cons n e fs => do
    let (ty, e', ctr) ← check env ctr e
    let (tys, fs', ctr) ← checkFields env ctr fs
    pure (.cons n ty tys, .cons n e' fs', ctr)
def checkArgs (env : TEnv) (ctr : Nat) : ExprList → CR (TyList × ExprList × Nat)
  | .nil => pure (.nil, .nil, ctr)
  | .cons e es => do
    let (ty, e', ctr) ← check env ctr e
    let (tys, es', ctr) ← checkArgs env ctr es
    pure (.cons ty tys, .cons e' es', ctr)
end

end Yae
