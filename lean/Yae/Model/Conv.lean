/-
  Host data conversion (`/repo/conv`) and the facade's environment check (`facade.go: envCheck`).

  Go host data is modelled the way `reflect` presents it: a `GoType` (static type) and a `GoVal`
  (a value that knows its static type, with nil-able parts, interfaces holding a dynamic value,
  maps as entry lists *in iteration order*).  `typeOf`, `valOf`, `typeOfRV`, `typeEnvOf`,
  `valEnvOf` mirror the functions of the same names; every Go panic that `util.Recover`
  turns into an error is an `Except.error` with a class (`ConvErr`), the panics that are *not*
  recovered (`reflectMap` walking into a nil pointer / nil interface behind a pointer) are the
  class `ConvErr.panic`.

  Everything is total and structurally recursive (explicit mutual inductives, no nested `List`).

  Facts of the Go code this model records (all observed on the real code by the `conv` stream):
  * `typeOf` strips pointers without increasing the level; the level check is `lv > 100`;
    interface types have no static type (error); unexported fields are NOT skipped.
  * `valOf` checks depth, then nil (`isNil`: invalid, nil chan/func/interface/map/pointer/slice),
    then unwraps interfaces and pointers without re-checking nil: a nil pointer or nil interface
    *behind* a pointer/interface makes `rv.Type()` panic on the zero Value (recovered, an error),
    whereas a nil slice / nil map behind a pointer is converted like an empty one.
  * empty slice/array/map/struct take the STATIC type (`typeOf rt lv`), non-empty ones the type
    of the first element; the others must have `types.Equals` types.
  * map values are fetched with `MapIndex(key)`: for a key that is not equal to itself (NaN
    inside) the lookup yields the zero Value and the conversion fails with the nil error.
  * map insertion goes through `Key()`: entries whose converted keys collide overwrite each other.
  * struct fields: a nil field becomes `Nothing(typeOf(ft.Type, 0))` whether or not it is tagged
    `maybe` (level restarts at 0), a non-nil field tagged `maybe` becomes `Just`.
  * `time.Time` reached through an unexported field: `rv.Interface()` panics (recovered, error).
  * sized integers go through `float64(int64)` / `float64(uint64)`: round to nearest, ties to even.
-/
import Yae.Model.Val
namespace Yae

/-! ### host types and values -/

inductive IntKind where
  | int | int8 | int16 | int32 | int64
  deriving DecidableEq, Repr, Inhabited

inductive UintKind where
  | uint | uint8 | uint16 | uint32 | uint64
  deriving DecidableEq, Repr, Inhabited

mutual
/-- `reflect.Type` as far as `conv` looks at it. -/
inductive GoType where
  | bool
  | int (k : IntKind)
  | uint (k : UintKind)
  | float32
  | float64
  | string
  | time                                   -- exactly `time.Time`
  | ptr (t : GoType)
  | slice (t : GoType)
  | array (n : Nat) (t : GoType)
  | map (k v : GoType)
  | struct (fs : GoFieldList)
  | iface                                  -- `interface{}`
  | unsupported (name : String)            -- chan, func, complex, uintptr, unsafe.Pointer
/-- struct fields in declaration order: Go name, raw tag, type, exported? -/
inductive GoFieldList where
  | nil
  | cons (name tag : String) (t : GoType) (exported : Bool) (rest : GoFieldList)
end

instance : Inhabited GoType := ⟨.bool⟩
instance : Inhabited GoFieldList := ⟨.nil⟩

def GoFieldList.length : GoFieldList → Nat
  | .nil => 0
  | .cons _ _ _ _ r => r.length + 1

mutual
/-- `reflect.Value`: a value together with its static type. -/
inductive GoVal where
  | invalid                                -- `reflect.ValueOf(nil)`
  | bool (b : Bool)
  | int (k : IntKind) (v : Int)
  | uint (k : UintKind) (v : Nat)
  | float (is32 : Bool) (v : Float)        -- float32 values already widened (`rv.Float()`)
  | string (s : String)
  | time (t : TimeV)
  | ptrNil (elem : GoType)
  | ptr (v : GoVal)                        -- static type: pointer to the static type of `v`
  | ifaceNil
  | iface (v : GoVal)                      -- static type `interface{}`, `v` is the dynamic value
  | sliceNil (elem : GoType)
  | slice (elem : GoType) (vs : GoValList)
  | array (elem : GoType) (vs : GoValList)
  | mapNil (k v : GoType)
  | map (k v : GoType) (es : GoEntryList)  -- entries in the order `MapKeys()` returns them
  | struct (fs : GoFieldList) (vs : GoValList)
  | unsupported (name : String) (isNil : Bool)   -- nil is possible for chan and func
inductive GoValList where
  | nil
  | cons (v : GoVal) (vs : GoValList)
inductive GoEntryList where
  | nil
  | cons (k v : GoVal) (es : GoEntryList)
end

instance : Inhabited GoVal := ⟨.invalid⟩
instance : Inhabited GoValList := ⟨.nil⟩
instance : Inhabited GoEntryList := ⟨.nil⟩

namespace GoValList
def length : GoValList → Nat
  | .nil => 0
  | .cons _ vs => length vs + 1
def toList : GoValList → List GoVal
  | .nil => []
  | .cons v vs => v :: toList vs
def ofList : List GoVal → GoValList
  | [] => .nil
  | v :: vs => .cons v (ofList vs)
end GoValList

namespace GoEntryList
def toList : GoEntryList → List (GoVal × GoVal)
  | .nil => []
  | .cons k v es => (k, v) :: toList es
def ofList : List (GoVal × GoVal) → GoEntryList
  | [] => .nil
  | (k, v) :: es => .cons k v (ofList es)
end GoEntryList

/-- `rv.Type()`; `none` for the invalid Value (where `rv.Type()` panics). -/
def GoVal.goType? : GoVal → Option GoType
  | .invalid => none
  | .bool _ => some .bool
  | .int k _ => some (.int k)
  | .uint k _ => some (.uint k)
  | .float is32 _ => some (if is32 then .float32 else .float64)
  | .string _ => some .string
  | .time _ => some .time
  | .ptrNil t => some (.ptr t)
  | .ptr v => (goType? v).map .ptr
  | .ifaceNil => some .iface
  | .iface _ => some .iface
  | .sliceNil t => some (.slice t)
  | .slice t _ => some (.slice t)
  | .array t vs => some (.array vs.length t)
  | .mapNil k v => some (.map k v)
  | .map k v _ => some (.map k v)
  | .struct fs _ => some (.struct fs)
  | .unsupported n _ => some (.unsupported n)

/-- `conv.isNil`. -/
def GoVal.isNil : GoVal → Bool
  | .invalid | .ptrNil _ | .ifaceNil | .sliceNil _ | .mapNil _ _ => true
  | .unsupported _ n => n
  | _ => false

/-! ### errors -/

/-- Classes of conversion failures.  All but `panic` are Go panics recovered into an `error`
by `util.Recover` (or plain `error` results); `panic` is a panic that escapes the API. -/
inductive ConvErr where
  | nilTop        -- the converted value itself is nil
  | nilInside     -- nil somewhere inside (element, entry, behind a pointer / interface)
  | unsupported   -- a kind without a counterpart (chan, func, complex, …; a bare interface type)
  | mixed         -- elements / keys / values of different types
  | depth         -- nesting beyond `maxLevel`
  | mapKey        -- `types.Map`: key type is not a primitive
  | dupField      -- `types.Obj`: two fields with the same (tag) name
  | notStruct     -- environment from something that is neither a string-keyed map nor a struct
  | other         -- `rv.Interface()` on a value reached through an unexported field
  | panic         -- NOT recovered: the panic escapes `TypeEnvOf` / `ValEnvOf`
  deriving DecidableEq, Repr, Inhabited

def maxLevel : Nat := 100

/-! ### `float64(int64)`, `float64(uint64)`: exact, round to nearest, ties to even -/

def natToFloat (n : Nat) : Float :=
  if n = 0 then 0.0 else
    let l := n.log2 + 1                           -- bit length
    if l ≤ 53 then
      let m := n <<< (53 - l)                     -- hidden bit at position 52
      Float.ofBits (UInt64.ofNat (((l - 1 + 1023) <<< 52) + (m - 2 ^ 52)))
    else
      let sh := l - 53
      let q := n >>> sh
      let r := n % 2 ^ sh
      let half := 2 ^ (sh - 1)
      let q := if r > half || (r == half && q % 2 == 1) then q + 1 else q
      -- q = 2^53 carries into the exponent field by the addition below
      Float.ofBits (UInt64.ofNat (((l - 1 + 1023) <<< 52) + (q - 2 ^ 52)))

def intToFloat (i : Int) : Float :=
  if i < 0 then -(natToFloat i.natAbs) else natToFloat i.natAbs

/-! ### struct tags: `reflect.StructTag.Get` and `conv.parseTag` -/

/-- the body of a quoted tag value up to the closing quote (backslash skips one character) -/
def scanQuoted : List Char → List Char → Option (List Char × List Char)
  | [], _ => none
  | '"' :: rest, acc => some (acc.reverse, rest)
  | '\\' :: c :: rest, acc => scanQuoted rest (c :: '\\' :: acc)
  | '\\' :: [], _ => none
  | c :: rest, acc => scanQuoted rest (c :: acc)

def hexDigitVal (c : Char) : Option Nat :=
  if '0' ≤ c && c ≤ '9' then some (c.toNat - 48)
  else if 'a' ≤ c && c ≤ 'f' then some (c.toNat - 87)
  else if 'A' ≤ c && c ≤ 'F' then some (c.toNat - 55)
  else none

def hexRun : Nat → List Char → Nat → Option (Nat × List Char)
  | 0, cs, acc => some (acc, cs)
  | n+1, c :: cs, acc => (hexDigitVal c).bind fun d => hexRun n cs (acc * 16 + d)
  | _, [], _ => none

def validRune (v : Nat) : Bool := v < 0xD800 || (0xE000 ≤ v && v ≤ 0x10FFFF)

/-- `strconv.Unquote` on the inside of a double-quoted string (no unescaped quote inside).
`\x..` and octal escapes denote bytes; values ≥ 0x80 would make the Go string invalid UTF-8,
which is outside the modelled domain (they are rendered as the Latin-1 character). -/
def unquoteBody : List Char → Nat → List Char → Option (List Char)
  | _, 0, _ => none
  | [], _, acc => some acc.reverse
  | '\n' :: _, _, _ => none
  | '\\' :: c :: rest, fuel+1, acc =>
    match c with
    | 'a' => unquoteBody rest fuel ('\x07' :: acc)
    | 'b' => unquoteBody rest fuel ('\x08' :: acc)
    | 'f' => unquoteBody rest fuel ('\x0c' :: acc)
    | 'n' => unquoteBody rest fuel ('\n' :: acc)
    | 'r' => unquoteBody rest fuel ('\r' :: acc)
    | 't' => unquoteBody rest fuel ('\t' :: acc)
    | 'v' => unquoteBody rest fuel ('\x0b' :: acc)
    | '\\' => unquoteBody rest fuel ('\\' :: acc)
    | '"' => unquoteBody rest fuel ('"' :: acc)
    | 'x' =>
      match hexRun 2 rest 0 with
      | some (v, rest') => unquoteBody rest' fuel (Char.ofNat v :: acc)
      | none => none
    | 'u' =>
      match hexRun 4 rest 0 with
      | some (v, rest') => if validRune v then unquoteBody rest' fuel (Char.ofNat v :: acc) else none
      | none => none
    | 'U' =>
      match hexRun 8 rest 0 with
      | some (v, rest') => if validRune v then unquoteBody rest' fuel (Char.ofNat v :: acc) else none
      | none => none
    | c =>
      if '0' ≤ c && c ≤ '7' then
        match rest with
        | d1 :: d2 :: rest' =>
          if '0' ≤ d1 && d1 ≤ '7' && '0' ≤ d2 && d2 ≤ '7' then
            let v := (c.toNat - 48) * 64 + (d1.toNat - 48) * 8 + (d2.toNat - 48)
            if v > 255 then none else unquoteBody rest' fuel (Char.ofNat v :: acc)
          else none
        | _ => none
      else none
  | '\\' :: [], _, _ => none
  | c :: rest, fuel+1, acc => unquoteBody rest fuel (c :: acc)

/-- `StructTag.Lookup(key)`; `none` when absent or the tag is malformed before the key is found. -/
def tagLookup (key : String) : Nat → List Char → Option String
  | 0, _ => none
  | fuel+1, cs =>
    let cs := cs.dropWhile (· == ' ')
    if cs.isEmpty then none else
      let (name, rest) := cs.span fun c => c > ' ' && c != ':' && c != '"' && c != '\x7f'
      if name.isEmpty then none else
        match rest with
        | ':' :: '"' :: rest =>
          match scanQuoted rest [] with
          | none => none
          | some (body, rest') =>
            if String.ofList name == key then
              (unquoteBody body (body.length + 1) []).map String.ofList
            else tagLookup key fuel rest'
        | _ => none

def tagGet (tag key : String) : String :=
  (tagLookup key (tag.length + 1) tag.toList).getD ""

/-- `unicode.IsSpace` -/
def isGoSpace (c : Char) : Bool :=
  c == '\t' || c == '\n' || c == '\x0b' || c == '\x0c' || c == '\r' || c == ' ' ||
  c.toNat == 0x85 || c.toNat == 0xA0 || c.toNat == 0x1680 ||
  (0x2000 ≤ c.toNat && c.toNat ≤ 0x200A) ||
  c.toNat == 0x2028 || c.toNat == 0x2029 || c.toNat == 0x202F || c.toNat == 0x205F || c.toNat == 0x3000

def trimSpace (cs : List Char) : List Char :=
  ((cs.dropWhile isGoSpace).reverse.dropWhile isGoSpace).reverse

/-- `strings.Split(s, ",")` on characters -/
def splitComma : List Char → List Char → List (List Char)
  | [], cur => [cur.reverse]
  | ',' :: rest, cur => cur.reverse :: splitComma rest []
  | c :: rest, cur => splitComma rest (c :: cur)

/-- `conv.parseTag`: the field's name under the `yae` tag and the `maybe` flag.
(`strings.ToLower` is Unicode lower-casing; no non-ASCII character lower-cases to a letter of
"maybe", so ASCII lower-casing decides the same comparison.) -/
def parseTag (goName tag : String) : String × Bool :=
  let xs := splitComma (tagGet tag "yae").toList []
  let name :=
    match xs with
    | fst :: _ => let f := trimSpace fst; if f.isEmpty then goName else String.ofList f
    | [] => goName
  let mb :=
    match xs with
    | _ :: snd :: _ => (trimSpace snd).map Char.toLower == "maybe".toList
    | _ => false
  (name, mb)

/-! ### `conv.typeOf` -/

/-- what `types.Obj` asserts: the names are pairwise distinct -/
def fieldNamesDistinct : FieldList → Bool
  | .nil => true
  | .cons n _ fs => (fs.find? n).isNone && fieldNamesDistinct fs

mutual
/- NOTE: Go bounds the number of pointer / interface unwrapping steps by `maxLevel` as well
   (more than maxLevel+1 steps: `max nested depth exceeded`).  The model has no hop counter:
   values and types with more than `maxLevel` consecutive pointers are outside it (the harness
   generates at most 100). -/
def typeOf (t : GoType) (lv : Nat) : Except ConvErr Ty :=
  if lv > maxLevel then .error .depth else
  match t with
  | .ptr t => typeOf t lv                 -- pointers are stripped, the level stays
  | .time => .ok .time
  | .bool => .ok .bool
  | .int _ => .ok .num
  | .uint _ => .ok .num
  | .float32 => .ok .num
  | .float64 => .ok .num
  | .string => .ok .str
  | .slice el => do
      let e ← typeOf el (lv + 1)
      pure (.list e)
  | .array _ el => do
      let e ← typeOf el (lv + 1)
      pure (.list e)
  | .map k v => do
      let k' ← typeOf k (lv + 1)
      let v' ← typeOf v (lv + 1)
      if k'.keyable then pure (.map k' v') else throw .mapKey
  | .struct fs => do
      let fs' ← typeOfFields fs (lv + 1)
      if fieldNamesDistinct fs' then pure (.obj fs') else throw .dupField
  | .iface => .error .unsupported
  | .unsupported _ => .error .unsupported
termination_by structural t
def typeOfFields (fs : GoFieldList) (lv : Nat) : Except ConvErr FieldList :=
  match fs with
  | .nil => pure .nil
  | .cons name tag t _ rest => do
      let ft ← typeOf t lv
      let ft := if (parseTag name tag).2 then Ty.maybe ft else ft
      let rest' ← typeOfFields rest lv
      pure (.cons (parseTag name tag).1 ft rest')
termination_by structural fs
end

/-! ### `conv.valOf` -/

/-- the entry checks of `valOf`: depth, then nil -/
@[inline] def valOfChecks (v : GoVal) (lv : Nat) (k : Unit → Except ConvErr Val) : Except ConvErr Val :=
  if lv > maxLevel then .error .depth
  else if v.isNil then .error (if lv = 0 then .nilTop else .nilInside)
  else k ()

mutual
/-- `k != k` somewhere inside a map key (then `MapIndex(k)` finds nothing) -/
def keyHasNaN : GoVal → Bool
  | .float _ x => x.isNaN
  | .iface v => keyHasNaN v
  | .array _ vs => anyNaN vs
  | .struct _ vs => anyNaN vs
  | _ => false
def anyNaN : GoValList → Bool
  | .nil => false
  | .cons v vs => keyHasNaN v || anyNaN vs
end

mutual
/-- `valOf` after the entry checks: the unwrapping loop and the kind switch.  `ro`: the value was
reached through an unexported struct field (reflect's read-only flag). -/
def valOfU (v : GoVal) (lv : Nat) (ro : Bool) : Except ConvErr Val :=
  match v with
  | .invalid => .error .nilInside
  | .ptrNil _ => .error .nilInside          -- `rv.Elem()` is the zero Value, `rv.Type()` panics
  | .ifaceNil => .error .nilInside
  | .ptr p => valOfU p lv ro
  | .iface d => valOfU d lv ro
  | .time t => if ro then .error .other else .ok (.time t)
  | .bool b => .ok (.bool b)
  | .int _ i => .ok (.num (intToFloat i))
  | .uint _ n => .ok (.num (natToFloat n))
  | .float _ x => .ok (.num x)
  | .string s => .ok (.str s)
  | .sliceNil el => do
      let t ← typeOf (.slice el) lv
      pure (.list t .nil)
  | .slice el vs =>
    match vs with
    | .nil => do
        let t ← typeOf (.slice el) lv
        pure (.list t .nil)
    | .cons e es => do
        let v0 ← valOfChecks e (lv + 1) fun _ => valOfU e (lv + 1) ro
        let rest ← valOfRest v0.typeOf es (lv + 1) ro
        pure (.list (.list v0.typeOf) (.cons v0 rest))
  | .array el vs =>
    match vs with
    | .nil => do
        let t ← typeOf (.array 0 el) lv
        pure (.list t .nil)
    | .cons e es => do
        let v0 ← valOfChecks e (lv + 1) fun _ => valOfU e (lv + 1) ro
        let rest ← valOfRest v0.typeOf es (lv + 1) ro
        pure (.list (.list v0.typeOf) (.cons v0 rest))
  | .mapNil k e => do
      let t ← typeOf (.map k e) lv
      pure (.map t .nil)
  | .map k e es =>
    match es with
    | .nil => do
        let t ← typeOf (.map k e) lv
        pure (.map t .nil)
    | .cons k0 e0 rest => do
        let kv ← valOfChecks k0 (lv + 1) fun _ => valOfU k0 (lv + 1) ro
        let ev ←
          if keyHasNaN k0 then
            (if lv + 1 > maxLevel then .error .depth else .error .nilInside)
          else valOfChecks e0 (lv + 1) fun _ => valOfU e0 (lv + 1) ro
        if !kv.typeOf.keyable then throw .mapKey
        match kv.key? with
        | none => throw .other
        | some (tag, txt) =>
          let es' ← valOfEntries kv.typeOf ev.typeOf rest (lv + 1) ro (.cons tag txt ev .nil)
          pure (.map (.map kv.typeOf ev.typeOf) es')
  | .struct fs vs =>
    match fs with
    | .nil => pure (.obj (.obj .nil) .nil)
    | _ => do
        let (ftys, vals) ← valOfFields fs vs lv ro
        if fieldNamesDistinct ftys then pure (.obj (.obj ftys) vals) else throw .dupField
  | .unsupported _ _ => .error .unsupported
termination_by structural v
/-- elements 1.. of a slice: each must have a type equal to the first element's -/
def valOfRest (t0 : Ty) (vs : GoValList) (lv : Nat) (ro : Bool) : Except ConvErr ValList :=
  match vs with
  | .nil => pure .nil
  | .cons e es => do
      let x ← valOfChecks e lv fun _ => valOfU e lv ro
      if !tyEq t0 x.typeOf then throw .mixed
      let r ← valOfRest t0 es lv ro
      pure (.cons x r)
termination_by structural vs
/-- entries 1.. of a map, inserted through their `Key()` -/
def valOfEntries (kt et : Ty) (es : GoEntryList) (lv : Nat) (ro : Bool) (acc : EntryList) :
    Except ConvErr EntryList :=
  match es with
  | .nil => pure acc
  | .cons k e rest => do
      let kv ← valOfChecks k lv fun _ => valOfU k lv ro
      if !tyEq kt kv.typeOf then throw .mixed
      let ev ←
        if keyHasNaN k then
          (if lv > maxLevel then .error .depth else .error .nilInside)
        else valOfChecks e lv fun _ => valOfU e lv ro
      if !tyEq et ev.typeOf then throw .mixed
      match kv.key? with
      | none => throw .other
      | some (tag, txt) => valOfEntries kt et rest lv ro (acc.insert tag txt ev)
termination_by structural es
/-- struct fields: the object's field list and the values, in declaration order -/
def valOfFields (fs : GoFieldList) (vs : GoValList) (lv : Nat) (ro : Bool) :
    Except ConvErr (FieldList × ValList) :=
  match fs, vs with
  | .cons name tag t exported frest, .cons x xs => do
      let vl ←
        if x.isNil then do
          let ft ← typeOf t 0
          pure (Val.nothing ft)
        else do
          let vl ← valOfChecks x (lv + 1) fun _ => valOfU x (lv + 1) (ro || !exported)
          pure (if (parseTag name tag).2 then Val.just vl.typeOf vl else vl)
      let (ftys, vals) ← valOfFields frest xs lv ro
      pure (.cons (parseTag name tag).1 vl.typeOf ftys, .cons vl vals)
  | _, _ => pure (.nil, .nil)
termination_by structural vs
end

/-- `conv.valOf(rv, lv)` -/
def valOf (v : GoVal) (lv : Nat) (ro : Bool := false) : Except ConvErr Val :=
  valOfChecks v lv fun _ => valOfU v lv ro

/-- `conv.ValOf` / `valOfRV` -/
def convValOf (v : GoVal) : Except ConvErr Val := valOf v 0

/-- `conv.TypeOf` / `typeOfRV`: the type of the converted value when the conversion succeeds,
else the static type. -/
def typeOfRV (v : GoVal) : Except ConvErr Ty :=
  match valOf v 0 with
  | .ok x => .ok x.typeOf
  | .error _ =>
    match v.goType? with
    | none => .error .nilTop           -- `rv.Type()` on the zero Value (recovered)
    | some t => typeOf t 0

/-! ### environments -/

/-- the unwrapping loop of `reflectMap`; `none`: the un-recovered panic of `rv.Type()` on the
zero Value (nil pointer or nil interface behind a pointer) -/
def unwrapEnv : GoVal → Option GoVal
  | .ptr p => unwrapEnv p
  | .iface d => unwrapEnv d
  | .ptrNil _ => none
  | .ifaceNil => none
  | .invalid => none
  | v => some v

inductive EnvShape where
  | escapes                              -- panic
  | strMap (es : GoEntryList)            -- a map with string keys (nil map behind a pointer: empty)
  | notMap

/-- `reflectMap` -/
def reflectMap (v : GoVal) : EnvShape :=
  if v.isNil then .notMap else
    match unwrapEnv v with
    | none => .notMap                    -- a nil behind a pointer/interface: left to TypeOf / ValOf
    | some (.map .string _ es) => .strMap es
    | some (.mapNil .string _) => .strMap .nil
    | some _ => .notMap

def keyName : GoVal → String
  | .string s => s
  | _ => ""

def nilInsideOf : ConvErr → ConvErr
  | .nilTop => .nilInside
  | e => e

def typeEnvOfMap : GoEntryList → Except ConvErr (List (String × Ty))
  | .nil => pure []
  | .cons k v es => do
      let t ← typeOfRV v
      let rest ← typeEnvOfMap es
      pure ((keyName k, t) :: rest)

def valEnvOfMap : GoEntryList → Except ConvErr (List (String × Val))
  | .nil => pure []
  | .cons k v es => do
      let x ← (convValOf v).mapError nilInsideOf   -- the nil thing is inside the environment
      let rest ← valEnvOfMap es
      pure ((keyName k, x) :: rest)

/-- `conv.TypeEnvOf`: bindings in the order they are put (a later equal name overwrites). -/
def typeEnvOf (v : GoVal) : Except ConvErr (List (String × Ty)) :=
  match v with
  | .invalid => pure []                        -- `v == nil`
  | v =>
    match reflectMap v with
    | .escapes => .error .panic
    | .strMap es => typeEnvOfMap es
    | .notMap => do
        let t ← typeOfRV v
        match t with
        | .obj fs => pure fs.toList
        | _ => throw .notStruct

/-- `conv.ValEnvOf` -/
def valEnvOf (v : GoVal) : Except ConvErr (List (String × Val)) :=
  match v with
  | .invalid => pure []
  | v =>
    match reflectMap v with
    | .escapes => .error .panic
    | .strMap es => valEnvOfMap es
    | .notMap => do
        let x ← convValOf v
        match x with
        | .obj (.obj fs) vs => pure (List.zip fs.names vs.toList)
        | _ => throw .notStruct

/-! ### `envCheck` -/

inductive EnvErr where
  | undefined     -- every offending name is missing
  | mismatch      -- every offending name is bound to a value of another type
  | mixed         -- both kinds occur (Go reports whichever name its map iteration meets first)
  deriving DecidableEq, Repr, Inhabited

def lookupVal (venv : List (String × Val)) (n : String) : Option Val :=
  (venv.find? fun p => p.1 == n).map (·.2)

/-- the verdict on one compile-time binding -/
def checkBinding (venv : List (String × Val)) (n : String) (t : Ty) : Option EnvErr :=
  match lookupVal venv n with
  | none => some .undefined
  | some v => if tyEq t v.typeOf then none else some .mismatch

/-- `Expr.envCheck`: every compile-time name is bound at run time to a value of an equal type;
extra run-time names do not matter.  The verdict does not depend on the order of the bindings. -/
def envCheck (tenv : List (String × Ty)) (venv : List (String × Val)) : Except EnvErr Unit :=
  let errs := tenv.filterMap fun (n, t) => checkBinding venv n t
  if errs.isEmpty then .ok ()
  else if errs.all (· == .undefined) then .error .undefined
  else if errs.all (· == .mismatch) then .error .mismatch
  else .error .mixed

end Yae
