/-
  `debug/record.go`, `debug/render.go`: the power-assert record and its report.

  * `Record`, `rec`, `recordOf`  — `debug.Record`, `(*Record).Rec`, and the record a debug run
                                   (`runEval true …`, i.e. `closure.DebugCompile`) leaves behind
  * `render`                     — `newRender(src, rec).render()`

  A record entry keeps the RENDERING of the value (`(*Val).String()` = `Val.render`): that is the
  only thing the report looks at.  Columns are rune (code point) columns, 1-based.
-/
import Yae.Model.Eval
namespace Yae.Debug
open Yae

structure Entry where
  text : String     -- `v.String()`
  col : Int
  deriving DecidableEq, Repr, Inhabited

abbrev Record := List Entry

def Record.hasCol (r : Record) (col : Int) : Bool := r.any fun e => e.col == col

/-- `Rec` on an already rendered value.  If some entry has that column, retry with `col + 1`.

Termination: the attempts use the pairwise distinct columns `col, col+1, col+2, …`; at most
`r.length` of them are taken, so one of the first `r.length + 1` attempts finds a free column.
Hence the fuel `r.length + 1` is never exhausted (the `0` case below is unreachable). -/
def recAux : Nat → Record → String → Int → Record
  | 0, r, text, col => r ++ [⟨text, col⟩]
  | fuel+1, r, text, col =>
    if r.hasCol col then recAux fuel r text (col + 1) else r ++ [⟨text, col⟩]

def recText (r : Record) (text : String) (col : Int) : Record := recAux (r.length + 1) r text col

/-- `(*Record).Rec(v, col)` -/
def rec (r : Record) (v : Val) (col : Int) : Record := recText r v.render col

/-- the record after a debug run: the `dbg` events in order, through `Rec`
(`DebugCompile` clears the record first) -/
def recordOf (evs : List Event) : Record :=
  evs.foldl (fun r ev =>
    match ev with
    | .dbg v col => rec r v col
    | _ => r) []

/-! ### rendering -/

/-- `splitByLine.Split(str, -1)` with `splitByLine = "\r\n|\r|\n"` -/
def splitLines : List Char → List Char → List (List Char)
  | [], cur => [cur.reverse]
  | '\r' :: '\n' :: rest, cur => cur.reverse :: splitLines rest []
  | '\r' :: rest, cur => cur.reverse :: splitLines rest []
  | '\n' :: rest, cur => cur.reverse :: splitLines rest []
  | c :: rest, cur => splitLines rest (c :: cur)

/-- `placeString(line, str, col)` followed by `replace`; `col ≥ 1` -/
def placeString (line str : List Char) (col : Nat) : List Char :=
  let line := line ++ List.replicate (col - line.length) ' '
  let start := col - 1
  let stop := start + str.length
  if stop > line.length then line.take start ++ str
  else line.take start ++ str ++ line.drop stop

/-- a line of the report and the column of its first non-blank cell (`startCols[i]`) -/
structure Line where
  chars : List Char
  start : Int
  deriving Inhabited

/-- stable insertion of an entry that precedes (in recording order) everything in the sorted
list: it goes in front of the first element whose column is not strictly larger -/
def insertDesc (x : Entry) : List Entry → List Entry
  | [] => [x]
  | y :: ys => if y.col ≤ x.col then x :: y :: ys else y :: insertDesc x ys

/-- `sort.SliceStable` by column, descending -/
def sortDesc (r : Record) : List Entry := r.foldr insertDesc []

/-- the inner loop over `lines[j]`, `j ≥ 1`: `endCol = none` stands for `math.MaxInt`.
Returns the lines and whether the value found room. -/
def scan (str : List Char) (startCol : Nat) (endCol : Option Nat) : Nat → List Line → List Line × Bool
  | _, [] => ([], false)
  | j, l :: ls =>
    let free : Bool := match endCol with
      | some e => decide ((e : Int) < l.start)
      | none => false
    if free then
      ({ chars := placeString l.chars str startCol, start := startCol } :: ls, true)
    else
      let l' : Line := { chars := placeString l.chars ['|'] startCol,
                         start := if j > 1 then (startCol : Int) + 1 else l.start }
      let (ls', ok) := scan str startCol endCol (j + 1) ls
      (l' :: ls', ok)

/-- `renderValues` on the sorted values; `lines` excludes the source line (index 0) -/
def renderValues : List Entry → List Line → List Line
  | [], lines => lines
  | e :: rest, lines =>
    let skip := e.col < 1 ||
      (match rest with
       | e' :: _ => e'.col == e.col
       | [] => false)
    if skip then renderValues rest lines
    else
      let startCol := e.col.toNat
      let str := e.text.toList
      let strs := splitLines str []
      let endCol := if strs.length == 1 then some (startCol + str.length) else none
      let (lines', placed) := scan str startCol endCol 1 lines
      if placed then renderValues rest lines'
      else
        let fresh := strs.map fun s => ({ chars := placeString [] s startCol, start := startCol } : Line)
        renderValues rest (lines' ++ fresh)

/-- `newRender(src, rec).render()` — `src` has no line break -/
def render (src : String) (r : Record) : String :=
  let lines := renderValues (sortDesc r) [{ chars := [], start := 0 }]
  "\n".intercalate (src :: lines.map fun l => String.ofList l.chars)

end Yae.Debug
