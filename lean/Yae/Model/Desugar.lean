/-
  Model of `trans.Desugar`.

  * literals and identifiers are returned as they are (Go returns the same pointer);
  * `List` / `Map` / `Obj` / `Subscript` / `Member` / `Call` are REBUILT with the `ast.*`
    constructors: the checker attachments are dropped (`Type`, `VarType`, `ObjType`,
    `CalleeType` = nil, `Resolved` = "", `Index` = -1);
  * `Unary` / `Binary` / `Ternary` become calls of the operator name (`if` for `?`), the callee
    identifier carries the operator token's position and the call's `DBGCol` its column;
  * `Call` whose callee is DIRECTLY a `Member` node: `o.f(a...)` ↦ `f(o, a...)`; the receiver is
    desugared first, then the arguments left to right.  A parenthesised member callee
    `(o.f)(a)` is an ordinary callee: the group is dropped and a call of a member node comes
    out, which a second `Desugar` would rewrite again (the function is not idempotent there);
  * `Group` disappears.

  `Desugar` panics (`util.Unreachable`) on a ternary node whose name is not `?`.  The parser
  names a ternary after the LEXEME of the `?`-kind token, so this is unreachable from lexed
  input.  `desugar` is total and treats every ternary as `?:`; `Expr.ternariesOk` says that the
  Go function does not panic, `desugarGo` combines the two.
-/
import Yae.Model.Ast
namespace Yae

/-- `fun.IF` -/
def funIF : String := "if"

mutual
def desugar : Expr → Expr
  | .str p v => .str p v
  | .num p v => .num p v
  | .time p v => .time p v
  | .bool p v => .bool p v
  | .ident p n => .ident p n
  | .list p es _ => .list p (desugarList es) none
  | .map p ps _ => .map p (desugarPairs ps) none
  | .obj p fs _ => .obj p (desugarFields fs) none
  | .unary p name np e _ =>
    .call p np.col (.ident np name) (.cons (desugar e) .nil) none "" (-1)
  | .binary p name np _ l r =>
    .call p np.col (.ident np name) (.cons (desugar l) (.cons (desugar r) .nil)) none "" (-1)
  | .ternary p _ np l m r =>
    .call p np.col (.ident np funIF)
      (.cons (desugar l) (.cons (desugar m) (.cons (desugar r) .nil))) none "" (-1)
  | .call p col (.member _ _ o f fp _ _) args _ _ _ =>
    .call p col (.ident fp f) (.cons (desugar o) (desugarList args)) none "" (-1)
  | .call p col callee args _ _ _ =>
    .call p col (desugar callee) (desugarList args) none "" (-1)
  | .subscript p col v i _ => .subscript p col (desugar v) (desugar i) none
  | .member p col o f fp _ _ => .member p col (desugar o) f fp none (-1)
  | .group _ e => desugar e
def desugarList : ExprList → ExprList
  | .nil => .nil
  | .cons e es => .cons (desugar e) (desugarList es)
def desugarPairs : PairList → PairList
  | .nil => .nil
  | .cons k v ps => .cons (desugar k) (desugar v) (desugarPairs ps)
def desugarFields : FieldEList → FieldEList
  | .nil => .nil
  | .cons n e fs => .cons n (desugar e) (desugarFields fs)
end

mutual
/-- Every ternary node is named `?` (otherwise Go's `Desugar` panics). -/
def Expr.ternariesOk : Expr → Bool
  | .list _ es _ => ternariesOkList es
  | .map _ ps _ => ternariesOkPairs ps
  | .obj _ fs _ => ternariesOkFields fs
  | .unary _ _ _ e _ => e.ternariesOk
  | .binary _ _ _ _ l r => l.ternariesOk && r.ternariesOk
  | .ternary _ name _ l m r => name == "?" && l.ternariesOk && m.ternariesOk && r.ternariesOk
  | .call _ _ c as _ _ _ => c.ternariesOk && ternariesOkList as
  | .subscript _ _ v i _ => v.ternariesOk && i.ternariesOk
  | .member _ _ o _ _ _ _ => o.ternariesOk
  | .group _ e => e.ternariesOk
  | _ => true
def ternariesOkList : ExprList → Bool
  | .nil => true
  | .cons e es => e.ternariesOk && ternariesOkList es
def ternariesOkPairs : PairList → Bool
  | .nil => true
  | .cons k v ps => k.ternariesOk && v.ternariesOk && ternariesOkPairs ps
def ternariesOkFields : FieldEList → Bool
  | .nil => true
  | .cons _ e fs => e.ternariesOk && ternariesOkFields fs
end

/-- `trans.Desugar` with its panic: `none` = `util.Unreachable()`. -/
def desugarGo (e : Expr) : Option Expr :=
  if e.ternariesOk then some (desugar e) else none

mutual
/-- No sugar node left (`Unary`, `Binary`, `Ternary`, `Group`). -/
def Expr.isCore : Expr → Bool
  | .list _ es _ => isCoreList es
  | .map _ ps _ => isCorePairs ps
  | .obj _ fs _ => isCoreFields fs
  | .call _ _ c as _ _ _ => c.isCore && isCoreList as
  | .subscript _ _ v i _ => v.isCore && i.isCore
  | .member _ _ o _ _ _ _ => o.isCore
  | .unary .. | .binary .. | .ternary .. | .group .. => false
  | _ => true
def isCoreList : ExprList → Bool
  | .nil => true
  | .cons e es => e.isCore && isCoreList es
def isCorePairs : PairList → Bool
  | .nil => true
  | .cons k v ps => k.isCore && v.isCore && isCorePairs ps
def isCoreFields : FieldEList → Bool
  | .nil => true
  | .cons _ e fs => e.isCore && isCoreFields fs
end

end Yae
