/-
  `facade.go`, the engine object: `Expr{typeCheck, runtime, trans, ops, compiler, useBuiltIn, dbg,
  init}` as a STATE MACHINE over the pipeline of `Yae/Model/Facade.lean`.

      NewExpr            = `Engine.new`           (built-ins wanted, nothing registered, `vm.Compile`)
      RegisterFun        = `Engine.registerFun`   (`typeCheck.RegisterFun(v.Type); runtime.RegisterFun(v)`:
                                                   the two tables are always extended together, the
                                                   model keeps ONE list of `FunDecl`, registration order)
      RegisterOperator   = `Engine.registerOperator`
      UseBuiltIn         = `Engine.setUseBuiltIn`
      UseCompiler / …    = `Engine.useCompiler`
      makeSureInit       = `Engine.init`          (at the FIRST `Parse` / `CompileExpr`: the built-in
                                                   operators and functions are APPENDED, after whatever
                                                   was registered before; then `init = true`)
      Compile            = `Engine.compile`
      the Callable       = `Callable`, run by `Engine.invoke`

  What the Go closure returned by `makeCallable` captures: `env0` (for `envCheck`), the compiled
  closure, and the engine POINTER `e`; at every invocation it builds `rt = env1.Inherit(e.runtime)`.
  WHEN the run-time function table is consulted for a statically resolved call
  (`MustGetMonoFun(call.Resolved)` / `MustGetPolyFuns(call.Resolved)[call.Index]`) depends on the
  compiler:
    * `closure.Compile`, `closure.DebugCompile` (`staticDispatch`) and `vm.Compile`
      (`compileInvokeStatic`) look the function up WHILE COMPILING, in `e.runtime` as it is then,
      and keep the `*FunVal`;
    * `interp.Interp` looks it up WHEN THE CALLABLE RUNS (`resolveFun`), in `e.runtime` as it is
      at that moment.
  Hence `Callable.funs` (the table at compile time) and `Backend.late`.  Registrations made after
  a compilation are visible to an `interp` callable and invisible to the others; what the
  difference can amount to is `Yae.C13.early_binding_ignores_engine`, `callable_stable_under_append`,
  `late_binding_depends_on_compiler` (`Yae/Props/C13.lean`).

  Not modelled: user translators (`RegisterTranslator`; only `trans.Desugar`, registered by
  `initTrans`, is applied — it is inside `compileSrc`), the debug log writer `dbg`, function tables
  of the environments `env0` / `env1` themselves (`Inherit` consults them first; the converters
  `conv.TypeEnvOf` / `conv.ValEnvOf` leave them empty).
-/
import Yae.Model.Facade
namespace Yae
open Yae.Facade

/-- `fun.BuiltIn()` as function declarations: the `i`-th refers to the `i`-th built-in. -/
def builtinDeclsFrom : Nat → List BuiltinDecl → List FunDecl
  | _, [] => []
  | i, b :: bs => { ty := b.ty, ref := .builtin i, isLazy := b.isLazy } :: builtinDeclsFrom (i+1) bs

def builtinDecls : List FunDecl := builtinDeclsFrom 0 builtins

/-- the `compiler.Compiler` the engine uses -/
inductive Backend where
  | vm             -- `vm.Compile` (the default of `NewExpr`)
  | closure        -- `closure.Compile`
  | closureDebug   -- `closure.DebugCompile`
  | interp         -- `interp.Interp`
  deriving DecidableEq, Repr, Inhabited

/-- does the compiled code look functions up when it RUNS (rather than when it is compiled)? -/
def Backend.late : Backend → Bool
  | .interp => true
  | _ => false

/-- does the compiled code record debug entries? -/
def Backend.dbg : Backend → Bool
  | .closureDebug => true
  | _ => false

structure Engine where
  ops : List Operator := []          -- `e.ops`, registration order
  funs : List FunDecl := []          -- `e.typeCheck.fnTbl` and `e.runtime.fnTbl`, registration order
  useBuiltIn : Bool := true
  inited : Bool := false             -- `e.init`
  backend : Backend := .vm
  deriving Inhabited

/-- What `Compile` returns. -/
structure Callable where
  tenv : List (String × Ty)    -- `env0`, kept for `envCheck`
  ty : Ty                      -- the inferred type (logged only; not observable through the API)
  tree : Expr                  -- the checked, annotated tree the compiler was given
  funs : List FunDecl          -- the engine's function table when the tree was compiled
  backend : Backend            -- the compiler that was used
  deriving Inhabited

namespace Engine

/-- `NewExpr()` -/
def new : Engine := {}

/-- `RegisterFun(v)`: `types.Env.RegisterFun` asserts that `v.Type` is a function type BEFORE
anything is written (the panic is not recovered: it reaches the caller and the engine is
unchanged); otherwise the declaration is appended — under its monomorphic key it thereby replaces
an earlier one (`lookupMono` takes the last), under its polymorphic key it comes after the
earlier ones (`lookupPoly` keeps the order). -/
def registerFun (e : Engine) (d : FunDecl) : Engine :=
  match d.ty with
  | .fn _ _ _ => { e with funs := e.funs ++ [d] }
  | _ => e

def registerOperator (e : Engine) (o : Operator) : Engine := { e with ops := e.ops ++ [o] }

def setUseBuiltIn (e : Engine) (flag : Bool) : Engine := { e with useBuiltIn := flag }

def useCompiler (e : Engine) (b : Backend) : Engine := { e with backend := b }

/-- `makeSureInit` -/
def init (e : Engine) : Engine :=
  if e.inited then e
  else if e.useBuiltIn then
    { e with ops := e.ops ++ builtinOps, funs := e.funs ++ builtinDecls, inited := true }
  else { e with inited := true }

/-- the typing environment `env0.Inherit(e.typeCheck)` -/
def tenvOf (e : Engine) (tenv : List (String × Ty)) : TEnv := ⟨tenv, e.funs, reservedWords⟩

/-- `Compile(src, env0)`: the engine afterwards (initialised, also when compilation fails) and the
Callable or the error. -/
def compile (e : Engine) (times : List (String × Int)) (tenv : List (String × Ty)) (src : String) :
    Engine × Except CompileErr Callable :=
  let e' := e.init
  (e', match compileSrc e'.ops times (e'.tenvOf tenv) src with
       | .error err => .error err
       | .ok (ty, tree) => .ok ⟨tenv, ty, tree, e'.funs, e'.backend⟩)

/-- the function table a Callable resolves its static calls in when it is invoked on `e` -/
def tableFor (e : Engine) (c : Callable) : List FunDecl := if c.backend.late then e.funs else c.funs

/-- the Callable applied to the run-time environment `venv` (`ext`: the results of the functions
of the Go runtime the run needs, `Yae.Externs`): `envCheck`, then the compiled code on
`env1.Inherit(e.runtime)`.  The engine is not changed. -/
def invoke (e : Engine) (c : Callable) (venv : List (String × Val)) (ext : Externs := {}) :
    Except RunErr Val × List Event :=
  match envCheck c.tenv venv with
  | .error err => (.error (.env err), [])
  | .ok () =>
    match runEval c.backend.dbg ⟨venv, e.tableFor c, ext⟩ c.tree with
    | (.ok v, evs) => (.ok v, evs)
    | (.error f, evs) => (.error (.fail f), evs)

end Engine

/-! ## histories of API calls -/

inductive Op where
  | registerFun (d : FunDecl)
  | registerOperator (o : Operator)
  | useBuiltIn (flag : Bool)
  | useCompiler (b : Backend)
  | compile (times : List (String × Int)) (tenv : List (String × Ty)) (src : String)
  /-- invoke the Callable that step `k` of this history returned -/
  | invoke (k : Nat) (venv : List (String × Val)) (ext : Externs)
  /-- invoke a given Callable (obtained anywhere) -/
  | invokeC (c : Callable) (venv : List (String × Val)) (ext : Externs)

inductive Out where
  | done                                              -- a registration / setting
  | compiled (r : Except CompileErr Callable)
  | result (r : Except RunErr Val × List Event)
  | noCallable                                        -- step `k` is not an earlier successful compilation

/-- compilations and invocations (no registration, no setting) -/
def Op.isUse : Op → Bool
  | .compile .. | .invoke .. | .invokeC .. => true
  | _ => false

/-- the Callable an earlier output holds -/
def Out.callable? : Option Out → Option Callable
  | some (.compiled (.ok c)) => some c
  | _ => none

/-- one API call; `outs` are the outputs of the earlier calls, in order -/
def Engine.step (e : Engine) (outs : List Out) : Op → Engine × Out
  | .registerFun d => (e.registerFun d, .done)
  | .registerOperator o => (e.registerOperator o, .done)
  | .useBuiltIn flag => (e.setUseBuiltIn flag, .done)
  | .useCompiler b => (e.useCompiler b, .done)
  | .compile times tenv src => let r := e.compile times tenv src; (r.1, .compiled r.2)
  | .invoke k venv ext =>
    match Out.callable? outs[k]? with
    | some c => (e, .result (e.invoke c venv ext))
    | none => (e, .noCallable)
  | .invokeC c venv ext => (e, .result (e.invoke c venv ext))

def Engine.runFrom (e : Engine) (outs : List Out) : List Op → Engine × List Out
  | [] => (e, outs)
  | op :: rest => let r := e.step outs op; Engine.runFrom r.1 (outs ++ [r.2]) rest

/-- the engine after the history and the outputs of its calls, in order -/
def Engine.run (e : Engine) (ops : List Op) : Engine × List Out := e.runFrom [] ops

/-- the `i`-th call of `ops` performed on `e` ALONE: a compilation is done on `e`; an invocation of
"the Callable of step `k`" recompiles the source of step `k` on `e` and invokes the result on `e`.
Nothing else of `ops` is used. -/
def Engine.single (e : Engine) (ops : List Op) (i : Nat) : Out :=
  match ops[i]? with
  | some (.compile times tenv src) => .compiled (e.compile times tenv src).2
  | some (.invokeC c venv ext) => .result (e.invoke c venv ext)
  | some (.invoke k venv ext) =>
    if k < i then
      match ops[k]? with
      | some (.compile times tenv src) =>
        (match (e.compile times tenv src).2 with
         | .ok c => .result (e.invoke c venv ext)
         | .error _ => .noCallable)
      | _ => .noCallable
    else .noCallable
  | _ => .done

end Yae
