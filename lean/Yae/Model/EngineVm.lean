/-
  `facade.go`, the engine object, with the `vm` back end modelled by THE MACHINE.

  `Yae/Model/Engine.lean` runs every Callable with the reference evaluator (`runEval`), whatever
  the compiler.  Here the state machine is the same (`EngineVm` wraps an `Engine`: `ops`, `funs`,
  `useBuiltIn`, `inited`, `backend` change exactly as there), but when the engine's compiler is
  `vm.Compile` (`Backend.vm`, the default of `NewExpr`)

    * `Compile` additionally runs the bytecode compiler of `Yae/Model/Vm.lean`
      (`Vm.compile funs tree`, `funs` = the engine's run-time table at that moment, as
      `e.compiler(transed, e.runtime)` in `CompileExpr`, facade.go:212), and keeps the code and
      the constant pool in the Callable (`CallableVm.vmCode`);
    * the Callable, when invoked, runs `Vm.runVm` on that code (`NewVM().Interp(bytecode, env)`,
      vm/compiler.go:16-21) after the same `envCheck`.

  The other back ends (`closure`, `closureDebug`, `interp`) are `Engine.invoke`, unchanged.

  ## What the Go API does when the VM compiler refuses

  The only refusals of `vm/compiler.go` on a checked tree are the three `util.Assert(…, "overflow")`
  (vm/compiler.go:206 `emitUint8`, :215 `emitUint16`, :227 the closure of `placeholderUint16`);
  `util.Assert` (util/contract.go:7-11) PANICS with `fmt.Errorf("overflow")`.  The panic unwinds
  `vm.Compile` (vm/compiler.go:16, no recover there), `e.compiler(transed, e.runtime)`
  (facade.go:212) and `CompileExpr`, and is recovered by `defer e.backStrace("compile", &err)`
  in `Expr.Compile` (facade.go:186, `backStrace` at facade.go:257-265): the named result `err`
  becomes `fmt.Errorf("%v", r)`, i.e. an error whose text is `overflow`, and the named result
  `c` was never assigned (facade.go:189 `c = e.makeCallable(…)` is not reached), so
  `Compile` returns `(nil, error "overflow")` — an ordinary COMPILE ERROR, indistinguishable in
  kind from a syntax or type error (those are panics recovered by the same `backStrace`).
  `MustCompile` (facade.go:170-176) re-panics with it.  The engine is left initialised
  (`makeSureInit` ran in `Parse`, facade.go:194) and otherwise unchanged; `types.Check` has
  already annotated the tree, which is dropped.  No Callable exists, so nothing can be invoked.
  Hence `CompileErrVm.vm` below: `EngineVm.compile` returns `.error (.vm err)`, and
  `Op.invoke k` of such a step is `noCallable`.

  ## Modelling decisions

  * The run-time table handed to the machine is `e.tableFor c` (for `Backend.vm`: the table at
    compile time, `c.funs`), as in `Engine.invoke`.  In Go it is `env1.Inherit(e.runtime)`, the
    CURRENT table; the machine never consults it (`Vm.run` uses `env.ext` and `env.lookupVar`
    only: callees are in the constant pool, `Const.fn`), so the choice is unobservable.
  * `Op.invokeC c …` hands over a `Callable` without code (the `Op` type is shared with
    `Engine`); `CallableVm.ofCallable` recompiles its tree against its own table.  That is why
    `vmCode` is an `Option (Except …)`: `none` = not a `vm` Callable, `some (.error _)` = a `vm`
    Callable that `vm.Compile` would have refused (it cannot come from `Compile`; invoking it is
    reported as the internal fault `stuck "vm: no bytecode"`, a device of the model).

  Not modelled: as in `Engine.lean`.
-/
import Yae.Model.Engine
import Yae.Model.Vm
namespace Yae
open Yae.Facade

/-- what `Compile` reports: an error of the front end (lexer, parser, desugaring, checker), or the
recovered `overflow` panic of `vm.Compile` -/
inductive CompileErrVm where
  | front (e : CompileErr)
  | vm (e : Vm.CErr)
  deriving Inhabited

/-- what `vm.Compile` produces for a tree, if the back end is `vm`; nothing for the others -/
def vmCodeOf (b : Backend) (funs : List FunDecl) (tree : Expr) :
    Option (Except Vm.CErr (Vm.Code × Vm.Pool)) :=
  match b with
  | .vm => some (Vm.compile funs tree)
  | _ => none

/-- What `Compile` returns: the Callable of `Engine.lean` and, for the `vm` back end, the
bytecode and the constant pool its closure holds. -/
structure CallableVm where
  toCallable : Callable
  vmCode : Option (Except Vm.CErr (Vm.Code × Vm.Pool))
  deriving Inhabited

/-- a Callable obtained anywhere, with the code `vm.Compile` gives for its tree and table -/
def CallableVm.ofCallable (c : Callable) : CallableVm := ⟨c, vmCodeOf c.backend c.funs c.tree⟩

structure EngineVm where
  eng : Engine := {}
  deriving Inhabited

namespace EngineVm

/-- `NewExpr()` -/
def new : EngineVm := {}

def registerFun (e : EngineVm) (d : FunDecl) : EngineVm := ⟨e.eng.registerFun d⟩
def registerOperator (e : EngineVm) (o : Operator) : EngineVm := ⟨e.eng.registerOperator o⟩
def setUseBuiltIn (e : EngineVm) (flag : Bool) : EngineVm := ⟨e.eng.setUseBuiltIn flag⟩
def useCompiler (e : EngineVm) (b : Backend) : EngineVm := ⟨e.eng.useCompiler b⟩

/-- `Compile(src, env0)`: `makeSureInit`, lexer, parser, desugaring, `types.Check` as in
`Engine.compile`; then, if the compiler is `vm.Compile`, the bytecode compiler on the checked
tree and the engine's table.  Its refusal is the compile error `.vm`. -/
def compile (e : EngineVm) (times : List (String × Int)) (tenv : List (String × Ty)) (src : String) :
    EngineVm × Except CompileErrVm CallableVm :=
  let e' := e.eng.init
  (⟨e'⟩, match compileSrc e'.ops times (e'.tenvOf tenv) src with
         | .error err => .error (.front err)
         | .ok (ty, tree) =>
           match vmCodeOf e'.backend e'.funs tree with
           | some (.error ce) => .error (.vm ce)
           | code => .ok ⟨⟨tenv, ty, tree, e'.funs, e'.backend⟩, code⟩)

/-- the Callable applied to `venv`.  `vm`: `envCheck`, then the machine on the compiled code;
the other back ends: `Engine.invoke`. -/
def invoke (e : EngineVm) (c : CallableVm) (venv : List (String × Val)) (ext : Externs := {}) :
    Except RunErr Val × List Event :=
  match c.toCallable.backend with
  | .vm =>
    match envCheck c.toCallable.tenv venv with
    | .error err => (.error (.env err), [])
    | .ok () =>
      match c.vmCode with
      | some (.ok (code, pool)) =>
        match Vm.runVm ⟨venv, e.eng.tableFor c.toCallable, ext⟩ code pool with
        | (.ok v, evs) => (.ok v, evs)
        | (.error f, evs) => (.error (.fail f), evs)
      | _ => (.error (.fail (.stuck "vm: no bytecode")), [])
  | _ => e.eng.invoke c.toCallable venv ext

end EngineVm

/-- the outputs of `EngineVm`: those of `Engine` (`Out`), with `CallableVm` and `CompileErrVm` -/
inductive OutVm where
  | done
  | compiled (r : Except CompileErrVm CallableVm)
  | result (r : Except RunErr Val × List Event)
  | noCallable

/-- the code erased: the `Out` this output is, if it is one — every output but the refusal of the
VM compiler -/
def OutVm.erase : OutVm → Option Out
  | .done => some .done
  | .compiled (.ok c) => some (.compiled (.ok c.toCallable))
  | .compiled (.error (.front err)) => some (.compiled (.error err))
  | .compiled (.error (.vm _)) => none
  | .result r => some (.result r)
  | .noCallable => some .noCallable

/-- the Callable an earlier output holds -/
def OutVm.callable? : Option OutVm → Option CallableVm
  | some (.compiled (.ok c)) => some c
  | _ => none

/-- one API call; `outs` are the outputs of the earlier calls, in order -/
def EngineVm.step (e : EngineVm) (outs : List OutVm) : Op → EngineVm × OutVm
  | .registerFun d => (e.registerFun d, .done)
  | .registerOperator o => (e.registerOperator o, .done)
  | .useBuiltIn flag => (e.setUseBuiltIn flag, .done)
  | .useCompiler b => (e.useCompiler b, .done)
  | .compile times tenv src => let r := e.compile times tenv src; (r.1, .compiled r.2)
  | .invoke k venv ext =>
    match OutVm.callable? outs[k]? with
    | some c => (e, .result (e.invoke c venv ext))
    | none => (e, .noCallable)
  | .invokeC c venv ext => (e, .result (e.invoke (.ofCallable c) venv ext))

def EngineVm.runFrom (e : EngineVm) (outs : List OutVm) : List Op → EngineVm × List OutVm
  | [] => (e, outs)
  | op :: rest => let r := e.step outs op; EngineVm.runFrom r.1 (outs ++ [r.2]) rest

/-- the engine after the history and the outputs of its calls, in order -/
def EngineVm.run (e : EngineVm) (ops : List Op) : EngineVm × List OutVm := e.runFrom [] ops

end Yae
