/-
  The reference evaluator: what `closure/compiler.go` and `interp/interp.go` compute on a
  checked tree (both are the same structural recursion; each is tied to this definition by
  its own correspondence stream).  With `dbg = true` it is `closure.DebugCompile`.
  Tags are checked dynamically so that "no unchecked cast goes wrong" is a theorem (C01/C02).
  Fuel bounds the *depth* of the recursion, `Expr.depth e + 1` always suffices.
-/
import Yae.Model.Check
import Yae.Model.Builtins
namespace Yae

structure REnv where
  vars : List (String × Val)
  funs : List FunDecl
  ext : Externs := {}
  deriving Inhabited

def REnv.lookupVar (env : REnv) (x : String) : Option Val :=
  (env.vars.find? fun p => p.1 == x).map (·.2)

/-- evaluation carries the log of observable events (most recent first) -/
abbrev EvalM (α : Type) := List Event → (Except Fail α × List Event)

instance : Monad EvalM where
  pure a := fun log => (.ok a, log)
  bind x f := fun log =>
    match x log with
    | (.ok a, log') => f a log'
    | (.error e, log') => (.error e, log')

def EvalM.fail {α} (f : Fail) : EvalM α := fun log => (.error f, log)
def EvalM.emit (e : Event) : EvalM Unit := fun log => (.ok (), e :: log)
def EvalM.emitAll (es : List Event) : EvalM Unit := fun log => (.ok (), es.reverse ++ log)
def EvalM.lift {α} (x : Except Fail α) : EvalM α := fun log => (x, log)

open EvalM

def recDbg (dbg : Bool) (v : Val) (col : Int) : EvalM Val := do
  if dbg then emit (.dbg v (col + 1))
  pure v

/-- the run-time function a statically dispatched call refers to -/
def resolveStatic (funs : List FunDecl) (resolved : String) (index : Int) : Option FunDecl :=
  if index < 0 then lookupMono funs resolved
  else (lookupPoly funs resolved)[index.toNat]?

def hostStrict (name : String) (beh : HostBeh) (args : List Val) : EvalM Val := do
  emit (.call name (args.map Val.render))
  match beh with
  | .retArg i => match args[i]? with
    | some v => pure v
    | none => fail (.stuck "host-arg")
  | .constNum v => pure (.num v)
  | .constStr v => pure (.str v)
  | .constBool v => pure (.bool v)
  | .fail => fail (.hostFail name)
  | .force _ => fail (.stuck "host-lazy-as-strict")

mutual
def eval (fuel : Nat) (dbg : Bool) (env : REnv) (e : Expr) : EvalM Val :=
  match fuel with
  | 0 => fail .fuel
  | fuel+1 =>
  match e with
  | .str _ v => pure (.str v)
  | .num _ v => pure (.num v)
  | .time _ v => pure (.time (TimeV.unix v))
  | .bool _ v => pure (.bool v)
  | .list _ es ty =>
    match es with
    | .nil => pure (.list (.list .bot) .nil)
    | es => do
      let vs ← evalList fuel dbg env es
      match ty with
      | some t => pure (.list t vs)
      | none => fail (.stuck "list-untyped")
  | .map _ ps ty =>
    match ps with
    | .nil => pure (.map (.map .bot .bot) .nil)
    | ps =>
      match ty with
      | some t => do
        let es ← evalPairs fuel dbg env ps .nil
        pure (.map t es)
      | none => fail (.stuck "map-untyped")
  | .obj _ fs ty =>
    match fs with
    | .nil => pure (.obj (.obj .nil) .nil)
    | fs => do
      let vs ← evalFields fuel dbg env fs
      match ty with
      | some t => pure (.obj t vs)
      | none => fail (.stuck "obj-untyped")
  | .ident p name =>
    match env.lookupVar name with
    | some v => recDbg dbg v p.col
    | none => fail (.stuck "missing-var")
  | .call _ col callee args _ resolved index => do
    let v ← (if resolved == "" then do
        let fv ← eval fuel dbg env callee
        match fv with
        | .fn (.fn _ _ _) ref isLazy => callFun fuel dbg env ref isLazy args
        | _ => fail (.stuck "cast:fun")
      else
        match resolveStatic env.funs resolved index with
        | some d => callFun fuel dbg env d.ref d.isLazy args
        | none => fail (.stuck "fun-not-defined"))
    recDbg dbg v col
  | .subscript _ col var idx _ => do
    let x ← eval fuel dbg env var
    let v ← (match x with
      | .list _ vs => do
        let i ← eval fuel dbg env idx
        match i with
        | .num f =>
          let n := Num.toInt f
          if n < 0 || n ≥ vs.length then fail .indexOutOfRange
          else match vs.get? n.toNat with
            | some v => pure v
            | none => fail .indexOutOfRange
        | _ => fail (.stuck "cast:num")
      | .map _ es => do
        let k ← eval fuel dbg env idx
        match k.key? with
        | some (t, ks) =>
          match es.find? t ks with
          | some v => pure v
          | none => fail .missingKey
        | none => fail (.stuck "invalid map key type")
      | _ => fail (.stuck "unreachable:subscript"))
    recDbg dbg v col
  | .member _ col obj field _ _ _ => do
    let o ← eval fuel dbg env obj
    let v ← (match o with
      | .obj ty vs =>
        match objGet? ty vs field with
        | some v => pure v
        | none => fail (.stuck "member-missing")
      | _ => fail (.stuck "cast:obj"))
    recDbg dbg v col
  | .unary .. => fail (.stuck "unreachable:sugar")
  | .binary .. => fail (.stuck "unreachable:sugar")
  | .ternary .. => fail (.stuck "unreachable:sugar")
  | .group .. => fail (.stuck "unreachable:sugar")
def evalList (fuel : Nat) (dbg : Bool) (env : REnv) : ExprList → EvalM ValList
  | .nil => pure .nil
  | .cons e es => do
    let v ← eval fuel dbg env e
    let vs ← evalList fuel dbg env es
    pure (.cons v vs)
def evalPairs (fuel : Nat) (dbg : Bool) (env : REnv) : PairList → EntryList → EvalM EntryList
  | .nil, acc => pure acc
  | .cons k v ps, acc => do
    let kv ← eval fuel dbg env k
    match kv.key? with
    | some (t, ks) =>
      let vv ← eval fuel dbg env v
      evalPairs fuel dbg env ps (acc.insert t ks vv)
    | none => fail (.stuck "invalid map key type")
def evalFields (fuel : Nat) (dbg : Bool) (env : REnv) : FieldEList → EvalM ValList
  | .nil => pure .nil
  | .cons _ e fs => do
    let v ← eval fuel dbg env e
    let vs ← evalFields fuel dbg env fs
    pure (.cons v vs)
/-- `makeCallClosure`: strict functions get their arguments evaluated left to right, lazy ones
get thunks which they force as they please -/
def callFun (fuel : Nat) (dbg : Bool) (env : REnv) (ref : FunRef) (isLazy : Bool) (args : ExprList) : EvalM Val :=
  match ref with
  | .builtin idx =>
    match builtins[idx]? with
    | none => fail (.stuck "builtin-index")
    | some d =>
      if isLazy then
        match d.id, args with
        | .IF_BOOL_ANY_ANY, .cons c (.cons t (.cons f .nil)) => do
          match ← eval fuel dbg env c with
          | .bool true => eval fuel dbg env t
          | .bool false => eval fuel dbg env f
          | _ => fail (.stuck "cast:bool")
        | .LOGIC_AND_BOOL_BOOL, .cons x (.cons y .nil) => do
          match ← eval fuel dbg env x with
          | .bool true =>
            (match ← eval fuel dbg env y with
             | .bool b => pure (.bool b)
             | _ => fail (.stuck "cast:bool"))
          | .bool false => pure (.bool false)
          | _ => fail (.stuck "cast:bool")
        | .LOGIC_OR_BOOL_BOOL, .cons x (.cons y .nil) => do
          match ← eval fuel dbg env x with
          | .bool true => pure (.bool true)
          | .bool false =>
            (match ← eval fuel dbg env y with
             | .bool b => pure (.bool b)
             | _ => fail (.stuck "cast:bool"))
          | _ => fail (.stuck "cast:bool")
        | _, _ => fail (.stuck "lazy-builtin-args")
      else do
        let vs ← evalList fuel dbg env args
        let (v, evs) ← lift (applyBuiltin env.ext d.id vs.toList)
        emitAll evs
        pure v
  | .host name beh =>
    if isLazy then
      match beh with
      | .force order => do
        emit (.call name [])
        forceSeq fuel dbg env args order none
      | _ => fail (.stuck "host-strict-as-lazy")
    else do
      let vs ← evalList fuel dbg env args
      hostStrict name beh vs.toList
def forceSeq (fuel : Nat) (dbg : Bool) (env : REnv) (args : ExprList) : List Nat → Option Val → EvalM Val
  | [], some v => pure v
  | [], none => fail (.stuck "lazy-host-forced-nothing")
  | i :: rest, _ =>
    match args.get? i with
    | some a => do
      let v ← eval fuel dbg env a
      forceSeq fuel dbg env args rest (some v)
    | none => fail (.stuck "host-arg")
end

/-- Run an evaluation from an empty log; events are returned oldest first. -/
def runEval (dbg : Bool) (env : REnv) (e : Expr) : Except Fail Val × List Event :=
  let (r, log) := eval (e.depth + 1) dbg env e []
  (r, log.reverse)

end Yae
