/-
  `facade.go`: the pipeline behind `Expr.Compile` and the `Callable` it returns, composed from the
  stage models —  lex → parse → desugar → type check → (environment check) → evaluate.

      Parse        = `lexer.NewLexer(ops).Lex` ; `parser.NewParser(ops).Parse`
      CompileExpr  = the registered translators (`trans.Desugar`) ; `types.Check` ; the compiler
      Callable     = `envCheck` (every compile-time name bound at run time to a value of an equal
                     type) ; the closure on the run-time environment

  Every Go panic inside `Compile` is turned into the returned error by `backStrace`; the model
  keeps the stage that failed.  The back end is the reference evaluator `eval` (the closure
  compiler and the interpreter are tied to it directly, the VM through C03).
-/
import Yae.Model.Parser
import Yae.Model.Desugar
import Yae.Model.Check
import Yae.Model.Eval
import Yae.Model.Conv
namespace Yae.Facade
open Yae

inductive CompileErr where
  | lex (e : LexErr)            -- `syntax error …` from the lexer (`.fuel`: Go does not terminate)
  | parse (e : ParseErr)        -- `syntax error …` from the parser
  | desugar                     -- `util.Unreachable()` in `trans.Desugar`
  | check (e : CheckErr)        -- a type error
  deriving Inhabited

/-- `e.Parse(src)` then `e.CompileExpr(parsed, env0)` up to and including `types.Check`: the
inferred type and the annotated tree the compiler is given. -/
def compileSrc (ops : List Operator) (times : List (String × Int)) (Γ : TEnv) (src : String) :
    Except CompileErr (Ty × Expr) :=
  match lex ops src.toList with
  | .error e => .error (.lex e)
  | .ok toks =>
    match parse ops times toks with
    | .error e => .error (.parse e)
    | .ok parsed =>
      match desugarGo parsed with
      | none => .error .desugar
      | some d =>
        match check Γ 0 d with
        | .error e => .error (.check e)
        | .ok (ty, e', _) => .ok (ty, e')

inductive RunErr where
  | compile (e : CompileErr)
  | env (e : EnvErr)              -- `Yae.envCheck` (`Model/Conv.lean`) refuses the run-time environment
  | fail (f : Fail)             -- the run-time failure (a recovered panic of the closure)
  deriving Inhabited

/-- `Compile(src, env0)` followed by one invocation of the `Callable` on `ρ`: the value or the
error, and the events (host calls, prints) of the evaluation. -/
def evalSrc (ops : List Operator) (times : List (String × Int)) (Γ : TEnv) (ρ : REnv) (src : String) :
    Except RunErr Val × List Event :=
  match compileSrc ops times Γ src with
  | .error e => (.error (.compile e), [])
  | .ok (_, e') =>
    match envCheck Γ.vars ρ.vars with
    | .error e => (.error (.env e), [])
    | .ok () =>
      match runEval false ρ e' with
      | (.ok v, evs) => (.ok v, evs)
      | (.error f, evs) => (.error (.fail f), evs)

end Yae.Facade
