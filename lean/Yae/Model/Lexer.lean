/-
  Model of `parser/lexer`: `lexer.NewLexer(ops).Lex(input)`.

  The input is a list of Unicode scalar values (`[]rune(input)` of a valid UTF-8 string).
  The lexicon is the ordered rule list of `newLexicon`; the first rule that matches at the
  cursor wins.  Go's `regexp` (RE2 syntax, leftmost-first, every pattern anchored with `^`)
  is not modelled in general: each of the ten concrete patterns is a hand-written recogniser
  returning the number of runes matched.  On all ten the leftmost-first match is the greedy
  one and no backtracking into an earlier piece can succeed (see the comment at each
  recogniser), so the recognisers are deterministic scanners.

  Everything here is total and structurally / fuel recursive (no `partial`).
-/
import Yae.Model.Token
import Yae.Gen.Unicode
namespace Yae

/-! ## Character classes -/

/-- Membership in an ascending list of inclusive ranges. -/
def inRanges (n : Nat) : List (Nat × Nat) → Bool
  | [] => false
  | (lo, hi) :: rest =>
    if n < lo then false else if n ≤ hi then true else inRanges n rest

/-- Go `unicode.IsSpace`. -/
def isSpace (c : Char) : Bool := inRanges c.toNat Gen.spaceRanges

/-- Go regexp `\p{L}` (= `unicode.L`). -/
def isLetter (c : Char) : Bool := inRanges c.toNat Gen.letterRanges

/-- `[0-9]` (Go's `\d` is ASCII only). -/
def isDigit (c : Char) : Bool := '0' ≤ c && c ≤ '9'

def isAsciiAlpha (c : Char) : Bool := ('a' ≤ c && c ≤ 'z') || ('A' ≤ c && c ≤ 'Z')

/-- `[a-zA-Z\p{L}_]` -/
def isIdentStart (c : Char) : Bool := isAsciiAlpha c || isLetter c || c == '_'

/-- `[a-zA-Z0-9\p{L}_]` (also `keywordPostfix`'s class `[a-zA-Z\d\p{L}_]`). -/
def isIdentCont (c : Char) : Bool := isAsciiAlpha c || isDigit c || isLetter c || c == '_'

/-- The runes of `oper.operators` = ":!#$%^&*+./<=>?@\\ˆ|~-" (note U+02C6 `ˆ`, a letter). -/
def operChars : List Char :=
  [':', '!', '#', '$', '%', '^', '&', '*', '+', '.', '/', '<', '=', '>', '?', '@', '\\',
   'ˆ', '|', '~', '-']

/-- `oper.HasPrefix s`: `s` starts with one of the operator runes. -/
def operHasPrefix : List Char → Bool
  | [] => false
  | c :: _ => operChars.contains c

/-- `oper.IsIdentOp`: `^[a-zA-Z\p{L}_][a-zA-Z0-9\p{L}_]*$` (`$` = end of text, no `m` flag). -/
def isIdentOp (s : List Char) : Bool :=
  match s with
  | [] => false
  | c :: cs => isIdentStart c && cs.all isIdentCont

/-! ## Regular-expression recognisers

Each returns `some n` = the anchored leftmost-first match has `n` runes, `none` = no match.
Pieces return the count together with the rest of the input. -/

/-- Greedy `[class]*`: number of leading characters in the class, and the rest. -/
def skipWhile (p : Char → Bool) : List Char → Nat × List Char
  | [] => (0, [])
  | c :: cs =>
    if p c then
      let r := skipWhile p cs
      (r.1 + 1, r.2)
    else (0, c :: cs)

/-- `[0-9]+` -/
def reDigits1 (cs : List Char) : Option (Nat × List Char) :=
  match skipWhile isDigit cs with
  | (0, _) => none
  | (n, r) => some (n, r)

/-- `(?:0|[1-9][0-9]*)`.  After `0` the first alternative wins and the second cannot match a
    `0`; giving back digits of `[0-9]*` never helps what follows (it would have to start with
    a digit), so greedy is the leftmost-first answer. -/
def reIntPart : List Char → Option (Nat × List Char)
  | [] => none
  | c :: cs =>
    if c == '0' then some (1, cs)
    else if '1' ≤ c && c ≤ '9' then
      let r := skipWhile isDigit cs
      some (r.1 + 1, r.2)
    else none

/-- `[.][0-9]+` -/
def reFrac : List Char → Option (Nat × List Char)
  | [] => none
  | c :: cs =>
    if c == '.' then
      match reDigits1 cs with
      | some (n, r) => some (n + 1, r)
      | none => none
    else none

/-- `[eE][-+]?[0-9]+`.  When the sign is taken and no digit follows, the retry without the
    sign needs a digit where the sign is: no match either. -/
def reExp : List Char → Option (Nat × List Char)
  | [] => none
  | e :: cs =>
    if e == 'e' || e == 'E' then
      match cs with
      | [] => none
      | s :: cs' =>
        if s == '-' || s == '+' then
          match reDigits1 cs' with
          | some (n, r) => some (n + 2, r)
          | none => none
        else
          match reDigits1 cs with
          | some (n, r) => some (n + 1, r)
          | none => none
    else none

/-- Greedy `(?:piece)*` for a piece that consumes at least one rune per iteration (`fuel` =
    length of the input is enough).  Used only where an iteration, once matched, is never
    given back: the continuation after the star is optional or a later iteration. -/
def reStar (piece : List Char → Option (Nat × List Char)) : Nat → List Char → Nat × List Char
  | 0, cs => (0, cs)
  | fuel + 1, cs =>
    match piece cs with
    | none => (0, cs)
    | some (n, r) =>
      let rest := reStar piece fuel r
      (n + rest.1, rest.2)

/-- `(?:0|[1-9][0-9]*)(?:[.][0-9]+)+(?:[eE][-+]?[0-9]+)?` -/
def reFloatA (cs : List Char) : Option Nat :=
  match reIntPart cs with
  | none => none
  | some (a, r1) =>
    match reFrac r1 with
    | none => none
    | some (b, r2) =>
      let more := reStar reFrac r2.length r2
      let d := match reExp more.2 with
        | some (d, _) => d
        | none => 0
      some (a + b + more.1 + d)

/-- `int (exp)+` from a given point: the tail shared by the two branches of `reFloatB`. -/
def reExps1 (cs : List Char) : Option Nat :=
  match reExp cs with
  | none => none
  | some (c, r) => some (c + (reStar reExp r.length r).1)

/-- `(?:0|[1-9][0-9]*)(?:[.][0-9]+)?(?:[eE][-+]?[0-9]+)+`.  The optional fraction is tried
    first (greedy `?`); if the exponents then fail, the empty fraction is tried. -/
def reFloatB (cs : List Char) : Option Nat :=
  match reIntPart cs with
  | none => none
  | some (a, r1) =>
    let noFrac := match reExps1 r1 with
      | some c => some (a + c)
      | none => none
    match reFrac r1 with
    | some (b, r2) =>
      match reExps1 r2 with
      | some c => some (a + b + c)
      | none => noFrac
    | none => noFrac

/-- `0<letter>(?:0|<first><rest>*)` for the three radix forms. -/
def reRadix (letter : Char) (first rest : Char → Bool) : List Char → Option Nat
  | z :: l :: c :: cs =>
    if z == '0' && l == letter then
      if c == '0' then some 3
      else if first c then some (3 + (skipWhile rest cs).1)
      else none
    else none
  | _ => none

def isBin (c : Char) : Bool := c == '0' || c == '1'
def isHex (c : Char) : Bool :=
  isDigit c || ('a' ≤ c && c ≤ 'f') || ('A' ≤ c && c ≤ 'F')
def isHex1 (c : Char) : Bool :=
  ('1' ≤ c && c ≤ '9') || ('a' ≤ c && c ≤ 'f') || ('A' ≤ c && c ≤ 'F')
def isOct (c : Char) : Bool := '0' ≤ c && c ≤ '7'
def isOct1 (c : Char) : Bool := '1' ≤ c && c ≤ '7'

/-- `0b(?:0|1[0-1]*)` -/
def reBin : List Char → Option Nat := reRadix 'b' (· == '1') isBin
/-- `0x(?:0|[1-9a-fA-F][0-9a-fA-F]*)` -/
def reHex : List Char → Option Nat := reRadix 'x' isHex1 isHex
/-- `0o(?:0|[1-7][0-7]*)` -/
def reOct : List Char → Option Nat := reRadix 'o' isOct1 isOct

/-- `(?:0|[1-9][0-9]*)` -/
def reInt (cs : List Char) : Option Nat := (reIntPart cs).map (·.1)

def isSimpleEscape (c : Char) : Bool :=
  c == '"' || c == '\\' || c == 't' || c == 'r' || c == 'n' || c == 'b' || c == 'f' || c == '/'

/-- The part of the string pattern after the opening quote:
    `(?:[^"\\]*|\\["\\trnbf\/]|\\u[0-9a-fA-F]{4})*"`.
    The three alternatives start with disjoint characters (anything but `"` and `\`; `\` then
    one of `"\trnbf/`; `\u`), and only the closing `"` of the pattern can consume an
    unescaped `"`, so there is at most one way to match and the priorities of leftmost-first
    (including the empty iteration of `[^"\\]*`) do not matter: the match ends at the first
    unescaped quote provided every backslash before it starts a well-formed escape.
    Returns the rune count including the closing quote. -/
def reStrBody : List Char → Option Nat
  | [] => none
  | c :: cs =>
    if c == '"' then some 1
    else if c == '\\' then
      match cs with
      | [] => none
      | e :: cs1 =>
        if isSimpleEscape e then (reStrBody cs1).map (· + 2)
        else if e == 'u' then
          match cs1 with
          | h1 :: h2 :: h3 :: h4 :: cs2 =>
            if isHex h1 && isHex h2 && isHex h3 && isHex h4 then (reStrBody cs2).map (· + 6)
            else none
          | _ => none
        else none
    else (reStrBody cs).map (· + 1)

/-- `"(?:[^"\\]*|\\["\\trnbf\/]|\\u[0-9a-fA-F]{4})*"` -/
def reStr : List Char → Option Nat
  | [] => none
  | c :: cs => if c == '"' then (reStrBody cs).map (· + 1) else none

/-- `[^<stops>]*<close>` where `close` is one of the stops: count including `close`. -/
def reUntil (close : Char) (stops : Char → Bool) : List Char → Option Nat
  | [] => none
  | c :: cs =>
    if c == close then some 1
    else if stops c then none
    else (reUntil close stops cs).map (· + 1)

/-- `` `[^`]*` `` (raw string; negated classes match newlines too). -/
def reRaw : List Char → Option Nat
  | [] => none
  | c :: cs => if c == '`' then (reUntil '`' (· == '`') cs).map (· + 1) else none

/-- ``'[^`"']*'`` -/
def reTime : List Char → Option Nat
  | [] => none
  | c :: cs =>
    if c == '\'' then
      (reUntil '\'' (fun c => c == '`' || c == '"' || c == '\'') cs).map (· + 1)
    else none

/-- `[a-zA-Z\p{L}_][a-zA-Z0-9\p{L}_]*` -/
def reSym : List Char → Option Nat
  | [] => none
  | c :: cs => if isIdentStart c then some (1 + (skipWhile isIdentCont cs).1) else none

/-- The ten patterns of `newLexicon`, in its order. -/
inductive Pat where
  | floatA | floatB | bin | hex | oct | int | str | raw | time | sym
  deriving DecidableEq, Repr, Inhabited

def Pat.run : Pat → List Char → Option Nat
  | .floatA => reFloatA
  | .floatB => reFloatB
  | .bin => reBin
  | .hex => reHex
  | .oct => reOct
  | .int => reInt
  | .str => reStr
  | .raw => reRaw
  | .time => reTime
  | .sym => reSym

/-! ## Rules -/

/-- The four rule constructors of `rule.go`. -/
inductive Matcher where
  | str (tok : List Char)
  | keyword (kw : List Char)
  | primOper (op : List Char)
  | regex (p : Pat)
  deriving Repr, Inhabited

structure Rule where
  kind : String
  m : Matcher
  deriving Repr, Inhabited

/-- `rule.match`: `some n` = matched `n` runes, `none` = `NotMatched`.
    (`strings.HasPrefix` on valid UTF-8 is a rune-prefix test; `s[len(kw):]` is the rest.) -/
def Matcher.run : Matcher → List Char → Option Nat
  | .str tok, s => if tok.isPrefixOf s then some tok.length else none
  | .keyword kw, s =>
    if kw.isPrefixOf s then
      match s.drop kw.length with
      | [] => some kw.length
      | c :: _ => if isIdentCont c then none else some kw.length
    else none
  | .primOper op, s =>
    if op.isPrefixOf s then
      if operHasPrefix (s.drop op.length) then none else some op.length
    else none
  | .regex p, s =>
    match p.run s with
    | some 0 => none          -- `found == ""` is NotMatched
    | some n => some n
    | none => none

/-- `oper.Sort`: stable, by descending BYTE length of the kind. -/
def insertOp (x : Operator) : List Operator → List Operator
  | [] => [x]
  | y :: ys =>
    if y.kind.utf8ByteSize > x.kind.utf8ByteSize then y :: insertOp x ys else x :: y :: ys

def sortOps : List Operator → List Operator
  | [] => []
  | x :: xs => insertOp x (sortOps xs)

def strRule (k : String) : Rule := ⟨k, .str k.toList⟩
def keywordRule (k : String) : Rule := ⟨k, .keyword k.toList⟩
def primOperRule (k : String) : Rule := ⟨k, .primOper k.toList⟩

/-- `lexicon.addOper` -/
def operRule (k : String) : Rule :=
  if isIdentOp k.toList then keywordRule k else strRule k

/-- `builtInOpers` after `oper.Sort` (both of length 1: order kept). -/
def builtInOpers : List Operator :=
  [⟨".", 13, fixInfixL⟩, ⟨"?", 2, fixInfixR⟩]

/-- `newLexicon` -/
def newLexicon (ops : List Operator) : List Rule :=
  [":", ",", "(", ")", "[", "]", "{", "}"].map strRule
  ++ (sortOps builtInOpers).map (fun o => primOperRule o.kind)
  ++ (sortOps ops).map (fun o => operRule o.kind)
  ++ [keywordRule "true", keywordRule "false"]
  ++ [⟨"<num>", .regex .floatA⟩, ⟨"<num>", .regex .floatB⟩, ⟨"<num>", .regex .bin⟩,
      ⟨"<num>", .regex .hex⟩, ⟨"<num>", .regex .oct⟩, ⟨"<num>", .regex .int⟩,
      ⟨"<str>", .regex .str⟩, ⟨"<str>", .regex .raw⟩,
      ⟨"<time>", .regex .time⟩,
      ⟨"<sym>", .regex .sym⟩]

/-! ## The lexer loop -/

inductive LexErr where
  | syntax   -- "nothing token matched" (a panic in Go)
  | fuel     -- only with an operator of empty kind (Go loops for ever)
  deriving DecidableEq, Repr, Inhabited

/-- `skipSpace` -/
def skipSpace : List Char → Pos → List Char × Pos
  | [], p => ([], p)
  | c :: cs, p => if isSpace c then skipSpace cs (p.move c) else (c :: cs, p)

/-- First rule (in order) that matches at the cursor. -/
def firstMatch : List Rule → List Char → Option (String × Nat)
  | [], _ => none
  | r :: rs, s =>
    match r.m.run s with
    | some n => some (r.kind, n)
    | none => firstMatch rs s

/-- `lexer.next` iterated until EOF. -/
def lexLoop (rules : List Rule) : Nat → List Char → Pos → Except LexErr (List Token)
  | 0, _, _ => .error .fuel
  | fuel + 1, cs, p =>
    match skipSpace cs p with
    | ([], _) => .ok []
    | (cs1, p1) =>
      match firstMatch rules cs1 with
      | none => .error .syntax
      | some (kind, n) =>
        let matched := cs1.take n
        let p2 := matched.foldl Pos.move p1
        let tok : Token := ⟨kind, String.ofList matched, { p1 with idxEnd := p2.idx }⟩
        match lexLoop rules fuel (cs1.drop n) p2 with
        | .ok ts => .ok (tok :: ts)
        | .error e => .error e

/-- `lexer.NewLexer(ops).Lex(input)`.  Every token consumes at least one rune (unless an
    operator has the empty kind), so `input.length + 1` rounds suffice. -/
def lex (ops : List Operator) (input : List Char) : Except LexErr (List Token) :=
  lexLoop (newLexicon ops) (input.length + 1) input Pos.zero

end Yae
