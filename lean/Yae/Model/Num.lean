/-
  Numbers and string quoting, as the Go implementation computes them.

  yae's only number type is float64.  Everything here is computed on the IEEE-754 binary64 bit
  pattern (`Float.toBits` / `Float.ofBits`) and on exact `Nat`/`Int` arithmetic; nothing relies on
  libc, on `Float.toString` or on `Float.toInt64`.

  Modelled Go functions (go1.23, amd64):
    math.Trunc/Floor/Ceil/Round/Abs/Min/Max, `int64(f)` (CVTTSD2SI), `float64(int64)`,
    strconv.FormatInt(n,10), strconv.FormatFloat(x,'f',-1,64), strconv.ParseFloat(s,64) (decimal,
    unsigned subset), strconv.ParseInt(s,base,64), strconv.Quote, strconv.Unquote,
    and the repo's parser/ast.parseNum, val.(*Val).String / Key for numbers.

  Every `Float` function is a thin wrapper `Float.ofBits ∘ fBits ∘ Float.toBits` around a function on
  `UInt64` bit patterns (`truncBits`, `toInt64Bits`, `renderNumBits`, `parseNumLitBits`, ...).
  `Float.toBits`/`Float.ofBits` are opaque to the kernel, so proofs should be stated about the
  `...Bits` functions (see Yae/Proofs/NumLemmas.lean).

  Note: `Float.toBits` canonicalises NaN, so NaN payloads are not observable here (they are not
  observable in yae either).
-/
import Yae.Gen.Print
namespace Yae.Num

/-! ## Bit-level view -/

def signMask : UInt64 := 0x8000000000000000
def expMask  : UInt64 := 0x7FF0000000000000
def fracMask : UInt64 := 0x000FFFFFFFFFFFFF
def magMask  : UInt64 := 0x7FFFFFFFFFFFFFFF
/-- bits of `math.NaN()` -/
def nanBits  : UInt64 := 0x7FF8000000000001
def infBits  : UInt64 := 0x7FF0000000000000
def oneBits  : UInt64 := 0x3FF0000000000000

/-- biased exponent field, 0..2047 -/
def expField (b : UInt64) : Nat := ((b >>> 52) &&& 0x7FF).toNat
def fracField (b : UInt64) : Nat := (b &&& fracMask).toNat
def signBit (b : UInt64) : Bool := (b &&& signMask) != 0

def bitsIsNaN (b : UInt64) : Bool := expField b == 2047 && fracField b != 0
def bitsIsInf (b : UInt64) : Bool := expField b == 2047 && fracField b == 0

def isNaN (x : Float) : Bool := bitsIsNaN x.toBits
def isInf (x : Float) : Bool := bitsIsInf x.toBits
def isFinite (x : Float) : Bool := expField x.toBits != 2047
/-- `math.Signbit` -/
def signbit (x : Float) : Bool := signBit x.toBits
def isZero (x : Float) : Bool := (x.toBits &&& magMask) == 0

/-- For finite `x`: `|x| = mant * 2^exp` exactly (`mant < 2^53`).  Meaningless for NaN/Inf. -/
def decompose (b : UInt64) : Nat × Int :=
  let e := expField b
  let f := fracField b
  if e == 0 then (f, -1074) else (f + 2^52, (e : Int) - 1075)

def mantissa (x : Float) : Nat := (decompose x.toBits).1
def exponent (x : Float) : Int := (decompose x.toBits).2

/-- `m * 2^e` rounded toward zero to a natural number -/
def shiftNat (m : Nat) (e : Int) : Nat :=
  match e with
  | .ofNat k => m <<< k
  | .negSucc k => m >>> (k + 1)

/-- `⌊|x|⌋` for finite x -/
def truncMag (x : Float) : Nat := shiftNat (mantissa x) (exponent x)

/-! ## math.Trunc / Floor / Ceil / Round / Abs / Min / Max -/

/-- truncation on the bit pattern; keeps sign, ±0, ±Inf, NaN -/
def truncBits (b : UInt64) : UInt64 :=
  let e := expField b
  if e < 1023 then b &&& signMask
  else if e ≥ 1075 then b
  else b &&& ~~~(fracMask >>> (UInt64.ofNat (e - 1023)))

def truncF (x : Float) : Float := Float.ofBits (truncBits x.toBits)

/-- magnitude rounded up to the next integer when it is not one already (finite, non-zero input
    is the interesting case); sign kept. -/
def awayBits (b : UInt64) : UInt64 :=
  let e := expField b
  let t := truncBits b
  if e == 2047 then b
  else if t == b then b
  else if e < 1023 then (b &&& signMask) ||| oneBits
  else t + ((1 : UInt64) <<< (UInt64.ofNat (1075 - e)))

def floorBits (b : UInt64) : UInt64 := if signBit b then awayBits b else truncBits b
def ceilBits (b : UInt64) : UInt64 := if signBit b then truncBits b else awayBits b

def floorF (x : Float) : Float := Float.ofBits (floorBits x.toBits)
def ceilF (x : Float) : Float := Float.ofBits (ceilBits x.toBits)

/-- `math.Round`, transcribed from the Go source (half away from zero). -/
def roundBits (b : UInt64) : UInt64 :=
  let e := expField b
  if e < 1023 then
    let s := b &&& signMask
    if e == 1022 then s ||| oneBits else s
  else if e < 1075 then
    let k := UInt64.ofNat (e - 1023)
    let half : UInt64 := (1 : UInt64) <<< 51
    (b + (half >>> k)) &&& ~~~(fracMask >>> k)
  else b

def roundF (x : Float) : Float := Float.ofBits (roundBits x.toBits)

/-- `v == math.Trunc(v)`: integral value; true for ±Inf, false for NaN.
    (This alone was `NumVal.IsInt` on the pinned tree, see `renderNumPinnedBits`.) -/
def isIntegralBits (b : UInt64) : Bool := !bitsIsNaN b && truncBits b == b
def isIntegral (x : Float) : Bool := isIntegralBits x.toBits

/-- bits of 2^63 as a double -/
def twoPow63Bits : UInt64 := 0x43E0000000000000

/-- `v >= -(1<<63) && v < 1<<63` (false for NaN and ±Inf) -/
def inInt64RangeBits (b : UInt64) : Bool :=
  let mag := (b &&& magMask).toNat
  if signBit b then mag ≤ twoPow63Bits.toNat else mag < twoPow63Bits.toNat

/-- `NumVal.IsInt` (val/val.go, current tree):
    `v == math.Trunc(v) && v >= -(1<<63) && v < 1<<63`, i.e. losslessly an int64. -/
def isIntBits (b : UInt64) : Bool := isIntegralBits b && inInt64RangeBits b
def isInt (x : Float) : Bool := isIntBits x.toBits

def absBits (b : UInt64) : UInt64 := b &&& magMask
def negBits (b : UInt64) : UInt64 := b ^^^ signMask
def absF (x : Float) : Float := Float.ofBits (absBits x.toBits)
def negF (x : Float) : Float := Float.ofBits (negBits x.toBits)

/-- total order key of a non-NaN float: x < y ↔ key x < key y, and -0, +0 share key 0 -/
def ordKey (b : UInt64) : Int :=
  let m : Int := (b &&& magMask).toNat
  if signBit b then -m else m

/-- IEEE `<` on bit patterns -/
def ltBits (a b : UInt64) : Bool := !bitsIsNaN a && !bitsIsNaN b && ordKey a < ordKey b
def ltF (x y : Float) : Bool := ltBits x.toBits y.toBits
/-- IEEE `==` -/
def eqF (x y : Float) : Bool := !isNaN x && !isNaN y && ordKey x.toBits == ordKey y.toBits

def bitsIsZero (b : UInt64) : Bool := (b &&& magMask) == 0

/-- `math.Min` (dim_amd64.s; same case analysis as the portable Go version) -/
def minBits (a b : UInt64) : UInt64 :=
  if (bitsIsInf a && signBit a) || (bitsIsInf b && signBit b) then infBits ||| signMask
  else if bitsIsNaN a || bitsIsNaN b then nanBits
  else if bitsIsZero a && bitsIsZero b then (if signBit a then a else b)
  else if ltBits a b then a else b

/-- `math.Max` -/
def maxBits (a b : UInt64) : UInt64 :=
  if (bitsIsInf a && !signBit a) || (bitsIsInf b && !signBit b) then infBits
  else if bitsIsNaN a || bitsIsNaN b then nanBits
  else if bitsIsZero a && bitsIsZero b then (if signBit a then b else a)
  else if ltBits b a then a else b

def minF (x y : Float) : Float := Float.ofBits (minBits x.toBits y.toBits)
def maxF (x y : Float) : Float := Float.ofBits (maxBits x.toBits y.toBits)

/-! ## float64 → int64 as on amd64 (CVTTSD2SI) -/

def minInt64 : Int := -9223372036854775808

/-- `int64(f)` on the bit pattern: truncation toward zero when the result fits, else the
    "integer indefinite" value -2^63 (NaN, ±Inf, |trunc f| ≥ 2^63; -2^63 itself is exact anyway). -/
def toInt64Bits (b : UInt64) : Int :=
  if expField b == 2047 then minInt64
  else
    let m : Int := shiftNat (decompose b).1 (decompose b).2
    let v := if signBit b then -m else m
    if minInt64 ≤ v && v < 9223372036854775808 then v else minInt64

def toInt64 (x : Float) : Int := toInt64Bits x.toBits

/-- Go `int(f)`; `int` is 64-bit on amd64 -/
def toInt (x : Float) : Int := toInt64 x

/-! ## Exact value → nearest binary64 (round half to even) -/

/-- bit length: `bitLen 0 = 0`, `bitLen n = ⌊log2 n⌋ + 1` -/
def bitLen (n : Nat) : Nat := if n == 0 then 0 else n.log2 + 1

/-- Bits of the binary64 nearest to `(q + ε)·2^e2`, ties to even, where `ε ∈ (0,1)` is present
    iff `sticky`.  Requires `q > 0` and, when `sticky`, `bitLen q ≥ 55` (so that ε only ever
    decides ties).  Overflow yields `infBits`. -/
def packRound (q : Nat) (sticky : Bool) (e2 : Int) : UInt64 :=
  let nb : Int := bitLen q
  let drop : Int := max (nb - 53) (-1074 - e2)
  let mant : Nat :=
    match drop with
    | .negSucc k => q <<< (k + 1)
    | .ofNat 0 => q
    | .ofNat (d + 1) =>
      let m := q >>> (d + 1)
      let rest := q % 2 ^ (d + 1)
      let half := 2 ^ d
      if rest > half || (rest == half && (sticky || m % 2 == 1)) then m + 1 else m
  -- mant < 2^52 only in the subnormal case, where e2 + drop = -1074 and the field below is 0
  let field : Int := e2 + drop + 1074
  let bits : Int := field * 2 ^ 52 + mant
  if bits ≥ 0x7FF0000000000000 then infBits else UInt64.ofNat bits.toNat

/-- nearest binary64 of a natural number (`float64(n)` for n ≥ 0); `infBits` on overflow -/
def natToBits (n : Nat) : UInt64 := if n == 0 then 0 else packRound n false 0

/-- nearest binary64 of `n / d` (`d > 0`) -/
def ratToBits (n d : Nat) : UInt64 :=
  if n == 0 then 0
  else
    -- scale so that the quotient has 64..66 bits
    let s : Int := 65 - (bitLen n : Int) + (bitLen d : Int)
    let (n', d') : Nat × Nat :=
      match s with
      | .ofNat k => (n <<< k, d)
      | .negSucc k => (n, d <<< (k + 1))
    packRound (n' / d') (n' % d' != 0) (-s)

/-- `float64(n)` for an int64 `n` -/
def intToBits (n : Int) : UInt64 :=
  let b := natToBits n.natAbs
  if n < 0 then b ||| signMask else b

def intToFloat (n : Int) : Float := Float.ofBits (intToBits n)

/-! ## strconv.FormatInt(n, 10) -/

def digitChar (d : Nat) : Char := Char.ofNat (48 + d)

/-- decimal digits of a natural number, most significant first, no leading zeros ("0" for 0) -/
def natDigits (n : Nat) : List Char :=
  if _h : n < 10 then [digitChar n] else natDigits (n / 10) ++ [digitChar (n % 10)]
termination_by n
decreasing_by omega

def fmtNat (n : Nat) : String := String.ofList (natDigits n)

def fmtInt (n : Int) : String :=
  match n with
  | .ofNat k => fmtNat k
  | .negSucc k => String.ofList ('-' :: natDigits (k + 1))

/-! ## strconv.FormatFloat(x, 'f', -1, 64) -/

/-- `⌊(c·10^-k)/den⌋`-style helpers: the value `num/den` measured in units of `10^k`. -/
def scaleK (num den : Nat) (k : Int) : Nat × Nat :=
  match k with
  | .ofNat j => (num, den * 10 ^ j)
  | .negSucc j => (num * 10 ^ (j + 1), den)

/-- Candidates at scale `10^k` inside the rounding interval `[lo, hi]/den` (bounds included iff
    `incl`): returns the least and greatest admissible integers `D` (meaning `D·10^k`), if any. -/
def candRange (lo hi den : Nat) (incl : Bool) (k : Int) : Option (Nat × Nat) :=
  let (l, dl) := scaleK lo den k
  let (h, dh) := scaleK hi den k
  -- least D with D·dl ≥ l (or > l)
  let dmin := if l % dl == 0 then (if incl then l / dl else l / dl + 1) else l / dl + 1
  -- greatest D with D·dh ≤ h (or < h); as a possibly negative number
  let dmax : Int := if h % dh == 0 then (if incl then (h / dh : Nat) else (h / dh : Nat) - 1) else (h / dh : Nat)
  if (dmin : Int) ≤ dmax then some (dmin, dmax.toNat) else none

/-- search upwards for the coarsest scale that still has a candidate -/
def coarsest (lo hi den : Nat) (incl : Bool) : Nat → Int → Int
  | 0, k => k
  | fuel + 1, k =>
    match candRange lo hi den incl (k + 1) with
    | some _ => coarsest lo hi den incl fuel (k + 1)
    | none => k

/-- round-half-even of `num/den` to an integer -/
def roundHalfEven (num den : Nat) : Nat :=
  let q := num / den
  let r := num % den
  if 2 * r > den || (2 * r == den && q % 2 == 1) then q + 1 else q

/-- Shortest decimal `(D, k)` with `D·10^k` reading back as the finite non-zero double with
    mantissa `m`, binary exponent `e` (`|x| = m·2^e`), chosen as strconv does (Ryū): the fewest
    digits such that some candidate lies in the round-trip interval, then the candidate closest to
    the exact value (half-even), kept inside the interval. -/
def shortest (m : Nat) (e : Int) : Nat × Int :=
  -- everything in units of 2^(e-2)
  let (unit, den) : Nat × Nat :=
    match e - 2 with
    | .ofNat j => (2 ^ j, 1)
    | .negSucc j => (1, 2 ^ (j + 1))
  let c := 4 * m * unit
  let hi := (4 * m + 2) * unit
  let lo := (if m == 2 ^ 52 && e > -1074 then 4 * m - 1 else 4 * m - 2) * unit
  let incl := m % 2 == 0
  -- 10^k0 is well below the interval width 3·2^(e-2) (or more), so scale k0 has a candidate
  let k0 : Int := ((e - 2) * 30103).fdiv 100000 - 1
  let k := coarsest lo hi den incl 400 k0
  match candRange lo hi den incl k with
  | none => (0, 0) -- unreachable
  | some (dmin, dmax) =>
    let (cn, cd) := scaleK c den k
    let d := roundHalfEven cn cd
    (max dmin (min dmax d), k)

/-- `%f`-style positional rendering of digits `ds` with decimal point position `dp`
    (value = 0.ds × 10^dp), as strconv's `fmtF` with shortest precision. -/
def fmtPositional (ds : List Char) (dp : Int) : List Char :=
  let nd := ds.length
  let intPart : List Char :=
    if dp > 0 then
      let n := dp.toNat
      ds.take n ++ List.replicate (n - nd) '0'
    else ['0']
  let fracPart : List Char :=
    if (nd : Int) > dp then
      -- digits at positions dp .. nd-1, positions < 0 are zeros
      let zeros := if dp < 0 then (-dp).toNat else 0
      '.' :: (List.replicate zeros '0' ++ ds.drop dp.toNat)
    else []
  intPart ++ fracPart

def fmtFloatBits (b : UInt64) : String :=
  if bitsIsNaN b then "NaN"
  else if bitsIsInf b then (if signBit b then "-Inf" else "+Inf")
  else
    let sign := if signBit b then ['-'] else []
    let (m, e) := decompose b
    if m == 0 then String.ofList (sign ++ ['0'])
    else
      let (d, k) := shortest m e
      let ds := natDigits d
      String.ofList (sign ++ fmtPositional ds ((ds.length : Int) + k))

def fmtFloat (x : Float) : String := fmtFloatBits x.toBits

/-- how yae prints numbers and number map keys (val/string.go, val/map.go) -/
def renderNumBits (b : UInt64) : String :=
  if isIntBits b then fmtInt (toInt64Bits b) else fmtFloatBits b

def renderNum (x : Float) : String := renderNumBits x.toBits

/-- the pinned tree's rendering (IsInt without the range check): every integral double beyond the
    int64 range, and ±Inf, came out as "-9223372036854775808". -/
def renderNumPinnedBits (b : UInt64) : String :=
  if isIntegralBits b then fmtInt (toInt64Bits b) else fmtFloatBits b

def renderNumPinned (x : Float) : String := renderNumPinnedBits x.toBits

/-! ## strconv.ParseFloat(s, 64), decimal subset -/

def isDigit (c : Char) : Bool := '0' ≤ c && c ≤ '9'
def digitVal (c : Char) : Nat := c.toNat - 48

def digitsVal (cs : List Char) : Nat := cs.foldl (fun acc c => acc * 10 + digitVal c) 0

/-- value of a digit string capped at `cap` (enough to know "huge"), avoids giant exponents -/
def digitsValCapped (cap : Nat) (cs : List Char) : Nat :=
  cs.foldl (fun acc c => if acc ≥ cap then acc else acc * 10 + digitVal c) 0

/-- Syntax accepted: `D* [. D*] [(e|E) [+-] D+]` with at least one mantissa digit.
    Returns integer mantissa and decimal exponent: value = mant · 10^exp10
    (the exponent literal is clamped to ±100000, far outside the finite range either way). -/
def scanDecimal (cs : List Char) : Option (Nat × Int) :=
  let ip := cs.takeWhile isDigit
  let r1 := cs.dropWhile isDigit
  let (fp, r2) : List Char × List Char :=
    match r1 with
    | '.' :: t => (t.takeWhile isDigit, t.dropWhile isDigit)
    | _ => ([], r1)
  if ip.isEmpty && fp.isEmpty then none
  else
    let mant := digitsVal (ip ++ fp)
    let fl : Int := fp.length
    match r2 with
    | [] => some (mant, -fl)
    | c :: t =>
      if c == 'e' || c == 'E' then
        let (neg, t') : Bool × List Char :=
          match t with
          | '+' :: u => (false, u)
          | '-' :: u => (true, u)
          | _ => (false, t)
        if t'.isEmpty || !t'.all isDigit then none
        else
          let ev : Int := digitsValCapped 100000 t'
          some (mant, (if neg then -ev else ev) - fl)
      else none

/-- nearest double of `mant · 10^e10`; `none` when it rounds to ±Inf (Go: ErrRange).
    Underflow to zero / subnormals is not an error in Go. -/
def decimalToBits (mant : Nat) (e10 : Int) : Option UInt64 :=
  if mant == 0 then some 0
  else
    let nd : Int := (natDigits mant).length
    -- value in [10^(nd-1+e10), 10^(nd+e10))
    if nd + e10 > 310 then none
    else if nd + e10 < -330 then some 0
    else
      let b :=
        match e10 with
        | .ofNat k => natToBits (mant * 10 ^ k)
        | .negSucc k => ratToBits mant (10 ^ (k + 1))
      if b == infBits then none else some b

/-- `strconv.ParseFloat(s, 64)` on `[+-]? D* [. D*] [(e|E) [+-]? D+]` (at least one mantissa digit).
    Not modelled (answered `none`, whereas Go accepts them): `inf`/`infinity`/`nan` words,
    hexadecimal floats (`0x1p-2`) and `_` separators; none of them is a yae lexeme. -/
def parseFloatBits (s : String) : Option UInt64 :=
  let (neg, body) : Bool × List Char :=
    match s.toList with
    | '+' :: t => (false, t)
    | '-' :: t => (true, t)
    | cs => (false, cs)
  match scanDecimal body with
  | none => none
  | some (m, e) => (decimalToBits m e).map fun b => if neg then b ||| signMask else b

def parseFloat (s : String) : Option Float := (parseFloatBits s).map Float.ofBits

/-! ## strconv.ParseInt(s, base, 64) for unsigned digit strings, and ast.parseNum -/

def baseDigit (c : Char) : Option Nat :=
  if '0' ≤ c && c ≤ '9' then some (c.toNat - 48)
  else if 'a' ≤ c && c ≤ 'z' then some (c.toNat - 87)
  else if 'A' ≤ c && c ≤ 'Z' then some (c.toNat - 55)
  else none

/-- magnitude part of ParseInt: digits only (no underscore, non-empty), each digit < base -/
def parseUintBase (base : Nat) (cs : List Char) : Option Nat :=
  if cs.isEmpty then none
  else
    cs.foldl (fun (acc : Option Nat) c =>
      match acc, baseDigit c with
      | some a, some d => if d < base then some (a * base + d) else none
      | _, _ => none) (some 0)

/-- `strconv.ParseInt(s, base, 64)` for base 2/8/16 (optional sign, then digits; range error →
    `none`). -/
def parseIntBase (base : Nat) (cs : List Char) : Option Int :=
  let (neg, ds) : Bool × List Char :=
    match cs with
    | '+' :: t => (false, t)
    | '-' :: t => (true, t)
    | _ => (false, cs)
  match parseUintBase base ds with
  | none => none
  | some v =>
    if neg then (if v ≤ 2 ^ 63 then some (-(v : Int)) else none)
    else (if v < 2 ^ 63 then some (v : Int) else none)

/-- parser/ast/literal.go `parseNum` -/
def parseNumLitBits (s : String) : Option UInt64 :=
  match parseFloatBits s with
  | some f => some f
  | none =>
    match s.toList with
    | '0' :: 'x' :: rest => (parseIntBase 16 rest).map intToBits
    | '0' :: 'b' :: rest => (parseIntBase 2 rest).map intToBits
    | '0' :: 'o' :: rest => (parseIntBase 8 rest).map intToBits
    | _ => none

def parseNumLit (s : String) : Option Float := (parseNumLitBits s).map Float.ofBits

/-! ## strconv.Quote -/

def inRanges (n : Nat) : List (Nat × Nat) → Bool
  | [] => false
  | (lo, hi) :: rest => if n < lo then false else if n ≤ hi then true else inRanges n rest

/-- `unicode.IsPrint` (table generated from the Go toolchain) -/
def isPrint (c : Char) : Bool := inRanges c.toNat Yae.Gen.printRanges

def hexLower (n : Nat) : Char := if n < 10 then Char.ofNat (48 + n) else Char.ofNat (87 + n)

/-- `width` lowercase hex digits of `n`, most significant first -/
def hexFixed : Nat → Nat → List Char
  | 0, _ => []
  | w + 1, n => hexFixed w (n / 16) ++ [hexLower (n % 16)]

/-- strconv's `appendEscapedRune` with quote `"`, not ASCII-only, not graphic-only -/
def quoteChar (c : Char) : List Char :=
  if c == '"' || c == '\\' then ['\\', c]
  else if isPrint c then [c]
  else
    let n := c.toNat
    if n == 7 then ['\\', 'a']
    else if n == 8 then ['\\', 'b']
    else if n == 12 then ['\\', 'f']
    else if n == 10 then ['\\', 'n']
    else if n == 13 then ['\\', 'r']
    else if n == 9 then ['\\', 't']
    else if n == 11 then ['\\', 'v']
    else if n < 32 || n == 127 then '\\' :: 'x' :: hexFixed 2 n
    else if n < 0x10000 then '\\' :: 'u' :: hexFixed 4 n
    else '\\' :: 'U' :: hexFixed 8 n

def quote (s : String) : String :=
  String.ofList ('"' :: (s.toList.flatMap quoteChar ++ ['"']))

/-! ## strconv.Unquote -/

def hexDigitVal (c : Char) : Option Nat :=
  if '0' ≤ c && c ≤ '9' then some (c.toNat - 48)
  else if 'a' ≤ c && c ≤ 'f' then some (c.toNat - 87)
  else if 'A' ≤ c && c ≤ 'F' then some (c.toNat - 55)
  else none

/-- exactly `n` hex digits -/
def takeHex : Nat → Nat → List Char → Option (Nat × List Char)
  | 0, acc, cs => some (acc, cs)
  | _ + 1, _, [] => none
  | n + 1, acc, c :: cs =>
    match hexDigitVal c with
    | some v => takeHex n (acc * 16 + v) cs
    | none => none

def validRune (n : Nat) : Bool := n < 0xD800 || (0xE000 ≤ n && n ≤ 0x10FFFF)

def isOctal (c : Char) : Bool := '0' ≤ c && c ≤ '7'

/-- `strconv.UnquoteChar` after the leading backslash.  `\x` / octal escapes denote raw bytes in
    Go; a Lean `String` can only hold the ASCII ones, the others are reported as `none` (they are
    outside the lexer's language, see `unquote`). -/
def unescape (quoteCh : Char) : List Char → Option (Char × List Char)
  | [] => none
  | c :: rest =>
    if c == 'a' then some (Char.ofNat 7, rest)
    else if c == 'b' then some (Char.ofNat 8, rest)
    else if c == 'f' then some (Char.ofNat 12, rest)
    else if c == 'n' then some ('\n', rest)
    else if c == 'r' then some ('\r', rest)
    else if c == 't' then some ('\t', rest)
    else if c == 'v' then some (Char.ofNat 11, rest)
    else if c == '\\' then some ('\\', rest)
    else if c == '\'' || c == '"' then (if c == quoteCh then some (c, rest) else none)
    else if c == 'x' then
      match takeHex 2 0 rest with
      | some (v, r) => if v < 128 then some (Char.ofNat v, r) else none
      | none => none
    else if c == 'u' then
      match takeHex 4 0 rest with
      | some (v, r) => if validRune v then some (Char.ofNat v, r) else none
      | none => none
    else if c == 'U' then
      match takeHex 8 0 rest with
      | some (v, r) => if validRune v then some (Char.ofNat v, r) else none
      | none => none
    else if isOctal c then
      match rest with
      | d1 :: d2 :: r =>
        if isOctal d1 && isOctal d2 then
          let v := (c.toNat - 48) * 64 + (d1.toNat - 48) * 8 + (d2.toNat - 48)
          if v < 128 then some (Char.ofNat v, r) else none
        else none
      | _ => none
    else none

/-- body of an interpreted literal up to the closing quote; returns decoded text and the input
    after the closing quote.  `single` = stop after one character (rune literals). -/
def unquoteBody (quoteCh : Char) (single : Bool) : Nat → List Char → List Char → Option (List Char × List Char)
  | 0, _, _ => none
  | _ + 1, _, [] => none
  | fuel + 1, acc, c :: rest =>
    if c == quoteCh then some (acc.reverse, rest)
    else if c == '\n' then none
    else
      let step : Option (Char × List Char) :=
        if c == '\\' then unescape quoteCh rest else some (c, rest)
      match step with
      | none => none
      | some (ch, rest') =>
        if single then
          match rest' with
          | q :: r => if q == quoteCh then some ((ch :: acc).reverse, r) else none
          | [] => none
        else unquoteBody quoteCh single fuel (ch :: acc) rest'

/-- `strconv.Unquote`.  Faithful for every input the lexer's two string rules admit
    (`"(?:[^"\\]*|\\["\\trnbf\/]|\\u[0-9a-fA-F]{4})*"` and `` `[^`]*` ``) and more generally for all
    valid-UTF-8 inputs whose `\x`/octal escapes stay below 0x80.  Things Go rejects although the
    lexer admits them: `\/`, a raw newline inside double quotes, `\u` surrogates. -/
def unquote (s : String) : Option String :=
  match s.toList with
  | [] => none
  | [_] => none
  | q :: rest =>
    if q == '`' then
      -- first closing back quote must be the last character
      let body := rest.takeWhile (· != '`')
      match rest.dropWhile (· != '`') with
      | ['`'] => some (String.ofList (body.filter (· != '\r')))
      | _ => none
    else if q == '"' || q == '\'' then
      match unquoteBody q (q == '\'') (rest.length + 1) [] rest with
      | some (out, []) => some (String.ofList out)
      | _ => none
    else none

end Yae.Num
