/- PLACEHOLDER (to be replaced by the real bit-level model): same names and signatures. -/
namespace Yae.Num
def isNaN (x : Float) : Bool := x.isNaN
def isInf (x : Float) : Bool := x.isInf
def truncF (x : Float) : Float := if x < 0 then x.ceil else x.floor
def floorF (x : Float) : Float := x.floor
def ceilF (x : Float) : Float := x.ceil
def roundF (x : Float) : Float := x.round
def isInt (x : Float) : Bool := x == truncF x
def toInt64 (x : Float) : Int := if x.isNaN || x.isInf then -9223372036854775808 else x.toInt64.toInt
def toInt (x : Float) : Int := toInt64 x
def fmtInt (n : Int) : String := toString n
def fmtFloat (x : Float) : String := toString x
def parseFloat (_s : String) : Option Float := none
def parseNumLit (_s : String) : Option Float := none
def renderNum (x : Float) : String := if isInt x then fmtInt (toInt64 x) else fmtFloat x
def quote (s : String) : String := "\"" ++ s ++ "\""
def unquote (_s : String) : Option String := none
end Yae.Num
namespace Yae.Num
def absF (x : Float) : Float := x.abs
def negF (x : Float) : Float := -x
def minF (x y : Float) : Float := if x.isNaN || y.isNaN then (0.0/0.0) else if x < y then x else y
def maxF (x y : Float) : Float := if x.isNaN || y.isNaN then (0.0/0.0) else if x > y then x else y
end Yae.Num
