/-
  Model of `parser`: `parser.NewParser(ops).Parse(toks)` (Pratt / top-down operator precedence).

  * The grammar is two association lists keyed by token kind (Go: two maps).  Entries are
    pushed in front in the order `newGrammar` registers them and looked up front first, so a
    later registration of the same kind overwrites an earlier one exactly as a map store does.
  * `nud` / `led` function pointers are the tags `Nud` / `Led`.
  * Binding powers are Go `float32`: `Yae.BP` (sign and magnitude bits, `Model/Token.lean`).  The
    comparison is IEEE `<` defined on the bits, and `bpPred` = `BP.Prev` is the float32
    predecessor (the right operand of a right-associative operator is parsed just below the
    operator's own power).  Nothing about binding powers is opaque to the kernel.
  * A Go panic (every `util.Assert`, the slice expression in `ast.Time`) is `ParseErr.syntax`;
    `tryParse` recovers from every panic and rewinds, modelled in `listMap` by catching
    `.syntax` only.  `.externMiss` (the `strtotime` table has no entry for a time literal) and
    `.fuel` are not Go behaviours and are never caught.
  * The cursor is a `Nat` index; `eat` past the end returns `lexer.EOF` WITHOUT advancing.
  * Everything is total and structurally recursive on a fuel argument that bounds the depth
    of the call chain (not the amount of work: the list-or-map backtracking is exponential in
    the model as it is in Go).  Along a call chain every frame but the innermost has consumed
    a token or is a loop iteration whose first call consumes one, so `2 * #tokens + c` is
    enough; `parseFuel` passes `4 * #tokens + 32`.  `.fuel` can only come out when Go itself
    does not terminate: an operator whose kind is `<END-OF-FILE>` (eating at the end of the
    input does not advance).
-/
import Yae.Model.Token
import Yae.Model.Ast
import Yae.Model.Lexer
import Yae.Model.Num
namespace Yae

inductive ParseErr where
  | syntax      -- a Go panic: `syntax error ...`, `invalid num literal`, `expect right pos`, ...
  | externMiss  -- a time literal whose text is not in the supplied `strtotime` table
  | fuel
  deriving DecidableEq, Repr, Inhabited

/-- The `nud` functions of `factory.go`. -/
inductive Nud where
  | ident | true_ | false_ | num | str | time | listMap | obj | group | unaryPrefix
  deriving DecidableEq, Repr, Inhabited

/-- The `led` functions of `factory.go`. -/
inductive Led where
  | binaryL | binaryR | binaryN | unaryPostfix | question | dot | call | subscript
  deriving DecidableEq, Repr, Inhabited

/-- `grammar`: newest registration first. -/
structure Grammar where
  prefixs : List (String × BP × Nud)
  infixs : List (String × BP × Led)
  deriving Inhabited

def Grammar.prefix (g : Grammar) (k : String) (bp : BP) (f : Nud) : Grammar :=
  { g with prefixs := (k, bp, f) :: g.prefixs }

def Grammar.infix (g : Grammar) (k : String) (bp : BP) (f : Led) : Grammar :=
  { g with infixs := (k, bp, f) :: g.infixs }

def tableLookup {α : Type} (k : String) : List (String × BP × α) → Option (BP × α)
  | [] => none
  | (k', bp, f) :: rest => if k' == k then some (bp, f) else tableLookup k rest

/-- The `oper.BP` constants used by the grammar. -/
def bpNone : BP := 0
def bpCond : BP := 2
def bpCall : BP := 12
def bpMember : BP := 13

def tkEOF : String := "<END-OF-FILE>"

/-- `oper.BuiltIn()` in declaration order (tied to the code by `GenTie.operators_tie`). -/
def builtinOps : List Operator := [
  ⟨"+", 10, fixPrefix⟩, ⟨"-", 10, fixPrefix⟩,
  ⟨"+", 7, fixInfixL⟩, ⟨"-", 7, fixInfixL⟩,
  ⟨"*", 8, fixInfixL⟩, ⟨"/", 8, fixInfixL⟩, ⟨"%", 8, fixInfixL⟩,
  ⟨"^", 9, fixInfixR⟩,
  ⟨"<=", 6, fixInfixN⟩, ⟨"<", 6, fixInfixN⟩, ⟨">=", 6, fixInfixN⟩, ⟨">", 6, fixInfixN⟩,
  ⟨"==", 5, fixInfixN⟩, ⟨"!=", 5, fixInfixN⟩,
  ⟨"||", 3, fixInfixL⟩, ⟨"&&", 4, fixInfixL⟩,
  ⟨"!", 10, fixPrefix⟩,
  ⟨"or", 3, fixInfixL⟩, ⟨"and", 4, fixInfixL⟩,
  ⟨"not", 10, fixPrefix⟩]

/-- The `switch op.Fixity` of `newGrammar` (no `default`: `NA` and unknown fixities register nothing). -/
def Grammar.addOp (g : Grammar) (op : Operator) : Grammar :=
  if op.fixity == fixPrefix then g.prefix op.kind op.bp .unaryPrefix
  else if op.fixity == fixInfixN then g.infix op.kind op.bp .binaryN
  else if op.fixity == fixInfixL then g.infix op.kind op.bp .binaryL
  else if op.fixity == fixInfixR then g.infix op.kind op.bp .binaryR
  else if op.fixity == fixPostfix then g.infix op.kind op.bp .unaryPostfix
  else g

/-- `newGrammar` -/
def newGrammar (ops : List Operator) : Grammar :=
  let g : Grammar := ⟨[], []⟩
  let g := g.prefix "<sym>" bpNone .ident
  let g := g.prefix "true" bpNone .true_
  let g := g.prefix "false" bpNone .false_
  let g := g.prefix "<num>" bpNone .num
  let g := g.prefix "<str>" bpNone .str
  let g := g.prefix "<time>" bpNone .time
  let g := g.prefix "[" bpNone .listMap
  let g := g.prefix "{" bpNone .obj
  let g := g.prefix "(" bpNone .group
  let g := (sortOps ops).foldl Grammar.addOp g
  let g := g.infix "?" bpCond .question
  let g := g.infix "." bpMember .dot
  let g := g.infix "(" bpCall .call
  let g := g.infix "[" bpMember .subscript
  g

/-- `infixLbp`: the binding power of the infix entry, `0` without one. -/
def Grammar.infixLbp (g : Grammar) (k : String) : BP :=
  match tableLookup k g.infixs with
  | some (bp, _) => bp
  | none => 0

/-- `BP.Prev`: `math.Nextafter32(bp, -Inf)`, the largest float32 below `bp`. -/
def bpPred (bp : BP) : BP := bp.pred

/-- `lexer.EOF` -/
def eofToken : Token := ⟨tkEOF, tkEOF, Pos.unknown⟩

/-- `pos.Range(from, to)`: `from` with the end of `to`; asserts `to.Idx >= from.Idx`. -/
def Pos.range (a b : Pos) : Except ParseErr Pos :=
  if b.idx ≥ a.idx then .ok { a with idxEnd := b.idxEnd } else .error .syntax

/-- `infixNCheck` -/
def infixNCheck (e : Expr) : Except ParseErr Expr :=
  match e with
  | .binary _ name _ fx l r =>
    if fx == fixInfixN then
      let same : Expr → Bool
        | .binary _ n _ _ _ _ => n == name
        | _ => false
      if same l || same r then .error .syntax else .ok e
    else .ok e
  | _ => .ok e

/-- The parser's read-only data: grammar, token array, the `strtotime` table. -/
structure PEnv where
  g : Grammar
  toks : Array Token
  times : List (String × Int)

namespace PEnv

/-- `peek` at cursor `i`. -/
def peek (env : PEnv) (i : Nat) : Token :=
  if h : i < env.toks.size then env.toks[i] else eofToken

/-- The cursor after `eat` at `i` (no move past the end). -/
def adv (env : PEnv) (i : Nat) : Nat :=
  if i < env.toks.size then i + 1 else i

/-- `mustEat k` -/
def mustEat (env : PEnv) (k : String) (i : Nat) : Except ParseErr (Token × Nat) :=
  let t := env.peek i
  if t.kind == k then .ok (t, env.adv i) else .error .syntax

/-- `ast.Time(lexeme, pos)`: `timelib.Strtotime(s[1:len(s)-1])`, byte slicing. -/
def timeLit (env : PEnv) (t : Token) : Except ParseErr Expr :=
  let bs := t.lexeme.toUTF8
  if bs.size < 2 then .error .syntax   -- slice bounds out of range
  else
    match String.fromUTF8? (bs.extract 1 (bs.size - 1)) with
    | none => .error .externMiss
    | some s =>
      match env.times.lookup s with
      | some v => .ok (.time t.pos v)
      | none => .error .externMiss

end PEnv

abbrev PRes (α : Type) := Except ParseErr (α × Nat)

mutual

/-- `expr(rbp)` at cursor `i`. -/
def pExpr (env : PEnv) : Nat → BP → Nat → PRes Expr
  | 0, _, _ => .error .fuel
  | f + 1, rbp, i =>
    let t := env.peek i
    let i := env.adv i
    match tableLookup t.kind env.g.prefixs with
    | none => .error .syntax
    | some (bp, nud) =>
      let left : PRes Expr :=
        match nud with
        | .ident => .ok (.ident t.pos t.lexeme, i)
        | .true_ => .ok (.bool t.pos true, i)
        | .false_ => .ok (.bool t.pos false, i)
        | .num =>
          match Num.parseNumLit t.lexeme with
          | some v => .ok (.num t.pos v, i)
          | none => .error .syntax
        | .str =>
          match Num.unquote t.lexeme with
          | some v => .ok (.str t.pos v, i)
          | none => .error .syntax
        | .time =>
          match env.timeLit t with
          | .ok e => .ok (e, i)
          | .error e => .error e
        | .group =>
          match pExpr env f 0 i with
          | .error e => .error e
          | .ok (e, i) =>
            match env.mustEat ")" i with
            | .error e => .error e
            | .ok (rp, i) =>
              match Pos.range t.pos rp.pos with
              | .error e => .error e
              | .ok rg => .ok (.group rg e, i)
        | .unaryPrefix =>
          match pExpr env f bp i with
          | .error e => .error e
          | .ok (e, i) =>
            match Pos.range t.pos e.pos with
            | .error e => .error e
            | .ok rg => .ok (.unary rg t.lexeme t.pos e true, i)
        | .listMap =>
          if (env.peek i).kind == ":" then
            -- `[:]`
            match env.mustEat "]" (env.adv i) with
            | .error e => .error e
            | .ok (rb, i) =>
              match Pos.range t.pos rb.pos with
              | .error e => .error e
              | .ok rg => .ok (.map rg .nil none, i)
          else
            -- `any("list or map", parseListOrMap(t))`: one pass; after the first element a `:`
            -- decides for a map.  (`tryParse` turns every failure into the syntax error.)
            if (env.peek i).kind == "]" then
              match env.mustEat "]" i with
              | .error e => .error e
              | .ok (rb, i) =>
                match Pos.range t.pos rb.pos with
                | .error e => .error e
                | .ok rg => .ok (.list rg .nil none, i)
            else
              match pExpr env f 0 i with
              | .error e => .error e
              | .ok (fst, i) =>
                if (env.peek i).kind == ":" then
                  match pExpr env f 0 (env.adv i) with
                  | .error e => .error e
                  | .ok (v, i) =>
                    let rest : PRes (List (Expr × Expr)) :=
                      if (env.peek i).kind == "," then pMap env f [(fst, v)] (env.adv i)
                      else .ok ([(fst, v)], i)
                    match rest with
                    | .error e => .error e
                    | .ok (ps, i) =>
                      match env.mustEat "]" i with
                      | .error e => .error e
                      | .ok (rb, i) =>
                        match Pos.range t.pos rb.pos with
                        | .error e => .error e
                        | .ok rg => .ok (.map rg (PairList.ofList ps.reverse) none, i)
                else
                  let rest : PRes (List Expr) :=
                    if (env.peek i).kind == "," then pList env f [fst] (env.adv i)
                    else .ok ([fst], i)
                  match rest with
                  | .error e => .error e
                  | .ok (els, i) =>
                    match env.mustEat "]" i with
                    | .error e => .error e
                    | .ok (rb, i) =>
                      match Pos.range t.pos rb.pos with
                      | .error e => .error e
                      | .ok rg => .ok (.list rg (ExprList.ofList els.reverse) none, i)
        | .obj =>
          match pObj env f [] i with
          | .error e => .error e
          | .ok (fs, i) =>
            match env.mustEat "}" i with
            | .error e => .error e
            | .ok (rb, i) =>
              match Pos.range t.pos rb.pos with
              | .error e => .error e
              | .ok rg => .ok (.obj rg (FieldEList.ofList fs.reverse) none, i)
      match left with
      | .error e => .error e
      | .ok (left, i) => pInfix env f left rbp i
termination_by structural fuel => fuel

/-- `parseInfix(left, rbp)` at cursor `i`: one iteration of the `for` per call. -/
def pInfix (env : PEnv) : Nat → Expr → BP → Nat → PRes Expr
  | 0, _, _, _ => .error .fuel
  | f + 1, left, rbp, i =>
    let t := env.peek i
    if env.g.infixLbp t.kind > rbp then
      let i := env.adv i
      match tableLookup t.kind env.g.infixs with
      | none => .error .syntax   -- `mustInfix` (reachable when `rbp < 0`)
      | some (bp, led) =>
        let res : PRes Expr :=
          match led with
          | .binaryL =>
            match pExpr env f bp i with
            | .error e => .error e
            | .ok (rhs, i) =>
              match Pos.range left.pos rhs.pos with
              | .error e => .error e
              | .ok rg => .ok (.binary rg t.lexeme t.pos fixInfixL left rhs, i)
          | .binaryR =>
            match pExpr env f (bpPred bp) i with
            | .error e => .error e
            | .ok (rhs, i) =>
              match Pos.range left.pos rhs.pos with
              | .error e => .error e
              | .ok rg => .ok (.binary rg t.lexeme t.pos fixInfixR left rhs, i)
          | .binaryN =>
            match pExpr env f bp i with
            | .error e => .error e
            | .ok (rhs, i) =>
              match Pos.range left.pos rhs.pos with
              | .error e => .error e
              | .ok rg => .ok (.binary rg t.lexeme t.pos fixInfixN left rhs, i)
          | .unaryPostfix =>
            match Pos.range left.pos t.pos with
            | .error e => .error e
            | .ok rg => .ok (.unary rg t.lexeme t.pos left false, i)
          | .question =>
            match pExpr env f 0 i with
            | .error e => .error e
            | .ok (m, i) =>
              match env.mustEat ":" i with
              | .error e => .error e
              | .ok (_, i) =>
                match pExpr env f (bpPred bp) i with
                | .error e => .error e
                | .ok (r, i) =>
                  match Pos.range left.pos r.pos with
                  | .error e => .error e
                  | .ok rg => .ok (.ternary rg t.lexeme t.pos left m r, i)
          | .call => pCall env f left t i
          | .dot =>
            -- the field name is whatever token comes next (EOF included: not advanced)
            let name := env.peek i
            let i := env.adv i
            match Pos.range left.pos name.pos with
            | .error e => .error e
            | .ok rg =>
              let mem := Expr.member rg t.pos.col left name.lexeme name.pos none (-1)
              let lp := env.peek i
              if lp.kind == "(" then pCall env f mem lp (env.adv i)
              else .ok (mem, i)
          | .subscript =>
            match pExpr env f 0 i with
            | .error e => .error e
            | .ok (ix, i) =>
              match env.mustEat "]" i with
              | .error e => .error e
              | .ok (rb, i) =>
                match Pos.range left.pos rb.pos with
                | .error e => .error e
                | .ok rg => .ok (.subscript rg t.pos.col left ix none, i)
        match res with
        | .error e => .error e
        | .ok (e, i) =>
          match infixNCheck e with
          | .error e => .error e
          | .ok e => pInfix env f e rbp i
    else
      match infixNCheck left with
      | .error e => .error e
      | .ok e => .ok (e, i)
termination_by structural fuel => fuel

/-- `parseCall(callee, t)` with the cursor just after the `(` token `t`. -/
def pCall (env : PEnv) : Nat → Expr → Token → Nat → PRes Expr
  | 0, _, _, _ => .error .fuel
  | f + 1, callee, t, i =>
    let args : PRes (List Expr) :=
      if (env.peek i).kind == ")" then .ok ([], i)
      else pArgs env f [] i
    match args with
    | .error e => .error e
    | .ok (as, i) =>
      -- `tryEat(")")` succeeded, or `mustEat(")")` after the arguments
      match env.mustEat ")" i with
      | .error e => .error e
      | .ok (rp, i) =>
        match Pos.range callee.pos rp.pos with
        | .error e => .error e
        | .ok rg => .ok (.call rg t.pos.col callee (ExprList.ofList as.reverse) none "" (-1), i)
termination_by structural fuel => fuel

/-- The argument loop of `parseCall` (accumulates in reverse); stops BEFORE the `)`. -/
def pArgs (env : PEnv) : Nat → List Expr → Nat → PRes (List Expr)
  | 0, _, _ => .error .fuel
  | f + 1, acc, i =>
    match pExpr env f 0 i with
    | .error e => .error e
    | .ok (a, i) =>
      if (env.peek i).kind == "," then pArgs env f (a :: acc) (env.adv i)
      else .ok (a :: acc, i)
termination_by structural fuel => fuel

/-- The loop of `parseList` (accumulates in reverse); stops BEFORE the `]`. -/
def pList (env : PEnv) : Nat → List Expr → Nat → PRes (List Expr)
  | 0, _, _ => .error .fuel
  | f + 1, acc, i =>
    if (env.peek i).kind == "]" then .ok (acc, i)
    else
      match pExpr env f 0 i with
      | .error e => .error e
      | .ok (el, i) =>
        if (env.peek i).kind == "," then pList env f (el :: acc) (env.adv i)
        else .ok (el :: acc, i)
termination_by structural fuel => fuel

/-- The loop of `parseMap`. -/
def pMap (env : PEnv) : Nat → List (Expr × Expr) → Nat → PRes (List (Expr × Expr))
  | 0, _, _ => .error .fuel
  | f + 1, acc, i =>
    if (env.peek i).kind == "]" then .ok (acc, i)
    else
      match pExpr env f 0 i with
      | .error e => .error e
      | .ok (k, i) =>
        match env.mustEat ":" i with
        | .error e => .error e
        | .ok (_, i) =>
          match pExpr env f 0 i with
          | .error e => .error e
          | .ok (v, i) =>
            if (env.peek i).kind == "," then pMap env f ((k, v) :: acc) (env.adv i)
            else .ok ((k, v) :: acc, i)
termination_by structural fuel => fuel

/-- The loop of `parseObj`. -/
def pObj (env : PEnv) : Nat → List (String × Expr) → Nat → PRes (List (String × Expr))
  | 0, _, _ => .error .fuel
  | f + 1, acc, i =>
    if (env.peek i).kind == "}" then .ok (acc, i)
    else
      match env.mustEat "<sym>" i with
      | .error e => .error e
      | .ok (n, i) =>
        match env.mustEat ":" i with
        | .error e => .error e
        | .ok (_, i) =>
          match pExpr env f 0 i with
          | .error e => .error e
          | .ok (v, i) =>
            if (env.peek i).kind == "," then pObj env f ((n.lexeme, v) :: acc) (env.adv i)
            else .ok ((n.lexeme, v) :: acc, i)
termination_by structural fuel => fuel

end

/-- Fuel that is always enough when no operator has the kind `<END-OF-FILE>`. -/
def parseFuel (ntoks : Nat) : Nat := 4 * ntoks + 32

/-- `Parse(toks)` with explicit fuel: `expr(0)` then `expectEOF`. -/
def parseWith (fuel : Nat) (ops : List Operator) (times : List (String × Int))
    (toks : List Token) : Except ParseErr Expr :=
  let env : PEnv := { g := newGrammar ops, toks := toks.toArray, times := times }
  match pExpr env fuel 0 0 with
  | .error e => .error e
  | .ok (e, i) =>
    match env.mustEat tkEOF i with
    | .error e => .error e
    | .ok _ => .ok e

/-- `parser.NewParser(ops).Parse(toks)`; `times` is the graph of `timelib.Strtotime` on the
    time literals of the input. -/
def parse (ops : List Operator) (times : List (String × Int)) (toks : List Token) :
    Except ParseErr Expr :=
  parseWith (parseFuel toks.length) ops times toks

end Yae
