/-
  `ext/criteria.go`, `ext/sql.go`, `ext/sql/*.go`: the criteria → SQL `WHERE` text extension.

  * `Criteria` / `Criteria.expr`      — `ext.Cond`, `ext.CondGroup` and their `expr()` methods
  * `sqlTable` / `sqlFuns`            — `sql.BuiltIn()` in registration order, with the formatter
  * `fmtVal`, `emit`, `compileOk`     — `sql.Compile` (`ext/sql/compile.go`)
  * `toSql`                           — `ext.CompileToSql(c, env1)(v)` for `*val.Env` inputs
  * `SqlTree`, `treeOf`, `flatten`    — what the text is supposed to mean (property C20)

  The reference reader of the produced dialect is in `Yae/Model/SqlRead.lean`.
-/
import Yae.Model.Check
import Yae.Model.Eval
namespace Yae.Sql
open Yae

/-! ### criteria -/

inductive LogicalOper where
  | and | or | not
  deriving DecidableEq, Repr, Inhabited

/-- `LogicalOper.String()` -/
def LogicalOper.name : LogicalOper → String
  | .and => "AND" | .or => "OR" | .not => "NOT"

mutual
inductive Criteria where
  /-- `ext.Cond{Field, Operator, Operands}` -/
  | cond (field : String) (op : String) (operands : ExprList)
  /-- `ext.CondGroup{LogicalOper, Conds}` -/
  | group (op : LogicalOper) (conds : CriteriaList)
inductive CriteriaList where
  | nil
  | cons (c : Criteria) (cs : CriteriaList)
end

instance : Inhabited Criteria := ⟨.group .and .nil⟩
instance : Inhabited CriteriaList := ⟨.nil⟩

namespace CriteriaList
def toList : CriteriaList → List Criteria
  | .nil => []
  | .cons c cs => c :: toList cs
def ofList : List Criteria → CriteriaList
  | [] => .nil
  | c :: cs => .cons c (ofList cs)
end CriteriaList

/-- `ast.Call(callee, args, pos.UnknownCol, pos.Unknown)` with `callee = ast.Var(name, pos.Unknown)` -/
def mkCall (name : String) (args : ExprList) : Expr :=
  .call Pos.unknown (-1) (.ident Pos.unknown name) args none "" (-1)

mutual
/-- the `expr()` methods -/
def Criteria.expr : Criteria → Expr
  | .cond field op operands => mkCall op (.cons (.ident Pos.unknown field) operands)
  | .group l cs => mkCall l.name (exprs cs)
def exprs : CriteriaList → ExprList
  | .nil => .nil
  | .cons c cs => .cons c.expr (exprs cs)
end

/-! ### the function table -/

/-- what a registered SQL function does with the texts of its arguments -/
inductive Fmt where
  | logicAnd | logicOr | logicNot
  | binary (op : String)          -- `a op b`
  | between                        -- `a BETWEEN b AND c`
  | postfix (op : String)          -- `a op`
  deriving DecidableEq, Repr, Inhabited

structure SqlFun where
  id : String      -- the Go variable name
  ty : Ty
  fmt : Fmt
  deriving Inhabited

private def f (name : String) (ps : List Ty) : Ty := .fn name (TyList.ofList ps) .bool
private def a : Ty := .var "a"

/-- `sql.BuiltIn()` (ext/sql/gen.go lists the variables alphabetically). -/
def sqlTable : List SqlFun := [
  ⟨"BETWEEN_NUM_NUM_NUM", f "BETWEEN" [.num, .num, .num], .between⟩,
  ⟨"BETWEEN_TIME_TIME_TIME", f "BETWEEN" [.time, .time, .time], .between⟩,
  ⟨"EQ_BOOL_BOOL", f "=" [.bool, .bool], .binary "="⟩,
  ⟨"EQ_NUM_NUM", f "=" [.num, .num], .binary "="⟩,
  ⟨"EQ_STR_STR", f "=" [.str, .str], .binary "="⟩,
  ⟨"EQ_TIME_TIME", f "=" [.time, .time], .binary "="⟩,
  ⟨"GE_NUM_NUM", f ">=" [.num, .num], .binary ">="⟩,
  ⟨"GE_TIME_TIME", f ">=" [.time, .time], .binary ">="⟩,
  ⟨"GT_NUM_NUM", f ">" [.num, .num], .binary ">"⟩,
  ⟨"GT_TIME_TIME", f ">" [.time, .time], .binary ">"⟩,
  ⟨"IN_LIST", f "IN" [a, .list a], .binary "IN"⟩,
  ⟨"IS_NULL_A", f "ISNULL" [a], .postfix "IS NULL"⟩,
  ⟨"LE_NUM_NUM", f "<=" [.num, .num], .binary "<="⟩,
  ⟨"LE_TIME_TIME", f "<=" [.time, .time], .binary "<="⟩,
  ⟨"LIKE_STR_STR", f "LIKE" [.str, .str], .binary "LIKE"⟩,
  ⟨"LOGIC_AND_BOOL_BOOL", f "AND" [.bool, .bool], .logicAnd⟩,
  ⟨"LOGIC_NOT_BOOL", f "NOT" [.bool], .logicNot⟩,
  ⟨"LOGIC_OR_BOOL_BOOL", f "OR" [.bool, .bool], .logicOr⟩,
  ⟨"LT_NUM_NUM", f "<" [.num, .num], .binary "<"⟩,
  ⟨"LT_TIME_TIME", f "<" [.time, .time], .binary "<"⟩,
  ⟨"NE_BOOL_BOOL", f "<>" [.bool, .bool], .binary "<>"⟩,
  ⟨"NE_NUM_NUM", f "<>" [.num, .num], .binary "<>"⟩,
  ⟨"NE_STR_STR", f "<>" [.str, .str], .binary "<>"⟩,
  ⟨"NE_TIME_TIME", f "<>" [.time, .time], .binary "<>"⟩
]

/-- the table as the checker and `resolveStatic` see it; the host reference only carries the id -/
def sqlFuns : List FunDecl :=
  sqlTable.map fun s => { ty := s.ty, ref := .host s.id (.retArg 0), isLazy := false }

def lookupFmt (d : FunDecl) : Option Fmt :=
  match d.ref with
  | .host id _ => (sqlTable.find? fun s => s.id == id).map (·.fmt)
  | _ => none

/-- `logicalFunPrecTbl`: `BP_LOGIC_AND = 4`, `BP_LOGIC_OR = 3`, `BP_PREFIX = 10` -/
def Fmt.prec? : Fmt → Option Nat
  | .logicAnd => some 4
  | .logicOr => some 3
  | .logicNot => some 10
  | _ => none

/-! ### compilation -/

inductive SqlErr where
  | check (e : CheckErr)     -- `types.Check` refuses the tree (a panic of `CompileToSql`)
  | compilePanic             -- `sql.Compile` refuses the checked tree (a panic of `CompileToSql`)
  | envUndefined             -- a run-time name is not in the compile-time environment
  | envType                  -- … or has another type there
  | missingVar               -- `env.MustGet(o)` of `o.f` fails
  | unsupportedVal           -- `fmtVal` of a list, map, object, optional or function
  | nilVal                   -- `fmtVal(nil)`: a Go run-time error
  | stuck (what : String)    -- internal inconsistency of the model's inputs
  deriving Repr, DecidableEq, Inhabited

def trueText : String := "1"
def falseText : String := "0"

/-- `fmtVal` -/
def fmtVal : Val → Except SqlErr String
  | .bool b => pure (if b then trueText else falseText)
  | .num x => pure (Num.renderNum x)
  | .str s => pure (Num.quote s)
  | .time t => pure ("from_unixtime(" ++ toString t.sec ++ ")")
  | .nil => throw .nilVal
  | _ => throw .unsupportedVal

/-- `fmt.Sprintf` of the registered formatters -/
def Fmt.apply (fm : Fmt) (args : List String) : Except SqlErr String :=
  match fm, args with
  | .logicAnd, [x, y] => pure (x ++ " AND " ++ y)
  | .logicOr, [x, y] => pure (x ++ " OR " ++ y)
  | .logicNot, [x] => pure ("NOT " ++ x)
  | .binary op, [x, y] => pure (x ++ " " ++ op ++ " " ++ y)
  | .between, [x, lo, hi] => pure (x ++ " BETWEEN " ++ lo ++ " AND " ++ hi)
  | .postfix op, [x] => pure (x ++ " " ++ op)
  | _, _ => throw (.stuck "formatter-arity")

mutual
/-- the assertions `compile` makes while it builds the closure (before anything runs) -/
def compileOk : Expr → Bool
  | .str .. | .num .. | .time .. | .bool .. | .ident .. => true
  | .list _ es _ => compileOkList es
  | .member _ _ obj _ _ _ _ =>
    match obj with
    | .ident .. => true
    | _ => false
  | .call _ _ _ args _ resolved index =>
    resolved != "" && (resolveStatic sqlFuns resolved index).isSome && compileOkList args
  | _ => false
def compileOkList : ExprList → Bool
  | .nil => true
  | .cons e es => compileOk e && compileOkList es
end

mutual
/-- the closure `compile(expr, env1, outerPrec)` applied to the run-time environment `venv` -/
def emit (venv : List (String × Val)) (outerPrec : Nat) : Expr → Except SqlErr String
  | .str _ v => fmtVal (.str v)
  | .num _ v => fmtVal (.num v)
  | .time _ v => fmtVal (.time (TimeV.unix v))
  | .bool _ v => fmtVal (.bool v)
  | .list _ es _ => do
    let xs ← emitList venv outerPrec es
    pure (joinStr xs ", " "(" ")")
  | .ident _ name =>
    match (venv.find? fun p => p.1 == name) with
    | some (_, v) => fmtVal v
    | none => pure ("`" ++ name ++ "`")
  | .member _ _ obj field _ _ _ =>
    match obj with
    | .ident _ id =>
      match (venv.find? fun p => p.1 == id) with
      | none => throw .missingVar
      | some (_, .obj ty vs) =>
        match objGet? ty vs field with
        | some v => fmtVal v
        | none => throw .nilVal
      | some _ => throw (.stuck "cast:obj")
    | _ => throw .compilePanic
  | .call _ _ _ args _ resolved index =>
    match resolveStatic sqlFuns resolved index with
    | none => throw .compilePanic
    | some d =>
      match lookupFmt d with
      | none => throw (.stuck "formatter")
      | some fm => do
        -- a non-logical callee has the zero value of `oper.BP` as its `prec`
        let prec := fm.prec?.getD 0
        let xs ← emitList venv prec args
        let s ← fm.apply xs
        pure (if fm.prec?.isSome && outerPrec > prec then "(" ++ s ++ ")" else s)
  | _ => throw .compilePanic
def emitList (venv : List (String × Val)) (outerPrec : Nat) : ExprList → Except SqlErr (List String)
  | .nil => pure []
  | .cons e es => do
    let x ← emit venv outerPrec e
    let xs ← emitList venv outerPrec es
    pure (x :: xs)
end

/-- `sql.Compile(expr, env)` applied to a run-time environment: `compile(expr, env, 0)` -/
def sqlCompile (e : Expr) (venv : List (String × Val)) : Except SqlErr String :=
  if compileOk e then emit venv 0 e else throw .compilePanic

/-- the run-time environment check of `CompileToSql`: every run-time name must exist at compile
time with an equal type (the iteration order of the Go map is unspecified; the first offender in
list order is reported here) -/
def envCheck (tenv : List (String × Ty)) : List (String × Val) → Except SqlErr Unit
  | [] => pure ()
  | (name, v) :: rest =>
    match (tenv.find? fun p => p.1 == name) with
    | none => throw .envUndefined
    | some (_, ty) => if tyEq ty v.typeOf then envCheck tenv rest else throw .envType

/-- the type-checked tree `CompileToSql` hands to `sql.Compile` -/
def checked (c : Criteria) (tenv : List (String × Ty)) : Except SqlErr Expr :=
  match check { vars := tenv, funs := sqlFuns, reserved := reservedWords } 0 c.expr with
  | .ok (_, e, _) => pure e
  | .error err => throw (.check err)

/-- `ext.CompileToSql(c, tenv)(venv)` -/
def toSql (c : Criteria) (tenv : List (String × Ty)) (venv : List (String × Val)) : Except SqlErr String := do
  let e ← checked c tenv
  if !compileOk e then throw .compilePanic
  envCheck tenv venv
  emit venv 0 e

/-! ### what the text is supposed to say (C20) -/

mutual
inductive SqlTree where
  | col (name : String)
  | str (v : String)
  | num (lexeme : String)
  | time (lexeme : String)           -- the argument of `from_unixtime`
  | list (xs : SqlTreeList)
  | cond (op : String) (args : SqlTreeList)
  | and (xs : SqlTreeList)
  | or (xs : SqlTreeList)
  | not (x : SqlTree)
inductive SqlTreeList where
  | nil
  | cons (x : SqlTree) (xs : SqlTreeList)
end

instance : Inhabited SqlTree := ⟨.list .nil⟩
instance : Inhabited SqlTreeList := ⟨.nil⟩

namespace SqlTreeList
def toList : SqlTreeList → List SqlTree
  | .nil => []
  | .cons x xs => x :: toList xs
def ofList : List SqlTree → SqlTreeList
  | [] => .nil
  | x :: xs => .cons x (ofList xs)
def append : SqlTreeList → SqlTreeList → SqlTreeList
  | .nil, ys => ys
  | .cons x xs, ys => .cons x (append xs ys)
end SqlTreeList

mutual
def SqlTree.beq : SqlTree → SqlTree → Bool
  | .col a, .col b => a == b
  | .str a, .str b => a == b
  | .num a, .num b => a == b
  | .time a, .time b => a == b
  | .list xs, .list ys => SqlTreeList.beq xs ys
  | .cond o xs, .cond p ys => o == p && SqlTreeList.beq xs ys
  | .and xs, .and ys => SqlTreeList.beq xs ys
  | .or xs, .or ys => SqlTreeList.beq xs ys
  | .not x, .not y => SqlTree.beq x y
  | _, _ => false
def SqlTreeList.beq : SqlTreeList → SqlTreeList → Bool
  | .nil, .nil => true
  | .cons x xs, .cons y ys => SqlTree.beq x y && SqlTreeList.beq xs ys
  | _, _ => false
end

instance : BEq SqlTree := ⟨SqlTree.beq⟩

mutual
/-- forget the nesting of AND in AND and of OR in OR, nothing else -/
def flatten : SqlTree → SqlTree
  | .list xs => .list (flattenList xs)
  | .cond op args => .cond op (flattenList args)
  | .and xs => .and (spliceAnd xs)
  | .or xs => .or (spliceOr xs)
  | .not x => .not (flatten x)
  | t => t
def flattenList : SqlTreeList → SqlTreeList
  | .nil => .nil
  | .cons x xs => .cons (flatten x) (flattenList xs)
def spliceAnd : SqlTreeList → SqlTreeList
  | .nil => .nil
  | .cons x xs =>
    match flatten x with
    | .and ys => ys.append (spliceAnd xs)
    | y => .cons y (spliceAnd xs)
def spliceOr : SqlTreeList → SqlTreeList
  | .nil => .nil
  | .cons x xs =>
    match flatten x with
    | .or ys => ys.append (spliceOr xs)
    | y => .cons y (spliceOr xs)
end

/-- the operator as it is spelled in the text -/
def sqlOpName (op : String) : String := if op == "ISNULL" then "IS NULL" else op

/-- a run-time value as a literal of the dialect -/
def litOf : Val → Option SqlTree
  | .bool b => some (.num (if b then trueText else falseText))
  | .num x => some (.num (Num.renderNum x))
  | .str s => some (.str s)
  | .time t => some (.time (toString t.sec))
  | _ => none

mutual
/-- an operand: literals, lists, names (value if bound at run time, column otherwise), `o.f`,
and — for completeness — nested applications of the registered functions -/
def operandTree (venv : List (String × Val)) : Expr → Option SqlTree
  | .str _ v => some (.str v)
  | .num _ v => some (.num (Num.renderNum v))
  | .time _ v => some (.time (toString v))
  | .bool _ v => some (.num (if v then trueText else falseText))
  | .list _ es _ => (operandTrees venv es).map .list
  | .ident _ name =>
    match (venv.find? fun p => p.1 == name) with
    | some (_, v) => litOf v
    | none => some (.col name)
  | .member _ _ (.ident _ id) field _ _ _ =>
    match (venv.find? fun p => p.1 == id) with
    | some (_, .obj ty vs) => (objGet? ty vs field).bind litOf
    | _ => none
  | .call _ _ (.ident _ name) args _ _ _ =>
    match name, operandTrees venv args with
    | "AND", some xs => some (.and xs)
    | "OR", some xs => some (.or xs)
    | "NOT", some (.cons x .nil) => some (.not x)
    | "NOT", some _ => none
    | op, some xs => some (.cond (sqlOpName op) xs)
    | _, none => none
  | _ => none
def operandTrees (venv : List (String × Val)) : ExprList → Option SqlTreeList
  | .nil => some .nil
  | .cons e es => do
    let x ← operandTree venv e
    let xs ← operandTrees venv es
    pure (.cons x xs)
end

mutual
/-- the meaning of a criteria tree under a run-time environment -/
def treeOf (venv : List (String × Val)) : Criteria → Option SqlTree
  | .cond field op operands => do
    let x ← operandTree venv (.ident Pos.unknown field)
    let xs ← operandTrees venv operands
    pure (.cond (sqlOpName op) (.cons x xs))
  | .group .and cs => (treesOf venv cs).map .and
  | .group .or cs => (treesOf venv cs).map .or
  | .group .not cs =>
    match treesOf venv cs with
    | some (.cons x .nil) => some (.not x)
    | _ => none
def treesOf (venv : List (String × Val)) : CriteriaList → Option SqlTreeList
  | .nil => some .nil
  | .cons c cs => do
    let x ← treeOf venv c
    let xs ← treesOf venv cs
    pure (.cons x xs)
end

end Yae.Sql
