/-
  A reference reader of the SQL dialect `ext/sql` produces, with STANDARD SQL precedence:

      comparison  = <> > >= < <=   IN (..)   BETWEEN x AND y   LIKE   IS NULL      (tightest)
      NOT
      AND
      OR                                                                          (loosest)

  and parentheses.  String literals are in Go-quote syntax (`"…"` with backslash escapes, as
  `strconv.Unquote` reads them), identifiers are back-quoted, numbers are decimal literals with
  an optional sign, times are `from_unixtime(n)`.  Property C20 is stated against this reader:
  `readSql (toSql c …) = some (flatten (treeOf c …))` up to `flatten` on both sides.

  Everything is total and structurally recursive: the tokenizer and the parser run on explicit fuel
  (`parseFuel` bounds the depth of the recursion; every recursive call that does not consume a
  token goes one level down the grammar, so `8 * (tokens + 2)` levels always suffice).
-/
import Yae.Model.Sql
namespace Yae.Sql
open Yae

inductive Tok where
  | word (s : String)     -- keyword or bare word
  | bq (s : String)       -- back-quoted identifier
  | str (s : String)      -- string literal, decoded
  | num (s : String)      -- numeric literal, as written
  | sym (s : String)      -- ( ) , = <> > >= < <=
  deriving DecidableEq, Repr, Inhabited

def isDigit (c : Char) : Bool := '0' ≤ c && c ≤ '9'
def isWordStart (c : Char) : Bool := ('a' ≤ c && c ≤ 'z') || ('A' ≤ c && c ≤ 'Z') || c == '_'
def isWordChar (c : Char) : Bool := isWordStart c || isDigit c
def isSpace (c : Char) : Bool := c == ' ' || c == '\t' || c == '\n' || c == '\r'

def hexv (c : Char) : Option Nat :=
  if isDigit c then some (c.toNat - 48)
  else if 'a' ≤ c && c ≤ 'f' then some (c.toNat - 87)
  else if 'A' ≤ c && c ≤ 'F' then some (c.toNat - 55)
  else none

def octv (c : Char) : Option Nat := if '0' ≤ c && c ≤ '7' then some (c.toNat - 48) else none

def hexN : List Char → Option Nat
  | [] => some 0
  | cs => cs.foldlM (fun acc c => do let v ← hexv c; pure (acc * 16 + v)) 0

/-- a code point written `\uXXXX` / `\UXXXXXXXX` must be a Unicode scalar value -/
def scalarBytes (n : Nat) : Option (List UInt8) :=
  if n < 0xd800 || (0xe000 ≤ n && n ≤ 0x10ffff) then some (String.singleton (Char.ofNat n)).toUTF8.toList
  else none

/-- the body of a `"`-quoted Go string up to the closing quote, as bytes; the rest of the input.
`fuel` is the length of the input plus one (every step consumes at least one character). -/
def strBody : Nat → List Char → List UInt8 → Option (List UInt8 × List Char)
  | 0, _, _ => none
  | _, [], _ => none
  | _, '"' :: rest, acc => some (acc.reverse, rest)
  | _, '\n' :: _, _ => none
  | fuel+1, '\\' :: c :: rest, acc =>
    let simple (b : Nat) := strBody fuel rest (UInt8.ofNat b :: acc)
    match c with
    | 'a' => simple 7 | 'b' => simple 8 | 'f' => simple 12 | 'n' => simple 10
    | 'r' => simple 13 | 't' => simple 9 | 'v' => simple 11 | '\\' => simple 92 | '"' => simple 34
    | 'x' =>
      match rest with
      | h1 :: h2 :: rest' =>
        match hexv h1, hexv h2 with
        | some a, some b => strBody fuel rest' (UInt8.ofNat (a * 16 + b) :: acc)
        | _, _ => none
      | _ => none
    | 'u' =>
      if rest.length < 4 then none else
      match (hexN (rest.take 4)).bind scalarBytes with
      | some bs => strBody fuel (rest.drop 4) (bs.reverse ++ acc)
      | none => none
    | 'U' =>
      if rest.length < 8 then none else
      match (hexN (rest.take 8)).bind scalarBytes with
      | some bs => strBody fuel (rest.drop 8) (bs.reverse ++ acc)
      | none => none
    | c =>
      match octv c, rest with
      | some o1, d2 :: d3 :: rest' =>
        match octv d2, octv d3 with
        | some o2, some o3 =>
          let n := o1 * 64 + o2 * 8 + o3
          if n > 255 then none else strBody fuel rest' (UInt8.ofNat n :: acc)
        | _, _ => none
      | _, _ => none
  | _, '\\' :: [], _ => none
  | fuel+1, c :: rest, acc => strBody fuel rest ((String.singleton c).toUTF8.toList.reverse ++ acc)

/-- the body of a back-quoted identifier (no escape mechanism in the produced dialect) -/
def bqBody : List Char → List Char → Option (String × List Char)
  | [], _ => none
  | '`' :: rest, acc => some (String.ofList acc.reverse, rest)
  | c :: rest, acc => bqBody rest (c :: acc)

def spanDigits (cs : List Char) : List Char × List Char := cs.span isDigit

/-- `-?digits(.digits)?([eE][+-]?digits)?` -/
def numBody (cs : List Char) : Option (String × List Char) :=
  let (sign, cs) := match cs with
    | '-' :: rest => (['-'], rest)
    | cs => ([], cs)
  let (ip, cs) := spanDigits cs
  if ip.isEmpty then none else
  let (fp, cs) := match cs with
    | '.' :: rest =>
      let (d, rest') := spanDigits rest
      if d.isEmpty then ([], cs) else ('.' :: d, rest')
    | cs => ([], cs)
  let (ep, cs) := match cs with
    | e :: rest =>
      if e == 'e' || e == 'E' then
        let (sg, rest1) := match rest with
          | '+' :: r => (['+'], r)
          | '-' :: r => (['-'], r)
          | r => ([], r)
        let (d, rest2) := spanDigits rest1
        if d.isEmpty then ([], cs) else (e :: sg ++ d, rest2)
      else ([], cs)
    | cs => ([], cs)
  some (String.ofList (sign ++ ip ++ fp ++ ep), cs)

/-- tokenizer; `fuel` is the length of the input plus one (each step consumes a character) -/
def tokenize : Nat → List Char → List Tok → Option (List Tok)
  | 0, _, _ => none
  | _, [], acc => some acc.reverse
  | fuel+1, c :: rest, acc =>
    if isSpace c then tokenize fuel rest acc
    else if c == '"' then
      match strBody (rest.length + 1) rest [] with
      | some (bs, rest') =>
        match String.fromUTF8? (ByteArray.mk bs.toArray) with
        | some s => tokenize fuel rest' (.str s :: acc)
        | none => none
      | none => none
    else if c == '`' then
      match bqBody rest [] with
      | some (s, rest') => tokenize fuel rest' (.bq s :: acc)
      | none => none
    else if isDigit c || (c == '-' && (rest.head?.map isDigit).getD false) then
      match numBody (c :: rest) with
      | some (s, rest') => tokenize fuel rest' (.num s :: acc)
      | none => none
    else if isWordStart c then
      let (w, rest') := (c :: rest).span isWordChar
      tokenize fuel rest' (.word (String.ofList w) :: acc)
    else if c == '(' || c == ')' || c == ',' || c == '=' then
      tokenize fuel rest (.sym (String.singleton c) :: acc)
    else if c == '<' then
      match rest with
      | '>' :: rest' => tokenize fuel rest' (.sym "<>" :: acc)
      | '=' :: rest' => tokenize fuel rest' (.sym "<=" :: acc)
      | _ => tokenize fuel rest (.sym "<" :: acc)
    else if c == '>' then
      match rest with
      | '=' :: rest' => tokenize fuel rest' (.sym ">=" :: acc)
      | _ => tokenize fuel rest (.sym ">" :: acc)
    else none

def tokens (s : String) : Option (List Tok) :=
  let cs := s.toList
  tokenize (cs.length + 1) cs []

def cmpOps : List String := ["=", "<>", ">", ">=", "<", "<="]

abbrev P := Option (SqlTree × List Tok)

mutual
/-- `or := and (OR and)*` -/
def parseOr : Nat → List Tok → P
  | 0, _ => none
  | fuel+1, ts => do
    let (x, ts) ← parseAnd fuel ts
    parseOrRest fuel x ts
def parseOrRest : Nat → SqlTree → List Tok → P
  | 0, _, _ => none
  | fuel+1, x, ts =>
    match ts with
    | .word "OR" :: ts => do
      let (y, ts) ← parseAnd fuel ts
      parseOrRest fuel (.or (.cons x (.cons y .nil))) ts
    | _ => some (x, ts)
/-- `and := not (AND not)*` -/
def parseAnd : Nat → List Tok → P
  | 0, _ => none
  | fuel+1, ts => do
    let (x, ts) ← parseNot fuel ts
    parseAndRest fuel x ts
def parseAndRest : Nat → SqlTree → List Tok → P
  | 0, _, _ => none
  | fuel+1, x, ts =>
    match ts with
    | .word "AND" :: ts => do
      let (y, ts) ← parseNot fuel ts
      parseAndRest fuel (.and (.cons x (.cons y .nil))) ts
    | _ => some (x, ts)
/-- `not := NOT not | predicate` -/
def parseNot : Nat → List Tok → P
  | 0, _ => none
  | fuel+1, ts =>
    match ts with
    | .word "NOT" :: ts => do
      let (x, ts) ← parseNot fuel ts
      pure (.not x, ts)
    | _ => do
      let (x, ts) ← parsePrimary fuel ts
      parsePredRest fuel x ts
/-- `predicate := primary (cmp primary | IN list | BETWEEN primary AND primary | LIKE primary | IS NULL)*`,
associating to the left -/
def parsePredRest : Nat → SqlTree → List Tok → P
  | 0, _, _ => none
  | fuel+1, x, ts =>
    match ts with
    | .sym op :: ts' =>
      if cmpOps.contains op then do
        let (y, ts) ← parsePrimary fuel ts'
        parsePredRest fuel (.cond op (.cons x (.cons y .nil))) ts
      else some (x, ts)
    | .word "IN" :: .sym "(" :: ts' => do
      let (ys, ts) ← parseItems fuel ts'
      parsePredRest fuel (.cond "IN" (.cons x (.cons (.list ys) .nil))) ts
    | .word "LIKE" :: ts' => do
      let (y, ts) ← parsePrimary fuel ts'
      parsePredRest fuel (.cond "LIKE" (.cons x (.cons y .nil))) ts
    | .word "BETWEEN" :: ts' => do
      let (lo, ts) ← parsePrimary fuel ts'
      match ts with
      | .word "AND" :: ts => do
        let (hi, ts) ← parsePrimary fuel ts
        parsePredRest fuel (.cond "BETWEEN" (.cons x (.cons lo (.cons hi .nil)))) ts
      | _ => none
    | .word "IS" :: .word "NULL" :: ts' =>
      parsePredRest fuel (.cond "IS NULL" (.cons x .nil)) ts'
    | _ => some (x, ts)
/-- `items := expr (, expr)* )` — at least one item -/
def parseItems : Nat → List Tok → Option (SqlTreeList × List Tok)
  | 0, _ => none
  | fuel+1, ts => do
    let (x, ts) ← parseOr fuel ts
    match ts with
    | .sym ")" :: ts => pure (.cons x .nil, ts)
    | .sym "," :: ts => do
      let (xs, ts) ← parseItems fuel ts
      pure (.cons x xs, ts)
    | _ => none
/-- `primary := literal | column | from_unixtime(n) | ( expr ) | ( expr , expr … )` -/
def parsePrimary : Nat → List Tok → P
  | 0, _ => none
  | fuel+1, ts =>
    match ts with
    | .str s :: ts => some (.str s, ts)
    | .num s :: ts => some (.num s, ts)
    | .bq s :: ts => some (.col s, ts)
    | .word "from_unixtime" :: .sym "(" :: .num s :: .sym ")" :: ts => some (.time s, ts)
    | .sym "(" :: ts => do
      let (xs, ts) ← parseItems fuel ts
      match xs with
      | .cons x .nil => pure (x, ts)        -- a parenthesised expression
      | xs => pure (.list xs, ts)           -- a row of two or more
    | _ => none
end

def parseFuel (ts : List Tok) : Nat := 8 * (ts.length + 2)

/-- the reference reader (the tree is NOT flattened) -/
def readSql (s : String) : Option SqlTree := do
  let ts ← tokens s
  match parseOr (parseFuel ts) ts with
  | some (t, []) => some t
  | _ => none

/-- C20 in executable form: whenever a text is produced, it reads back — with standard SQL
precedence — as the meaning of the criteria, up to the associativity of AND and of OR. -/
def c20Check (c : Criteria) (tenv : List (String × Ty)) (venv : List (String × Val)) : Option Bool :=
  match toSql c tenv venv with
  | .error _ => none
  | .ok text =>
    match readSql text, treeOf venv c with
    | some t, some w => some (flatten t == flatten w)
    | _, _ => some false

end Yae.Sql
