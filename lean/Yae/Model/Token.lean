/-
  `parser/pos`, `parser/token`, `parser/oper`: positions, tokens, operator declarations.
-/
namespace Yae

/-- `pos.Pos` (rune indices; `idx` inclusive, `idxEnd` exclusive; `col`/`line` 0-based). -/
structure Pos where
  idx : Int
  idxEnd : Int
  col : Int
  line : Int
  deriving DecidableEq, Repr, Inhabited

/-- `pos.Unknown`. -/
def Pos.unknown : Pos := ⟨-1, -1, -1, -1⟩

/-- The zero cursor a lexer starts from. -/
def Pos.zero : Pos := ⟨0, 0, 0, 0⟩

/-- `(*Pos).Move`: advance the cursor over one rune. -/
def Pos.move (p : Pos) (r : Char) : Pos :=
  if r = '\n' then { p with idx := p.idx + 1, line := p.line + 1, col := 0 }
  else { p with idx := p.idx + 1, col := p.col + 1 }

/-- `token.Token`; `kind` is the `token.Kind` string (`"<sym>"`, `"<num>"`, `"("`, `"+"`, …). -/
structure Token where
  kind : String
  lexeme : String
  pos : Pos
  deriving DecidableEq, Repr, Inhabited

/-- `oper.Fixity` values. -/
def fixNA : Nat := 0
def fixPrefix : Nat := 1
def fixInfixN : Nat := 2
def fixInfixL : Nat := 3
def fixInfixR : Nat := 4
def fixPostfix : Nat := 5

/-- `oper.Operator`; `bp` is the float32 binding power widened to binary64. -/
structure Operator where
  kind : String
  bp : Float
  fixity : Nat
  deriving Inhabited

end Yae
