/-
  `parser/pos`, `parser/token`, `parser/oper`: positions, tokens, operator declarations.
-/
namespace Yae

/-- `pos.Pos` (rune indices; `idx` inclusive, `idxEnd` exclusive; `col`/`line` 0-based). -/
structure Pos where
  idx : Int
  idxEnd : Int
  col : Int
  line : Int
  deriving DecidableEq, Repr, Inhabited

/-- `pos.Unknown`. -/
def Pos.unknown : Pos := ⟨-1, -1, -1, -1⟩

/-- The zero cursor a lexer starts from. -/
def Pos.zero : Pos := ⟨0, 0, 0, 0⟩

/-- `(*Pos).Move`: advance the cursor over one rune. -/
def Pos.move (p : Pos) (r : Char) : Pos :=
  if r = '\n' then { p with idx := p.idx + 1, line := p.line + 1, col := 0 }
  else { p with idx := p.idx + 1, col := p.col + 1 }

/-- `token.Token`; `kind` is the `token.Kind` string (`"<sym>"`, `"<num>"`, `"("`, `"+"`, …). -/
structure Token where
  kind : String
  lexeme : String
  pos : Pos
  deriving DecidableEq, Repr, Inhabited

/-- `oper.Fixity` values. -/
def fixNA : Nat := 0
def fixPrefix : Nat := 1
def fixInfixN : Nat := 2
def fixInfixL : Nat := 3
def fixInfixR : Nat := 4
def fixPostfix : Nat := 5

/-- `oper.BP`, a Go `float32`, as its sign bit and the remaining 31 bits (biased exponent and
fraction) read as a number.  Everything the parser does with binding powers — the comparison
`lbp > rbp` and `BP.Prev` — is defined on this representation, so it is transparent to the kernel.
`mag = 0x7f800000` is an infinity, anything above a NaN; `mag = 0` is a zero of either sign. -/
structure BP where
  neg : Bool
  mag : Nat
  deriving DecidableEq, Repr, Inhabited

namespace BP

def infMag : Nat := 0x7f800000

def isNaN (b : BP) : Bool := b.mag > infMag

/-- position on the number line (both zeros at 0; float32 order is the order of these keys) -/
def key (b : BP) : Int := if b.neg then - (b.mag : Int) else b.mag

/-- IEEE `<` of two float32 values: false as soon as one side is a NaN; `-0 < +0` is false -/
def lt (a b : BP) : Bool := !a.isNaN && !b.isNaN && decide (a.key < b.key)

instance : LT BP := ⟨fun a b => lt a b = true⟩
instance (a b : BP) : Decidable (a < b) := inferInstanceAs (Decidable (lt a b = true))

/-- `BP.Prev`: `math.Nextafter32(bp, -Inf)`, the largest float32 below `bp` (NaN and `-Inf` stay;
below either zero comes the negative number of least magnitude). -/
def pred (b : BP) : BP :=
  if b.isNaN then b
  else if b.mag = 0 then ⟨true, 1⟩
  else if b.neg then (if b.mag = infMag then b else ⟨true, b.mag + 1⟩)
  else ⟨false, b.mag - 1⟩

/-- the float32 value of a natural number below 2^24 (exact) -/
def ofNat (n : Nat) : BP :=
  if n = 0 then ⟨false, 0⟩
  else
    let e := Nat.log2 n
    ⟨false, (127 + e) * 2 ^ 23 + (n - 2 ^ e) * 2 ^ (23 - e)⟩

instance (n : Nat) : OfNat BP n := ⟨ofNat n⟩

/-- a float32 value that travels widened to binary64 (as the line protocol and the regenerated
tables carry it): the float32 it came from; `none` when the double is not a float32 value. -/
def ofF64Bits (w : UInt64) : Option BP :=
  let w := w.toNat
  let neg := w / 2 ^ 63 == 1
  let e := (w / 2 ^ 52) % 2 ^ 11
  let m := w % 2 ^ 52
  if e == 0x7ff then
    -- Inf / NaN (a NaN keeps being a NaN: the payload is not observable in the parser)
    some ⟨neg, if m == 0 then infMag else infMag + 1⟩
  else if e == 0 then
    if m == 0 then some ⟨neg, 0⟩ else none     -- binary64 subnormals are not float32 values
  else if e ≥ 897 && e ≤ 1150 then
    -- normal float32: exponent 1 … 254, low 29 fraction bits must be zero
    if m % 2 ^ 29 == 0 then some ⟨neg, (e - 896) * 2 ^ 23 + m / 2 ^ 29⟩ else none
  else if e ≥ 874 && e ≤ 896 then
    -- subnormal float32: value = (2^52 + m) * 2^(e-1075) = k * 2^(-149)
    let sh := 1075 - 149 - e + 0   -- = 926 - e, between 30 and 52
    let full := 2 ^ 52 + m
    if full % 2 ^ sh == 0 then some ⟨neg, full / 2 ^ sh⟩ else none
  else none

end BP

/-- `oper.Operator`; `bp` is the float32 binding power. -/
structure Operator where
  kind : String
  bp : BP
  fixity : Nat
  deriving DecidableEq, Repr, Inhabited

end Yae
