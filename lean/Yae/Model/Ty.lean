/-
  Types of yae (`/repo/types`): kinds, structural equality (`types.Equals`),
  rendering (`(*Type).String`), `slotFree`, `freeFrom`.
  The three mutually inductive types avoid nested `List`s so that structural
  recursion and mutual inductive proofs go through.
-/
import Yae.SExp
namespace Yae

mutual
inductive Ty where
  | top | bot
  | var (n : String)
  | num | str | bool | time
  | tuple (ts : TyList)
  | list (el : Ty)
  | map (k v : Ty)
  | obj (fs : FieldList)
  | fn (name : String) (ps : TyList) (ret : Ty)
  | maybe (el : Ty)
inductive TyList where
  | nil
  | cons (t : Ty) (ts : TyList)
inductive FieldList where
  | nil
  | cons (name : String) (t : Ty) (fs : FieldList)
end

instance : Inhabited Ty := ⟨.bot⟩
instance : Inhabited TyList := ⟨.nil⟩
instance : Inhabited FieldList := ⟨.nil⟩

namespace TyList
def toList : TyList → List Ty
  | .nil => []
  | .cons t ts => t :: toList ts
def ofList : List Ty → TyList
  | [] => .nil
  | t :: ts => .cons t (ofList ts)
def length : TyList → Nat
  | .nil => 0
  | .cons _ ts => length ts + 1
def get? : TyList → Nat → Option Ty
  | .nil, _ => none
  | .cons t _, 0 => some t
  | .cons _ ts, n+1 => get? ts n
end TyList

namespace FieldList
def toList : FieldList → List (String × Ty)
  | .nil => []
  | .cons n t fs => (n, t) :: toList fs
def ofList : List (String × Ty) → FieldList
  | [] => .nil
  | (n, t) :: fs => .cons n t (ofList fs)
def length : FieldList → Nat
  | .nil => 0
  | .cons _ _ fs => length fs + 1
/-- `ObjTy.GetField`: the field with that name (names are unique in a well-formed object). -/
def find? : FieldList → String → Option Ty
  | .nil, _ => none
  | .cons n t fs, x => if n = x then some t else find? fs x
/-- `ObjTy.Index[name]`. -/
def indexOf? : FieldList → String → Option Nat
  | .nil, _ => none
  | .cons n _ fs, x => if n = x then some 0 else (indexOf? fs x).map (· + 1)
def names : FieldList → List String
  | .nil => []
  | .cons n _ fs => n :: names fs
def get? : FieldList → Nat → Option (String × Ty)
  | .nil, _ => none
  | .cons n t _, 0 => some (n, t)
  | .cons _ _ fs, k+1 => get? fs k
end FieldList

/-- The `Kind` enumeration of `types/kind.go`, in declaration order. -/
inductive Kind where
  | top | bot | tyvar | num | str | bool | time | tuple | list | map | obj | fn | maybe
  deriving DecidableEq, Repr

def Ty.kind : Ty → Kind
  | .top => .top | .bot => .bot | .var _ => .tyvar
  | .num => .num | .str => .str | .bool => .bool | .time => .time
  | .tuple _ => .tuple | .list _ => .list | .map _ _ => .map
  | .obj _ => .obj | .fn _ _ _ => .fn | .maybe _ => .maybe

def Kind.isPrimitive : Kind → Bool
  | .num | .str | .bool | .time => true
  | _ => false

def Kind.isComposite : Kind → Bool
  | .tuple | .list | .map | .obj | .fn | .maybe => true
  | _ => false

def Ty.isPrimitive (t : Ty) : Bool := t.kind.isPrimitive
def Ty.isComposite (t : Ty) : Bool := t.kind.isComposite

/-- `types.keyable`. -/
def Ty.keyable (t : Ty) : Bool :=
  t.isPrimitive || t.kind == .tyvar || t.kind == .bot

mutual
/-- `types.Equals`: structural, object fields by name (length equal and every field of the
left object present on the right with an equal type). -/
def tyEq : Ty → Ty → Bool
  | .top, .top => true
  | .bot, .bot => true
  | .var a, .var b => a == b
  | .num, .num => true
  | .str, .str => true
  | .bool, .bool => true
  | .time, .time => true
  | .tuple xs, .tuple ys => tyEqList xs ys
  | .list a, .list b => tyEq a b
  | .map k v, .map k' v' => tyEq k k' && tyEq v v'
  | .obj fs, .obj gs => fs.length == gs.length && tyEqFields fs gs
  | .fn _ ps r, .fn _ qs s => tyEqList ps qs && tyEq r s
  | .maybe a, .maybe b => tyEq a b
  | _, _ => false
def tyEqList : TyList → TyList → Bool
  | .nil, .nil => true
  | .cons x xs, .cons y ys => tyEq x y && tyEqList xs ys
  | _, _ => false
/-- every field of the first list is found (by name) in `gs` with an equal type -/
def tyEqFields : FieldList → FieldList → Bool
  | .nil, _ => true
  | .cons n t fs, gs =>
    (match gs.find? n with
     | some u => tyEq t u
     | none => false) && tyEqFields fs gs
end

mutual
def slotFree : Ty → Bool
  | .var _ => false
  | .tuple ts => slotFreeList ts
  | .list el => slotFree el
  | .map k v => slotFree k && slotFree v
  | .obj fs => slotFreeFields fs
  | .fn _ ps r => slotFreeList ps && slotFree r
  | .maybe el => slotFree el
  | _ => true
def slotFreeList : TyList → Bool
  | .nil => true
  | .cons t ts => slotFree t && slotFreeList ts
def slotFreeFields : FieldList → Bool
  | .nil => true
  | .cons _ t fs => slotFree t && slotFreeFields fs
end

/- `freeFrom ty s`: variable `s` does not occur in `ty`.  The Go function has no case for
tuples (`Unreachable`); callers never pass one, the model answers for them structurally. -/
mutual
def freeFrom (s : String) : Ty → Bool
  | .var n => n != s
  | .tuple ts => freeFromList s ts
  | .list el => freeFrom s el
  | .map k v => freeFrom s k && freeFrom s v
  | .obj fs => freeFromFields s fs
  | .fn _ ps r => freeFromList s ps && freeFrom s r
  | .maybe el => freeFrom s el
  | _ => true
def freeFromList (s : String) : TyList → Bool
  | .nil => true
  | .cons t ts => freeFrom s t && freeFromList s ts
def freeFromFields (s : String) : FieldList → Bool
  | .nil => true
  | .cons _ t fs => freeFrom s t && freeFromFields s fs
end

def joinStr (xs : List String) (sep start stop : String) : String :=
  start ++ sep.intercalate xs ++ stop

mutual
/-- `(*Type).String()` on tree-shaped types. -/
def Ty.render : Ty → String
  | .num => "num" | .str => "str" | .bool => "bool" | .time => "time"
  | .tuple ts => joinStr (renderList ts) ", " "(" ")"
  | .list el => "list[" ++ el.render ++ "]"
  | .map k v => "map[" ++ k.render ++ ", " ++ v.render ++ "]"
  | .obj fs => joinStr (renderFields fs) ", " "{" "}"
  | .fn name ps r => joinStr (renderList ps) ", " ("func " ++ name ++ "(") (") " ++ r.render)
  | .maybe el => "maybe[" ++ el.render ++ "]"
  | .var n => "'" ++ n
  | .top => "⊤"
  | .bot => "⊥"
def renderList : TyList → List String
  | .nil => []
  | .cons t ts => t.render :: renderList ts
def renderFields : FieldList → List String
  | .nil => []
  | .cons n t fs => (n ++ ": " ++ t.render) :: renderFields fs
end

/- Field names pairwise distinct, recursively (what `types.Obj` asserts), and map keys keyable
(what `types.Map` asserts). -/
mutual
def Ty.wf : Ty → Bool
  | .tuple ts => wfList ts
  | .list el => el.wf
  | .map k v => k.keyable && k.wf && v.wf
  | .obj fs => wfFields fs
  | .fn _ ps r => wfList ps && r.wf
  | .maybe el => el.wf
  | _ => true
def wfList : TyList → Bool
  | .nil => true
  | .cons t ts => t.wf && wfList ts
def wfFields : FieldList → Bool
  | .nil => true
  | .cons n t fs => (fs.find? n).isNone && t.wf && wfFields fs
end

/-! ### wire format -/
open SExp in
partial def Ty.toSExp : Ty → SExp
  | .top => .atom "top" | .bot => .atom "bot"
  | .var n => .list [.atom "var", encStr n]
  | .num => .atom "num" | .str => .atom "str" | .bool => .atom "bool" | .time => .atom "time"
  | .tuple ts => .list (.atom "tuple" :: ts.toList.map Ty.toSExp)
  | .list el => .list [.atom "list", el.toSExp]
  | .map k v => .list [.atom "map", k.toSExp, v.toSExp]
  | .obj fs => .list (.atom "obj" :: fs.toList.map fun (n, t) => .list [encStr n, t.toSExp])
  | .fn name ps r => .list [.atom "fun", encStr name, .list (ps.toList.map Ty.toSExp), r.toSExp]
  | .maybe el => .list [.atom "maybe", el.toSExp]

open SExp in
partial def Ty.ofSExp : SExp → Option Ty
  | .atom "top" => some .top | .atom "bot" => some .bot
  | .atom "num" => some .num | .atom "str" => some .str
  | .atom "bool" => some .bool | .atom "time" => some .time
  | .list [.atom "var", n] => do pure (.var (← decStr n))
  | .list (.atom "tuple" :: ts) => do pure (.tuple (TyList.ofList (← ts.mapM Ty.ofSExp)))
  | .list [.atom "list", el] => do pure (.list (← Ty.ofSExp el))
  | .list [.atom "map", k, v] => do pure (.map (← Ty.ofSExp k) (← Ty.ofSExp v))
  | .list (.atom "obj" :: fs) => do
      let fs ← fs.mapM fun
        | .list [n, t] => do pure ((← decStr n), (← Ty.ofSExp t))
        | _ => none
      pure (.obj (FieldList.ofList fs))
  | .list [.atom "fun", name, .list ps, r] => do
      pure (.fn (← decStr name) (TyList.ofList (← ps.mapM Ty.ofSExp)) (← Ty.ofSExp r))
  | .list [.atom "maybe", el] => do pure (.maybe (← Ty.ofSExp el))
  | _ => none

end Yae
