/-
  `types/unify.go`: substitutions, `applySubst`, `unify`, and `inferFun` of
  `types/typecheck.go`.  `applySubst` chases bindings and `unify` recurses into freshly built
  types, so both take fuel; `Proofs/UnifyFuel` shows the fuel used by the checker suffices.
-/
import Yae.Model.Ty
namespace Yae

abbrev Subst := List (String × Ty)

def Subst.get? (m : Subst) (n : String) : Option Ty :=
  match m with
  | [] => none
  | (k, v) :: rest => if k = n then some v else Subst.get? rest n

def Subst.set (m : Subst) (n : String) (t : Ty) : Subst :=
  match m with
  | [] => [(n, t)]
  | (k, v) :: rest => if k = n then (k, t) :: rest else (k, v) :: Subst.set rest n t

/-- Failure modes of the unifier: `fail` is Go's `nil` result, `panic` an assertion raised
inside (`types.Map` on a non-keyable key, `Unreachable`), `fuel` never happens for the fuel the
callers pass (theorem), it is kept distinct so that it cannot hide behind `fail`. -/
inductive UErr where
  | fail | panic (msg : String) | fuel
  deriving Repr, DecidableEq

abbrev UM := Except UErr

/-- `types.Map`: asserts the key is keyable. -/
def mkMap (k v : Ty) : UM Ty :=
  if k.keyable then pure (.map k v) else throw (.panic "invalid type of map's key")

mutual
def applySubst (fuel : Nat) (m : Subst) : Ty → UM Ty
  | .var n =>
    match m.get? n with
    | none => pure (.var n)
    | some r =>
      match r with
      | .var n' => if n' = n then pure (.var n) else
          match fuel with
          | 0 => throw .fuel
          | fuel+1 => applySubst fuel m (.var n')
      | r =>
          match fuel with
          | 0 => throw .fuel
          | fuel+1 => applySubst fuel m r
  | .list el => do pure (.list (← applySubst fuel m el))
  | .map k v => do
      let k' ← applySubst fuel m k
      let v' ← applySubst fuel m v
      mkMap k' v'
  | .tuple ts => do pure (.tuple (← applySubstList fuel m ts))
  | .obj fs => do pure (.obj (← applySubstFields fuel m fs))
  | .fn name ps r => do
      let ps' ← applySubstList fuel m ps
      let r' ← applySubst fuel m r
      pure (.fn name ps' r')
  | .maybe el => do pure (.maybe (← applySubst fuel m el))
  | t => pure t
termination_by t => (fuel, sizeOf t)
def applySubstList (fuel : Nat) (m : Subst) : TyList → UM TyList
  | .nil => pure .nil
  | .cons t ts => do
      let t' ← applySubst fuel m t
      let ts' ← applySubstList fuel m ts
      pure (.cons t' ts')
termination_by ts => (fuel, sizeOf ts)
def applySubstFields (fuel : Nat) (m : Subst) : FieldList → UM FieldList
  | .nil => pure .nil
  | .cons n t fs => do
      let t' ← applySubst fuel m t
      let fs' ← applySubstFields fuel m fs
      pure (.cons n t' fs')
termination_by fs => (fuel, sizeOf fs)
end

mutual
/-- `types.unify` (the pointer-pair set only guards against cyclic *Type graphs, which the
model's trees cannot be). Returns the unified type and the updated substitution. -/
def unify (fuel : Nat) (x y : Ty) (m : Subst) : UM (Ty × Subst) :=
  match fuel with
  | 0 => throw .fuel
  | fuel+1 => do
    -- case x.Kind == KTyVar && y.Kind == KTyVar && Equals(applySubst(x), applySubst(y))
    let both ← (match x, y with
      | .var _, .var _ => do
          let x1 ← applySubst fuel m x
          let y1 ← applySubst fuel m y
          pure (tyEq x1 y1)
      | _, _ => pure false : UM Bool)
    if both then pure (x, m)
    else if x.isPrimitive && y.isPrimitive && x.kind == y.kind then pure (x, m)
    else if x.isComposite && y.isComposite && x.kind == y.kind then unifyComposite fuel x y m
    else match x, y with
      | .var xn, _ => do
          let y1 ← applySubst fuel m y
          if freeFrom xn y1 then
            match m.get? xn with
            | some k => if !tyEq k y1 then throw .fail else pure (y1, m.set xn y1)
            | none => pure (y1, m.set xn y1)
          else throw .fail
      | _, .var yn => do
          let x1 ← applySubst fuel m x
          if freeFrom yn x1 then
            match m.get? yn with
            | some k => if !tyEq k x1 then throw .fail else pure (x1, m.set yn x1)
            | none => pure (x1, m.set yn x1)
          else throw .fail
      | _, .bot => pure (x, m)
      | .top, _ => pure (x, m)
      | _, _ => throw .fail
def unifyComposite (fuel : Nat) (x y : Ty) (m : Subst) : UM (Ty × Subst) :=
  match x, y with
  | .list a, .list b => do
      let (el, m) ← unify fuel a b m
      pure (.list el, m)
  | .map k v, .map k' v' => do
      let (k1, m) ← unify fuel k k' m
      let (v1, m) ← unify fuel v v' m
      let t ← mkMap k1 v1
      pure (t, m)
  | .tuple xs, .tuple ys =>
      if xs.length != ys.length then throw .fail else do
      let (ts, m) ← unifyList fuel xs ys m
      pure (.tuple ts, m)
  | .obj xfs, .obj yfs =>
      if xfs.length != yfs.length then throw .fail else do
      let (fs, m) ← unifyFields fuel xfs yfs m
      pure (.obj fs, m)
  | .fn name ps r, .fn _ qs s =>
      if ps.length != qs.length then throw .fail else do
      let (ps', m) ← unifyParams fuel ps qs m
      let (r', m) ← unify fuel r s m
      pure (.fn name ps' r', m)
  | .maybe a, .maybe b => do
      let (el, m) ← unify fuel a b m
      pure (.maybe el, m)
  | _, _ => throw (.panic "unreachable")
def unifyList (fuel : Nat) (xs ys : TyList) (m : Subst) : UM (TyList × Subst) :=
  match xs, ys with
  | .cons x xs, .cons y ys => do
      let (t, m) ← unify fuel x y m
      let (ts, m) ← unifyList fuel xs ys m
      pure (.cons t ts, m)
  | _, _ => pure (.nil, m)
/-- object fields: for each field of `x` in order, the field of the same name in `y`. -/
def unifyFields (fuel : Nat) (xfs yfs : FieldList) (m : Subst) : UM (FieldList × Subst) :=
  match xfs with
  | .nil => pure (.nil, m)
  | .cons n t rest =>
    match yfs.find? n with
    | none => throw .fail
    | some u => do
      let (t', m) ← unify fuel t u m
      let (fs, m) ← unifyFields fuel rest yfs m
      pure (.cons n t' fs, m)
/-- function parameters are substituted before they are unified. -/
def unifyParams (fuel : Nat) (ps qs : TyList) (m : Subst) : UM (TyList × Subst) :=
  match ps, qs with
  | .cons p ps, .cons q qs => do
      let p1 ← applySubst fuel m p
      let q1 ← applySubst fuel m q
      let (t, m) ← unify fuel p1 q1 m
      let (ts, m) ← unifyParams fuel ps qs m
      pure (.cons t ts, m)
  | _, _ => pure (.nil, m)
end

/-- Fresh variable names as `types.TyVar` makes them: prefix followed by the counter. -/
def freshName (pre : String) (n : Nat) : String := pre ++ toString n

def freshVars (pre : String) (start : Nat) : Nat → TyList
  | 0 => .nil
  | k+1 => .cons (.var (freshName pre start)) (freshVars pre (start+1) k)

def defaultFuel : Nat := 100000

/-- `inferFun f args`; `ctr` is the value of the global type-variable counter before the call
(`argc+1` names are drawn).  Result: instantiated parameter list and return type. -/
def inferFun (ctr : Nat) (fname : String) (params : TyList) (ret : Ty) (args : TyList) :
    UM (TyList × Ty) := do
  let argc := args.length
  let sx := freshVars "s" (ctr+1) argc
  let s : Ty := .tuple sx
  let t : Ty := .var (freshName "t" (ctr+argc+1))
  let pseudo : Ty := .fn fname (.cons s .nil) t
  let fn : Ty := .fn fname (.cons (.tuple params) .nil) ret
  let (_, m) ← unify defaultFuel pseudo fn []
  let targ : Ty := .tuple args
  let targ1 ← applySubst defaultFuel m s
  let (targ2, m) ← unify defaultFuel targ1 targ m
  match targ2 with
  | .tuple ps =>
    let tres ← applySubst defaultFuel m t
    if !slotFree tres then throw .fail
    pure (ps, tres)
  | _ => throw .fail

end Yae
