/-
  `val`: run-time values, their own types, map keys, equality (`val.Equals`), the canonical
  rendering `(*Val).String()` and the `string()` conversion of `fun/stringify.go`.
-/
import Yae.Model.Ty
import Yae.Model.Num
namespace Yae

/-- An instant with the zone it is displayed in (no monotonic reading). -/
structure TimeV where
  sec : Int        -- Unix seconds
  nsec : Nat       -- 0 ≤ nsec < 10^9
  offset : Int     -- seconds east of UTC
  zone : String    -- zone abbreviation
  deriving DecidableEq, Repr, Inhabited

/-- What a function value refers to.  Builtins are identified by their position in the
registration table; host functions (registered by the embedding program / the harness) carry
the description of what they do. -/
inductive HostBeh where
  | retArg (i : Nat)                 -- strict: returns its i-th argument
  | constNum (v : Float)             -- strict: returns a number
  | constStr (v : String)            -- strict: returns a string
  | constBool (v : Bool)             -- strict: returns a bool
  | fail                             -- strict: panics
  | force (order : List Nat)         -- lazy: forces these thunks in order, returns the last result
  deriving Inhabited

inductive FunRef where
  | builtin (idx : Nat)
  | host (name : String) (beh : HostBeh)
  deriving Inhabited

mutual
inductive Val where
  | num (v : Float)
  | str (v : String)
  | bool (v : Bool)
  | time (t : TimeV)
  | list (ty : Ty) (vs : ValList)          -- `ty` is the value's own type (a list type)
  | map (ty : Ty) (es : EntryList)
  | obj (ty : Ty) (vs : ValList)           -- positional, in the order of the fields of `ty`
  | fn (ty : Ty) (ref : FunRef) (isLazy : Bool)
  | just (elTy : Ty) (v : Val)
  | nothing (elTy : Ty)
  | nil                                    -- a Go nil `*Val`
inductive ValList where
  | nil
  | cons (v : Val) (vs : ValList)
/-- map entries: key tag, key text (`Key.val`), value; key-unique association list -/
inductive EntryList where
  | nil
  | cons (tag : Kind) (key : String) (v : Val) (es : EntryList)
end

instance : Inhabited Val := ⟨.nil⟩
instance : Inhabited ValList := ⟨.nil⟩
instance : Inhabited EntryList := ⟨.nil⟩

namespace ValList
def toList : ValList → List Val
  | .nil => []
  | .cons v vs => v :: toList vs
def ofList : List Val → ValList
  | [] => .nil
  | v :: vs => .cons v (ofList vs)
def length : ValList → Nat
  | .nil => 0
  | .cons _ vs => length vs + 1
def get? : ValList → Nat → Option Val
  | .nil, _ => none
  | .cons v _, 0 => some v
  | .cons _ vs, n+1 => get? vs n
def append : ValList → ValList → ValList
  | .nil, ys => ys
  | .cons x xs, ys => .cons x (append xs ys)
def reverseAux : ValList → ValList → ValList
  | .nil, acc => acc
  | .cons x xs, acc => reverseAux xs (.cons x acc)
def reverse (xs : ValList) : ValList := reverseAux xs .nil
end ValList

namespace EntryList
def toList : EntryList → List (Kind × String × Val)
  | .nil => []
  | .cons t k v es => (t, k, v) :: toList es
def ofList : List (Kind × String × Val) → EntryList
  | [] => .nil
  | (t, k, v) :: es => .cons t k v (ofList es)
def length : EntryList → Nat
  | .nil => 0
  | .cons _ _ _ es => length es + 1
def find? : EntryList → Kind → String → Option Val
  | .nil, _, _ => none
  | .cons t k v es, t', k' => if t = t' ∧ k = k' then some v else find? es t' k'
/-- `m.V[key] = v` -/
def insert : EntryList → Kind → String → Val → EntryList
  | .nil, t, k, v => .cons t k v .nil
  | .cons t k v es, t', k', v' =>
    if t = t' ∧ k = k' then .cons t k v' es else .cons t k v (insert es t' k' v')
end EntryList

/-- The dynamic type a value carries (`v.Type`). -/
def Val.typeOf : Val → Ty
  | .num _ => .num | .str _ => .str | .bool _ => .bool | .time _ => .time
  | .list ty _ => ty | .map ty _ => ty | .obj ty _ => ty | .fn ty _ _ => ty
  | .just el _ => .maybe el | .nothing el => .maybe el
  | .nil => .bot

/-! ### time -/

def pad (width : Nat) (n : Nat) : String :=
  let s := toString n
  String.ofList (List.replicate (width - s.length) '0') ++ s

/-- civil date from days since 1970-01-01 (Howard Hinnant's algorithm). -/
def civilFromDays (z : Int) : Int × Nat × Nat :=
  let z := z + 719468
  let era := (if z ≥ 0 then z else z - 146096) / 146097
  let doe := (z - era * 146097).toNat
  let yoe := (doe - doe / 1460 + doe / 36524 - doe / 146096) / 365
  let y : Int := yoe + era * 400
  let doy := doe - (365 * yoe + yoe / 4 - yoe / 100)
  let mp := (5 * doy + 2) / 153
  let d := doy - (153 * mp + 2) / 5 + 1
  let m := if mp < 10 then mp + 3 else mp - 9
  (if m ≤ 2 then y + 1 else y, m, d)

/-- fractional seconds of `.999999999`: trailing zeros dropped, nothing if zero -/
def fracStr (nsec : Nat) : String :=
  if nsec = 0 then "" else
    let s := (pad 9 nsec).toList
    let s := (s.reverse.dropWhile (· == '0')).reverse
    "." ++ String.ofList s

/-- `Time.String()` = `Format("2006-01-02 15:04:05.999999999 -0700 MST")` for years 0..9999
and a non-empty zone abbreviation. -/
def TimeV.render (t : TimeV) : String :=
  let loc := t.sec + t.offset
  let days := loc.fdiv 86400
  let sod := (loc.fmod 86400).toNat
  let (y, m, d) := civilFromDays days
  let off := t.offset
  let sign := if off < 0 then "-" else "+"
  let offa := off.natAbs
  pad 4 y.toNat ++ "-" ++ pad 2 m ++ "-" ++ pad 2 d ++ " " ++
  pad 2 (sod / 3600) ++ ":" ++ pad 2 (sod % 3600 / 60) ++ ":" ++ pad 2 (sod % 60) ++ fracStr t.nsec ++
  " " ++ sign ++ pad 2 (offa / 3600) ++ pad 2 (offa % 3600 / 60) ++ " " ++ t.zone

def TimeV.equal (a b : TimeV) : Bool := a.sec == b.sec && a.nsec == b.nsec
def TimeV.before (a b : TimeV) : Bool := a.sec < b.sec || (a.sec == b.sec && a.nsec < b.nsec)
def TimeV.after (a b : TimeV) : Bool := TimeV.before b a

def minInt64 : Int := -9223372036854775808
def maxInt64 : Int := 9223372036854775807

/-- `a.Sub(b).Seconds()`: the difference as a saturating int64 nanosecond count, then
`float64(d / 1e9) + float64(d % 1e9) / 1e9`. -/
def TimeV.subSeconds (a b : TimeV) : Float :=
  let d : Int := (a.sec - b.sec) * 1000000000 + ((a.nsec : Int) - (b.nsec : Int))
  let d := if d < minInt64 then minInt64 else if d > maxInt64 then maxInt64 else d
  let s := d.tdiv 1000000000
  let ns := d.tmod 1000000000
  Float.ofInt s + Float.ofInt ns / 1000000000.0

/-- `time.Unix(ts, 0)` with the process zone being UTC (the harness runs with TZ=UTC). -/
def TimeV.unix (ts : Int) : TimeV := ⟨ts, 0, 0, "UTC"⟩

/-! ### numeric comparison (`val/num.go`) -/

/-- `val.epsilon` = 1e-9 as a binary64 bit pattern (checked against the regenerated constant) -/
def epsilonBits : UInt64 := 0x3e112e0be826d695
def epsilon : Float := Float.ofBits epsilonBits
def numEQ (x y : Float) : Bool := Float.abs (x - y) < epsilon
def numNE (x y : Float) : Bool := Float.abs (x - y) >= epsilon
def numLT (x y : Float) : Bool := x < y && numNE x y
def numLE (x y : Float) : Bool := x <= y || numEQ x y
def numGT (x y : Float) : Bool := x > y && numNE x y
def numGE (x y : Float) : Bool := x >= y || numEQ x y

/-! ### keys -/

/-- `(*Val).Key()`: only primitives are keys. -/
def Val.key? : Val → Option (Kind × String)
  | .bool b => some (.bool, if b then "true" else "false")
  | .num x => some (.num, Num.renderNum x)
  | .str s => some (.str, Num.quote s)
  | .time t => some (.time, Num.quote t.render)
  | _ => none

/-! ### sorting by text (`sort.SliceStable` with `<` on strings) -/

def insertBy {α} (lt : α → α → Bool) (x : α) : List α → List α
  | [] => [x]
  | y :: ys => if lt x y then x :: y :: ys else y :: insertBy lt x ys

/-- stable insertion sort -/
def sortBy {α} (lt : α → α → Bool) (xs : List α) : List α :=
  xs.foldr (fun x acc => insertBy lt x acc) []

/-! ### rendering -/

mutual
/-- `(*Val).String()` on tree-shaped values (no sharing, see DESIGN §4). -/
def Val.render : Val → String
  | .num x => Num.renderNum x
  | .bool b => if b then "true" else "false"
  | .str s => Num.quote s
  | .time t => t.render
  | .list _ vs => joinStr (renderVals vs) ", " "[" "]"
  | .map _ es =>
    match es with
    | .nil => "[:]"
    | es =>
      let xs := sortBy (fun a b => a.1 < b.1) (renderEntries es)
      joinStr (xs.map fun (k, v) => k ++ ": " ++ v) ", " "[" "]"
  | .obj ty vs =>
    match ty with
    | .obj fs =>
      let xs := sortBy (fun a b => a.1 < b.1) (List.zip fs.names (renderVals vs))
      joinStr (xs.map fun (k, v) => k ++ ": " ++ v) ", " "{" "}"
    | _ => "<bad-obj>"
  | .fn ty _ _ => ty.render ++ "#fun"
  | .just el v => "Just#" ++ el.render ++ "(" ++ v.render ++ ")"
  | .nothing el => "Nothing#" ++ el.render ++ "()"
  | .nil => "<nil>"
def renderVals : ValList → List String
  | .nil => []
  | .cons v vs => v.render :: renderVals vs
def renderEntries : EntryList → List (String × String)
  | .nil => []
  | .cons _ k v es => (k, v.render) :: renderEntries es
end

mutual
/-- `fun.stringify`: the `string()` builtin. Strings unquoted, object fields in declaration
order, map entries by key text. -/
def Val.stringify : Val → String
  | .num x => Num.renderNum x
  | .bool b => if b then "true" else "false"
  | .str s => s
  | .time t => t.render
  | .list _ vs => joinStr (stringifyVals vs) ", " "[" "]"
  | .map _ es =>
    match es with
    | .nil => "[:]"
    | es =>
      let xs := sortBy (fun a b => a.1 < b.1) (stringifyEntries es)
      joinStr (xs.map fun (k, v) => k ++ ": " ++ v) ", " "[" "]"
  | .obj ty vs =>
    match ty with
    | .obj fs =>
      joinStr ((List.zip fs.names (stringifyVals vs)).map fun (k, v) => k ++ ": " ++ v) ", " "{" "}"
    | _ => "<bad-obj>"
  | .fn _ _ _ => "#fun"
  | .just _ v => "Just(" ++ v.stringify ++ ")"
  | .nothing _ => "Nothing()"
  | .nil => "<nil>"
def stringifyVals : ValList → List String
  | .nil => []
  | .cons v vs => v.stringify :: stringifyVals vs
def stringifyEntries : EntryList → List (String × String)
  | .nil => []
  | .cons _ k v es => (k, v.stringify) :: stringifyEntries es
end

/-! ### equality (`val.Equals`) -/

/-- the value stored under field `name` of an object value (by name, in the value's own type) -/
def objGet? (ty : Ty) (vs : ValList) (name : String) : Option Val :=
  match ty with
  | .obj fs => (fs.indexOf? name).bind vs.get?
  | _ => none

mutual
def valEq : Val → Val → Bool
  | .nil, .nil => true
  | .nil, _ => false
  | _, .nil => false
  | x, y =>
    tyEq x.typeOf y.typeOf &&
    match x, y with
    | .num a, .num b => numEQ a b
    | .bool a, .bool b => a == b
    | .str a, .str b => a == b
    | .time a, .time b => a.equal b
    | .list _ xs, .list _ ys => xs.length == ys.length && valEqList xs ys
    | .map _ xs, .map _ ys => xs.length == ys.length && valEqEntries xs ys
    | .obj tx xs, .obj ty ys =>
      xs.length == ys.length &&
      (match tx with
       | .obj fs => valEqFields fs xs ty ys
       | _ => false)
    | .fn _ _ _, .fn _ _ _ => false   -- pointer identity; distinct occurrences are never identical
    | .just _ a, .just _ b => valEq a b
    | .nothing _, .nothing _ => true
    | _, _ => false
def valEqList : ValList → ValList → Bool
  | .nil, .nil => true
  | .cons x xs, .cons y ys => valEq x y && valEqList xs ys
  | _, _ => false
/-- every entry of the left map is present on the right with an equal value -/
def valEqEntries : EntryList → EntryList → Bool
  | .nil, _ => true
  | .cons t k v es, ys =>
    (match ys.find? t k with
     | some w => valEq v w
     | none => false) && valEqEntries es ys
/-- field by field of the left object, looked up by name on the right -/
def valEqFields : FieldList → ValList → Ty → ValList → Bool
  | .cons n _ fs, .cons v vs, ty, ys =>
    (match objGet? ty ys n with
     | some w => valEq v w
     | none => false) && valEqFields fs vs ty ys
  | _, _, _, _ => true
end

end Yae
