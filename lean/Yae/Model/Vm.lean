/-
  `vm/`: opcodes, the bytecode compiler (`vm/compiler.go`, `vm/intrinsic.go`), the encoding
  (`vm/bin.go`), the switch-threaded machine (`vm/switchthread.go`) and an executable
  verifier for emitted code (property C11).
-/
import Yae.Model.Eval
namespace Yae.Vm
open Yae

/-- `vm/opcode.go`, in numeric order (tied to the regenerated opcode name list). -/
inductive Op where
  | NOP | RETURN | CONST | LOAD
  | ADD_NUM | ADD_NUM_NUM | ADD_STR_STR | SUB_NUM | SUB_NUM_NUM | SUB_TIME_TIME
  | MUL_NUM_NUM | DIV_NUM_NUM | MOD_NUM_NUM | EXP_NUM_NUM
  | ABS_NUM | CEIL_NUM | FLOOR_NUM | ROUND_NUM
  | MIN_NUM_NUM | MAX_NUM_NUM
  | EQ_NUM_NUM | EQ_BOOL_BOOL | EQ_STR_STR | EQ_TIME_TIME | EQ_LIST_LIST | EQ_MAP_MAP
  | NE_NUM_NUM | NE_BOOL_BOOL | NE_STR_STR | NE_TIME_TIME | NE_LIST_LIST | NE_MAP_MAP
  | LT_NUM_NUM | LT_TIME_TIME | LE_NUM_NUM | LE_TIME_TIME
  | GT_NUM_NUM | GT_TIME_TIME | GE_NUM_NUM | GE_TIME_TIME
  | NEW_LIST | NEW_MAP | NEW_OBJ
  | LIST_LOAD | MAP_LOAD | OBJ_LOAD
  | LEN_STR | LEN_LIST | LEN_MAP
  | STRTOTIME_STR
  | CALL_BY_VALUE | CALL_BY_NEED | DYNAMIC_CALL
  | GET_MAYBE
  | IF_TRUE | LOGICAL_NOT | JUMP
  deriving DecidableEq, Repr, Inhabited

def Op.all : List Op := [
  .NOP, .RETURN, .CONST, .LOAD,
  .ADD_NUM, .ADD_NUM_NUM, .ADD_STR_STR, .SUB_NUM, .SUB_NUM_NUM, .SUB_TIME_TIME,
  .MUL_NUM_NUM, .DIV_NUM_NUM, .MOD_NUM_NUM, .EXP_NUM_NUM,
  .ABS_NUM, .CEIL_NUM, .FLOOR_NUM, .ROUND_NUM,
  .MIN_NUM_NUM, .MAX_NUM_NUM,
  .EQ_NUM_NUM, .EQ_BOOL_BOOL, .EQ_STR_STR, .EQ_TIME_TIME, .EQ_LIST_LIST, .EQ_MAP_MAP,
  .NE_NUM_NUM, .NE_BOOL_BOOL, .NE_STR_STR, .NE_TIME_TIME, .NE_LIST_LIST, .NE_MAP_MAP,
  .LT_NUM_NUM, .LT_TIME_TIME, .LE_NUM_NUM, .LE_TIME_TIME,
  .GT_NUM_NUM, .GT_TIME_TIME, .GE_NUM_NUM, .GE_TIME_TIME,
  .NEW_LIST, .NEW_MAP, .NEW_OBJ,
  .LIST_LOAD, .MAP_LOAD, .OBJ_LOAD,
  .LEN_STR, .LEN_LIST, .LEN_MAP,
  .STRTOTIME_STR,
  .CALL_BY_VALUE, .CALL_BY_NEED, .DYNAMIC_CALL,
  .GET_MAYBE,
  .IF_TRUE, .LOGICAL_NOT, .JUMP]

def Op.name : Op → String
  | .NOP => "OP_NOP" | .RETURN => "OP_RETURN" | .CONST => "OP_CONST" | .LOAD => "OP_LOAD"
  | .ADD_NUM => "OP_ADD_NUM" | .ADD_NUM_NUM => "OP_ADD_NUM_NUM" | .ADD_STR_STR => "OP_ADD_STR_STR"
  | .SUB_NUM => "OP_SUB_NUM" | .SUB_NUM_NUM => "OP_SUB_NUM_NUM" | .SUB_TIME_TIME => "OP_SUB_TIME_TIME"
  | .MUL_NUM_NUM => "OP_MUL_NUM_NUM" | .DIV_NUM_NUM => "OP_DIV_NUM_NUM" | .MOD_NUM_NUM => "OP_MOD_NUM_NUM"
  | .EXP_NUM_NUM => "OP_EXP_NUM_NUM" | .ABS_NUM => "OP_ABS_NUM" | .CEIL_NUM => "OP_CEIL_NUM"
  | .FLOOR_NUM => "OP_FLOOR_NUM" | .ROUND_NUM => "OP_ROUND_NUM" | .MIN_NUM_NUM => "OP_MIN_NUM_NUM"
  | .MAX_NUM_NUM => "OP_MAX_NUM_NUM" | .EQ_NUM_NUM => "OP_EQ_NUM_NUM" | .EQ_BOOL_BOOL => "OP_EQ_BOOL_BOOL"
  | .EQ_STR_STR => "OP_EQ_STR_STR" | .EQ_TIME_TIME => "OP_EQ_TIME_TIME" | .EQ_LIST_LIST => "OP_EQ_LIST_LIST"
  | .EQ_MAP_MAP => "OP_EQ_MAP_MAP" | .NE_NUM_NUM => "OP_NE_NUM_NUM" | .NE_BOOL_BOOL => "OP_NE_BOOL_BOOL"
  | .NE_STR_STR => "OP_NE_STR_STR" | .NE_TIME_TIME => "OP_NE_TIME_TIME" | .NE_LIST_LIST => "OP_NE_LIST_LIST"
  | .NE_MAP_MAP => "OP_NE_MAP_MAP" | .LT_NUM_NUM => "OP_LT_NUM_NUM" | .LT_TIME_TIME => "OP_LT_TIME_TIME"
  | .LE_NUM_NUM => "OP_LE_NUM_NUM" | .LE_TIME_TIME => "OP_LE_TIME_TIME" | .GT_NUM_NUM => "OP_GT_NUM_NUM"
  | .GT_TIME_TIME => "OP_GT_TIME_TIME" | .GE_NUM_NUM => "OP_GE_NUM_NUM" | .GE_TIME_TIME => "OP_GE_TIME_TIME"
  | .NEW_LIST => "OP_NEW_LIST" | .NEW_MAP => "OP_NEW_MAP" | .NEW_OBJ => "OP_NEW_OBJ"
  | .LIST_LOAD => "OP_LIST_LOAD" | .MAP_LOAD => "OP_MAP_LOAD" | .OBJ_LOAD => "OP_OBJ_LOAD"
  | .LEN_STR => "OP_LEN_STR" | .LEN_LIST => "OP_LEN_LIST" | .LEN_MAP => "OP_LEN_MAP"
  | .STRTOTIME_STR => "OP_STRTOTIME_STR" | .CALL_BY_VALUE => "OP_CALL_BY_VALUE"
  | .CALL_BY_NEED => "OP_CALL_BY_NEED" | .DYNAMIC_CALL => "OP_DYNAMIC_CALL" | .GET_MAYBE => "OP_GET_MAYBE"
  | .IF_TRUE => "OP_IF_TRUE" | .LOGICAL_NOT => "OP_LOGICAL_NOT" | .JUMP => "OP_JUMP"

def Op.code (o : Op) : Nat := (Op.all.findIdx? (· == o)).getD 0
def Op.ofCode (n : Nat) : Option Op := Op.all[n]?

/-- call-by-value intrinsics: the built-in whose call is replaced by an opcode -/
def intrinsicByValue : BId → Option Op
  | .EQ_BOOL_BOOL => some .EQ_BOOL_BOOL | .EQ_NUM_NUM => some .EQ_NUM_NUM | .EQ_STR_STR => some .EQ_STR_STR
  | .EQ_TIME_TIME => some .EQ_TIME_TIME | .EQ_LIST_LIST => some .EQ_LIST_LIST | .EQ_MAP_MAP => some .EQ_MAP_MAP
  | .NE_BOOL_BOOL => some .NE_BOOL_BOOL | .NE_NUM_NUM => some .NE_NUM_NUM | .NE_STR_STR => some .NE_STR_STR
  | .NE_TIME_TIME => some .NE_TIME_TIME | .NE_LIST_LIST => some .NE_LIST_LIST | .NE_MAP_MAP => some .NE_MAP_MAP
  | .LT_NUM_NUM => some .LT_NUM_NUM | .LT_TIME_TIME => some .LT_TIME_TIME | .LE_NUM_NUM => some .LE_NUM_NUM
  | .LE_TIME_TIME => some .LE_TIME_TIME | .GT_NUM_NUM => some .GT_NUM_NUM | .GT_TIME_TIME => some .GT_TIME_TIME
  | .GE_NUM_NUM => some .GE_NUM_NUM | .GE_TIME_TIME => some .GE_TIME_TIME
  | .ADD_NUM => some .ADD_NUM | .ADD_NUM_NUM => some .ADD_NUM_NUM | .ADD_STR_STR => some .ADD_STR_STR
  | .SUB_NUM => some .SUB_NUM | .SUB_NUM_NUM => some .SUB_NUM_NUM | .SUB_TIME_TIME => some .SUB_TIME_TIME
  | .MUL_NUM_NUM => some .MUL_NUM_NUM | .DIV_NUM_NUM => some .DIV_NUM_NUM | .MOD_NUM_NUM => some .MOD_NUM_NUM
  | .EXP_NUM_NUM => some .EXP_NUM_NUM | .MIN_NUM_NUM => some .MIN_NUM_NUM | .MAX_NUM_NUM => some .MAX_NUM_NUM
  | .ABS_NUM => some .ABS_NUM | .CEIL_NUM => some .CEIL_NUM | .FLOOR_NUM => some .FLOOR_NUM
  | .ROUND_NUM => some .ROUND_NUM | .LEN_STR => some .LEN_STR | .LEN_LIST => some .LEN_LIST
  | .LEN_MAP => some .LEN_MAP | .GET_MAYBE => some .GET_MAYBE | .STRTOTIME_STR => some .STRTOTIME_STR
  | _ => none

/-- the built-in an intrinsic opcode stands for, with its arity -/
def Op.builtin? (o : Op) : Option (BId × Nat) :=
  (builtins.find? fun b => intrinsicByValue b.id == some o).map fun b =>
    (b.id, match b.ty with | .fn _ ps _ => ps.length | _ => 0)

/-- call-by-need intrinsics (`if`, `&&`, `||` become jumps, `!` an opcode) -/
def isCondIntrinsic : BId → Bool
  | .IF_BOOL_ANY_ANY | .LOGIC_AND_BOOL_BOOL | .LOGIC_OR_BOOL_BOOL | .LOGIC_NOT_BOOL => true
  | _ => false

/-! ### code and constants -/

abbrev Code := Array UInt8

inductive Const where
  | val (v : Val)                       -- literal
  | ty (t : Ty)                         -- type of a list / map / object literal
  | name (s : String)                   -- variable or field name
  | fn (d : FunDecl)                    -- callee of CALL_BY_VALUE / CALL_BY_NEED
  | thunk (body : Code) (ret : Ty)      -- deferred argument: its own code, same constant pool
  deriving Inhabited

def Const.kind : Const → String
  | .val _ => "val" | .ty _ => "type" | .name _ => "name" | .fn _ => "fun" | .thunk _ _ => "thunk"

abbrev Pool := Array Const

inductive CErr where
  | overflow            -- encoding capacity exceeded
  | notDefined          -- callee missing from the run-time table
  | unreachable (what : String)
  deriving Repr, DecidableEq

abbrev CM := StateT (Code × Pool) (Except CErr)

def emitByte (b : Nat) : CM Unit := modify fun (c, p) => (c.push (UInt8.ofNat b), p)
def emitOp (o : Op) : CM Unit := emitByte o.code
def emitU8 (n : Nat) : CM Unit := do
  if n > 255 then throw .overflow
  emitByte n
def emitU16 (n : Nat) : CM Unit := do
  if n > 65535 then throw .overflow
  emitByte (n / 256); emitByte (n % 256)
def emitConst (c : Const) : CM Unit := do
  let (_, p) ← get
  modify fun (code, p) => (code, p.push c)
  emitU16 p.size
def here : CM Nat := do let (c, _) ← get; pure c.size
/-- reserve two bytes, to be patched with a jump target -/
def placeholder : CM Nat := do let off ← here; emitU16 0; pure off
def patch (off target : Nat) : CM Unit := do
  if target > 65535 then throw .overflow
  modify fun (c, p) => ((c.set! off (UInt8.ofNat (target / 256))).set! (off + 1) (UInt8.ofNat (target % 256)), p)

/- fuel = depth of the expression (each recursive call goes to a sub-expression) -/
mutual
def compileE (fuel : Nat) (funs : List FunDecl) (e : Expr) : CM Unit :=
  match fuel with
  | 0 => throw (.unreachable "fuel")
  | fuel+1 =>
  match e with
  | .str _ v => do emitOp .CONST; emitConst (.val (.str v))
  | .num _ v => do emitOp .CONST; emitConst (.val (.num v))
  | .time _ v => do emitOp .CONST; emitConst (.val (.time (TimeV.unix v)))
  | .bool _ v => do emitOp .CONST; emitConst (.val (.bool v))
  | .list _ es ty => do
    compileList fuel funs es
    emitOp .NEW_LIST
    emitConst (match ty with | some t => .ty t | none => .name "<nil>")
    emitU16 es.length
  | .map _ ps ty => do
    compilePairs fuel funs ps
    emitOp .NEW_MAP
    emitConst (match ty with | some t => .ty t | none => .name "<nil>")
    emitU16 ps.length
  | .obj _ fs ty => do
    compileFields fuel funs fs
    emitOp .NEW_OBJ
    emitConst (match ty with | some t => .ty t | none => .name "<nil>")
  | .ident _ name => do emitOp .LOAD; emitConst (.name name)
  | .call _ _ callee args _ resolved index =>
    if resolved == "" then do
      compileE fuel funs callee
      compileList fuel funs args
      emitOp .DYNAMIC_CALL
      emitU8 args.length
    else
      match resolveStatic funs resolved index with
      | none => throw .notDefined
      | some d =>
        let bid : Option BId := match d.ref with
          | .builtin i => (builtins[i]?).map (·.id)
          | _ => none
        match bid, args with
        | some .IF_BOOL_ANY_ANY, .cons c (.cons t (.cons f .nil)) => compileCond fuel funs c t f
        | some .LOGIC_AND_BOOL_BOOL, .cons x (.cons y .nil) =>
            compileCond fuel funs x y (.bool Pos.unknown false)
        | some .LOGIC_OR_BOOL_BOOL, .cons x (.cons y .nil) =>
            compileCond fuel funs x (.bool Pos.unknown true) y
        | some .LOGIC_NOT_BOOL, .cons x _ => do
            compileE fuel funs x
            emitOp .LOGICAL_NOT
        | _, _ => do
          if (bid.map isCondIntrinsic).getD false then throw (.unreachable "intrinsic-args")
          let params : TyList := match d.ty with | .fn _ ps _ => ps | _ => .nil
          if d.isLazy then compileThunks fuel funs args params
          else compileList fuel funs args
          match bid.bind intrinsicByValue with
          | some op => emitOp op
          | none => do
            emitOp (if d.isLazy then .CALL_BY_NEED else .CALL_BY_VALUE)
            emitConst (.fn d)
            emitU8 args.length
  | .subscript _ _ var idx varTy => do
    compileE fuel funs var
    compileE fuel funs idx
    match varTy with
    | some (.list _) => emitOp .LIST_LOAD
    | some (.map _ _) => emitOp .MAP_LOAD
    | _ => throw (.unreachable "subscript")
  | .member _ _ obj field _ _ _ => do
    compileE fuel funs obj
    emitOp .OBJ_LOAD
    emitConst (.name field)
  | _ => throw (.unreachable "sugar")
def compileList (fuel : Nat) (funs : List FunDecl) : ExprList → CM Unit
  | .nil => pure ()
  | .cons e es => do compileE fuel funs e; compileList fuel funs es
def compilePairs (fuel : Nat) (funs : List FunDecl) : PairList → CM Unit
  | .nil => pure ()
  | .cons k v ps => do compileE fuel funs k; compileE fuel funs v; compilePairs fuel funs ps
def compileFields (fuel : Nat) (funs : List FunDecl) : FieldEList → CM Unit
  | .nil => pure ()
  | .cons _ e fs => do compileE fuel funs e; compileFields fuel funs fs
/-- lazy call: every argument becomes a constant holding its own compiled body -/
def compileThunks (fuel : Nat) (funs : List FunDecl) : ExprList → TyList → CM Unit
  | .nil, _ => pure ()
  | .cons e es, ps => do
    emitOp .CONST
    -- c.Compile(arg, env): a fresh code buffer sharing the constant pool
    let (code, pool) ← get
    set ((#[] : Code), pool)
    compileE fuel funs e
    emitOp .RETURN
    let (body, pool') ← get
    set (code, pool')
    let (pt, rest) := match ps with
      | .cons p r => (p, r)
      | .nil => (Ty.bot, TyList.nil)
    emitConst (.thunk body pt)
    compileThunks fuel funs es rest
def compileCond (fuel : Nat) (funs : List FunDecl) (c t f : Expr) : CM Unit := do
  compileE fuel funs c
  emitOp .IF_TRUE
  let pFalse ← placeholder
  compileE fuel funs t
  emitOp .JUMP
  let pNext ← placeholder
  let branchFalse ← here
  compileE fuel funs f
  let next ← here
  patch pFalse branchFalse
  patch pNext next
end

/-- `Compiler.Compile`: the code of the expression followed by `RETURN`, and the constant pool. -/
def compile (funs : List FunDecl) (e : Expr) : Except CErr (Code × Pool) := do
  let ((), (code, pool)) ← (do compileE (e.depth + 1) funs e; emitOp .RETURN : CM Unit).run (#[], #[])
  pure (code, pool)

/-! ### decoding -/

inductive Instr where
  | simple (op : Op)                       -- no operands
  | const (op : Op) (idx : Nat)            -- CONST, LOAD, NEW_OBJ, OBJ_LOAD: one constant index
  | newColl (op : Op) (idx : Nat) (n : Nat) -- NEW_LIST / NEW_MAP: type constant and size
  | jump (op : Op) (target : Nat)          -- IF_TRUE / JUMP
  | call (op : Op) (idx : Nat) (argc : Nat) -- CALL_BY_VALUE / CALL_BY_NEED
  | dyn (argc : Nat)                       -- DYNAMIC_CALL
  deriving Repr, Inhabited

def u16At (c : Code) (i : Nat) : Option Nat := do
  let hi ← c[i]?
  let lo ← c[i+1]?
  pure (hi.toNat * 256 + lo.toNat)

/-- decode the instruction at byte offset `pc`: the instruction and the offset of the next one -/
def decodeAt (c : Code) (pc : Nat) : Option (Instr × Nat) := do
  let b ← c[pc]?
  let op ← Op.ofCode b.toNat
  match op with
  | .CONST | .LOAD | .NEW_OBJ | .OBJ_LOAD => do
    let i ← u16At c (pc+1); pure (.const op i, pc+3)
  | .NEW_LIST | .NEW_MAP => do
    let i ← u16At c (pc+1); let n ← u16At c (pc+3); pure (.newColl op i n, pc+5)
  | .IF_TRUE | .JUMP => do
    let t ← u16At c (pc+1); pure (.jump op t, pc+3)
  | .CALL_BY_VALUE | .CALL_BY_NEED => do
    let i ← u16At c (pc+1); let a ← c[pc+3]?; pure (.call op i a.toNat, pc+4)
  | .DYNAMIC_CALL => do
    let a ← c[pc+1]?; pure (.dyn a.toNat, pc+2)
  | op => pure (.simple op, pc+1)

/-! ### the machine -/

/-- a stack slot: a value, or (between `CONST` and `CALL_BY_NEED`) a deferred argument -/
inductive Slot where
  | val (v : Val)
  | thunk (body : Code) (ret : Ty)
  deriving Inhabited

open EvalM

def popVal (st : List Slot) : EvalM (Val × List Slot) :=
  match st with
  | .val v :: rest => pure (v, rest)
  | .thunk _ _ :: _ => fail (.stuck "cast:thunk-as-value")
  | [] => fail (.stuck "stack-underflow")

def popN (n : Nat) (st : List Slot) (acc : List Val) : EvalM (List Val × List Slot) :=
  match n with
  | 0 => pure (acc, st)
  | n+1 => do
    let (v, st) ← popVal st
    popN n st (v :: acc)

def popThunks (n : Nat) (st : List Slot) (acc : List (Code × Ty)) : EvalM (List (Code × Ty) × List Slot) :=
  match n with
  | 0 => pure (acc, st)
  | n+1 =>
    match st with
    | .thunk b r :: rest => popThunks n rest ((b, r) :: acc)
    | .val _ :: _ => fail (.stuck "cast:value-as-thunk")
    | [] => fail (.stuck "stack-underflow")

def mapOfPairs (ty : Ty) : List Val → EntryList → EvalM EntryList
  | k :: v :: rest, acc =>
    match k.key? with
    | some (t, ks) => mapOfPairs ty rest (acc.insert t ks v)
    | none => fail (.stuck "invalid map key type")
  | _, acc => pure acc

/-- one call of a strict function value -/
def callStrict (ext : Externs) (d : FunDecl) (args : List Val) : EvalM Val :=
  match d.ref with
  | .builtin i =>
    match builtins[i]? with
    | some b =>
      if b.isLazy then fail (.stuck "lazy-builtin-called-strictly")
      else do
        let (v, evs) ← lift (applyBuiltin ext b.id args)
        emitAll evs
        pure v
    | none => fail (.stuck "builtin-index")
  | .host name beh => hostStrict name beh args

mutual
/-- `switchThreading`: run from `pc` until `RETURN`.  Fuel counts instructions (thunk bodies
included); `C11` shows the code length suffices. -/
def run (fuel : Nat) (env : REnv) (pool : Pool) (code : Code) (pc : Nat) (st : List Slot) : EvalM Val :=
  match fuel with
  | 0 => fail .fuel
  | fuel+1 =>
  match decodeAt code pc with
  | none => fail (.stuck "bad-opcode-or-truncated")
  | some (ins, next) =>
    match ins with
    | .simple .RETURN => do let (v, _) ← popVal st; pure v
    | .simple .NOP => run fuel env pool code next st
    | .simple .LOGICAL_NOT => do
      let (v, st) ← popVal st
      match v with
      | .bool b => run fuel env pool code next (.val (.bool !b) :: st)
      | _ => fail (.stuck "cast:bool")
    | .simple .LIST_LOAD => do
      let (i, st) ← popVal st
      let (l, st) ← popVal st
      match i, l with
      | .num f, .list _ vs =>
        let n := Num.toInt f
        if n < 0 || n ≥ vs.length then fail .indexOutOfRange
        else match vs.get? n.toNat with
          | some v => run fuel env pool code next (.val v :: st)
          | none => fail .indexOutOfRange
      | _, _ => fail (.stuck "cast:list-load")
    | .simple .MAP_LOAD => do
      let (k, st) ← popVal st
      let (m, st) ← popVal st
      match m with
      | .map _ es =>
        match k.key? with
        | some (t, ks) =>
          match es.find? t ks with
          | some v => run fuel env pool code next (.val v :: st)
          | none => fail .missingKey
        | none => fail (.stuck "invalid map key type")
      | _ => fail (.stuck "cast:map")
    | .simple op =>
      -- intrinsic opcodes: the built-in they stand for, applied to the popped operands
      match op.builtin? with
      | some (bid, arity) => do
        let (args, st) ← popN arity st []
        let (v, evs) ← lift (applyBuiltin env.ext bid args)
        emitAll evs
        run fuel env pool code next (.val v :: st)
      | none => fail (.stuck "operand-less form of an opcode with operands")
    | .const .CONST i =>
      match pool[i]? with
      | some (.val v) => run fuel env pool code next (.val v :: st)
      | some (.thunk b r) => run fuel env pool code next (.thunk b r :: st)
      | _ => fail (.stuck "const-kind")
    | .const .LOAD i =>
      match pool[i]? with
      | some (.name x) =>
        run fuel env pool code next (.val ((env.lookupVar x).getD .nil) :: st)
      | _ => fail (.stuck "const-kind")
    | .const .NEW_OBJ i =>
      match pool[i]? with
      | some (.ty (.obj fs)) => do
        let (vs, st) ← popN fs.length st []
        run fuel env pool code next (.val (.obj (.obj fs) (ValList.ofList vs)) :: st)
      | _ => fail (.stuck "const-kind")
    | .const .OBJ_LOAD i =>
      match pool[i]? with
      | some (.name f) => do
        let (o, st) ← popVal st
        match o with
        | .obj ty vs =>
          match objGet? ty vs f with
          | some v => run fuel env pool code next (.val v :: st)
          | none => fail (.stuck "member-missing")
        | _ => fail (.stuck "cast:obj")
      | _ => fail (.stuck "const-kind")
    | .const _ _ => fail (.stuck "decode")
    | .newColl .NEW_LIST i n =>
      match pool[i]? with
      | some (.ty t) => do
        let (vs, st) ← popN n st []
        run fuel env pool code next (.val (.list t (ValList.ofList vs)) :: st)
      | _ => fail (.stuck "const-kind")
    | .newColl .NEW_MAP i n =>
      match pool[i]? with
      | some (.ty t) => do
        let (kvs, st) ← popN (2 * n) st []
        let es ← mapOfPairs t kvs .nil
        run fuel env pool code next (.val (.map t es) :: st)
      | _ => fail (.stuck "const-kind")
    | .newColl _ _ _ => fail (.stuck "decode")
    | .jump .JUMP t => run fuel env pool code t st
    | .jump .IF_TRUE t => do
      let (c, st) ← popVal st
      match c with
      | .bool true => run fuel env pool code next st
      | .bool false => run fuel env pool code t st
      | _ => fail (.stuck "cast:bool")
    | .jump _ _ => fail (.stuck "decode")
    | .call .CALL_BY_VALUE i argc =>
      match pool[i]? with
      | some (.fn d) => do
        let (args, st) ← popN argc st []
        let v ← callStrict env.ext d args
        run fuel env pool code next (.val v :: st)
      | _ => fail (.stuck "const-kind")
    | .call .CALL_BY_NEED i argc =>
      match pool[i]? with
      | some (.fn d) => do
        let (ths, st) ← popThunks argc st []
        let v ← callLazy fuel env pool d ths
        run fuel env pool code next (.val v :: st)
      | _ => fail (.stuck "const-kind")
    | .call _ _ _ => fail (.stuck "decode")
    | .dyn argc => do
      let (args, st) ← popN argc st []
      let (f, st) ← popVal st
      match f with
      | .fn ty ref isLazy =>
        if isLazy then fail (.stuck "dynamic call of a lazy function")
        else do
          let v ← callStrict env.ext { ty := ty, ref := ref, isLazy := false } args
          run fuel env pool code next (.val v :: st)
      | _ => fail (.stuck "cast:fun")
/-- a lazy function applied to thunks: each forcing runs the thunk's body on a fresh stack -/
def callLazy (fuel : Nat) (env : REnv) (pool : Pool) (d : FunDecl) (ths : List (Code × Ty)) : EvalM Val :=
  match d.ref with
  | .host name (.force order) => do
    emit (.call name [])
    forceAll fuel env pool ths order none
  | .builtin i =>
    -- a lazy built-in reached through CALL_BY_NEED (only when it is not an intrinsic)
    match ((builtins[i]?).map (·.id) : Option BId), ths with
    | some BId.IF_BOOL_ANY_ANY, [(c, _), (t, _), (f, _)] => do
      match ← run fuel env pool c 0 [] with
      | .bool true => run fuel env pool t 0 []
      | .bool false => run fuel env pool f 0 []
      | _ => fail (.stuck "cast:bool")
    | _, _ => fail (.stuck "lazy-builtin")
  | _ => fail (.stuck "host-strict-as-lazy")
def forceAll (fuel : Nat) (env : REnv) (pool : Pool) (ths : List (Code × Ty)) : List Nat → Option Val → EvalM Val
  | [], some v => pure v
  | [], none => fail (.stuck "lazy-host-forced-nothing")
  | i :: rest, _ =>
    match ths[i]? with
    | some (body, _) => do
      let v ← run fuel env pool body 0 []
      forceAll fuel env pool ths rest (some v)
    | none => fail (.stuck "host-arg")
end

def totalCodeSize (code : Code) (pool : Pool) : Nat :=
  code.size + pool.foldl (fun n c => match c with | .thunk b _ => n + b.size | _ => n) 0

/-- run compiled code from an empty log; fuel generous (see `C11` for the real bound) -/
def runVm (env : REnv) (code : Code) (pool : Pool) : Except Fail Val × List Event :=
  let (r, log) := run (1000 * (totalCodeSize code pool + 1)) env pool code 0 [] []
  (r, log.reverse)

/-! ### the verifier (C11) -/

/-- stack effect (pops, pushes) of an instruction given the constant pool; `none` = ill-formed -/
def effect (pool : Pool) : Instr → Option (Nat × Nat)
  | .simple .RETURN => some (1, 0)
  | .simple .NOP => some (0, 0)
  | .simple .LOGICAL_NOT => some (1, 1)
  | .simple .LIST_LOAD => some (2, 1)
  | .simple .MAP_LOAD => some (2, 1)
  | .simple op => (op.builtin?).map fun (_, a) => (a, 1)
  | .const .CONST i => match pool[i]? with
    | some (.val _) => some (0, 1) | some (.thunk _ _) => some (0, 1) | _ => none
  | .const .LOAD i => match pool[i]? with | some (.name _) => some (0, 1) | _ => none
  | .const .NEW_OBJ i => match pool[i]? with | some (.ty (.obj fs)) => some (fs.length, 1) | _ => none
  | .const .OBJ_LOAD i => match pool[i]? with | some (.name _) => some (1, 1) | _ => none
  | .const _ _ => none
  | .newColl .NEW_LIST i n => match pool[i]? with | some (.ty (.list _)) => some (n, 1) | _ => none
  | .newColl .NEW_MAP i n => match pool[i]? with | some (.ty (.map _ _)) => some (2 * n, 1) | _ => none
  | .newColl _ _ _ => none
  | .jump .JUMP _ => some (0, 0)
  | .jump .IF_TRUE _ => some (1, 0)
  | .jump _ _ => none
  | .call .CALL_BY_VALUE i argc => match pool[i]? with
    | some (.fn d) => if d.isLazy then none else some (argc, 1) | _ => none
  | .call .CALL_BY_NEED i argc => match pool[i]? with
    | some (.fn d) => if d.isLazy then some (argc, 1) else none | _ => none
  | .call _ _ _ => none
  | .dyn argc => some (argc + 1, 1)

/-- One forward pass (all jumps go forward): `depth` is the stack depth on the fall-through
path (`none` right after an unconditional jump), `pending` the depths promised to jump targets. -/
def verifyFrom (fuel : Nat) (pool : Pool) (code : Code) (pc : Nat) (depth : Option Nat)
    (pending : List (Nat × Nat)) : Bool :=
  match fuel with
  | 0 => false
  | fuel+1 =>
    -- merge what jumps promised for this offset
    let here := pending.filter (·.1 == pc)
    let rest := pending.filter (·.1 != pc)
    let depth? : Option (Option Nat) :=
      here.foldl (fun acc (_, d) =>
        match acc with
        | none => none
        | some none => some (some d)
        | some (some d') => if d == d' then some (some d') else none) (some depth)
    match depth? with
    | none => false                       -- two paths disagree on the depth
    | some none => false                  -- unreachable code
    | some (some d) =>
      match decodeAt code pc with
      | none => false
      | some (ins, next) =>
        match effect pool ins with
        | none => false
        | some (pops, pushes) =>
          if d < pops then false else
          let d' := d - pops + pushes
          match ins with
          | .simple .RETURN => d == 1 && next == code.size && rest.isEmpty
          | .jump .JUMP t => t > pc && t < code.size && verifyFrom fuel pool code next none ((t, d') :: rest)
          | .jump .IF_TRUE t => t > pc && t < code.size && verifyFrom fuel pool code next (some d') ((t, d') :: rest)
          | _ => next < code.size && verifyFrom fuel pool code next (some d') rest

def verifyUnit (pool : Pool) (code : Code) : Bool :=
  verifyFrom (code.size + 1) pool code 0 (some 0) []

/-- the main code and every thunk body in the pool -/
def verify (code : Code) (pool : Pool) : Bool :=
  verifyUnit pool code && pool.all fun c => match c with
    | .thunk b _ => verifyUnit pool b
    | _ => true

end Yae.Vm
