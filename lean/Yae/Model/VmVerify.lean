/-
  The bytecode verifier of property C11, in the form whose soundness is proved in
  `Yae/Proofs/VmVerify.lean`.  It is our own artefact (not a model of Go code); it is tied to
  the implementation by running it on the bytes the Go compiler emits (`vm` stream).

  Compared with the first verifier in `Yae/Model/Vm.lean` it is stricter in two ways, both
  needed for the "consequently" clause of C11:
  * the abstract state is not only the stack depth but the *kind* of every slot (value or
    deferred argument), so that `CALL_BY_NEED` finds deferred arguments and everything else
    finds values;
  * the body of the deferred argument stored at constant index `k` is verified against the
    constants `0 … k-1` only, so that forcing cannot recurse (the compiler allocates the
    constants of a body before the constant holding the body).
-/
import Yae.Model.Vm
namespace Yae.VmVerify
open Yae Yae.Vm

/-- abstract stack: the kind of every slot, top first (`true` = deferred argument) -/
abbrev AStack := List Bool

/-- does the instruction pop deferred arguments (rather than values)? -/
def popKind : Instr → Bool
  | .call .CALL_BY_NEED _ _ => true
  | _ => false

/-- does the instruction push a deferred argument (rather than a value)? -/
def pushKind (pool : Pool) : Instr → Bool
  | .const .CONST i => match pool[i]? with
    | some (.thunk _ _) => true
    | _ => false
  | _ => false

/-- abstract execution of one instruction: operands and constant kinds are checked by
`Vm.effect`; the popped slots must all be present and of the kind the instruction expects -/
def stepA (pool : Pool) (ins : Instr) (σ : AStack) : Option AStack :=
  match effect pool ins with
  | none => none
  | some (pops, pushes) =>
    if pops ≤ σ.length && (σ.take pops).all (· == popKind ins) then
      some (List.replicate pushes (pushKind pool ins) ++ σ.drop pops)
    else none

/-- merge the fall-through state with what jumps promised for offset `pc` -/
def mergeAt (pc : Nat) (cur : Option AStack) (pending : List (Nat × AStack)) : Option AStack :=
  match cur with
  | some σ => if pending.all (fun p => p.1 != pc || p.2 == σ) then some σ else none
  | none =>
    match pending.find? (·.1 == pc) with
    | some p => if pending.all (fun q => q.1 != pc || q.2 == p.2) then some p.2 else none
    | none => none                              -- unreachable code

/-- One forward pass (all jumps go forward): `cur` is the abstract stack on the fall-through
path (`none` right after an unconditional jump), `pending` the stacks promised to jump
targets not yet reached.  Fuel: one unit per instruction. -/
def verifyFrom (fuel : Nat) (pool : Pool) (code : Code) (pc : Nat) (cur : Option AStack)
    (pending : List (Nat × AStack)) : Bool :=
  match fuel with
  | 0 => false
  | fuel+1 =>
    match mergeAt pc cur pending with
    | none => false
    | some σ =>
      let rest := pending.filter (·.1 != pc)
      match decodeAt code pc with
      | none => false
      | some (ins, next) =>
        match stepA pool ins σ with
        | none => false
        | some σ' =>
          match ins with
          | .simple .RETURN => σ == [false] && next == code.size && rest.isEmpty
          | .jump .JUMP t =>
            decide (pc < t) && decide (t < code.size) && decide (next < code.size)
              && verifyFrom fuel pool code next none ((t, σ') :: rest)
          | .jump .IF_TRUE t =>
            decide (pc < t) && decide (t < code.size) && decide (next < code.size)
              && verifyFrom fuel pool code next (some σ') ((t, σ') :: rest)
          | _ => decide (next < code.size) && verifyFrom fuel pool code next (some σ') rest

def verifyUnit (pool : Pool) (code : Code) : Bool :=
  verifyFrom (code.size + 1) pool code 0 (some []) []

/-- the main code against the whole pool, and every deferred body against the constants
allocated before it -/
def verify (code : Code) (pool : Pool) : Bool :=
  verifyUnit pool code && (List.range pool.size).all fun k =>
    match pool[k]? with
    | some (.thunk b _) => verifyUnit (pool.extract 0 k) b
    | _ => true

/-- complete decoding from `pc` up to the end of the code: the instructions with their offsets -/
def decodeFrom (fuel : Nat) (code : Code) (pc : Nat) : Option (List (Nat × Instr)) :=
  if pc = code.size then some [] else
  match fuel with
  | 0 => none
  | fuel+1 =>
    match decodeAt code pc with
    | none => none
    | some (ins, next) => (decodeFrom fuel code next).map ((pc, ins) :: ·)

def decodeAll (code : Code) : Option (List (Nat × Instr)) := decodeFrom (code.size + 1) code 0

end Yae.VmVerify
