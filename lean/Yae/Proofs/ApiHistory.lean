/-
  Lemmas for `Yae/Props/Api.lean`: histories of API calls, from the left.

  * `run_snoc`, `run_take`, `run_out`: the `i`-th output of `e.run ops` is the output of the step
    `ops[i]` on the engine and the outputs that `ops.take i` leaves behind.
  * `regs`: the functions a list of calls registers; `Inv`: what holds of the engine and of every
    Callable of the history after any prefix of a history whose registrations respect their
    signatures (`Sound.declOK`) and whose compile-time environments hold well-formed, variable-free
    types:  the engine's table is `FunsOK`; every Callable was compiled by an engine with a `FunsOK`
    table from the `compile` call at its step; and the engine's table is the Callable's table
    followed by the functions registered SINCE.
-/
import Yae.Proofs.EngineHistory
import Yae.Proofs.EngineCheck
import Yae.Spec.WF
namespace Yae.Api
open Yae Yae.Facade Yae.EngineHistory Yae.EngineCheck

/-! ### histories from the left -/

theorem runFrom_append (e : Engine) (outs : List Out) (a b : List Op) :
    e.runFrom outs (a ++ b) = (e.runFrom outs a).1.runFrom (e.runFrom outs a).2 b := by
  induction a generalizing e outs with
  | nil => rfl
  | cons op a ih =>
    simp only [List.cons_append, Engine.runFrom]
    exact ih _ _

theorem runFrom_outs (e : Engine) (outs : List Out) (ops : List Op) :
    ∃ t, (e.runFrom outs ops).2 = outs ++ t ∧ t.length = ops.length := by
  induction ops generalizing e outs with
  | nil => exact ⟨[], by simp [Engine.runFrom], rfl⟩
  | cons op ops ih =>
    obtain ⟨t, ht, hl⟩ := ih (e.step outs op).1 (outs ++ [(e.step outs op).2])
    refine ⟨(e.step outs op).2 :: t, ?_, by simp [hl]⟩
    rw [Engine.runFrom, ht]
    simp

theorem run_length (e : Engine) (ops : List Op) : (e.run ops).2.length = ops.length := by
  obtain ⟨t, ht, hl⟩ := runFrom_outs e [] ops
  unfold Engine.run
  rw [ht]
  simpa using hl

/-- one more call at the end -/
theorem run_snoc (e : Engine) (pre : List Op) (op : Op) :
    e.run (pre ++ [op]) =
      (((e.run pre).1.step (e.run pre).2 op).1,
        (e.run pre).2 ++ [((e.run pre).1.step (e.run pre).2 op).2]) := by
  unfold Engine.run
  rw [runFrom_append]
  rfl

/-- the outputs of a prefix are a prefix of the outputs -/
theorem run_take (e : Engine) (ops : List Op) (i : Nat) :
    (e.run (ops.take i)).2 = (e.run ops).2.take i := by
  rcases Nat.le_total i ops.length with hi | hi
  · have hsplit : e.run ops =
        (e.run (ops.take i)).1.runFrom (e.run (ops.take i)).2 (ops.drop i) := by
      have := runFrom_append e [] (ops.take i) (ops.drop i)
      rw [List.take_append_drop] at this
      exact this
    obtain ⟨t, ht, _⟩ := runFrom_outs (e.run (ops.take i)).1 (e.run (ops.take i)).2 (ops.drop i)
    have hlen : (e.run (ops.take i)).2.length = i := by
      rw [run_length, List.length_take]; omega
    have h2 : (e.run ops).2 = (e.run (ops.take i)).2 ++ t := by rw [hsplit]; exact ht
    rw [h2, List.take_left' hlen]
  · rw [List.take_of_length_le hi, List.take_of_length_le (by rw [run_length]; exact hi)]

/-- the `i`-th output is the output of the `i`-th call on what the calls before it left behind -/
theorem run_out {e : Engine} {ops : List Op} {i : Nat} {out : Out}
    (h : (e.run ops).2[i]? = some out) :
    ∃ op, ops[i]? = some op ∧
      out = ((e.run (ops.take i)).1.step (e.run (ops.take i)).2 op).2 := by
  have hi : i < ops.length := by
    rcases Nat.lt_or_ge i ops.length with hi | hi
    · exact hi
    · rw [List.getElem?_eq_none (by rw [run_length]; exact hi)] at h; cases h
  refine ⟨ops[i], List.getElem?_eq_getElem hi, ?_⟩
  have h1 : ops.take (i+1) = ops.take i ++ [ops[i]] := by
    rw [List.take_add_one, List.getElem?_eq_getElem hi]; rfl
  have h2 := run_take e ops (i+1)
  rw [h1, run_snoc] at h2
  simp only at h2
  have hlen : (e.run (ops.take i)).2.length = i := by
    rw [run_length, List.length_take]; omega
  have h3 : ((e.run ops).2.take (i+1))[i]? = some out := by
    rw [List.getElem?_take_of_lt (by omega)]; exact h
  rw [← h2, List.getElem?_append_right (by omega), hlen, Nat.sub_self] at h3
  simpa using h3.symm

/-! ### what a history registers -/

/-- the functions a list of calls registers, in order (`RegisterFun` refuses what is not of a
function type: `Engine.registerFun`) -/
def regs : List Op → List FunDecl
  | [] => []
  | .registerFun d :: rest => (match d.ty with | .fn _ _ _ => [d] | _ => []) ++ regs rest
  | _ :: rest => regs rest

theorem regs_append (a b : List Op) : regs (a ++ b) = regs a ++ regs b := by
  induction a with
  | nil => rfl
  | cons op a ih =>
    cases op <;> simp [regs, ih]

/-- the functions registered strictly after call `k` and before call `i` -/
def regsBetween (ops : List Op) (k i : Nat) : List FunDecl := regs ((ops.take i).drop (k+1))

theorem registerFun_funs (e : Engine) (d : FunDecl) :
    (e.registerFun d).funs = e.funs ++ regs [.registerFun d] := by
  cases h : d.ty <;> simp [Engine.registerFun, regs, h]

theorem registerFun_inited (e : Engine) (d : FunDecl) : (e.registerFun d).inited = e.inited := by
  unfold Engine.registerFun
  split <;> rfl

/-! ### the invariant -/

/-- the built-ins, as the engine registers them, respect their signatures -/
theorem builtinDecls_funsOK : Sound.FunsOK builtinDecls := by
  intro d hd
  have : builtinDecls.all Sound.declOK = true := by decide
  exact List.all_eq_true.1 this d hd

theorem funsOK_append {a b : List FunDecl} (ha : Sound.FunsOK a) (hb : Sound.FunsOK b) :
    Sound.FunsOK (a ++ b) := by
  intro d hd
  rcases List.mem_append.1 hd with h | h
  · exact ha d h
  · exact hb d h

theorem funsOK_init {e : Engine} (h : Sound.FunsOK e.funs) : Sound.FunsOK e.init.funs := by
  rw [init_funs]
  refine funsOK_append h ?_
  split
  · exact builtinDecls_funsOK
  · intro d hd; cases hd

/-- the compile-time variable types `run_total` / `EnvOK` ask for -/
def TenvOK (tenv : List (String × Ty)) : Prop := ∀ p ∈ tenv, p.2.wf = true ∧ slotFree p.2 = true

/-- what the theorems ask of ONE call: a registered function of a function type respects its
signature; a compile-time environment holds well-formed variable-free types -/
def OpOK : Op → Prop
  | .registerFun d => (∃ n ps r, d.ty = .fn n ps r) → Sound.declOK d = true
  | .compile _ tenv _ => TenvOK tenv
  | _ => True

/-- a Callable that an engine with a respectful table returned, for a good `env0` -/
structure CallableOK (c : Callable) : Prop where
  from_compile : ∃ (e0 : Engine) (times : List (String × Int)) (src : String),
    (e0.compile times c.tenv src).2 = .ok c ∧ Sound.FunsOK e0.init.funs
  tenv : TenvOK c.tenv

structure Inv (pre : List Op) (e : Engine) (outs : List Out) : Prop where
  len : outs.length = pre.length
  funs : Sound.FunsOK e.funs
  call : ∀ k c, Out.callable? outs[k]? = some c →
    e.inited = true ∧ CallableOK c ∧
    (∃ times src, pre[k]? = some (.compile times c.tenv src)) ∧
    e.funs = c.funs ++ regs (pre.drop (k+1))

theorem Inv.nil {e : Engine} (h : Sound.FunsOK e.funs) : Inv [] e [] :=
  ⟨rfl, h, fun k c hc => by simp [Out.callable?] at hc⟩

theorem callable_snoc {outs : List Out} {o : Out} {k : Nat} {c : Callable}
    (h : Out.callable? (outs ++ [o])[k]? = some c) :
    (k < outs.length ∧ Out.callable? outs[k]? = some c) ∨
    (k = outs.length ∧ Out.callable? (some o) = some c) := by
  rcases Nat.lt_trichotomy k outs.length with hk | hk | hk
  · left; rw [List.getElem?_append_left hk] at h; exact ⟨hk, h⟩
  · right; subst hk; simpa using h
  · rw [List.getElem?_eq_none (by simp; omega)] at h; cases h

/-- one call keeps the invariant, given what the call does to the engine -/
theorem Inv.snoc {pre : List Op} {e e' : Engine} {outs : List Out} {op : Op} {out : Out}
    (hI : Inv pre e outs) (h1 : Sound.FunsOK e'.funs)
    (h2 : e.inited = true → e'.inited = true ∧ e'.funs = e.funs ++ regs [op])
    (h3 : ∀ c, Out.callable? (some out) = some c →
      e'.inited = true ∧ CallableOK c ∧ (∃ times src, op = .compile times c.tenv src) ∧
        e'.funs = c.funs) :
    Inv (pre ++ [op]) e' (outs ++ [out]) := by
  refine ⟨by simp [hI.len], h1, fun k c hc => ?_⟩
  rcases callable_snoc hc with ⟨hk, hc'⟩ | ⟨hk, hc'⟩
  · obtain ⟨hin, hok, ⟨times, src, hpre⟩, hf⟩ := hI.call k c hc'
    obtain ⟨hin', hf'⟩ := h2 hin
    have hkp : k < pre.length := hI.len ▸ hk
    refine ⟨hin', hok, ⟨times, src, ?_⟩, ?_⟩
    · rw [List.getElem?_append_left hkp]; exact hpre
    · rw [hf', hf, List.drop_append_of_le_length (by omega), regs_append, List.append_assoc]
  · obtain ⟨hin', hok, ⟨times, src, hop⟩, hf⟩ := h3 c hc'
    have hkp : k = pre.length := hI.len ▸ hk
    refine ⟨hin', hok, ⟨times, src, ?_⟩, ?_⟩
    · rw [hkp, List.getElem?_append_right (Nat.le_refl _), Nat.sub_self, hop]; rfl
    · rw [hf, hkp, List.drop_of_length_le (by simp)]
      simp [regs]

/-- a call that does not touch the table and returns no Callable -/
theorem Inv.snoc_quiet {pre : List Op} {e e' : Engine} {outs : List Out} {op : Op} {out : Out}
    (hI : Inv pre e outs) (hf : e'.funs = e.funs) (hi : e'.inited = e.inited)
    (hr : regs [op] = []) (ho : Out.callable? (some out) = none) :
    Inv (pre ++ [op]) e' (outs ++ [out]) :=
  hI.snoc (hf ▸ hI.funs) (fun h => ⟨hi ▸ h, by rw [hf, hr, List.append_nil]⟩)
    (fun c hc => by rw [ho] at hc; cases hc)

theorem Inv.step {pre : List Op} {e : Engine} {outs : List Out} (hI : Inv pre e outs) (op : Op)
    (hop : OpOK op) : Inv (pre ++ [op]) (e.step outs op).1 (outs ++ [(e.step outs op).2]) := by
  cases op with
  | registerFun d =>
    refine hI.snoc ?_ (fun h => ⟨by rw [← h]; exact registerFun_inited e d, registerFun_funs e d⟩)
      (fun c hc => by cases hc)
    show Sound.FunsOK (e.registerFun d).funs
    rw [registerFun_funs]
    refine funsOK_append hI.funs ?_
    intro d' hd'
    cases hty : d.ty <;> simp [regs, hty] at hd'
    subst hd'
    exact hop ⟨_, _, _, hty⟩
  | registerOperator o => exact hI.snoc_quiet rfl rfl rfl rfl
  | useBuiltIn flag => exact hI.snoc_quiet rfl rfl rfl rfl
  | useCompiler b => exact hI.snoc_quiet rfl rfl rfl rfl
  | invokeC c venv ext => exact hI.snoc_quiet rfl rfl rfl rfl
  | invoke k venv ext =>
    simp only [Engine.step]
    split
    · exact hI.snoc_quiet rfl rfl rfl rfl
    · exact hI.snoc_quiet rfl rfl rfl rfl
  | compile times tenv src =>
    refine hI.snoc (funsOK_init hI.funs)
      (fun h => by
        show (e.init.inited = true ∧ e.init.funs = e.funs ++ regs [Op.compile times tenv src])
        rw [init_of_inited h]; exact ⟨h, by simp [regs]⟩)
      (fun c hc => ?_)
    have hc' : (e.compile times tenv src).2 = .ok c := by
      simp only [Engine.step, Out.callable?] at hc
      split at hc
      · next c' heq =>
        simp only [Option.some.injEq, Out.compiled.injEq] at heq
        cases hc; exact heq
      · cases hc
    obtain ⟨ht, hf, _, _⟩ := compile_callable hc'
    refine ⟨init_inited e, ⟨⟨e, times, src, ht ▸ hc', funsOK_init hI.funs⟩, ht ▸ hop⟩,
      ⟨times, src, by rw [ht]⟩, hf.symm⟩

/-- every call of the history is good -/
def OpsOK (ops : List Op) : Prop := ∀ op ∈ ops, OpOK op

theorem runFrom_inv : ∀ (rest pre : List Op) (e : Engine) (outs : List Out),
    Inv pre e outs → OpsOK rest →
    Inv (pre ++ rest) (e.runFrom outs rest).1 (e.runFrom outs rest).2
  | [], pre, e, outs, hI, _ => by simpa [Engine.runFrom] using hI
  | op :: rest, pre, e, outs, hI, h => by
    have := runFrom_inv rest (pre ++ [op]) _ _ (hI.step op (h op (List.mem_cons_self ..)))
      (fun o ho => h o (List.mem_cons_of_mem _ ho))
    rw [List.append_assoc] at this
    exact this

/-- after ANY history of good calls on an engine with a respectful table -/
theorem run_inv {e : Engine} (he : Sound.FunsOK e.funs) (ops : List Op) (h : OpsOK ops) :
    Inv ops (e.run ops).1 (e.run ops).2 := by
  have := runFrom_inv ops [] e [] (Inv.nil he) h
  simpa [Engine.run] using this

theorem OpsOK.take {ops : List Op} (h : OpsOK ops) (i : Nat) : OpsOK (ops.take i) :=
  fun op ho => h op (List.mem_of_mem_take ho)

end Yae.Api
