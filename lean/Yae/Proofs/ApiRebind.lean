/-
  Lemmas for `Yae/Props/Api.lean`: the refinement of `LateOK`.  A late-binding Callable stays
  SOUND (not: keeps its result) when a monomorphic key one of its calls was resolved to is
  registered again with a function of the SAME TYPE.

  * `ann_transfer`: `Ann Γ e T` moves to an environment with the same variables whose table
    resolves every static call of `e` to a function of the same type (`TyAlike`).
  * `progress_ann`: C02 `progress_run` from `Ann` directly.
  * `sameTy_alike`: appending `ex` to the table resolves alike in type if every monomorphic key of
    the tree that `ex` registers is registered with the type it had (`SameTyClash`).
  * `invoke_sound_ty`, `invoke_out_ok_ty`: `ApiSound.invoke_sound`, `invoke_out_ok` under the
    weaker condition.
-/
import Yae.Proofs.ApiSound
namespace Yae.Api
open Yae Yae.Facade Yae.Sound Yae.EngineHistory Yae.EngineCheck Yae.EngineEval

def PT : String → Prop := fun _ => True

/-- the static call `(r, i)` resolves in `fs'` to a function of the type it has in `fs` -/
def QA (fs fs' : List FunDecl) : String → Int → Prop := fun r i =>
  ∀ d, resolveStatic fs r i = some d → ∃ d', resolveStatic fs' r i = some d' ∧ d'.ty = d.ty

/-- every static call of the tree resolves in `fs'` to a function of the type it has in `fs` -/
def TyAlike (fs fs' : List FunDecl) : Expr → Prop := All PT (QA fs fs') True

section
set_option linter.unusedSectionVars false
variable {Γ Γ' : TEnv} (hv : ∀ x, Γ'.lookupVar x = Γ.lookupVar x)
include hv

mutual
theorem ann_transfer : ∀ (e : Expr) (T : Ty), Ann Γ e T → All PT (QA Γ.funs Γ'.funs) True e →
    Ann Γ' e T
  | .str _ _, _, h, _ => by cases h; exact .str
  | .num _ _, _, h, _ => by cases h; exact .num
  | .time _ _, _, h, _ => by cases h; exact .time
  | .bool _ _, _, h, _ => by cases h; exact .bool
  | .list _ .nil _, _, h, _ => by cases h; exact .listNil
  | .list _ (.cons e es) _, _, h, ha => by
    simp only [All, AllL] at ha
    cases h with
    | listCons h1 h2 => exact .listCons (ann_transfer e _ h1 ha.1) (annElems_transfer es _ h2 ha.2)
  | .map _ .nil _, _, h, _ => by cases h; exact .mapNil
  | .map _ (.cons k v ps) _, _, h, ha => by
    simp only [All, AllP] at ha
    cases h with
    | mapCons h1 hp h2 h3 =>
      exact .mapCons (ann_transfer k _ h1 ha.1) hp (ann_transfer v _ h2 ha.2.1)
        (annPairs_transfer ps _ _ h3 ha.2.2)
  | .obj _ fs _, _, h, ha => by
    simp only [All] at ha
    cases h with
    | obj h1 hsh => exact .obj (annFields_transfer fs _ h1 ha) hsh
  | .ident _ _, _, h, _ => by
    cases h with
    | ident hl => exact .ident (by rw [hv]; exact hl)
  | .call _ _ callee args _ _ _, _, h, ha => by
    simp only [All] at ha
    cases h with
    | callStatic h1 hne hres hty hi =>
      have hq := ha.1
      rw [if_neg (by simp [hne])] at hq
      obtain ⟨d', hd', hty'⟩ := hq _ hres
      exact .callStatic (annArgs_transfer args _ h1 ha.2) hne hd' (hty'.trans hty) hi
    | callDyn h1 h2 hi =>
      have hq := ha.1
      rw [if_pos (by simp)] at hq
      exact .callDyn (ann_transfer callee _ h1 hq.2) (annArgs_transfer args _ h2 ha.2) hi
  | .subscript _ _ var idx _, _, h, ha => by
    simp only [All] at ha
    cases h with
    | subList h1 h2 h3 => exact .subList (ann_transfer var _ h1 ha.1) (ann_transfer idx _ h2 ha.2) h3
    | subMap h1 h2 h3 => exact .subMap (ann_transfer var _ h1 ha.1) (ann_transfer idx _ h2 ha.2) h3
  | .member _ _ o _ _ _ _, _, h, ha => by
    simp only [All] at ha
    cases h with
    | member h1 hf => exact .member (ann_transfer o _ h1 ha) hf
  | .unary .., _, h, _ => by cases h
  | .binary .., _, h, _ => by cases h
  | .ternary .., _, h, _ => by cases h
  | .group .., _, h, _ => by cases h
theorem annElems_transfer : ∀ (es : ExprList) (el : Ty), AnnElems Γ es el →
    AllL PT (QA Γ.funs Γ'.funs) True es → AnnElems Γ' es el
  | .nil, _, h, _ => by cases h; exact .nil
  | .cons e es, _, h, ha => by
    simp only [AllL] at ha
    cases h with
    | cons h1 ht h2 => exact .cons (ann_transfer e _ h1 ha.1) ht (annElems_transfer es _ h2 ha.2)
theorem annPairs_transfer : ∀ (ps : PairList) (kT vT : Ty), AnnPairs Γ ps kT vT →
    AllP PT (QA Γ.funs Γ'.funs) True ps → AnnPairs Γ' ps kT vT
  | .nil, _, _, h, _ => by cases h; exact .nil
  | .cons k v ps, _, _, h, ha => by
    simp only [AllP] at ha
    cases h with
    | cons h1 t1 h2 t2 h3 =>
      exact .cons (ann_transfer k _ h1 ha.1) t1 (ann_transfer v _ h2 ha.2.1) t2
        (annPairs_transfer ps _ _ h3 ha.2.2)
theorem annFields_transfer : ∀ (fs : FieldEList) (tys : FieldList), AnnFields Γ fs tys →
    AllF PT (QA Γ.funs Γ'.funs) True fs → AnnFields Γ' fs tys
  | .nil, _, h, _ => by cases h; exact .nil
  | .cons _ e fs, _, h, ha => by
    simp only [AllF] at ha
    cases h with
    | cons h1 h2 => exact .cons (ann_transfer e _ h1 ha.1) (annFields_transfer fs _ h2 ha.2)
theorem annArgs_transfer : ∀ (es : ExprList) (tys : TyList), AnnArgs Γ es tys →
    AllL PT (QA Γ.funs Γ'.funs) True es → AnnArgs Γ' es tys
  | .nil, _, h, _ => by cases h; exact .nil
  | .cons e es, _, h, ha => by
    simp only [AllL] at ha
    cases h with
    | cons h1 h2 => exact .cons (ann_transfer e _ h1 ha.1) (annArgs_transfer es _ h2 ha.2)
end

end

/-- C02 `progress_run`, from the annotation directly -/
theorem progress_ann {Γ : TEnv} {ρ : REnv} (hf : FunsOK Γ.funs) (henv : Sound.EnvOK Γ ρ)
    {T : Ty} {e' : Expr} (hA : Ann Γ e' T) (dbg : Bool) :
    (∃ v evs, runEval dbg ρ e' = (.ok v, evs) ∧ HasTy v T) ∨
    (∃ f evs, runEval dbg ρ e' = (.error f, evs) ∧ Allowed f) := by
  unfold runEval
  have h := evalOK (dbg := dbg) hf henv (e'.depth + 1) e' T hA []
  rcases hr : eval (e'.depth + 1) dbg ρ e' [] with ⟨r, l⟩
  rw [hr] at h
  cases r with
  | ok v => exact .inl ⟨v, l.reverse, rfl, h⟩
  | error f =>
    rcases h with h | ⟨_, h⟩
    · exact .inr ⟨f, l.reverse, rfl, h⟩
    · exact absurd (Nat.lt_succ_self _) h

/-- **The refined condition.**  Every MONOMORPHIC static call of the tree whose key `ex`
registers (again) is registered by `ex` with the type the key has in `fs`. -/
def SameTyClash (fs ex : List FunDecl) : Expr → Prop :=
  All PT (fun r i => i < 0 → ∀ d', lookupMono ex r = some d' →
    ∀ d, lookupMono fs r = some d → d'.ty = d.ty) True

/-- `NoMonoClash` is the special case where nothing is registered again -/
theorem sameTy_of_noClash {fs ex : List FunDecl} {e : Expr} (h : NoMonoClash ex e) :
    SameTyClash fs ex e :=
  All.mono (fun _ _ => trivial)
    (fun r i hq hi d' hd' _ _ => by rw [hq hi] at hd'; cases hd') (fun h => h) e h

theorem sameTy_alike {fs ex : List FunDecl} {e : Expr} (h : SameTyClash fs ex e) :
    TyAlike fs (fs ++ ex) e := by
  refine All.mono (fun _ _ => trivial) (fun r i hq d hd => ?_) (fun h => h) e h
  by_cases hi : i < 0
  · cases hm : lookupMono ex r with
    | none => exact ⟨d, resolveStatic_append ex hd (fun _ => hm), rfl⟩
    | some d' =>
      refine ⟨d', resolveStatic_append_mono ex hi hm, hq hi d' hm d ?_⟩
      unfold resolveStatic at hd
      rw [if_pos hi] at hd
      exact hd
  · exact ⟨d, resolveStatic_append ex hd (fun h => absurd h hi), rfl⟩

/-- `invoke_sound` under the refined condition; the grown table must respect its signatures -/
theorem invoke_sound_ty {c : Callable} (hok : CallableOK c) {e : Engine} {ex : List FunDecl}
    (hfuns : e.funs = c.funs ++ ex) (hfe : FunsOK e.funs)
    (hlate : c.backend.late = true → SameTyClash c.funs ex c.tree)
    (venv : List (String × Val)) (ext : Externs) (hwf : ∀ p ∈ venv, Sound.WF p.2 = true) :
    InvokeOK c venv (e.invoke c venv ext) := by
  cases hl : c.backend.late with
  | false => exact invoke_sound hok hfuns (fun h => by rw [hl] at h; cases h) venv ext hwf
  | true =>
    obtain ⟨⟨e0, times, src, hc, hf⟩, ht⟩ := hok
    obtain ⟨_, hcf, _, hsrc⟩ := compile_callable hc
    obtain ⟨d, c', hchk⟩ := compileSrc_check hsrc
    have hA : Ann (e0.init.tenvOf c.tenv) c.tree c.ty :=
      (check_ann (Γ := e0.init.tenvOf c.tenv) hf
        (show VarsOK (e0.init.tenvOf c.tenv) from ht) _ _ _ _ _ hchk).1
    have hal : TyAlike c.funs e.funs c.tree := hfuns ▸ sameTy_alike (hlate hl)
    have hA' : Ann ⟨c.tenv, e.funs, reservedWords⟩ c.tree c.ty :=
      ann_transfer (Γ := e0.init.tenvOf c.tenv) (Γ' := ⟨c.tenv, e.funs, reservedWords⟩)
        (fun _ => rfl) _ _ hA (by rw [Engine.tenvOf, ← hcf]; exact hal)
    have htab : e.tableFor c = e.funs := by unfold Engine.tableFor; rw [hl]; rfl
    unfold InvokeOK Engine.invoke
    cases henv : envCheck c.tenv venv with
    | error err => exact .inl ⟨err, rfl, rfl⟩
    | ok u =>
      cases u
      refine .inr ⟨rfl, ?_⟩
      have hE : Sound.EnvOK ⟨c.tenv, e.funs, reservedWords⟩ ⟨venv, e.tableFor c, ext⟩ :=
        ⟨fun x T hx => by
            have := Yae.C07.accepted_env_ok (tenv := c.tenv) (venv := venv) (funs := e.funs)
              (reserved := reservedWords) (ext := ext) henv hwf x T hx
            obtain ⟨v, hv, hty⟩ := this
            refine ⟨v, ?_, hty⟩
            simpa [REnv.lookupVar] using hv,
          htab, ht⟩
      rcases progress_ann (Γ := ⟨c.tenv, e.funs, reservedWords⟩)
          (ρ := ⟨venv, e.tableFor c, ext⟩) hfe hE hA' c.backend.dbg with
        ⟨v, evs, hr, hv⟩ | ⟨f, evs, hr, ha⟩
      · left; exact ⟨v, evs, by simp only [hr], hv⟩
      · right; exact ⟨f, evs, by simp only [hr], ha⟩

/-- the refined condition on a history -/
def LateTyOK (e : Engine) (ops : List Op) : Prop :=
  ∀ i k venv ext c, ops[i]? = some (.invoke k venv ext) → k < i →
    (e.run ops).2[k]? = some (.compiled (.ok c)) → c.backend.late = true →
    SameTyClash c.funs (regsBetween ops k i) c.tree

theorem LateOK.lateTyOK {e : Engine} {ops : List Op} (h : LateOK e ops) : LateTyOK e ops :=
  fun i k venv ext c h1 h2 h3 h4 => sameTy_of_noClash (h i k venv ext c h1 h2 h3 h4)

theorem invoke_out_ok_ty {e : Engine} (he : Sound.FunsOK e.funs) {ops : List Op} (hops : OpsOK ops)
    (hvenv : ∀ k venv ext, Op.invoke k venv ext ∈ ops → ∀ p ∈ venv, Sound.WF p.2 = true)
    (hlate : LateTyOK e ops) {i k : Nat} {venv : List (String × Val)} {ext : Externs} {out : Out}
    (hop : ops[i]? = some (.invoke k venv ext)) (hout : (e.run ops).2[i]? = some out) :
    (out = .noCallable ∧ ∀ c, k < i → (e.run ops).2[k]? ≠ some (.compiled (.ok c))) ∨
    ∃ c, k < i ∧ (e.run ops).2[k]? = some (.compiled (.ok c)) ∧
      (∃ times src, ops[k]? = some (.compile times c.tenv src)) ∧
      ∃ r, out = .result r ∧ InvokeOK c venv r := by
  obtain ⟨op, hop', hout'⟩ := run_out hout
  rw [hop] at hop'
  cases hop'
  have hI := run_inv he (ops.take i) (hops.take i)
  have houts : ∀ j, j < i → (e.run (ops.take i)).2[j]? = (e.run ops).2[j]? := by
    intro j hj
    rw [run_take, List.getElem?_take_of_lt hj]
  simp only [Engine.step] at hout'
  split at hout'
  · next c hc =>
    right
    obtain ⟨_, hok, ⟨times, src, hpre⟩, hf⟩ := hI.call k c hc
    have hki : k < i := by
      rcases Nat.lt_or_ge k i with h | h
      · exact h
      · rw [List.getElem?_eq_none (by rw [List.length_take]; omega)] at hpre; cases hpre
    have hk := callable_eq hc
    rw [houts k hki] at hk
    rw [List.getElem?_take_of_lt hki] at hpre
    refine ⟨c, hki, hk, ⟨times, src, hpre⟩, _, hout', ?_⟩
    exact invoke_sound_ty hok hf hI.funs (fun hl => hlate i k venv ext c hop hki hk hl) venv ext
      (hvenv k venv ext (List.mem_of_getElem? hop))
  · next hc =>
    left
    refine ⟨hout', fun c hki hk => ?_⟩
    rw [← houts k hki] at hk
    rw [hk] at hc
    cases hc

end Yae.Api
