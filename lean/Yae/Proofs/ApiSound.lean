/-
  Lemmas for `Yae/Props/Api.lean`: one invocation of a Callable of the history is sound, and one
  compilation of the history reports.

  * `invoke_home`: the Callable invoked on the engine that compiled it (C07 `accepted_env_ok`,
    C02 `progress_run` on the tree `check` returned, against the table it was checked with).
  * `invoke_sound`: … on an engine whose table has since grown by `ex`: the same, if the Callable
    binds early or `ex` registers no monomorphic key one of the tree's calls was resolved to
    (C13 `early_binding_ignores_engine`, `callable_stable_under_append`).
  * `invoke_out_ok`: … for the `invoke` steps of a history (`ApiHistory.run_inv`).
  * `compile_out_ok`: the `compile` steps of a history (C12 `compile_total`).
-/
import Yae.Proofs.ApiHistory
import Yae.Props.C02
import Yae.Props.C07
import Yae.Props.C12b
import Yae.Props.C13
namespace Yae.Api
open Yae Yae.Facade Yae.EngineHistory Yae.EngineCheck

/-- the outcomes of invoking the Callable `c` on `venv` that the theorems allow:
(b) the environment check refuses, nothing is evaluated (no event);
(c) it accepts and a well-formed value of the type inferred at compile time is returned;
(d) it accepts and the run stops with an `Allowed` failure. -/
def InvokeOK (c : Callable) (venv : List (String × Val)) (r : Except RunErr Val × List Event) :
    Prop :=
  (∃ err, envCheck c.tenv venv = .error err ∧ r = (.error (.env err), [])) ∨
  (envCheck c.tenv venv = .ok () ∧
    ((∃ v evs, r = (.ok v, evs) ∧ Sound.HasTy v c.ty) ∨
     (∃ f evs, r = (.error (.fail f), evs) ∧ Sound.Allowed f)))

/-- the tree `compileSrc` returns is the tree `check` returned for the desugared parse -/
theorem compileSrc_check {ops : List Operator} {times : List (String × Int)} {Γ : TEnv}
    {src : String} {T : Ty} {e' : Expr} (hc : compileSrc ops times Γ src = .ok (T, e')) :
    ∃ d c', check Γ 0 d = .ok (T, e', c') := by
  unfold compileSrc at hc
  split at hc
  · cases hc
  · split at hc
    · cases hc
    · split at hc
      · cases hc
      · next d _ =>
        split at hc
        · cases hc
        · next ty e'' c' hck =>
          simp only [Except.ok.injEq, Prod.mk.injEq] at hc
          obtain ⟨rfl, rfl⟩ := hc
          exact ⟨d, c', hck⟩

/-- the table a Callable runs on, on the engine that compiled it, is the table it was checked
with — whatever the compiler -/
theorem tableFor_home {e0 : Engine} {times : List (String × Int)} {tenv : List (String × Ty)}
    {src : String} {c : Callable} (hc : (e0.compile times tenv src).2 = .ok c) :
    e0.init.tableFor c = e0.init.funs := by
  unfold Engine.tableFor
  split
  · rfl
  · exact (compile_callable hc).2.1

/-- **one invocation on the engine that compiled the Callable** -/
theorem invoke_home {e0 : Engine} {times : List (String × Int)} {tenv : List (String × Ty)}
    {src : String} {c : Callable} (hc : (e0.compile times tenv src).2 = .ok c)
    (hf : Sound.FunsOK e0.init.funs) (ht : TenvOK tenv)
    (venv : List (String × Val)) (ext : Externs) (hwf : ∀ p ∈ venv, Sound.WF p.2 = true) :
    InvokeOK c venv (e0.init.invoke c venv ext) := by
  obtain ⟨htenv, _, _, hsrc⟩ := compile_callable hc
  have htab := tableFor_home hc
  obtain ⟨d, c', hchk⟩ := compileSrc_check hsrc
  unfold InvokeOK Engine.invoke
  cases henv : envCheck c.tenv venv with
  | error err => exact .inl ⟨err, rfl, rfl⟩
  | ok u =>
    cases u
    refine .inr ⟨rfl, ?_⟩
    have hE : Sound.EnvOK (e0.init.tenvOf tenv) ⟨venv, e0.init.tableFor c, ext⟩ :=
      ⟨fun x T hx => by
          have := Yae.C07.accepted_env_ok (tenv := tenv) (venv := venv) (funs := e0.init.funs)
            (reserved := reservedWords) (ext := ext) (htenv ▸ henv) hwf x T hx
          obtain ⟨v, hv, hty⟩ := this
          refine ⟨v, ?_, hty⟩
          simpa [REnv.lookupVar] using hv,
        htab, ht⟩
    rcases Yae.C02.progress_run (Γ := e0.init.tenvOf tenv) hf hE hchk c.backend.dbg with
      ⟨v, evs, hr, hv⟩ | ⟨f, evs, hr, ha⟩
    · left; exact ⟨v, evs, by simp only [hr], hv⟩
    · right; exact ⟨f, evs, by simp only [hr], ha⟩

/-- **one invocation on an engine whose table has grown by `ex` since the compilation**: sound
if the Callable looks its functions up when it is COMPILED, or if `ex` registers no monomorphic
key that a call of the tree was resolved to. -/
theorem invoke_sound {c : Callable} (hok : CallableOK c) {e : Engine} {ex : List FunDecl}
    (hfuns : e.funs = c.funs ++ ex) (hlate : c.backend.late = true → NoMonoClash ex c.tree)
    (venv : List (String × Val)) (ext : Externs) (hwf : ∀ p ∈ venv, Sound.WF p.2 = true) :
    InvokeOK c venv (e.invoke c venv ext) := by
  obtain ⟨⟨e0, times, src, hc, hf⟩, ht⟩ := hok
  have heq : e.invoke c venv ext = e0.init.invoke c venv ext := by
    cases hl : c.backend.late with
    | false => exact Yae.C13.early_binding_ignores_engine e e0.init hl venv ext
    | true => exact Yae.C13.callable_stable_under_append hc hfuns (hlate hl) venv ext
  rw [heq]
  exact invoke_home hc hf ht venv ext hwf

/-! ### the `invoke` steps of a history -/

/-- **The condition on late binding.**  Whenever the history invokes a Callable compiled by
`interp.Interp` (`Backend.late`), the functions registered between the compilation and the
invocation register no monomorphic key that a call of the Callable's tree was resolved to. -/
def LateOK (e : Engine) (ops : List Op) : Prop :=
  ∀ i k venv ext c, ops[i]? = some (.invoke k venv ext) → k < i →
    (e.run ops).2[k]? = some (.compiled (.ok c)) → c.backend.late = true →
    NoMonoClash (regsBetween ops k i) c.tree

theorem callable_eq {o : Option Out} {c : Callable} (h : Out.callable? o = some c) :
    o = some (.compiled (.ok c)) := by
  unfold Out.callable? at h
  split at h
  · cases h; rfl
  · cases h

theorem invoke_out_ok {e : Engine} (he : Sound.FunsOK e.funs) {ops : List Op} (hops : OpsOK ops)
    (hvenv : ∀ k venv ext, Op.invoke k venv ext ∈ ops → ∀ p ∈ venv, Sound.WF p.2 = true)
    (hlate : LateOK e ops) {i k : Nat} {venv : List (String × Val)} {ext : Externs} {out : Out}
    (hop : ops[i]? = some (.invoke k venv ext)) (hout : (e.run ops).2[i]? = some out) :
    (out = .noCallable ∧ ∀ c, k < i → (e.run ops).2[k]? ≠ some (.compiled (.ok c))) ∨
    ∃ c, k < i ∧ (e.run ops).2[k]? = some (.compiled (.ok c)) ∧
      (∃ times src, ops[k]? = some (.compile times c.tenv src)) ∧
      ∃ r, out = .result r ∧ InvokeOK c venv r := by
  obtain ⟨op, hop', hout'⟩ := run_out hout
  rw [hop] at hop'
  cases hop'
  have hI := run_inv he (ops.take i) (hops.take i)
  have houts : ∀ j, j < i → (e.run (ops.take i)).2[j]? = (e.run ops).2[j]? := by
    intro j hj
    rw [run_take, List.getElem?_take_of_lt hj]
  simp only [Engine.step] at hout'
  split at hout'
  · next c hc =>
    right
    obtain ⟨_, hok, ⟨times, src, hpre⟩, hf⟩ := hI.call k c hc
    have hki : k < i := by
      rcases Nat.lt_or_ge k i with h | h
      · exact h
      · rw [List.getElem?_eq_none (by rw [List.length_take]; omega)] at hpre; cases hpre
    have hk := callable_eq hc
    rw [houts k hki] at hk
    rw [List.getElem?_take_of_lt hki] at hpre
    refine ⟨c, hki, hk, ⟨times, src, hpre⟩, _, hout', ?_⟩
    exact invoke_sound hok hf (fun hl => hlate i k venv ext c hop hki hk hl) venv ext
      (hvenv k venv ext (List.mem_of_getElem? hop))
  · next hc =>
    left
    refine ⟨hout', fun c hki hk => ?_⟩
    rw [← houts k hki] at hk
    rw [hk] at hc
    cases hc

/-! ### the `compile` steps of a history -/

/-- a state invariant that every call keeps holds after every history -/
theorem runFrom_state {P : Engine → Prop} {Q : Op → Prop}
    (hstep : ∀ e outs op, P e → Q op → P (e.step outs op).1) :
    ∀ (ops : List Op) (e : Engine) (outs : List Out), P e → (∀ op ∈ ops, Q op) →
      P (e.runFrom outs ops).1
  | [], _, _, h, _ => h
  | op :: rest, e, outs, h, hq =>
    runFrom_state hstep rest _ _ (hstep e outs op h (hq op (List.mem_cons_self ..)))
      (fun o ho => hq o (List.mem_cons_of_mem _ ho))

/-- what `compile_total` needs of the engine: operators the lexer and the parser can work with,
signatures the checker's unifier terminates on -/
def StaticOK (e : Engine) : Prop :=
  Yae.C12.OpsOK e.ops ∧ ∀ d ∈ e.funs, Yae.PolyOK.declOK d.ty = true

/-- … and of one call -/
def OpStaticOK : Op → Prop
  | .registerFun d => (∃ n ps r, d.ty = .fn n ps r) → Yae.PolyOK.declOK d.ty = true
  | .registerOperator o => o.kind ≠ "" ∧ o.kind ≠ "<END-OF-FILE>" ∧ o.kind ∉ literalKinds
  | .compile _ tenv _ => ∀ p ∈ tenv, Yae.TyOK p.2 = true
  | _ => True

theorem builtinDecls_sigOK : ∀ d ∈ builtinDecls, Yae.PolyOK.declOK d.ty = true := by
  intro d hd
  have : builtinDecls.all (fun d => Yae.PolyOK.sigOK d.ty) = true := by decide
  exact Yae.PolyOK.sigOK_declOK (List.all_eq_true.1 this d hd)

theorem staticOK_init {e : Engine} (h : StaticOK e) : StaticOK e.init := by
  obtain ⟨ho, hf⟩ := h
  refine ⟨?_, ?_⟩
  · rw [init_ops]
    intro o hm
    rcases List.mem_append.1 hm with h | h
    · exact ho o h
    · split at h
      · exact (by decide : Yae.C12.OpsOK builtinOps) o h
      · cases h
  · rw [init_funs]
    intro d hm
    rcases List.mem_append.1 hm with h | h
    · exact hf d h
    · split at h
      · exact builtinDecls_sigOK d h
      · cases h

theorem staticOK_step (e : Engine) (outs : List Out) (op : Op) (h : StaticOK e)
    (hop : OpStaticOK op) : StaticOK (e.step outs op).1 := by
  cases op with
  | registerFun d =>
    have hops : (e.registerFun d).ops = e.ops := by
      unfold Engine.registerFun
      split <;> rfl
    refine ⟨show Yae.C12.OpsOK (e.registerFun d).ops from hops ▸ h.1, ?_⟩
    show ∀ d' ∈ (e.registerFun d).funs, _
    rw [registerFun_funs]
    intro d' hm
    rcases List.mem_append.1 hm with hm | hm
    · exact h.2 d' hm
    · cases hty : d.ty <;> simp [regs, hty] at hm
      subst hm
      exact hop ⟨_, _, _, hty⟩
  | registerOperator o =>
    refine ⟨?_, h.2⟩
    intro o' hm
    rcases List.mem_append.1 hm with hm | hm
    · exact h.1 o' hm
    · simp only [List.mem_singleton] at hm
      subst hm; exact hop
  | useBuiltIn flag => exact h
  | useCompiler b => exact h
  | invokeC c venv ext => exact h
  | invoke k venv ext =>
    simp only [Engine.step]
    split <;> exact h
  | compile times tenv src => exact staticOK_init h

theorem sigEnv_tenvOf {e : Engine} (h : StaticOK e) {tenv : List (String × Ty)}
    (ht : ∀ p ∈ tenv, Yae.TyOK p.2 = true) : Yae.PolyOK.SigEnv (e.tenvOf tenv) where
  vars := by
    intro x T hx
    simp only [TEnv.lookupVar, Engine.tenvOf, Option.map_eq_some_iff] at hx
    obtain ⟨p, hp, rfl⟩ := hx
    exact ht p (List.mem_of_find?_eq_some hp)
  funs := h.2

/-- **every compilation of a history returns a Callable or a REPORTED error** -/
theorem compile_out_ok {e : Engine} (he : StaticOK e) {ops : List Op}
    (hops : ∀ op ∈ ops, OpStaticOK op) {i : Nat} {times : List (String × Int)}
    {tenv : List (String × Ty)} {src : String} {out : Out}
    (hop : ops[i]? = some (.compile times tenv src)) (hout : (e.run ops).2[i]? = some out) :
    (∃ c, out = .compiled (.ok c) ∧ c.tenv = tenv) ∨
    (∃ err, out = .compiled (.error err) ∧ Yae.C12.reported err) := by
  obtain ⟨op, hop', hout'⟩ := run_out hout
  rw [hop] at hop'
  cases hop'
  have hS : StaticOK (e.run (ops.take i)).1 :=
    runFrom_state staticOK_step (ops.take i) e [] he
      (fun op ho => hops op (List.mem_of_mem_take ho))
  have hS' := staticOK_init hS
  have hΓ := sigEnv_tenvOf hS' (tenv := tenv) (hops _ (List.mem_of_getElem? hop))
  simp only [Engine.step] at hout'
  rw [hout']
  unfold Engine.compile
  simp only
  rcases Yae.C12.compile_total hS'.1 hΓ times src with ⟨T, e', h⟩ | ⟨err, h, hr⟩
  · left; rw [h]; exact ⟨_, rfl, rfl⟩
  · right; rw [h]; exact ⟨err, rfl, hr⟩

end Yae.Api
