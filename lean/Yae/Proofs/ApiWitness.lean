/-
  Lemmas for `Yae/Props/Api.lean`:

  * sufficient, purely syntactic conditions for `LateOK`: the history never selects
    `interp.Interp` (`lateOK_of_early`); the history registers polymorphic functions only
    (`lateOK_of_poly`);
  * the WITNESS that `LateOK` cannot be dropped: `histBad` — select `interp.Interp`, compile
    `!true` (inferred type `bool`), register a host function `!(bool) : str` (a respectful one:
    it returns a string, as its signature says), invoke the Callable: it returns the STRING
    `"oops"`.
-/
import Yae.Proofs.ApiSound
import Yae.Proofs.EngineWitness
namespace Yae.Api
open Yae Yae.Facade Yae.EngineHistory Yae.EngineCheck Yae.EngineWitness

/-! ### no late-binding compiler in the history -/

/-- nothing binds late: the engine's compiler and the compilers of all Callables so far -/
def NoLate (e : Engine) (outs : List Out) : Prop :=
  e.backend.late = false ∧
    ∀ (k : Nat) (c : Callable), outs[k]? = some (Out.compiled (.ok c)) → c.backend.late = false

theorem noLate_step {e : Engine} {outs : List Out} (h : NoLate e outs) (op : Op)
    (hop : ∀ b, op = .useCompiler b → b.late = false) :
    NoLate (e.step outs op).1 (outs ++ [(e.step outs op).2]) := by
  have hold : ∀ (e' : Engine) (out : Out), e'.backend.late = false →
      (∀ c, out = .compiled (.ok c) → c.backend.late = false) → NoLate e' (outs ++ [out]) := by
    intro e' out hb hnew
    refine ⟨hb, fun k c hk => ?_⟩
    rcases Nat.lt_trichotomy k outs.length with hlt | heq | hgt
    · rw [List.getElem?_append_left hlt] at hk; exact h.2 k c hk
    · subst heq
      rw [List.getElem?_append_right (Nat.le_refl _), Nat.sub_self] at hk
      exact hnew c (by simpa using hk)
    · rw [List.getElem?_eq_none (by simp; omega)] at hk; cases hk
  cases op with
  | registerFun d =>
    refine hold _ _ ?_ (fun c hc => by cases hc)
    show (e.registerFun d).backend.late = false
    unfold Engine.registerFun
    split <;> exact h.1
  | registerOperator o => exact hold _ _ h.1 (fun c hc => by cases hc)
  | useBuiltIn flag => exact hold _ _ h.1 (fun c hc => by cases hc)
  | useCompiler b => exact hold _ _ (hop b rfl) (fun c hc => by cases hc)
  | invokeC c venv ext => exact hold _ _ h.1 (fun c hc => by cases hc)
  | invoke k venv ext =>
    simp only [Engine.step]
    split
    · exact hold _ _ h.1 (fun c hc => by cases hc)
    · exact hold _ _ h.1 (fun c hc => by cases hc)
  | compile times tenv src =>
    refine hold _ _ ?_ (fun c hc => ?_)
    · show e.init.backend.late = false
      rw [init_backend]; exact h.1
    · simp only [Engine.step, Out.compiled.injEq] at hc
      rw [(compile_callable hc).2.2.1]; exact h.1

theorem runFrom_noLate : ∀ (ops : List Op) (e : Engine) (outs : List Out), NoLate e outs →
    (∀ b, Op.useCompiler b ∈ ops → b.late = false) →
    NoLate (e.runFrom outs ops).1 (e.runFrom outs ops).2
  | [], _, _, h, _ => h
  | op :: rest, _, _, h, hb =>
    runFrom_noLate rest _ _
      (noLate_step h op (fun b hop => hb b (hop ▸ List.mem_cons_self ..)))
      (fun b hm => hb b (List.mem_cons_of_mem _ hm))

/-- **no `interp.Interp` in the history: nothing to ask about late binding** -/
theorem lateOK_of_early {e : Engine} (he : e.backend.late = false) {ops : List Op}
    (h : ∀ b, Op.useCompiler b ∈ ops → b.late = false) : LateOK e ops := by
  intro i k venv ext c _ _ hk hl
  have hn : c.backend.late = false :=
    (runFrom_noLate ops e [] ⟨he, fun k c hk => by simp at hk⟩ h).2 k c hk
  rw [hn] at hl
  cases hl

/-- **polymorphic registrations only: nothing to ask about late binding** -/
theorem lateOK_of_poly {e : Engine} (he : Sound.FunsOK e.funs) {ops : List Op} (hops : OpsOK ops)
    (h : ∀ d, Op.registerFun d ∈ ops → d.key.2 = false) : LateOK e ops := by
  intro i k venv ext c _ _ hk _
  have hI := run_inv he ops hops
  obtain ⟨_, ⟨⟨e0, times, src, hc, _⟩, _⟩, _, _⟩ :=
    hI.call k c (by rw [hk]; rfl)
  refine noMonoClash_of_poly (fun d hd => ?_) (callable_closed hc)
  apply h d
  have hsub : ∀ (l : List Op), d ∈ regs l → Op.registerFun d ∈ l := by
    intro l
    induction l with
    | nil => intro hd; cases hd
    | cons op l ih =>
      intro hd
      cases op with
      | registerFun d' =>
        simp only [regs, List.mem_append] at hd
        rcases hd with hd | hd
        · split at hd
          · simp only [List.mem_singleton] at hd
            subst hd; exact List.mem_cons_self ..
          · cases hd
        · exact List.mem_cons_of_mem _ (ih hd)
      | _ => exact List.mem_cons_of_mem _ (ih (by simpa [regs] using hd))
  have := hsub _ hd
  exact List.mem_of_mem_take (List.mem_of_mem_drop this)

/-! ### the witness -/

/-- a RESPECTFUL monomorphic host function under the key of the built-in `!`, with another
return type: `!(bool) : str`, returning `"oops"` -/
def hostNotStr : FunDecl := ⟨.fn "!" (.cons .bool .nil) .str, .host "!" (.constStr "oops"), false⟩

theorem hostNotStr_ok : Sound.declOK hostNotStr = true := by decide

/-- select `interp.Interp`, compile `!true`, register `!(bool) : str`, invoke -/
def histBad : List Op :=
  [.useCompiler .interp, .compile [] [] "!true", .registerFun hostNotStr, .invoke 1 [] {}]

theorem run_not_hostStr {funs : List FunDecl} {d : FunDecl}
    (hm : lookupMono funs "λ ! (bool)" = some d)
    (href : d.ref = .host "!" (.constStr "oops")) (hlazy : d.isLazy = false)
    (ext : Externs) (p : Pos) (col : Int) (cp bp : Pos) :
    runEval false ⟨[], funs, ext⟩ (notTrue p col cp bp) =
      (.ok (.str "oops"), [.call "!" [(Val.bool true).render]]) := by
  have hd : (notTrue p col cp bp).depth = 2 := rfl
  have hne : ("λ ! (bool)" == "") = false := by decide
  unfold runEval
  rw [hd]
  simp only [notTrue, eval, evalList, resolve_not hm, href, hlazy, callFun, hostStrict,
    recDbg, pure_bind', Bool.false_eq_true, if_false, ValList.toList, hne]
  rfl

/-- what `histBad` returns: the Callable of step 1 has the inferred type `bool`; its invocation
at step 3 returns the string `"oops"` -/
theorem bad_run : ∃ p col cp bp, (Engine.new.run histBad).2 =
    [.done,
     .compiled (.ok ⟨[], .bool, notTrue p col cp bp, builtinDecls, .interp⟩),
     .done,
     .result (.ok (.str "oops"), [.call "!" [(Val.bool true).render]])] := by
  have hm : lookupMono (Engine.new.useCompiler .interp).init.funs "λ ! (bool)" =
      some builtinNot := by rfl
  obtain ⟨p, col, cp, bp, hc⟩ := compile_not (e := Engine.new.useCompiler .interp) rfl hm rfl
  have hbk : (Engine.new.useCompiler .interp).init.backend = .interp := rfl
  have hfs : (Engine.new.useCompiler .interp).init.funs = builtinDecls := rfl
  have hm' : lookupMono ((Engine.new.useCompiler .interp).init.registerFun hostNotStr).funs
      "λ ! (bool)" = some hostNotStr := by rfl
  refine ⟨p, col, cp, bp, ?_⟩
  simp only [Engine.run, histBad, Engine.runFrom, Engine.step, compile_fst, hc]
  simp only [List.nil_append, List.cons_append, List.getElem?_cons_succ, List.getElem?_cons_zero,
    Out.callable?, hbk, hfs, Engine.invoke, Engine.tableFor, Backend.late, Backend.dbg,
    if_true, run_not_hostStr hm' rfl rfl]
  rfl

theorem histBad_opsOK : OpsOK histBad := by
  intro op hop
  simp only [histBad, List.mem_cons, List.not_mem_nil, or_false] at hop
  rcases hop with rfl | rfl | rfl | rfl
  · trivial
  · intro p hp; cases hp
  · intro _; exact hostNotStr_ok
  · trivial

theorem histBad_venvs : ∀ k venv ext, Op.invoke k venv ext ∈ histBad →
    ∀ p ∈ venv, Sound.WF p.2 = true := by
  intro k venv ext hop
  simp only [histBad, List.mem_cons, List.not_mem_nil, or_false, reduceCtorEq, false_or,
    Op.invoke.injEq] at hop
  obtain ⟨_, rfl, _⟩ := hop
  intro p hp; cases hp

/-- … and so `histBad` does not satisfy `LateOK` -/
theorem histBad_not_lateOK : ¬ LateOK Engine.new histBad := by
  intro hl
  obtain ⟨p, col, cp, bp, hrun⟩ := bad_run
  have hk : (Engine.new.run histBad).2[1]? =
      some (.compiled (.ok ⟨[], .bool, notTrue p col cp bp, builtinDecls, .interp⟩)) := by
    rw [hrun]; rfl
  have h := hl 3 1 [] {} _ rfl (by decide) hk rfl
  -- the tree's only call is resolved to the monomorphic key `λ ! (bool)`, which is registered again
  have hreg : regsBetween histBad 1 3 = [hostNotStr] := by rfl
  rw [hreg] at h
  simp only [NoMonoClash, notTrue, EngineEval.All] at h
  have hne : ("λ ! (bool)" == "") = false := by decide
  rw [hne] at h
  have h1 := h.1 (by decide)
  have h2 : lookupMono [hostNotStr] "λ ! (bool)" = some hostNotStr := by rfl
  rw [h2] at h1
  cases h1

end Yae.Api
