/-
  The order of binding powers (`Yae.BP`, a Go float32 as sign and magnitude bits): IEEE `<` is a
  strict order that is total on the non-NaN values up to the identification of the two zeros, and
  `BP.pred` (= `BP.Prev` = `math.Nextafter32(·, -Inf)`) is the predecessor in that order.
-/
import Yae.Model.Parser
namespace Yae.BP

theorem lt_iff {a b : BP} : a < b ↔ a.isNaN = false ∧ b.isNaN = false ∧ a.key < b.key := by
  show lt a b = true ↔ _
  unfold lt
  cases a.isNaN <;> cases b.isNaN <;> simp

theorem lt_irrefl (a : BP) : ¬ a < a := by
  rw [lt_iff]; omega

theorem lt_trans {a b c : BP} (h1 : a < b) (h2 : b < c) : a < c := by
  rw [lt_iff] at h1 h2 ⊢; exact ⟨h1.1, h2.2.1, by omega⟩

theorem lt_asymm {a b : BP} (h : a < b) : ¬ b < a := by
  rw [lt_iff] at *; omega

/-- without NaNs any two powers are comparable, or denote the same number -/
theorem lt_trichotomy {a b : BP} (ha : a.isNaN = false) (hb : b.isNaN = false) :
    a < b ∨ a.key = b.key ∨ b < a := by
  simp only [lt_iff, ha, hb, true_and]; omega

/-- `¬ (a < b)` among non-NaN powers is `b ≤ a` on the number line -/
theorem not_lt {a b : BP} (ha : a.isNaN = false) (hb : b.isNaN = false) :
    ¬ a < b ↔ b.key ≤ a.key := by
  simp only [lt_iff, ha, hb, true_and]; omega

theorem key_eq_iff {a b : BP} : a.key = b.key ↔ (a.mag = b.mag ∧ (a.neg = b.neg ∨ a.mag = 0)) := by
  unfold key
  cases a.neg <;> cases b.neg <;> simp <;> omega

theorem pred_isNaN (b : BP) : b.pred.isNaN = b.isNaN := by
  unfold pred
  by_cases h : b.isNaN = true
  · simp [h]
  · have h' : b.isNaN = false := by simpa using h
    simp only [h', Bool.false_eq_true, if_false]
    unfold isNaN infMag at *
    have hm : b.mag ≤ 0x7f800000 := by simpa using h'
    split
    · simp
    · split
      · split
        · exact h'
        · simp; omega
      · simp; omega

/-- `-Inf` -/
def isNegInf (b : BP) : Bool := b.neg && b.mag == infMag

/-- the key of `Prev b` is one step below the key of `b` (one unit in the last place), except at
NaN and `-Inf` -/
theorem pred_key {b : BP} (hn : b.isNaN = false) (hi : b.isNegInf = false) :
    b.pred.key = b.key - 1 := by
  unfold pred key
  simp only [hn, Bool.false_eq_true, if_false]
  unfold isNegInf at hi
  by_cases h0 : b.mag = 0
  · simp [h0]
  · simp only [h0, if_false]
    cases hneg : b.neg
    · simp; omega
    · have : b.mag ≠ infMag := by simpa [hneg] using hi
      simp [this]; omega

/-- `Prev` goes strictly down, except at NaN and `-Inf` -/
theorem pred_lt {b : BP} (hn : b.isNaN = false) (hi : b.isNegInf = false) : b.pred < b := by
  rw [lt_iff, pred_isNaN, hn]
  exact ⟨rfl, rfl, by rw [pred_key hn hi]; omega⟩

/-- nothing lies strictly between `Prev bp` and `bp` -/
theorem pred_max {b x : BP} (h : x < b) : ¬ b.pred < x := by
  rw [lt_iff] at h
  obtain ⟨hx, hb, hk⟩ := h
  by_cases hi : b.isNegInf = true
  · -- nothing is below -Inf
    exfalso
    unfold isNegInf at hi
    have h1 : b.neg = true := by simp at hi; exact hi.1
    have h2 : b.mag = infMag := by simp at hi; exact hi.2
    unfold isNaN at hx
    have : x.mag ≤ infMag := by simpa using hx
    unfold key at hk
    rw [h1, h2] at hk
    cases x.neg <;> simp at hk <;> omega
  · rw [lt_iff, pred_isNaN]
    intro ⟨_, _, hk'⟩
    rw [pred_key hb (by simpa using hi)] at hk'
    omega

/-- `x < bp` exactly when `x ≤ Prev bp`: a right operand parsed at `Prev bp` absorbs precisely the
operators that bind at least as tightly as `bp` -/
theorem lt_iff_not_pred_lt {b x : BP} (hx : x.isNaN = false) (hn : b.isNaN = false)
    (hi : b.isNegInf = false) : x < b ↔ ¬ b.pred < x := by
  constructor
  · exact pred_max
  · intro h
    have hp := pred_lt hn hi
    rw [not_lt (by rw [pred_isNaN, hn]) hx] at h
    rw [lt_iff] at hp ⊢
    exact ⟨hx, hn, by omega⟩

theorem ofNat_isNaN_small : (0 : BP).isNaN = false ∧ (2 : BP).isNaN = false ∧
    (12 : BP).isNaN = false ∧ (13 : BP).isNaN = false := by decide

example : (2 : BP) < 12 ∧ (12 : BP) < 13 ∧ ¬ (13 : BP) < 13 ∧ (0 : BP) < 2 := by decide
example : BP.pred 7 < 7 ∧ ¬ BP.pred 7 < BP.pred 7 := by decide

end Yae.BP
