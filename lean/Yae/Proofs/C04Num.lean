/-
  Law "numeric literal decoding": the number a numeric literal's text denotes, as
  `parser/ast.parseNum` (`Yae.Num.parseNumLitBits`) computes it.  `Float` is opaque to the kernel:
  all statements are equations on binary64 BIT PATTERNS; `parseNumLit` is the `.map Float.ofBits` lift.

  1. `parseUintBase_eq`: non-empty digits below the base read as their positional value.
  2. `parseNumLitBits_radix`: `0x…`/`0b…`/`0o…` denote `float64(v)` when `v < 2^63`, else `none`.
     FINDING: `0x8000000000000000` is a word of the hex pattern (no length bound), hence a lexeme, and
     `parseNum` fails on it (`strconv.ParseInt` range error): `radix_overflow_instance`,
     `parseNumLitBits_radix_overflow`.  Below `2^53` the value is exact: `radix_exact`.
  3. `parseNumLitBits_digits`: decimal digits denote `natToBits (digitsVal ds)`, or `none` when that is
     `infBits`; below `2^53` exactly that integer (`digits_exact`, `parseNumLitBits_fmtNat`).  From
     `2^53` on the value is BY DEFINITION of the model `natToBits n = packRound n false 0` (nearest
     binary64, ties to even); that `packRound` IS the nearest double is not proved here, only that
     overflow (`infBits`, which includes every `n ≥ 2^1024`: `natToBits_huge`) is answered `none`.
  4. `parseNumLitBits_float`: the float forms are `decimalToBits (mantissa digits) (exponent −
     fraction length)`; no correct-rounding theorem for `decimalToBits`/`ratToBits` is claimed.
     FINDING: the float patterns repeat their groups, so `1.2.3` and `1e2e3` are lexemes; `parseNum`
     rejects all such words (`parseNumLitBits_two_dots`, `_two_exps`, `float_reject_instances`).
  5. Tie-in with `Yae.Spec.Regex`: `hex_shape`, `bin_shape`, `oct_shape`, `int_shape`,
     `hex_lexeme_value`, `int_lexeme_value`.
  Core Lean only; no sorry, no axioms beyond the standard ones, no native_decide.
-/
import Yae.Proofs.NumLemmas
import Yae.Proofs.LexRegexBase
namespace Yae.Num

/-! ## 1. digits in a base -/

/-- positional value of a digit string in `base` (a character that is no digit counts 0) -/
def valueInBase (base : Nat) (ds : List Char) : Nat :=
  ds.foldl (fun acc c => acc * base + (baseDigit c).getD 0) 0

/-- a non-empty string of digits (`0-9a-zA-Z` as `strconv` reads them), each below `base` -/
def digitsOK (base : Nat) (ds : List Char) : Prop :=
  ds ≠ [] ∧ ∀ c ∈ ds, ∃ d, baseDigit c = some d ∧ d < base

/-- Boolean form of `digitsOK`, for `decide`. -/
def digitsOKb (base : Nat) (ds : List Char) : Bool :=
  !ds.isEmpty && ds.all fun c => match baseDigit c with | some d => decide (d < base) | none => false

theorem digitsOK_iff (base : Nat) (ds : List Char) : digitsOK base ds ↔ digitsOKb base ds = true := by
  unfold digitsOK digitsOKb
  have h1 : ds ≠ [] ↔ (!ds.isEmpty) = true := by cases ds <;> simp
  have h2 : ∀ c, (∃ d, baseDigit c = some d ∧ d < base) ↔
      (match baseDigit c with | some d => decide (d < base) | none => false) = true := by
    intro c; cases baseDigit c <;> simp
  simp only [Bool.and_eq_true, List.all_eq_true, h1]
  exact and_congr Iff.rfl (forall_congr' fun c => imp_congr Iff.rfl (h2 c))

instance (base : Nat) (ds : List Char) : Decidable (digitsOK base ds) :=
  decidable_of_iff _ (digitsOK_iff base ds).symm

theorem parseUint_fold (base : Nat) (ds : List Char)
    (h : ∀ c ∈ ds, ∃ d, baseDigit c = some d ∧ d < base) (a : Nat) :
    ds.foldl (fun (acc : Option Nat) c =>
      match acc, baseDigit c with
      | some a, some d => if d < base then some (a * base + d) else none
      | _, _ => none) (some a)
    = some (ds.foldl (fun acc c => acc * base + (baseDigit c).getD 0) a) := by
  induction ds generalizing a with
  | nil => rfl
  | cons c ds ih =>
    obtain ⟨d, hd, hlt⟩ := h c (by simp)
    simp only [List.foldl_cons, hd, hlt, if_true, Option.getD_some]
    exact ih (fun c hc => h c (by simp [hc])) _

/-- A non-empty string of digits, each below the base, is read as its positional value
    (`strconv.ParseUint` without the range check). -/
theorem parseUintBase_eq {base : Nat} {ds : List Char} (h : digitsOK base ds) :
    parseUintBase base ds = some (valueInBase base ds) := by
  obtain ⟨hne, hall⟩ := h
  unfold parseUintBase valueInBase
  have : ds.isEmpty = false := by cases ds <;> simp_all
  rw [this]
  exact parseUint_fold base ds hall 0

/-- `strconv.ParseInt(ds, base, 64)` on such a string: the value if it is below `2^63`, else a range
    error. -/
theorem parseIntBase_eq {base : Nat} {ds : List Char} (h : digitsOK base ds) :
    parseIntBase base ds
      = if valueInBase base ds < 2 ^ 63 then some (valueInBase base ds : Int) else none := by
  obtain ⟨hne, hall⟩ := h
  cases ds with
  | nil => exact absurd rfl hne
  | cons c t =>
    obtain ⟨d, hd, _⟩ := hall c (by simp)
    have hp : c ≠ '+' := by intro e; subst e; simp [baseDigit] at hd
    have hm : c ≠ '-' := by intro e; subst e; simp [baseDigit] at hd
    unfold parseIntBase
    simp [hp, hm, parseUintBase_eq ⟨hne, hall⟩]

theorem intToBits_natCast (n : Nat) : intToBits (n : Int) = natToBits n := by
  unfold intToBits
  have : ¬ ((n : Int) < 0) := by omega
  simp [this]

/-! ## helper lemmas: `takeWhile` / `dropWhile isDigit`, and `scanDecimal` in two steps -/

theorem takeWhile_digits_stop (ip : List Char) (c : Char) (rest : List Char)
    (hip : ∀ x ∈ ip, isDigit x = true) (hc : isDigit c = false) :
    (ip ++ c :: rest).takeWhile isDigit = ip := by
  rw [List.takeWhile_append_of_pos hip, List.takeWhile_cons_of_neg (by simp [hc])]; simp

theorem dropWhile_digits_stop (ip : List Char) (c : Char) (rest : List Char)
    (hip : ∀ x ∈ ip, isDigit x = true) (hc : isDigit c = false) :
    (ip ++ c :: rest).dropWhile isDigit = c :: rest := by
  rw [List.dropWhile_append_of_pos hip, List.dropWhile_cons_of_neg (by simp [hc])]

theorem takeWhile_digits_all (ip : List Char) (hip : ∀ x ∈ ip, isDigit x = true) :
    ip.takeWhile isDigit = ip := by
  simpa using List.takeWhile_append_of_pos (l₂ := []) hip

theorem dropWhile_digits_all (ip : List Char) (hip : ∀ x ∈ ip, isDigit x = true) :
    ip.dropWhile isDigit = [] := by
  simpa using List.dropWhile_append_of_pos (l₂ := []) hip

/-- What `scanDecimal` does with the text after the mantissa (`mant` = the mantissa digits read as
    a number, `fl` = the number of fraction digits): end of text, or one exponent part. -/
def expTail (mant : Nat) (fl : Int) : List Char → Option (Nat × Int)
  | [] => some (mant, -fl)
  | c :: t =>
    if c == 'e' || c == 'E' then
      let (neg, t') : Bool × List Char :=
        match t with
        | '+' :: u => (false, u)
        | '-' :: u => (true, u)
        | _ => (false, t)
      if t'.isEmpty || !t'.all isDigit then none
      else
        let ev : Int := digitsValCapped 100000 t'
        some (mant, (if neg then -ev else ev) - fl)
    else none

/-- a text that is empty or starts with a character that is no digit and (when `nodot`) not `.` -/
def stops (nodot : Bool) (r : List Char) : Prop :=
  ∀ c t, r = c :: t → isDigit c = false ∧ (nodot = true → c ≠ '.')

/-- integer part only, then `r` -/
theorem scanDecimal_noFrac (ip r : List Char) (hip : ∀ x ∈ ip, isDigit x = true) (hne : ip ≠ [])
    (hr : stops true r) : scanDecimal (ip ++ r) = expTail (digitsVal ip) 0 r := by
  have hemp : ip.isEmpty = false := by cases ip <;> simp_all
  have key : scanDecimal (ip ++ r)
      = expTail (digitsVal (ip ++ [])) (([] : List Char).length : Int) r := by
    cases r with
    | nil =>
      unfold scanDecimal
      rw [List.append_nil, takeWhile_digits_all ip hip, dropWhile_digits_all ip hip]
      simp [hemp, expTail]
    | cons c t =>
      obtain ⟨hc, hdot⟩ := hr c t rfl
      unfold scanDecimal
      rw [takeWhile_digits_stop _ _ _ hip hc, dropWhile_digits_stop _ _ _ hip hc]
      have hcd : c ≠ '.' := hdot rfl
      cases t with
      | nil => simp [hcd, hemp, expTail]
      | cons d u =>
        by_cases hp : d = '+'
        · subst hp; simp [hcd, hemp, expTail]
        · by_cases hm : d = '-'
          · subst hm; simp [hcd, hemp, expTail]
          · simp [hcd, hemp, expTail, hp, hm]
  simpa using key

/-- integer part (possibly empty), `.`, fraction digits (possibly none), then `r` -/
theorem scanDecimal_frac (ip fp r : List Char) (hip : ∀ x ∈ ip, isDigit x = true)
    (hfp : ∀ x ∈ fp, isDigit x = true) (hne : ip ≠ [] ∨ fp ≠ []) (hr : stops false r) :
    scanDecimal (ip ++ '.' :: (fp ++ r)) = expTail (digitsVal (ip ++ fp)) fp.length r := by
  have hemp : (ip.isEmpty && fp.isEmpty) = false := by
    rcases hne with h | h
    · cases ip <;> simp_all
    · cases fp <;> simp_all
  have hdot : isDigit '.' = false := by decide
  unfold scanDecimal
  rw [takeWhile_digits_stop _ _ _ hip hdot, dropWhile_digits_stop _ _ _ hip hdot]
  cases r with
  | nil =>
    simp only [List.append_nil, takeWhile_digits_all fp hfp, dropWhile_digits_all fp hfp, hemp]
    rfl
  | cons c t =>
    obtain ⟨hc, _⟩ := hr c t rfl
    simp only [takeWhile_digits_stop _ _ _ hfp hc, dropWhile_digits_stop _ _ _ hfp hc, hemp]
    rfl

/-- the exponent a text `[+-]? digits` denotes (digits capped at 100000, far outside the finite
    range) -/
def signedExp (sgn es : List Char) : Int :=
  if sgn = ['-'] then -(digitsValCapped 100000 es : Int) else (digitsValCapped 100000 es : Int)

theorem digit_not_sign {d : Char} (h : isDigit d = true) : d ≠ '+' ∧ d ≠ '-' := by
  constructor <;> (intro e; subst e; simp [isDigit] at h)

theorem expTail_exp (mant : Nat) (fl : Int) (e : Char) (sgn es : List Char)
    (he : e = 'e' ∨ e = 'E') (hs : sgn = [] ∨ sgn = ['+'] ∨ sgn = ['-'])
    (hes : ∀ x ∈ es, isDigit x = true) (hne : es ≠ []) :
    expTail mant fl (e :: (sgn ++ es)) = some (mant, signedExp sgn es - fl) := by
  cases es with
  | nil => exact absurd rfl hne
  | cons d u =>
    have hd : isDigit d = true := hes d (by simp)
    have hu : ∀ x ∈ u, isDigit x = true := fun x hx => hes x (by simp [hx])
    obtain ⟨h1, h2⟩ := digit_not_sign hd
    rcases he with rfl | rfl <;> rcases hs with rfl | rfl | rfl <;>
      (simp [expTail, signedExp, h1, h2, hd]; exact hu)

/-- anything but `e`/`E` after the mantissa is an error -/
theorem expTail_other (mant : Nat) (fl : Int) (c : Char) (t : List Char)
    (h1 : c ≠ 'e') (h2 : c ≠ 'E') : expTail mant fl (c :: t) = none := by
  simp [expTail, h1, h2]

/-- anything but digits after the exponent's sign is an error -/
theorem expTail_junk (mant : Nat) (fl : Int) (e : Char) (sgn es : List Char) (c : Char)
    (rest : List Char) (hs : sgn = [] ∨ sgn = ['+'] ∨ sgn = ['-'])
    (hes : ∀ x ∈ es, isDigit x = true) (hne : es ≠ []) (hc : isDigit c = false) :
    expTail mant fl (e :: (sgn ++ (es ++ c :: rest))) = none := by
  cases es with
  | nil => exact absurd rfl hne
  | cons d u =>
    have hd : isDigit d = true := hes d (by simp)
    obtain ⟨h1, h2⟩ := digit_not_sign hd
    by_cases hE : (e == 'e' || e == 'E') = true
    · rcases hs with rfl | rfl | rfl <;> simp [expTail, h1, h2, hc]
    · simp only [Bool.not_eq_true] at hE
      simp [expTail, hE]

/-! ## `parseFloatBits` / `parseNumLitBits` on unsigned texts -/

/-- a text whose first character is neither `+` nor `-` -/
def unsignedHead (cs : List Char) : Prop := ∀ c t, cs = c :: t → c ≠ '+' ∧ c ≠ '-'

theorem parseFloatBits_unsigned (cs : List Char) (h : unsignedHead cs) :
    parseFloatBits (String.ofList cs)
      = (scanDecimal cs).bind (fun p => decimalToBits p.1 p.2) := by
  unfold parseFloatBits
  rw [String.toList_ofList]
  cases cs with
  | nil => cases hs : scanDecimal [] with
    | none => simp [hs]
    | some p => simp [hs]
  | cons c t =>
    obtain ⟨h1, h2⟩ := h c t rfl
    cases hs : scanDecimal (c :: t) with
    | none => simp [hs, h1, h2]
    | some p => simp [hs, h1, h2]

theorem parseFloatBits_scan_none {cs : List Char} (h : unsignedHead cs)
    (hs : scanDecimal cs = none) : parseFloatBits (String.ofList cs) = none := by
  rw [parseFloatBits_unsigned cs h, hs]; rfl

theorem unsignedHead_digits (ip r : List Char) (hip : ∀ x ∈ ip, isDigit x = true) (hne : ip ≠ []) :
    unsignedHead (ip ++ r) := by
  cases ip with
  | nil => exact absurd rfl hne
  | cons d u =>
    intro c t e
    simp only [List.cons_append, List.cons.injEq] at e
    obtain ⟨rfl, _⟩ := e; exact digit_not_sign (hip _ (by simp))

/-- a text that does not start with `0x`, `0b`, `0o` -/
def notRadixHead (cs : List Char) : Prop :=
  ∀ c t, cs = '0' :: c :: t → c ≠ 'x' ∧ c ≠ 'b' ∧ c ≠ 'o'

/-- Off the three radix prefixes `parseNum` is `strconv.ParseFloat` alone. -/
theorem parseNumLitBits_notRadix (cs : List Char) (h : notRadixHead cs) :
    parseNumLitBits (String.ofList cs) = parseFloatBits (String.ofList cs) := by
  unfold parseNumLitBits
  cases hp : parseFloatBits (String.ofList cs) with
  | some f => rfl
  | none =>
    simp only [String.toList_ofList]
    split
    · rename_i rest; exact absurd rfl (h _ _ rfl).1
    · rename_i rest; exact absurd rfl (h _ _ rfl).2.1
    · rename_i rest; exact absurd rfl (h _ _ rfl).2.2
    · rfl

theorem notRadixHead_digits (ip r : List Char) (hip : ∀ x ∈ ip, isDigit x = true) (hne : ip ≠ [])
    (hr : ∀ c t, r = c :: t → c ≠ 'x' ∧ c ≠ 'b' ∧ c ≠ 'o') : notRadixHead (ip ++ r) := by
  have hdig : ∀ c, isDigit c = true → c ≠ 'x' ∧ c ≠ 'b' ∧ c ≠ 'o' := by
    intro c hc; refine ⟨?_, ?_, ?_⟩ <;> (intro e; subst e; simp [isDigit] at hc)
  intro c t e
  cases ip with
  | nil => exact absurd rfl hne
  | cons d u =>
    cases u with
    | nil =>
      simp only [List.cons_append, List.nil_append, List.cons.injEq] at e
      exact hr c t e.2
    | cons d' u' =>
      simp only [List.cons_append, List.cons.injEq] at e
      obtain ⟨_, rfl, _⟩ := e
      exact hdig _ (hip _ (by simp))

/-! ## 2. radix literals -/

theorem scanDecimal_radix (l : Char) (ds : List Char) (hd : isDigit l = false) (h1 : l ≠ '.')
    (h2 : l ≠ 'e') (h3 : l ≠ 'E') : scanDecimal ('0' :: l :: ds) = none := by
  have hip : ∀ x ∈ ['0'], isDigit x = true := by decide
  have := scanDecimal_noFrac ['0'] (l :: ds) hip (by simp)
    (by intro c t e; cases e; exact ⟨hd, fun _ => h1⟩)
  rw [show ['0'] ++ l :: ds = '0' :: l :: ds from rfl] at this
  rw [this, expTail_other _ _ _ _ h2 h3]

/-- `strconv.ParseFloat` refuses `0x…`, `0b…`, `0o…` (hexadecimal floats are not modelled, and a
    hexadecimal float needs a `p` exponent which no lexeme has). -/
theorem parseFloatBits_radix (l : Char) (ds : List Char) (hl : l = 'x' ∨ l = 'b' ∨ l = 'o') :
    parseFloatBits (String.ofList ('0' :: l :: ds)) = none := by
  have h : isDigit l = false ∧ l ≠ '.' ∧ l ≠ 'e' ∧ l ≠ 'E' := by
    rcases hl with rfl | rfl | rfl <;> decide
  exact parseFloatBits_scan_none (by intro c t e; cases e; decide)
    (scanDecimal_radix l ds h.1 h.2.1 h.2.2.1 h.2.2.2)

/-- the three radix prefixes -/
def radixOf (letter : Char) (base : Nat) : Prop :=
  (letter = 'x' ∧ base = 16) ∨ (letter = 'b' ∧ base = 2) ∨ (letter = 'o' ∧ base = 8)

/-- RADIX LITERALS, exactly.  `0x`/`0b`/`0o` followed by a non-empty string of digits of that base
    denotes the double nearest to the positional value `v` of the digits when `v < 2^63`, and is
    rejected when `v ≥ 2^63` (`strconv.ParseInt(…, 64)` range error; nothing else is tried). -/
theorem parseNumLitBits_radix {letter : Char} {base : Nat} (hl : radixOf letter base)
    {ds : List Char} (h : digitsOK base ds) :
    parseNumLitBits (String.ofList ('0' :: letter :: ds))
      = if valueInBase base ds < 2 ^ 63 then some (natToBits (valueInBase base ds)) else none := by
  have hf := parseFloatBits_radix letter ds
    (by rcases hl with ⟨rfl, _⟩ | ⟨rfl, _⟩ | ⟨rfl, _⟩ <;> simp)
  unfold parseNumLitBits
  rw [hf]
  simp only [String.toList_ofList]
  rcases hl with ⟨rfl, rfl⟩ | ⟨rfl, rfl⟩ | ⟨rfl, rfl⟩ <;>
    (simp only [parseIntBase_eq h]; split <;> simp [intToBits_natCast])

/-- the same about `Float`s: `float64(v)` below `2^63`, an error from `2^63` on -/
theorem parseNumLit_radix {letter : Char} {base : Nat} (hl : radixOf letter base)
    {ds : List Char} (h : digitsOK base ds) :
    parseNumLit (String.ofList ('0' :: letter :: ds))
      = if valueInBase base ds < 2 ^ 63 then some (intToFloat (valueInBase base ds)) else none := by
  unfold parseNumLit
  rw [parseNumLitBits_radix hl h]
  split <;> simp [intToFloat, intToBits_natCast]

/-- FINDING, general form: a radix literal whose value does not fit an int64 is not a number for
    `parseNum`, although the lexer's pattern puts no bound on the number of digits. -/
theorem parseNumLitBits_radix_overflow {letter : Char} {base : Nat} (hl : radixOf letter base)
    {ds : List Char} (h : digitsOK base ds) (hv : 2 ^ 63 ≤ valueInBase base ds) :
    parseNumLitBits (String.ofList ('0' :: letter :: ds)) = none := by
  rw [parseNumLitBits_radix hl h, if_neg (by omega)]

/-- what is known of `float64(n)` for `n < 2^53`: `int64` reads `n` back, it is integer-valued and
    yae prints it as `n` in decimal -/
theorem natToBits_exact (n : Nat) (h : n < 2 ^ 53) :
    toInt64Bits (natToBits n) = n ∧ isIntBits (natToBits n) = true
      ∧ renderNumBits (natToBits n) = fmtNat n := by
  have hn : (n : Int).natAbs < 2 ^ 53 := by simpa using h
  refine ⟨toInt64Bits_natToBits n h, ?_, ?_⟩
  · simpa [intToBits_natCast] using isIntBits_intToBits (n : Int) hn
  · have := renderNumBits_intToBits (n : Int) hn
    rw [intToBits_natCast] at this
    exact this

/-- EXACTNESS below `2^53`: the radix literal denotes exactly its positional value: the resulting
    double converts to that int64 and prints as that integer in decimal. -/
theorem radix_exact {letter : Char} {base : Nat} (hl : radixOf letter base)
    {ds : List Char} (h : digitsOK base ds) (hv : valueInBase base ds < 2 ^ 53) :
    ∃ b, parseNumLitBits (String.ofList ('0' :: letter :: ds)) = some b
      ∧ toInt64Bits b = valueInBase base ds ∧ renderNumBits b = fmtNat (valueInBase base ds) := by
  refine ⟨natToBits (valueInBase base ds), ?_, (natToBits_exact _ hv).1, (natToBits_exact _ hv).2.2⟩
  rw [parseNumLitBits_radix hl h, if_pos (by omega)]

/-! ## 3. decimal integer literals -/

theorem natDigits_length_le : ∀ (k n : Nat), n < 10 ^ (k + 1) → (natDigits n).length ≤ k + 1 := by
  intro k
  induction k with
  | zero => intro n h; rw [natDigits, dif_pos (by simpa using h)]; simp
  | succ k ih =>
    intro n h
    by_cases h10 : n < 10
    · rw [natDigits, dif_pos h10]; simp
    · rw [natDigits, dif_neg h10]
      have hlt : n / 10 < 10 ^ (k + 1) := by
        apply Nat.div_lt_of_lt_mul
        rw [Nat.pow_succ, Nat.mul_comm] at h
        exact h
      have := ih _ hlt
      simp only [List.length_append, List.length_singleton]
      omega

set_option exponentiation.threshold 1100 in
/-- OVERFLOW: from `2^1024` on `float64(n)` is `+Inf` in the model (the exact threshold,
    `2^1024 - 2^970`, is not needed here). -/
theorem natToBits_huge (n : Nat) (h : 2 ^ 1024 ≤ n) : natToBits n = infBits := by
  have h0 : 0 < n := Nat.lt_of_lt_of_le (Nat.two_pow_pos 1024) h
  have ⟨hlo, hhi, hL1⟩ := bitLen_bounds n h0
  have hL : 1025 ≤ bitLen n := by
    apply Decidable.byContradiction
    intro hc
    have h2 : 2 ^ bitLen n ≤ 2 ^ 1024 := Nat.pow_le_pow_right (by decide) (by omega)
    exact absurd (Nat.lt_of_lt_of_le hhi h2) (Nat.not_lt.mpr h)
  unfold natToBits
  have hz : (n == 0) = false := by simp; omega
  simp only [hz]; unfold packRound; simp only []
  obtain ⟨d, hd⟩ : ∃ d, bitLen n - 53 = d + 1 := ⟨bitLen n - 54, by omega⟩
  have hdrop : max ((bitLen n : Int) - 53) (-1074 - 0) = Int.ofNat (d + 1) := by
    simp only [Int.ofNat_eq_natCast]; omega
  rw [hdrop]
  simp only []
  have hm : 2 ^ 52 ≤ n >>> (d + 1) := by
    rw [Nat.shiftRight_eq_div_pow]
    have hp : 2 ^ 52 * 2 ^ (d + 1) ≤ n := by
      rw [← Nat.pow_add]
      have e : 52 + (d + 1) = bitLen n - 1 := by omega
      rw [e]; exact hlo
    exact (Nat.le_div_iff_mul_le (Nat.pow_pos (by decide))).mpr hp
  rw [if_neg (by decide), if_pos]
  split <;> (simp only [Int.ofNat_eq_natCast]; omega)

theorem natToBits_small_ne_inf (n : Nat) (h : n < 2 ^ 53) : natToBits n ≠ infBits := by
  intro e
  have h1 := toInt64Bits_natToBits n h
  rw [e] at h1
  have h2 : toInt64Bits infBits = minInt64 := by decide
  rw [h2, minInt64] at h1
  omega

set_option exponentiation.threshold 1100 in
/-- `strconv.ParseFloat` on an integer mantissa with exponent 0: `float64(n)` by `natToBits`, an
    error exactly when that is `+Inf` -/
theorem decimalToBits_exp_zero (n : Nat) :
    decimalToBits n 0 = if natToBits n = infBits then none else some (natToBits n) := by
  by_cases h0 : n = 0
  · subst h0; decide
  · unfold decimalToBits
    have hz : (n == 0) = false := by simp [h0]
    simp only [hz, Bool.false_eq_true, ↓reduceIte]
    split
    · rename_i hbig
      have h10 : 10 ^ 310 ≤ n := by
        apply Decidable.byContradiction
        intro hc
        have := natDigits_length_le 309 n (by omega)
        omega
      have h2 : (2 : Nat) ^ 1024 ≤ 10 ^ 310 := by decide
      rw [natToBits_huge n (Nat.le_trans h2 h10)]
      simp
    · split
      · omega
      · show (if (natToBits (n * 10 ^ 0) == infBits) = true then none
            else some (natToBits (n * 10 ^ 0))) = _
        rw [Nat.pow_zero, Nat.mul_one]
        by_cases hb : natToBits n = infBits <;> simp [hb]

theorem parseFloatBits_scan {cs : List Char} (h : unsignedHead cs) {m : Nat} {e : Int}
    (hs : scanDecimal cs = some (m, e)) : parseFloatBits (String.ofList cs) = decimalToBits m e := by
  rw [parseFloatBits_unsigned cs h, hs]; rfl

/-- `strconv.ParseFloat` on a non-empty string of decimal digits: mantissa = the digits read as a
    number, decimal exponent 0 -/
theorem parseFloatBits_digits (ds : List Char) (hne : ds ≠ []) (hds : ∀ c ∈ ds, isDigit c = true) :
    parseFloatBits (String.ofList ds) = decimalToBits (digitsVal ds) 0 := by
  have h1 := unsignedHead_digits ds [] hds hne
  have h2 := scanDecimal_noFrac ds [] hds hne (by intro c t e; cases e)
  rw [List.append_nil] at h1 h2
  rw [parseFloatBits_scan h1 (m := digitsVal ds) (e := 0) (by rw [h2]; rfl)]

/-- DECIMAL INTEGER LITERALS, all of them.  A non-empty string of decimal digits `ds` denotes
    `natToBits (digitsVal ds)`: by definition of the model (`natToBits n = packRound n false 0`)
    the binary64 nearest to the number written, ties to even (exact below `2^53`, see
    `digits_exact`), and is rejected when that is `+Inf` (`strconv.ParseFloat` range error; the
    radix fall-back does not apply to a text of digits). -/
theorem parseNumLitBits_digits (ds : List Char) (hne : ds ≠ []) (hds : ∀ c ∈ ds, isDigit c = true) :
    parseNumLitBits (String.ofList ds)
      = if natToBits (digitsVal ds) = infBits then none else some (natToBits (digitsVal ds)) := by
  have h := notRadixHead_digits ds [] hds hne (by intro c t e; cases e)
  rw [List.append_nil] at h
  rw [parseNumLitBits_notRadix ds h, parseFloatBits_digits ds hne hds, decimalToBits_exp_zero]

/-- conditional form: whenever `float64` of the number written is finite, that is the value -/
theorem parseNumLitBits_digits_finite (ds : List Char) (hne : ds ≠ [])
    (hds : ∀ c ∈ ds, isDigit c = true) (hfin : natToBits (digitsVal ds) ≠ infBits) :
    parseNumLitBits (String.ofList ds) = some (natToBits (digitsVal ds)) := by
  rw [parseNumLitBits_digits ds hne hds, if_neg hfin]

/-- below `2^53` there is no rounding and no overflow -/
theorem parseNumLitBits_digits_small (ds : List Char) (hne : ds ≠ [])
    (hds : ∀ c ∈ ds, isDigit c = true) (hv : digitsVal ds < 2 ^ 53) :
    parseNumLitBits (String.ofList ds) = some (natToBits (digitsVal ds)) :=
  parseNumLitBits_digits_finite ds hne hds (natToBits_small_ne_inf _ hv)

theorem parseNumLit_digits_small (ds : List Char) (hne : ds ≠ [])
    (hds : ∀ c ∈ ds, isDigit c = true) (hv : digitsVal ds < 2 ^ 53) :
    parseNumLit (String.ofList ds) = some (intToFloat (digitsVal ds)) := by
  unfold parseNumLit
  rw [parseNumLitBits_digits_small ds hne hds hv]
  simp [intToFloat, intToBits_natCast]

/-- EXACTNESS below `2^53`: the decimal literal denotes exactly the integer written: the resulting
    double converts to that int64 and prints as that integer. -/
theorem digits_exact (ds : List Char) (hne : ds ≠ []) (hds : ∀ c ∈ ds, isDigit c = true)
    (hv : digitsVal ds < 2 ^ 53) :
    ∃ b, parseNumLitBits (String.ofList ds) = some b
      ∧ toInt64Bits b = digitsVal ds ∧ renderNumBits b = fmtNat (digitsVal ds) :=
  ⟨_, parseNumLitBits_digits_small ds hne hds hv, (natToBits_exact _ hv).1, (natToBits_exact _ hv).2.2⟩

/-- the canonical decimal text of `n` (`strconv.FormatInt`) read as a literal -/
theorem parseNumLitBits_fmtNat_general (n : Nat) :
    parseNumLitBits (fmtNat n) = if natToBits n = infBits then none else some (natToBits n) := by
  have := parseNumLitBits_digits (natDigits n) (natDigits_ne_nil n) (natDigits_all_digits n)
  rw [digitsVal_natDigits] at this
  exact this

/-- `n < 2^53` written in canonical decimal denotes `n`; so the text yae prints for an integer
    value below `2^53` reads back as the same double. -/
theorem parseNumLitBits_fmtNat (n : Nat) (h : n < 2 ^ 53) :
    parseNumLitBits (fmtNat n) = some (natToBits n) := by
  rw [parseNumLitBits_fmtNat_general, if_neg (natToBits_small_ne_inf n h)]

theorem parseNumLitBits_render_roundtrip (n : Nat) (h : n < 2 ^ 53) :
    parseNumLitBits (renderNumBits (natToBits n)) = some (natToBits n) := by
  rw [(natToBits_exact n h).2.2, parseNumLitBits_fmtNat n h]

/-! ## 4. the two float forms, as decompositions -/

theorem stops_exp {nodot : Bool} {e : Char} (t : List Char) (he : e = 'e' ∨ e = 'E') :
    stops nodot (e :: t) := by
  intro c t' h; cases h
  rcases he with rfl | rfl <;> exact ⟨by decide, fun _ => by decide⟩

/-- After a non-empty integer part made of digits, followed by nothing or by `.`, `e`, `E`,
    `parseNum` is `strconv.ParseFloat` alone: when that fails (syntax or overflow) the radix
    fall-back fails too, the text does not start with `0x`/`0b`/`0o`. -/
theorem parseNumLitBits_decimalShape (ip r : List Char) (hip : ∀ x ∈ ip, isDigit x = true)
    (hne : ip ≠ []) (hr : ∀ c t, r = c :: t → c = '.' ∨ c = 'e' ∨ c = 'E') :
    parseNumLitBits (String.ofList (ip ++ r)) = parseFloatBits (String.ofList (ip ++ r)) := by
  apply parseNumLitBits_notRadix
  apply notRadixHead_digits ip r hip hne
  intro c t e
  rcases hr c t e with rfl | rfl | rfl <;> decide

/-- `digits . digits`: mantissa = all the digits, exponent = −(number of fraction digits) -/
theorem parseFloatBits_fraction (ip fp : List Char) (hip : ∀ x ∈ ip, isDigit x = true)
    (hne : ip ≠ []) (hfp : ∀ x ∈ fp, isDigit x = true) :
    parseFloatBits (String.ofList (ip ++ '.' :: fp))
      = decimalToBits (digitsVal (ip ++ fp)) (-(fp.length : Int)) := by
  have h2 := scanDecimal_frac ip fp [] hip hfp (.inl hne) (by intro c t e; cases e)
  rw [List.append_nil] at h2
  exact parseFloatBits_scan (unsignedHead_digits ip _ hip hne) (by rw [h2]; rfl)

/-- `digits (e|E) [+-]? digits`: mantissa = the digits, exponent = the signed exponent -/
theorem parseFloatBits_exp (ip : List Char) (e : Char) (sgn es : List Char)
    (hip : ∀ x ∈ ip, isDigit x = true) (hne : ip ≠ []) (he : e = 'e' ∨ e = 'E')
    (hs : sgn = [] ∨ sgn = ['+'] ∨ sgn = ['-']) (hes : ∀ x ∈ es, isDigit x = true) (hes0 : es ≠ []) :
    parseFloatBits (String.ofList (ip ++ e :: (sgn ++ es)))
      = decimalToBits (digitsVal ip) (signedExp sgn es) := by
  have h2 := scanDecimal_noFrac ip (e :: (sgn ++ es)) hip hne (stops_exp _ he)
  rw [expTail_exp _ _ e sgn es he hs hes hes0, Int.sub_zero] at h2
  exact parseFloatBits_scan (unsignedHead_digits ip _ hip hne) h2

/-- `digits . digits (e|E) [+-]? digits`: mantissa = all the mantissa digits,
    exponent = signed exponent − number of fraction digits -/
theorem parseFloatBits_fraction_exp (ip fp : List Char) (e : Char) (sgn es : List Char)
    (hip : ∀ x ∈ ip, isDigit x = true) (hne : ip ≠ []) (hfp : ∀ x ∈ fp, isDigit x = true)
    (he : e = 'e' ∨ e = 'E') (hs : sgn = [] ∨ sgn = ['+'] ∨ sgn = ['-'])
    (hes : ∀ x ∈ es, isDigit x = true) (hes0 : es ≠ []) :
    parseFloatBits (String.ofList (ip ++ '.' :: (fp ++ e :: (sgn ++ es))))
      = decimalToBits (digitsVal (ip ++ fp)) (signedExp sgn es - (fp.length : Int)) := by
  have h2 := scanDecimal_frac ip fp (e :: (sgn ++ es)) hip hfp (.inl hne) (stops_exp _ he)
  rw [expTail_exp _ _ e sgn es he hs hes hes0] at h2
  exact parseFloatBits_scan (unsignedHead_digits ip _ hip hne) h2

/-- THE FLOAT FORMS for `parseNum`: the three shapes denote `decimalToBits mantissa exponent` (the
    double nearest to `mantissa · 10^exponent` as the model computes it, `none` on overflow); the
    radix fall-back never applies. -/
theorem parseNumLitBits_float (ip fp : List Char) (e : Char) (sgn es : List Char)
    (hip : ∀ x ∈ ip, isDigit x = true) (hne : ip ≠ []) (hfp : ∀ x ∈ fp, isDigit x = true)
    (he : e = 'e' ∨ e = 'E') (hs : sgn = [] ∨ sgn = ['+'] ∨ sgn = ['-'])
    (hes : ∀ x ∈ es, isDigit x = true) (hes0 : es ≠ []) :
    parseNumLitBits (String.ofList (ip ++ '.' :: fp))
        = decimalToBits (digitsVal (ip ++ fp)) (-(fp.length : Int))
    ∧ parseNumLitBits (String.ofList (ip ++ e :: (sgn ++ es)))
        = decimalToBits (digitsVal ip) (signedExp sgn es)
    ∧ parseNumLitBits (String.ofList (ip ++ '.' :: (fp ++ e :: (sgn ++ es))))
        = decimalToBits (digitsVal (ip ++ fp)) (signedExp sgn es - (fp.length : Int)) := by
  refine ⟨?_, ?_, ?_⟩
  · rw [parseNumLitBits_decimalShape ip _ hip hne (by intro c t h; cases h; exact .inl rfl)]
    exact parseFloatBits_fraction ip fp hip hne hfp
  · rw [parseNumLitBits_decimalShape ip _ hip hne
      (by intro c t h; cases h; exact .inr (by simpa using he))]
    exact parseFloatBits_exp ip e sgn es hip hne he hs hes hes0
  · rw [parseNumLitBits_decimalShape ip _ hip hne (by intro c t h; cases h; exact .inl rfl)]
    exact parseFloatBits_fraction_exp ip fp e sgn es hip hne hfp he hs hes hes0

/-- FINDING, general form: a second fraction group (`1.2.3`, a word of `(?:[.][0-9]+)+`) is not a
    number for `parseNum`. -/
theorem parseNumLitBits_two_dots (ip fp rest : List Char) (hip : ∀ x ∈ ip, isDigit x = true)
    (hne : ip ≠ []) (hfp : ∀ x ∈ fp, isDigit x = true) :
    parseNumLitBits (String.ofList (ip ++ '.' :: (fp ++ '.' :: rest))) = none := by
  rw [parseNumLitBits_decimalShape ip _ hip hne (by intro c t h; cases h; exact .inl rfl)]
  apply parseFloatBits_scan_none (unsignedHead_digits ip _ hip hne)
  rw [scanDecimal_frac ip fp _ hip hfp (.inl hne) (by intro c t h; cases h; exact ⟨by decide, by simp⟩)]
  exact expTail_other _ _ _ _ (by decide) (by decide)

/-- FINDING, general form: anything that is not a digit after the digits of an exponent, in
    particular a second exponent group (`1e2e3`, `1.5e2e3`: words of `(?:[eE][-+]?[0-9]+)+`), makes
    the text not a number for `parseNum`.  (`frac` is the optional fraction part.) -/
theorem parseNumLitBits_two_exps (ip frac : List Char) (e : Char) (sgn es : List Char) (c : Char)
    (rest : List Char) (hip : ∀ x ∈ ip, isDigit x = true) (hne : ip ≠ [])
    (hfrac : frac = [] ∨ ∃ fp, frac = '.' :: fp ∧ ∀ x ∈ fp, isDigit x = true)
    (he : e = 'e' ∨ e = 'E') (hs : sgn = [] ∨ sgn = ['+'] ∨ sgn = ['-'])
    (hes : ∀ x ∈ es, isDigit x = true) (hes0 : es ≠ []) (hc : isDigit c = false) :
    parseNumLitBits (String.ofList (ip ++ (frac ++ e :: (sgn ++ (es ++ c :: rest))))) = none := by
  rcases hfrac with rfl | ⟨fp, rfl, hfp⟩
  · rw [List.nil_append, parseNumLitBits_decimalShape ip _ hip hne
      (by intro c t h; cases h; exact .inr (by simpa using he))]
    apply parseFloatBits_scan_none (unsignedHead_digits ip _ hip hne)
    rw [scanDecimal_noFrac ip _ hip hne (stops_exp _ he)]
    exact expTail_junk _ _ e sgn es c rest hs hes hes0 hc
  · rw [List.cons_append, parseNumLitBits_decimalShape ip _ hip hne
      (by intro c t h; cases h; exact .inl rfl)]
    apply parseFloatBits_scan_none (unsignedHead_digits ip _ hip hne)
    rw [scanDecimal_frac ip fp _ hip hfp (.inl hne) (stops_exp _ he)]
    exact expTail_junk _ _ e sgn es c rest hs hes hes0 hc

/-! ## 5. the lexer's formal languages (`Yae.Spec.Regex`) -/

open Re in
/-- a whole-input match of the reference matcher puts the input in the language -/
theorem matches_of_matchLen {r : Re} {s : List Char} (h : r.matchLen s = some s.length) :
    r.Matches s := by
  obtain ⟨u, v, rfl, hu, hl⟩ := matchLen_sound h
  have : v = [] := by cases v with
    | nil => rfl
    | cons a t => simp at hl
  subst this; simpa using hu

theorem char_le_toNat (a b : Char) : a ≤ b ↔ a.toNat ≤ b.toNat := by
  rw [Char.le_def, UInt32.le_iff_toNat_le]; rfl

/-- `c` is a digit of `base` for `strconv` -/
def okDigit (base : Nat) (x : Char) : Prop := ∃ d, baseDigit x = some d ∧ d < base

theorem okDigit_of_toNat {base : Nat} {x : Char}
    (h : (48 ≤ x.toNat ∧ x.toNat ≤ 57 ∧ x.toNat - 48 < base) ∨
      (97 ≤ x.toNat ∧ x.toNat ≤ 122 ∧ x.toNat - 87 < base) ∨
      (65 ≤ x.toNat ∧ x.toNat ≤ 90 ∧ x.toNat - 55 < base)) : okDigit base x := by
  unfold okDigit baseDigit
  simp only [char_le_toNat, Bool.and_eq_true, decide_eq_true_eq, Char.reduceToNat]
  rcases h with ⟨h1, h2, h3⟩ | ⟨h1, h2, h3⟩ | ⟨h1, h2, h3⟩
  · rw [if_pos ⟨h1, h2⟩]; exact ⟨_, rfl, h3⟩
  · rw [if_neg (by omega), if_pos ⟨h1, h2⟩]; exact ⟨_, rfl, h3⟩
  · rw [if_neg (by omega), if_neg (by omega), if_pos ⟨h1, h2⟩]; exact ⟨_, rfl, h3⟩

open Re in
/-- the common shape `(?:0|first rest*)` of the integer bodies: non-empty, all characters in `P` -/
theorem litBody_all (P : Char → Prop) (first : Re) (rest : List CItem) (h0 : P '0')
    (hf : ∀ u, first.Matches u → ∃ x, u = [x] ∧ P x)
    (hr : ∀ x, clsTest false rest x = true → P x) {w : List Char}
    (h : (Re.grp (.alt (.chr '0') (.cat first (.star (.cls false rest))))).Matches w) :
    w ≠ [] ∧ ∀ c ∈ w, P c := by
  rcases h.grp_inv.alt_inv with h | h
  · have := h.chr_inv; subst this
    exact ⟨by simp, by simpa using h0⟩
  · obtain ⟨u, v, rfl, hu, hv⟩ := h.cat_inv
    obtain ⟨x, rfl, hx⟩ := hf u hu
    refine ⟨by simp, ?_⟩
    have hv' : ∀ c ∈ v, P c := by
      refine Matches.star_induction (P := fun v => ∀ c ∈ v, P c) (by simp) ?_ hv
      intro a b ha _ ih c hc
      obtain ⟨y, rfl, hy⟩ := ha.cls_inv
      rcases List.mem_append.mp hc with hc | hc
      · simp at hc; subst hc; exact hr _ hy
      · exact ih c hc
    intro c hc
    simp only [List.singleton_append, List.mem_cons] at hc
    rcases hc with rfl | hc
    · exact hx
    · exact hv' c hc

open Re in
theorem radix_split {letter : Char} {G : Re} {w : List Char}
    (h : (Re.cat (.chr '0') (.cat (.chr letter) G)).Matches w) :
    ∃ ds, w = '0' :: letter :: ds ∧ G.Matches ds := by
  obtain ⟨u1, r1, rfl, h1, hr1⟩ := Matches.cat_inv h
  have := h1.chr_inv; subst this
  obtain ⟨u2, r2, rfl, h2, h3⟩ := hr1.cat_inv
  have := h2.chr_inv; subst this
  exact ⟨r2, rfl, h3⟩

local macro "cls_toNat " h:ident : tactic =>
  `(tactic| (simp [clsTest, CItem.test, char_le_toNat] at $h:ident; omega))

open Re in
/-- every word of the hex pattern is `0x` + a non-empty string of base-16 digits, so
    `parseNumLitBits_radix` decides every hex lexeme; likewise `0b`, `0o` below -/
theorem hex_shape {w : List Char} (h : (reOf .hex).Matches w) :
    ∃ ds, w = '0' :: 'x' :: ds ∧ digitsOK 16 ds := by
  obtain ⟨ds, rfl, hG⟩ := radix_split h
  refine ⟨ds, rfl, litBody_all (okDigit 16) _ _ ⟨0, by decide, by decide⟩ ?_ ?_ hG⟩
  · intro u hu; obtain ⟨x, rfl, hx⟩ := hu.cls_inv
    exact ⟨x, rfl, okDigit_of_toNat (by cls_toNat hx)⟩
  · intro x hx; exact okDigit_of_toNat (by cls_toNat hx)

open Re in
theorem bin_shape {w : List Char} (h : (reOf .bin).Matches w) :
    ∃ ds, w = '0' :: 'b' :: ds ∧ digitsOK 2 ds := by
  obtain ⟨ds, rfl, hG⟩ := radix_split h
  refine ⟨ds, rfl, litBody_all (okDigit 2) _ _ ⟨0, by decide, by decide⟩ ?_ ?_ hG⟩
  · intro u hu; have := hu.chr_inv; subst this; exact ⟨_, rfl, 1, by decide, by decide⟩
  · intro x hx; exact okDigit_of_toNat (by cls_toNat hx)

open Re in
theorem oct_shape {w : List Char} (h : (reOf .oct).Matches w) :
    ∃ ds, w = '0' :: 'o' :: ds ∧ digitsOK 8 ds := by
  obtain ⟨ds, rfl, hG⟩ := radix_split h
  refine ⟨ds, rfl, litBody_all (okDigit 8) _ _ ⟨0, by decide, by decide⟩ ?_ ?_ hG⟩
  · intro u hu; obtain ⟨x, rfl, hx⟩ := hu.cls_inv
    exact ⟨x, rfl, okDigit_of_toNat (by cls_toNat hx)⟩
  · intro x hx; exact okDigit_of_toNat (by cls_toNat hx)

theorem isDigit_of_toNat {x : Char} (h : 48 ≤ x.toNat ∧ x.toNat ≤ 57) : isDigit x = true := by
  simp only [isDigit, char_le_toNat, Bool.and_eq_true, decide_eq_true_eq, Char.reduceToNat]
  exact h

open Re in
/-- every word of the integer pattern `(?:0|[1-9][0-9]*)` is a non-empty string of decimal digits -/
theorem int_shape {w : List Char} (h : (reOf .int).Matches w) :
    w ≠ [] ∧ ∀ c ∈ w, isDigit c = true := by
  refine litBody_all (fun c => isDigit c = true) _ _ (by decide) ?_ ?_ h
  · intro u hu; obtain ⟨x, rfl, hx⟩ := hu.cls_inv
    exact ⟨x, rfl, isDigit_of_toNat (by cls_toNat hx)⟩
  · intro x hx; exact isDigit_of_toNat (by cls_toNat hx)

/-- THE LAW ON LEXEMES: what `parseNum` answers on every word of the hex pattern and on every word
    of the integer pattern (`bin`, `oct`: the same with `bin_shape`, `oct_shape`). -/
theorem hex_lexeme_value {w : List Char} (h : (reOf .hex).Matches w) :
    ∃ ds, w = '0' :: 'x' :: ds ∧ parseNumLitBits (String.ofList w)
      = if valueInBase 16 ds < 2 ^ 63 then some (natToBits (valueInBase 16 ds)) else none := by
  obtain ⟨ds, rfl, hds⟩ := hex_shape h
  exact ⟨ds, rfl, parseNumLitBits_radix (.inl ⟨rfl, rfl⟩) hds⟩

theorem int_lexeme_value {w : List Char} (h : (reOf .int).Matches w) :
    parseNumLitBits (String.ofList w)
      = if natToBits (digitsVal w) = infBits then none else some (natToBits (digitsVal w)) :=
  parseNumLitBits_digits w (int_shape h).1 (int_shape h).2

/-! ## instances, kernel-checked (no `Float` is evaluated); hypotheses are satisfiable -/

theorem radix_instances :
    parseNumLitBits "0xff" = some (natToBits 255) ∧ parseNumLitBits "0b101" = some (natToBits 5)
    ∧ parseNumLitBits "0o17" = some (natToBits 15)
    ∧ parseNumLitBits "0x7fffffffffffffff" = some (natToBits (2 ^ 63 - 1)) := by decide

/-- FINDING (kernel-checked): a lexeme of the hex pattern that `parseNum` rejects. -/
theorem radix_overflow_instance : (reOf .hex).Matches "0x8000000000000000".toList
    ∧ parseNumLitBits "0x8000000000000000" = none :=
  ⟨matches_of_matchLen (by decide), by decide⟩

example : parseNumLitBits (String.ofList ('0' :: 'x' :: "8000000000000000".toList)) = none :=
  parseNumLitBits_radix_overflow (.inl ⟨rfl, rfl⟩) (by decide) (by decide)

/-- FINDING (kernel-checked): lexemes of the two float patterns that `parseNum` rejects. -/
theorem float_reject_instances : (reOf .floatA).Matches "1.2.3".toList
    ∧ parseNumLitBits "1.2.3" = none ∧ (reOf .floatB).Matches "1e2e3".toList
    ∧ parseNumLitBits "1e2e3" = none :=
  ⟨matches_of_matchLen (by decide), by decide, matches_of_matchLen (by decide), by decide⟩

example : parseNumLitBits "12" = some (natToBits 12) :=
  parseNumLitBits_digits_small ['1', '2'] (by simp) (by decide) (by decide)
/-- at `2^53 + 1` the model rounds (ties to even): same double as `2^53` -/
example : parseNumLitBits "9007199254740993" = some (natToBits 9007199254740992) :=
  (parseNumLitBits_digits_finite "9007199254740993".toList (by decide) (by decide)
    (by decide)).trans (by decide)
example : parseNumLitBits "2.50E-3" = decimalToBits 250 (-5) :=
  (parseNumLitBits_float ['2'] ['5', '0'] 'E' ['-'] ['3'] (by decide) (by decide) (by decide)
    (by decide) (by decide) (by decide) (by decide)).2.2
example : parseNumLitBits "1.5" = decimalToBits 15 (-1) ∧ parseNumLitBits "1e2" = decimalToBits 1 2 :=
  have h := parseNumLitBits_float ['1'] ['5'] 'e' [] ['2'] (by decide) (by decide) (by decide)
    (by decide) (by decide) (by decide) (by decide)
  ⟨h.1, h.2.1⟩

end Yae.Num

#print axioms Yae.Num.parseUintBase_eq
#print axioms Yae.Num.parseNumLitBits_radix
#print axioms Yae.Num.parseNumLit_radix
#print axioms Yae.Num.radix_exact
#print axioms Yae.Num.natToBits_huge
#print axioms Yae.Num.parseNumLitBits_digits
#print axioms Yae.Num.digits_exact
#print axioms Yae.Num.parseNumLitBits_fmtNat
#print axioms Yae.Num.parseNumLitBits_float
#print axioms Yae.Num.parseNumLitBits_two_dots
#print axioms Yae.Num.parseNumLitBits_two_exps
#print axioms Yae.Num.hex_lexeme_value
#print axioms Yae.Num.oct_shape
#print axioms Yae.Num.int_lexeme_value
#print axioms Yae.Num.radix_overflow_instance
#print axioms Yae.Num.float_reject_instances
